// Package davx drives the real webdav.Handler{LocalFileSystem} on a real directory
// and renders sandboxes, requests and responses as S-expressions for the oracle.
package davx

import (
	"bytes"
	"context"
	"encoding/xml"
	"errors"
	"fmt"
	"io"
	"mime"
	"net/http"
	"net/http/httptest"
	"net/url"
	"os"
	"path"
	"path/filepath"
	"sort"
	"strconv"
	"strings"
	"time"

	webdav "github.com/emersion/go-webdav"

	"verifharness/hx"
)

// LinkMark starts the content of a node that stands for a symbolic link.
const LinkMark = "\x00symlink:"

// Node is a file-system tree: a file (Content) or a directory (Kids, sorted by name).
type Node struct {
	IsDir   bool
	Content string
	MTime   int64
	Names   []string
	Kids    map[string]*Node
}

func File(c string) *Node { return &Node{Content: c} }
func Dir(kv ...interface{}) *Node {
	n := &Node{IsDir: true, Kids: map[string]*Node{}}
	for i := 0; i+1 < len(kv); i += 2 {
		n.Put(kv[i].(string), kv[i+1].(*Node))
	}
	return n
}

func (n *Node) Put(name string, c *Node) {
	if _, ok := n.Kids[name]; !ok {
		n.Names = append(n.Names, name)
		sort.Strings(n.Names)
	}
	n.Kids[name] = c
}

func (n *Node) Clone() *Node {
	if n == nil {
		return nil
	}
	c := &Node{IsDir: n.IsDir, Content: n.Content, MTime: n.MTime}
	if n.IsDir {
		c.Kids = map[string]*Node{}
		for _, k := range n.Names {
			c.Names = append(c.Names, k)
			c.Kids[k] = n.Kids[k].Clone()
		}
	}
	return c
}

// Sx renders a node: (f <content> <mtime>) | (d (<name> <node>)...) ; nil is "-".
func (n *Node) Sx() string {
	if n == nil {
		return "-"
	}
	if !n.IsDir {
		return hx.L("f", hx.S(n.Content), hx.I(n.MTime))
	}
	items := []string{"d"}
	for _, k := range n.Names {
		items = append(items, hx.L(hx.S(k), n.Kids[k].Sx()))
	}
	return hx.L(items...)
}

// SameShape compares names, kinds and contents (not mtimes).
func (n *Node) SameShape(o *Node) bool {
	if n == nil || o == nil {
		return n == o
	}
	if n.IsDir != o.IsDir {
		return false
	}
	if !n.IsDir {
		return n.Content == o.Content
	}
	if len(n.Names) != len(o.Names) {
		return false
	}
	for i, k := range n.Names {
		if o.Names[i] != k || !n.Kids[k].SameShape(o.Kids[k]) {
			return false
		}
	}
	return true
}

func ParseNode(x hx.Sx) *Node {
	if !x.IsList {
		return nil
	}
	switch x.Head() {
	case "f":
		return &Node{Content: x.List[1].Str(), MTime: x.List[2].Int()}
	case "d":
		n := Dir()
		for _, kv := range x.Args() {
			n.Put(kv.List[0].Str(), ParseNode(kv.List[1]))
		}
		return n
	}
	panic("bad node " + x.String())
}

// Materialize writes the tree below path (which must not exist).
func Materialize(path string, n *Node) error {
	if n == nil {
		return nil
	}
	if !n.IsDir {
		if strings.HasPrefix(n.Content, LinkMark) {
			// exotic stage only: a symbolic link (the model sees a file with this content)
			return os.Symlink(strings.TrimPrefix(n.Content, LinkMark), path)
		}
		if err := os.WriteFile(path, []byte(n.Content), 0644); err != nil {
			return err
		}
		if n.MTime != 0 {
			t := time.Unix(0, n.MTime)
			return os.Chtimes(path, t, t)
		}
		return nil
	}
	if err := os.Mkdir(path, 0755); err != nil {
		return err
	}
	for _, k := range n.Names {
		if err := Materialize(filepath.Join(path, k), n.Kids[k]); err != nil {
			return err
		}
	}
	return nil
}

// Snapshot reads the tree at path back (nil if nothing is there).
func Snapshot(path string) *Node {
	fi, err := os.Lstat(path)
	if err != nil {
		return nil
	}
	if fi.Mode()&os.ModeSymlink != 0 {
		t, _ := os.Readlink(path)
		return &Node{Content: LinkMark + t, MTime: fi.ModTime().UnixNano()}
	}
	if !fi.IsDir() {
		b, _ := os.ReadFile(path)
		return &Node{Content: string(b), MTime: fi.ModTime().UnixNano()}
	}
	n := Dir()
	ents, _ := os.ReadDir(path)
	for _, e := range ents {
		n.Put(e.Name(), Snapshot(filepath.Join(path, e.Name())))
	}
	return n
}

// Req is one request, with everything the model takes as an input.
type Req struct {
	Method      string
	Path        string // r.URL.Path
	Depth       string
	Overwrite   string
	Dest        string // raw Destination header, "" = absent
	CType       string
	IfMatch     string
	IfNoneMatch string
	Body        string
	FailAfter   int    // >= 0: the body reader fails after that many bytes
	PfBody      string // PROPFIND: none | allprop | propname | empty | bad | junk
	Cancel      int    // >= 0: the request context is cancelled once that many body bytes were delivered (0: before the request is served)
	Delivery    string // how the body reaches the handler: "" exact | unknown | larger | smaller | eofdata | bytewise
	Race        string // what happens to the sandbox when the body is first read: "" | rmparent | mkdirtarget | mkdirfull | filetarget | parentfile | rmroot
}

func NewReq(method, path string) Req {
	return Req{Method: method, Path: path, FailAfter: -1, PfBody: "none", Cancel: -1}
}

func (r Req) Sx() string {
	items := []string{"req", hx.S(r.Method), hx.S(r.Path), hx.S(r.Depth), hx.S(r.Overwrite), hx.S(r.Dest), hx.S(r.CType),
		hx.S(r.IfMatch), hx.S(r.IfNoneMatch), hx.S(r.Body), hx.I(int64(r.FailAfter)), r.PfBody}
	if r.Cancel >= 0 || r.Race != "" || r.Delivery != "" {
		// the model has no such field: no function of the file server reads the
		// context, and the correspondence shows that the code ignores it too
		items = append(items, hx.I(int64(r.Cancel)))
	}
	if r.Race != "" || r.Delivery != "" {
		race := r.Race
		if race == "" {
			race = "norace"
		}
		items = append(items, race)
	}
	if r.Delivery != "" {
		items = append(items, r.Delivery)
	}
	return hx.L(items...)
}

func ParseReq(x hx.Sx) Req {
	a := x.Args()
	r := Req{Method: a[0].Str(), Path: a[1].Str(), Depth: a[2].Str(), Overwrite: a[3].Str(), Dest: a[4].Str(), CType: a[5].Str(),
		IfMatch: a[6].Str(), IfNoneMatch: a[7].Str(), Body: a[8].Str(), FailAfter: int(a[9].Int()), PfBody: a[10].Atom, Cancel: -1}
	if len(a) > 11 {
		r.Cancel = int(a[11].Int())
	}
	if len(a) > 12 && a[12].Atom != "norace" {
		r.Race = a[12].Atom
	}
	if len(a) > 13 {
		r.Delivery = a[13].Atom
	}
	return r
}

var pfBodies = map[string]string{
	"allprop":  `<?xml version="1.0"?><D:propfind xmlns:D="DAV:"><D:allprop/></D:propfind>`,
	"propname": `<?xml version="1.0"?><propfind xmlns="DAV:"><propname/></propfind>`,
	"empty":    `<?xml version="1.0"?><D:propfind xmlns:D="DAV:"/>`,
	"bad":      `<?xml version="1.0"?><D:propfind xmlns:D="DAV:"><D:allprop>`,
	"pupdate":  `<?xml version="1.0"?><D:propertyupdate xmlns:D="DAV:"><D:set><D:prop><x xmlns="urn:x">v</x></D:prop></D:set></D:propertyupdate>`,
}

type failReader struct {
	data []byte
	left int
}

func (f *failReader) Read(p []byte) (int, error) {
	if f.left <= 0 {
		return 0, errors.New("verif: injected body failure")
	}
	n := len(p)
	if n > f.left {
		n = f.left
	}
	if n > len(f.data) {
		n = len(f.data)
	}
	copy(p, f.data[:n])
	f.data = f.data[n:]
	f.left -= n
	if n == 0 {
		return 0, errors.New("verif: injected body failure")
	}
	return n, nil
}
func (f *failReader) Close() error { return nil }

// eofDataReader returns its last bytes together with io.EOF (as net/http's body readers may).
type eofDataReader struct{ data []byte }

func (e *eofDataReader) Read(p []byte) (int, error) {
	n := copy(p, e.data)
	e.data = e.data[n:]
	if len(e.data) == 0 {
		return n, io.EOF
	}
	return n, nil
}

// byteReader delivers one byte per Read.
type byteReader struct{ data []byte }

func (b *byteReader) Read(p []byte) (int, error) {
	if len(b.data) == 0 {
		return 0, io.EOF
	}
	if len(p) == 0 {
		return 0, nil
	}
	p[0] = b.data[0]
	b.data = b.data[1:]
	return 1, nil
}

// hidden keeps http.NewRequest from recognising the reader and setting a Content-Length.
type hidden struct{ io.Reader }

type closeFailReader struct{ r io.Reader }

func (c *closeFailReader) Read(p []byte) (int, error) { return c.r.Read(p) }
func (c *closeFailReader) Close() error               { return errors.New("verif: injected close failure") }

// cancelReader cancels the request context once `after` bytes were delivered.
type cancelReader struct {
	r      io.Reader
	after  int
	seen   int
	cancel context.CancelFunc
}

func (c *cancelReader) Read(p []byte) (int, error) {
	if c.seen >= c.after {
		c.cancel()
	} else if len(p) > c.after-c.seen {
		p = p[:c.after-c.seen]
	}
	n, err := c.r.Read(p)
	c.seen += n
	if c.seen >= c.after {
		c.cancel()
	}
	return n, err
}

// probeReader looks at the sandbox the first time the body is read: whatever is
// there and was not there before the request is a temporary file of the upload.
type probeReader struct {
	r    io.Reader
	once bool
	look func()
}

func (p *probeReader) Read(b []byte) (int, error) {
	if !p.once {
		p.once = true
		p.look()
	}
	return p.r.Read(b)
}

// newPaths lists the paths present in now and absent from before, and the files whose bytes differ (relative, slash separated).
func newPaths(before, now *Node, prefix string, out *[]string) {
	if now == nil || !now.IsDir {
		return
	}
	for _, k := range now.Names {
		var b *Node
		if before != nil && before.IsDir {
			b = before.Kids[k]
		}
		if b == nil || (!b.IsDir && !now.Kids[k].IsDir && b.Content != now.Kids[k].Content) {
			// new, or a file that was there and holds something else now (a temporary name that was taken)
			*out = append(*out, prefix+k)
			continue
		}
		newPaths(b, now.Kids[k], prefix+k+"/", out)
	}
}

// ProbeTemps serves r (a PUT) and reports which names exist in the sandbox while
// the body is being read that did not exist before.
func (s *Sandbox) ProbeTemps(r Req, before *Node) []string {
	var temps []string
	s.wrap = func(b io.Reader) io.Reader {
		return &probeReader{r: b, look: func() { newPaths(before, Snapshot(s.Dir), "", &temps) }}
	}
	s.Do(r, before)
	s.wrap = nil
	return temps
}

// stepReader hands the body out in the given pieces and looks at the sandbox at
// every Read: the states the upload passes through.
type stepReader struct {
	chunks [][]byte
	fails  bool
	look   func()
	given  []string // the pieces as actually delivered
}

func (p *stepReader) Read(b []byte) (int, error) {
	p.look()
	for len(p.chunks) > 0 && len(p.chunks[0]) == 0 {
		p.chunks = p.chunks[1:]
	}
	if len(p.chunks) == 0 {
		if p.fails {
			return 0, errors.New("verif: injected body failure")
		}
		return 0, io.EOF
	}
	n := copy(b, p.chunks[0])
	p.given = append(p.given, string(p.chunks[0][:n]))
	p.chunks[0] = p.chunks[0][n:]
	return n, nil
}

// Steps is what DoSteps saw of one upload.
type Steps struct {
	Given []string // body pieces delivered
	Seen  []*Node  // sandbox at each Read of the body
	Temps []string // paths present at the first Read that were not there before
}

// DoSteps serves a PUT whose body arrives in the given pieces (and then ends, or
// fails), recording the sandbox at every read of the body.
func (s *Sandbox) DoSteps(r Req, chunks []string, fails bool, before *Node) (Derived, Obs, *Node, Steps) {
	var st Steps
	sr := &stepReader{fails: fails}
	for _, c := range chunks {
		sr.chunks = append(sr.chunks, []byte(c))
	}
	sr.look = func() {
		now := Snapshot(s.Dir)
		if len(st.Seen) == 0 {
			newPaths(before, now, "", &st.Temps)
		}
		st.Seen = append(st.Seen, now)
	}
	s.wrap = func(io.Reader) io.Reader { return sr }
	r.Body = strings.Join(chunks, "")
	d, o, after := s.Do(r, before)
	s.wrap = nil
	d.BodyFails = fails
	st.Given = sr.given
	return d, o, after, st
}

// Derived holds the request fields the model receives that come from unmodelled
// library code or OS metadata.
type Derived struct {
	DestKind               string // absent | bad | path
	DestPath               string
	DIfMatch, DIfNoneMatch *string
	PfForm                 string // allprop | propname | none | bad
	Stamp                  int64
	DirTag                 string
	BodyFails              bool
	MimeTab                [][2]string // mime.TypeByExtension on every extension in the tree and the request path
	Sniffed                string      // http.DetectContentType of the addressed file
	WriteLimit             int         // > 0: no file can grow beyond that many bytes (RLIMIT_FSIZE) while the request is served; -1: the sandbox was changed by someone else while the body was read (Race); -2: os.Rename is refused while the request is served (rfault stage)
	RaceBefore             *Node       // Race: the tree before, with the other party's change applied
	TagsBefore, TagsAfter  [][2]string // (resource name, entity tag LocalFileSystem.Stat reports) for every stored file before the request, and for the target of a PUT after it: the specification takes the announced tags from here, whatever they look like
}

func optS(p *string) string {
	if p == nil {
		return "-"
	}
	return hx.S(*p)
}

func (d Derived) Sx() string {
	mt := []string{"mime"}
	for _, e := range d.MimeTab {
		mt = append(mt, hx.L(hx.S(e[0]), hx.S(e[1])))
	}
	tb, ta := []string{"b"}, []string{"a"}
	for _, e := range d.TagsBefore {
		tb = append(tb, hx.L(hx.S(e[0]), hx.S(e[1])))
	}
	for _, e := range d.TagsAfter {
		ta = append(ta, hx.L(hx.S(e[0]), hx.S(e[1])))
	}
	return hx.L("drv", d.DestKind, hx.S(d.DestPath), optS(d.DIfMatch), optS(d.DIfNoneMatch), d.PfForm, hx.I(d.Stamp), hx.S(d.DirTag), hx.B(d.BodyFails), hx.L(mt...), hx.S(d.Sniffed), hx.L("tags", hx.L(tb...), hx.L(ta...)), hx.I(int64(d.WriteLimit)))
}

func decodeTag(h string) (out *string) {
	defer func() {
		if recover() != nil {
			out = nil // a panic of the codec shows as a disagreement with the codec model, not as a dead harness
		}
	}()
	t, err := webdav.ConditionalMatch(h).ETag()
	if err != nil {
		return nil
	}
	return &t
}

// guardedStat is LocalFileSystem.Stat called by the harness itself (to learn tags and stamps).
func (s *Sandbox) guardedStat(name string) (fi *webdav.FileInfo, err error) {
	defer func() {
		if p := recover(); p != nil {
			fi, err = nil, fmt.Errorf("panic: %v", p)
		}
	}()
	return s.FS.Stat(context.Background(), name)
}

// Entry is one multistatus response, reduced.
type Entry struct {
	Href    string
	Dir     bool
	CLen    string
	ETag    string
	LastMod bool
	Values  bool
	CType   string
}

type Obs struct {
	Status  int
	Allow   string
	DAV     string
	Body    *string
	CLen    string
	ETag    string
	LastMod bool
	MS      []Entry
	Leak    bool
	Panic   bool
	CType   string // Content-Type of a 200 answer to GET/HEAD
	Raw     string // the whole answer (status, headers, body) in a canonical form; only kept when Sandbox.KeepRaw
}

func (o Obs) Sx() string {
	if o.Panic {
		return "(obs panic)"
	}
	ms := []string{"ms"}
	for _, e := range o.MS {
		ms = append(ms, hx.L("e", hx.S(e.Href), hx.B(e.Dir), hx.S(e.CLen), hx.S(e.ETag), hx.B(e.LastMod), hx.B(e.Values), hx.S(e.CType)))
	}
	return hx.L("obs", hx.I(int64(o.Status)), hx.S(o.Allow), hx.S(o.DAV), optS(o.Body), hx.S(o.CLen), hx.S(o.ETag), hx.B(o.LastMod), hx.L(ms...), hx.B(o.Leak), hx.S(o.CType))
}

type msDoc struct {
	XMLName   xml.Name `xml:"DAV: multistatus"`
	Responses []struct {
		Hrefs     []string `xml:"href"`
		PropStats []struct {
			Status string `xml:"status"`
			Prop   struct {
				ResourceType *struct {
					Collection *struct{} `xml:"DAV: collection"`
				} `xml:"DAV: resourcetype"`
				CLen    *string `xml:"DAV: getcontentlength"`
				ETag    *string `xml:"DAV: getetag"`
				LastMod *string `xml:"DAV: getlastmodified"`
				CType   *string `xml:"DAV: getcontenttype"`
			} `xml:"prop"`
		} `xml:"propstat"`
	} `xml:"response"`
}

func parseMS(body []byte) ([]Entry, error) {
	var doc msDoc
	if err := xml.Unmarshal(body, &doc); err != nil {
		return nil, err
	}
	var out []Entry
	for _, r := range doc.Responses {
		e := Entry{}
		if len(r.Hrefs) != 1 {
			return nil, fmt.Errorf("response with %d hrefs", len(r.Hrefs))
		}
		u, err := url.Parse(r.Hrefs[0])
		if err != nil {
			return nil, err
		}
		e.Href = u.Path
		for _, ps := range r.PropStats {
			if !strings.Contains(ps.Status, " 200 ") {
				continue
			}
			if ps.Prop.ResourceType != nil && ps.Prop.ResourceType.Collection != nil {
				e.Dir = true
			}
			if ps.Prop.CLen != nil {
				e.CLen = *ps.Prop.CLen
			}
			if ps.Prop.ETag != nil && *ps.Prop.ETag != "" {
				t, err := strconv.Unquote(*ps.Prop.ETag)
				if err != nil {
					t = "UNQUOTABLE:" + *ps.Prop.ETag
				}
				e.ETag = t
			}
			if ps.Prop.CType != nil {
				e.CType = *ps.Prop.CType
			}
			if ps.Prop.LastMod != nil {
				e.LastMod = true
			}
		}
		e.Values = e.Dir || e.CLen != ""
		out = append(out, e)
	}
	return out, nil
}

// Sandbox is a directory holding the served root and whatever lies beside it.
type Sandbox struct {
	Dir     string // the sandbox top on disk
	RootRel []string
	noSnap  bool
	raced   bool   // the Race action of the request being served has run
	Spell   string // how the root is written in the configuration ("" = clean)
	Handler *webdav.Handler
	FS      webdav.LocalFileSystem
	wrap    func(io.Reader) io.Reader
	KeepRaw bool // keep Obs.Raw (tworoots stage)
}

func NewSandbox(dir string, rootRel []string) *Sandbox {
	return NewSandboxSpelled(dir, rootRel, "")
}

// RootSpellings are ways of writing the same served directory in the configuration
// (LocalFileSystem("/srv/dav/") and the like).  The model knows the root as a list of
// segments, so every spelling must behave as the clean one.
var RootSpellings = []string{"", "slash", "dot", "slashdot", "dslash", "updown", "innerdot", "innerdslash"}

func spellRoot(root, how string) string {
	switch how {
	case "slash":
		return root + "/"
	case "dot":
		return root + "/."
	case "slashdot":
		return root + "/./"
	case "dslash":
		return root + "//"
	case "updown":
		return root + "/zz/.."
	case "innerdot":
		return filepath.Dir(root) + "/./" + filepath.Base(root)
	case "innerdslash":
		return filepath.Dir(root) + "//" + filepath.Base(root)
	case "symlink":
		// the configured directory is a symbolic link to the real one (made by Reset); only
		// used where the disclosure bit alone is compared: the walk does not follow it
		return filepath.Join(filepath.Dir(filepath.Dir(root)), "served-link")
	}
	return root
}

// NewSandboxSpelled serves the same directory, written as the spelling says.
func NewSandboxSpelled(dir string, rootRel []string, how string) *Sandbox {
	root := spellRoot(filepath.Join(append([]string{dir}, rootRel...)...), how)
	fs := webdav.LocalFileSystem(root)
	return &Sandbox{Dir: dir, RootRel: rootRel, Spell: how, Handler: &webdav.Handler{FileSystem: fs}, FS: fs}
}

// Reset makes the sandbox content equal to tree (a directory node).
func (s *Sandbox) Reset(tree *Node) error {
	if err := os.RemoveAll(s.Dir); err != nil {
		return err
	}
	if err := os.MkdirAll(filepath.Dir(s.Dir), 0755); err != nil {
		return err
	}
	if err := Materialize(s.Dir, tree); err != nil {
		return err
	}
	if s.Spell == "symlink" {
		real := filepath.Join(append([]string{s.Dir}, s.RootRel...)...)
		link := spellRoot(real, "symlink") // beside the sandbox top, so that a path relative to it names the sandbox directory
		os.Remove(link)
		return os.Symlink(real, link)
	}
	return nil
}

func (s *Sandbox) RootSx() string {
	items := []string{"root"}
	for _, r := range s.RootRel {
		items = append(items, hx.S(r))
	}
	if s.Spell != "" {
		items = append(items, "@"+s.Spell) // not a segment: the oracle skips it, replay reads it
	}
	return hx.L(items...)
}

// ParseRoot reads a (root ...) item back: the segments and the spelling.
func ParseRoot(x hx.Sx) ([]string, string) {
	var rel []string
	spell := ""
	for _, a := range x.Args() {
		if !a.IsList && strings.HasPrefix(a.Atom, "@") {
			spell = a.Atom[1:]
			continue
		}
		rel = append(rel, a.Str())
	}
	return rel, spell
}

// Do runs one request against the real handler. before must be the current
// snapshot of the sandbox. Returns the derived inputs, the observation and the
// snapshot afterwards.
func (s *Sandbox) Do(r Req, before *Node) (Derived, Obs, *Node) {
	var d Derived
	// Destination as the handler will see it
	if r.Dest == "" {
		d.DestKind = "absent"
	} else if u, err := url.Parse(r.Dest); err != nil {
		d.DestKind = "bad"
	} else {
		d.DestKind = "path"
		d.DestPath = u.Path
	}
	d.DIfMatch = decodeTag(r.IfMatch)
	d.DIfNoneMatch = decodeTag(r.IfNoneMatch)
	if fi, err := s.guardedStat(r.Path); err == nil && fi.IsDir {
		d.DirTag = fi.ETag
	}
	d.TagsBefore = s.statTags(before)
	// media types: the registry for every extension in play, and what the content of the
	// addressed file looks like (both are library functions the model takes as inputs)
	exts := map[string]bool{path.Ext(r.Path): true}
	var walkExt func(n *Node)
	walkExt = func(n *Node) {
		if n == nil || !n.IsDir {
			return
		}
		for _, k := range n.Names {
			exts[path.Ext(k)] = true
			walkExt(n.Kids[k])
		}
	}
	walkExt(before)
	var es []string
	for e := range exts {
		es = append(es, e)
	}
	sort.Strings(es)
	for _, e := range es {
		d.MimeTab = append(d.MimeTab, [2]string{e, mime.TypeByExtension(e)})
	}
	if (r.Method == "GET" || r.Method == "HEAD") && !strings.Contains(r.Path, "\x00") {
		if lp, err := webdav.VerifLocalPath(s.FS, r.Path); err == nil {
			if fi, err := os.Stat(lp); err == nil && !fi.IsDir() {
				if b, err := os.ReadFile(lp); err == nil {
					if len(b) > 512 {
						b = b[:512]
					}
					d.Sniffed = http.DetectContentType(b)
				}
			}
		}
	}

	var body io.Reader
	hasXML := false
	if r.Method == "PROPPATCH" {
		// DecodeXMLRequest of the propertyupdate body: the model's pf is "bad" when it fails
		d.PfForm = "bad"
		switch r.PfBody {
		case "none":
		case "junk":
			body = strings.NewReader("junk")
		case "pupdate-noct": // a good document without an XML media type
			body = strings.NewReader(pfBodies["pupdate"])
		case "pupdate":
			body = strings.NewReader(pfBodies["pupdate"])
			hasXML = true
			d.PfForm = "allprop"
		default:
			body = strings.NewReader(pfBodies[r.PfBody])
			hasXML = true
		}
	} else if r.Method == "PROPFIND" {
		switch r.PfBody {
		case "none":
			d.PfForm = "allprop"
		case "junk": // a body without XML content type
			body = strings.NewReader("junk")
			d.PfForm = "bad"
		default:
			body = strings.NewReader(pfBodies[r.PfBody])
			hasXML = true
			d.PfForm = map[string]string{"allprop": "allprop", "propname": "propname", "empty": "none", "bad": "bad"}[r.PfBody]
		}
	} else {
		d.PfForm = "allprop"
		if r.Method == "PUT" {
			if r.FailAfter == -2 {
				// every byte arrives and EOF is reported; only Close fails (what a verifying
				// wrapper around the body does): the upload is complete, the answer must say so
				body = &closeFailReader{r: strings.NewReader(r.Body)}
			} else if r.FailAfter >= 0 && r.FailAfter <= len(r.Body) {
				// fails after FailAfter bytes; a body that fails exactly at its end never reports EOF either
				body = &failReader{data: []byte(r.Body), left: r.FailAfter}
				d.BodyFails = true
			} else {
				body = strings.NewReader(r.Body)
			}
		}
	}
	if body == nil {
		body = http.NoBody
	}
	if s.wrap != nil {
		body = s.wrap(body)
	}
	if r.Race != "" {
		rootDir := filepath.Join(append([]string{s.Dir}, s.RootRel...)...)
		target := filepath.Join(rootDir, filepath.FromSlash(r.Path))
		body = &probeReader{r: body, look: func() {
			s.raced = true
			switch r.Race {
			case "rmparent":
				os.RemoveAll(filepath.Dir(target))
			case "mkdirtarget":
				os.Remove(target)
				os.Mkdir(target, 0755)
			case "mkdirfull":
				os.Remove(target)
				os.Mkdir(target, 0755)
				os.WriteFile(filepath.Join(target, "member"), []byte("m"), 0644)
			case "filetarget":
				os.WriteFile(target, []byte("raced"), 0644)
			case "parentfile":
				os.RemoveAll(filepath.Dir(target))
				os.WriteFile(filepath.Dir(target), []byte("now a file"), 0644)
			case "rmroot":
				os.RemoveAll(rootDir)
			}
		}}
	}
	ctx, cancel := context.WithCancel(context.Background())
	defer cancel()
	if r.Cancel == 0 {
		cancel()
	} else if r.Cancel > 0 {
		body = &cancelReader{r: body, after: r.Cancel, cancel: cancel}
	}
	var rawBody string
	if sr, ok := body.(*strings.Reader); ok && r.Delivery != "" {
		b, _ := io.ReadAll(sr)
		rawBody = string(b)
		switch r.Delivery {
		case "eofdata":
			body = &eofDataReader{data: b}
		case "bytewise":
			body = &byteReader{data: b}
		default:
			body = hidden{strings.NewReader(rawBody)}
		}
	}
	req := httptest.NewRequest("GET", "http://h/", body).WithContext(ctx)
	switch r.Delivery {
	case "unknown", "eofdata", "bytewise":
		req.ContentLength = -1
	case "larger":
		req.ContentLength = int64(len(rawBody)) + 7
	case "smaller":
		if len(rawBody) > 0 {
			req.ContentLength = int64(len(rawBody)) - 1
		} else {
			req.ContentLength = -1
		}
	}
	req.Method = r.Method
	req.URL.Path = r.Path
	req.RequestURI = ""
	if r.Depth != "" {
		req.Header.Set("Depth", r.Depth)
	}
	if r.Overwrite != "" {
		req.Header.Set("Overwrite", r.Overwrite)
	}
	if r.Dest != "" {
		req.Header.Set("Destination", r.Dest)
	}
	if r.CType != "" {
		req.Header.Set("Content-Type", r.CType)
	} else if hasXML {
		req.Header.Set("Content-Type", "application/xml")
	}
	if r.IfMatch != "" {
		req.Header.Set("If-Match", r.IfMatch)
	}
	if r.IfNoneMatch != "" {
		req.Header.Set("If-None-Match", r.IfNoneMatch)
	}

	rec := httptest.NewRecorder()
	var o Obs
	func() {
		defer func() {
			if p := recover(); p != nil {
				o.Panic = true
			}
		}()
		s.Handler.ServeHTTP(rec, req)
	}()
	var after *Node
	if !s.noSnap {
		after = Snapshot(s.Dir)
	}
	if r.Race != "" && s.raced {
		// judged by the property's statement only, against the tree as the other party left it
		d.WriteLimit = -1
		d.RaceBefore = applyRace(before, s.RootRel, r)
	}
	s.raced = false
	if o.Panic {
		return d, o, after
	}
	res := rec.Result()
	raw, _ := io.ReadAll(res.Body)
	o.Status = res.StatusCode
	if s.KeepRaw {
		o.Raw = canonicalRaw(r, res, raw)
	}
	// leak scan: every header value and the body
	needle := s.Dir
	// the sandbox top bears an unmistakable name that no served path contains: a relative
	// path through it discloses the host layout just as the absolute path does
	mark := filepath.Base(s.Dir)
	if bytes.Contains(raw, []byte(needle)) || bytes.Contains(raw, []byte(mark)) {
		o.Leak = true
	}
	for _, vs := range res.Header {
		for _, v := range vs {
			if strings.Contains(v, needle) || strings.Contains(v, mark) {
				o.Leak = true
			}
		}
	}
	if o.Status < 300 {
		o.Allow = res.Header.Get("Allow")
		o.DAV = res.Header.Get("DAV")
		o.ETag = res.Header.Get("ETag")
		o.LastMod = res.Header.Get("Last-Modified") != ""
		if o.Status == 200 {
			o.CType = res.Header.Get("Content-Type")
			o.CLen = res.Header.Get("Content-Length")
			if r.Method == "GET" {
				b := string(raw)
				o.Body = &b
			}
		}
		if o.Status == 207 {
			ms, err := parseMS(raw)
			if err != nil {
				o.Status = -207 // unreadable multistatus: no model output equals it
			}
			o.MS = ms
		}
	}
	// modification time the OS gave to what this request wrote (PUT target), and the tag announced for it now
	if r.Method == "PUT" && o.Status < 300 {
		if fi, err := s.guardedStat(r.Path); err == nil {
			d.Stamp = fi.ModTime.UnixNano()
			if !fi.IsDir {
				d.TagsAfter = append(d.TagsAfter, [2]string{fi.Path, fi.ETag})
			}
		}
	}
	return d, o, after
}

// statTags asks LocalFileSystem.Stat for the entity tag of every file stored below the
// served root in tree (a snapshot of the sandbox).
func (s *Sandbox) statTags(tree *Node) [][2]string {
	n := tree
	for _, seg := range s.RootRel {
		if n == nil || !n.IsDir {
			return nil
		}
		n = n.Kids[seg]
	}
	var out [][2]string
	var walk func(n *Node, name string)
	walk = func(n *Node, name string) {
		if n == nil {
			return
		}
		if !n.IsDir {
			if strings.HasPrefix(n.Content, LinkMark) {
				return
			}
			if fi, err := s.guardedStat(name); err == nil && !fi.IsDir {
				out = append(out, [2]string{name, fi.ETag})
			}
			return
		}
		for _, k := range n.Names {
			walk(n.Kids[k], name+"/"+k)
		}
	}
	walk(n, "")
	return out
}

// canonicalRaw is the whole answer as a peer sees it: status, every header (sorted) and
// the body.  The entity tag and date a PUT announces for what it has just written come
// from the clock, not from the request or the tree: they are masked.
func canonicalRaw(r Req, res *http.Response, body []byte) string {
	var keys []string
	for k := range res.Header {
		keys = append(keys, k)
	}
	sort.Strings(keys)
	var b strings.Builder
	fmt.Fprintf(&b, "%d\n", res.StatusCode)
	for _, k := range keys {
		for _, v := range res.Header[k] {
			if r.Method == "PUT" && (k == "Etag" || k == "Last-Modified") {
				v = "<clock>"
			}
			fmt.Fprintf(&b, "%s: %s\n", k, v)
		}
	}
	b.WriteString("\n")
	if res.StatusCode == 207 {
		// the properties of one <prop> are written in the order of a Go map iteration
		if c, ok := canonicalXML(body); ok {
			b.WriteString(c)
			return b.String()
		}
	}
	b.Write(body)
	return b.String()
}

type xnode struct {
	name  xml.Name
	attrs []xml.Attr
	kids  []*xnode
	text  string // character data when the node is text
	isTxt bool
}

func (n *xnode) render(b *strings.Builder) {
	if n.isTxt {
		fmt.Fprintf(b, "%q", n.text)
		return
	}
	fmt.Fprintf(b, "<{%s}%s", n.name.Space, n.name.Local)
	for _, a := range n.attrs {
		if a.Name.Space == "xmlns" || (a.Name.Space == "" && a.Name.Local == "xmlns") {
			continue
		}
		fmt.Fprintf(b, " {%s}%s=%q", a.Name.Space, a.Name.Local, a.Value)
	}
	b.WriteString(">")
	kids := n.kids
	if n.name.Local == "prop" {
		kids = append([]*xnode(nil), kids...)
		sort.SliceStable(kids, func(i, j int) bool {
			var x, y strings.Builder
			kids[i].render(&x)
			kids[j].render(&y)
			return x.String() < y.String()
		})
	}
	for _, k := range kids {
		k.render(b)
	}
	b.WriteString("</>")
}

// canonicalXML renders a document with the children of every <prop> sorted.
func canonicalXML(body []byte) (string, bool) {
	dec := xml.NewDecoder(bytes.NewReader(body))
	root := &xnode{}
	stack := []*xnode{root}
	for {
		tok, err := dec.Token()
		if err == io.EOF {
			break
		}
		if err != nil {
			return "", false
		}
		top := stack[len(stack)-1]
		switch t := tok.(type) {
		case xml.StartElement:
			n := &xnode{name: t.Name, attrs: append([]xml.Attr(nil), t.Attr...)}
			top.kids = append(top.kids, n)
			stack = append(stack, n)
		case xml.EndElement:
			stack = stack[:len(stack)-1]
		case xml.CharData:
			top.kids = append(top.kids, &xnode{isTxt: true, text: string(t)})
		}
	}
	var b strings.Builder
	for _, k := range root.kids {
		k.render(&b)
	}
	return b.String(), true
}

// PinTimes gives every entry below dir (dir included) the same modification time, so that
// entity tags and dates, which the OS derives from the clock, are equal in two sandboxes.
func PinTimes(dir string, t time.Time) {
	filepath.Walk(dir, func(p string, fi os.FileInfo, err error) error {
		if err == nil && fi.Mode()&os.ModeSymlink == 0 {
			os.Chtimes(p, t, t)
		}
		return nil
	})
}

// DoNoSnapshot serves r without reading the sandbox before or after (race stages, where
// only the response is looked at).
func (s *Sandbox) DoNoSnapshot(r Req) (Derived, Obs, *Node) {
	s.noSnap = true
	defer func() { s.noSnap = false }()
	return s.Do(r, Dir())
}

// applyRace is what the other party of a Race does, applied to the tree in memory.
func applyRace(before *Node, rootRel []string, r Req) *Node {
	t := before.Clone()
	segs := append([]string{}, rootRel...)
	for _, sg := range strings.Split(strings.Trim(path.Clean(r.Path), "/"), "/") {
		if sg != "" {
			segs = append(segs, sg)
		}
	}
	walkTo := func(segs []string) *Node {
		cur := t
		for _, sg := range segs {
			if cur == nil || !cur.IsDir {
				return nil
			}
			cur = cur.Kids[sg]
		}
		return cur
	}
	del := func(parent *Node, name string) {
		if parent == nil || !parent.IsDir || parent.Kids[name] == nil {
			return
		}
		delete(parent.Kids, name)
		var ns []string
		for _, k := range parent.Names {
			if k != name {
				ns = append(ns, k)
			}
		}
		parent.Names = ns
	}
	if len(segs) == 0 {
		return t
	}
	name := segs[len(segs)-1]
	parent := walkTo(segs[:len(segs)-1])
	switch r.Race {
	case "rmparent":
		if len(segs) >= 2 {
			del(walkTo(segs[:len(segs)-2]), segs[len(segs)-2])
		}
	case "mkdirtarget":
		if parent != nil && parent.IsDir {
			if k := parent.Kids[name]; k == nil || !k.IsDir {
				parent.Put(name, Dir())
			}
		}
	case "mkdirfull":
		if parent != nil && parent.IsDir {
			if k := parent.Kids[name]; k == nil || !k.IsDir {
				parent.Put(name, Dir())
			}
			parent.Kids[name].Put("member", File("m"))
		}
	case "filetarget":
		if parent != nil && parent.IsDir {
			if k := parent.Kids[name]; k == nil || !k.IsDir {
				parent.Put(name, File("raced"))
			}
		}
	case "parentfile":
		if len(segs) >= 2 {
			gp := walkTo(segs[:len(segs)-2])
			if gp != nil && gp.IsDir {
				gp.Put(segs[len(segs)-2], File("now a file"))
			}
		}
	case "rmroot":
		if len(rootRel) > 0 {
			del(walkTo(rootRel[:len(rootRel)-1]), rootRel[len(rootRel)-1])
		}
	}
	return t
}

// Line renders one case.
func Line(s *Sandbox, before *Node, r Req, d Derived, o Obs, after *Node) string {
	if d.RaceBefore != nil {
		before = d.RaceBefore
	}
	return strings.Join([]string{s.RootSx(), hx.L("tree", before.Sx()), r.Sx(), d.Sx(), o.Sx(), hx.L("after", after.Sx())}, " ")
}
