module verifharness

go 1.23

require (
	github.com/emersion/go-ical v0.0.0-20240127095438-fc1c9d8fb2b6
	github.com/emersion/go-vcard v0.0.0-20230815062825-8fda7d206ec9
	github.com/emersion/go-webdav v0.0.0
)

require github.com/teambition/rrule-go v1.8.2 // indirect

replace github.com/emersion/go-webdav => /repo
