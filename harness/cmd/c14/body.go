package main

// Delivery forms of a response body (generator audit, item 4).  The outcome of a client
// call must not depend on how the transport hands over the same bytes.

import (
	"errors"
	"fmt"
	"io"
	"net/http"
	"net/http/httptest"
	"strings"
	"sync"
	"sync/atomic"
	"testing/iotest"
	"time"
)

const (
	delivExact         = 0 // ContentLength = len(body)
	delivUnknownLength = 1 // ContentLength = -1
	delivLongerLength  = 2 // ContentLength larger than the bytes
	delivShorterLength = 3 // ContentLength smaller than the bytes
	delivDataWithEOF   = 4 // the last Read returns data together with io.EOF
	delivOneByte       = 5 // one byte per Read
	delivCloseFails    = 6 // reads succeed, Close returns an error
	delivNoBody        = 7 // http.NoBody when the body is empty (else as delivUnknownLength)
	delivRealTransport = 8 // through net/http's transport from an httptest.Server, chunked
	nDeliv             = 9 // forms 0..8 leave the outcome to the bytes alone

	// Bodies that never end: the bytes, then a reader that blocks for ever / that delivers
	// blanks at full speed for ever.  They are only scripted where the code has no reason to read
	// past the bytes (see gen.go 6f): there the call must return within the watchdog's patience.
	delivThenBlocks   = 9
	delivThenTrickles = 10
)

// endless delivers the bytes and then never reports EOF.
type endless struct {
	r       *strings.Reader
	trickle bool
	n       int
	closed  chan struct{}
	once    sync.Once
}

func (e *endless) Read(p []byte) (int, error) {
	if e.r.Len() > 0 {
		return e.r.Read(p)
	}
	if len(p) == 0 {
		return 0, nil
	}
	if e.trickle {
		select {
		case <-e.closed:
			return 0, errors.New("read on closed body")
		default:
		}
		// blanks at full speed, for ever: a reader that stops at ANY finite limit returns at
		// once, only one that reads to EOF never does (no constant of the code is assumed)
		if e.n++; e.n%256 == 0 {
			time.Sleep(time.Millisecond) // a reader that drains for ever should not burn a core
		}
		for i := range p {
			p[i] = ' '
		}
		return len(p), nil
	}
	<-e.closed
	return 0, errors.New("read on closed body")
}

func (e *endless) Close() error {
	e.once.Do(func() { close(e.closed) })
	return nil
}

type closeFails struct{ io.Reader }

func (closeFails) Close() error { return errors.New("scripted close failure") }

func deliver(body string, deliv int) (io.ReadCloser, int64) {
	r := strings.NewReader(body)
	n := int64(len(body))
	switch deliv {
	case delivUnknownLength:
		return io.NopCloser(r), -1
	case delivLongerLength:
		return io.NopCloser(r), n + 17
	case delivShorterLength:
		return io.NopCloser(r), n / 2
	case delivDataWithEOF:
		return io.NopCloser(iotest.DataErrReader(r)), n
	case delivOneByte:
		return io.NopCloser(iotest.OneByteReader(r)), n
	case delivCloseFails:
		return closeFails{r}, n
	case delivThenBlocks, delivThenTrickles:
		return &endless{r: r, trickle: deliv == delivThenTrickles, closed: make(chan struct{})}, -1
	case delivNoBody:
		if body == "" {
			return http.NoBody, 0
		}
		return io.NopCloser(r), -1
	}
	return io.NopCloser(r), n
}

// ---- the real transport: an httptest.Server that writes the scripted answer in two
// flushed pieces (so that the body travels chunked), and an http.Client that does not
// follow redirects (a 3xx answer is handed to the library as it is).

var (
	realOnce   sync.Once
	realSrv    *httptest.Server
	realSpecs  sync.Map
	realSeq    int64
	realClient = &http.Client{CheckRedirect: func(*http.Request, []*http.Request) error { return http.ErrUseLastResponse }}
)

// realOK says whether a scripted answer can be sent by net/http's server unchanged.
func realOK(r *respSpec) bool {
	if r.terr || r.status < 200 || r.clen != nil {
		return false
	}
	if (r.status == 204 || r.status == 304) && r.body != "" {
		return false
	}
	for _, v := range []*string{r.ct, r.loc, r.etag, r.lmod} {
		if v != nil && strings.ContainsAny(*v, "\r\n\x00") {
			return false
		}
	}
	for _, v := range r.dav {
		if strings.ContainsAny(v, "\r\n\x00") || v != strings.TrimSpace(v) {
			return false
		}
	}
	for _, v := range []*string{r.ct, r.loc, r.etag, r.lmod} {
		if v != nil && *v != strings.TrimSpace(*v) { // the transport trims header values
			return false
		}
	}
	return true
}

func realHandler(w http.ResponseWriter, req *http.Request) {
	io.Copy(io.Discard, req.Body)
	v, ok := realSpecs.Load(req.Header.Get("X-Verif-Case"))
	if !ok {
		w.WriteHeader(599)
		return
	}
	r := v.(*respSpec)
	h := w.Header()
	for k, vals := range r.header() {
		h[k] = vals
	}
	if _, ok := h["Content-Type"]; !ok {
		h["Content-Type"] = nil // no sniffing
	}
	h["Date"] = nil
	w.WriteHeader(r.status)
	half := len(r.body) / 2
	io.WriteString(w, r.body[:half])
	if f, ok := w.(http.Flusher); ok {
		f.Flush()
	}
	io.WriteString(w, r.body[half:])
}

func realDo(req *http.Request, r *respSpec) (*http.Response, error) {
	realOnce.Do(func() { realSrv = httptest.NewServer(http.HandlerFunc(realHandler)) })
	id := fmt.Sprint(atomic.AddInt64(&realSeq, 1))
	realSpecs.Store(id, r)
	defer realSpecs.Delete(id)
	req2 := req.Clone(req.Context())
	req2.URL.Scheme = "http"
	req2.URL.Host = strings.TrimPrefix(realSrv.URL, "http://")
	req2.Host = ""
	req2.RequestURI = ""
	req2.Header.Set("X-Verif-Case", id)
	resp, err := realClient.Do(req2)
	if err != nil {
		return nil, err
	}
	// the scripted answer may have to be there until the body is read: keep it by value
	if !r.reqset {
		resp.Request = nil
	}
	return resp, nil
}
