package main

// webdav.Client.Create runs Client.Do in a goroutine of the library: a panic there cannot be
// recovered by any caller and ends the process.  The plain Create cases therefore run in a
// child process (this binary with -child): it reads one input per line and answers with the
// observation; when it dies, the case in flight is observed as a panic and a new child is
// started.

import (
	"bufio"
	"fmt"
	"io"
	"os"
	osexec "os/exec"
	"sync"

	"verifharness/hx"
)

func childMain() {
	in := bufio.NewReaderSize(os.Stdin, 1<<20)
	out := bufio.NewWriter(os.Stdout)
	for {
		line, err := in.ReadString('\n')
		if len(line) > 1 {
			c := parseInput(hx.MustParse(line[:len(line)-1])[0])
			fmt.Fprintln(out, observe(c))
			out.Flush()
		}
		if err != nil {
			return
		}
	}
}

type childRunner struct {
	mu      sync.Mutex
	cmd     *osexec.Cmd
	stdin   io.WriteCloser
	stdout  *bufio.Reader
	crashes int
}

const maxChildCrashes = 30

var createChild childRunner

func (r *childRunner) start() error {
	r.cmd = osexec.Command(os.Args[0], "-child")
	r.cmd.Stderr = io.Discard
	var err error
	if r.stdin, err = r.cmd.StdinPipe(); err != nil {
		return err
	}
	so, err := r.cmd.StdoutPipe()
	if err != nil {
		return err
	}
	r.stdout = bufio.NewReaderSize(so, 1<<20)
	return r.cmd.Start()
}

func (r *childRunner) stop() {
	r.mu.Lock()
	defer r.mu.Unlock()
	if r.cmd != nil {
		r.stdin.Close()
		r.cmd.Wait()
		r.cmd = nil
	}
}

// observeInChild returns the observation of the case, "" when no child can be used (the
// caller then runs the case in process).
func (r *childRunner) observeInChild(input string) string {
	r.mu.Lock()
	defer r.mu.Unlock()
	if r.crashes >= maxChildCrashes {
		return "(o 1 (panic))" // the child died on every recent case: do not go on spawning
	}
	if r.cmd == nil {
		if err := r.start(); err != nil {
			r.cmd = nil
			return ""
		}
	}
	if _, err := io.WriteString(r.stdin, input+"\n"); err == nil {
		if line, err := r.stdout.ReadString('\n'); err == nil && len(line) > 1 {
			return line[:len(line)-1]
		}
	}
	// the child is gone: the code under test ended the process on this input
	r.stdin.Close()
	r.cmd.Wait()
	r.cmd = nil
	r.crashes++
	return "(o 1 (panic))"
}
