package main

// Generators: the bounded universe the property's quantifier names (every status code
// 100-599 x content types x bodies, for every public client method; every structure-aware
// mutation, every truncation and every status placement of the valid documents), then
// seeded mostly-valid random cases and a separate malformed stream.

import (
	"fmt"
	"strings"

	"verifharness/hx"
)

// method -> (path argument, home document, status of a successful answer)
type methodInfo struct {
	path string
	home string // name in docs, or raw:<name> in rawBodies
	ok   int
	ms   bool // needs a multi-status
	okCT string
}

var minfo = map[string]methodInfo{
	"FindCurrentUserPrincipal": {"/", "principal", 207, true, "application/xml"},
	"Stat":                     {"/dir/a%20b.txt", "statfile", 207, true, "application/xml"},
	"Open":                     {"/dir/a.txt", "raw:text", 200, false, "text/plain"},
	"ReadDir":                  {"/dir/", "readdir", 207, true, "text/xml; charset=utf-8"},
	"Create":                   {"/dir/new.txt", "raw:empty", 201, false, ""},
	"RemoveAll":                {"/dir/a.txt", "raw:empty", 204, false, ""},
	"Mkdir":                    {"/dir/new/", "raw:empty", 201, false, ""},
	"Copy":                     {"/dir/a.txt", "raw:empty", 201, false, ""},
	"Move":                     {"/dir/a.txt", "raw:empty", 204, false, ""},
	"FindCalendarHomeSet":      {"/principals/me/", "calhome", 207, true, "application/xml"},
	"FindCalendars":            {"/cal/me/", "calendars", 207, true, "application/xml"},
	"QueryCalendar":            {"/cal/me/work/", "calobjects", 207, true, "application/xml"},
	"MultiGetCalendar":         {"/cal/me/work/", "calobjects", 207, true, "application/xml"},
	"GetCalendarObject":        {"/cal/me/work/1.ics", "raw:ical", 200, false, "text/calendar; charset=utf-8"},
	"PutCalendarObject":        {"/cal/me/work/1.ics", "raw:empty", 201, false, ""},
	"HasSupport":               {"/", "raw:empty", 200, false, ""},
	"FindAddressBookHomeSet":   {"/principals/me/", "cardhome", 207, true, "application/xml"},
	"FindAddressBooks":         {"/card/me/", "addressbooks", 207, true, "application/xml"},
	"QueryAddressBook":         {"/card/me/friends/", "cardobjects", 207, true, "application/xml"},
	"MultiGetAddressBook":      {"/card/me/friends/", "cardobjects", 207, true, "application/xml"},
	"GetAddressObject":         {"/card/me/friends/1.vcf", "raw:vcard", 200, false, "text/vcard"},
	"PutAddressObject":         {"/card/me/friends/1.vcf", "raw:empty", 204, false, ""},
	"SyncCollection":           {"/card/me/friends/", "sync", 207, true, "application/xml"},
}

func homeBody(m string) string {
	h := minfo[m].home
	if strings.HasPrefix(h, "raw:") {
		return rawBodies[h[4:]]
	}
	return docs[h].render()
}

var contentTypes = []*string{
	nil, sp("text/plain"), sp("text/html; charset=utf-8"), sp("application/xml"),
	sp("text/xml; charset=\"utf-8\""), sp("Application/XML;charset"), sp("a/b/c;;=;"), sp("application/json"),
}

// further spellings (other letter case, blanks around the value), used outside the full
// status sweep
var extraCTs = []*string{sp(" application/xml "), sp("text/xml;charset=UTF-8"), sp("APPLICATION/XML"), sp("text/plain ;charset=us-ascii")}

var davSets = [][]string{
	nil, {"1"}, {"1, 2, addressbook"}, {"1", "addressbook"}, {"addressbook"}, {"1,addressbook"},
	{"1 addressbook"}, {"ADDRESSBOOK, 1"}, {"1;addressbook"}, {"11, addressbooks"}, {"", "1\taddressbook"},
	{"1, 3, calendar-access"}, {" , ,1,,\taddressBook "}, {"2, addressbook"},
}

// base is a response a server could plausibly send for the method: the class-1/addressbook
// DAV header is there so that HasSupport does not fail for lack of it.
func base(m string, status int) caseIn {
	mi := minfo[m]
	c := caseIn{method: m, path: mi.path}
	c.r.status = status
	c.r.reqset = true
	c.r.dav = []string{"1, 3, addressbook"}
	return c
}

func okCase(m string) caseIn {
	mi := minfo[m]
	c := base(m, mi.ok)
	if mi.okCT != "" {
		c.r.ct = sp(mi.okCT)
	}
	c.r.body = homeBody(m)
	return c
}

var msDocs = []string{"principal", "unauth", "calhome", "cardhome", "statfile", "statdir", "readdir",
	"calendars", "addressbooks", "calobjects", "cardobjects", "sync", "locked", "multihref", "syncdesc"}

func bigMultistatus(n int) string {
	var rs []*node
	for i := 0; i < n; i++ {
		rs = append(rs, response(fmt.Sprintf("/dir/f%06d.txt", i), propstat(200, fileProps("7", "e1")...)))
	}
	return multistatus(rs...).render()
}

func generate(emit func(caseIn)) {
	thorough := hx.Tier() == "thorough"

	// 0. the plain successful answer of every method, and every method on every valid document
	for _, m := range methods {
		emit(okCase(m))
		c := base(m, 0)
		c.r.terr = true
		emit(c)
		for _, dn := range docNames {
			for _, st := range []int{200, 207} {
				c := base(m, st)
				c.r.ct = sp("application/xml")
				c.r.body = docs[dn].render()
				emit(c)
			}
		}
	}

	// 1. every status code x content type x {empty, DAV:error, other error document} for every method;
	//    every status code with the method's own valid answer
	errDocs := []string{"", docs["daverror"].render(), docs["calerror"].render()}
	for st := 100; st <= 599; st++ {
		for _, m := range methods {
			for i, ct := range contentTypes {
				for j, b := range errDocs {
					if !thorough && j == 2 && (i+st)%16 != 0 {
						continue
					}
					c := base(m, st)
					c.r.ct = ct
					c.r.body = b
					emit(c)
				}
			}
			c := okCase(m)
			c.r.status = st
			emit(c)
		}
	}

	// 2. every structure-aware mutation, every status placement and every truncation of the
	//    method's valid document, sent as 207 (and, for a sample, as the error body of a 4xx)
	for _, m := range methods {
		mi := minfo[m]
		if !mi.ms {
			continue
		}
		names := []string{mi.home}
		if thorough {
			names = msDocs
		} else {
			switch m { // neighbouring documents exercise the mandatory/optional split
			case "Stat":
				names = append(names, "statdir", "readdir")
			case "ReadDir":
				names = append(names, "statfile", "locked", "multihref")
			case "FindCurrentUserPrincipal":
				names = append(names, "unauth")
			case "SyncCollection":
				names = append(names, "cardobjects", "locked", "syncdesc", "multihref")
			}
		}
		for _, dn := range names {
			doc := docs[dn]
			for _, mu := range mutations(doc) {
				c := base(m, 207)
				c.r.ct = sp("application/xml")
				c.r.body = mutate(doc, mu).render()
				emit(c)
			}
			for _, pl := range placements(doc) {
				c := base(m, 207)
				c.r.ct = sp("text/xml")
				c.r.body = place(doc, pl).render()
				emit(c)
			}
		}
		full := docs[mi.home].render()
		for off := 0; off <= len(full); off++ {
			c := base(m, 207)
			c.r.ct = sp("application/xml")
			c.r.body = full[:off]
			emit(c)
		}
	}
	// mutations and truncations of the error documents under failing statuses
	for _, dn := range []string{"daverror", "calerror", "locked"} {
		doc := docs[dn]
		full := doc.render()
		for _, m := range []string{"Stat", "Mkdir", "PutCalendarObject", "SyncCollection", "GetAddressObject"} {
			for _, st := range []int{403, 423, 507} {
				for _, mu := range mutations(doc) {
					c := base(m, st)
					c.r.ct = sp("application/xml; charset=utf-8")
					c.r.body = mutate(doc, mu).render()
					emit(c)
				}
				if st == 403 {
					for off := 0; off <= len(full); off++ {
						c := base(m, st)
						c.r.ct = sp("text/xml")
						c.r.body = full[:off]
						emit(c)
					}
				}
			}
		}
	}

	// 2b. the variadic Response.DecodeProp, called directly with two values on every response of
	//     every valid document, mutation and status placement
	pairDocs := []string{"statfile", "statdir", "readdir", "sync", "cardobjects"}
	if thorough {
		pairDocs = docNames
	}
	for _, dn := range pairDocs {
		doc := docs[dn]
		emit(caseIn{method: "DecodePropPair", r: respSpec{body: doc.render()}})
		for _, mu := range mutations(doc) {
			emit(caseIn{method: "DecodePropPair", r: respSpec{body: mutate(doc, mu).render()}})
		}
		for _, pl := range placements(doc) {
			emit(caseIn{method: "DecodePropPair", r: respSpec{body: place(doc, pl).render()}})
		}
	}

	// 3. raw bodies x content types x a few statuses, for every method
	for _, m := range methods {
		for _, rn := range rawNames {
			for _, ct := range append(append([]*string{}, contentTypes...), extraCTs...) {
				for _, st := range []int{200, 207, 403, 500} {
					c := base(m, st)
					c.r.ct = ct
					c.r.body = rawBodies[rn]
					emit(c)
				}
			}
		}
	}

	// 4. headers: what PUT/GET of objects and OPTIONS read
	locs := []*string{nil, sp("/new/path.ics"), sp("http://other.example.com/x%20y"), sp("%zz"), sp(":bad"), sp("")}
	etags := []*string{nil, sp(`"e"`), sp(`e`), sp(`'e'`), sp(`W/"e"`), sp("\"a\\\"b\"")}
	clens := []*string{nil, sp("12"), sp("-1"), sp("x"), sp("99999999999999999999"), sp(" 7")}
	lmods := []*string{nil, sp(httpDate), sp("yesterday"), sp("Wednesday, 01-Jan-20 10:00:00 GMT")}
	for _, m := range []string{"PutCalendarObject", "PutAddressObject", "GetCalendarObject", "GetAddressObject"} {
		for _, loc := range locs {
			for _, et := range etags {
				for _, cl := range clens {
					for _, lm := range lmods {
						c := okCase(m)
						c.r.loc, c.r.etag, c.r.clen, c.r.lmod = loc, et, cl, lm
						emit(c)
					}
				}
			}
		}
	}
	getCTs := []*string{nil, sp("text/calendar"), sp("TEXT/Calendar; charset=utf-8"), sp("text/vcard"), sp("Text/VCard;x=y"),
		sp("text/plain"), sp("text/calendar; x"), sp("text/calendar;;"), sp("text/x-vcard"), sp("text/calendar, text/vcard"), sp("")}
	for _, m := range []string{"GetCalendarObject", "GetAddressObject"} {
		for _, ct := range getCTs {
			for _, rn := range []string{"ical", "vcard", "empty", "notxml", "text", "icalpanic", "icalbad"} {
				for _, st := range []int{200, 206, 304, 404} {
					for _, reqset := range []bool{true, false} {
						c := base(m, st)
						c.r.ct = ct
						c.r.body = rawBodies[rn]
						c.r.reqset = reqset
						emit(c)
					}
				}
			}
		}
		// truncations of the object itself
		full := homeBody(m)
		for off := 0; off <= len(full); off++ {
			c := okCase(m)
			c.r.body = full[:off]
			emit(c)
		}
	}
	for _, ds := range davSets {
		for _, st := range []int{200, 204, 207, 301, 404, 501} {
			for _, m := range []string{"HasSupport", "Stat", "Mkdir"} {
				c := okCase(m)
				c.r.status = st
				c.r.dav = ds
				emit(c)
			}
		}
	}

	// 5. an HTTPClient that does not set Response.Request (outside the theorems' hypothesis)
	for _, m := range methods {
		for _, st := range []int{minfo[m].ok, 404} {
			c := okCase(m)
			c.r.status = st
			c.r.reqset = false
			emit(c)
		}
	}

	// 6. oversized bodies
	big := []string{strings.Repeat("a", 2<<20), bigMultistatus(6000), "<x>" + strings.Repeat(" ", 2<<20)}
	for i, b := range big {
		for _, m := range []string{"ReadDir", "Stat", "Open", "GetCalendarObject", "SyncCollection"} {
			if !thorough && i > 0 && m != "ReadDir" {
				continue
			}
			for _, st := range []int{207, 500} {
				for _, ct := range []*string{sp("text/plain"), sp("application/xml")} {
					c := base(m, st)
					c.r.ct = ct
					c.r.body = b
					emit(c)
				}
			}
		}
	}

	// 6b. LARGE error bodies: a DAV:error document padded to sizes around and beyond 1 KiB,
	//     4 KiB and 64 KiB in every way a server can make it long (white space, comments, long
	//     text, many children, before / inside / after the condition elements), for every status
	//     class; the error must carry all condition elements whatever the size.  The same
	//     padding on multi-status answers (as 207 and as error body) and on text/plain error
	//     bodies (where keeping only 1 KiB of text is the specified behaviour).
	smallSizes := []int{900, 1000, 1023, 1024, 1025, 1100, 2048, 4095, 4096, 4097, 5000}
	hugeSizes := []int{65535, 65536, 65537, 70000}
	errStatuses := []int{100, 301, 403, 423, 500, 507}
	errMethods := []string{"Mkdir", "Stat", "SyncCollection"}
	if thorough {
		errStatuses = []int{100, 301, 403, 404, 423, 500, 507, 599}
		errMethods = methods
	}
	xmlCTs := []*string{sp("application/xml"), sp("text/xml; charset=utf-8")}
	for k := 0; k < nBigKinds; k++ {
		for _, size := range smallSizes {
			body := bigError(k, size)
			for _, st := range errStatuses {
				for _, ct := range xmlCTs {
					for _, m := range errMethods {
						c := base(m, st)
						c.r.ct = ct
						c.r.body = body
						emit(c)
					}
				}
			}
		}
		for _, size := range hugeSizes {
			body := bigError(k, size)
			for _, st := range []int{423, 507} {
				for _, m := range []string{"Mkdir", "ReadDir"} {
					c := base(m, st)
					c.r.ct = sp("application/xml")
					c.r.body = body
					emit(c)
				}
			}
		}
	}
	for _, size := range append(append([]int{}, smallSizes...), hugeSizes[2]) {
		// text error bodies; and the method's own multi-status, padded, as 207 and as an error body
		for _, st := range errStatuses {
			for _, m := range []string{"Mkdir", "Stat", "GetCalendarObject"} {
				c := base(m, st)
				c.r.ct = sp("text/plain; charset=utf-8")
				c.r.body = strings.Repeat("error text ", size/11+1)[:size]
				emit(c)
			}
		}
		for _, m := range methods {
			if !minfo[m].ms {
				continue
			}
			for k := 0; k < 4; k++ {
				body := padDoc(docs[minfo[m].home].render(), k, size)
				for _, st := range []int{207, 403} {
					c := base(m, st)
					c.r.ct = sp("application/xml")
					c.r.body = body
					emit(c)
				}
			}
		}
	}

	// 6c. BODY DELIVERY (generator audit, item 4): the same answers in every form a transport
	//     can hand a body over — unknown length, Content-Length longer / shorter than the bytes,
	//     data together with io.EOF, one byte per Read, a Close that fails, http.NoBody, and
	//     really chunked through net/http's transport from an httptest.Server
	errXML := docs["daverror"].render()
	for _, m := range methods {
		var variants []caseIn
		variants = append(variants, okCase(m))
		e := base(m, 403)
		e.r.ct, e.r.body = sp("application/xml"), errXML
		variants = append(variants, e)
		e = base(m, 500)
		e.r.ct, e.r.body = sp("text/plain"), strings.Repeat("server error text ", 80)
		variants = append(variants, e)
		e = base(m, 207)
		e.r.ct, e.r.body = sp("application/xml"), docs["locked"].render()
		variants = append(variants, e)
		e = okCase(m)
		e.r.body = ""
		variants = append(variants, e)
		if minfo[m].ms {
			full := homeBody(m)
			e = okCase(m)
			e.r.body = full[:len(full)*2/3]
			variants = append(variants, e)
			if thorough {
				for _, dn := range msDocs {
					e = base(m, 207)
					e.r.ct, e.r.body = sp("application/xml"), docs[dn].render()
					variants = append(variants, e)
				}
			}
		}
		for _, v := range variants {
			for d := 1; d < nDeliv; d++ {
				c := v
				c.r.deliv = d
				if d == delivRealTransport && !realOK(&c.r) {
					continue
				}
				emit(c)
			}
		}
	}

	// 6g. METADATA PER OBJECT: multi-status documents with several responses in which every
	//     optional property is, independently per response, present (200 propstat, a value of
	//     its own) / absent / in a 404 propstat.  All 2-response combinations for the object
	//     lists and sync-collection, a sample for the collections (thorough: all), and random
	//     3-4-response combinations.  The client must hand out, with each object, that object's
	//     own values and zero values for what it lacks.
	dates := []string{"Wed, 01 Jan 2020 10:00:00 GMT", "Thu, 02 Jan 2020 11:30:00 GMT", "Fri, 03 Jan 2020 12:45:10 GMT", "Sat, 04 Jan 2020 00:00:01 GMT"}
	// state digit per optional property: 0 present, 1 absent, 2 in a 404 propstat
	entry := func(href string, must []*node, opt []*node, states []int) *node {
		ok := append([]*node{}, must...)
		var missing []*node
		for i, o := range opt {
			switch states[i] {
			case 0:
				ok = append(ok, o)
			case 2:
				missing = append(missing, &node{ns: o.ns, local: o.local})
			}
		}
		r := response(href, propstat(200, ok...))
		if len(missing) > 0 {
			r.kids = append(r.kids, propstat(404, missing...))
		}
		return r
	}
	digits := func(code, n int) []int {
		out := make([]int, n)
		for i := range out {
			out[i] = code % 3
			code /= 3
		}
		return out
	}
	objEntry := func(card bool, i, code int) *node {
		opt := []*node{dt("getlastmodified", dates[i%len(dates)]), dt("getetag", fmt.Sprintf(`"tag-%d"`, i)), dt("getcontentlength", fmt.Sprint(100+i))}
		if card {
			return entry(fmt.Sprintf("/card/me/friends/%d.vcf", i), []*node{tx(nsCard, "address-data", vcardText)}, opt, digits(code, 3))
		}
		return entry(fmt.Sprintf("/cal/me/work/%d.ics", i), []*node{tx(nsCal, "calendar-data", icalText)}, opt, digits(code, 3))
	}
	collEntry := func(card bool, i, code int) *node {
		if card {
			opt := []*node{dt("displayname", fmt.Sprintf("Book %d", i)), tx(nsCard, "addressbook-description", fmt.Sprintf("people %d", i)),
				tx(nsCard, "max-resource-size", fmt.Sprint(8000+i)),
				el(nsCard, "supported-address-data", &node{ns: nsCard, local: "address-data-type", attrs: [][2]string{{"content-type", "text/vcard"}, {"version", fmt.Sprintf("%d.0", 3+i%2)}}})}
			return entry(fmt.Sprintf("/card/me/b%d/", i), []*node{d("resourcetype", d("collection"), el(nsCard, "addressbook"))}, opt, digits(code, 4))
		}
		opt := []*node{dt("displayname", fmt.Sprintf("Cal %d", i)), tx(nsCal, "calendar-description", fmt.Sprintf("things %d", i)),
			tx(nsCal, "max-resource-size", fmt.Sprint(4000+i)),
			el(nsCal, "supported-calendar-component-set", &node{ns: nsCal, local: "comp", attrs: [][2]string{{"name", []string{"VEVENT", "VTODO", "VJOURNAL"}[i%3]}}})}
		return entry(fmt.Sprintf("/cal/me/c%d/", i), []*node{d("resourcetype", d("collection"), el(nsCal, "calendar"))}, opt, digits(code, 4))
	}
	syncEntry := func(i, code int) *node {
		opt := []*node{dt("getlastmodified", dates[i%len(dates)]), dt("getetag", fmt.Sprintf(`"s-%d"`, i))}
		return entry(fmt.Sprintf("/card/me/friends/%d.vcf", i), nil, opt, digits(code, 2))
	}
	metaCase := func(m string, rs ...*node) {
		c := base(m, 207)
		c.r.ct = sp("application/xml")
		c.r.body = multistatus(rs...).render()
		emit(c)
	}
	for a := 0; a < 27; a++ {
		for b := 0; b < 27; b++ {
			metaCase("QueryCalendar", objEntry(false, 0, a), objEntry(false, 1, b))
			metaCase("QueryAddressBook", objEntry(true, 0, a), objEntry(true, 1, b))
			if thorough || (a+b)%5 == 0 {
				metaCase("MultiGetCalendar", objEntry(false, 0, a), objEntry(false, 1, b))
				metaCase("MultiGetAddressBook", objEntry(true, 0, a), objEntry(true, 1, b))
			}
		}
	}
	for a := 0; a < 9; a++ {
		for b := 0; b < 9; b++ {
			metaCase("SyncCollection", syncEntry(0, a), syncEntry(1, b))
			for c := 0; c < 9; c++ {
				if thorough || (a+b+c)%3 == 0 {
					metaCase("SyncCollection", syncEntry(0, a), syncEntry(1, b), response("/card/me/friends/gone.vcf", status(404)), syncEntry(2, c))
				}
			}
		}
	}
	for a := 0; a < 81; a++ {
		for b := 0; b < 81; b++ {
			if thorough || (a*7+b)%5 == 0 {
				metaCase("FindCalendars", collEntry(false, 0, a), collEntry(false, 1, b))
				metaCase("FindAddressBooks", collEntry(true, 0, a), collEntry(true, 1, b))
			}
		}
	}
	{
		mrng := hx.NewRand(hx.Seed() + 77)
		nMeta := 400
		if thorough {
			nMeta = 6000
		}
		for i := 0; i < nMeta; i++ {
			n := 3 + mrng.Intn(2)
			var cal, card, ccal, ccard, sy []*node
			for k := 0; k < n; k++ {
				cal = append(cal, objEntry(false, k, mrng.Intn(27)))
				card = append(card, objEntry(true, k, mrng.Intn(27)))
				ccal = append(ccal, collEntry(false, k, mrng.Intn(81)))
				ccard = append(ccard, collEntry(true, k, mrng.Intn(81)))
				sy = append(sy, syncEntry(k, mrng.Intn(9)))
			}
			metaCase([]string{"QueryCalendar", "MultiGetCalendar"}[i%2], cal...)
			metaCase([]string{"QueryAddressBook", "MultiGetAddressBook"}[i%2], card...)
			metaCase("FindCalendars", ccal...)
			metaCase("FindAddressBooks", ccard...)
			metaCase("SyncCollection", sy...)
		}
	}

	// 6f. BODIES THAT NEVER END (the bytes, then a reader that blocks / trickles blanks for ever),
	//     scripted where the code has no reason to read past the bytes: a 2xx answer to a method
	//     that does not look at the body; a complete multi-status (207) or DAV:error document
	//     (XML error) — the XML decoder stops at the end of the first element; an error body of a
	//     type that is not looked at; a text error body followed by blanks at full speed for ever
	//     (any finite limit on the text kept is reached at once; no constant of the code is
	//     assumed), or by a blocking reader after 512 KiB of text.  Not scripted: incomplete XML,
	//     text shorter than every plausible limit followed by a blocking reader, iCalendar/vCard
	//     bodies — there reading on is what the code must do.
	//     The call has to return within the watchdog's patience; (hang) is a failing input.
	longText := strings.Repeat("the server is unhappy. ", 100)
	hugeText := strings.Repeat("the server is very unhappy and says so at length. ", 512*1024/50)
	for _, m := range methods {
		mi := minfo[m]
		for _, d := range []int{delivThenBlocks, delivThenTrickles} {
			var cs []caseIn
			switch {
			case mi.ms:
				cs = append(cs, okCase(m))
			case m == "GetCalendarObject" || m == "GetAddressObject":
			default:
				for _, st := range []int{200, 201, 204} {
					c := okCase(m)
					c.r.status = st
					c.r.body = "left over"
					cs = append(cs, c)
				}
			}
			for _, st := range []int{301, 403, 404, 500, 507} {
				c := base(m, st)
				c.r.ct, c.r.body = sp("application/json"), `{"error":"x"}`
				cs = append(cs, c)
				c = base(m, st)
				c.r.ct, c.r.body = sp("application/xml"), errXML
				cs = append(cs, c)
				if d == delivThenTrickles {
					// text error bodies: whatever amount of text the code keeps, the endless
					// blanks reach that limit at once
					c = base(m, st)
					c.r.ct, c.r.body = sp("text/plain"), longText
					cs = append(cs, c)
					c = base(m, st)
					c.r.ct, c.r.body = sp("text/html"), "short"
					cs = append(cs, c)
					c = base(m, st)
					c.r.body = ""
					cs = append(cs, c)
				} else if st == 403 && (m == "Open" || m == "Stat" || m == "Mkdir") {
					// followed by a reader that blocks: only after far more text than any
					// plausible limit (512 KiB)
					c = base(m, st)
					c.r.ct, c.r.body = sp("text/plain"), hugeText
					cs = append(cs, c)
				}
			}
			for _, c := range cs {
				c.r.deliv = d
				emit(c)
			}
		}
	}

	// 7. seeded random cases
	rng := hx.NewRand(hx.Seed())

	// 6d. HISTORY (items 1-3): sequences of calls on ONE client value of each type, with the
	//     shared request values, results of earlier steps kept and compared again at the end;
	//     every step is a case of its own (its history is part of the input and is re-executed
	//     on replay).  All ordered pairs of methods with their plain answers; per method
	//     error->ok, ok->error, long->short, decode failure->ok; random sequences of 2-5 calls.
	endpoints := []string{"", "http://dav.example.com", "HTTP://DAV.EXAMPLE.COM:80/base/", "https://user@dav.example.com/base", "http://dav.example.com//a/./b/"}
	emitSeq := func(ep string, steps []caseIn) {
		for i := range steps {
			c := steps[i]
			c.hist = append([]caseIn(nil), steps[:i]...)
			c.endpoint = ep
			emit(c)
		}
	}
	errCase := func(m string, st int) caseIn {
		c := base(m, st)
		c.r.ct, c.r.body = sp("application/xml"), errXML
		return c
	}
	for i, m1 := range methods {
		for j, m2 := range methods {
			emitSeq(endpoints[(i+j)%len(endpoints)], []caseIn{okCase(m1), okCase(m2)})
		}
		bad := okCase(m1)
		bad.r.body = "<not-xml"
		emitSeq("", []caseIn{errCase(m1, 423), okCase(m1)})
		emitSeq("", []caseIn{okCase(m1), errCase(m1, 404), okCase(m1)})
		emitSeq("", []caseIn{bad, okCase(m1)})
		tr := base(m1, 0)
		tr.r.terr = true
		emitSeq("", []caseIn{tr, okCase(m1), tr})
		if minfo[m1].ms {
			for _, dn := range []string{"readdir", "calendars", "addressbooks", "sync", "cardobjects", "calobjects"} {
				long := base(m1, 207)
				long.r.ct, long.r.body = sp("application/xml"), docs[dn].render()
				emitSeq("", []caseIn{long, okCase(m1), long})
			}
		}
	}
	randomCase := func() caseIn {
		m := methods[rng.Intn(len(methods))]
		c := okCase(m)
		switch rng.Intn(6) {
		case 0:
			c = errCase(m, []int{301, 403, 404, 423, 500, 507}[rng.Intn(6)])
		case 1:
			if dn := docNames[rng.Intn(len(docNames))]; true {
				c.r.ct, c.r.body = sp("application/xml"), docs[dn].render()
			}
		case 2:
			if minfo[m].ms {
				doc := docs[minfo[m].home]
				if pls := placements(doc); len(pls) > 0 {
					c.r.body = place(doc, pls[rng.Intn(len(pls))]).render()
				}
			}
		}
		if rng.Chance(1, 4) {
			c.r.deliv = rng.Intn(nDeliv)
			if c.r.deliv == delivRealTransport && !realOK(&c.r) {
				c.r.deliv = delivOneByte
			}
		}
		return c
	}
	nSeq, nRounds := 900, 30
	if thorough {
		nSeq, nRounds = 15000, 400
	}
	for i := 0; i < nSeq; i++ {
		var steps []caseIn
		for k := 2 + rng.Intn(4); k > 0; k-- {
			steps = append(steps, randomCase())
		}
		emitSeq(endpoints[rng.Intn(len(endpoints))], steps)
	}

	// 6e. OVERLAP (item 7): all methods at once on one client set, each with its own answer
	for i := 0; i < nRounds; i++ {
		var calls []caseIn
		for k, m := range methods {
			if m == "FindCurrentUserPrincipal" || m == "HasSupport" {
				continue // their request path is fixed, the answers are routed by path
			}
			c := randomCase()
			for c.method != m {
				c = randomCase()
			}
			c.r.deliv = 0
			c.path = fmt.Sprintf("/ovl%d%s", k, c.path)
			calls = append(calls, c)
		}
		emit(caseIn{method: "OVERLAP", hist: calls})
	}
	nRandom, nMalformed := 40000, 15000
	if thorough {
		nRandom, nMalformed = 400000, 150000
	}
	statuses := []int{200, 201, 204, 206, 207, 207, 207, 207, 299, 301, 304, 400, 401, 403, 404, 409, 412, 423, 500, 503, 507}
	pick := func(l []*string) *string { return l[rng.Intn(len(l))] }
	for i := 0; i < nRandom; i++ {
		// mostly valid: the method's document with a few stacked mutations / placements
		m := methods[rng.Intn(len(methods))]
		mi := minfo[m]
		c := okCase(m)
		if rng.Chance(1, 4) {
			c.r.status = statuses[rng.Intn(len(statuses))]
		}
		if rng.Chance(1, 40) {
			c.r.status = 100 + rng.Intn(500)
		}
		if rng.Chance(1, 6) {
			c.r.ct = pick(contentTypes)
		}
		if rng.Chance(1, 10) {
			c.r.dav = davSets[rng.Intn(len(davSets))]
		}
		if rng.Chance(1, 12) {
			c.r.loc = pick(locs)
		}
		if rng.Chance(1, 12) {
			c.r.etag = pick(etags)
		}
		if rng.Chance(1, 12) {
			c.r.clen = pick(clens)
		}
		if rng.Chance(1, 12) {
			c.r.lmod = pick(lmods)
		}
		if rng.Chance(1, 30) {
			c.path = strings.TrimSuffix(c.path, "/")
		}
		dn := mi.home
		if strings.HasPrefix(dn, "raw:") || rng.Chance(1, 5) {
			dn = docNames[rng.Intn(len(docNames))]
			if strings.HasPrefix(mi.home, "raw:") && rng.Chance(2, 3) {
				dn = ""
			}
		}
		if c.r.status/100 != 2 && rng.Chance(1, 3) {
			// a failing status with a (possibly large) DAV:error body
			sizes := []int{200, 900, 1024, 1025, 1500, 3000, 4097, 9000}
			c.r.body = bigError(rng.Intn(nBigKinds), sizes[rng.Intn(len(sizes))])
			c.r.ct = xmlCTs[rng.Intn(len(xmlCTs))]
			emit(c)
			continue
		}
		if rng.Chance(1, 8) {
			c.r.deliv = 1 + rng.Intn(nDeliv-2)
		}
		if dn != "" {
			doc := docs[dn]
			for k := rng.Intn(4); k > 0; k-- {
				if rng.Bool() {
					mus := mutations(doc)
					doc = mutate(doc, mus[rng.Intn(len(mus))])
				} else if pls := placements(doc); len(pls) > 0 {
					doc = place(doc, pls[rng.Intn(len(pls))])
				}
			}
			c.r.body = doc.render()
			if c.r.ct == nil {
				c.r.ct = sp("application/xml")
			}
		}
		emit(c)
	}
	for i := 0; i < nMalformed; i++ {
		// malformed: damaged bytes of a document, or arbitrary bytes
		m := methods[rng.Intn(len(methods))]
		c := okCase(m)
		if minfo[m].ms && rng.Chance(1, 5) || rng.Chance(1, 8) {
			c.r.status = statuses[rng.Intn(len(statuses))]
		}
		if rng.Chance(1, 3) {
			c.r.ct = pick(contentTypes)
		}
		var b []byte
		switch rng.Intn(4) {
		case 0:
			b = make([]byte, rng.Intn(200))
			for j := range b {
				b[j] = byte(rng.Intn(256))
			}
		default:
			src := homeBody(m)
			if rng.Chance(1, 4) {
				src = docs[docNames[rng.Intn(len(docNames))]].render()
			}
			b = []byte(src)
			for k := 1 + rng.Intn(3); k > 0 && len(b) > 0; k-- {
				p := rng.Intn(len(b))
				switch rng.Intn(4) {
				case 0:
					b[p] = byte(rng.Intn(256))
				case 1:
					b[p] = "<>&\"'/=: "[rng.Intn(9)]
				case 2:
					b = append(b[:p], b[p+1:]...)
				case 3:
					q := rng.Intn(len(b))
					if q < p {
						p, q = q, p
					}
					b = append(append([]byte{}, b[:p]...), b[q:]...)
				}
			}
		}
		c.r.body = string(b)
		emit(c)
	}
}

// ---- large documents

const nBigKinds = 9

const xmlDecl = `<?xml version="1.0" encoding="utf-8"?>`

// bigError returns a DAV:error document of roughly the given size whose condition elements
// are <D:lock-token-submitted> (with hrefs) and <C:valid-calendar-data/>, <D:no-conflicting-lock/>;
// kind says where the bulk is.
func bigError(kind, size int) string {
	open := `<D:error xmlns:D="DAV:" xmlns:C="urn:ietf:params:xml:ns:caldav">`
	conds := `<D:lock-token-submitted><D:href>/dir/locked</D:href></D:lock-token-submitted><C:valid-calendar-data/><D:no-conflicting-lock/>`
	end := `</D:error>`
	pad := func(n int) int {
		if n < 1 {
			return 1
		}
		return n
	}
	fixed := len(xmlDecl) + len(open) + len(conds) + len(end)
	n := pad(size - fixed)
	spaces := strings.Repeat(" \n", n/2+1)[:n]
	comment := "<!--" + strings.Repeat("c", pad(n-7)) + "-->"
	switch kind {
	case 0: // white space before the root
		return xmlDecl + spaces + open + conds + end
	case 1: // comment before the root
		return xmlDecl + comment + open + conds + end
	case 2: // white space inside, before the conditions
		return xmlDecl + open + spaces + conds + end
	case 3: // comment inside, before the conditions
		return xmlDecl + open + comment + conds + end
	case 4: // comment between the conditions
		return xmlDecl + open + `<D:lock-token-submitted><D:href>/dir/locked</D:href></D:lock-token-submitted>` + comment + `<C:valid-calendar-data/><D:no-conflicting-lock/>` + end
	case 5: // many hrefs in the first condition
		var b strings.Builder
		b.WriteString(xmlDecl + open + `<D:lock-token-submitted>`)
		for i := 0; b.Len() < size-len(end)-80; i++ {
			fmt.Fprintf(&b, "<D:href>/dir/locked/%06d</D:href>", i)
		}
		b.WriteString(`</D:lock-token-submitted><C:valid-calendar-data/><D:no-conflicting-lock/>` + end)
		return b.String()
	case 6: // one long text
		return xmlDecl + open + `<D:lock-token-submitted><D:href>/dir/` + strings.Repeat("a", n) + `</D:href></D:lock-token-submitted><C:valid-calendar-data/><D:no-conflicting-lock/>` + end
	case 7: // many condition elements
		var b strings.Builder
		b.WriteString(xmlDecl + open)
		for i := 0; b.Len() < size-len(end)-len(conds); i++ {
			fmt.Fprintf(&b, "<D:need-privileges><D:resource><D:href>/r/%d</D:href><D:privilege><D:read/></D:privilege></D:resource></D:need-privileges>", i)
		}
		b.WriteString(conds + end)
		return b.String()
	default: // the bulk after the root element (never looked at)
		return xmlDecl + open + conds + end + spaces + comment
	}
}

// padDoc inserts padding of the given size into a rendered document (which starts with xmlDecl).
func padDoc(doc string, kind, size int) string {
	n := size - len(doc)
	if n < 8 {
		n = 8
	}
	rest := doc[len(xmlDecl):]
	gt := strings.IndexByte(rest, '>') + 1 // end of the root start tag
	switch kind {
	case 0:
		return xmlDecl + strings.Repeat(" ", n) + rest
	case 1:
		return xmlDecl + "<!--" + strings.Repeat("c", n-7) + "-->" + rest
	case 2:
		return xmlDecl + rest[:gt] + strings.Repeat("\n", n) + rest[gt:]
	default:
		return xmlDecl + rest[:gt] + "<!--" + strings.Repeat("c", n-7) + "-->" + rest[gt:]
	}
}
