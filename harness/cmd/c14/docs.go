package main

// Documents the scripted server answers with: valid bodies per client method,
// kept as element trees so that mutations are structure-aware.

import (
	"fmt"
	"sort"
	"strings"
)

const (
	nsDAV  = "DAV:"
	nsCal  = "urn:ietf:params:xml:ns:caldav"
	nsCard = "urn:ietf:params:xml:ns:carddav"
)

type node struct {
	ns, local string
	attrs     [][2]string
	text      string
	kids      []*node
}

func el(ns, local string, kids ...*node) *node { return &node{ns: ns, local: local, kids: kids} }
func tx(ns, local, text string) *node          { return &node{ns: ns, local: local, text: text} }
func d(local string, kids ...*node) *node      { return el(nsDAV, local, kids...) }
func dt(local, text string) *node              { return tx(nsDAV, local, text) }

func (n *node) clone() *node {
	c := *n
	c.attrs = append([][2]string(nil), n.attrs...)
	c.kids = make([]*node, len(n.kids))
	for i, k := range n.kids {
		c.kids[i] = k.clone()
	}
	return &c
}

// preorder lists every element with its parent (nil for the root).
type slot struct {
	n, parent *node
	idx       int
}

func (n *node) preorder() []slot {
	var out []slot
	var walk func(x, p *node, i int)
	walk = func(x, p *node, i int) {
		out = append(out, slot{x, p, i})
		for j, k := range x.kids {
			walk(k, x, j)
		}
	}
	walk(n, nil, 0)
	return out
}

var knownPrefix = map[string]string{nsDAV: "D", nsCal: "C", nsCard: "A"}

func escText(s string) string {
	r := strings.NewReplacer("&", "&amp;", "<", "&lt;", ">", "&gt;", "\r", "&#xD;")
	return r.Replace(s)
}
func escAttr(s string) string {
	r := strings.NewReplacer("&", "&amp;", "<", "&lt;", "\"", "&quot;", "\n", "&#xA;", "\r", "&#xD;", "\t", "&#x9;")
	return r.Replace(s)
}

// render serialises the tree: all namespaces are declared as prefixes on the root.
func (n *node) render() string {
	seen := map[string]bool{}
	for _, s := range n.preorder() {
		if s.n.ns != "" {
			seen[s.n.ns] = true
		}
	}
	var spaces []string
	for s := range seen {
		spaces = append(spaces, s)
	}
	sort.Strings(spaces)
	prefix := map[string]string{}
	extra := 0
	for _, s := range spaces {
		if p, ok := knownPrefix[s]; ok {
			prefix[s] = p
		} else {
			prefix[s] = fmt.Sprintf("n%d", extra)
			extra++
		}
	}
	var b strings.Builder
	b.WriteString(`<?xml version="1.0" encoding="utf-8"?>`)
	var w func(x *node, root bool)
	w = func(x *node, root bool) {
		name := x.local
		if x.ns != "" {
			name = prefix[x.ns] + ":" + x.local
		}
		b.WriteString("<" + name)
		if root {
			for _, s := range spaces {
				fmt.Fprintf(&b, ` xmlns:%s="%s"`, prefix[s], escAttr(s))
			}
		}
		for _, a := range x.attrs {
			fmt.Fprintf(&b, ` %s="%s"`, a[0], escAttr(a[1]))
		}
		if x.text == "" && len(x.kids) == 0 {
			b.WriteString("/>")
			return
		}
		b.WriteString(">")
		b.WriteString(escText(x.text))
		for _, k := range x.kids {
			w(k, false)
		}
		b.WriteString("</" + name + ">")
	}
	w(n, true)
	return b.String()
}

// ---- building blocks

func status(code int) *node {
	return dt("status", fmt.Sprintf("HTTP/1.1 %d %s", code, statusText(code)))
}

func propstat(code int, props ...*node) *node {
	return d("propstat", d("prop", props...), status(code))
}

func response(href string, rest ...*node) *node {
	return d("response", append([]*node{dt("href", href)}, rest...)...)
}

func multistatus(kids ...*node) *node { return d("multistatus", kids...) }

const (
	icalText  = "BEGIN:VCALENDAR\r\nVERSION:2.0\r\nPRODID:-//verif//EN\r\nBEGIN:VEVENT\r\nUID:u1\r\nDTSTAMP:20200101T000000Z\r\nDTSTART:20200101T100000Z\r\nSUMMARY:s\r\nEND:VEVENT\r\nEND:VCALENDAR\r\n"
	vcardText = "BEGIN:VCARD\r\nVERSION:4.0\r\nFN:Ann\r\nEND:VCARD\r\n"
	httpDate  = "Wed, 01 Jan 2020 10:00:00 GMT"
	httpDate2 = "Thu, 02 Jan 2020 11:30:00 GMT"
)

func fileProps(size, etag string) []*node {
	return []*node{d("resourcetype"), dt("getcontentlength", size), dt("getlastmodified", httpDate),
		dt("getcontenttype", "text/plain"), dt("getetag", `"`+etag+`"`)}
}

func dirProps() []*node {
	return []*node{d("resourcetype", d("collection")), dt("getlastmodified", httpDate2)}
}

// docs: name -> valid document
var docs = map[string]*node{}
var docNames []string

func addDoc(name string, n *node) {
	docs[name] = n
	docNames = append(docNames, name)
}

func init() {
	addDoc("principal", multistatus(response("/",
		propstat(200, d("current-user-principal", dt("href", "/principals/me/"))))))
	addDoc("unauth", multistatus(response("/",
		propstat(200, d("current-user-principal", d("unauthenticated"))))))
	addDoc("calhome", multistatus(response("/principals/me/",
		propstat(200, el(nsCal, "calendar-home-set", dt("href", "/cal/me/"))))))
	addDoc("cardhome", multistatus(response("/principals/me/",
		propstat(200, el(nsCard, "addressbook-home-set", dt("href", "/card/me/"))))))
	addDoc("statfile", multistatus(response("/dir/a%20b.txt", propstat(200, fileProps("7", "e1")...))))
	addDoc("statdir", multistatus(response("/dir/", propstat(200, dirProps()...),
		propstat(404, d("getcontentlength"), d("getcontenttype"), d("getetag")))))
	addDoc("readdir", multistatus(
		response("/dir/", propstat(200, dirProps()...), propstat(404, d("getcontentlength"), d("getcontenttype"), d("getetag"))),
		response("/dir/a.txt", propstat(200, fileProps("7", "e1")...)),
		response("/dir/b.txt", propstat(200, d("resourcetype"), dt("getcontentlength", "0")),
			propstat(404, d("getlastmodified"), d("getcontenttype"), d("getetag"))),
		response("/dir/sub/", propstat(200, dirProps()...))))
	addDoc("calendars", multistatus(
		response("/cal/me/", propstat(200, d("resourcetype", d("collection"))),
			propstat(404, d("displayname"), el(nsCal, "calendar-description"), el(nsCal, "max-resource-size"), el(nsCal, "supported-calendar-component-set"))),
		response("/cal/me/work/", propstat(200,
			d("resourcetype", d("collection"), el(nsCal, "calendar")),
			dt("displayname", "Work"), tx(nsCal, "calendar-description", "work things"),
			tx(nsCal, "max-resource-size", "4096"),
			el(nsCal, "supported-calendar-component-set",
				&node{ns: nsCal, local: "comp", attrs: [][2]string{{"name", "VEVENT"}}},
				&node{ns: nsCal, local: "comp", attrs: [][2]string{{"name", "VTODO"}}}))),
		response("/cal/me/home/", propstat(200, d("resourcetype", d("collection"), el(nsCal, "calendar")), dt("displayname", "Home")),
			propstat(404, el(nsCal, "calendar-description"), el(nsCal, "max-resource-size"), el(nsCal, "supported-calendar-component-set")))))
	addDoc("addressbooks", multistatus(
		response("/card/me/", propstat(200, d("resourcetype", d("collection"))),
			propstat(404, d("displayname"), el(nsCard, "addressbook-description"), el(nsCard, "max-resource-size"), el(nsCard, "supported-address-data"))),
		response("/card/me/friends/", propstat(200,
			d("resourcetype", d("collection"), el(nsCard, "addressbook")),
			dt("displayname", "Friends"), tx(nsCard, "addressbook-description", "people"),
			tx(nsCard, "max-resource-size", "8192"),
			el(nsCard, "supported-address-data",
				&node{ns: nsCard, local: "address-data-type", attrs: [][2]string{{"content-type", "text/vcard"}, {"version", "4.0"}}}))),
		response("/card/me/other/", propstat(200, d("resourcetype", d("collection"), el(nsCard, "addressbook"))),
			propstat(404, d("displayname"), el(nsCard, "addressbook-description"), el(nsCard, "max-resource-size"), el(nsCard, "supported-address-data")))))
	addDoc("calobjects", multistatus(
		response("/cal/me/work/1.ics", propstat(200, dt("getlastmodified", httpDate), dt("getetag", `"c1"`), dt("getcontentlength", "172"),
			tx(nsCal, "calendar-data", icalText))),
		response("/cal/me/work/2.ics", propstat(200, dt("getetag", `"c2"`), tx(nsCal, "calendar-data", icalText)),
			propstat(404, d("getlastmodified"), d("getcontentlength")))))
	addDoc("cardobjects", multistatus(
		response("/card/me/friends/1.vcf", propstat(200, dt("getlastmodified", httpDate), dt("getetag", `"v1"`), dt("getcontentlength", "42"),
			tx(nsCard, "address-data", vcardText))),
		response("/card/me/friends/2.vcf", propstat(200, dt("getetag", `"v2"`), tx(nsCard, "address-data", vcardText)),
			propstat(404, d("getlastmodified"), d("getcontentlength")))))
	addDoc("sync", multistatus(
		response("/card/me/friends/", propstat(200, dt("getetag", `"coll"`))),
		response("/card/me/friends/1.vcf", propstat(200, dt("getlastmodified", httpDate), dt("getetag", `"v1"`))),
		response("/card/me/friends/gone.vcf", status(404)),
		response("/card/me/friends/3.vcf", propstat(200, dt("getetag", `"v3"`)), propstat(404, d("getlastmodified"))),
		dt("sync-token", "http://example.com/ns/sync/1234")))
	addDoc("locked", multistatus(
		d("response", dt("href", "/dir/locked"), status(423), d("error", d("lock-token-submitted")), dt("responsedescription", "locked"))))
	// one status (and DAV:error, description) for several hrefs: RFC 4918 14.24 (href*, status)
	addDoc("multihref", multistatus(
		d("response", dt("href", "/dir/a.txt"), dt("href", "/dir/b.txt"), status(423), d("error", d("lock-token-submitted")), dt("responsedescription", "both locked")),
		response("/dir/c.txt", propstat(200, fileProps("7", "e1")...))))
	// sync-collection members reported 404 with a description, one of them for two hrefs
	addDoc("syncdesc", multistatus(
		response("/card/me/friends/1.vcf", propstat(200, dt("getlastmodified", httpDate), dt("getetag", `"v1"`))),
		d("response", dt("href", "/card/me/friends/gone1.vcf"), status(404), dt("responsedescription", "Not Found")),
		d("response", dt("href", "/card/me/friends/gone2.vcf"), dt("href", "/card/me/friends/gone3.vcf"), status(404), dt("responsedescription", "both gone")),
		d("response", dt("href", "/card/me/friends/gone4.vcf"), status(404), d("error", d("no-such-resource")), dt("responsedescription", "gone")),
		dt("sync-token", "http://example.com/ns/sync/1235")))
	addDoc("daverror", d("error", d("need-privileges", d("resource", dt("href", "/dir/a.txt"), d("privilege", d("read"))))))
	addDoc("calerror", d("error", el(nsCal, "valid-calendar-data"), d("no-conflicting-lock")))
}

// raw (non-tree) bodies
var rawBodies = map[string]string{
	"empty": "",
	"text":  "  something went wrong on the server\n",
	"blank": " \r\n\t  \n",
	"html":  "<html><head><title>502</title></head><body><h1>Bad Gateway</h1></body></html>",
	"ical":  icalText,
	"vcard": vcardText,
	// go-ical's decoder panics on a parameter value that ends the line
	"icalpanic": "BEGIN:VCALENDAR\r\nVERSION:2.0\r\nX-A;B=c\r\nEND:VCALENDAR\r\n",
	"icalbad":   "BEGIN:VCALENDAR\r\nVERSION:2.0\r\nno colon here\r\nEND:VCALENDAR\r\n",
	"notxml":    "this is <not xml",
	"xmldecl":   `<?xml version="1.0" encoding="utf-8"?>`,
	"t1023":     strings.Repeat("a", 1023),
	"t1024":     strings.Repeat("a", 1024),
	"t1025":     strings.Repeat("a", 1025),
	"sp1024a":   strings.Repeat(" ", 1024) + "a",
	"sp1023a":   strings.Repeat(" ", 1023) + "a",
}

var rawNames []string

func init() {
	for k := range rawBodies {
		rawNames = append(rawNames, k)
	}
	sort.Strings(rawNames)
}

// ---- structure-aware mutations of a document

var textCorruptions = []string{"", "garbage", "-5", "%zz", "HTTP/1.1 404 Not Found", "/other/path", "W/\"w\"", "HTTP/1.1 99 X", "HTTP/1.1 200", "X-A;B=c", "\"q\""}

// mutationCount returns how many mutations mutate() knows for the document.
func mutations(doc *node) []string {
	var out []string
	n := len(doc.preorder())
	for i := 0; i < n; i++ {
		for _, k := range []string{"drop", "dup", "ren", "ns", "nons", "first", "last"} {
			if i == 0 && (k == "drop" || k == "dup" || k == "first" || k == "last") {
				continue
			}
			out = append(out, fmt.Sprintf("%s.%d", k, i))
		}
		s := doc.preorder()[i]
		if len(s.n.kids) == 0 {
			for j := range textCorruptions {
				out = append(out, fmt.Sprintf("txt%d.%d", j, i))
			}
		}
	}
	return out
}

// mutate applies mutation m (as named by mutations) to a copy of doc.
func mutate(doc *node, m string) *node {
	c := doc.clone()
	var kind string
	var i int
	dot := strings.LastIndexByte(m, '.')
	kind = m[:dot]
	fmt.Sscanf(m[dot+1:], "%d", &i)
	slots := c.preorder()
	if i >= len(slots) {
		return c
	}
	s := slots[i]
	switch {
	case kind == "drop" && s.parent != nil:
		s.parent.kids = append(append([]*node{}, s.parent.kids[:s.idx]...), s.parent.kids[s.idx+1:]...)
	case kind == "dup" && s.parent != nil:
		k := append([]*node{}, s.parent.kids[:s.idx+1]...)
		k = append(k, s.n.clone())
		s.parent.kids = append(k, s.parent.kids[s.idx+1:]...)
	case kind == "first" && s.parent != nil:
		k := []*node{s.n}
		k = append(k, s.parent.kids[:s.idx]...)
		s.parent.kids = append(k, s.parent.kids[s.idx+1:]...)
	case kind == "last" && s.parent != nil:
		k := append([]*node{}, s.parent.kids[:s.idx]...)
		k = append(k, s.parent.kids[s.idx+1:]...)
		s.parent.kids = append(k, s.n)
	case kind == "ren":
		s.n.local += "x"
	case kind == "ns":
		s.n.ns = "urn:wrong:"
	case kind == "nons":
		s.n.ns = ""
	case strings.HasPrefix(kind, "txt"):
		var j int
		fmt.Sscanf(kind[3:], "%d", &j)
		s.n.text = textCorruptions[j%len(textCorruptions)]
	}
	return c
}

// ---- placements of a status on a response or a propstat

var placeCodes = []string{"403", "404", "500", "507", "garbage", "200", "201", "204", "207", "199", "301", "", "HTTP/1.1 404", "HTTP/2 404 Not Found",
	// no reason phrase, two fields only, trailing blank, doubled blank
	"HTTP/1.1 200", "HTTP/1.1 200 ", "HTTP/1.1 207", "HTTP/1.1 404 ", "HTTP/1.1  200 OK", "HTTP/1.1", "200 OK"}

func placements(doc *node) []string {
	var out []string
	for i, s := range doc.preorder() {
		if s.n.ns == nsDAV && (s.n.local == "response" || s.n.local == "propstat") {
			for j := range placeCodes {
				out = append(out, fmt.Sprintf("%d.%d", i, j))
			}
		}
	}
	return out
}

func statusTextFor(j int) string {
	c := placeCodes[j%len(placeCodes)]
	if len(c) == 3 && c[0] >= '0' && c[0] <= '9' {
		var code int
		fmt.Sscanf(c, "%d", &code)
		return fmt.Sprintf("HTTP/1.1 %d %s", code, statusText(code))
	}
	return c
}

// place sets the status of the response/propstat at preorder index i (adding the
// element when the response has none).
func place(doc *node, p string) *node {
	c := doc.clone()
	var i, j int
	fmt.Sscanf(p, "%d.%d", &i, &j)
	slots := c.preorder()
	if i >= len(slots) {
		return c
	}
	n := slots[i].n
	text := statusTextFor(j)
	for _, k := range n.kids {
		if k.ns == nsDAV && k.local == "status" {
			k.text = text
			return c
		}
	}
	n.kids = append(n.kids, dt("status", text))
	return c
}
