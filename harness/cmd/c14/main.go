// Command c14 feeds every public client method of the webdav, caldav and carddav
// packages one scripted HTTP response and records what the method returned.
//
// Case line:  <input> <derived> <observation>
//
//	input    (c <method> <path> (terr) | (r <status> <reqset> <ct> (<dav>...) <loc> <etag> <clen> <lmod> <body>))
//	         header values are "-" (absent) or hex strings; body is a hex string
//	derived  (d) | (d <mt> <cterr> <ct> <loc> <etag_ok> <len_ok> <mod_ok> <ical g|b|x> <vcard g|b|x> <xml>)
//	         what the parsers outside the model make of the input, computed here with the
//	         real functions: mime.ParseMediaType, url.Parse, strconv, http.ParseTime, the
//	         iCalendar/vCard decoders, and the element tree encoding/xml's tokenizer yields
//	         for the body: xml = s (no well-formed first element) | (e <ns> <local> <ann> <kid>...)
//	         with <ann> the outcome of the text codec the struct mapping applies to the
//	         element's own character data (status line, URL, integer, date, entity tag, ...)
//	obs      (o <requests made> <outcome>)
//	         outcome = (ok) | (paths <p>...) | (sync (<deleted>...) (<updated>...))
//	                 | (err h <code> - | (n (<ns> <local>)...)) | (err o) | (panic) | (hang)
//
// -replay re-executes the inputs of the given case lines.
package main

import (
	"bytes"
	"context"
	"encoding/xml"
	"errors"
	"flag"
	"fmt"
	"io"
	"mime"
	"net/http"
	"net/url"
	"os"
	"runtime"
	"strconv"
	"strings"
	"sync"
	"sync/atomic"
	"time"

	"github.com/emersion/go-ical"
	"github.com/emersion/go-vcard"
	"github.com/emersion/go-webdav"
	"github.com/emersion/go-webdav/caldav"
	"github.com/emersion/go-webdav/carddav"
	"github.com/emersion/go-webdav/verifhook"

	"verifharness/hx"
)

func statusText(code int) string {
	if t := http.StatusText(code); t != "" {
		return t
	}
	return "Status"
}

// ---- the scripted response

type respSpec struct {
	terr                      bool
	status                    int
	reqset                    bool
	ct, loc, etag, clen, lmod *string
	dav                       []string
	body                      string
	// deliv: the form in which the body reaches the client (see body.go); the model does
	// not look at it: the outcome must not depend on it
	deliv int
}

// caseIn is one client call.  hist: the calls made before it on the SAME client values
// (inputs only; the step is judged by the model on its own inputs); endpoint: the URL the
// clients were created with ("" = defaultEndpoint); ovl: the call ran while other calls
// on the same client value were in flight.
type caseIn struct {
	method, path string
	r            respSpec
	hist         []caseIn
	endpoint     string
	ovl          bool
}

func sp(s string) *string { return &s }

func optAtom(p *string) string {
	if p == nil {
		return "-"
	}
	return hx.S(*p)
}

func optStr(x hx.Sx) *string {
	if !x.IsList && x.Atom == "-" {
		return nil
	}
	s := x.Str()
	return &s
}

func respSx(rs *respSpec) string {
	if rs.terr {
		return "(terr)"
	}
	var dav []string
	for _, v := range rs.dav {
		dav = append(dav, hx.S(v))
	}
	return hx.L("r", hx.I(int64(rs.status)), hx.B(rs.reqset), optAtom(rs.ct), hx.L(dav...),
		optAtom(rs.loc), optAtom(rs.etag), optAtom(rs.clen), optAtom(rs.lmod), hx.S(rs.body), hx.I(int64(rs.deliv)))
}

func inputSx(c caseIn) string {
	items := []string{"c", c.method, hx.S(c.path), respSx(&c.r)}
	if c.ovl {
		items = append(items, "(ovl)")
	} else if len(c.hist) > 0 || c.endpoint != "" {
		h := []string{"hist", hx.S(c.endpoint)}
		for _, st := range c.hist {
			h = append(h, hx.L(st.method, hx.S(st.path), respSx(&st.r)))
		}
		items = append(items, hx.L(h...))
	}
	return hx.L(items...)
}

func parseResp(r hx.Sx) respSpec {
	var rs respSpec
	if r.Head() == "terr" {
		rs.terr = true
		return rs
	}
	f := r.Args()
	rs.status = int(f[0].Int())
	rs.reqset = f[1].Bool()
	rs.ct = optStr(f[2])
	for _, v := range f[3].List {
		rs.dav = append(rs.dav, v.Str())
	}
	rs.loc = optStr(f[4])
	rs.etag = optStr(f[5])
	rs.clen = optStr(f[6])
	rs.lmod = optStr(f[7])
	rs.body = f[8].Str()
	if len(f) > 9 {
		rs.deliv = int(f[9].Int())
	}
	return rs
}

func parseInput(x hx.Sx) caseIn {
	a := x.Args()
	c := caseIn{method: a[0].Atom, path: a[1].Str(), r: parseResp(a[2])}
	if len(a) > 3 && a[3].Head() == "hist" {
		h := a[3].Args()
		c.endpoint = h[0].Str()
		for _, st := range h[1:] {
			c.hist = append(c.hist, caseIn{method: st.List[0].Atom, path: st.List[1].Str(), r: parseResp(st.List[2])})
		}
	}
	// an (ovl) case is replayed on its own
	return c
}

func (r *respSpec) header() http.Header {
	h := http.Header{}
	set := func(k string, v *string) {
		if v != nil {
			h[k] = []string{*v}
		}
	}
	set("Content-Type", r.ct)
	set("Location", r.loc)
	set("Etag", r.etag)
	set("Content-Length", r.clen)
	set("Last-Modified", r.lmod)
	if r.dav != nil {
		h["Dav"] = append([]string(nil), r.dav...)
	}
	return h
}

// scripted is the HTTPClient: it answers a request with the scripted response (the one
// routed to the request's path, else the current one) and, like http.Client, reads the
// request body and sets Response.Request.
type scripted struct {
	mu     sync.Mutex
	cur    *respSpec
	routes map[string]*respSpec
	calls  map[string]int // requests seen, per URL path
	total  int
}

func (s *scripted) set(r *respSpec) {
	s.mu.Lock()
	s.cur = r
	s.mu.Unlock()
}

func (s *scripted) endlessBody() bool {
	s.mu.Lock()
	defer s.mu.Unlock()
	return s.cur != nil && s.cur.deliv >= delivThenBlocks
}

func (s *scripted) count() int {
	s.mu.Lock()
	defer s.mu.Unlock()
	return s.total
}

func (s *scripted) countPath(p string) int {
	s.mu.Lock()
	defer s.mu.Unlock()
	return s.calls[p]
}

func (s *scripted) Do(req *http.Request) (*http.Response, error) {
	s.mu.Lock()
	r := s.cur
	if rr, ok := s.routes[req.URL.Path]; ok {
		r = rr
	}
	if s.calls == nil {
		s.calls = map[string]int{}
	}
	s.calls[req.URL.Path]++
	s.total++
	s.mu.Unlock()
	if r.deliv == delivRealTransport && !r.terr {
		return realDo(req, r)
	}
	if req.Body != nil {
		io.Copy(io.Discard, req.Body)
		req.Body.Close()
	}
	if r.terr {
		return nil, errors.New("scripted transport failure")
	}
	resp := &http.Response{
		Status:     fmt.Sprintf("%d %s", r.status, statusText(r.status)),
		StatusCode: r.status,
		Proto:      "HTTP/1.1",
		ProtoMajor: 1,
		ProtoMinor: 1,
		Header:     r.header(),
	}
	resp.Body, resp.ContentLength = deliver(r.body, r.deliv)
	if r.reqset {
		resp.Request = req
	}
	return resp, nil
}

// ---- derived inputs: what the parsers outside the model make of the response

func nsAtom(ns string) string {
	switch ns {
	case nsDAV:
		return "D"
	case nsCal:
		return "C"
	case nsCard:
		return "A"
	case "":
		return "-"
	}
	return hx.S(ns)
}

func good(ok bool) string {
	if ok {
		return "g"
	}
	return "b"
}

// icalParse / vcardParse: what the third-party decoder makes of the text: g (a value),
// b (an error), x (it panics).
func icalParse(b []byte) (res string) {
	defer func() {
		if recover() != nil {
			res = "x"
		}
	}()
	_, err := ical.NewDecoder(bytes.NewReader(b)).Decode()
	return good(err == nil)
}

func vcardParse(b []byte) (res string) {
	defer func() {
		if recover() != nil {
			res = "x"
		}
	}()
	_, err := vcard.NewDecoder(bytes.NewReader(b)).Decode()
	return good(err == nil)
}

// annotate applies the text codec the client's struct mapping would apply to the
// character data directly inside an element of this name.
//
// The codecs of /repo (Status, Href, ETag, Time) are code under test as well: a panic of
// one of them is recovered here and reported as "x" (the model then has no value for the
// element), the client call itself is observed separately under its own recover.
func annotate(ns, local string, text []byte, kids []xml.StartElement) (ann string) {
	defer func() {
		if recover() != nil {
			ann = "x"
		}
	}()
	switch {
	case local == "status":
		if len(text) == 0 {
			return "e"
		}
		var st verifhook.Status
		if err := st.UnmarshalText(text); err != nil {
			return "b"
		}
		return hx.L("c", hx.I(int64(st.Code)))
	case local == "href":
		var h verifhook.Href
		if err := h.UnmarshalText(text); err != nil {
			return "b"
		}
		return hx.L("p", hx.S(h.Path))
	case (ns == nsDAV && local == "getcontentlength") || ((ns == nsCal || ns == nsCard) && local == "max-resource-size"):
		// encoding/xml copyValue for an int64 field
		// (i <negative?> <value in decimal>)
		if len(text) == 0 {
			return hx.L("i", "0", hx.S("0"))
		}
		n, err := strconv.ParseInt(strings.TrimSpace(string(text)), 10, 64)
		if err != nil {
			return "b"
		}
		return hx.L("i", hx.B(n < 0), hx.S(strconv.FormatInt(n, 10)))
	case ns == nsDAV && local == "getlastmodified":
		// (v <Unix seconds>)
		var t verifhook.Time
		if t.UnmarshalText(text) != nil {
			return "b"
		}
		return hx.L("v", hx.S(strconv.FormatInt(time.Time(t).Unix(), 10)))
	case ns == nsDAV && local == "getetag":
		var e verifhook.ETag
		if e.UnmarshalText(text) != nil {
			return "b"
		}
		return hx.L("v", hx.S(string(e)))
	case (ns == nsDAV && local == "displayname") || (ns == nsCal && local == "calendar-description") || (ns == nsCard && local == "addressbook-description"):
		return hx.L("v", hx.S(string(text))) // a string field: the element's own character data
	case ns == nsCal && local == "supported-calendar-component-set":
		// the name attribute of every comp child, as encoding/xml fills comp.Name
		var names []string
		for _, k := range kids {
			if k.Name.Local == "comp" {
				names = append(names, attrValue(k, "name"))
			}
		}
		return hx.L("v", hx.S(strings.Join(names, ",")))
	case ns == nsCard && local == "supported-address-data":
		var types []string
		for _, k := range kids {
			if k.Name.Local == "address-data-type" {
				types = append(types, attrValue(k, "content-type")+";"+attrValue(k, "version"))
			}
		}
		return hx.L("v", hx.S(strings.Join(types, ",")))
	case ns == nsCal && local == "calendar-data":
		return icalParse(text)
	case ns == nsCard && local == "address-data":
		return vcardParse(text)
	}
	return "-"
}

// attrValue: the attribute a field tagged `xml:"<local>,attr"` receives (any namespace, the
// last one wins; namespace declarations are dropped when the value is captured).
func attrValue(se xml.StartElement, local string) string {
	v := ""
	for _, a := range se.Attr {
		if a.Name.Local == local && a.Name.Space != "xmlns" {
			v = a.Value
		}
	}
	return v
}

// xmlTree reads the body the way xml.Decoder.Decode does (skip to the first start
// element, consume it to its end) and renders the element tree; "s" when the
// tokenizer fails before the first element is complete.
func xmlTree(body string) string {
	d := xml.NewDecoder(strings.NewReader(body))
	for {
		tok, err := d.Token()
		if err != nil {
			return "s"
		}
		if se, ok := tok.(xml.StartElement); ok {
			var b strings.Builder
			if !renderElem(d, se, &b) {
				return "s"
			}
			return b.String()
		}
	}
}

func renderElem(d *xml.Decoder, se xml.StartElement, out *strings.Builder) bool {
	var text []byte
	var kids strings.Builder
	var kidStarts []xml.StartElement
	for {
		tok, err := d.Token()
		if err != nil {
			return false
		}
		switch t := tok.(type) {
		case xml.StartElement:
			kids.WriteByte(' ')
			kidStarts = append(kidStarts, t.Copy())
			if !renderElem(d, t, &kids) {
				return false
			}
		case xml.CharData:
			text = append(text, t...)
		case xml.EndElement:
			out.WriteString("(e ")
			out.WriteString(nsAtom(se.Name.Space))
			out.WriteByte(' ')
			out.WriteString(hx.S(se.Name.Local))
			out.WriteByte(' ')
			out.WriteString(annotate(se.Name.Space, se.Name.Local, text, kidStarts))
			out.WriteString(kids.String())
			out.WriteByte(')')
			return true
		}
	}
}

func derived(r *respSpec) string {
	if r.terr {
		return "(d)"
	}
	h := r.header()
	contentType := h.Get("Content-Type")
	doCT := contentType
	if doCT == "" {
		doCT = "text/plain"
	}
	mt, _, _ := mime.ParseMediaType(doCT)
	rawT, _, rawErr := mime.ParseMediaType(contentType)
	loc := "-"
	if l := h.Get("Location"); l != "" {
		if u, err := url.Parse(l); err != nil {
			loc = "b"
		} else {
			loc = hx.L("p", hx.S(u.Path))
		}
	}
	etagOK, lenOK, modOK := true, true, true
	if v := h.Get("ETag"); v != "" {
		_, err := strconv.Unquote(v)
		etagOK = err == nil
	}
	if v := h.Get("Content-Length"); v != "" {
		_, err := strconv.ParseInt(v, 10, 64)
		lenOK = err == nil
	}
	if v := h.Get("Last-Modified"); v != "" {
		_, err := http.ParseTime(v)
		modOK = err == nil
	}
	return hx.L("d", hx.S(mt), hx.B(rawErr != nil), hx.S(rawT), loc, hx.B(etagOK), hx.B(lenOK), hx.B(modOK),
		icalParse([]byte(r.body)), vcardParse([]byte(r.body)), xmlTree(r.body))
}

// ---- running the real client methods

const defaultEndpoint = "http://dav.example.com/"

// clientSet: one value of each client type over one HTTPClient; a sequence of calls uses
// ONE clientSet.
type clientSet struct {
	args *reqArgs
	hc   *scripted
	w    *webdav.Client
	c    *caldav.Client
	d    *carddav.Client
}

func newClientSet(endpoint string) *clientSet {
	if endpoint == "" {
		endpoint = defaultEndpoint
	}
	cs := &clientSet{hc: &scripted{}, args: newArgs()}
	var err error
	if cs.w, err = webdav.NewClient(cs.hc, endpoint); err != nil {
		panic(err)
	}
	if cs.c, err = caldav.NewClient(cs.hc, endpoint); err != nil {
		panic(err)
	}
	if cs.d, err = carddav.NewClient(cs.hc, endpoint); err != nil {
		panic(err)
	}
	return cs
}

// The request values handed to the client methods belong to the client set (generator
// audit, items 1 and 2): within a sequence the SAME values are passed to call after call,
// and every call is checked for having left them as they were.
type reqArgs struct {
	calQuery    *caldav.CalendarQuery
	calMultiGet *caldav.CalendarMultiGet
	abQuery     *carddav.AddressBookQuery
	abMultiGet  *carddav.AddressBookMultiGet
	sync        *carddav.SyncQuery
	moveOpts    *webdav.MoveOptions
	copyOpts    *webdav.CopyOptions
	calendar    *ical.Calendar
	card        vcard.Card
}

// the calendar / card a PUT sends: decoded when first needed
func (a *reqArgs) cal() *ical.Calendar {
	if a.calendar == nil {
		a.calendar, _ = ical.NewDecoder(strings.NewReader(icalText)).Decode()
	}
	return a.calendar
}

func (a *reqArgs) vc() vcard.Card {
	if a.card == nil {
		a.card, _ = vcard.NewDecoder(strings.NewReader(vcardText)).Decode()
	}
	return a.card
}

func newArgs() *reqArgs {
	return &reqArgs{
		calQuery: &caldav.CalendarQuery{
			CompRequest: caldav.CalendarCompRequest{Name: "VCALENDAR", AllProps: true, AllComps: true,
				Comps: []caldav.CalendarCompRequest{{Name: "VEVENT", Props: []string{"SUMMARY", "UID"}}}},
			CompFilter: caldav.CompFilter{Name: "VCALENDAR", Comps: []caldav.CompFilter{{Name: "VEVENT"}}},
		},
		calMultiGet: &caldav.CalendarMultiGet{
			CompRequest: caldav.CalendarCompRequest{Name: "VCALENDAR", AllProps: true, AllComps: true},
			Paths:       []string{"/cal/me/work/1.ics", "/cal/me/work/2.ics"},
		},
		abQuery: &carddav.AddressBookQuery{
			DataRequest: carddav.AddressDataRequest{Props: []string{"FN", "EMAIL"}},
			PropFilters: []carddav.PropFilter{{Name: "FN", TextMatches: []carddav.TextMatch{{Text: "a"}}}},
			Limit:       10,
		},
		abMultiGet: &carddav.AddressBookMultiGet{
			DataRequest: carddav.AddressDataRequest{AllProp: true},
			Paths:       []string{"/card/me/friends/1.vcf"},
		},
		sync:     &carddav.SyncQuery{DataRequest: carddav.AddressDataRequest{AllProp: true}, SyncToken: "http://example.com/ns/sync/1", Limit: 5},
		moveOpts: &webdav.MoveOptions{NoOverwrite: true},
		copyOpts: &webdav.CopyOptions{NoRecursive: true},
	}
}

// snapshot renders every request value (deeply, by value) for comparison.
func (a *reqArgs) snapshot() string {
	var cal, card strings.Builder
	if a.calendar != nil {
		ical.NewEncoder(&cal).Encode(a.calendar)
	}
	if a.card != nil {
		vcard.NewEncoder(&card).Encode(a.card)
	}
	return fmt.Sprintf("%+v|%+v|%+v|%+v|%+v|%+v|%+v|%s|%s", *a.calQuery, *a.calMultiGet, *a.abQuery, *a.abMultiGet,
		*a.sync, *a.moveOpts, *a.copyOpts, cal.String(), card.String())
}

func paths(l ...string) string {
	items := []string{"paths"}
	for _, p := range l {
		items = append(items, hx.S(p))
	}
	return hx.L(items...)
}

func strs(l []string) string {
	var items []string
	for _, p := range l {
		items = append(items, hx.S(p))
	}
	return hx.L(items...)
}

func projErr(err error) string {
	var he *verifhook.HTTPError
	if !errors.As(err, &he) {
		return "(err o)"
	}
	var de *verifhook.Error
	if errors.As(err, &de) && de != nil {
		items := []string{"n"}
		for i := range de.Raw {
			if n, ok := de.Raw[i].XMLName(); ok {
				items = append(items, hx.L(nsAtom(n.Space), hx.S(n.Local)))
			}
		}
		return hx.L("err", "h", hx.I(int64(he.Code)), hx.L(items...))
	}
	return hx.L("err", "h", hx.I(int64(he.Code)), "-")
}

var methods = []string{
	"FindCurrentUserPrincipal", "Stat", "Open", "ReadDir", "Create", "RemoveAll", "Mkdir", "Copy", "Move",
	"FindCalendarHomeSet", "FindCalendars", "QueryCalendar", "MultiGetCalendar", "GetCalendarObject", "PutCalendarObject",
	"HasSupport", "FindAddressBookHomeSet", "FindAddressBooks", "QueryAddressBook", "MultiGetAddressBook",
	"GetAddressObject", "PutAddressObject", "SyncCollection",
}

// call runs one client method of the client set and projects the result.  keep, when not
// nil, projects the returned value again later (generator audit, item 3: a result must not
// change when the client is used again).
func call(method, path string, cs *clientSet) (out string, keep func() string) {
	defer func() {
		if r := recover(); r != nil {
			out, keep = "(panic)", nil
		}
	}()
	switch method { // the value is there before the snapshot is taken
	case "PutCalendarObject":
		cs.args.cal()
	case "PutAddressObject":
		cs.args.vc()
	}
	before := cs.args.snapshot()
	out, keep = call1(method, path, cs)
	if cs.args.snapshot() != before {
		out, keep = "(argmod)", nil
	}
	return
}

func call1(method, path string, cs *clientSet) (out string, keep func() string) {
	ctx := context.Background()
	fail := func(err error) (string, func() string) { return projErr(err), nil }
	done := func(err error) (string, func() string) {
		if err != nil {
			return projErr(err), nil
		}
		return "(ok)", nil
	}
	one := func(p *string) (string, func() string) { return paths(*p), func() string { return paths(*p) } }
	infos := func(l []webdav.FileInfo) (string, func() string) {
		pr := func() string {
			var ps []string
			for i := range l {
				ps = append(ps, l[i].Path)
			}
			return paths(ps...)
		}
		return pr(), pr
	}
	// list results carry, after the paths, the metadata of every object:
	// (meta (<etag> <mod time, Unix seconds> <length>)...)
	objMeta := func(etag string, mod time.Time, n int64) string {
		return hx.L(hx.S(etag), hx.S(strconv.FormatInt(mod.Unix(), 10)), hx.S(strconv.FormatInt(n, 10)))
	}
	calObjs := func(l []caldav.CalendarObject, err error) (string, func() string) {
		if err != nil {
			return fail(err)
		}
		pr := func() string {
			var ps []string
			meta := []string{"meta"}
			for i := range l {
				ps = append(ps, l[i].Path)
				meta = append(meta, objMeta(l[i].ETag, l[i].ModTime, l[i].ContentLength))
			}
			return paths(ps...) + " " + hx.L(meta...)
		}
		return pr(), pr
	}
	cardObjs := func(l []carddav.AddressObject, err error) (string, func() string) {
		if err != nil {
			return fail(err)
		}
		pr := func() string {
			var ps []string
			meta := []string{"meta"}
			for i := range l {
				ps = append(ps, l[i].Path)
				meta = append(meta, objMeta(l[i].ETag, l[i].ModTime, l[i].ContentLength))
			}
			return paths(ps...) + " " + hx.L(meta...)
		}
		return pr(), pr
	}
	switch method {
	case "FindCurrentUserPrincipal":
		p, err := cs.w.FindCurrentUserPrincipal(ctx)
		if err != nil {
			return fail(err)
		}
		return one(&p)
	case "Stat":
		fi, err := cs.w.Stat(ctx, path)
		if err != nil {
			return fail(err)
		}
		return one(&fi.Path)
	case "Open":
		rc, err := cs.w.Open(ctx, path)
		if err != nil {
			return fail(err)
		}
		if cs.hc.endlessBody() {
			rc.Read(make([]byte, 16)) // the caller of Open owns the body: it does not read an endless one to its end
		} else {
			io.Copy(io.Discard, rc)
		}
		rc.Close()
		return "(ok)", nil
	case "ReadDir":
		l, err := cs.w.ReadDir(ctx, path, false)
		if err != nil {
			return fail(err)
		}
		return infos(l)
	case "Create":
		w, err := cs.w.Create(ctx, path)
		if err != nil {
			return fail(err)
		}
		w.Write([]byte("some content"))
		return done(w.Close())
	case "RemoveAll":
		return done(cs.w.RemoveAll(ctx, path))
	case "Mkdir":
		return done(cs.w.Mkdir(ctx, path))
	case "Copy":
		return done(cs.w.Copy(ctx, path, "/dest/of/copy", cs.args.copyOpts))
	case "Move":
		return done(cs.w.Move(ctx, path, "/dest/of/move", cs.args.moveOpts))
	case "FindCalendarHomeSet":
		p, err := cs.c.FindCalendarHomeSet(ctx, path)
		if err != nil {
			return fail(err)
		}
		return one(&p)
	case "FindCalendars":
		l, err := cs.c.FindCalendars(ctx, path)
		if err != nil {
			return fail(err)
		}
		pr := func() string {
			var ps []string
			meta := []string{"meta"} // (<name> <description> <max size> <component names>)
			for i := range l {
				ps = append(ps, l[i].Path)
				meta = append(meta, hx.L(hx.S(l[i].Name), hx.S(l[i].Description),
					hx.S(strconv.FormatInt(l[i].MaxResourceSize, 10)), hx.S(strings.Join(l[i].SupportedComponentSet, ","))))
			}
			return paths(ps...) + " " + hx.L(meta...)
		}
		return pr(), pr
	case "QueryCalendar":
		return calObjs(cs.c.QueryCalendar(ctx, path, cs.args.calQuery))
	case "MultiGetCalendar":
		return calObjs(cs.c.MultiGetCalendar(ctx, path, cs.args.calMultiGet))
	case "GetCalendarObject":
		o, err := cs.c.GetCalendarObject(ctx, path)
		if err != nil {
			return fail(err)
		}
		return one(&o.Path)
	case "PutCalendarObject":
		o, err := cs.c.PutCalendarObject(ctx, path, cs.args.cal())
		if err != nil {
			return fail(err)
		}
		return one(&o.Path)
	case "HasSupport":
		return done(cs.d.HasSupport(ctx))
	case "FindAddressBookHomeSet":
		p, err := cs.d.FindAddressBookHomeSet(ctx, path)
		if err != nil {
			return fail(err)
		}
		return one(&p)
	case "FindAddressBooks":
		l, err := cs.d.FindAddressBooks(ctx, path)
		if err != nil {
			return fail(err)
		}
		pr := func() string {
			var ps []string
			meta := []string{"meta"} // (<name> <description> <max size> <content-type;version ...>)
			for i := range l {
				ps = append(ps, l[i].Path)
				var types []string
				for _, t := range l[i].SupportedAddressData {
					types = append(types, t.ContentType+";"+t.Version)
				}
				meta = append(meta, hx.L(hx.S(l[i].Name), hx.S(l[i].Description),
					hx.S(strconv.FormatInt(l[i].MaxResourceSize, 10)), hx.S(strings.Join(types, ","))))
			}
			return paths(ps...) + " " + hx.L(meta...)
		}
		return pr(), pr
	case "QueryAddressBook":
		return cardObjs(cs.d.QueryAddressBook(ctx, path, cs.args.abQuery))
	case "MultiGetAddressBook":
		return cardObjs(cs.d.MultiGetAddressBook(ctx, path, cs.args.abMultiGet))
	case "GetAddressObject":
		o, err := cs.d.GetAddressObject(ctx, path)
		if err != nil {
			return fail(err)
		}
		return one(&o.Path)
	case "PutAddressObject":
		o, err := cs.d.PutAddressObject(ctx, path, cs.args.vc())
		if err != nil {
			return fail(err)
		}
		return one(&o.Path)
	case "SyncCollection":
		r, err := cs.d.SyncCollection(ctx, path, cs.args.sync)
		if err != nil {
			return fail(err)
		}
		pr := func() string {
			var upd []string
			meta := []string{"meta"} // (<mod time, Unix seconds> <etag>) of every update
			for i := range r.Updated {
				upd = append(upd, r.Updated[i].Path)
				meta = append(meta, hx.L(hx.S(strconv.FormatInt(r.Updated[i].ModTime.Unix(), 10)), hx.S(r.Updated[i].ETag)))
			}
			return hx.L("sync", strs(r.Deleted), strs(upd)) + " " + hx.L(meta...)
		}
		return pr(), pr
	}
	panic("harness: unknown method " + method)
}

var isChild bool

var watchdog = 5 * time.Second

// hangs counts watchdog expiries; after maxHangs the run stops executing further cases
// (the hanging cases already written are failing inputs, the search need not go on
// waiting 5 s for each of thousands more).
var hangs int32

const maxHangs = 12

// guarded runs one call under the watchdog; it reports the outcome and the keeper.
func guarded(method, path string, cs *clientSet) (string, func() string) {
	type res struct {
		out  string
		keep func() string
	}
	done := make(chan res, 1)
	go func() {
		out, keep := call(method, path, cs)
		done <- res{out, keep}
	}()
	t := time.NewTimer(watchdog)
	defer t.Stop()
	select {
	case r := <-done:
		return r.out, r.keep
	case <-t.C:
		atomic.AddInt32(&hangs, 1)
		return "(hang)", nil
	}
}

// observe runs the calls of the history and then the case's own call, all on ONE client
// set; results of the earlier calls are kept and projected again at the end.
func observe(c caseIn) string {
	cs := newClientSet(c.endpoint)
	type kept struct {
		was  string
		keep func() string
	}
	var keeps []kept
	for i := range c.hist {
		st := &c.hist[i]
		cs.hc.set(&st.r)
		out, keep := guarded(st.method, st.path, cs)
		if keep != nil {
			keeps = append(keeps, kept{out, keep})
		}
		if out == "(hang)" {
			break
		}
	}
	before := cs.hc.count()
	cs.hc.set(&c.r)
	out, _ := guarded(c.method, c.path, cs)
	n := cs.hc.count() - before
	for _, k := range keeps {
		if again := func() (s string) {
			defer func() {
				if recover() != nil {
					s = "(panic)"
				}
			}()
			return k.keep()
		}(); again != k.was {
			out = "(aliased)"
		}
	}
	return hx.L("o", hx.I(int64(n)), out)
}

// pairCase exercises the variadic loop of Response.DecodeProp directly (no public client
// method passes more than one value): the body is decoded as a MultiStatus and
// DecodeProp(&getETag, &getLastModified) is called on every response.
//
//	(p <body>) (d <xml>) (o - | (<outcome>...))     "-" = the body is not a MultiStatus
func pairCase(body string) string {
	var ms verifhook.MultiStatus
	obs := "-"
	decodeErr := func() (err error) {
		defer func() {
			if recover() != nil {
				err = nil
				ms.Responses = nil
				obs = "((panic))"
			}
		}()
		return xml.NewDecoder(strings.NewReader(body)).Decode(&ms)
	}()
	if obs != "-" {
		// the decoder of the code under test panicked: one (panic) outcome
	} else if err := decodeErr; err == nil {
		var outs []string
		for i := range ms.Responses {
			outs = append(outs, func() (out string) {
				defer func() {
					if recover() != nil {
						out = "(panic)"
					}
				}()
				var e verifhook.GetETag
				var m verifhook.GetLastModified
				if err := ms.Responses[i].DecodeProp(&e, &m); err != nil {
					return projErr(err)
				}
				return "(ok)"
			}())
		}
		obs = hx.L(outs...)
	}
	return hx.L("p", hx.S(body)) + " " + hx.L("d", xmlTree(body)) + " " + hx.L("o", obs)
}

func exec(c caseIn) string {
	if c.method == "DecodePropPair" {
		return pairCase(c.r.body)
	}
	if c.method == "OVERLAP" {
		return overlap(c.hist)
	}
	in := inputSx(c)
	if c.method == "Create" && len(c.hist) == 0 && !isChild {
		if obs := createChild.observeInChild(in); obs != "" {
			return in + " " + derived(&c.r) + " " + obs
		}
	}
	return in + " " + derived(&c.r) + " " + observe(c)
}

// overlap runs the given calls at the same time on ONE client set (generator audit, item 7),
// each with its own answer (routed by the request path), and reports each as a case of its
// own: overlapping use must not change any outcome.
func overlap(calls []caseIn) string {
	cs := newClientSet("")
	cs.args.cal() // all request values exist before the overlapping calls start
	cs.args.vc()
	cs.hc.routes = map[string]*respSpec{}
	cs.hc.cur = &respSpec{status: 599}
	for i := range calls {
		cs.hc.routes[calls[i].path] = &calls[i].r
	}
	outs := make([]string, len(calls))
	var wg sync.WaitGroup
	start := make(chan struct{})
	for i := range calls {
		wg.Add(1)
		go func(i int) {
			defer wg.Done()
			<-start
			outs[i], _ = guarded(calls[i].method, calls[i].path, cs)
		}(i)
	}
	close(start)
	wg.Wait()
	var lines []string
	for i := range calls {
		c := calls[i]
		c.ovl = true
		lines = append(lines, inputSx(c)+" "+derived(&c.r)+" "+hx.L("o", hx.I(int64(cs.hc.countPath(c.path))), outs[i]))
	}
	return strings.Join(lines, "\n")
}

func main() {
	out := flag.String("out", "", "output file")
	replay := flag.String("replay", "", "file of case lines to re-run (inputs are re-executed)")
	child := flag.Bool("child", false, "serve cases from stdin (used for the Create cases)")
	flag.Parse()
	if *child {
		isChild = true
		childMain()
		return
	}
	defer createChild.stop()
	sink := hx.NewSink(*out)
	defer sink.Close()

	if *replay != "" {
		for _, l := range hx.ReadLines(*replay) {
			items := hx.MustParse(l)
			if items[0].Head() == "p" {
				sink.Put(pairCase(items[0].Args()[0].Str()))
				continue
			}
			sink.Put(exec(parseInput(items[0])))
		}
		return
	}

	workers := runtime.NumCPU()
	if workers > 6 {
		workers = 6
	}
	inputs := make(chan caseIn, 1024)
	var wg sync.WaitGroup
	for w := 0; w < workers; w++ {
		wg.Add(1)
		go func() {
			defer wg.Done()
			for c := range inputs {
				if atomic.LoadInt32(&hangs) >= maxHangs {
					continue
				}
				sink.Put(exec(c))
			}
		}()
	}
	generate(func(c caseIn) { inputs <- c })
	close(inputs)
	wg.Wait()
	if atomic.LoadInt32(&hangs) >= maxHangs {
		fmt.Fprintf(os.Stderr, "c14: stopped after %d hanging calls\n", hangs)
	}
	fmt.Fprintf(os.Stderr, "c14: %d cases\n", sink.N)
}
