// Command c14 feeds every public client method of the webdav, caldav and carddav
// packages one scripted HTTP response and records what the method returned.
//
// Case line:  <input> <derived> <observation>
//
//	input    (c <method> <path> (terr) | (r <status> <reqset> <ct> (<dav>...) <loc> <etag> <clen> <lmod> <body>))
//	         header values are "-" (absent) or hex strings; body is a hex string
//	derived  (d) | (d <mt> <cterr> <ct> <loc> <etag_ok> <len_ok> <mod_ok> <ical g|b|x> <vcard g|b|x> <xml>)
//	         what the parsers outside the model make of the input, computed here with the
//	         real functions: mime.ParseMediaType, url.Parse, strconv, http.ParseTime, the
//	         iCalendar/vCard decoders, and the element tree encoding/xml's tokenizer yields
//	         for the body: xml = s (no well-formed first element) | (e <ns> <local> <ann> <kid>...)
//	         with <ann> the outcome of the text codec the struct mapping applies to the
//	         element's own character data (status line, URL, integer, date, entity tag, ...)
//	obs      (o <requests made> <outcome>)
//	         outcome = (ok) | (paths <p>...) | (sync (<deleted>...) (<updated>...))
//	                 | (err h <code> - | (n (<ns> <local>)...)) | (err o) | (panic) | (hang)
//
// -replay re-executes the inputs of the given case lines.
package main

import (
	"bytes"
	"context"
	"encoding/xml"
	"errors"
	"flag"
	"fmt"
	"io"
	"mime"
	"net/http"
	"net/url"
	"os"
	"runtime"
	"strconv"
	"strings"
	"sync"
	"sync/atomic"
	"time"

	"github.com/emersion/go-ical"
	"github.com/emersion/go-vcard"
	"github.com/emersion/go-webdav"
	"github.com/emersion/go-webdav/caldav"
	"github.com/emersion/go-webdav/carddav"
	"github.com/emersion/go-webdav/verifhook"

	"verifharness/hx"
)

func statusText(code int) string {
	if t := http.StatusText(code); t != "" {
		return t
	}
	return "Status"
}

// ---- the scripted response

type respSpec struct {
	terr                      bool
	status                    int
	reqset                    bool
	ct, loc, etag, clen, lmod *string
	dav                       []string
	body                      string
}

type caseIn struct {
	method, path string
	r            respSpec
}

func sp(s string) *string { return &s }

func optAtom(p *string) string {
	if p == nil {
		return "-"
	}
	return hx.S(*p)
}

func optStr(x hx.Sx) *string {
	if !x.IsList && x.Atom == "-" {
		return nil
	}
	s := x.Str()
	return &s
}

func inputSx(c caseIn) string {
	var r string
	if c.r.terr {
		r = "(terr)"
	} else {
		var dav []string
		for _, v := range c.r.dav {
			dav = append(dav, hx.S(v))
		}
		r = hx.L("r", hx.I(int64(c.r.status)), hx.B(c.r.reqset), optAtom(c.r.ct), hx.L(dav...),
			optAtom(c.r.loc), optAtom(c.r.etag), optAtom(c.r.clen), optAtom(c.r.lmod), hx.S(c.r.body))
	}
	return hx.L("c", c.method, hx.S(c.path), r)
}

func parseInput(x hx.Sx) caseIn {
	a := x.Args()
	c := caseIn{method: a[0].Atom, path: a[1].Str()}
	r := a[2]
	if r.Head() == "terr" {
		c.r.terr = true
		return c
	}
	f := r.Args()
	c.r.status = int(f[0].Int())
	c.r.reqset = f[1].Bool()
	c.r.ct = optStr(f[2])
	for _, v := range f[3].List {
		c.r.dav = append(c.r.dav, v.Str())
	}
	c.r.loc = optStr(f[4])
	c.r.etag = optStr(f[5])
	c.r.clen = optStr(f[6])
	c.r.lmod = optStr(f[7])
	c.r.body = f[8].Str()
	return c
}

func (r *respSpec) header() http.Header {
	h := http.Header{}
	set := func(k string, v *string) {
		if v != nil {
			h[k] = []string{*v}
		}
	}
	set("Content-Type", r.ct)
	set("Location", r.loc)
	set("Etag", r.etag)
	set("Content-Length", r.clen)
	set("Last-Modified", r.lmod)
	if r.dav != nil {
		h["Dav"] = append([]string(nil), r.dav...)
	}
	return h
}

// scripted is the HTTPClient: it answers every request with the scripted response
// and, like http.Client, reads the request body and sets Response.Request.
type scripted struct {
	r     *respSpec
	calls int32
}

func (s *scripted) Do(req *http.Request) (*http.Response, error) {
	atomic.AddInt32(&s.calls, 1)
	if req.Body != nil {
		io.Copy(io.Discard, req.Body)
		req.Body.Close()
	}
	if s.r.terr {
		return nil, errors.New("scripted transport failure")
	}
	resp := &http.Response{
		Status:        fmt.Sprintf("%d %s", s.r.status, statusText(s.r.status)),
		StatusCode:    s.r.status,
		Proto:         "HTTP/1.1",
		ProtoMajor:    1,
		ProtoMinor:    1,
		Header:        s.r.header(),
		Body:          io.NopCloser(strings.NewReader(s.r.body)),
		ContentLength: int64(len(s.r.body)),
	}
	if s.r.reqset {
		resp.Request = req
	}
	return resp, nil
}

// ---- derived inputs: what the parsers outside the model make of the response

func nsAtom(ns string) string {
	switch ns {
	case nsDAV:
		return "D"
	case nsCal:
		return "C"
	case nsCard:
		return "A"
	case "":
		return "-"
	}
	return hx.S(ns)
}

func good(ok bool) string {
	if ok {
		return "g"
	}
	return "b"
}

// icalParse / vcardParse: what the third-party decoder makes of the text: g (a value),
// b (an error), x (it panics).
func icalParse(b []byte) (res string) {
	defer func() {
		if recover() != nil {
			res = "x"
		}
	}()
	_, err := ical.NewDecoder(bytes.NewReader(b)).Decode()
	return good(err == nil)
}

func vcardParse(b []byte) (res string) {
	defer func() {
		if recover() != nil {
			res = "x"
		}
	}()
	_, err := vcard.NewDecoder(bytes.NewReader(b)).Decode()
	return good(err == nil)
}

// annotate applies the text codec the client's struct mapping would apply to the
// character data directly inside an element of this name.
//
// The codecs of /repo (Status, Href, ETag, Time) are code under test as well: a panic of
// one of them is recovered here and reported as "x" (the model then has no value for the
// element), the client call itself is observed separately under its own recover.
func annotate(ns, local string, text []byte) (ann string) {
	defer func() {
		if recover() != nil {
			ann = "x"
		}
	}()
	switch {
	case local == "status":
		if len(text) == 0 {
			return "e"
		}
		var st verifhook.Status
		if err := st.UnmarshalText(text); err != nil {
			return "b"
		}
		return hx.L("c", hx.I(int64(st.Code)))
	case local == "href":
		var h verifhook.Href
		if err := h.UnmarshalText(text); err != nil {
			return "b"
		}
		return hx.L("p", hx.S(h.Path))
	case (ns == nsDAV && local == "getcontentlength") || ((ns == nsCal || ns == nsCard) && local == "max-resource-size"):
		// encoding/xml copyValue for an int64 field
		if len(text) == 0 {
			return "(i 0)"
		}
		n, err := strconv.ParseInt(strings.TrimSpace(string(text)), 10, 64)
		if err != nil {
			return "b"
		}
		return hx.L("i", hx.B(n < 0))
	case ns == nsDAV && local == "getlastmodified":
		var t verifhook.Time
		return good(t.UnmarshalText(text) == nil)
	case ns == nsDAV && local == "getetag":
		var e verifhook.ETag
		return good(e.UnmarshalText(text) == nil)
	case ns == nsCal && local == "calendar-data":
		return icalParse(text)
	case ns == nsCard && local == "address-data":
		return vcardParse(text)
	}
	return "-"
}

// xmlTree reads the body the way xml.Decoder.Decode does (skip to the first start
// element, consume it to its end) and renders the element tree; "s" when the
// tokenizer fails before the first element is complete.
func xmlTree(body string) string {
	d := xml.NewDecoder(strings.NewReader(body))
	for {
		tok, err := d.Token()
		if err != nil {
			return "s"
		}
		if se, ok := tok.(xml.StartElement); ok {
			var b strings.Builder
			if !renderElem(d, se, &b) {
				return "s"
			}
			return b.String()
		}
	}
}

func renderElem(d *xml.Decoder, se xml.StartElement, out *strings.Builder) bool {
	var text []byte
	var kids strings.Builder
	for {
		tok, err := d.Token()
		if err != nil {
			return false
		}
		switch t := tok.(type) {
		case xml.StartElement:
			kids.WriteByte(' ')
			if !renderElem(d, t, &kids) {
				return false
			}
		case xml.CharData:
			text = append(text, t...)
		case xml.EndElement:
			out.WriteString("(e ")
			out.WriteString(nsAtom(se.Name.Space))
			out.WriteByte(' ')
			out.WriteString(hx.S(se.Name.Local))
			out.WriteByte(' ')
			out.WriteString(annotate(se.Name.Space, se.Name.Local, text))
			out.WriteString(kids.String())
			out.WriteByte(')')
			return true
		}
	}
}

func derived(r *respSpec) string {
	if r.terr {
		return "(d)"
	}
	h := r.header()
	contentType := h.Get("Content-Type")
	doCT := contentType
	if doCT == "" {
		doCT = "text/plain"
	}
	mt, _, _ := mime.ParseMediaType(doCT)
	rawT, _, rawErr := mime.ParseMediaType(contentType)
	loc := "-"
	if l := h.Get("Location"); l != "" {
		if u, err := url.Parse(l); err != nil {
			loc = "b"
		} else {
			loc = hx.L("p", hx.S(u.Path))
		}
	}
	etagOK, lenOK, modOK := true, true, true
	if v := h.Get("ETag"); v != "" {
		_, err := strconv.Unquote(v)
		etagOK = err == nil
	}
	if v := h.Get("Content-Length"); v != "" {
		_, err := strconv.ParseInt(v, 10, 64)
		lenOK = err == nil
	}
	if v := h.Get("Last-Modified"); v != "" {
		_, err := http.ParseTime(v)
		modOK = err == nil
	}
	return hx.L("d", hx.S(mt), hx.B(rawErr != nil), hx.S(rawT), loc, hx.B(etagOK), hx.B(lenOK), hx.B(modOK),
		icalParse([]byte(r.body)), vcardParse([]byte(r.body)), xmlTree(r.body))
}

// ---- running the real client methods

const endpoint = "http://dav.example.com/"

var (
	theCalendar *ical.Calendar
	theCard     vcard.Card
)

func init() {
	cal, err := ical.NewDecoder(strings.NewReader(icalText)).Decode()
	if err != nil {
		panic(err)
	}
	theCalendar = cal
	card, err := vcard.NewDecoder(strings.NewReader(vcardText)).Decode()
	if err != nil {
		panic(err)
	}
	theCard = card
}

func paths(l ...string) string {
	items := []string{"paths"}
	for _, p := range l {
		items = append(items, hx.S(p))
	}
	return hx.L(items...)
}

func strs(l []string) string {
	var items []string
	for _, p := range l {
		items = append(items, hx.S(p))
	}
	return hx.L(items...)
}

func projErr(err error) string {
	var he *verifhook.HTTPError
	if !errors.As(err, &he) {
		return "(err o)"
	}
	var de *verifhook.Error
	if errors.As(err, &de) && de != nil {
		items := []string{"n"}
		for i := range de.Raw {
			if n, ok := de.Raw[i].XMLName(); ok {
				items = append(items, hx.L(nsAtom(n.Space), hx.S(n.Local)))
			}
		}
		return hx.L("err", "h", hx.I(int64(he.Code)), hx.L(items...))
	}
	return hx.L("err", "h", hx.I(int64(he.Code)), "-")
}

var methods = []string{
	"FindCurrentUserPrincipal", "Stat", "Open", "ReadDir", "Create", "RemoveAll", "Mkdir", "Copy", "Move",
	"FindCalendarHomeSet", "FindCalendars", "QueryCalendar", "MultiGetCalendar", "GetCalendarObject", "PutCalendarObject",
	"HasSupport", "FindAddressBookHomeSet", "FindAddressBooks", "QueryAddressBook", "MultiGetAddressBook",
	"GetAddressObject", "PutAddressObject", "SyncCollection",
}

// call runs one client method against the scripted HTTPClient and projects the result.
func call(method, path string, hc webdav.HTTPClient) (out string) {
	defer func() {
		if r := recover(); r != nil {
			out = "(panic)"
		}
	}()
	ctx := context.Background()
	fail := func(err error) string { return projErr(err) }
	switch method {
	case "FindCurrentUserPrincipal", "Stat", "Open", "ReadDir", "Create", "RemoveAll", "Mkdir", "Copy", "Move":
		c, err := webdav.NewClient(hc, endpoint)
		if err != nil {
			panic(err)
		}
		switch method {
		case "FindCurrentUserPrincipal":
			p, err := c.FindCurrentUserPrincipal(ctx)
			if err != nil {
				return fail(err)
			}
			return paths(p)
		case "Stat":
			fi, err := c.Stat(ctx, path)
			if err != nil {
				return fail(err)
			}
			return paths(fi.Path)
		case "Open":
			rc, err := c.Open(ctx, path)
			if err != nil {
				return fail(err)
			}
			io.Copy(io.Discard, rc)
			rc.Close()
			return "(ok)"
		case "ReadDir":
			l, err := c.ReadDir(ctx, path, false)
			if err != nil {
				return fail(err)
			}
			var ps []string
			for _, fi := range l {
				ps = append(ps, fi.Path)
			}
			return paths(ps...)
		case "Create":
			w, err := c.Create(ctx, path)
			if err != nil {
				return fail(err)
			}
			w.Write([]byte("some content"))
			if err := w.Close(); err != nil {
				return fail(err)
			}
			return "(ok)"
		case "RemoveAll":
			if err := c.RemoveAll(ctx, path); err != nil {
				return fail(err)
			}
			return "(ok)"
		case "Mkdir":
			if err := c.Mkdir(ctx, path); err != nil {
				return fail(err)
			}
			return "(ok)"
		case "Copy":
			if err := c.Copy(ctx, path, "/dest/of/copy", nil); err != nil {
				return fail(err)
			}
			return "(ok)"
		case "Move":
			if err := c.Move(ctx, path, "/dest/of/move", &webdav.MoveOptions{NoOverwrite: true}); err != nil {
				return fail(err)
			}
			return "(ok)"
		}
	case "FindCalendarHomeSet", "FindCalendars", "QueryCalendar", "MultiGetCalendar", "GetCalendarObject", "PutCalendarObject":
		c, err := caldav.NewClient(hc, endpoint)
		if err != nil {
			panic(err)
		}
		objs := func(l []caldav.CalendarObject, err error) string {
			if err != nil {
				return fail(err)
			}
			var ps []string
			for _, o := range l {
				ps = append(ps, o.Path)
			}
			return paths(ps...)
		}
		switch method {
		case "FindCalendarHomeSet":
			p, err := c.FindCalendarHomeSet(ctx, path)
			if err != nil {
				return fail(err)
			}
			return paths(p)
		case "FindCalendars":
			l, err := c.FindCalendars(ctx, path)
			if err != nil {
				return fail(err)
			}
			var ps []string
			for _, o := range l {
				ps = append(ps, o.Path)
			}
			return paths(ps...)
		case "QueryCalendar":
			return objs(c.QueryCalendar(ctx, path, &caldav.CalendarQuery{
				CompRequest: caldav.CalendarCompRequest{Name: "VCALENDAR", AllProps: true, AllComps: true},
				CompFilter:  caldav.CompFilter{Name: "VCALENDAR"},
			}))
		case "MultiGetCalendar":
			return objs(c.MultiGetCalendar(ctx, path, &caldav.CalendarMultiGet{
				CompRequest: caldav.CalendarCompRequest{Name: "VCALENDAR", AllProps: true, AllComps: true},
				Paths:       []string{path + "1.ics"},
			}))
		case "GetCalendarObject":
			o, err := c.GetCalendarObject(ctx, path)
			if err != nil {
				return fail(err)
			}
			return paths(o.Path)
		case "PutCalendarObject":
			o, err := c.PutCalendarObject(ctx, path, theCalendar)
			if err != nil {
				return fail(err)
			}
			return paths(o.Path)
		}
	default:
		c, err := carddav.NewClient(hc, endpoint)
		if err != nil {
			panic(err)
		}
		objs := func(l []carddav.AddressObject, err error) string {
			if err != nil {
				return fail(err)
			}
			var ps []string
			for _, o := range l {
				ps = append(ps, o.Path)
			}
			return paths(ps...)
		}
		switch method {
		case "HasSupport":
			if err := c.HasSupport(ctx); err != nil {
				return fail(err)
			}
			return "(ok)"
		case "FindAddressBookHomeSet":
			p, err := c.FindAddressBookHomeSet(ctx, path)
			if err != nil {
				return fail(err)
			}
			return paths(p)
		case "FindAddressBooks":
			l, err := c.FindAddressBooks(ctx, path)
			if err != nil {
				return fail(err)
			}
			var ps []string
			for _, o := range l {
				ps = append(ps, o.Path)
			}
			return paths(ps...)
		case "QueryAddressBook":
			return objs(c.QueryAddressBook(ctx, path, &carddav.AddressBookQuery{
				DataRequest: carddav.AddressDataRequest{AllProp: true},
			}))
		case "MultiGetAddressBook":
			return objs(c.MultiGetAddressBook(ctx, path, &carddav.AddressBookMultiGet{
				DataRequest: carddav.AddressDataRequest{AllProp: true},
			}))
		case "GetAddressObject":
			o, err := c.GetAddressObject(ctx, path)
			if err != nil {
				return fail(err)
			}
			return paths(o.Path)
		case "PutAddressObject":
			o, err := c.PutAddressObject(ctx, path, theCard)
			if err != nil {
				return fail(err)
			}
			return paths(o.Path)
		case "SyncCollection":
			r, err := c.SyncCollection(ctx, path, &carddav.SyncQuery{SyncToken: "http://example.com/ns/sync/1"})
			if err != nil {
				return fail(err)
			}
			var upd []string
			for _, o := range r.Updated {
				upd = append(upd, o.Path)
			}
			return hx.L("sync", strs(r.Deleted), strs(upd))
		}
	}
	panic("harness: unknown method " + method)
}

var watchdog = 5 * time.Second

// hangs counts watchdog expiries; after maxHangs the run stops executing further cases
// (the hanging cases already written are failing inputs, the search need not go on
// waiting 5 s for each of thousands more).
var hangs int32

const maxHangs = 12

func observe(c caseIn) string {
	hc := &scripted{r: &c.r}
	done := make(chan string, 1)
	go func() { done <- call(c.method, c.path, hc) }()
	var out string
	t := time.NewTimer(watchdog)
	select {
	case out = <-done:
	case <-t.C:
		out = "(hang)"
		atomic.AddInt32(&hangs, 1)
	}
	t.Stop()
	return hx.L("o", hx.I(int64(atomic.LoadInt32(&hc.calls))), out)
}

// pairCase exercises the variadic loop of Response.DecodeProp directly (no public client
// method passes more than one value): the body is decoded as a MultiStatus and
// DecodeProp(&getETag, &getLastModified) is called on every response.
//
//	(p <body>) (d <xml>) (o - | (<outcome>...))     "-" = the body is not a MultiStatus
func pairCase(body string) string {
	var ms verifhook.MultiStatus
	obs := "-"
	decodeErr := func() (err error) {
		defer func() {
			if recover() != nil {
				err = nil
				ms.Responses = nil
				obs = "((panic))"
			}
		}()
		return xml.NewDecoder(strings.NewReader(body)).Decode(&ms)
	}()
	if obs != "-" {
		// the decoder of the code under test panicked: one (panic) outcome
	} else if err := decodeErr; err == nil {
		var outs []string
		for i := range ms.Responses {
			outs = append(outs, func() (out string) {
				defer func() {
					if recover() != nil {
						out = "(panic)"
					}
				}()
				var e verifhook.GetETag
				var m verifhook.GetLastModified
				if err := ms.Responses[i].DecodeProp(&e, &m); err != nil {
					return projErr(err)
				}
				return "(ok)"
			}())
		}
		obs = hx.L(outs...)
	}
	return hx.L("p", hx.S(body)) + " " + hx.L("d", xmlTree(body)) + " " + hx.L("o", obs)
}

func exec(c caseIn) string {
	if c.method == "DecodePropPair" {
		return pairCase(c.r.body)
	}
	return inputSx(c) + " " + derived(&c.r) + " " + observe(c)
}

func main() {
	out := flag.String("out", "", "output file")
	replay := flag.String("replay", "", "file of case lines to re-run (inputs are re-executed)")
	flag.Parse()
	sink := hx.NewSink(*out)
	defer sink.Close()

	if *replay != "" {
		for _, l := range hx.ReadLines(*replay) {
			items := hx.MustParse(l)
			if items[0].Head() == "p" {
				sink.Put(pairCase(items[0].Args()[0].Str()))
				continue
			}
			sink.Put(exec(parseInput(items[0])))
		}
		return
	}

	workers := runtime.NumCPU()
	if workers > 6 {
		workers = 6
	}
	inputs := make(chan caseIn, 1024)
	var wg sync.WaitGroup
	for w := 0; w < workers; w++ {
		wg.Add(1)
		go func() {
			defer wg.Done()
			for c := range inputs {
				if atomic.LoadInt32(&hangs) >= maxHangs {
					continue
				}
				sink.Put(exec(c))
			}
		}()
	}
	generate(func(c caseIn) { inputs <- c })
	close(inputs)
	wg.Wait()
	if atomic.LoadInt32(&hangs) >= maxHangs {
		fmt.Fprintf(os.Stderr, "c14: stopped after %d hanging calls\n", hangs)
	}
	fmt.Fprintf(os.Stderr, "c14: %d cases\n", sink.N)
}
