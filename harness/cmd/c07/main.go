// Command c07 runs the real carddav.Match and carddav.Filter on enumerated and
// random (query, address object) inputs and records what they returned.
//
// Case lines:
//
//	(match  Q AO)        (ok 0|1) | (err) | (panic) | (mutated <obs>) | (split <obs> <obs>)
//	(filter Q (AO ...))  (ok AO ...) | (err) | (panic) | (mutated <obs>)
//	Q  = nil | (q <test> <limit> (dr <allprop> <name>...) (pf <name> <test> <notdef> (tm <text> <neg> <type>)...)...)
//	AO = nil | (o <path> <etag> <mtime> <len> nilcard | (<key> (f <value> <rest>)...)...)
//
// <rest> is the canonical rendering "group|K=v,v;K=v" of a field's group and
// parameters (parameter names sorted); keys of a card are written sorted.
//
// Every input is built twice from its S-expression; one copy is handed to the
// call and compared with the other afterwards (reflect.DeepEqual): a call that
// modifies its query or its objects is reported as (mutated ...), an observation
// no model output equals.  For Match, the card is additionally encoded with
// go-vcard, decoded again and, when the decoded card is the same card, matched
// too; a different answer is reported as (split ...).
package main

import (
	"bytes"
	"flag"
	"fmt"
	"os"
	"reflect"
	"runtime"
	"runtime/debug"
	"sort"
	"strings"
	"sync"
	"sync/atomic"
	"time"

	"github.com/emersion/go-vcard"
	"github.com/emersion/go-webdav/carddav"

	"verifharness/hx"
)

// ---------------------------------------------------------------- input language

type fieldT struct{ value, rest string }
type bindingT struct {
	key    string
	fields []fieldT
}
type objT struct {
	path, etag    string
	mtime, length int64
	nilCard       bool
	card          []bindingT
}
type tmT struct {
	text string
	neg  bool
	typ  string
}
type pfT struct {
	name, test string
	notdef     bool
	tms        []tmT
}
type qT struct {
	test    string
	limit   int64
	allprop bool
	props   []string
	pfs     []pfT
}

func qSx(q *qT) string {
	if q == nil {
		return "nil"
	}
	dr := []string{"dr", hx.B(q.allprop)}
	for _, p := range q.props {
		dr = append(dr, hx.S(p))
	}
	items := []string{"q", hx.S(q.test), hx.I(q.limit), hx.L(dr...)}
	for _, pf := range q.pfs {
		it := []string{"pf", hx.S(pf.name), hx.S(pf.test), hx.B(pf.notdef)}
		for _, tm := range pf.tms {
			it = append(it, hx.L("tm", hx.S(tm.text), hx.B(tm.neg), hx.S(tm.typ)))
		}
		items = append(items, hx.L(it...))
	}
	return hx.L(items...)
}

func objSx(o *objT) string {
	if o == nil {
		return "nil"
	}
	items := []string{"o", hx.S(o.path), hx.S(o.etag), hx.I(o.mtime), hx.I(o.length)}
	if o.nilCard {
		return hx.L(append(items, "nilcard")...)
	}
	bs := append([]bindingT{}, o.card...)
	sort.SliceStable(bs, func(i, j int) bool { return bs[i].key < bs[j].key })
	for _, b := range bs {
		it := []string{hx.S(b.key)}
		for _, f := range b.fields {
			it = append(it, hx.L("f", hx.S(f.value), hx.S(f.rest)))
		}
		items = append(items, hx.L(it...))
	}
	return hx.L(items...)
}

func objsSx(os []objT) string {
	items := make([]string, len(os))
	for i := range os {
		items[i] = objSx(&os[i])
	}
	return hx.L(items...)
}

func parseQ(x hx.Sx) *qT {
	if !x.IsList {
		return nil
	}
	a := x.Args()
	q := &qT{test: a[0].Str(), limit: a[1].Int()}
	dr := a[2].Args()
	q.allprop = dr[0].Bool()
	for _, p := range dr[1:] {
		q.props = append(q.props, p.Str())
	}
	for _, px := range a[3:] {
		pa := px.Args()
		pf := pfT{name: pa[0].Str(), test: pa[1].Str(), notdef: pa[2].Bool()}
		for _, tx := range pa[3:] {
			ta := tx.Args()
			pf.tms = append(pf.tms, tmT{text: ta[0].Str(), neg: ta[1].Bool(), typ: ta[2].Str()})
		}
		q.pfs = append(q.pfs, pf)
	}
	return q
}

func parseObj(x hx.Sx) *objT {
	if !x.IsList {
		return nil
	}
	a := x.Args()
	o := &objT{path: a[0].Str(), etag: a[1].Str(), mtime: a[2].Int(), length: a[3].Int()}
	for _, bx := range a[4:] {
		if !bx.IsList {
			o.nilCard = true
			continue
		}
		b := bindingT{key: bx.List[0].Str()}
		for _, fx := range bx.List[1:] {
			fa := fx.Args()
			b.fields = append(b.fields, fieldT{value: fa[0].Str(), rest: fa[1].Str()})
		}
		o.card = append(o.card, b)
	}
	return o
}

// ---------------------------------------------------------------- Go values

func restOf(f *vcard.Field) string {
	var ks []string
	for k := range f.Params {
		ks = append(ks, k)
	}
	sort.Strings(ks)
	var ps []string
	for _, k := range ks {
		ps = append(ps, k+"="+strings.Join(f.Params[k], ","))
	}
	return f.Group + "|" + strings.Join(ps, ";")
}

func buildField(f fieldT) *vcard.Field {
	out := &vcard.Field{Value: f.value}
	group, params, ok := strings.Cut(f.rest, "|")
	if !ok {
		return out
	}
	out.Group = group
	if params != "" {
		out.Params = vcard.Params{}
		for _, p := range strings.Split(params, ";") {
			k, vs, _ := strings.Cut(p, "=")
			out.Params[k] = strings.Split(vs, ",")
		}
	}
	return out
}

func buildCard(o *objT) vcard.Card {
	if o.nilCard {
		return nil
	}
	c := vcard.Card{}
	for _, b := range o.card {
		var fs []*vcard.Field
		for _, f := range b.fields {
			fs = append(fs, buildField(f))
		}
		c[b.key] = fs
	}
	return c
}

func buildObj(o *objT) *carddav.AddressObject {
	if o == nil {
		return nil
	}
	return &carddav.AddressObject{
		Path: o.path, ETag: o.etag, ModTime: time.Unix(o.mtime, 0).UTC(),
		ContentLength: o.length, Card: buildCard(o),
	}
}

func buildQuery(q *qT) *carddav.AddressBookQuery {
	if q == nil {
		return nil
	}
	out := &carddav.AddressBookQuery{
		FilterTest: carddav.FilterTest(q.test), Limit: int(q.limit),
		DataRequest: carddav.AddressDataRequest{AllProp: q.allprop},
	}
	for _, p := range q.props {
		out.DataRequest.Props = append(out.DataRequest.Props, p)
	}
	for _, pf := range q.pfs {
		g := carddav.PropFilter{Name: pf.name, Test: carddav.FilterTest(pf.test), IsNotDefined: pf.notdef}
		for _, tm := range pf.tms {
			g.TextMatches = append(g.TextMatches, carddav.TextMatch{
				Text: tm.text, NegateCondition: tm.neg, MatchType: carddav.MatchType(tm.typ)})
		}
		out.PropFilters = append(out.PropFilters, g)
	}
	return out
}

// observed object -> input language (keys sorted by objSx)
func unbuildObj(ao *carddav.AddressObject) objT {
	o := objT{path: ao.Path, etag: ao.ETag, mtime: ao.ModTime.Unix(), length: ao.ContentLength}
	for k, fs := range ao.Card {
		b := bindingT{key: k}
		for _, f := range fs {
			if f == nil {
				b.fields = append(b.fields, fieldT{value: "<nil field>", rest: "<nil>"})
				continue
			}
			b.fields = append(b.fields, fieldT{value: f.Value, rest: restOf(f)})
		}
		o.card = append(o.card, b)
	}
	return o
}

// ---------------------------------------------------------------- running the implementation

func callMatch(q *carddav.AddressBookQuery, ao *carddav.AddressObject) (obs string) {
	defer func() {
		if r := recover(); r != nil {
			obs = "(panic)"
		}
	}()
	ok, err := carddav.Match(q, ao)
	if err != nil {
		return "(err)"
	}
	return hx.L("ok", hx.B(ok))
}

func callFilter(q *carddav.AddressBookQuery, aos []carddav.AddressObject) (obs string) {
	defer func() {
		if r := recover(); r != nil {
			obs = "(panic)"
		}
	}()
	out, err := carddav.Filter(q, aos)
	if err != nil {
		return "(err)"
	}
	items := []string{"ok"}
	for i := range out {
		o := unbuildObj(&out[i])
		items = append(items, objSx(&o))
	}
	return hx.L(items...)
}

// textVariant: the card after go-vcard's encoder and decoder, if that is the same card.
func textVariant(o *objT) *carddav.AddressObject {
	ao := buildObj(o)
	if ao == nil || ao.Card == nil {
		return nil
	}
	var buf bytes.Buffer
	if err := vcard.NewEncoder(&buf).Encode(ao.Card); err != nil {
		return nil
	}
	card, err := vcard.NewDecoder(&buf).Decode()
	if err != nil {
		return nil
	}
	tv := *ao
	tv.Card = card
	a, b := unbuildObj(ao), unbuildObj(&tv)
	if objSx(&a) != objSx(&b) {
		return nil
	}
	return &tv
}

var nTextVariants int64 // Match cases also run on the card re-decoded from go-vcard's text form

func exec(in string) string {
	x := hx.MustParse(in)[0]
	a := x.Args()
	switch x.Head() {
	case "match":
		q, o := parseQ(a[0]), parseObj(a[1])
		gq, gao := buildQuery(q), buildObj(o)
		pq, pao := buildQuery(q), buildObj(o)
		obs := callMatch(gq, gao)
		if !reflect.DeepEqual(gq, pq) || !reflect.DeepEqual(gao, pao) {
			return in + " " + hx.L("mutated", obs)
		}
		if o != nil {
			if tv := textVariant(o); tv != nil {
				atomic.AddInt64(&nTextVariants, 1)
				if o2 := callMatch(buildQuery(q), tv); o2 != obs {
					obs = hx.L("split", obs, o2)
				}
			}
		}
		return in + " " + obs
	case "filter":
		q := parseQ(a[0])
		var gaos, paos []carddav.AddressObject
		for _, ox := range a[1].List {
			o := parseObj(ox)
			gaos = append(gaos, *buildObj(o))
			paos = append(paos, *buildObj(o))
		}
		gq, pq := buildQuery(q), buildQuery(q)
		obs := callFilter(gq, gaos)
		if !reflect.DeepEqual(gq, pq) || !reflect.DeepEqual(gaos, paos) {
			return in + " " + hx.L("mutated", obs)
		}
		return in + " " + obs
	}
	panic("harness: unknown case kind " + x.Head())
}

// ---------------------------------------------------------------- generators

var (
	tests4 = []string{"", "anyof", "allof", "bogus"}
	types6 = []string{"", "equals", "contains", "starts-with", "ends-with", "bogus"}
	vals4  = []string{"", "a", "ab", "ba"}
)

func fld(v string) fieldT { return fieldT{value: v, rest: "|"} }

func matchCase(q *qT, o *objT) string { return hx.L("match", qSx(q), objSx(o)) }
func filterCase(q *qT, os []objT) string {
	return hx.L("filter", qSx(q), objsSx(os))
}

func version() bindingT { return bindingT{key: "VERSION", fields: []fieldT{fld("4.0")}} }

// the states of one property of a card: absent, bound to no field, one value, two values
func propStates(key string, vals []string, withEmptyBinding bool) [][]bindingT {
	out := [][]bindingT{nil}
	if withEmptyBinding {
		out = append(out, []bindingT{{key: key}})
	}
	for _, v := range vals {
		out = append(out, []bindingT{{key: key, fields: []fieldT{fld(v)}}})
	}
	for _, v1 := range vals {
		for _, v2 := range vals {
			out = append(out, []bindingT{{key: key, fields: []fieldT{fld(v1), fld(v2)}}})
		}
	}
	return out
}

func tmAlphabet(texts []string) []tmT {
	var out []tmT
	for _, ty := range types6 {
		for _, neg := range []bool{false, true} {
			for _, t := range texts {
				out = append(out, tmT{text: t, neg: neg, typ: ty})
			}
		}
	}
	return out
}

// exhaustive A: outer test x one prop-filter (inner test x is-not-defined x <=2 text-matches
// over match type x negate x text) x the property absent / empty / once / twice
func genSingleFilter(emit func(string), thorough bool) {
	one := tmAlphabet(vals4)
	two := tmAlphabet([]string{"a"})
	if thorough {
		two = tmAlphabet([]string{"a", "ab"})
	}
	tmLists := [][]tmT{nil}
	for _, t := range one {
		tmLists = append(tmLists, []tmT{t})
	}
	for _, t1 := range two {
		for _, t2 := range two {
			tmLists = append(tmLists, []tmT{t1, t2})
		}
	}
	var cards []*objT
	for _, st := range propStates("FN", vals4, true) {
		cards = append(cards, &objT{path: "/c", etag: "e", mtime: 1, length: 1, card: append([]bindingT{version()}, st...)})
	}
	for _, outer := range tests4 {
		for _, inner := range tests4 {
			for _, nd := range []bool{false, true} {
				for _, tms := range tmLists {
					q := &qT{test: outer, allprop: true, pfs: []pfT{{name: "FN", test: inner, notdef: nd, tms: tms}}}
					for _, c := range cards {
						emit(matchCase(q, c))
					}
				}
			}
		}
	}
}

// exhaustive A': letter case.  Every match type x negate x text over {a,A,aB,Ab,ab} against
// one value over the same set: comparison is bytewise, "a" is not "A".
func genLetterCase(emit func(string)) {
	strs := []string{"a", "A", "aB", "Ab", "ab", "AB"}
	for _, tm := range tmAlphabet(strs) {
		for _, v := range strs {
			q := &qT{allprop: true, pfs: []pfT{{name: "FN", tms: []tmT{tm}}}}
			emit(matchCase(q, &objT{path: "/c", etag: "e", mtime: 1, length: 1,
				card: []bindingT{version(), {key: "FN", fields: []fieldT{fld(v)}}}}))
		}
	}
	// property names are exact keys too
	for _, name := range []string{"FN", "fn", "Fn"} {
		for _, key := range []string{"FN", "fn"} {
			for _, nd := range []bool{false, true} {
				q := &qT{allprop: false, props: []string{name}, pfs: []pfT{{name: name, notdef: nd}}}
				o := objT{path: "/c", etag: "e", mtime: 1, length: 1, card: []bindingT{version(), {key: key, fields: []fieldT{fld("a")}}}}
				emit(matchCase(q, &o))
				emit(filterCase(q, []objT{o}))
			}
		}
	}
}

// exhaustive B: outer test x two prop-filters over two properties x cards
func genTwoFilters(emit func(string), thorough bool) {
	inner := []string{"", "bogus"}
	tmChoices := [][]tmT{nil, {{text: "a", typ: ""}}, {{text: "a", typ: "bogus"}}}
	if thorough {
		inner = []string{"", "allof", "bogus"}
		tmChoices = append(tmChoices, []tmT{{text: "a", neg: true, typ: "equals"}})
	}
	var pfs []pfT
	for _, name := range []string{"FN", "EMAIL"} {
		for _, nd := range []bool{false, true} {
			for _, in := range inner {
				for _, tms := range tmChoices {
					pfs = append(pfs, pfT{name: name, test: in, notdef: nd, tms: tms})
				}
			}
		}
	}
	var cards []*objT
	for _, fn := range propStates("FN", []string{"a", "b"}, false)[:3] {
		for _, em := range [][]bindingT{nil, {{key: "EMAIL", fields: []fieldT{fld("a")}}}, {{key: "EMAIL", fields: []fieldT{fld("b")}}},
			{{key: "EMAIL", fields: []fieldT{fld("b"), fld("a")}}}} {
			card := append([]bindingT{version()}, fn...)
			card = append(card, em...)
			cards = append(cards, &objT{path: "/c", etag: "e", mtime: 1, length: 1, card: card})
		}
	}
	for _, outer := range tests4 {
		// no prop-filter at all
		for _, c := range cards {
			emit(matchCase(&qT{test: outer, allprop: true}, c))
		}
		for _, p1 := range pfs {
			for _, p2 := range pfs {
				q := &qT{test: outer, allprop: true, pfs: []pfT{p1, p2}}
				for _, c := range cards {
					emit(matchCase(q, c))
				}
			}
		}
	}
}

// exhaustive C: Filter over every sequence of object kinds x every limit from -1 to
// len+1 x all-properties and every subset of {VERSION, FN, EMAIL, X} x four queries
func genFilterExhaustive(emit func(string), thorough bool) {
	maxLen := 3
	if thorough {
		maxLen = 4
	}
	kinds := [][]bindingT{
		{version(), {key: "FN", fields: []fieldT{fld("a")}}, {key: "EMAIL", fields: []fieldT{fld("m@x"), fld("n@y")}}}, // matches
		{version(), {key: "FN", fields: []fieldT{fld("b")}}},                                                           // does not match
		{version(), {key: "FN", fields: []fieldT{fld("b")}}, {key: "X", fields: []fieldT{fld("1")}}},                   // reaches the unknown match type
		nil, // empty card
		{{key: "FN", fields: []fieldT{fld("b"), fld("a")}}}, // matches on its second FN, has no VERSION
	}
	queries := []qT{
		{test: "", pfs: []pfT{{name: "FN", tms: []tmT{{text: "a"}}}}},
		{test: "anyof", pfs: []pfT{{name: "FN", tms: []tmT{{text: "a"}}}, {name: "X", tms: []tmT{{text: "1", typ: "bogus"}}}}},
		{test: "allof", pfs: []pfT{{name: "FN", notdef: true}}},
		{test: "bogus", pfs: []pfT{{name: "FN"}}},
	}
	names := []string{"VERSION", "FN", "EMAIL", "X"}
	type req struct {
		allprop bool
		props   []string
	}
	reqs := []req{{allprop: true}}
	for m := 0; m < 16; m++ {
		var ps []string
		for i, n := range names {
			if m&(1<<i) != 0 {
				ps = append(ps, n)
			}
		}
		reqs = append(reqs, req{props: ps})
	}
	var rec func(seq []int)
	rec = func(seq []int) {
		var os []objT
		for i, k := range seq {
			os = append(os, objT{path: fmt.Sprintf("/%d", i), etag: fmt.Sprintf("e%d", i), mtime: int64(1000 + i), length: int64(10 + i), card: kinds[k]})
		}
		for _, q0 := range queries {
			for lim := -1; lim <= len(seq)+1; lim++ {
				for _, r := range reqs {
					q := q0
					q.limit, q.allprop, q.props = int64(lim), r.allprop, r.props
					emit(filterCase(&q, os))
				}
			}
		}
		if len(seq) == maxLen {
			return
		}
		for k := range kinds {
			rec(append(append([]int{}, seq...), k))
		}
	}
	rec(nil)
}

// random part

var (
	namePool  = []string{"FN", "EMAIL", "TEL", "NICKNAME", "X-A", "VERSION", "N"}
	oddNames  = []string{"fn", "", "item1.EMAIL", "Fn", "X"}
	valuePool = []string{"", "a", "ab", "ba", "abc", "Alice Gopher", "alice@example.com", "bob@example.com", "ALICE", "a\xc3\xa9b", "+1 555", "x;y", "aa", "aaa", "abab"}
	restPool  = []string{"|", "|", "|", "item1|", "|TYPE=home", "|PID=1.1;TYPE=home,work", "g|PREF=1"}
)

func randValue(r *hx.Rand) string { return r.Pick(valuePool) }

func randCard(r *hx.Rand, malformed bool) *objT {
	o := &objT{path: "/" + r.Pick([]string{"a", "b", "c", "d"}) + fmt.Sprint(r.Intn(100)), etag: fmt.Sprintf("t%d", r.Intn(1000)),
		mtime: int64(r.Intn(2000000000)), length: int64(r.Intn(5000))}
	if malformed && r.Chance(1, 8) {
		o.nilCard = true
		return o
	}
	if malformed && r.Chance(1, 8) {
		return o // empty card
	}
	used := map[string]bool{}
	if !malformed || r.Chance(3, 4) {
		o.card = append(o.card, version())
		used["VERSION"] = true
	}
	n := r.Intn(7)
	for i := 0; i < n; i++ {
		k := r.Pick(namePool)
		if malformed && r.Chance(1, 5) {
			k = r.Pick(oddNames)
		}
		if used[k] {
			continue
		}
		used[k] = true
		b := bindingT{key: k}
		nf := 1
		if r.Chance(1, 3) {
			nf = 2 + r.Intn(3)
		}
		if malformed && r.Chance(1, 10) {
			nf = 0
		}
		for j := 0; j < nf; j++ {
			b.fields = append(b.fields, fieldT{value: randValue(r), rest: r.Pick(restPool)})
		}
		o.card = append(o.card, b)
	}
	return o
}

// a text that is likely to be related to a value of the card
func randText(r *hx.Rand, o *objT, name string) string {
	var vs []string
	if o != nil {
		for _, b := range o.card {
			if b.key == name {
				for _, f := range b.fields {
					vs = append(vs, f.value)
				}
			}
		}
	}
	if len(vs) == 0 || r.Chance(1, 4) {
		return randValue(r)
	}
	v := r.Pick(vs)
	if v == "" {
		return v
	}
	if r.Chance(1, 8) { // same letters, other case: must not match bytewise
		if r.Bool() {
			v = strings.ToUpper(v)
		} else {
			v = strings.ToLower(v)
		}
	}
	switch r.Intn(4) {
	case 0:
		return v
	case 1:
		return v[:1+r.Intn(len(v))]
	case 2:
		return v[r.Intn(len(v)):]
	default:
		i := r.Intn(len(v))
		return v[i : i+1+r.Intn(len(v)-i)]
	}
}

func randTest(r *hx.Rand, malformed bool) string {
	if malformed && r.Chance(1, 4) {
		return r.Pick([]string{"bogus", "ANYOF", "all", " anyof"})
	}
	return r.Pick([]string{"", "", "anyof", "allof", "allof"})
}

func randQuery(r *hx.Rand, o *objT, malformed bool) *qT {
	q := &qT{test: randTest(r, malformed), allprop: true}
	npf := r.Intn(5)
	for i := 0; i < npf; i++ {
		pf := pfT{name: r.Pick(namePool), test: randTest(r, malformed), notdef: r.Chance(1, 6)}
		if o != nil && len(o.card) > 0 && r.Chance(2, 3) {
			pf.name = o.card[r.Intn(len(o.card))].key
		}
		if malformed && r.Chance(1, 6) {
			pf.name = r.Pick(oddNames)
		}
		ntm := r.Intn(4)
		if pf.notdef && !malformed {
			ntm = 0
		}
		for j := 0; j < ntm; j++ {
			tm := tmT{text: randText(r, o, pf.name), neg: r.Chance(1, 3), typ: r.Pick(types6[:5])}
			if malformed && r.Chance(1, 5) {
				tm.typ = r.Pick([]string{"bogus", "EQUALS", "starts_with", "is"})
			}
			pf.tms = append(pf.tms, tm)
		}
		q.pfs = append(q.pfs, pf)
	}
	return q
}

func randRequest(r *hx.Rand, q *qT, malformed bool) {
	q.allprop = r.Chance(1, 4)
	if r.Chance(1, 5) {
		return
	}
	n := 1 + r.Intn(4)
	for i := 0; i < n; i++ {
		p := r.Pick(namePool)
		if malformed && r.Chance(1, 4) {
			p = r.Pick(oddNames)
		}
		q.props = append(q.props, p) // duplicates and names absent from the card on purpose
	}
}

func genRandom(emit func(string), rng *hx.Rand, nMatch, nFilter int, malformed bool) {
	for i := 0; i < nMatch; i++ {
		o := randCard(rng, malformed)
		q := randQuery(rng, o, malformed)
		if malformed && rng.Chance(1, 20) {
			q = nil
		}
		if malformed && rng.Chance(1, 20) {
			o = nil
		}
		emit(matchCase(q, o))
	}
	for i := 0; i < nFilter; i++ {
		n := rng.Intn(13)
		var os []objT
		for j := 0; j < n; j++ {
			o := randCard(rng, malformed)
			o.path = fmt.Sprintf("/o%d", j)
			os = append(os, *o)
		}
		var first *objT
		if n > 0 {
			first = &os[rng.Intn(n)]
		}
		q := randQuery(rng, first, malformed)
		randRequest(rng, q, malformed)
		q.limit = int64(rng.Intn(n+5) - 2)
		if malformed && rng.Chance(1, 30) {
			q.limit = int64(1) << 40
		}
		if malformed && rng.Chance(1, 20) {
			q = nil
		}
		emit(filterCase(q, os))
	}
}

func main() {
	out := flag.String("out", "", "output file")
	replay := flag.String("replay", "", "file of case lines to re-run (inputs are re-executed)")
	flag.Parse()
	debug.SetGCPercent(1000) // the run is allocation-bound; measured 14 s -> 5 s
	sink := hx.NewSink(*out)
	defer sink.Close()

	if *replay != "" {
		for _, l := range hx.ReadLines(*replay) {
			items := hx.MustParse(l)
			sink.Put(exec(items[0].String()))
		}
		return
	}

	thorough := hx.Tier() == "thorough"
	nMatch, nFilter := 40000, 20000
	if thorough {
		nMatch, nFilter = 400000, 200000
	}

	inputs := make(chan string, 4096)
	var wg sync.WaitGroup
	for w := 0; w < runtime.NumCPU(); w++ {
		wg.Add(1)
		go func() {
			defer wg.Done()
			for in := range inputs {
				sink.Put(exec(in))
			}
		}()
	}
	emit := func(s string) { inputs <- s }

	// fixed edge cases: nil query, nil object
	emit(matchCase(nil, nil))
	emit(matchCase(nil, &objT{path: "/p", etag: "e"}))
	emit(matchCase(&qT{test: "bogus", pfs: []pfT{{name: "FN"}}}, nil))
	emit(matchCase(&qT{test: "allof"}, nil))
	emit(matchCase(&qT{test: "", pfs: []pfT{{name: "FN"}}}, nil))
	// the witness of the repaired defect (only the first EMAIL was tested), and its relatives
	two := &objT{path: "/w", etag: "e", mtime: 1, length: 1, card: []bindingT{version(),
		{key: "EMAIL", fields: []fieldT{fld("a@x"), fld("b@y")}}}}
	for _, ty := range types6 {
		for _, neg := range []bool{false, true} {
			for _, inner := range tests4 {
				q := &qT{allprop: true, pfs: []pfT{{name: "EMAIL", test: inner, tms: []tmT{{text: "b@y", neg: neg, typ: ty}, {text: "a@x", neg: neg, typ: ty}}}}}
				emit(matchCase(q, two))
				q1 := *q
				q1.pfs = []pfT{{name: "EMAIL", test: inner, tms: q.pfs[0].tms[:1]}}
				emit(matchCase(&q1, two))
				emit(filterCase(&q1, []objT{*two}))
			}
		}
	}
	emit(filterCase(nil, nil))
	emit(filterCase(nil, []objT{{path: "/p", etag: "e", nilCard: true}, {path: "/q", etag: "f", card: []bindingT{version()}}}))

	genSingleFilter(emit, thorough)
	genLetterCase(emit)
	genTwoFilters(emit, thorough)
	genFilterExhaustive(emit, thorough)

	rng := hx.NewRand(hx.Seed())
	genRandom(emit, rng.Fork(1), nMatch, nFilter, false)    // structured, mostly valid
	genRandom(emit, rng.Fork(2), nMatch/4, nFilter/4, true) // malformed stream

	close(inputs)
	wg.Wait()
	fmt.Fprintf(os.Stderr, "c07: %d cases, %d of the Match cases also on the card re-decoded from text\n", sink.N, atomic.LoadInt64(&nTextVariants))
}
