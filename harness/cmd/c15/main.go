// Command c15 drives the real internal.RawXMLValue (through the verifhook
// package) and records what it did, for the oracle extracted from Xml.v.
//
// Case lines (strings are hex atoms, tokens and raw values S-expressions):
//
//	(doc <bytes> (<tok>...) (f <feature>...)) (obs <status> <raw> <read> <dec> (read2 <outcome> <otok>...) <mar> <mar-in>)
//	    a well-formed document; <tok>... is what encoding/xml's decoder yields for
//	    its root element (the tree the model starts from); the observation is the
//	    outcome of xml.Unmarshal(doc, &raw), the fields of raw, raw.TokenReader()
//	    drained under the step bound 2*nodes+2 with the reader states after every
//	    call, the tokens out of xml.NewTokenDecoder(raw.TokenReader()), a second
//	    drain, xml.Marshal(&raw) read again with encoding/xml, and the same for
//	    xml.Marshal(&internal.Prop{Raw: {raw}}) (what stands inside the prop element).
//	(inter <bytes> (<tok>...) <n> lazy|upfront (a <i>|d ...)) (obs <status> (k <otok>)|eof|panic|(dec <res>) ...)
//	    n readers of ONE captured value advanced by a schedule, with Decode calls in between.
//	(seq var|fresh|prop|propreuse|resp ((<bytes> (<tok>...)) ...)) (obs (c <status> <raw> <read> <dec> <read2> <mar> <mar-in>) ...)
//	    documents captured one after the other into ONE variable, a by-value copy kept
//	    after each capture, every copy observed at the end.
//	(bad <bytes> (<tok>...)) (obs <status>)
//	    a document that is not well formed: tokens up to the decoder's error.
//	(typed d|m <type> <bytes> (<tok>...)) (obs <status> <err via raw> <err direct> <equal>)
//	    raw.Decode(&v) against xml.Unmarshal(doc, &v) (d), or Response.DecodeProp
//	    on a multistatus against decoding the property element in place (m).
//	(raw <raw>) (obs <read> <mar> <dec>)
//	    a raw value built field by field (nil tokens, end elements, marshal-only values).
//	(prop dp|pd <tag> <resp code> ((<code> <raw>...)...)) (obs (sel <id>)|notfound|other|panic)
//	    Response.DecodeProp / Prop.Decode into a struct whose XMLName tag is <tag>.
//	(propm (<tag>...) <resp code> ((<code> <raw>...)...)) (obs (sels <id>...)|notfound|other|panic)
//	    Response.DecodeProp(v1, ..., vk) with several values.
//	(name <tag>) (obs (ok <space> <local>)|err)
//	    valueXMLName.
package main

import (
	"bytes"
	"encoding/xml"
	"flag"
	"fmt"
	"io"
	"os"
	"reflect"
	"runtime"
	"sort"
	"strconv"
	"strings"
	"sync"

	webdav "github.com/emersion/go-webdav"
	"github.com/emersion/go-webdav/caldav"
	"github.com/emersion/go-webdav/carddav"
	"github.com/emersion/go-webdav/verifhook"

	"verifharness/hx"
)

type RawXMLValue = verifhook.RawXMLValue

// ---------------------------------------------------------------- tokens as S-expressions

func tokSx(t xml.Token) string {
	switch t := t.(type) {
	case nil:
		return "nil"
	case xml.StartElement:
		items := []string{"s", hx.S(t.Name.Space), hx.S(t.Name.Local)}
		for _, a := range t.Attr {
			items = append(items, hx.L(hx.S(a.Name.Space), hx.S(a.Name.Local), hx.S(a.Value)))
		}
		return hx.L(items...)
	case xml.EndElement:
		return hx.L("e", hx.S(t.Name.Space), hx.S(t.Name.Local))
	case xml.CharData:
		return hx.L("t", hx.S(string(t)))
	case xml.Comment:
		return hx.L("c", hx.S(string(t)))
	case xml.ProcInst:
		return hx.L("p", hx.S(t.Target), hx.S(string(t.Inst)))
	case xml.Directive:
		return hx.L("d", hx.S(string(t)))
	}
	return hx.L("unknown-token", hx.S(fmt.Sprintf("%T", t)))
}

func parseTok(x hx.Sx) xml.Token {
	if !x.IsList {
		return nil // "nil"
	}
	a := x.Args()
	switch x.Head() {
	case "s":
		st := xml.StartElement{Name: xml.Name{Space: a[0].Str(), Local: a[1].Str()}}
		for _, at := range a[2:] {
			st.Attr = append(st.Attr, xml.Attr{Name: xml.Name{Space: at.List[0].Str(), Local: at.List[1].Str()}, Value: at.List[2].Str()})
		}
		return st
	case "e":
		return xml.EndElement{Name: xml.Name{Space: a[0].Str(), Local: a[1].Str()}}
	case "t":
		return xml.CharData(a[0].Str())
	case "c":
		return xml.Comment(a[0].Str())
	case "p":
		return xml.ProcInst{Target: a[0].Str(), Inst: []byte(a[1].Str())}
	case "d":
		return xml.Directive(a[0].Str())
	}
	panic("harness: bad token " + x.String())
}

func toksSx(toks []xml.Token) string {
	items := make([]string, len(toks))
	for i, t := range toks {
		items[i] = tokSx(t)
	}
	return hx.L(items...)
}

// elementTokens runs encoding/xml's decoder over doc and returns the tokens of
// the first element (copied), and whether the element was closed before the
// decoder failed. wellFormed additionally says that the rest of the document
// tokenises without error.
func elementTokens(doc []byte) (toks []xml.Token, complete, wellFormed bool) {
	d := xml.NewDecoder(bytes.NewReader(doc))
	depth := 0
	started := false
	for {
		t, err := d.Token()
		if err != nil {
			return toks, complete, complete && err == io.EOF
		}
		if complete {
			if _, ok := t.(xml.StartElement); ok && depth == 0 {
				// a second root element: not a document
				for {
					if _, err := d.Token(); err != nil {
						return toks, true, false
					}
				}
			}
			continue
		}
		switch t.(type) {
		case xml.StartElement:
			started = true
			depth++
		case xml.EndElement:
			depth--
		}
		if started {
			toks = append(toks, xml.CopyToken(t))
			if depth == 0 {
				complete = true
			}
		}
	}
}

// status runs f and classifies: ok, err, panic.
func status(f func() error) (st string) {
	defer func() {
		if r := recover(); r != nil {
			st = "panic"
		}
	}()
	if err := f(); err != nil {
		return "err"
	}
	return "ok"
}

// ---------------------------------------------------------------- observing a raw value

func nodes(v *RawXMLValue) int {
	_, children, _ := verifhook.VerifRawFields(v)
	n := 1
	for i := range children {
		n += nodes(&children[i])
	}
	return n
}

// rawViewSx prints the fields of a value the implementation built.
func rawViewSx(v *RawXMLValue) string {
	tok, children, out := verifhook.VerifRawFields(v)
	items := make([]string, len(children))
	for i := range children {
		items[i] = rawViewSx(&children[i])
	}
	o := "-"
	if out != nil {
		o = hx.L("o", "unexpected", hx.L("err"))
	}
	return hx.L("r", tokSx(tok), hx.L(items...), o)
}

func framesSx(tr xml.TokenReader) []string {
	var items []string
	for _, f := range verifhook.VerifReaderState(tr) {
		items = append(items, hx.L(hx.B(f.Start), hx.B(f.End), hx.I(int64(f.Child))))
	}
	return items
}

// readSx drains v.TokenReader() under the step bound and records every call.
func readSx(v *RawXMLValue) string {
	bound := 2*nodes(v) + 2
	var steps []string
	outcome := "bound"
	again := false
	func() {
		defer func() {
			if r := recover(); r != nil {
				outcome = "panic"
			}
		}()
		tr := v.TokenReader()
		for i := 0; i < bound; i++ {
			tok, err := tr.Token()
			if err == io.EOF {
				outcome = "eof"
				again = tok == nil
				for j := 0; j < 3; j++ {
					if t, e := tr.Token(); e != io.EOF || t != nil {
						again = false
					}
				}
				return
			}
			if err != nil {
				outcome = "error-other-than-eof"
				return
			}
			steps = append(steps, hx.L(append([]string{"k", tokSx(tok)}, framesSx(tr)...)...))
		}
	}()
	return hx.L(append([]string{"read", outcome, hx.B(again)}, steps...)...)
}

func read2Sx(v *RawXMLValue) string {
	bound := 2*nodes(v) + 2
	var toks []string
	outcome := "bound"
	func() {
		defer func() {
			if r := recover(); r != nil {
				outcome = "panic"
			}
		}()
		tr := v.TokenReader()
		for i := 0; i < bound; i++ {
			tok, err := tr.Token()
			if err == io.EOF {
				outcome = "eof"
				return
			}
			if err != nil {
				outcome = "error-other-than-eof"
				return
			}
			toks = append(toks, tokSx(tok))
		}
	}()
	return hx.L(append([]string{"read2", outcome}, toks...)...)
}

// decSx reads v through the decoder RawXMLValue.Decode builds.
func decSx(v *RawXMLValue) (out string) {
	defer func() {
		if r := recover(); r != nil {
			out = hx.L("panic")
		}
	}()
	bound := 4*nodes(v) + 8
	d := xml.NewTokenDecoder(v.TokenReader())
	items := []string{"ok"}
	for i := 0; ; i++ {
		if i > bound {
			return hx.L("err")
		}
		t, err := d.Token()
		if err == io.EOF {
			return hx.L(items...)
		}
		if err != nil {
			return hx.L("err")
		}
		items = append(items, tokSx(xml.CopyToken(t)))
	}
}

// rereadSx reads marshalled bytes with a new decoder.
func rereadSx(b []byte) string {
	d := xml.NewDecoder(bytes.NewReader(b))
	items := []string{"ok"}
	for {
		t, err := d.Token()
		if err == io.EOF {
			return hx.L(items...)
		}
		if err != nil {
			return hx.L("err")
		}
		items = append(items, tokSx(xml.CopyToken(t)))
	}
}

func marSx(v interface{}) (out string) {
	defer func() {
		if r := recover(); r != nil {
			out = hx.L("panic")
		}
	}()
	b, err := xml.Marshal(v)
	if err != nil {
		return hx.L("err")
	}
	return rereadSx(b)
}

// marInSx marshals the value inside a container of the library (the field
// Raw []RawXMLValue `xml:",any"` of internal.Prop) and returns what a new
// decoder reads inside the container element.
func marInSx(v *RawXMLValue) (out string) {
	defer func() {
		if r := recover(); r != nil {
			out = hx.L("panic")
		}
	}()
	b, err := xml.Marshal(&verifhook.Prop{Raw: []RawXMLValue{*v}})
	if err != nil {
		return hx.L("err")
	}
	d := xml.NewDecoder(bytes.NewReader(b))
	var toks []xml.Token
	for {
		t, err := d.Token()
		if err == io.EOF {
			break
		}
		if err != nil {
			return hx.L("err")
		}
		toks = append(toks, xml.CopyToken(t))
	}
	propName := xml.Name{Space: "DAV:", Local: "prop"}
	if len(toks) < 2 {
		return hx.L("err")
	}
	if st, ok := toks[0].(xml.StartElement); !ok || st.Name != propName {
		return hx.L("err")
	}
	if en, ok := toks[len(toks)-1].(xml.EndElement); !ok || en.Name != propName {
		return hx.L("err")
	}
	items := []string{"ok"}
	for _, t := range toks[1 : len(toks)-1] {
		items = append(items, tokSx(t))
	}
	return hx.L(items...)
}

// usedRaw returns a value that has been used before: UnmarshalXML must reset
// all three fields.
func usedRaw() RawXMLValue {
	child := verifhook.VerifNewRaw(xml.CharData("old"), nil, nil)
	return verifhook.VerifNewRaw(xml.StartElement{Name: xml.Name{Local: "old"}}, []RawXMLValue{child}, &verifhook.DisplayName{Name: "old"})
}

func observeDoc(doc []byte) string {
	raw := usedRaw()
	st := status(func() error { return xml.Unmarshal(doc, &raw) })
	if st != "ok" {
		return hx.L("obs", st)
	}
	return hx.L(append([]string{"obs", "ok"}, observeValue(&raw)...)...)
}

// observeValue: everything that is observed of a captured value.
func observeValue(raw *RawXMLValue) []string {
	view := rawViewSx(raw)
	read := readSx(raw)
	dec := decSx(raw)
	read2 := read2Sx(raw)
	mar := marSx(raw)
	marIn := marInSx(raw)
	return []string{view, read, dec, read2, mar, marIn}
}

// ---------------------------------------------------------------- several readers of one value

// interLine captures doc into one value and advances n readers of that value
// by the schedule acts (i >= 0: reader i calls Token(); -1: the value is read
// to the end through the decoder Decode builds).  Readers are obtained from
// val.TokenReader() all at the start (upfront) or each at its first call.
//
//	(inter <bytes> (<tok>...) <n> lazy|upfront (a <i>|d ...)) (obs <status> (k <otok>)|eof|panic|(dec <res>) ...)
func interLine(doc []byte, n int, upfront bool, acts []int) string {
	toks, _, _ := elementTokens(doc)
	mode := "lazy"
	if upfront {
		mode = "upfront"
	}
	as := []string{"a"}
	for _, a := range acts {
		if a < 0 {
			as = append(as, "d")
		} else {
			as = append(as, hx.I(int64(a)))
		}
	}
	in := hx.L("inter", hx.S(string(doc)), toksSx(toks), hx.I(int64(n)), mode, hx.L(as...))
	var raw RawXMLValue
	st := status(func() error { return xml.Unmarshal(doc, &raw) })
	if st != "ok" {
		return in + " " + hx.L("obs", st)
	}
	readers := make([]xml.TokenReader, n)
	if upfront {
		for i := range readers {
			readers[i] = raw.TokenReader()
		}
	}
	obs := []string{"obs", "ok"}
	for _, a := range acts {
		if a < 0 {
			obs = append(obs, hx.L("dec", decSx(&raw)))
			continue
		}
		if a >= n {
			continue
		}
		res := "panic"
		func() {
			defer func() { recover() }()
			if readers[a] == nil {
				readers[a] = raw.TokenReader()
			}
			tok, err := readers[a].Token()
			switch {
			case err == io.EOF && tok == nil:
				res = "eof"
			case err == nil:
				res = hx.L("k", tokSx(tok))
			default:
				res = "panic" // an error other than io.EOF: never in the model
			}
		}()
		obs = append(obs, res)
	}
	return in + " " + hx.L(obs...)
}

// ---------------------------------------------------------------- captures into one variable, copies kept

const wrapPrefix = "Wq9"

// seqLine captures the documents one after the other into ONE variable and
// keeps a by-value copy of the value after each capture; at the end every
// kept copy is observed like the value of a doc case.
//
//	via var:        var raw RawXMLValue; xml.Unmarshal(doc, &raw); kept = append(kept, raw)
//	via fresh:      a new variable for every document (histories across values: the documents of one
//	                case carry related names; nothing of an earlier capture may show in a later value)
//	via prop:       one internal.Prop; <prop>doc</prop> decoded into it each time (Raw grows); copy of the last element
//	via propreuse:  the same with p.Raw = p.Raw[:0] before each decoding; copy of p.Raw[0]
//	via resp:       one internal.Response with resp.PropStats = resp.PropStats[:0] before each decoding of
//	                <response><href/><propstat><prop>doc</prop><status/></propstat></response>; copy of the
//	                last element of resp.PropStats[0].Prop.Raw
//
//	(seq <via> ((<bytes> (<tok>...)) ...)) (obs (c <status> <raw> <read> <dec> <read2> <mar> <mar-in>) ...)
func seqLine(via string, docs [][]byte) string {
	items := make([]string, len(docs))
	for i, d := range docs {
		toks, _, _ := elementTokens(d)
		items[i] = hx.L(hx.S(string(d)), toksSx(toks))
	}
	in := hx.L("seq", via, hx.L(items...))

	w := wrapPrefix
	var kept []RawXMLValue
	var sts []string
	var raw RawXMLValue
	var prop verifhook.Prop
	var resp verifhook.Response
	for _, d := range docs {
		var v RawXMLValue
		var st string
		switch via {
		case "var":
			st = status(func() error { return xml.Unmarshal(d, &raw) })
			v = raw
		case "fresh":
			// a history across values: every document goes into a variable of its own
			var f RawXMLValue
			st = status(func() error { return xml.Unmarshal(d, &f) })
			v = f
		case "prop", "propreuse":
			if via == "propreuse" {
				prop.Raw = prop.Raw[:0]
			}
			wrapped := []byte("<" + w + ":prop xmlns:" + w + `="DAV:">` + string(d) + "</" + w + ":prop>")
			st = status(func() error { return xml.Unmarshal(wrapped, &prop) })
			if st == "ok" && len(prop.Raw) > 0 {
				v = prop.Raw[len(prop.Raw)-1]
			} else if st == "ok" {
				st = "err"
			}
		default: // resp
			resp.PropStats = resp.PropStats[:0]
			wrapped := []byte("<" + w + ":response xmlns:" + w + `="DAV:"><` + w + ":href>/x</" + w + ":href><" + w + ":propstat><" + w + ":prop>" +
				string(d) + "</" + w + ":prop><" + w + ":status>HTTP/1.1 200 OK</" + w + ":status></" + w + ":propstat></" + w + ":response>")
			st = status(func() error { return xml.Unmarshal(wrapped, &resp) })
			if st == "ok" && len(resp.PropStats) > 0 && len(resp.PropStats[0].Prop.Raw) > 0 {
				l := resp.PropStats[0].Prop.Raw
				v = l[len(l)-1]
			} else if st == "ok" {
				st = "err"
			}
		}
		kept = append(kept, v) // a copy by value
		sts = append(sts, st)
	}
	obs := []string{"obs"}
	for i := range kept {
		if sts[i] != "ok" {
			obs = append(obs, hx.L("c", sts[i]))
			continue
		}
		obs = append(obs, hx.L(append([]string{"c", "ok"}, observeValue(&kept[i])...)...))
	}
	return in + " " + hx.L(obs...)
}

func docLine(doc []byte, feats []string) string {
	toks, _, wf := elementTokens(doc)
	if !wf {
		return badLine(doc)
	}
	return hx.L("doc", hx.S(string(doc)), toksSx(toks), hx.L(append([]string{"f"}, feats...)...)) + " " + observeDoc(doc)
}

func badLine(doc []byte) string {
	toks, _, _ := elementTokens(doc)
	var raw RawXMLValue
	st := status(func() error { return xml.Unmarshal(doc, &raw) })
	return hx.L("bad", hx.S(string(doc)), toksSx(toks)) + " " + hx.L("obs", st)
}

// ---------------------------------------------------------------- typed values

var typeTable = map[string]func() interface{}{}
var typeNames []string

func registerTypes() {
	add := func(pkg string, m map[string]func() interface{}) {
		for k, f := range m {
			typeTable[pkg+"."+k] = f
		}
	}
	add("internal", map[string]func() interface{}{
		"GetETag":              func() interface{} { return &verifhook.GetETag{} },
		"GetLastModified":      func() interface{} { return &verifhook.GetLastModified{} },
		"GetContentLength":     func() interface{} { return &verifhook.GetContentLength{} },
		"GetContentType":       func() interface{} { return &verifhook.GetContentType{} },
		"DisplayName":          func() interface{} { return &verifhook.DisplayName{} },
		"ResourceType":         func() interface{} { return &verifhook.ResourceType{} },
		"CurrentUserPrincipal": func() interface{} { return &verifhook.CurrentUserPrincipal{} },
		"Prop":                 func() interface{} { return &verifhook.Prop{} },
		"PropFind":             func() interface{} { return &verifhook.PropFind{} },
		"PropStat":             func() interface{} { return &verifhook.PropStat{} },
		"Response":             func() interface{} { return &verifhook.Response{} },
		"MultiStatus":          func() interface{} { return &verifhook.MultiStatus{} },
		"Error":                func() interface{} { return &verifhook.Error{} },
		"Location":             func() interface{} { return &verifhook.Location{} },
		"Include":              func() interface{} { return &verifhook.Include{} },
		"Remove":               func() interface{} { return &verifhook.Remove{} },
		"Set":                  func() interface{} { return &verifhook.Set{} },
		"PropertyUpdate":       func() interface{} { return &verifhook.PropertyUpdate{} },
		"SyncCollectionQuery":  func() interface{} { return &verifhook.SyncCollectionQuery{} },
		"Limit":                func() interface{} { return &verifhook.Limit{} },
	})
	add("webdav", webdav.VerifC15Values())
	add("caldav", caldav.VerifC15Values())
	add("carddav", carddav.VerifC15Values())
	for k := range typeTable {
		typeNames = append(typeNames, k)
	}
	sort.Strings(typeNames)
}

// typedDirect: raw.Decode(&v1) against xml.Unmarshal(doc, &v2).
func typedDirect(ty string, doc []byte) string {
	mk := typeTable[ty]
	toks, _, _ := elementTokens(doc)
	in := hx.L("typed", "d", hx.S(ty), hx.S(string(doc)), toksSx(toks))
	var raw RawXMLValue
	st := status(func() error { return xml.Unmarshal(doc, &raw) })
	if st != "ok" {
		return in + " " + hx.L("obs", st, "0", "0", "0")
	}
	v1, v2 := mk(), mk()
	s1 := status(func() error { return raw.Decode(v1) })
	s2 := status(func() error { return xml.Unmarshal(doc, v2) })
	if s1 == "panic" || s2 == "panic" {
		return in + " " + hx.L("obs", "panic", "0", "0", "0")
	}
	return in + " " + hx.L("obs", "ok", hx.B(s1 != "ok"), hx.B(s2 != "ok"), hx.B(reflect.DeepEqual(v1, v2)))
}

// typedMulti: Response.DecodeProp(&v1) on the decoded multistatus against
// decoding the property element where it stands in the document.
func typedMulti(ty string, doc []byte) string {
	mk := typeTable[ty]
	v1, v2 := mk(), mk()
	name, nerr := verifhook.VerifValueXMLName(v1)
	// the property element: first child of a prop (depth 5) with that name
	var propToks []xml.Token
	s2 := "err"
	if nerr == nil {
		d := xml.NewDecoder(bytes.NewReader(doc))
		depth := 0
	walk:
		for {
			t, err := d.Token()
			if err != nil {
				break
			}
			switch t := t.(type) {
			case xml.StartElement:
				depth++
				if depth == 5 && t.Name == name {
					s2 = status(func() error { return d.DecodeElement(v2, &t) })
					break walk
				}
			case xml.EndElement:
				depth--
			}
		}
		// its tokens, for the model
		d = xml.NewDecoder(bytes.NewReader(doc))
		depth = 0
		in := 0
		for {
			t, err := d.Token()
			if err != nil {
				break
			}
			if st, ok := t.(xml.StartElement); ok {
				depth++
				if in == 0 && depth == 5 && st.Name == name {
					in = depth
				}
			}
			if in > 0 {
				propToks = append(propToks, xml.CopyToken(t))
			}
			if _, ok := t.(xml.EndElement); ok {
				if in > 0 && depth == in {
					break
				}
				depth--
			}
		}
	}
	in := hx.L("typed", "m", hx.S(ty), hx.S(string(doc)), toksSx(propToks))
	var ms verifhook.MultiStatus
	st := status(func() error { return xml.Unmarshal(doc, &ms) })
	if st != "ok" || len(ms.Responses) != 1 {
		return in + " " + hx.L("obs", "err", "0", "0", "0")
	}
	s1 := status(func() error { return ms.Responses[0].DecodeProp(v1) })
	if s1 == "panic" || s2 == "panic" {
		return in + " " + hx.L("obs", "panic", "0", "0", "0")
	}
	return in + " " + hx.L("obs", "ok", hx.B(s1 != "ok"), hx.B(s2 != "ok"), hx.B(reflect.DeepEqual(v1, v2)))
}

// ---------------------------------------------------------------- raw values built field by field

type rspec struct {
	tok      xml.Token
	children []*rspec
	out      *ospec
}

type ospec struct {
	how string // dn, inner, chan, boom
	arg string
}

type boomer struct{}

func (boomer) MarshalXML(e *xml.Encoder, start xml.StartElement) error { panic("boom") }

func (o *ospec) value() interface{} {
	switch o.how {
	case "dn":
		return &verifhook.DisplayName{Name: o.arg}
	case "inner":
		txt := verifhook.VerifNewRaw(xml.CharData(o.arg), nil, nil)
		return verifhook.NewRawXMLElement(xml.Name{Space: "urn:i", Local: "i"}, nil, []RawXMLValue{txt})
	case "chan":
		return make(chan int)
	}
	return boomer{}
}

func (o *ospec) sx() string {
	return hx.L("o", hx.L(o.how, hx.S(o.arg)), marSx(o.value()))
}

func (r *rspec) build() RawXMLValue {
	var children []RawXMLValue
	for _, c := range r.children {
		children = append(children, c.build())
	}
	var out interface{}
	if r.out != nil {
		out = r.out.value()
	}
	// through the exported constructors where they can make the value
	// (NewRawXMLElement = Raw (Some (TStart n a)) cs None in the model,
	// EncodeRawXMLElement = Raw None [] (Some out))
	if st, ok := r.tok.(xml.StartElement); ok && out == nil {
		return *verifhook.NewRawXMLElement(st.Name, st.Attr, children)
	}
	if r.tok == nil && out != nil && len(children) == 0 {
		if v, err := verifhook.EncodeRawXMLElement(out); err == nil {
			return *v
		}
	}
	return verifhook.VerifNewRaw(r.tok, children, out)
}

func (r *rspec) sx() string {
	items := make([]string, len(r.children))
	for i, c := range r.children {
		items[i] = c.sx()
	}
	o := "-"
	if r.out != nil {
		o = r.out.sx()
	}
	return hx.L("r", tokSx(r.tok), hx.L(items...), o)
}

func parseRspec(x hx.Sx) *rspec {
	a := x.Args()
	r := &rspec{tok: parseTok(a[0])}
	for _, c := range a[1].List {
		r.children = append(r.children, parseRspec(c))
	}
	if a[2].IsList {
		how := a[2].List[1]
		r.out = &ospec{how: how.Head(), arg: how.Args()[0].Str()}
	}
	return r
}

func rawLine(r *rspec) string {
	v := r.build()
	// the decoder may rewrite attribute names in the value it reads: it comes last
	read := readSx(&v)
	mar := marSx(&v)
	dec := decSx(&v)
	return hx.L("raw", r.sx()) + " " + hx.L("obs", read, mar, dec)
}

// ---------------------------------------------------------------- Prop.Decode / Response.DecodeProp / valueXMLName

type tagSpec struct {
	none string // "" = a struct with an XMLName field carrying tag
	tag  string
}

func (t tagSpec) sx() string {
	if t.none != "" {
		return hx.L("none", t.none)
	}
	return hx.L("tag", hx.S(t.tag))
}

func parseTagSpec(x hx.Sx) tagSpec {
	if x.Head() == "none" {
		return tagSpec{none: x.Args()[0].Atom}
	}
	return tagSpec{tag: x.Args()[0].Str()}
}

// value returns a pointer to a new value of a type with that XMLName tag and
// a field ID mapped to the attribute "id".
func (t tagSpec) value() interface{} {
	switch t.none {
	case "notstruct":
		return new(int)
	case "nofield":
		return &struct {
			ID string `xml:"id,attr"`
		}{}
	case "wrongtype":
		return &struct {
			XMLName string `xml:"a b"`
			ID      string `xml:"id,attr"`
		}{}
	}
	ty := reflect.StructOf([]reflect.StructField{
		{Name: "XMLName", Type: reflect.TypeOf(xml.Name{}), Tag: reflect.StructTag("xml:" + strconv.Quote(t.tag))},
		{Name: "ID", Type: reflect.TypeOf(""), Tag: `xml:"id,attr"`},
	})
	return reflect.New(ty).Interface()
}

func nameLine(t tagSpec) string {
	obs := "err"
	func() {
		defer func() {
			if r := recover(); r != nil {
				obs = "panic"
			}
		}()
		n, err := verifhook.VerifValueXMLName(t.value())
		if err == nil {
			obs = hx.L("ok", hx.S(n.Space), hx.S(n.Local))
		}
	}()
	return hx.L("name", t.sx()) + " " + hx.L("obs", obs)
}

type propCase struct {
	how  string // dp, pd
	tag  tagSpec
	code int // response status code, -1 = no status element
	pss  []pstat
}

type pstat struct {
	code int
	raws []*rspec
}

func (c *propCase) sx() string {
	var pss []string
	for _, p := range c.pss {
		items := []string{hx.I(int64(p.code))}
		for _, r := range p.raws {
			items = append(items, r.sx())
		}
		pss = append(pss, hx.L(items...))
	}
	rc := "-"
	if c.code >= 0 {
		rc = hx.I(int64(c.code))
	}
	return hx.L("prop", c.how, c.tag.sx(), rc, hx.L(pss...))
}

func parsePropCase(x hx.Sx) *propCase {
	a := x.Args()
	c := &propCase{how: a[0].Atom, tag: parseTagSpec(a[1]), code: -1}
	if a[2].Atom != "-" {
		c.code = int(a[2].Int())
	}
	for _, p := range a[3].List {
		ps := pstat{code: int(p.List[0].Int())}
		for _, r := range p.List[1:] {
			ps.raws = append(ps.raws, parseRspec(r))
		}
		c.pss = append(c.pss, ps)
	}
	return c
}

func propLine(c *propCase) string {
	v := c.tag.value()
	obs := "other"
	func() {
		defer func() {
			if r := recover(); r != nil {
				obs = "panic"
			}
		}()
		var err error
		if c.how == "pd" {
			var raws []RawXMLValue
			for _, r := range c.pss[0].raws {
				raws = append(raws, r.build())
			}
			p := verifhook.Prop{Raw: raws}
			err = p.Decode(v)
		} else {
			resp := verifhook.Response{}
			if c.code >= 0 {
				resp.Status = &verifhook.Status{Code: c.code}
			}
			for _, p := range c.pss {
				var raws []RawXMLValue
				for _, r := range p.raws {
					raws = append(raws, r.build())
				}
				resp.PropStats = append(resp.PropStats, verifhook.PropStat{
					Prop:   verifhook.Prop{Raw: raws},
					Status: verifhook.Status{Code: p.code},
				})
			}
			err = resp.DecodeProp(v)
		}
		switch {
		case err == nil:
			id := ""
			if f := reflect.ValueOf(v).Elem(); f.Kind() == reflect.Struct {
				if idf := f.FieldByName("ID"); idf.IsValid() {
					id = idf.String()
				}
			}
			obs = hx.L("sel", hx.S(id))
		case verifhook.IsNotFound(err):
			obs = "notfound"
		}
	}()
	return c.sx() + " " + hx.L("obs", obs)
}

// propmLine: Response.DecodeProp(v1, ..., vk) with several values.
//
//	(propm ((tag ..)|(none ..) ...) rc ((code raw...) ...)) (obs (sels id...)|notfound|other|panic)
func propmSx(tags []tagSpec, c *propCase) string {
	var ts []string
	for _, t := range tags {
		ts = append(ts, t.sx())
	}
	var pss []string
	for _, p := range c.pss {
		items := []string{hx.I(int64(p.code))}
		for _, r := range p.raws {
			items = append(items, r.sx())
		}
		pss = append(pss, hx.L(items...))
	}
	rc := "-"
	if c.code >= 0 {
		rc = hx.I(int64(c.code))
	}
	return hx.L("propm", hx.L(ts...), rc, hx.L(pss...))
}

func propmLine(tags []tagSpec, c *propCase) string {
	var vs []interface{}
	for _, t := range tags {
		vs = append(vs, t.value())
	}
	obs := "other"
	func() {
		defer func() {
			if r := recover(); r != nil {
				obs = "panic"
			}
		}()
		resp := verifhook.Response{}
		if c.code >= 0 {
			resp.Status = &verifhook.Status{Code: c.code}
		}
		for _, p := range c.pss {
			var raws []RawXMLValue
			for _, r := range p.raws {
				raws = append(raws, r.build())
			}
			resp.PropStats = append(resp.PropStats, verifhook.PropStat{
				Prop:   verifhook.Prop{Raw: raws},
				Status: verifhook.Status{Code: p.code},
			})
		}
		err := resp.DecodeProp(vs...)
		switch {
		case err == nil:
			ids := []string{"sels"}
			for _, v := range vs {
				id := ""
				if f := reflect.ValueOf(v).Elem(); f.Kind() == reflect.Struct {
					if idf := f.FieldByName("ID"); idf.IsValid() {
						id = idf.String()
					}
				}
				ids = append(ids, hx.S(id))
			}
			obs = hx.L(ids...)
		case verifhook.IsNotFound(err):
			obs = "notfound"
		}
	}()
	return propmSx(tags, c) + " " + hx.L("obs", obs)
}

// ---------------------------------------------------------------- main

func main() {
	out := flag.String("out", "", "output file")
	replay := flag.String("replay", "", "file of case lines to re-run (inputs are re-executed)")
	flag.Parse()
	registerTypes()
	sink := hx.NewSink(*out)
	defer sink.Close()

	if *replay != "" {
		for _, l := range hx.ReadLines(*replay) {
			in := hx.MustParse(l)[0]
			a := in.Args()
			switch in.Head() {
			case "doc":
				var feats []string
				if len(a) > 2 {
					for _, f := range a[2].Args() {
						feats = append(feats, f.Atom)
					}
				}
				sink.Put(docLine([]byte(a[0].Str()), feats))
			case "bad":
				sink.Put(badLine([]byte(a[0].Str())))
			case "typed":
				if a[0].Atom == "m" {
					sink.Put(typedMulti(a[1].Str(), []byte(a[2].Str())))
				} else {
					sink.Put(typedDirect(a[1].Str(), []byte(a[2].Str())))
				}
			case "raw":
				sink.Put(rawLine(parseRspec(a[0])))
			case "prop":
				sink.Put(propLine(parsePropCase(in)))
			case "inter":
				var acts []int
				for _, x := range a[4].Args() {
					if x.Atom == "d" {
						acts = append(acts, -1)
					} else {
						acts = append(acts, int(x.Int()))
					}
				}
				sink.Put(interLine([]byte(a[0].Str()), int(a[2].Int()), a[3].Atom == "upfront", acts))
			case "seq":
				var docs [][]byte
				for _, d := range a[1].List {
					docs = append(docs, []byte(d.List[0].Str()))
				}
				sink.Put(seqLine(a[0].Atom, docs))
			case "propm":
				var tags []tagSpec
				for _, t := range a[0].List {
					tags = append(tags, parseTagSpec(t))
				}
				c := &propCase{how: "dp", code: -1}
				if a[1].Atom != "-" {
					c.code = int(a[1].Int())
				}
				for _, p := range a[2].List {
					ps := pstat{code: int(p.List[0].Int())}
					for _, r := range p.List[1:] {
						ps.raws = append(ps.raws, parseRspec(r))
					}
					c.pss = append(c.pss, ps)
				}
				sink.Put(propmLine(tags, c))
			case "name":
				sink.Put(nameLine(parseTagSpec(a[0])))
			default:
				fmt.Fprintln(os.Stderr, "c15: unknown case kind", in.Head())
				os.Exit(2)
			}
		}
		return
	}

	jobs := make(chan func() string, 1024)
	var wg sync.WaitGroup
	nw := runtime.NumCPU()
	if nw > 8 {
		nw = 8 // the machine is shared
	}
	for w := 0; w < nw; w++ {
		wg.Add(1)
		go func() {
			defer wg.Done()
			for j := range jobs {
				sink.Put(j())
			}
		}()
	}
	generate(hx.NewRand(hx.Seed()), hx.Tier() == "thorough", jobs)
	close(jobs)
	wg.Wait()
	fmt.Fprintf(os.Stderr, "c15: %d cases\n", sink.N)
}

var _ = strings.Join
