package main

import (
	"encoding"
	"encoding/xml"
	"fmt"
	"reflect"
	"sort"
	"strings"

	"verifharness/hx"
)

// ---------------------------------------------------------------- element trees and their serialisation

const xmlURL = "http://www.w3.org/XML/1998/namespace"

type nattr struct{ space, local, value string }

type node struct {
	kind   byte // e element, t text, c comment, p processing instruction, d directive
	space  string
	local  string
	attrs  []nattr
	kids   []*node
	text   string // t, c, d: content; p: instruction
	target string
}

func el(space, local string, kids ...*node) *node {
	return &node{kind: 'e', space: space, local: local, kids: kids}
}
func txt(s string) *node { return &node{kind: 't', text: s} }

func (n *node) depth() int {
	d := 0
	for _, k := range n.kids {
		if kd := k.depth(); kd > d {
			d = kd
		}
	}
	if n.kind == 'e' {
		return d + 1
	}
	return d
}

func (n *node) fanout() int {
	f := len(n.kids)
	for _, k := range n.kids {
		if kf := k.fanout(); kf > f {
			f = kf
		}
	}
	return f
}

// chooser abstracts the PRNG so that the exhaustive part can serialise with fixed policies.
type chooser interface {
	Intn(n int) int
}

type fixed int

func (f fixed) Intn(n int) int { return int(f) % n }

type serializer struct {
	c     chooser
	feats map[string]bool
	plain bool // no random noise: used by the exhaustive part
	// policy of the exhaustive part: 0 default namespaces, 1 prefixes declared
	// on the root, 2 one prefix "p" redeclared on every element, 3 alternate
	policy int
}

var prefixPool = []string{"p", "q", "D", "C", "X", "b", "ns1"}

type scope struct {
	prefix map[string]string
	dflt   string
}

func (s scope) clone() scope {
	m := make(map[string]string, len(s.prefix)+2)
	for k, v := range s.prefix {
		m[k] = v
	}
	return scope{prefix: m, dflt: s.dflt}
}

func (s scope) prefixesFor(uri string) []string {
	var l []string
	for p, u := range s.prefix {
		if u == uri {
			l = append(l, p)
		}
	}
	sort.Strings(l)
	return l
}

func (z *serializer) feat(f string) { z.feats[f] = true }

func (z *serializer) chance(num, den int) bool { return z.c.Intn(den) < num }

func escText(s string, attrQuote byte) string {
	var b strings.Builder
	for i := 0; i < len(s); i++ {
		switch c := s[i]; {
		case c == '&':
			b.WriteString("&amp;")
		case c == '<':
			b.WriteString("&lt;")
		case c == '>':
			b.WriteString("&gt;")
		case c == '\r':
			b.WriteString("&#13;")
		case attrQuote != 0 && c == attrQuote:
			if c == '"' {
				b.WriteString("&quot;")
			} else {
				b.WriteString("&apos;")
			}
		case attrQuote != 0 && c == '\n':
			b.WriteString("&#10;")
		case attrQuote != 0 && c == '\t':
			b.WriteString("&#9;")
		default:
			b.WriteByte(c)
		}
	}
	return b.String()
}

// text writes character data in one to three pieces, each escaped, as a CDATA
// section, or with character references.
func (z *serializer) text(b *strings.Builder, s string) {
	if z.plain {
		b.WriteString(escText(s, 0))
		return
	}
	if s == "" {
		if z.chance(1, 2) {
			b.WriteString("<![CDATA[]]>")
			z.feat("cdata")
		}
		return
	}
	// split on rune boundaries
	runes := []rune(s)
	pieces := 1 + z.c.Intn(3)
	for i := 0; i < pieces && len(runes) > 0; i++ {
		n := len(runes)
		if i < pieces-1 {
			n = z.c.Intn(len(runes) + 1)
		}
		piece := string(runes[:n])
		runes = runes[n:]
		switch z.c.Intn(4) {
		case 0:
			if !strings.Contains(piece, "]]>") && !strings.Contains(piece, "\r") {
				b.WriteString("<![CDATA[" + piece + "]]>")
				z.feat("cdata")
				continue
			}
			b.WriteString(escText(piece, 0))
		case 1:
			// character references for everything
			for _, r := range piece {
				if z.chance(1, 2) {
					fmt.Fprintf(b, "&#x%X;", r)
				} else {
					fmt.Fprintf(b, "&#%d;", r)
				}
			}
			z.feat("charref")
		default:
			e := escText(piece, 0)
			if e != piece {
				z.feat("entity")
			}
			b.WriteString(e)
		}
	}
}

func (z *serializer) attrValue(v string) string {
	q := byte('"')
	if !z.plain && z.chance(1, 3) {
		q = '\''
	}
	return string(q) + escText(v, q) + string(q)
}

func (z *serializer) node(b *strings.Builder, n *node, sc scope, isRoot bool) {
	switch n.kind {
	case 't':
		z.text(b, n.text)
		return
	case 'c':
		b.WriteString("<!--" + n.text + "-->")
		z.feat("comment")
		return
	case 'p':
		b.WriteString("<?" + n.target)
		if n.text != "" {
			b.WriteString(" " + n.text)
		}
		b.WriteString("?>")
		z.feat("procinst")
		return
	case 'd':
		b.WriteString("<!" + n.text + ">")
		z.feat("directive")
		return
	}
	sc = sc.clone()
	var decls []string          // declarations written on this element
	here := map[string]string{} // prefixes declared on this element
	used := map[string]bool{}   // prefixes this element takes from the enclosing scope
	declareDefault := func(uri string) {
		decls = append(decls, "xmlns="+z.attrValue(uri))
		sc.dflt = uri
	}
	declarePrefix := func(uri string) string {
		// a prefix not yet declared on this element
		start := z.c.Intn(len(prefixPool))
		for i := 0; i < len(prefixPool)+20; i++ {
			p := ""
			if i < len(prefixPool) {
				p = prefixPool[(start+i)%len(prefixPool)]
			} else {
				p = fmt.Sprintf("n%d", i)
			}
			if z.policy == 2 {
				p = "p"
				if _, declared := here[p]; declared || (used[p] && sc.prefix[p] != uri) {
					p = fmt.Sprintf("p%d", len(here)+len(used))
				}
			}
			if _, declared := here[p]; declared {
				continue
			}
			if used[p] && sc.prefix[p] != uri {
				continue // would rebind a prefix this very element relies on
			}
			if old, ok := sc.prefix[p]; ok && old != uri {
				z.feat("prefix-redeclared")
			}
			here[p] = uri
			sc.prefix[p] = uri
			decls = append(decls, "xmlns:"+p+"="+z.attrValue(uri))
			z.feat("prefix-declared")
			return p
		}
		panic("no prefix")
	}
	if z.policy == 1 && isRoot {
		// every namespace of the tree declared up front
		for _, u := range collectSpaces(n) {
			declarePrefix(u)
		}
	}
	qname := n.local
	if n.space == "" {
		if sc.dflt != "" {
			declareDefault("")
			z.feat("default-undeclared")
		} else if !z.plain && z.chance(1, 12) {
			declareDefault("")
			z.feat("default-undeclared-redundant")
		}
	} else {
		mode := 0
		switch {
		case z.plain:
			mode = []int{0, 1, 2, 0}[z.policy]
			if z.policy == 3 && len(n.kids)%2 == 1 {
				mode = 2
			}
		default:
			mode = z.c.Intn(3)
		}
		switch mode {
		case 0: // default namespace
			if sc.dflt == n.space && (z.plain || z.chance(3, 4)) {
				z.feat("default-inherited")
			} else {
				if sc.dflt != "" && sc.dflt != n.space {
					z.feat("default-redeclared")
				}
				declareDefault(n.space)
				z.feat("default-declared")
			}
		case 1: // a prefix in scope, else a new one
			if ps := sc.prefixesFor(n.space); len(ps) > 0 {
				p := ps[z.c.Intn(len(ps))]
				used[p] = true
				qname = p + ":" + n.local
				z.feat("prefix-inherited")
			} else {
				qname = declarePrefix(n.space) + ":" + n.local
			}
		default: // a prefix declared here
			qname = declarePrefix(n.space) + ":" + n.local
		}
	}
	var attrs []string
	for _, a := range n.attrs {
		switch a.space {
		case "":
			attrs = append(attrs, a.local+"="+z.attrValue(a.value))
		case xmlURL:
			attrs = append(attrs, "xml:"+a.local+"="+z.attrValue(a.value))
			z.feat("attr-xml")
		default:
			var p string
			if ps := sc.prefixesFor(a.space); len(ps) > 0 && (z.plain || z.chance(3, 4)) {
				p = ps[z.c.Intn(len(ps))]
				used[p] = true
			} else {
				p = declarePrefix(a.space)
			}
			attrs = append(attrs, p+":"+a.local+"="+z.attrValue(a.value))
			z.feat("attr-namespaced")
		}
	}
	if !z.plain && z.chance(1, 10) {
		declarePrefix("urn:unused")
	}
	all := append(decls, attrs...)
	if !z.plain {
		// declarations may come after the attributes that use them
		for i := len(all) - 1; i > 0; i-- {
			j := z.c.Intn(i + 1)
			all[i], all[j] = all[j], all[i]
		}
	}
	b.WriteString("<" + qname)
	for _, a := range all {
		b.WriteString(" " + a)
	}
	if len(n.kids) == 0 && (z.plain || z.chance(1, 2)) {
		b.WriteString("/>")
		return
	}
	b.WriteString(">")
	for _, k := range n.kids {
		z.node(b, k, sc, false)
	}
	b.WriteString("</" + qname + ">")
}

func collectSpaces(n *node) []string {
	seen := map[string]bool{}
	var walk func(n *node)
	walk = func(n *node) {
		if n.kind != 'e' {
			return
		}
		if n.space != "" {
			seen[n.space] = true
		}
		for _, a := range n.attrs {
			if a.space != "" && a.space != xmlURL {
				seen[a.space] = true
			}
		}
		for _, k := range n.kids {
			walk(k)
		}
	}
	walk(n)
	var l []string
	for s := range seen {
		l = append(l, s)
	}
	sort.Strings(l)
	return l
}

// serialize writes a document for the tree; feats names what it used.
func serialize(c chooser, root *node, plain bool, policy int, prolog bool) ([]byte, []string) {
	z := &serializer{c: c, feats: map[string]bool{}, plain: plain, policy: policy}
	var b strings.Builder
	if prolog {
		switch c.Intn(4) {
		case 0:
			b.WriteString(`<?xml version="1.0" encoding="UTF-8"?>` + "\n")
			z.feat("xmldecl")
		case 1:
			b.WriteString(`<?xml version="1.0"?><!-- before -->` + "\n")
			z.feat("xmldecl")
		case 2:
			b.WriteString("\n  ")
		}
	}
	z.node(&b, root, scope{prefix: map[string]string{}}, true)
	if prolog && c.Intn(3) == 0 {
		b.WriteString("\n<!-- after -->\n")
	}
	z.feat(fmt.Sprintf("depth%d", root.depth()))
	z.feat(fmt.Sprintf("fanout%d", minInt(root.fanout(), 5)))
	var feats []string
	for f := range z.feats {
		feats = append(feats, f)
	}
	sort.Strings(feats)
	return []byte(b.String()), feats
}

func minInt(a, b int) int {
	if a < b {
		return a
	}
	return b
}

// ---------------------------------------------------------------- random trees

var spacePool = []string{"", "DAV:", "DAV:", "urn:ietf:params:xml:ns:caldav", "urn:x", "http://example.com/a/", "X", "b", "p"}
var localPool = []string{"a", "b", "c", "prop", "href", "x-y", "_u", "getetag"}
var attrLocalPool = []string{"id", "name", "at", "k"}
var valuePool = []string{"", "v", "a&b", "<x>", `"q"`, "it's", "l1\nl2", "\ttab", "é€", "  sp  ", "]]>", "a\rb"}
var textPool = []string{"text", "", " ", "\n  ", "a&b<c>", "]]>", "é€\U0001F600", "x y z", "1 < 2 && 3 > 2", "cr\rlf", "'\""}
var commentPool = []string{" c ", "", "a-b", "<not-a-tag>", "é"}
var piTargets = []string{"pi", "x-m", "php"}
var piInsts = []string{"", "d", "a b ", "x=\"1\""}

func genAttrs(rng *hx.Rand, withXMLSpace bool) []nattr {
	var attrs []nattr
	seen := map[string]bool{}
	n := 0
	if rng.Chance(1, 2) {
		n = 1 + rng.Intn(3)
	}
	for i := 0; i < n; i++ {
		a := nattr{local: rng.Pick(attrLocalPool), value: rng.Pick(valuePool)}
		switch rng.Intn(6) {
		case 0:
			a.space = xmlURL
			a.local = rng.Pick([]string{"lang", "space", "base"})
			a.value = rng.Pick([]string{"en", "de-CH", "preserve", ""})
		case 1, 2:
			a.space = rng.Pick(spacePool[1:])
		}
		if withXMLSpace && rng.Chance(1, 4) {
			a.space = "xml"
		}
		if seen[a.space+" "+a.local] {
			continue
		}
		seen[a.space+" "+a.local] = true
		attrs = append(attrs, a)
	}
	return attrs
}

// genTree: depth <= maxDepth, fan-out <= 4, every node kind.
func genTree(rng *hx.Rand, maxDepth int, xmlSpace bool) *node {
	n := el(rng.Pick(spacePool), rng.Pick(localPool))
	if xmlSpace && rng.Chance(1, 3) {
		n.space = "xml"
	}
	n.attrs = genAttrs(rng, xmlSpace)
	if maxDepth <= 1 {
		if rng.Chance(1, 2) {
			n.kids = append(n.kids, txt(rng.Pick(textPool)))
		}
		return n
	}
	k := rng.Intn(5)
	for i := 0; i < k; i++ {
		switch rng.Intn(10) {
		case 0, 1, 2, 3:
			n.kids = append(n.kids, genTree(rng, maxDepth-1-rng.Intn(2), xmlSpace))
		case 4, 5, 6:
			n.kids = append(n.kids, txt(rng.Pick(textPool)))
		case 7:
			n.kids = append(n.kids, &node{kind: 'c', text: rng.Pick(commentPool)})
		case 8:
			n.kids = append(n.kids, &node{kind: 'p', target: rng.Pick(piTargets), text: rng.Pick(piInsts)})
		default:
			n.kids = append(n.kids, txt(rng.Pick(textPool)), txt(rng.Pick(textPool)))
		}
	}
	return n
}

// ---------------------------------------------------------------- trees shaped after the typed structures

var textUnmarshalerType = reflect.TypeOf((*encoding.TextUnmarshaler)(nil)).Elem()
var xmlUnmarshalerType = reflect.TypeOf((*xml.Unmarshaler)(nil)).Elem()
var rawType = reflect.TypeOf(RawXMLValue{})

var scalarPools = map[string][]string{
	"Href":            {"/a/b", "http://h/x%20y/", "", "/café", "%zz", "/a b"},
	"Time":            {"Mon, 02 Jan 2006 15:04:05 GMT", "Sunday, 06-Nov-94 08:49:37 GMT", "yesterday", ""},
	"ETag":            {`"abc"`, `""`, `abc`, `W/"x"`, `"a\"b"`},
	"Status":          {"HTTP/1.1 200 OK", "HTTP/1.1 404 Not Found", "HTTP/1.1 207", "nonsense", ""},
	"dateWithUTCTime": {"20200101T100000Z", "20201231T235959Z", "2020-01-01", ""},
	"negateCondition": {"yes", "no", "maybe"},
	"matchType":       {"equals", "contains", "starts-with", "ends-with", "sounds-like"},
	"filterTest":      {"anyof", "allof", "someof"},
}

func genScalar(rng *hx.Rand, t reflect.Type) string {
	for t.Kind() == reflect.Ptr {
		t = t.Elem()
	}
	if pool, ok := scalarPools[t.Name()]; ok && reflect.PtrTo(t).Implements(textUnmarshalerType) {
		return rng.Pick(pool)
	}
	if reflect.PtrTo(t).Implements(textUnmarshalerType) {
		return rng.Pick([]string{"x", "", "yes", "1"})
	}
	switch t.Kind() {
	case reflect.Int, reflect.Int64, reflect.Int32:
		return rng.Pick([]string{"0", "12", "-3", " 7 ", "abc", "99999999999999999999"})
	case reflect.Uint, reflect.Uint64, reflect.Uint32:
		return rng.Pick([]string{"0", "12", "-3", "x"})
	case reflect.Bool:
		return rng.Pick([]string{"true", "false", "1", "x"})
	}
	return rng.Pick(textPool)
}

func xmlNameOf(t reflect.Type) (space, local string, ok bool) {
	for t.Kind() == reflect.Ptr {
		t = t.Elem()
	}
	if t.Kind() != reflect.Struct {
		return "", "", false
	}
	f, has := t.FieldByName("XMLName")
	if !has {
		return "", "", false
	}
	tag := strings.Split(f.Tag.Get("xml"), ",")[0]
	if i := strings.Index(tag, " "); i >= 0 {
		return tag[:i], tag[i+1:], tag[i+1:] != ""
	}
	return "", tag, tag != ""
}

func isScalarType(t reflect.Type) bool {
	for t.Kind() == reflect.Ptr {
		t = t.Elem()
	}
	if reflect.PtrTo(t).Implements(textUnmarshalerType) {
		return true
	}
	switch t.Kind() {
	case reflect.Struct:
		return false
	case reflect.Slice:
		return t.Elem().Kind() == reflect.Uint8
	}
	return true
}

// alternatives of the types whose UnmarshalXML dispatches on the element name
var dispatch = map[string][]string{
	"caldav.reportReq":  {"caldav.calendarQuery", "caldav.calendarMultiget"},
	"carddav.reportReq": {"carddav.addressbookQuery", "carddav.addressbookMultiget"},
}

func noise(rng *hx.Rand, n *node) {
	if rng.Chance(1, 3) {
		var kids []*node
		for _, k := range n.kids {
			switch rng.Intn(8) {
			case 0:
				kids = append(kids, txt("\n  "))
			case 1:
				kids = append(kids, &node{kind: 'c', text: " n "})
			case 2:
				kids = append(kids, el(rng.Pick(spacePool), "unknown", txt("u")))
			}
			kids = append(kids, k)
		}
		n.kids = kids
	}
	if rng.Chance(1, 8) {
		n.attrs = append(n.attrs, nattr{space: "urn:x", local: "extra", value: "e"})
	}
}

// genTyped builds a tree shaped after the struct type t (encoding/xml's tags).
func genTyped(rng *hx.Rand, key string, t reflect.Type, defSpace, defLocal string, depth int) *node {
	for t.Kind() == reflect.Ptr {
		t = t.Elem()
	}
	if alts, ok := dispatch[key]; ok {
		alt := rng.Pick(alts)
		return genTyped(rng, alt, reflect.TypeOf(typeTable[alt]()), defSpace, defLocal, depth)
	}
	if t == rawType {
		return genTree(rng, 2, false)
	}
	space, local := defSpace, defLocal
	if s, l, ok := xmlNameOf(t); ok {
		space, local = s, l
	}
	n := el(space, local)
	if isScalarType(t) {
		n.kids = append(n.kids, txt(genScalar(rng, t)))
		return n
	}
	if t.Kind() != reflect.Struct {
		return n
	}
	pkg := key[:strings.Index(key+".", ".")]
	for i := 0; i < t.NumField(); i++ {
		f := t.Field(i)
		if f.Name == "XMLName" || !f.IsExported() {
			continue
		}
		tag := f.Tag.Get("xml")
		if tag == "-" {
			continue
		}
		parts := strings.Split(tag, ",")
		nm := parts[0]
		flags := map[string]bool{}
		for _, p := range parts[1:] {
			flags[p] = true
		}
		ft := f.Type
		switch {
		case flags["attr"]:
			if rng.Chance(2, 3) {
				as, al := "", nm
				if j := strings.Index(nm, " "); j >= 0 {
					as, al = nm[:j], nm[j+1:]
				}
				if al == "" {
					al = f.Name
				}
				n.attrs = append(n.attrs, nattr{space: as, local: al, value: genScalar(rng, ft)})
			}
		case flags["chardata"]:
			n.kids = append(n.kids, txt(genScalar(rng, ft)))
		case flags["any"]:
			for k := rng.Intn(3); k > 0; k-- {
				n.kids = append(n.kids, genTree(rng, 2, false))
			}
		default:
			// element(s), possibly below a path a>b>c
			cs, path := "", nm
			if j := strings.Index(nm, " "); j >= 0 {
				cs, path = nm[:j], nm[j+1:]
			}
			segs := strings.Split(path, ">")
			reps := 1
			et := ft
			if ft.Kind() == reflect.Slice && ft.Elem().Kind() != reflect.Uint8 {
				reps = rng.Intn(4)
				et = ft.Elem()
			} else if ft.Kind() == reflect.Ptr && rng.Chance(1, 2) {
				reps = 0
			} else if rng.Chance(1, 6) {
				reps = 0
			}
			for r := 0; r < reps; r++ {
				leafLocal := segs[len(segs)-1]
				if leafLocal == "" {
					leafLocal = f.Name
				}
				leafSpace := cs
				if leafSpace == "" {
					leafSpace = space
				}
				var leaf *node
				if depth <= 0 && !isScalarType(et) {
					continue
				}
				ekey := pkg + "." + derefName(et)
				leaf = genTyped(rng, ekey, et, leafSpace, leafLocal, depth-1)
				cur := leaf
				for k := len(segs) - 2; k >= 0; k-- {
					cur = el(leafSpace, segs[k], cur)
				}
				n.kids = append(n.kids, cur)
			}
		}
	}
	noise(rng, n)
	return n
}

func derefName(t reflect.Type) string {
	for t.Kind() == reflect.Ptr {
		t = t.Elem()
	}
	return t.Name()
}

// multistatus wraps a property element as a server would send it.
func multistatus(rng *hx.Rand, prop *node) *node {
	dav := "DAV:"
	status := func(s string) *node { return el(dav, "status", txt(s)) }
	others := func() []*node {
		var l []*node
		for k := rng.Intn(3); k > 0; k-- {
			l = append(l, el(rng.Pick([]string{dav, "urn:x"}), rng.Pick([]string{"other", "misc", "owner"}), txt("o")))
		}
		return l
	}
	with := el(dav, "prop", append(others(), append([]*node{prop}, others()...)...)...)
	pss := []*node{el(dav, "propstat", with, status("HTTP/1.1 200 OK"))}
	if rng.Chance(1, 2) {
		other := el(dav, "propstat", el(dav, "prop", others()...), status("HTTP/1.1 404 Not Found"))
		if rng.Chance(1, 2) {
			pss = append([]*node{other}, pss...)
		} else {
			pss = append(pss, other)
		}
	}
	resp := el(dav, "response", append([]*node{el(dav, "href", txt("/x/y"))}, pss...)...)
	return el(dav, "multistatus", resp)
}

// ---------------------------------------------------------------- generation plan

var fixedDocs = []string{
	`<a/>`,
	`<a xmlns="xml"/>`, // witness of known finding xml-literal-namespace
	`<resourcetype xmlns="DAV:"><x xmlns="xml"/></resourcetype>`,
	`<p:a xmlns:p="X"><b/></p:a>`,
	`<a xmlns="X"><b xmlns=""/><c xmlns="Y" q="1"/></a>`,
	`<a xmlns="X"><p:b xmlns="" xmlns:p="Y"><c/></p:b></a>`,
	`<a:x xmlns:a="b" xmlns:b="c" a:k="v"/>`,
	`<p:a xmlns:p="X" p:at="v" xml:lang="en"><p:b xmlns:p="Y"/>t&amp;<![CDATA[<x>]]><!-- c --><?pi d?></p:a>`,
	`<?xml version="1.0"?><!DOCTYPE a><a>first<b>second text that is longer</b>third<!--comment one--><c>4</c><!--comment two, longer--></a><!-- after -->`,
	`<D:prop xmlns:D="DAV:"><D:getetag>"e"</D:getetag><D:displayname>x<![CDATA[y]]>z</D:displayname></D:prop>`,
}

func generate(rng *hx.Rand, thorough bool, jobs chan<- func() string) {
	scale := 1
	if thorough {
		scale = 8
	}

	// ---- fixed corpus
	for _, d := range fixedDocs {
		d := []byte(d)
		jobs <- func() string { return docLine(d, []string{"fixed"}) }
	}
	jobs <- func() string {
		return typedDirect("internal.ResourceType", []byte(`<resourcetype xmlns="DAV:"><x xmlns="xml"/></resourcetype>`))
	}

	// ---- exhaustive: every tree of up to maxNodes nodes over a small alphabet,
	// under each of the four namespace policies
	maxNodes := 4
	if thorough {
		maxNodes = 5
	}
	names := [][2]string{{"", "a"}, {"X", "a"}, {"Y", "b"}}
	var forests func(n int) [][]*node // all forests with exactly n nodes
	memo := map[int][][]*node{}
	forests = func(n int) [][]*node {
		if f, ok := memo[n]; ok {
			return f
		}
		var out [][]*node
		if n == 0 {
			out = [][]*node{nil}
		} else {
			// first tree takes k nodes, the rest n-k
			for k := 1; k <= n; k++ {
				var firsts []*node
				if k == 1 {
					firsts = append(firsts, txt("t"), &node{kind: 'c', text: "c"})
				}
				for _, nm := range names {
					for _, kids := range forests(k - 1) {
						firsts = append(firsts, el(nm[0], nm[1], kids...))
					}
				}
				for _, f := range firsts {
					for _, rest := range forests(n - k) {
						out = append(out, append([]*node{f}, rest...))
					}
				}
			}
		}
		memo[n] = out
		return out
	}
	for n := 1; n <= maxNodes; n++ {
		for _, nm := range names {
			for _, kids := range forests(n - 1) {
				root := el(nm[0], nm[1], kids...)
				for policy := 0; policy < 4; policy++ {
					doc, feats := serialize(fixed(0), root, true, policy, false)
					feats = append(feats, "exhaustive", fmt.Sprintf("policy%d", policy))
					jobs <- func() string { return docLine(doc, feats) }
				}
			}
		}
	}

	// ---- random documents: depth <= 6, fan-out <= 4, every kind of namespace use
	for i := 0; i < 12000*scale; i++ {
		tree := genTree(rng, 1+rng.Intn(6), rng.Chance(1, 150))
		doc, feats := serialize(rng, tree, false, 0, true)
		jobs <- func() string { return docLine(doc, feats) }
	}

	// ---- several readers of ONE captured value, advanced by a schedule
	// (exhaustive documents of <= 3 nodes and random ones; every pattern of the
	// family, readers obtained up front and lazily)
	interDoc := func(doc []byte, r *hx.Rand, all bool) {
		toks, _, wf := elementTokens(doc)
		if !wf {
			return
		}
		n := len(toks)            // tokens one reader delivers
		total := n + 2            // calls per reader: all tokens, then io.EOF twice
		var pats [][2]interface{} // (readers, schedule)
		add := func(readers int, sched []int) { pats = append(pats, [2]interface{}{readers, sched}) }
		// finish: round robin until every reader has made [total] calls
		finish := func(readers int, sched []int) []int {
			cnt := make([]int, readers)
			for _, a := range sched {
				if a >= 0 {
					cnt[a]++
				}
			}
			for {
				done := true
				for i := 0; i < readers; i++ {
					if cnt[i] < total {
						sched = append(sched, i)
						cnt[i]++
						done = false
					}
				}
				if done {
					return sched
				}
			}
		}
		rep := func(i, k int) []int {
			l := make([]int, k)
			for j := range l {
				l[j] = i
			}
			return l
		}
		ks := []int{}
		for k := 0; k <= n+1; k++ {
			if all || k <= 2 || k >= n-1 || r.Chance(1, 4) {
				ks = append(ks, k)
			}
		}
		add(2, finish(2, nil))                          // alternate
		add(3, finish(3, nil))                          // three in turns
		add(2, append(rep(0, total), rep(1, total)...)) // one after the other
		{                                               // 2:1
			var sc []int
			for i := 0; i < total; i++ {
				sc = append(sc, 0, 0, 1)
			}
			add(2, finish(2, sc[:minInt(len(sc), 3*total/2+3)]))
		}
		for _, k := range ks {
			add(2, finish(2, rep(0, k)))                                                           // the second started after k tokens of the first
			add(2, append(append(rep(0, k), rep(1, total)...), rep(0, total-minInt(k, total))...)) // ... and drained before the first goes on
			add(1, finish(1, append(rep(0, k), -1)))                                               // Decode inside a partially drained reader
			add(2, finish(2, append(append(rep(0, k), 1, -1), 1)))                                 // Decode between two partially drained readers
		}
		for j := 0; j < 3; j++ { // three readers nested
			k1, k2 := r.Intn(n+2), r.Intn(n+2)
			sc := append(rep(0, k1), rep(1, k2)...)
			sc = append(sc, rep(2, total)...)
			sc = append(sc, rep(1, total-k2)...)
			sc = append(sc, rep(0, total-k1)...)
			add(3, sc)
		}
		for j := 0; j < 3; j++ { // random schedules, with decodes
			readers := 2 + r.Intn(2)
			var sc []int
			for len(sc) < readers*total {
				if r.Chance(1, 12) {
					sc = append(sc, -1)
				} else {
					sc = append(sc, r.Intn(readers))
				}
			}
			add(readers, finish(readers, sc))
		}
		for _, pt := range pats {
			readers, sched := pt[0].(int), pt[1].([]int)
			for _, upfront := range []bool{false, true} {
				upfront := upfront
				jobs <- func() string { return interLine(doc, readers, upfront, sched) }
			}
		}
	}
	for n := 1; n <= 3; n++ {
		for _, nm := range names {
			for _, kids := range forests(n - 1) {
				doc, _ := serialize(fixed(0), el(nm[0], nm[1], kids...), true, n%4, false)
				interDoc(doc, rng, true)
			}
		}
	}
	for i := 0; i < 150*scale; i++ {
		tree := genTree(rng, 1+rng.Intn(4), false)
		doc, _ := serialize(rng, tree, false, 0, rng.Bool())
		interDoc(doc, rng, false)
	}

	// ---- documents captured one after the other into ONE variable, a copy
	// kept after each capture (shrinking, growing, same size), every copy
	// observed at the end
	vias := []string{"var", "prop", "propreuse", "resp"}
	var pool [][]byte // by number of children of the root: 0..3, several shapes each
	for n := 1; n <= 4; n++ {
		cnt := 0
		for _, nm := range names {
			for _, kids := range forests(n - 1) {
				cnt++
				step := map[int]int{3: 20, 4: 100}[n]
				if thorough {
					step = map[int]int{3: 7, 4: 25}[n]
				}
				if n <= 2 || cnt%step == 0 {
					doc, _ := serialize(fixed(0), el(nm[0], nm[1], kids...), true, cnt%4, false)
					pool = append(pool, doc)
				}
			}
		}
	}
	for _, via := range vias {
		via := via
		for _, d1 := range pool {
			for _, d2 := range pool {
				docs := [][]byte{d1, d2}
				jobs <- func() string { return seqLine(via, docs) }
			}
		}
	}
	for i := 0; i < 600*scale; i++ {
		k := 2 + rng.Intn(4)
		docs := make([][]byte, k)
		for j := range docs {
			if rng.Chance(1, 2) {
				docs[j] = pool[rng.Intn(len(pool))]
			} else {
				docs[j], _ = serialize(rng, genTree(rng, 1+rng.Intn(4), false), false, 0, false)
			}
		}
		via := vias[i%len(vias)]
		jobs <- func() string { return seqLine(via, docs) }
	}

	// ---- histories across values: documents with RELATED names captured one
	// after the other into different variables of this one process; every
	// value is judged against its own document at the end.  The model is a
	// function of the document alone, so any dependence on earlier captures is
	// a disagreement.  Two families: names made unique to the case by a tag
	// (what is "first seen" is then decided by the case's own order, and a
	// replay reproduces it), and names shared by all cases of the run, sent in
	// an order that depends on the seed.
	type qname struct{ space, local string }
	related := func(tag string) [][]qname {
		u := "urn:" + tag + ":"
		return [][]qname{
			// the same concatenation with the split point moved
			{{u + "cal", "tag-set"}, {u + "calta", "g-set"}, {u + "caltag-", "set"}, {u, "caltag-set"}},
			{{u + "a", "clowner"}, {u + "acl", "owner"}},
			{{"", tag + "ab"}, {tag + "a", "b"}, {tag, "ab"}},
			{{"", "x" + tag}, {"x", tag}},
			// same local name in different namespaces, same namespace and different local names
			{{u + "one", "name"}, {u + "two", "name"}, {"", "name"}, {u + "one", "other"}},
			// case
			{{u + "Case", "Name"}, {u + "case", "Name"}, {u + "Case", "name"}, {u + "CASE", "NAME"}},
			// one a prefix of the other, separators that could be taken for one another
			{{u + "s", "l"}, {u + "s ", "l"}, {u + "s", "_l"}, {u + "s:", "l"}, {u + "s", "l."}},
		}
	}
	// the shapes a name is put in: element, child elements, attribute, element with the attribute on a child
	docFor := func(c chooser, q qname, shape int, plain bool) []byte {
		var tree *node
		switch shape {
		case 0:
			tree = el(q.space, q.local, txt("v"))
		case 1:
			tree = el("DAV:", "prop", el(q.space, q.local), el(q.space, q.local, txt("w")))
		case 2:
			tree = el("DAV:", "prop")
			tree.attrs = []nattr{{q.space, q.local, "av"}}
		default:
			kid := el("urn:k", "k", txt("x"))
			kid.attrs = []nattr{{q.space, q.local, "av"}, {"", "plain", "p"}}
			tree = el(q.space, q.local, kid)
		}
		doc, _ := serialize(c, tree, plain, 0, false)
		return doc
	}
	var hist []func() string
	histCase := func(docs [][]byte) {
		hist = append(hist, func() string { return seqLine("fresh", docs) })
	}
	caseNo := 0
	newTag := func() string { caseNo++; return fmt.Sprintf("h%d", caseNo) }
	nfam := len(related("x"))
	for fam := 0; fam < nfam; fam++ {
		n := len(related("x")[fam])
		for i := 0; i < n; i++ {
			for j := 0; j < n; j++ {
				if i == j {
					continue
				}
				// every ordered pair, in every combination of shapes; also with the first name again at the end
				for s1 := 0; s1 < 4; s1++ {
					for s2 := 0; s2 < 4; s2++ {
						names := related(newTag())[fam]
						a, b := names[i], names[j]
						histCase([][]byte{docFor(fixed(0), a, s1, true), docFor(fixed(0), b, s2, true)})
						if s1 == s2 {
							names = related(newTag())[fam]
							a, b = names[i], names[j]
							histCase([][]byte{docFor(fixed(0), a, s1, true), docFor(fixed(0), b, s2, true), docFor(fixed(0), a, (s2+1)%4, true)})
						}
					}
				}
			}
		}
		// the whole family in a random order, random shapes
		for k := 0; k < 20*scale; k++ {
			names := related(newTag())[fam]
			var docs [][]byte
			for want := 2 + rng.Intn(5); len(docs) < want; {
				docs = append(docs, docFor(rng, names[rng.Intn(len(names))], rng.Intn(4), false))
			}
			histCase(docs)
		}
	}
	// names shared by all cases of the run: which is seen first depends on the order below
	for fam := 0; fam < nfam; fam++ {
		names := related("shared")[fam]
		for k := 0; k < 40*scale; k++ {
			var docs [][]byte
			// (three or four documents: longer than the self-contained cases above, so
			// that the shortest failing case of a run is one that a replay reproduces)
			for want := 3 + rng.Intn(2); len(docs) < want; {
				docs = append(docs, docFor(rng, names[rng.Intn(len(names))], rng.Intn(4), false))
			}
			histCase(docs)
		}
	}
	// the order of these cases within the run depends on the seed
	for i := len(hist) - 1; i > 0; i-- {
		j := rng.Intn(i + 1)
		hist[i], hist[j] = hist[j], hist[i]
	}
	for _, h := range hist {
		jobs <- h
	}

	// ---- typed structures, directly and inside a multistatus
	for i := 0; i < 8000*scale; i++ {
		ty := typeNames[i%len(typeNames)]
		tree := genTyped(rng, ty, reflect.TypeOf(typeTable[ty]()), "", "", 3)
		if tree.local == "" {
			continue
		}
		if rng.Chance(1, 40) {
			// the wrong element, or the wrong namespace
			if rng.Bool() {
				tree.local += "x"
			} else {
				tree.space = "urn:wrong"
			}
		}
		if rng.Chance(1, 3) {
			doc, _ := serialize(rng, multistatus(rng, tree), false, 0, true)
			jobs <- func() string { return typedMulti(ty, doc) }
		} else {
			doc, feats := serialize(rng, tree, false, 0, true)
			jobs <- func() string { return typedDirect(ty, doc) }
			if rng.Chance(1, 4) {
				feats = append(feats, "typed-shape")
				jobs <- func() string { return docLine(doc, feats) }
			}
		}
	}

	// ---- malformed documents
	for i := 0; i < 3000*scale; i++ {
		tree := genTree(rng, 1+rng.Intn(4), false)
		doc, _ := serialize(rng, tree, false, 0, rng.Bool())
		s := string(doc)
		switch rng.Intn(7) {
		case 0: // truncated
			s = s[:rng.Intn(len(s))]
		case 1: // an end tag removed
			if j := strings.LastIndex(s, "</"); j >= 0 {
				k := strings.Index(s[j:], ">")
				s = s[:j] + s[j+k+1:]
			}
		case 2: // a stray end tag
			j := rng.Intn(len(s) + 1)
			s = s[:j] + "</stray>" + s[j:]
		case 3: // a bare ampersand
			j := rng.Intn(len(s) + 1)
			s = s[:j] + "&" + s[j:]
		case 4: // an undeclared prefix
			s = strings.Replace(s, "<", "<undeclared:", 1)
		case 5: // a second root
			s = s + s
		default: // nothing before the element but junk
			s = "junk" + s
		}
		doc = []byte(s)
		jobs <- func() string { return badLine(doc) }
	}

	// ---- raw values built field by field
	leafToks := []xml.Token{
		xml.CharData("t"), xml.Comment("c"), xml.ProcInst{Target: "pi", Inst: []byte("d")}, xml.Directive("DOCTYPE x"),
	}
	kinds := 8
	mk := func(kind int, kids []*rspec) *rspec {
		switch kind {
		case 0:
			return &rspec{tok: xml.StartElement{Name: xml.Name{Local: "a"}}, children: kids}
		case 1:
			return &rspec{tok: xml.StartElement{Name: xml.Name{Space: "X", Local: "b"}, Attr: []xml.Attr{{Name: xml.Name{Local: "k"}, Value: "v"}}}, children: kids}
		case 2:
			return &rspec{tok: xml.CharData("t"), children: kids}
		case 3:
			return &rspec{tok: nil, children: kids}
		case 4:
			return &rspec{tok: xml.EndElement{Name: xml.Name{Local: "a"}}, children: kids}
		case 5:
			return &rspec{children: kids, out: &ospec{how: "dn", arg: "n"}}
		case 6:
			return &rspec{tok: xml.StartElement{Name: xml.Name{Local: "a"}}, children: kids, out: &ospec{how: "chan"}}
		default:
			return &rspec{tok: xml.Comment("c"), children: kids}
		}
	}
	// exhaustive: every value of up to three nodes over eight kinds of node
	for a := 0; a < kinds; a++ {
		r := mk(a, nil)
		jobs <- func() string { return rawLine(r) }
		for b := 0; b < kinds; b++ {
			r := mk(a, []*rspec{mk(b, nil)})
			jobs <- func() string { return rawLine(r) }
			for c := 0; c < kinds; c++ {
				r1 := mk(a, []*rspec{mk(b, nil), mk(c, nil)})
				r2 := mk(a, []*rspec{mk(b, []*rspec{mk(c, nil)})})
				jobs <- func() string { return rawLine(r1) }
				jobs <- func() string { return rawLine(r2) }
			}
		}
	}
	var genRaw func(depth int) *rspec
	genRaw = func(depth int) *rspec {
		r := &rspec{}
		switch k := rng.Intn(20); {
		case k < 11:
			st := xml.StartElement{Name: xml.Name{Space: rng.Pick(spacePool), Local: rng.Pick(localPool)}}
			for _, a := range genAttrs(rng, false) {
				st.Attr = append(st.Attr, xml.Attr{Name: xml.Name{Space: a.space, Local: a.local}, Value: a.value})
			}
			if rng.Chance(1, 10) {
				st.Attr = append(st.Attr, xml.Attr{Name: xml.Name{Local: "xmlns"}, Value: rng.Pick(spacePool)})
			}
			r.tok = st
		case k < 15:
			r.tok = leafToks[rng.Intn(len(leafToks))]
			if rng.Chance(1, 2) {
				r.tok = xml.CharData(strings.ReplaceAll(rng.Pick(textPool), "\r", ""))
			}
		case k < 16:
			r.tok = nil
		case k < 17:
			r.tok = xml.EndElement{Name: xml.Name{Local: "a"}}
		default:
			r.out = &ospec{how: rng.Pick([]string{"dn", "dn", "inner", "inner", "chan", "boom"}), arg: rng.Pick([]string{"n", "a&b", ""})}
			if rng.Chance(1, 3) {
				r.tok = xml.StartElement{Name: xml.Name{Local: "a"}}
			}
		}
		if depth > 0 && rng.Chance(3, 4) {
			for k := rng.Intn(4); k > 0; k-- {
				r.children = append(r.children, genRaw(depth-1))
			}
		}
		return r
	}
	for i := 0; i < 4000*scale; i++ {
		r := genRaw(1 + rng.Intn(4))
		jobs <- func() string { return rawLine(r) }
	}

	// ---- Prop.Decode / Response.DecodeProp
	goodTags := []string{"DAV: a", "DAV: b", "urn:x a", "X a", " a"}
	badTags := []string{"", "a", "a b c", "a ", "a  b", ",", " "}
	propNames := [][2]string{{"DAV:", "a"}, {"DAV:", "b"}, {"urn:x", "a"}, {"X", "a"}, {"", "a"}, {"DAV:", "c"}}
	id := 0
	genPropRaw := func() *rspec {
		id++
		switch k := rng.Intn(12); {
		case k < 8:
			nm := propNames[rng.Intn(len(propNames))]
			return &rspec{tok: xml.StartElement{Name: xml.Name{Space: nm[0], Local: nm[1]},
				Attr: []xml.Attr{{Name: xml.Name{Local: "id"}, Value: fmt.Sprintf("i%d", id)}}}}
		case k < 9:
			return &rspec{tok: nil}
		case k < 10:
			return &rspec{tok: xml.CharData("t")}
		case k < 11:
			return &rspec{out: &ospec{how: "dn", arg: "n"}}
		default:
			nm := propNames[rng.Intn(len(propNames))]
			return &rspec{tok: xml.StartElement{Name: xml.Name{Space: nm[0], Local: nm[1]}}, out: &ospec{how: "dn", arg: "n"}}
		}
	}
	for i := 0; i < 4000*scale; i++ {
		c := &propCase{how: "dp", code: -1}
		switch k := rng.Intn(10); {
		case k < 7:
			c.tag = tagSpec{tag: rng.Pick(goodTags)}
		case k < 9:
			c.tag = tagSpec{tag: rng.Pick(badTags)}
		default:
			c.tag = tagSpec{none: rng.Pick([]string{"notstruct", "nofield", "wrongtype"})}
		}
		if rng.Chance(1, 2) {
			c.code = []int{200, 207, 299, 300, 404, 199, 0, 500}[rng.Intn(8)]
			if rng.Chance(1, 2) {
				c.code = 200
			}
		}
		nps := rng.Intn(4)
		if rng.Chance(1, 4) {
			c.how = "pd"
			nps = 1
		}
		for j := 0; j < nps; j++ {
			ps := pstat{code: 200}
			if rng.Chance(1, 3) {
				ps.code = []int{201, 404, 0, 207, 403}[rng.Intn(5)]
			}
			if c.how == "pd" {
				ps.code = 0
			}
			for k := rng.Intn(5); k > 0; k-- {
				ps.raws = append(ps.raws, genPropRaw())
			}
			c.pss = append(c.pss, ps)
		}
		jobs <- func() string { return propLine(c) }
	}

	// ---- Response.DecodeProp with several values (each decoded in turn, the
	// first failure ends the call)
	for i := 0; i < 3000*scale; i++ {
		c := &propCase{how: "dp", code: -1}
		var tags []tagSpec
		for k := 1 + rng.Intn(3); k > 0; k-- {
			switch q := rng.Intn(20); {
			case q < 17:
				tags = append(tags, tagSpec{tag: rng.Pick(goodTags)})
			case q < 19:
				tags = append(tags, tagSpec{tag: rng.Pick(badTags)})
			default:
				tags = append(tags, tagSpec{none: rng.Pick([]string{"notstruct", "nofield", "wrongtype"})})
			}
		}
		if rng.Chance(1, 3) {
			c.code = []int{200, 207, 299, 300, 404, 500}[rng.Intn(6)]
		}
		for j := 1 + rng.Intn(3); j > 0; j-- {
			ps := pstat{code: 200}
			if rng.Chance(1, 4) {
				ps.code = []int{201, 404, 0, 207, 403}[rng.Intn(5)]
			}
			for k := 1 + rng.Intn(5); k > 0; k-- {
				ps.raws = append(ps.raws, genPropRaw())
			}
			c.pss = append(c.pss, ps)
		}
		// mostly valid: for most tags, an element of that name somewhere
		for _, t := range tags {
			if t.none == "" && rng.Chance(3, 4) {
				// (only for the well-formed tags: what encoding/xml makes of a struct
				// whose tag has an empty local name is not part of the model)
				if parts := strings.Split(t.tag, " "); len(parts) == 2 && parts[1] != "" {
					id++
					ps := &c.pss[rng.Intn(len(c.pss))]
					r := &rspec{tok: xml.StartElement{Name: xml.Name{Space: parts[0], Local: parts[1]},
						Attr: []xml.Attr{{Name: xml.Name{Local: "id"}, Value: fmt.Sprintf("i%d", id)}}}}
					at := rng.Intn(len(ps.raws) + 1)
					ps.raws = append(ps.raws[:at], append([]*rspec{r}, ps.raws[at:]...)...)
				}
			}
		}
		jobs <- func() string { return propmLine(tags, c) }
	}

	// ---- valueXMLName: every tag over a small alphabet up to a length, the
	// tags of the library's own structures, values that are no such struct
	alphabet := []string{"a", "b", " ", ",", ":"}
	maxLen := 5
	if thorough {
		maxLen = 6
	}
	var rec func(prefix string)
	rec = func(prefix string) {
		t := tagSpec{tag: prefix}
		jobs <- func() string { return nameLine(t) }
		if len(prefix) == maxLen {
			return
		}
		for _, ch := range alphabet {
			rec(prefix + ch)
		}
	}
	rec("")
	for _, ty := range typeNames {
		if _, l, ok := xmlNameOf(reflect.TypeOf(typeTable[ty]())); ok && l != "" {
			f, _ := reflect.TypeOf(typeTable[ty]()).Elem().FieldByName("XMLName")
			t := tagSpec{tag: f.Tag.Get("xml")}
			jobs <- func() string { return nameLine(t) }
		}
	}
	for _, none := range []string{"notstruct", "nofield", "wrongtype"} {
		t := tagSpec{none: none}
		jobs <- func() string { return nameLine(t) }
	}
}
