// Command c12 drives the real caldav.Handler and carddav.Handler (and the Go
// runtime's path/strings functions the model transliterates) for property C12.
//
// Stages (-stage):
//
//	strings    (clean s) (r) | (split s) (parts) | (trimslash s) (r) | (hasprefix s p) (0|1)
//	           | (trimprefix s p) (r) | (rtype cal|card prefix path) (n)
//	serve      (serve cal|card <hprefix> <backend> <req> <layout>) (obs (trace (op arg)...) status (hrefs ...) extra)
//	discovery  (disc cal|card <hprefix> <backend> <start> <hier>) (found <principal> <home> (colls ...) (objs ...)) | (fail <step>)
//	           <hier> = (h (ps...) <prefix-trailing-slash> <user> <uslash> <home> <hslash> (c <name> <slash> n d m (o <name> l t e)...)...)
//	                  | (nohier)      the layout the backend holds, when it is one the property quantifies over
//
// <backend> = (backend <principal> <homeset> (coll <path> n d m (obj <path> l t e)...)...)
// <req>     = (req <method> <path> 0|1|inf good|alt|bad|(mg href...) [<delivery>])
// <delivery> = exact (default) | unknown | nobody | chunked      how the body (or its absence) reaches the handler
//
// Stage history:
//
//	(hist cal|card <hprefix> (step <backend> <req> <layout>)...)    <obs of the LAST step>
//	(dhist cal|card <hprefix> (dstep <backend> <start> <hier>)...)  <discovery result of the LAST step>
//	    ONE shared Handler serves all steps; each step's user (its backend = what the multi-user
//	    backend holds for that user) travels in the request context; a line is emitted for every
//	    prefix of a sequence, and every step is judged by the model on its own inputs
//	(par cal|card <hprefix> (step ...))   one step, served while other users' requests overlap on the same Handler
//
// <layout>  = (layout (ps...) 0|1 (rs...) 0|1) | (nolayout)
package main

import (
	"context"
	"encoding/xml"
	"flag"
	"fmt"
	"io"
	"net/http"
	"net/http/httptest"
	"net/url"
	"os"
	"path"
	"runtime"
	"strings"
	"sync"
	"time"

	"github.com/emersion/go-ical"
	"github.com/emersion/go-vcard"
	"github.com/emersion/go-webdav"
	"github.com/emersion/go-webdav/caldav"
	"github.com/emersion/go-webdav/carddav"

	"verifharness/hx"
)

// ---------------------------------------------------------------- backend double

type object struct {
	path    string
	l, t, e bool // has content length, modification time, etag
}

type collection struct {
	path    string
	n, d, m bool // has name, description, max resource size
	objs    []object
}

type world struct {
	principal, home string
	colls           []collection
}

type recorder struct {
	mu    sync.Mutex
	calls []string
}

func (r *recorder) rec(op, arg string) {
	r.mu.Lock()
	r.calls = append(r.calls, hx.L(op, hx.S(arg)))
	r.mu.Unlock()
}

func samePath(a, b string) bool { return strings.TrimSuffix(a, "/") == strings.TrimSuffix(b, "/") }

func (w *world) findColl(p string) *collection {
	for i := range w.colls {
		if samePath(w.colls[i].path, p) {
			return &w.colls[i]
		}
	}
	return nil
}

func (w *world) findObj(p string) *object {
	for i := range w.colls {
		for j := range w.colls[i].objs {
			if w.colls[i].objs[j].path == p {
				return &w.colls[i].objs[j]
			}
		}
	}
	return nil
}

var notFound = webdav.NewHTTPError(http.StatusNotFound, fmt.Errorf("not found"))

var modTime = time.Date(2020, 1, 2, 3, 4, 5, 0, time.UTC)

func testCalendar() *ical.Calendar {
	ev := ical.NewEvent()
	ev.Props.SetText(ical.PropUID, "uid-1")
	ev.Props.SetDateTime(ical.PropDateTimeStamp, modTime)
	ev.Props.SetDateTime(ical.PropDateTimeStart, modTime)
	cal := ical.NewCalendar()
	cal.Props.SetText(ical.PropVersion, "2.0")
	cal.Props.SetText(ical.PropProductID, "-//verif//EN")
	cal.Children = append(cal.Children, ev.Component)
	return cal
}

func testCard() vcard.Card {
	c := make(vcard.Card)
	c.SetValue(vcard.FieldVersion, "4.0")
	c.SetValue(vcard.FieldFormattedName, "A B")
	c.SetValue(vcard.FieldUID, "uid-1")
	return c
}

// A request may carry its user in its context (a multi-user backend behind ONE
// shared Handler): the user's world and the recorder of that request.
type userKey struct{}
type userCtx struct {
	w *world
	r *recorder
}

func withUser(ctx context.Context, w *world, r *recorder) context.Context {
	return context.WithValue(ctx, userKey{}, &userCtx{w, r})
}

func (b *calBackend) world(ctx context.Context) *world {
	if u, ok := ctx.Value(userKey{}).(*userCtx); ok {
		return u.w
	}
	return b.w
}
func (b *calBackend) recd(ctx context.Context) *recorder {
	if u, ok := ctx.Value(userKey{}).(*userCtx); ok {
		return u.r
	}
	return b.r
}
func (b *cardBackend) world(ctx context.Context) *world {
	if u, ok := ctx.Value(userKey{}).(*userCtx); ok {
		return u.w
	}
	return b.w
}
func (b *cardBackend) recd(ctx context.Context) *recorder {
	if u, ok := ctx.Value(userKey{}).(*userCtx); ok {
		return u.r
	}
	return b.r
}

// calBackend implements caldav.Backend.
type calBackend struct {
	w *world
	r *recorder
}

func (b *calBackend) CurrentUserPrincipal(ctx context.Context) (string, error) {
	b.recd(ctx).rec("pr", "")
	return b.world(ctx).principal, nil
}
func (b *calBackend) CalendarHomeSetPath(ctx context.Context) (string, error) {
	b.recd(ctx).rec("hs", "")
	return b.world(ctx).home, nil
}
func (b *calBackend) calendar(c *collection) caldav.Calendar {
	out := caldav.Calendar{Path: c.path}
	if c.n {
		out.Name = "name"
	}
	if c.d {
		out.Description = "description"
	}
	if c.m {
		out.MaxResourceSize = 1000
	}
	return out
}
func (b *calBackend) calObject(o *object) caldav.CalendarObject {
	out := caldav.CalendarObject{Path: o.path, Data: testCalendar()}
	if o.l {
		out.ContentLength = 42
	}
	if o.t {
		out.ModTime = modTime
	}
	if o.e {
		out.ETag = "etag"
	}
	return out
}
func (b *calBackend) CreateCalendar(ctx context.Context, c *caldav.Calendar) error {
	b.recd(ctx).rec("cc", c.Path)
	return nil
}
func (b *calBackend) ListCalendars(ctx context.Context) ([]caldav.Calendar, error) {
	b.recd(ctx).rec("lc", "")
	var l []caldav.Calendar
	for i := range b.world(ctx).colls {
		l = append(l, b.calendar(&b.world(ctx).colls[i]))
	}
	return l, nil
}
func (b *calBackend) GetCalendar(ctx context.Context, p string) (*caldav.Calendar, error) {
	b.recd(ctx).rec("gc", p)
	if c := b.world(ctx).findColl(p); c != nil {
		cal := b.calendar(c)
		return &cal, nil
	}
	return nil, notFound
}
func (b *calBackend) GetCalendarObject(ctx context.Context, p string, req *caldav.CalendarCompRequest) (*caldav.CalendarObject, error) {
	b.recd(ctx).rec("go", p)
	if o := b.world(ctx).findObj(p); o != nil {
		co := b.calObject(o)
		return &co, nil
	}
	return nil, notFound
}
func (b *calBackend) ListCalendarObjects(ctx context.Context, p string, req *caldav.CalendarCompRequest) ([]caldav.CalendarObject, error) {
	b.recd(ctx).rec("lo", p)
	var l []caldav.CalendarObject
	if c := b.world(ctx).findColl(p); c != nil {
		for i := range c.objs {
			l = append(l, b.calObject(&c.objs[i]))
		}
	}
	return l, nil
}
func (b *calBackend) QueryCalendarObjects(ctx context.Context, p string, q *caldav.CalendarQuery) ([]caldav.CalendarObject, error) {
	b.recd(ctx).rec("qo", p)
	return nil, nil
}
func (b *calBackend) PutCalendarObject(ctx context.Context, p string, cal *ical.Calendar, opts *caldav.PutCalendarObjectOptions) (*caldav.CalendarObject, error) {
	b.recd(ctx).rec("po", p)
	return &caldav.CalendarObject{Path: p}, nil
}
func (b *calBackend) DeleteCalendarObject(ctx context.Context, p string) error {
	b.recd(ctx).rec("do", p)
	return nil
}

// cardBackend implements carddav.Backend.
type cardBackend struct {
	w *world
	r *recorder
}

func (b *cardBackend) CurrentUserPrincipal(ctx context.Context) (string, error) {
	b.recd(ctx).rec("pr", "")
	return b.world(ctx).principal, nil
}
func (b *cardBackend) AddressBookHomeSetPath(ctx context.Context) (string, error) {
	b.recd(ctx).rec("hs", "")
	return b.world(ctx).home, nil
}
func (b *cardBackend) book(c *collection) carddav.AddressBook {
	out := carddav.AddressBook{Path: c.path}
	if c.n {
		out.Name = "name"
	}
	if c.d {
		out.Description = "description"
	}
	if c.m {
		out.MaxResourceSize = 1000
	}
	return out
}
func (b *cardBackend) cardObject(o *object) carddav.AddressObject {
	out := carddav.AddressObject{Path: o.path, Card: testCard()}
	if o.l {
		out.ContentLength = 42
	}
	if o.t {
		out.ModTime = modTime
	}
	if o.e {
		out.ETag = "etag"
	}
	return out
}
func (b *cardBackend) ListAddressBooks(ctx context.Context) ([]carddav.AddressBook, error) {
	b.recd(ctx).rec("lc", "")
	var l []carddav.AddressBook
	for i := range b.world(ctx).colls {
		l = append(l, b.book(&b.world(ctx).colls[i]))
	}
	return l, nil
}
func (b *cardBackend) GetAddressBook(ctx context.Context, p string) (*carddav.AddressBook, error) {
	b.recd(ctx).rec("gc", p)
	if c := b.world(ctx).findColl(p); c != nil {
		ab := b.book(c)
		return &ab, nil
	}
	return nil, notFound
}
func (b *cardBackend) CreateAddressBook(ctx context.Context, ab *carddav.AddressBook) error {
	b.recd(ctx).rec("cc", ab.Path)
	return nil
}
func (b *cardBackend) DeleteAddressBook(ctx context.Context, p string) error {
	b.recd(ctx).rec("dc", p)
	return nil
}
func (b *cardBackend) GetAddressObject(ctx context.Context, p string, req *carddav.AddressDataRequest) (*carddav.AddressObject, error) {
	b.recd(ctx).rec("go", p)
	if o := b.world(ctx).findObj(p); o != nil {
		ao := b.cardObject(o)
		return &ao, nil
	}
	return nil, notFound
}
func (b *cardBackend) ListAddressObjects(ctx context.Context, p string, req *carddav.AddressDataRequest) ([]carddav.AddressObject, error) {
	b.recd(ctx).rec("lo", p)
	var l []carddav.AddressObject
	if c := b.world(ctx).findColl(p); c != nil {
		for i := range c.objs {
			l = append(l, b.cardObject(&c.objs[i]))
		}
	}
	return l, nil
}
func (b *cardBackend) QueryAddressObjects(ctx context.Context, p string, q *carddav.AddressBookQuery) ([]carddav.AddressObject, error) {
	b.recd(ctx).rec("qo", p)
	return nil, nil
}
func (b *cardBackend) PutAddressObject(ctx context.Context, p string, card vcard.Card, opts *carddav.PutAddressObjectOptions) (*carddav.AddressObject, error) {
	b.recd(ctx).rec("po", p)
	return &carddav.AddressObject{Path: p}, nil
}
func (b *cardBackend) DeleteAddressObject(ctx context.Context, p string) error {
	b.recd(ctx).rec("do", p)
	return nil
}

func handler(srv, hprefix string, w *world, r *recorder) http.Handler {
	if srv == "cal" {
		return &caldav.Handler{Backend: &calBackend{w, r}, Prefix: hprefix}
	}
	return &carddav.Handler{Backend: &cardBackend{w, r}, Prefix: hprefix}
}

// ---------------------------------------------------------------- S-expressions

func worldSx(w *world) string {
	items := []string{"backend", hx.S(w.principal), hx.S(w.home)}
	for _, c := range w.colls {
		ci := []string{"coll", hx.S(c.path), hx.B(c.n), hx.B(c.d), hx.B(c.m)}
		for _, o := range c.objs {
			ci = append(ci, hx.L("obj", hx.S(o.path), hx.B(o.l), hx.B(o.t), hx.B(o.e)))
		}
		items = append(items, hx.L(ci...))
	}
	return hx.L(items...)
}

func parseWorld(x hx.Sx) *world {
	a := x.Args()
	w := &world{principal: a[0].Str(), home: a[1].Str()}
	for _, cx := range a[2:] {
		ca := cx.Args()
		c := collection{path: ca[0].Str(), n: ca[1].Bool(), d: ca[2].Bool(), m: ca[3].Bool()}
		for _, ox := range ca[4:] {
			oa := ox.Args()
			c.objs = append(c.objs, object{path: oa[0].Str(), l: oa[1].Bool(), t: oa[2].Bool(), e: oa[3].Bool()})
		}
		w.colls = append(w.colls, c)
	}
	return w
}

type request struct {
	method, path, depth string
	variant             string   // good alt bad mg
	hrefs               []string // for mg
	dl                  string   // "" exact | unknown | nobody | chunked
}

func reqSx(q request) string {
	v := q.variant
	if v == "mg" {
		items := []string{"mg"}
		for _, h := range q.hrefs {
			items = append(items, hx.S(h))
		}
		v = hx.L(items...)
	}
	if q.dl != "" && q.dl != "exact" {
		return hx.L("req", q.method, hx.S(q.path), q.depth, v, q.dl)
	}
	return hx.L("req", q.method, hx.S(q.path), q.depth, v)
}

func parseReq(x hx.Sx) request {
	a := x.Args()
	q := request{method: a[0].Atom, path: a[1].Str(), depth: a[2].Atom}
	if a[3].IsList {
		q.variant = "mg"
		for _, h := range a[3].Args() {
			q.hrefs = append(q.hrefs, h.Str())
		}
	} else {
		q.variant = a[3].Atom
	}
	if len(a) > 4 {
		q.dl = a[4].Atom
	}
	return q
}

func strList(l []string) string {
	items := make([]string, len(l))
	for i, s := range l {
		items[i] = hx.S(s)
	}
	return hx.L(items...)
}

// ---------------------------------------------------------------- requests

const (
	nsCal  = "urn:ietf:params:xml:ns:caldav"
	nsCard = "urn:ietf:params:xml:ns:carddav"
)

func escaped(p string) string { return (&url.URL{Path: p}).EscapedPath() }

func icalText() string {
	var sb strings.Builder
	ical.NewEncoder(&sb).Encode(testCalendar())
	return sb.String()
}

func vcardText() string {
	var sb strings.Builder
	vcard.NewEncoder(&sb).Encode(testCard())
	return sb.String()
}

// build makes the HTTP request for q; the target goes through http.ReadRequest
// (httptest.NewRequest), so net/http's own decoding of the path is in the loop.
func build(srv string, q request) *http.Request {
	ns, collType, ctype, body := nsCal, "calendar", ical.MIMEType, ""
	if srv == "card" {
		ns, collType, ctype = nsCard, "addressbook", vcard.MIMEType
	}
	hdr := map[string]string{}
	method := q.method
	switch q.method {
	case "PROPFIND":
		body = `<?xml version="1.0"?><D:propfind xmlns:D="DAV:"><D:prop><D:resourcetype/></D:prop></D:propfind>`
		hdr["Content-Type"] = "application/xml"
		hdr["Depth"] = map[string]string{"0": "0", "1": "1", "inf": "infinity"}[q.depth]
	case "PUT":
		if srv == "cal" {
			body = icalText()
		} else {
			body = vcardText()
		}
		hdr["Content-Type"] = ctype
		if q.variant == "bad" {
			hdr["Content-Type"] = "text/plain"
		}
	case "MKCOL":
		switch q.variant {
		case "alt":
			body = `<D:mkcol xmlns:D="DAV:" xmlns:C="` + ns + `"><D:set><D:prop><D:resourcetype><D:collection/><C:` + collType + `/></D:resourcetype><D:displayname>n</D:displayname></D:prop></D:set></D:mkcol>`
			hdr["Content-Type"] = "application/xml"
		case "bad":
			body = `<D:mkcol xmlns:D="DAV:"><D:set><D:prop><D:resourcetype><D:collection/></D:resourcetype></D:prop></D:set></D:mkcol>`
			hdr["Content-Type"] = "application/xml"
		}
	case "REPORT":
		hdr["Content-Type"] = "application/xml"
		switch q.variant {
		case "good":
			if srv == "cal" {
				body = `<C:calendar-query xmlns:D="DAV:" xmlns:C="` + ns + `"><D:prop><D:getetag/></D:prop><C:filter><C:comp-filter name="VCALENDAR"/></C:filter></C:calendar-query>`
			} else {
				body = `<C:addressbook-query xmlns:D="DAV:" xmlns:C="` + ns + `"><D:prop><D:getetag/></D:prop><C:filter><C:prop-filter name="FN"/></C:filter></C:addressbook-query>`
			}
		case "mg":
			root := "calendar-multiget"
			if srv == "card" {
				root = "addressbook-multiget"
			}
			var sb strings.Builder
			sb.WriteString(`<C:` + root + ` xmlns:D="DAV:" xmlns:C="` + ns + `"><D:prop><D:getetag/></D:prop>`)
			for _, h := range q.hrefs {
				sb.WriteString("<D:href>")
				xml.EscapeText(&sb, []byte(escaped(h)))
				sb.WriteString("</D:href>")
			}
			sb.WriteString(`</C:` + root + `>`)
			body = sb.String()
		default:
			body = `<D:foo xmlns:D="DAV:"/>`
		}
	case "PROPPATCH":
		hdr["Content-Type"] = "application/xml"
		body = `<D:propertyupdate xmlns:D="DAV:"><D:set><D:prop><D:displayname>x</D:displayname></D:prop></D:set></D:propertyupdate>`
	case "COPY", "MOVE":
		hdr["Destination"] = "/elsewhere"
	case "OTHER":
		method = "FOO"
	}
	var rd io.Reader
	if body != "" {
		rd = strings.NewReader(body)
	}
	req := httptest.NewRequest(method, "http://example.org"+escaped(q.path), rd)
	for k, v := range hdr {
		req.Header.Set(k, v)
	}
	switch q.dl {
	case "unknown":
		// ContentLength -1 and a reader of undisclosed type, as net/http hands over a chunked body
		req.Body = io.NopCloser(struct{ io.Reader }{strings.NewReader(body)})
		req.ContentLength = -1
		req.TransferEncoding = []string{"chunked"}
	case "nobody":
		if body == "" {
			req.Body = http.NoBody
			req.ContentLength = 0
		}
	}
	return req
}

// serveChunked sends the request built by build over TCP to a real server with
// Transfer-Encoding: chunked (an empty body is the terminating chunk alone).
func serveChunked(h http.Handler, req *http.Request) (code int, header http.Header, data []byte, ok bool) {
	body, _ := io.ReadAll(req.Body)
	return hx.ChunkedDo(h, req.Method, escaped(req.URL.Path), req.Header, string(body))
}

type msHrefs struct {
	XMLName   xml.Name `xml:"DAV: multistatus"`
	Responses []struct {
		Hrefs []string `xml:"DAV: href"`
	} `xml:"DAV: response"`
}

func hrefPath(h string) string {
	u, err := url.Parse(h)
	if err != nil {
		return "!unparsable:" + h
	}
	return u.Path
}

func execServe(x hx.Sx) (obs string) {
	a := x.Args()
	srv, hprefix, w, q := a[0].Atom, a[1].Str(), parseWorld(a[2]), parseReq(a[3])
	rec := &recorder{}
	return serveOne(handler(srv, hprefix, w, rec), srv, q, rec, nil)
}

// serveOne serves q by h and reduces the answer; with user != nil the request
// carries that user (world + recorder) in its context.
func serveOne(h http.Handler, srv string, q request, rec *recorder, user *world) (obs string) {
	defer func() {
		if r := recover(); r != nil {
			obs = hx.L("panic", hx.L(append([]string{"trace"}, rec.calls...)...))
		}
	}()
	req := build(srv, q)
	if req.URL.Path != q.path {
		return hx.L("harness-path-mismatch", hx.S(req.URL.Path))
	}
	if user != nil {
		req = req.WithContext(withUser(req.Context(), user, rec))
	}
	var code int
	var header http.Header
	var data []byte
	if q.dl == "chunked" {
		var ok bool
		hh := h
		if user != nil {
			hh = http.HandlerFunc(func(w http.ResponseWriter, r *http.Request) {
				h.ServeHTTP(w, r.WithContext(withUser(r.Context(), user, rec)))
			})
		}
		if code, header, data, ok = serveChunked(hh, req); !ok {
			return hx.L("harness-chunked-failed")
		}
	} else {
		rr := httptest.NewRecorder()
		h.ServeHTTP(rr, req)
		code, header, data = rr.Code, rr.Header(), rr.Body.Bytes()
	}
	var hrefs []string
	extra := ""
	switch {
	case code == http.StatusMultiStatus:
		var ms msHrefs
		if err := xml.Unmarshal(data, &ms); err != nil {
			hrefs = append(hrefs, "!undecodable body")
		}
		for _, r := range ms.Responses {
			if len(r.Hrefs) != 1 {
				hrefs = append(hrefs, fmt.Sprintf("!%d hrefs", len(r.Hrefs)))
			}
			for _, h := range r.Hrefs {
				hrefs = append(hrefs, hrefPath(h))
			}
		}
	case code == http.StatusPermanentRedirect:
		extra = hrefPath(header.Get("Location"))
	case req.Method == http.MethodOptions:
		extra = header.Get("Allow")
	}
	return hx.L("obs", hx.L(append([]string{"trace"}, rec.calls...)...), hx.I(int64(code)),
		hx.L(append([]string{"hrefs"}, mapS(hrefs)...)...), hx.S(extra))
}

// sharedHandler: ONE Handler for all users; the doubles take the user from the context
func sharedHandler(srv, hprefix string) http.Handler {
	return handler(srv, hprefix, &world{}, &recorder{})
}

// execHist serves the steps one after the other by one shared Handler and
// reports the observation of the last one.
func execHist(x hx.Sx) (obs string) {
	a := x.Args()
	srv, hprefix := a[0].Atom, a[1].Str()
	h := sharedHandler(srv, hprefix)
	for _, st := range a[2:] {
		sa := st.Args()
		obs = serveOne(h, srv, parseReq(sa[1]), &recorder{}, parseWorld(sa[0]))
	}
	return obs
}

// execPar serves the step while requests of other users overlap on the same Handler.
func execPar(x hx.Sx) (obs string) {
	a := x.Args()
	srv, hprefix := a[0].Atom, a[1].Str()
	sa := a[2].Args()
	w, q := parseWorld(sa[0]), parseReq(sa[1])
	h := sharedHandler(srv, hprefix)
	others := []*world{
		{principal: "/zz-other-1/", home: "/zz-other-1/h/"},
		{principal: w.principal + "x/", home: w.home + "x/"},
		{principal: "/", home: "/h"},
	}
	var wg sync.WaitGroup
	stop := make(chan struct{})
	for _, o := range others {
		wg.Add(1)
		go func(o *world) {
			defer wg.Done()
			for i := 0; ; i++ {
				select {
				case <-stop:
					return
				default:
				}
				oq := request{method: "PROPFIND", path: []string{o.principal, "/", o.home, w.principal}[i%4], depth: "0", variant: "good"}
				serveOne(h, srv, oq, &recorder{}, o)
			}
		}(o)
	}
	for i := 0; i < 3; i++ {
		obs = serveOne(h, srv, q, &recorder{}, w)
	}
	close(stop)
	wg.Wait()
	return obs
}

func mapS(l []string) []string {
	out := make([]string, len(l))
	for i, s := range l {
		out[i] = hx.S(s)
	}
	return out
}

// ---------------------------------------------------------------- discovery through the real clients

func execDisc(x hx.Sx) (obs string) {
	a := x.Args()
	srv, hprefix, w, start := a[0].Atom, a[1].Str(), parseWorld(a[2]), a[3].Str()
	defer func() {
		if r := recover(); r != nil {
			obs = hx.L("panic")
		}
	}()
	ts := httptest.NewServer(handler(srv, hprefix, w, &recorder{}))
	defer ts.Close()
	return discOne(ts.URL, ts.Client(), srv, start)
}

// userClient marks every request with the index of its user
type userClient struct {
	c   *http.Client
	idx int
}

func (u *userClient) Do(req *http.Request) (*http.Response, error) {
	req.Header.Set("X-Verif-User", fmt.Sprint(u.idx))
	return u.c.Do(req)
}

// execDhist: the users run their discovery chains one after the other against
// ONE server with ONE shared Handler; the result of the last chain is reported.
func execDhist(x hx.Sx) (obs string) {
	a := x.Args()
	srv, hprefix := a[0].Atom, a[1].Str()
	defer func() {
		if r := recover(); r != nil {
			obs = hx.L("panic")
		}
	}()
	var worlds []*world
	for _, st := range a[2:] {
		worlds = append(worlds, parseWorld(st.Args()[0]))
	}
	h := sharedHandler(srv, hprefix)
	ts := httptest.NewServer(http.HandlerFunc(func(w http.ResponseWriter, r *http.Request) {
		var i int
		fmt.Sscan(r.Header.Get("X-Verif-User"), &i)
		h.ServeHTTP(w, r.WithContext(withUser(r.Context(), worlds[i], &recorder{})))
	}))
	defer ts.Close()
	for i, st := range a[2:] {
		obs = discOne(ts.URL, &userClient{ts.Client(), i}, srv, st.Args()[1].Str())
	}
	return obs
}

func discOne(base string, hc webdav.HTTPClient, srv, start string) (obs string) {
	ctx, cancel := context.WithTimeout(context.Background(), 20*time.Second)
	defer cancel()
	endpoint := base + escaped(start)
	var principal, home string
	var colls, objs []string
	var wc *webdav.Client
	if srv == "cal" {
		c, err := caldav.NewClient(hc, endpoint)
		if err != nil {
			return hx.L("fail", "client")
		}
		wc = c.Client
		if principal, err = c.FindCurrentUserPrincipal(ctx); err != nil {
			return hx.L("fail", "principal")
		}
		if home, err = c.FindCalendarHomeSet(ctx, principal); err != nil {
			return hx.L("fail", "home")
		}
		cals, err := c.FindCalendars(ctx, home)
		if err != nil {
			return hx.L("fail", "collections")
		}
		for _, cal := range cals {
			colls = append(colls, cal.Path)
		}
	} else {
		c, err := carddav.NewClient(hc, endpoint)
		if err != nil {
			return hx.L("fail", "client")
		}
		wc = c.Client
		if principal, err = c.FindCurrentUserPrincipal(ctx); err != nil {
			return hx.L("fail", "principal")
		}
		if home, err = c.FindAddressBookHomeSet(ctx, principal); err != nil {
			return hx.L("fail", "home")
		}
		abs, err := c.FindAddressBooks(ctx, home)
		if err != nil {
			return hx.L("fail", "collections")
		}
		for _, ab := range abs {
			colls = append(colls, ab.Path)
		}
	}
	// objects: the PROPFIND Depth 1 listing of every discovered collection
	for _, cp := range colls {
		fis, err := wc.ReadDir(ctx, cp, false)
		if err != nil {
			return hx.L("fail", "objects")
		}
		for _, fi := range fis {
			if !fi.IsDir {
				objs = append(objs, fi.Path)
			}
		}
	}
	return hx.L("found", hx.S(principal), hx.S(home), strList(colls), strList(objs))
}

// ---------------------------------------------------------------- Go runtime functions

func execStr(x hx.Sx) string {
	a := x.Args()
	switch x.Head() {
	case "clean":
		return hx.L(hx.S(path.Clean(a[0].Str())))
	case "split":
		return hx.L(strList(strings.Split(a[0].Str(), "/")))
	case "trimslash":
		return hx.L(hx.S(strings.TrimSuffix(a[0].Str(), "/")))
	case "hasprefix":
		return hx.L(hx.B(strings.HasPrefix(a[0].Str(), a[1].Str())))
	case "trimprefix":
		return hx.L(hx.S(strings.TrimPrefix(a[0].Str(), a[1].Str())))
	case "rtype":
		if a[0].Atom == "cal" {
			return hx.L(hx.I(int64(caldav.VerifResourceTypeAtPath(a[1].Str(), a[2].Str()))))
		}
		return hx.L(hx.I(int64(carddav.VerifResourceTypeAtPath(a[1].Str(), a[2].Str()))))
	}
	panic("c12: unknown case " + x.Head())
}

func exec(in string) (line string) {
	x := hx.MustParse(in)[0]
	// every call into /repo runs under recover in the goroutine that makes it
	defer func() {
		if r := recover(); r != nil {
			line = in + " " + hx.L("panic")
		}
	}()
	switch x.Head() {
	case "serve":
		return in + " " + execServe(x)
	case "disc":
		return in + " " + execDisc(x)
	case "hist":
		return in + " " + execHist(x)
	case "dhist":
		return in + " " + execDhist(x)
	case "par":
		return in + " " + execPar(x)
	default:
		return in + " " + execStr(x)
	}
}

// ---------------------------------------------------------------- generators

func allStrings(alphabet string, maxLen int, f func(string)) {
	var rec func(prefix []byte)
	rec = func(prefix []byte) {
		f(string(prefix))
		if len(prefix) == maxLen {
			return
		}
		for i := 0; i < len(alphabet); i++ {
			rec(append(prefix, alphabet[i]))
		}
	}
	rec(nil)
}

func genStrings(emit func(string)) {
	maxLen, rtLen := 8, 7
	if hx.Tier() == "thorough" {
		maxLen, rtLen = 10, 9
	}
	var short []string
	allStrings("/.a", 3, func(s string) { short = append(short, s) })
	allStrings("/.a", maxLen, func(s string) {
		emit(hx.L("clean", hx.S(s)))
		if len(s) <= 7 {
			emit(hx.L("split", hx.S(s)))
			emit(hx.L("trimslash", hx.S(s)))
		}
		if len(s) <= 5 {
			for _, p := range short {
				emit(hx.L("hasprefix", hx.S(s), hx.S(p)))
				emit(hx.L("trimprefix", hx.S(s), hx.S(p)))
			}
		}
		if len(s) <= rtLen {
			for _, p := range []string{"", "/a", "/a/a", "/.a", "/a.", "a", "/a/"} {
				emit(hx.L("rtype", "cal", hx.S(p), hx.S(s)))
				emit(hx.L("rtype", "card", hx.S(p), hx.S(s)))
			}
		}
	})
	// other bytes: percent signs, spaces, non-ASCII, dots inside names
	rng := hx.NewRand(hx.Seed())
	pieces := []string{"/", "/", ".", "..", "a", "a b", "%41", "é", "x.y", "..x", "%2F", "\\", "?", "#"}
	n := 20000
	if hx.Tier() == "thorough" {
		n = 200000
	}
	for i := 0; i < n; i++ {
		var sb strings.Builder
		for k := rng.Intn(9); k > 0; k-- {
			sb.WriteString(rng.Pick(pieces))
		}
		s := sb.String()
		emit(hx.L("clean", hx.S(s)))
		emit(hx.L("split", hx.S(s)))
		emit(hx.L("trimslash", hx.S(s)))
		var pb strings.Builder
		for k := rng.Intn(4); k > 0; k-- {
			pb.WriteString(rng.Pick(pieces))
		}
		emit(hx.L("trimprefix", hx.S(s), hx.S(pb.String())))
		emit(hx.L("rtype", rng.Pick([]string{"cal", "card"}), hx.S(pb.String()), hx.S(s)))
	}
}

var oddSegs = []string{"dav", "a b", "%41", "é", "x.y", "..x"}

func join(segs []string) string {
	var sb strings.Builder
	for _, s := range segs {
		sb.WriteString("/")
		sb.WriteString(s)
	}
	return sb.String()
}

func tslash(b bool) string {
	if b {
		return "/"
	}
	return ""
}

func reqPath(ps, rs []string, trailing bool) string {
	all := append(append([]string{}, ps...), rs...)
	if len(all) == 0 {
		return "/"
	}
	return join(all) + tslash(trailing)
}

// prefixes: every sequence of 0..maxLen segments from oddSegs
func prefixes(maxLen int) [][]string {
	out := [][]string{{}}
	cur := [][]string{{}}
	for l := 1; l <= maxLen; l++ {
		var next [][]string
		for _, p := range cur {
			for _, s := range oddSegs {
				next = append(next, append(append([]string{}, p...), s))
			}
		}
		out = append(out, next...)
		cur = next
	}
	return out
}

// mkWorld places a layout under the prefix ps: user segment u, home segment h,
// collection names cs with object names os; trailing slashes as the flags say.
func mkWorld(ps []string, u, h string, cs, os []string, collSlash bool, flags int) *world {
	w := &world{principal: join(append(append([]string{}, ps...), u)) + "/"}
	w.home = join(append(append([]string{}, ps...), u, h)) + "/"
	for i, c := range cs {
		cp := join(append(append([]string{}, ps...), u, h, c))
		col := collection{path: cp + tslash(collSlash), n: (flags+i)&1 != 0, d: (flags+i)&2 != 0, m: (flags+i)&4 != 0}
		for j, o := range os {
			col.objs = append(col.objs, object{path: cp + "/" + o, l: (flags+i+j)&1 == 0, t: (flags+j)&2 != 0, e: (flags+i+j)&4 != 0})
		}
		w.colls = append(w.colls, col)
	}
	return w
}

type reqKind struct{ method, depth, variant, dl string }

var reqKinds = []reqKind{
	{"OPTIONS", "0", "good", ""}, {"GET", "0", "good", ""}, {"HEAD", "0", "good", ""},
	{"PUT", "0", "good", ""}, {"PUT", "0", "bad", ""}, {"DELETE", "0", "good", ""},
	{"PROPFIND", "0", "good", ""}, {"PROPFIND", "1", "good", ""}, {"PROPFIND", "inf", "good", ""},
	{"PROPPATCH", "0", "good", ""},
	{"MKCOL", "0", "good", ""}, {"MKCOL", "0", "alt", ""}, {"MKCOL", "0", "bad", ""},
	{"COPY", "0", "good", ""}, {"MOVE", "0", "good", ""},
	{"REPORT", "0", "good", ""}, {"REPORT", "0", "mg", ""}, {"REPORT", "0", "bad", ""},
	{"OTHER", "0", "good", ""},
	// how the body, or its absence, reaches the handler: a bodiless MKCOL is a bodiless
	// MKCOL and a PROPFIND / REPORT body is read to its end, however net/http delivers it
	{"MKCOL", "0", "good", "unknown"}, {"MKCOL", "0", "good", "nobody"}, {"MKCOL", "0", "good", "chunked"},
	{"MKCOL", "0", "alt", "unknown"}, {"MKCOL", "0", "alt", "chunked"}, {"MKCOL", "0", "bad", "chunked"},
	{"PROPFIND", "1", "good", "unknown"}, {"PROPFIND", "inf", "good", "chunked"},
	{"REPORT", "0", "mg", "chunked"}, {"REPORT", "0", "good", "unknown"},
	{"PUT", "0", "good", "chunked"}, {"DELETE", "0", "good", "chunked"},
}

const plainKinds = 19 // the request kinds without a delivery form

func layoutSx(ps []string, pt bool, rs []string, rt bool) string {
	return hx.L("layout", strList(ps), hx.B(pt), strList(rs), hx.B(rt))
}

func genServe(emit func(string)) {
	rng := hx.NewRand(hx.Seed())
	thorough := hx.Tier() == "thorough"
	pfx := prefixes(2)
	three := prefixes(3)[len(pfx):]
	if thorough {
		pfx = append(pfx, three...)
	} else {
		for i := 0; i < 24; i++ {
			pfx = append(pfx, three[rng.Intn(len(three))])
		}
	}
	type names struct {
		u, h   string
		cs, os []string
	}
	layouts := []names{
		{"u", "h", []string{"c1", "c2"}, []string{"o1.ics", "o2"}},
		{"a b", "é", []string{"%41", "x.y"}, []string{"..x", "o#1?"}},
	}
	for pi, ps := range pfx {
		for _, pt := range []bool{false, true} {
			hprefix := join(ps) + tslash(pt)
			for li, nm := range layouts {
				if !thorough && len(ps) == 3 && li != pi%2 {
					continue
				}
				for _, srv := range []string{"cal", "card"} {
					w := mkWorld(ps, nm.u, nm.h, nm.cs, nm.os, (pi+li)%2 == 0, pi+li)
					wsx := worldSx(w)
					// the rest segments addressed at each depth: own resources, foreign and missing ones, one deeper
					rests := [][]string{
						{},
						{nm.u}, {"other"},
						{nm.u, nm.h}, {nm.u, "elsewhere"}, {"other", nm.h},
						{nm.u, nm.h, nm.cs[0]}, {nm.u, nm.h, "missing"},
						{nm.u, nm.h, nm.cs[1], nm.os[0]}, {nm.u, nm.h, nm.cs[0], "missing"},
						{nm.u, nm.h, nm.cs[0], nm.os[0], "deeper"},
					}
					for _, rs := range rests {
						for _, rt := range []bool{false, true} {
							p := reqPath(ps, rs, rt)
							for ki, k := range reqKinds {
								if !thorough && ki >= plainKinds && ((pi+li+ki)%4 != 0 || (k.dl == "chunked" && (pi+li+ki)%12 != 0)) {
									continue // a real server per chunked request is costly: volume in the thorough tier
								}
								q := request{method: k.method, path: p, depth: k.depth, variant: k.variant, dl: k.dl}
								if k.variant == "mg" {
									q.hrefs = []string{w.colls[0].objs[0].path, w.colls[1].path + "/nothing"}
								}
								emit(hx.L("serve", srv, hx.S(hprefix), wsx, reqSx(q), layoutSx(ps, pt, rs, rt)))
							}
						}
					}
				}
			}
		}
	}
	// foreign principals and home sets whose names are the user's plus or minus one
	// character (any byte, slash lookalikes included), both slash spellings of the
	// stored path and of the request: a name one character apart is another resource
	near := func(n string) []string {
		out := []string{n + "2", n + "x", n + " ", n + ".", n + "%2F", n + "\\", n + "\u2215", n + "\x01", n + n[len(n)-1:], "2" + n}
		if len(n) > 1 {
			out = append(out, n[:len(n)-1], n[1:])
		}
		return out
	}
	nearPfx := prefixes(1)
	if thorough {
		nearPfx = prefixes(2)
	}
	for _, ps := range nearPfx {
		for _, pt := range []bool{false, true} {
			hprefix := join(ps) + tslash(pt)
			for li, nm := range layouts {
				for _, srv := range []string{"cal", "card"} {
					for sp := 0; sp < 4; sp++ {
						w := mkWorld(ps, nm.u, nm.h, nm.cs, nm.os, sp%2 == 0, li+sp)
						if sp&1 != 0 {
							w.principal = strings.TrimSuffix(w.principal, "/")
						}
						if sp&2 != 0 {
							w.home = strings.TrimSuffix(w.home, "/")
						}
						wsx := worldSx(w)
						var rests [][]string
						for _, u2 := range near(nm.u) {
							rests = append(rests, []string{u2}, []string{u2, nm.h})
						}
						for _, h2 := range near(nm.h) {
							rests = append(rests, []string{nm.u, h2})
						}
						rests = append(rests, []string{nm.u}, []string{nm.u, nm.h})
						for _, rs := range rests {
							for _, rt := range []bool{false, true} {
								for _, k := range []reqKind{{"PROPFIND", "0", "good", ""}, {"PROPFIND", "1", "good", ""}, {"PROPFIND", "inf", "good", ""}, {"MKCOL", "0", "good", ""}, {"DELETE", "0", "good", ""}} {
									q := request{method: k.method, path: reqPath(ps, rs, rt), depth: k.depth, variant: k.variant}
									emit(hx.L("serve", srv, hx.S(hprefix), wsx, reqSx(q), layoutSx(ps, pt, rs, rt)))
								}
							}
						}
					}
				}
			}
		}
	}
	// the /.well-known redirect, and paths outside the quantifier (model faithfulness only)
	for _, srv := range []string{"cal", "card"} {
		for _, ps := range [][]string{{}, {"dav"}, {"%41", "é"}, {"a b"}} {
			w := mkWorld(ps, "u?#", "h", []string{"c1"}, []string{"o1"}, false, 1)
			wsx := worldSx(w)
			for _, pt := range []bool{false, true} {
				hprefix := join(ps) + tslash(pt)
				for _, k := range reqKinds {
					for _, p := range []string{"/.well-known/caldav", "/.well-known/carddav", "/.well-known/caldav/", "/.well-known"} {
						q := request{method: k.method, path: p, depth: k.depth, variant: k.variant, dl: k.dl}
						if k.variant == "mg" {
							q.hrefs = []string{w.colls[0].objs[0].path}
						}
						emit(hx.L("serve", srv, hx.S(hprefix), wsx, reqSx(q), hx.L("nolayout")))
					}
				}
			}
		}
		w := mkWorld([]string{"dav"}, "u", "h", []string{"c1"}, []string{"o1"}, false, 0)
		wsx := worldSx(w)
		odd := []string{"/davx/u", "/da", "/dav/./u/", "/dav/u/../u/h", "/dav//u", "/dav/u//h/c1", "/dav/u/h/c1/o1/.", "/x/dav/u", "/dav/u/h/c1/../../../..", "/DAV/u/"}
		odd = append(odd, "/dav", "/dav/", "/dav/u/", "/dav/u/h/", "/dav/u/h/c1", "/dav/u/h/c1/o1")
		for _, hprefix := range []string{"/dav", "/dav/", "/dav//", "dav", "/dav/u", "/dav/./", "/./dav", "//dav", "/dav/../dav", "/DAV", "/dav/.", "/"} {
			for _, p := range odd {
				for _, k := range reqKinds {
					q := request{method: k.method, path: p, depth: k.depth, variant: k.variant, dl: k.dl}
					if k.variant == "mg" {
						q.hrefs = []string{"/dav/u/h/c1/o1"}
					}
					emit(hx.L("serve", srv, hx.S(hprefix), wsx, reqSx(q), hx.L("nolayout")))
				}
			}
		}
	}
	// random layouts: random segment bytes, 0-3 collections x 0-3 objects, duplicates now and then
	n := 3000
	if thorough {
		n = 40000
	}
	segPieces := []string{"a", "b", "dav", " ", "%", "41", "é", ".", "..", "x", "~", "+", "&", ";", "="}
	randSeg := func() string {
		for {
			var sb strings.Builder
			for k := 1 + rng.Intn(3); k > 0; k-- {
				sb.WriteString(rng.Pick(segPieces))
			}
			if s := sb.String(); s != "." && s != ".." {
				return s
			}
		}
	}
	for i := 0; i < n; i++ {
		var ps []string
		for k := rng.Intn(4); k > 0; k-- {
			ps = append(ps, randSeg())
		}
		var cs, os []string
		for k := rng.Intn(4); k > 0; k-- {
			cs = append(cs, randSeg())
		}
		for k := rng.Intn(4); k > 0; k-- {
			os = append(os, randSeg())
		}
		u, h := randSeg(), randSeg()
		w := mkWorld(ps, u, h, cs, os, rng.Bool(), rng.Intn(8))
		if rng.Bool() {
			w.principal = strings.TrimSuffix(w.principal, "/")
		}
		if rng.Bool() {
			w.home = strings.TrimSuffix(w.home, "/")
		}
		var rs []string
		own := []string{u, h}
		if len(cs) > 0 {
			own = append(own, cs[rng.Intn(len(cs))])
			if len(os) > 0 {
				own = append(own, os[rng.Intn(len(os))], randSeg())
			}
		}
		for d, k := 0, rng.Intn(7); d < k; d++ {
			if d < len(own) && rng.Chance(1, 8) {
				// one character more or less than the own name
				if n := own[d]; rng.Bool() || len(n) < 2 {
					rs = append(rs, n+rng.Pick(segPieces))
				} else {
					rs = append(rs, n[:len(n)-1])
				}
			} else if d < len(own) && !rng.Chance(1, 6) {
				rs = append(rs, own[d])
			} else {
				rs = append(rs, randSeg())
			}
		}
		pt, rt := rng.Bool(), rng.Bool()
		k := reqKinds[rng.Intn(len(reqKinds))]
		q := request{method: k.method, path: reqPath(ps, rs, rt), depth: k.depth, variant: k.variant, dl: k.dl}
		if k.variant == "mg" {
			q.hrefs = []string{reqPath(ps, append(append([]string{}, own...), "x"), false), w.principal}
		}
		emit(hx.L("serve", rng.Pick([]string{"cal", "card"}), hx.S(join(ps)+tslash(pt)), worldSx(w), reqSx(q), layoutSx(ps, pt, rs, rt)))
	}
}

// hcoll / hobj: a layout by names, as Coq's [hier] has it
type hobj struct {
	name    string
	l, t, e bool
}

type hcoll struct {
	name           string
	slash, n, d, m bool
	objs           []hobj
}

type hier struct {
	ps             []string
	u, h           string
	uslash, hslash bool
	colls          []hcoll
}

func (h *hier) world() *world {
	w := &world{principal: join(append(append([]string{}, h.ps...), h.u)) + tslash(h.uslash)}
	w.home = join(append(append([]string{}, h.ps...), h.u, h.h)) + tslash(h.hslash)
	for _, c := range h.colls {
		cp := join(append(append([]string{}, h.ps...), h.u, h.h, c.name))
		col := collection{path: cp + tslash(c.slash), n: c.n, d: c.d, m: c.m}
		for _, o := range c.objs {
			col.objs = append(col.objs, object{path: cp + "/" + o.name, l: o.l, t: o.t, e: o.e})
		}
		w.colls = append(w.colls, col)
	}
	return w
}

func (h *hier) sx(ptrail bool) string {
	items := []string{"h", strList(h.ps), hx.B(ptrail), hx.S(h.u), hx.B(h.uslash), hx.S(h.h), hx.B(h.hslash)}
	for _, c := range h.colls {
		ci := []string{"c", hx.S(c.name), hx.B(c.slash), hx.B(c.n), hx.B(c.d), hx.B(c.m)}
		for _, o := range c.objs {
			ci = append(ci, hx.L("o", hx.S(o.name), hx.B(o.l), hx.B(o.t), hx.B(o.e)))
		}
		items = append(items, hx.L(ci...))
	}
	return hx.L(items...)
}

func genDisc(emit func(string)) {
	rng := hx.NewRand(hx.Seed() + 77)
	thorough := hx.Tier() == "thorough"
	pfx := prefixes(1)
	more := prefixes(3)[len(pfx):]
	extra := 10
	if thorough {
		extra = 80
	}
	for i := 0; i < extra; i++ {
		pfx = append(pfx, more[rng.Intn(len(more))])
	}
	wk := func(srv string) string {
		if srv == "card" {
			return "/.well-known/carddav"
		}
		return "/.well-known/caldav"
	}
	starts := func(srv string, h *hier, w *world) []string {
		return []string{wk(srv), w.principal, reqPath(h.ps, nil, false), reqPath(h.ps, nil, true)}
	}
	for pi, ps := range pfx {
		for _, pt := range []bool{false, true} {
			for _, srv := range []string{"cal", "card"} {
				for nc := 0; nc <= 3; nc++ {
					no := (pi + nc) % 4
					h := &hier{ps: ps, u: "u", h: "h", uslash: (pi+nc)%3 != 0, hslash: (pi+nc)%3 != 1}
					if (pi+nc)%2 == 1 {
						h.u, h.h = "a b", "%2F"
					}
					for ci, cn := range []string{"c1", "%41", "x y"}[:nc] {
						c := hcoll{name: cn, slash: (nc+ci)%2 == 0, n: ci&1 != 0, d: (pi+ci)&1 != 0, m: (pi+ci)&2 != 0}
						for oi, on := range []string{"o1.ics", "é", "..x"}[:no] {
							// the client's listing needs a content length
							c.objs = append(c.objs, hobj{name: on, l: true, t: (pi+oi)&1 != 0, e: (ci+oi)&1 != 0})
						}
						h.colls = append(h.colls, c)
					}
					w := h.world()
					for _, st := range starts(srv, h, w) {
						emit(hx.L("disc", srv, hx.S(join(ps)+tslash(pt)), worldSx(w), hx.S(st), h.sx(pt)))
					}
				}
			}
		}
	}
	// seeded random layouts: random segment bytes, 0-4 collections x 0-4 objects
	n := 300
	if thorough {
		n = 4000
	}
	segPieces := []string{"a", "b", "dav", " ", "%", "41", "é", ".", "..", "x", "~", "+", "&", ";", "=", "?", "#"}
	randSeg := func() string {
		for {
			var sb strings.Builder
			for k := 1 + rng.Intn(3); k > 0; k-- {
				sb.WriteString(rng.Pick(segPieces))
			}
			if s := sb.String(); s != "." && s != ".." {
				return s
			}
		}
	}
	distinct := func(k int) []string {
		seen := map[string]bool{}
		var out []string
		for len(out) < k {
			if s := randSeg(); !seen[s] {
				seen[s] = true
				out = append(out, s)
			}
		}
		return out
	}
	for i := 0; i < n; i++ {
		h := &hier{u: randSeg(), h: randSeg(), uslash: rng.Bool(), hslash: rng.Bool()}
		for k := rng.Intn(4); k > 0; k-- {
			h.ps = append(h.ps, randSeg())
		}
		for _, cn := range distinct(rng.Intn(5)) {
			c := hcoll{name: cn, slash: rng.Bool(), n: rng.Bool(), d: rng.Bool(), m: rng.Bool()}
			for _, on := range distinct(rng.Intn(5)) {
				c.objs = append(c.objs, hobj{name: on, l: true, t: rng.Bool(), e: rng.Bool()})
			}
			h.colls = append(h.colls, c)
		}
		srv := rng.Pick([]string{"cal", "card"})
		pt := rng.Bool()
		w := h.world()
		st := rng.Pick(starts(srv, h, w))
		emit(hx.L("disc", srv, hx.S(join(h.ps)+tslash(pt)), worldSx(w), hx.S(st), h.sx(pt)))
	}
	// outside the quantifier (model faithfulness only): objects without a length, duplicate
	// collections, a principal or home set that is not where the prefix puts it, other start points
	for _, srv := range []string{"cal", "card"} {
		for _, hp := range []string{"", "/dav", "/dav/"} {
			ps := []string{"dav"}
			if hp == "" {
				ps = nil
			}
			base := func() *hier {
				return &hier{ps: ps, u: "u", h: "h", uslash: true, hslash: true, colls: []hcoll{
					{name: "c1", n: true, objs: []hobj{{name: "o1", l: true}, {name: "o2", l: true, e: true}}},
					{name: "c2", slash: true, d: true, objs: []hobj{{name: "o1", l: true, t: true}}}}}
			}
			var ws []*world
			w := base().world()
			w.colls[0].objs[1].l = false
			ws = append(ws, w)
			w = base().world()
			w.colls = append(w.colls, w.colls[0])
			ws = append(ws, w)
			w = base().world()
			w.principal = join(ps) + "/u/h/"
			ws = append(ws, w)
			w = base().world()
			w.home = join(ps) + "/elsewhere/h/"
			ws = append(ws, w)
			w = base().world()
			w.home = join(ps) + "/u/"
			ws = append(ws, w)
			w = base().world()
			w.colls[1].path = join(ps) + "/u/c2"
			ws = append(ws, w)
			w = base().world()
			w.principal = "/other/u/"
			ws = append(ws, w)
			ws = append(ws, base().world())
			for _, w := range ws {
				for _, st := range []string{wk(srv), w.principal, w.home, reqPath(ps, nil, false), w.colls[0].path,
					w.colls[0].objs[0].path, "/nowhere/at/all/x/y/z", join(ps) + "/stranger", join(ps) + "/u/h/missing", "/"} {
					emit(hx.L("disc", srv, hx.S(hp), worldSx(w), hx.S(st), hx.L("nohier")))
				}
			}
		}
	}
}

// ---------------------------------------------------------------- histories on ONE shared Handler

type histUser struct {
	u, h   string
	cs, os []string
}

type histStep struct {
	w   *world
	q   request
	lay string
}

func stepSx(st histStep) string { return hx.L("step", worldSx(st.w), reqSx(st.q), st.lay) }

// shapes: the request a user (me) sends, possibly naming another user's (ot) resources
func histShapes(srv string, ps []string, pt bool, me, ot histUser, mw *world) []histStep {
	mk := func(method, depth, variant string, rs []string, rt bool) histStep {
		q := request{method: method, path: reqPath(ps, rs, rt), depth: depth, variant: variant}
		return histStep{w: mw, q: q, lay: layoutSx(ps, pt, rs, rt)}
	}
	out := []histStep{
		mk("PROPFIND", "0", "good", nil, false),
		mk("PROPFIND", "1", "good", nil, true),
		mk("PROPFIND", "0", "good", []string{me.u}, true),
		mk("PROPFIND", "1", "good", []string{me.u}, false),
		mk("PROPFIND", "inf", "good", []string{me.u}, true),
		mk("PROPFIND", "0", "good", []string{ot.u}, true),
		mk("PROPFIND", "inf", "good", []string{ot.u}, false),
		mk("PROPFIND", "1", "good", []string{me.u, me.h}, true),
		mk("PROPFIND", "1", "good", []string{ot.u, ot.h}, true),
		mk("PROPFIND", "inf", "good", []string{me.u, ot.h}, false),
		mk("MKCOL", "0", "good", []string{me.u, me.h, "new"}, false),
		mk("OPTIONS", "0", "good", []string{me.u, me.h, "c", "o"}, false),
	}
	wk := "/.well-known/caldav"
	if srv == "card" {
		wk = "/.well-known/carddav"
	}
	out = append(out, histStep{w: mw, q: request{method: "PROPFIND", path: wk, depth: "0", variant: "good"}, lay: hx.L("nolayout")})
	if len(me.cs) > 0 {
		out = append(out, mk("PROPFIND", "1", "good", []string{me.u, me.h, me.cs[0]}, false))
		if len(me.os) > 0 {
			st := mk("REPORT", "0", "mg", []string{me.u, me.h, me.cs[0]}, true)
			st.q.hrefs = []string{mw.colls[0].objs[0].path}
			out = append(out, st)
		}
	}
	return out
}

func genHist(emit func(string)) {
	rng := hx.NewRand(hx.Seed() + 191)
	thorough := hx.Tier() == "thorough"
	users := []histUser{
		{"alice", "cal", []string{"c1", "c2"}, []string{"o1.ics", "o2"}},
		{"bob", "h", []string{"work"}, []string{"x y"}},
		{"a b", "%41", nil, nil},
	}
	type pfx struct {
		ps []string
		pt bool
	}
	pfxs := []pfx{{nil, false}, {[]string{"dav"}, true}, {[]string{"a b", "%41"}, false}}
	if thorough {
		pfxs = append(pfxs, pfx{nil, true}, pfx{[]string{"dav"}, false}, pfx{[]string{"a b", "%41"}, true})
	}
	emitPrefixes := func(kind, srv, hprefix string, steps []string) {
		for k := 1; k <= len(steps); k++ {
			emit(hx.L(append([]string{kind, srv, hx.S(hprefix)}, steps[:k]...)...))
		}
	}
	for _, srv := range []string{"cal", "card"} {
		for pi, pf := range pfxs {
			hprefix := join(pf.ps) + tslash(pf.pt)
			worlds := make([]*world, len(users))
			for i, u := range users {
				worlds[i] = mkWorld(pf.ps, u.u, u.h, u.cs, u.os, (pi+i)%2 == 0, pi+i)
				for ci := range worlds[i].colls {
					for oi := range worlds[i].colls[ci].objs {
						worlds[i].colls[ci].objs[oi].l = true
					}
				}
			}
			// alice, then bob, then alice again: every pair of shapes; stale state left by
			// step k (a memoised principal, a cached adapter) shows in step k+1
			a, b := users[0], users[1]
			sa := histShapes(srv, pf.ps, pf.pt, a, b, worlds[0])
			sb := histShapes(srv, pf.ps, pf.pt, b, a, worlds[1])
			for i := range sa {
				for j := range sb {
					if !thorough && (i+j+pi)%3 != 0 {
						continue
					}
					third := sa[(i+j)%len(sa)]
					emitPrefixes("hist", srv, hprefix, []string{stepSx(sa[i]), stepSx(sb[j]), stepSx(third)})
				}
			}
			// random sequences of 2-5 steps of three users
			n := 60
			if thorough {
				n = 1500
			}
			for k := 0; k < n; k++ {
				var steps []string
				for l := 2 + rng.Intn(4); l > 0; l-- {
					ui := rng.Intn(len(users))
					oi := (ui + 1 + rng.Intn(len(users)-1)) % len(users)
					sh := histShapes(srv, pf.ps, pf.pt, users[ui], users[oi], worlds[ui])
					steps = append(steps, stepSx(sh[rng.Intn(len(sh))]))
				}
				emitPrefixes("hist", srv, hprefix, steps)
			}
			// overlapping requests of several users on the shared Handler
			m := 40
			if thorough {
				m = 400
			}
			for k := 0; k < m; k++ {
				ui := rng.Intn(len(users))
				sh := histShapes(srv, pf.ps, pf.pt, users[ui], users[(ui+1)%len(users)], worlds[ui])
				emit(hx.L("par", srv, hx.S(hprefix), stepSx(sh[rng.Intn(len(sh))])))
			}
			// discovery chains of several users through one server
			hiers := make([]*hier, len(users))
			for i, u := range users {
				h := &hier{ps: pf.ps, u: u.u, h: u.h, uslash: (pi+i)%2 == 0, hslash: i%2 == 0}
				for ci, cn := range u.cs {
					c := hcoll{name: cn, slash: (ci+pi)%2 == 0, n: ci == 0}
					for _, on := range u.os {
						c.objs = append(c.objs, hobj{name: on, l: true, e: ci == 1})
					}
					h.colls = append(h.colls, c)
				}
				hiers[i] = h
			}
			wk := "/.well-known/caldav"
			if srv == "card" {
				wk = "/.well-known/carddav"
			}
			dstep := func(i int, start string) string {
				return hx.L("dstep", worldSx(hiers[i].world()), hx.S(start), hiers[i].sx(pf.pt))
			}
			for _, order := range [][]int{{0, 1, 0}, {1, 0, 1}, {0, 2, 1, 0}, {2, 1}} {
				for si := 0; si < 3; si++ {
					var steps []string
					for k, i := range order {
						start := []string{wk, reqPath(pf.ps, nil, k%2 == 0), hiers[i].world().principal}[(si+k)%3]
						steps = append(steps, dstep(i, start))
					}
					emitPrefixes("dhist", srv, hprefix, steps)
				}
			}
		}
	}
}

func main() {
	out := flag.String("out", "", "output file")
	replay := flag.String("replay", "", "file of case lines to re-run (inputs are re-executed)")
	stage := flag.String("stage", "serve", "strings | serve | discovery | history")
	flag.Parse()
	sink := hx.NewSink(*out)
	defer sink.Close()

	if *replay != "" {
		for _, l := range hx.ReadLines(*replay) {
			items := hx.MustParse(l)
			sink.Put(exec(items[0].String()))
		}
		return
	}

	inputs := make(chan string, 4096)
	var wg sync.WaitGroup
	workers := runtime.NumCPU()
	if (*stage == "discovery" || *stage == "history") && workers > 8 {
		workers = 8
	}
	for w := 0; w < workers; w++ {
		wg.Add(1)
		go func() {
			defer wg.Done()
			for in := range inputs {
				sink.Put(exec(in))
			}
		}()
	}
	emit := func(s string) { inputs <- s }
	switch *stage {
	case "strings":
		genStrings(emit)
	case "serve":
		genServe(emit)
	case "discovery":
		genDisc(emit)
	case "history":
		genHist(emit)
	default:
		fmt.Fprintln(os.Stderr, "c12: unknown stage", *stage)
		os.Exit(2)
	}
	close(inputs)
	wg.Wait()
	fmt.Fprintf(os.Stderr, "c12 %s: %d cases\n", *stage, sink.N)
}
