// Command c04x covers the two clauses of C04 that lie outside LocalFileSystem:
//
//	tags  the entity tag a backend reports — any byte string — is announced as one and the
//	      same text by PUT, GET, HEAD (ETag header) and PROPFIND (getetag), that text decodes
//	      to the tag and is accepted back by ConditionalMatch.MatchETag
//	cdav  the CalDAV and CardDAV servers hand If-Match / If-None-Match to the backend unaltered
//
// Case lines:
//
//	(tags <tag> (<printable runes above U+00FF>) <put> <get> <head> <getetag> <matchback>)
//	(cdav cal|card <if-match> <if-none-match> <got if-match> <got if-none-match> <status>)
package main

import (
	"bytes"
	"context"
	"encoding/xml"
	"flag"
	"fmt"
	"io"
	"net/http"
	"net/http/httptest"
	"os"
	"strconv"
	"strings"
	"time"
	"unicode/utf8"

	"github.com/emersion/go-ical"
	"github.com/emersion/go-vcard"
	webdav "github.com/emersion/go-webdav"
	"github.com/emersion/go-webdav/caldav"
	"github.com/emersion/go-webdav/carddav"

	"verifharness/hx"
)

// ---- a FileSystem that reports one file with a given entity tag

type tagFS struct{ tag string }

func (f tagFS) fi() *webdav.FileInfo {
	return &webdav.FileInfo{Path: "/f", Size: 3, ModTime: time.Unix(1600000000, 0), MIMEType: "text/plain", ETag: f.tag}
}
func (f tagFS) Open(ctx context.Context, name string) (io.ReadCloser, error) {
	return io.NopCloser(strings.NewReader("abc")), nil
}
func (f tagFS) Stat(ctx context.Context, name string) (*webdav.FileInfo, error) { return f.fi(), nil }
func (f tagFS) ReadDir(ctx context.Context, name string, recursive bool) ([]webdav.FileInfo, error) {
	return []webdav.FileInfo{*f.fi()}, nil
}
func (f tagFS) Create(ctx context.Context, name string, body io.ReadCloser, opts *webdav.CreateOptions) (*webdav.FileInfo, bool, error) {
	io.Copy(io.Discard, body)
	return f.fi(), false, nil
}
func (f tagFS) RemoveAll(ctx context.Context, name string, opts *webdav.RemoveAllOptions) error {
	return nil
}
func (f tagFS) Mkdir(ctx context.Context, name string) error { return nil }
func (f tagFS) Copy(ctx context.Context, name, dest string, options *webdav.CopyOptions) (bool, error) {
	return true, nil
}
func (f tagFS) Move(ctx context.Context, name, dest string, options *webdav.MoveOptions) (bool, error) {
	return true, nil
}

func printableHi(s string) string {
	seen := map[rune]bool{}
	var items []string
	for i := 0; i < len(s); {
		r, w := utf8.DecodeRuneInString(s[i:])
		i += w
		if r > 0xFF && !(r == utf8.RuneError && w == 1) && strconv.IsPrint(r) && !seen[r] {
			seen[r] = true
			items = append(items, hx.I(int64(r)))
		}
	}
	return hx.L(items...)
}

func serve(h http.Handler, method, target string, hdr map[string]string, body string) (rec *httptest.ResponseRecorder, panicked bool) {
	req := httptest.NewRequest(method, target, strings.NewReader(body))
	for k, v := range hdr {
		req.Header[k] = []string{v}
	}
	rec = httptest.NewRecorder()
	func() {
		defer func() {
			if recover() != nil {
				panicked = true
			}
		}()
		h.ServeHTTP(rec, req)
	}()
	return
}

type msDoc struct {
	Responses []struct {
		PropStats []struct {
			Prop struct {
				ETag *string `xml:"DAV: getetag"`
			} `xml:"DAV: prop"`
		} `xml:"DAV: propstat"`
	} `xml:"DAV: response"`
}

func tagsCase(tag string) string {
	h := &webdav.Handler{FileSystem: tagFS{tag}}
	obs := func(s string, ok bool) string {
		if !ok {
			return "-"
		}
		return hx.S(s)
	}
	hdr := func(method string) string {
		rec, p := serve(h, method, "/f", nil, "abc")
		if p {
			return "panic"
		}
		v, ok := rec.Result().Header["Etag"]
		return obs(strings.Join(v, "\x00"), ok && len(v) == 1)
	}
	put, get, head := hdr("PUT"), hdr("GET"), hdr("HEAD")
	pf := "-"
	rec, p := serve(h, "PROPFIND", "/f", map[string]string{"Depth": "0"}, "")
	if p {
		pf = "panic"
	} else {
		var ms msDoc
		raw, _ := io.ReadAll(rec.Result().Body)
		if err := xml.NewDecoder(bytes.NewReader(raw)).Decode(&ms); err == nil {
			for _, r := range ms.Responses {
				for _, ps := range r.PropStats {
					if ps.Prop.ETag != nil {
						pf = hx.S(*ps.Prop.ETag)
					}
				}
			}
		}
	}
	// the announced text, sent back, must match the tag
	back := "-"
	if get != "-" && get != "panic" {
		v := rec2str(get)
		ok, err := webdav.ConditionalMatch(v).MatchETag(tag)
		if err == nil {
			back = hx.B(ok)
		} else {
			back = "err"
		}
	}
	return hx.L("tags", hx.S(tag), printableHi(tag), put, get, head, pf, back)
}

func rec2str(sx string) string { return hx.MustParse(sx)[0].Str() }

// ---- recording CalDAV / CardDAV backends

type calRec struct {
	im, inm string
	called  bool
}

func (b *calRec) CurrentUserPrincipal(ctx context.Context) (string, error) { return "/u/", nil }
func (b *calRec) CalendarHomeSetPath(ctx context.Context) (string, error)  { return "/u/cal/", nil }
func (b *calRec) CreateCalendar(ctx context.Context, c *caldav.Calendar) error {
	return nil
}
func (b *calRec) ListCalendars(ctx context.Context) ([]caldav.Calendar, error) {
	return []caldav.Calendar{{Path: "/u/cal/c/"}}, nil
}
func (b *calRec) GetCalendar(ctx context.Context, path string) (*caldav.Calendar, error) {
	return &caldav.Calendar{Path: "/u/cal/c/"}, nil
}
func (b *calRec) GetCalendarObject(ctx context.Context, path string, req *caldav.CalendarCompRequest) (*caldav.CalendarObject, error) {
	return nil, webdav.NewHTTPError(404, fmt.Errorf("no"))
}
func (b *calRec) ListCalendarObjects(ctx context.Context, path string, req *caldav.CalendarCompRequest) ([]caldav.CalendarObject, error) {
	return nil, nil
}
func (b *calRec) QueryCalendarObjects(ctx context.Context, path string, q *caldav.CalendarQuery) ([]caldav.CalendarObject, error) {
	return nil, nil
}
func (b *calRec) PutCalendarObject(ctx context.Context, path string, cal *ical.Calendar, opts *caldav.PutCalendarObjectOptions) (*caldav.CalendarObject, error) {
	b.called = true
	if opts != nil {
		b.im, b.inm = string(opts.IfMatch), string(opts.IfNoneMatch)
	}
	return &caldav.CalendarObject{Path: path, ETag: "t", ModTime: time.Unix(1600000000, 0)}, nil
}
func (b *calRec) DeleteCalendarObject(ctx context.Context, path string) error { return nil }

type cardRec struct {
	im, inm string
	called  bool
}

func (b *cardRec) CurrentUserPrincipal(ctx context.Context) (string, error)   { return "/u/", nil }
func (b *cardRec) AddressBookHomeSetPath(ctx context.Context) (string, error) { return "/u/ab/", nil }
func (b *cardRec) ListAddressBooks(ctx context.Context) ([]carddav.AddressBook, error) {
	return []carddav.AddressBook{{Path: "/u/ab/b/"}}, nil
}
func (b *cardRec) GetAddressBook(ctx context.Context, path string) (*carddav.AddressBook, error) {
	return &carddav.AddressBook{Path: "/u/ab/b/"}, nil
}
func (b *cardRec) CreateAddressBook(ctx context.Context, ab *carddav.AddressBook) error { return nil }
func (b *cardRec) DeleteAddressBook(ctx context.Context, path string) error             { return nil }
func (b *cardRec) GetAddressObject(ctx context.Context, path string, req *carddav.AddressDataRequest) (*carddav.AddressObject, error) {
	return nil, webdav.NewHTTPError(404, fmt.Errorf("no"))
}
func (b *cardRec) ListAddressObjects(ctx context.Context, path string, req *carddav.AddressDataRequest) ([]carddav.AddressObject, error) {
	return nil, nil
}
func (b *cardRec) QueryAddressObjects(ctx context.Context, path string, q *carddav.AddressBookQuery) ([]carddav.AddressObject, error) {
	return nil, nil
}
func (b *cardRec) PutAddressObject(ctx context.Context, path string, card vcard.Card, opts *carddav.PutAddressObjectOptions) (*carddav.AddressObject, error) {
	b.called = true
	if opts != nil {
		b.im, b.inm = string(opts.IfMatch), string(opts.IfNoneMatch)
	}
	return &carddav.AddressObject{Path: path, ETag: "t", ModTime: time.Unix(1600000000, 0)}, nil
}
func (b *cardRec) DeleteAddressObject(ctx context.Context, path string) error { return nil }

const icalBody = "BEGIN:VCALENDAR\r\nVERSION:2.0\r\nPRODID:-//x//y//EN\r\nBEGIN:VEVENT\r\nUID:u1\r\nDTSTAMP:20200101T000000Z\r\nDTSTART:20200101T100000Z\r\nEND:VEVENT\r\nEND:VCALENDAR\r\n"
const vcardBody = "BEGIN:VCARD\r\nVERSION:4.0\r\nUID:u1\r\nFN:A B\r\nEND:VCARD\r\n"

func cdavCase(kind, im, inm string) string {
	hdr := map[string]string{}
	if im != "\x00" {
		hdr["If-Match"] = im
	}
	if inm != "\x00" {
		hdr["If-None-Match"] = inm
	}
	show := func(v string) string {
		if v == "\x00" {
			return "-"
		}
		return hx.S(v)
	}
	var gotIm, gotInm string
	var called bool
	var rec *httptest.ResponseRecorder
	var p bool
	if kind == "cal" {
		b := &calRec{}
		hdr["Content-Type"] = "text/calendar"
		rec, p = serve(&caldav.Handler{Backend: b}, "PUT", "/u/cal/c/o.ics", hdr, icalBody)
		gotIm, gotInm, called = b.im, b.inm, b.called
	} else {
		b := &cardRec{}
		hdr["Content-Type"] = "text/vcard"
		rec, p = serve(&carddav.Handler{Backend: b}, "PUT", "/u/ab/b/o.vcf", hdr, vcardBody)
		gotIm, gotInm, called = b.im, b.inm, b.called
	}
	status := "panic"
	if !p {
		status = hx.I(int64(rec.Code))
	}
	if !called {
		return hx.L("cdav", kind, show(im), show(inm), "-", "-", status)
	}
	return hx.L("cdav", kind, show(im), show(inm), hx.S(gotIm), hx.S(gotInm), status)
}

// ---- generators

func tagStrings(rng *hx.Rand, n int) []string {
	base := []string{"", "a", "abc", "17f3a9c0de", `"`, `""`, `a"b`, `\`, `a\b`, `\"`, `\n`, "new\nline", "tab\there", "nul\x00byte", "\x7f", " ", " lead", "trail ",
		"é", "rév-1", "日本語", "\u00a0", "\u2028", "\ufeff", "\U0001F600", "\xff", "a\xffb", "\xc3", "\xed\xa0\x80", "W/\"weak\"", "*", "a,b", "'q'", "`r`", "%41", "<&>", "]]>", "&amp;",
		strings.Repeat("x", 300), strings.Repeat("é", 50), "\x01\x02\x03", "\r\n", "\u0085", "\u200b", "\U000E0001", "\U0010FFFF", "\ufffd"}
	alphabet := []string{"a", "Z", "0", `"`, `\`, " ", "\n", "\t", "\x00", "\x1f", "\x7f", "é", "ß", "Ω", "日", "\u00ad", "\u2028", "\U0001F600", "\xff", "\xc3", "\x80", "&", "<", ">", "'", ",", "*", "/", "%", ";", "="}
	for i := 0; i < n; i++ {
		var b strings.Builder
		for k := rng.Intn(12); k > 0; k-- {
			b.WriteString(alphabet[rng.Intn(len(alphabet))])
		}
		base = append(base, b.String())
	}
	return base
}

func condValues(rng *hx.Rand, n int) []string {
	vs := []string{"\x00", "", "*", `"abc"`, `"a", "b"`, `W/"weak"`, `W/*`, "unquoted", `'a'`, `"`, `"\q"`, ` "lead"`, `"trail" `, `"é"`, "\"\xff\"", `"a\"b"`, `W/"a", "b"`, `w/"lower"`, `"x"; y`, "\t*", "**", `""`}
	for i := 0; i < n; i++ {
		t := tagStrings(rng, 1)
		v := t[len(t)-1]
		switch rng.Intn(4) {
		case 0:
			v = strconv.Quote(v)
		case 1:
			v = "W/" + strconv.Quote(v)
		case 2:
			v = `"` + v + `"`
		}
		if strings.ContainsAny(v, "\r\n\x00") {
			continue // not a header value net/http would deliver
		}
		vs = append(vs, v)
	}
	return vs
}

func main() {
	out := flag.String("out", "", "output file")
	replay := flag.String("replay", "", "file of case lines to re-run")
	stage := flag.String("stage", "tags", "tags|cdav")
	flag.Parse()
	sink := hx.NewSink(*out)
	defer sink.Close()
	if *replay != "" {
		for _, l := range hx.ReadLines(*replay) {
			it := hx.MustParse(l)[0]
			a := it.Args()
			switch it.Head() {
			case "tags":
				sink.Put(tagsCase(a[0].Str()))
			case "cdav":
				v := func(x hx.Sx) string {
					if x.Atom == "-" && !x.IsList {
						return "\x00"
					}
					return x.Str()
				}
				sink.Put(cdavCase(a[0].Atom, v(a[1]), v(a[2])))
			}
		}
		return
	}
	rng := hx.NewRand(hx.Seed())
	n := 400
	if hx.Tier() == "thorough" {
		n = 6000
	}
	switch *stage {
	case "tags":
		for _, t := range tagStrings(rng, n) {
			sink.Put(tagsCase(t))
		}
	case "cdav":
		vs := condValues(rng, n/10)
		for _, kind := range []string{"cal", "card"} {
			for _, im := range vs {
				for _, inm := range vs {
					sink.Put(cdavCase(kind, im, inm))
				}
			}
		}
	default:
		fmt.Fprintln(os.Stderr, "unknown stage")
		os.Exit(2)
	}
	fmt.Fprintf(os.Stderr, "c04x/%s: %d cases\n", *stage, sink.N)
}
