package main

import (
	"context"
	"errors"
	"fmt"
	"io"
	"os"
	"strings"
	"sync"
	"time"

	"github.com/emersion/go-ical"
	"github.com/emersion/go-vcard"
	"github.com/emersion/go-webdav"
	"github.com/emersion/go-webdav/caldav"
	"github.com/emersion/go-webdav/carddav"

	"verifharness/hx"
)

// gerr is a scripted error: kind "" = no error, "d" a *HTTPError, "w" an error
// wrapping one, "p" a plain error, "x" os.ErrExist.
type gerr struct {
	kind string
	code int
}

func (e gerr) sx() string {
	switch e.kind {
	case "d", "w":
		return hx.L(e.kind, hx.I(int64(e.code)))
	default:
		return e.kind
	}
}

func (e gerr) err() error {
	switch e.kind {
	case "d":
		return webdav.NewHTTPError(e.code, errors.New("scripted"))
	case "w":
		return fmt.Errorf("scripted wrapper: %w", webdav.NewHTTPError(e.code, errors.New("scripted")))
	case "p":
		return errors.New("scripted plain error")
	case "x":
		return os.ErrExist
	}
	return nil
}

func parseErr(x hx.Sx) gerr {
	if !x.IsList {
		return gerr{kind: x.Atom}
	}
	return gerr{kind: x.List[0].Atom, code: int(x.List[1].Int())}
}

// res is a scripted result: an error, a nil pointer, or a value.
type res struct {
	e   gerr
	nil bool
}

func resSx(r res, val string) string {
	if r.e.kind != "" {
		return hx.L("err", r.e.sx())
	}
	if r.nil {
		return hx.L("ok", "nil")
	}
	return hx.L("ok", val)
}

func oerrSx(e gerr) string {
	if e.kind == "" {
		return "ok"
	}
	return hx.L("err", e.sx())
}

func parseRes(x hx.Sx) (res, hx.Sx) {
	if x.Head() == "err" {
		return res{e: parseErr(x.List[1])}, hx.Sx{}
	}
	if !x.List[1].IsList && x.List[1].Atom == "nil" {
		return res{nil: true}, hx.Sx{}
	}
	return res{}, x.List[1]
}

func parseOerr(x hx.Sx) gerr {
	if !x.IsList {
		return gerr{}
	}
	return parseErr(x.List[1])
}

type recorder struct {
	mu    sync.Mutex
	calls []string
}

// the recorder of the request being served travels in its context, so that one backend
// value can serve several (also overlapping) requests
type recKey struct{}

func recOf(ctx context.Context, fallback *recorder) *recorder {
	if r, ok := ctx.Value(recKey{}).(*recorder); ok {
		return r
	}
	return fallback
}

// a modification time that is not in UTC and not in the process zone
var modTime = time.Date(2024, 3, 31, 2, 30, 0, 0, time.FixedZone("X", 2*3600))

func (r *recorder) add(name, a, b string) {
	r.mu.Lock()
	r.calls = append(r.calls, hx.L(hx.S(name), hx.S(a), hx.S(b)))
	r.mu.Unlock()
}

// ---------------------------------------------------------------- file system

type fsEnv struct {
	has                    bool
	stat                   res
	statDir                bool
	open                   gerr
	readdir                res
	children               []bool
	create                 res
	createDir, created     bool
	removeall, mkdir       gerr
	copy, move             res
	copyCreated, moveCreat bool
}

func fiSx(dir bool) string { return hx.L("fi", hx.B(dir)) }

func (e *fsEnv) sx() string {
	var kids []string
	for _, c := range e.children {
		kids = append(kids, fiSx(c))
	}
	create := ""
	switch {
	case e.create.e.kind != "":
		create = hx.L("err", e.create.e.sx())
	case e.create.nil:
		create = hx.L("ok", "nil", hx.B(e.created))
	default:
		create = hx.L("ok", fiSx(e.createDir), hx.B(e.created))
	}
	return hx.L("fs", hx.B(e.has), resSx(e.stat, fiSx(e.statDir)), oerrSx(e.open), resSx(e.readdir, hx.L(kids...)),
		create, oerrSx(e.removeall), oerrSx(e.mkdir), resSx(e.copy, hx.B(e.copyCreated)), resSx(e.move, hx.B(e.moveCreat)))
}

func parseFsEnv(x hx.Sx) *fsEnv {
	a := x.Args()
	e := &fsEnv{has: a[0].Bool()}
	var v hx.Sx
	e.stat, v = parseRes(a[1])
	if v.IsList {
		e.statDir = v.List[1].Bool()
	}
	e.open = parseOerr(a[2])
	e.readdir, v = parseRes(a[3])
	for _, k := range v.List {
		e.children = append(e.children, k.List[1].Bool())
	}
	if a[4].Head() == "err" {
		e.create = res{e: parseErr(a[4].List[1])}
	} else {
		if !a[4].List[1].IsList {
			e.create = res{nil: true}
		} else {
			e.createDir = a[4].List[1].List[1].Bool()
		}
		e.created = a[4].List[2].Bool()
	}
	e.removeall = parseOerr(a[5])
	e.mkdir = parseOerr(a[6])
	e.copy, v = parseRes(a[7])
	e.copyCreated = v.Atom == "1"
	e.move, v = parseRes(a[8])
	e.moveCreat = v.Atom == "1"
	return e
}

type fsDouble struct {
	e   *fsEnv
	rec *recorder
}

func (f *fsDouble) Open(ctx context.Context, name string) (io.ReadCloser, error) {
	if f.e.open.kind != "" {
		return nil, f.e.open.err()
	}
	// a plain reader (not an io.Seeker): the handler copies it itself
	return io.NopCloser(io.MultiReader(strings.NewReader("content"))), nil
}

func (f *fsDouble) Stat(ctx context.Context, name string) (*webdav.FileInfo, error) {
	if f.e.stat.e.kind != "" {
		return nil, f.e.stat.e.err()
	}
	if f.e.stat.nil {
		return nil, nil
	}
	return &webdav.FileInfo{Path: name, Size: 7, ModTime: modTime, IsDir: f.e.statDir}, nil
}

func (f *fsDouble) ReadDir(ctx context.Context, name string, recursive bool) ([]webdav.FileInfo, error) {
	if f.e.readdir.e.kind != "" {
		return nil, f.e.readdir.e.err()
	}
	var out []webdav.FileInfo
	for i, d := range f.e.children {
		out = append(out, webdav.FileInfo{Path: fmt.Sprintf("%s/c%d", strings.TrimSuffix(name, "/"), i), IsDir: d})
	}
	return out, nil
}

func (f *fsDouble) Create(ctx context.Context, name string, body io.ReadCloser, opts *webdav.CreateOptions) (*webdav.FileInfo, bool, error) {
	recOf(ctx, f.rec).add("Create", name, "")
	if f.e.create.e.kind != "" {
		return nil, false, f.e.create.e.err()
	}
	if f.e.create.nil {
		return nil, f.e.created, nil
	}
	return &webdav.FileInfo{Path: name, IsDir: f.e.createDir}, f.e.created, nil
}

func (f *fsDouble) RemoveAll(ctx context.Context, name string, opts *webdav.RemoveAllOptions) error {
	recOf(ctx, f.rec).add("RemoveAll", name, "")
	return f.e.removeall.err()
}

func (f *fsDouble) Mkdir(ctx context.Context, name string) error {
	recOf(ctx, f.rec).add("Mkdir", name, "")
	return f.e.mkdir.err()
}

func (f *fsDouble) Copy(ctx context.Context, name, dest string, options *webdav.CopyOptions) (bool, error) {
	recOf(ctx, f.rec).add("Copy", name, dest)
	if f.e.copy.e.kind != "" {
		return false, f.e.copy.e.err()
	}
	return f.e.copyCreated, nil
}

func (f *fsDouble) Move(ctx context.Context, name, dest string, options *webdav.MoveOptions) (bool, error) {
	recOf(ctx, f.rec).add("Move", name, dest)
	if f.e.move.e.kind != "" {
		return false, f.e.move.e.err()
	}
	return f.e.moveCreat, nil
}

// ---------------------------------------------------------------- CalDAV / CardDAV

// objd describes an object the double returns; variant selects its data:
// "k" encodes, "e" fails before the first byte (iCalendar only), "l" fails later.
type objd struct {
	path    string
	variant string
}

type davEnv struct {
	card                bool
	has                 bool
	prefix              string
	principal, homeset  res
	principalP, homeP   string
	colls               res
	collPaths           []string
	getcoll             res
	getcollP            string
	getobj              res
	getobjV             objd
	objs, query         res
	objsV, queryV       []objd
	put                 res
	putV                objd
	del, delbook, creat gerr
}

func calData(variant string) *ical.Calendar {
	cal := ical.NewCalendar()
	cal.Props.SetText(ical.PropVersion, "2.0")
	cal.Props.SetText(ical.PropProductID, "-//verif//EN")
	switch variant {
	case "e":
		return cal // no component: the encoder refuses before writing
	case "l":
		ev := ical.NewEvent() // no UID / DTSTAMP: refused after BEGIN:VCALENDAR went out
		cal.Children = append(cal.Children, ev.Component)
		return cal
	}
	ev := ical.NewEvent()
	ev.Props.SetText(ical.PropUID, "uid-1")
	ev.Props.SetText(ical.PropDateTimeStamp, "20200101T000000Z")
	cal.Children = append(cal.Children, ev.Component)
	return cal
}

func cardData(variant string) vcard.Card {
	c := vcard.Card{}
	if variant != "l" && variant != "e" {
		c.SetValue(vcard.FieldVersion, "4.0")
	}
	c.SetValue(vcard.FieldFormattedName, "N")
	return c
}

// encOutcome runs the real encoder on the data the double hands out.
func (o objd) enc(card bool) (out string) {
	defer func() {
		if r := recover(); r != nil {
			out = "e"
		}
	}()
	var w countWriter
	var err error
	if card {
		err = vcard.NewEncoder(&w).Encode(cardData(o.variant))
	} else {
		err = ical.NewEncoder(&w).Encode(calData(o.variant))
	}
	_ = err
	switch {
	case err == nil:
		return "k"
	case w.n == 0:
		return "e"
	}
	return "l"
}

type countWriter struct{ n int }

func (w *countWriter) Write(p []byte) (int, error) { w.n += len(p); return len(p), nil }

func (e *davEnv) objSx(o objd) string { return hx.L("o", hx.S(o.path), o.enc(e.card)) }
func (e *davEnv) objsSx(l []objd) string {
	var items []string
	for _, o := range l {
		items = append(items, e.objSx(o))
	}
	return hx.L(items...)
}

func (e *davEnv) sx() string {
	var colls []string
	for _, p := range e.collPaths {
		colls = append(colls, hx.S(p))
	}
	items := []string{"env", hx.B(e.has), hx.S(e.prefix), resSx(e.principal, hx.S(e.principalP)), resSx(e.homeset, hx.S(e.homeP)),
		resSx(e.colls, hx.L(colls...)), resSx(e.getcoll, hx.S(e.getcollP)), resSx(e.getobj, e.objSx(e.getobjV)),
		resSx(e.objs, e.objsSx(e.objsV)), resSx(e.query, e.objsSx(e.queryV)), resSx(e.put, e.objSx(e.putV)), oerrSx(e.del)}
	if e.card {
		items = append(items, oerrSx(e.delbook))
	}
	items = append(items, oerrSx(e.creat))
	return hx.L(items...)
}

// the variant is not part of the model's input; it is carried in the path so that a
// replay rebuilds the same data: paths end in ".k", ".e" or ".l" before the extension
func variantOf(p string) string {
	for _, v := range []string{"e", "l"} {
		if strings.Contains(p, ".v"+v+".") {
			return v
		}
	}
	return "k"
}

func parseObj(x hx.Sx) objd {
	p := x.List[1].Str()
	return objd{path: p, variant: variantOf(p)}
}

func parseObjs(x hx.Sx) []objd {
	var out []objd
	for _, o := range x.List {
		out = append(out, parseObj(o))
	}
	return out
}

func parseDavEnv(x hx.Sx, card bool) *davEnv {
	a := x.Args()
	e := &davEnv{card: card, has: a[0].Bool(), prefix: a[1].Str()}
	var v hx.Sx
	if e.principal, v = parseRes(a[2]); e.principal.e.kind == "" {
		e.principalP = v.Str()
	}
	if e.homeset, v = parseRes(a[3]); e.homeset.e.kind == "" {
		e.homeP = v.Str()
	}
	e.colls, v = parseRes(a[4])
	for _, c := range v.List {
		e.collPaths = append(e.collPaths, c.Str())
	}
	if e.getcoll, v = parseRes(a[5]); e.getcoll.e.kind == "" && !e.getcoll.nil {
		e.getcollP = v.Str()
	}
	if e.getobj, v = parseRes(a[6]); e.getobj.e.kind == "" && !e.getobj.nil {
		e.getobjV = parseObj(v)
	}
	e.objs, v = parseRes(a[7])
	e.objsV = parseObjs(v)
	e.query, v = parseRes(a[8])
	e.queryV = parseObjs(v)
	if e.put, v = parseRes(a[9]); e.put.e.kind == "" && !e.put.nil {
		e.putV = parseObj(v)
	}
	e.del = parseOerr(a[10])
	if card {
		e.delbook = parseOerr(a[11])
		e.creat = parseOerr(a[12])
	} else {
		e.creat = parseOerr(a[11])
	}
	return e
}

type calDouble struct {
	e   *davEnv
	rec *recorder
}

func (b *calDouble) obj(o objd) *caldav.CalendarObject {
	return &caldav.CalendarObject{Path: o.path, ETag: "e", ContentLength: 10, ModTime: modTime, Data: calData(o.variant)}
}
func (b *calDouble) objs(l []objd) []caldav.CalendarObject {
	var out []caldav.CalendarObject
	for _, o := range l {
		out = append(out, *b.obj(o))
	}
	return out
}
func (b *calDouble) CurrentUserPrincipal(ctx context.Context) (string, error) {
	return b.e.principalP, b.e.principal.e.err()
}
func (b *calDouble) CalendarHomeSetPath(ctx context.Context) (string, error) {
	return b.e.homeP, b.e.homeset.e.err()
}
func (b *calDouble) CreateCalendar(ctx context.Context, c *caldav.Calendar) error {
	recOf(ctx, b.rec).add("CreateCalendar", c.Path, "")
	return b.e.creat.err()
}
func (b *calDouble) ListCalendars(ctx context.Context) ([]caldav.Calendar, error) {
	if b.e.colls.e.kind != "" {
		return nil, b.e.colls.e.err()
	}
	var out []caldav.Calendar
	for _, p := range b.e.collPaths {
		out = append(out, caldav.Calendar{Path: p, Name: "n"})
	}
	return out, nil
}
func (b *calDouble) GetCalendar(ctx context.Context, path string) (*caldav.Calendar, error) {
	if b.e.getcoll.e.kind != "" {
		return nil, b.e.getcoll.e.err()
	}
	if b.e.getcoll.nil {
		return nil, nil
	}
	return &caldav.Calendar{Path: b.e.getcollP, Name: "n", Description: "d"}, nil
}
func (b *calDouble) GetCalendarObject(ctx context.Context, path string, req *caldav.CalendarCompRequest) (*caldav.CalendarObject, error) {
	if b.e.getobj.e.kind != "" {
		return nil, b.e.getobj.e.err()
	}
	if b.e.getobj.nil {
		return nil, nil
	}
	return b.obj(b.e.getobjV), nil
}
func (b *calDouble) ListCalendarObjects(ctx context.Context, path string, req *caldav.CalendarCompRequest) ([]caldav.CalendarObject, error) {
	if b.e.objs.e.kind != "" {
		return nil, b.e.objs.e.err()
	}
	return b.objs(b.e.objsV), nil
}
func (b *calDouble) QueryCalendarObjects(ctx context.Context, path string, q *caldav.CalendarQuery) ([]caldav.CalendarObject, error) {
	if b.e.query.e.kind != "" {
		return nil, b.e.query.e.err()
	}
	return b.objs(b.e.queryV), nil
}
func (b *calDouble) PutCalendarObject(ctx context.Context, path string, cal *ical.Calendar, opts *caldav.PutCalendarObjectOptions) (*caldav.CalendarObject, error) {
	recOf(ctx, b.rec).add("PutCalendarObject", path, "")
	if b.e.put.e.kind != "" {
		return nil, b.e.put.e.err()
	}
	if b.e.put.nil {
		return nil, nil
	}
	return b.obj(b.e.putV), nil
}
func (b *calDouble) DeleteCalendarObject(ctx context.Context, path string) error {
	recOf(ctx, b.rec).add("DeleteCalendarObject", path, "")
	return b.e.del.err()
}

type cardDouble struct {
	e   *davEnv
	rec *recorder
}

func (b *cardDouble) obj(o objd) *carddav.AddressObject {
	return &carddav.AddressObject{Path: o.path, ETag: "e", ContentLength: 10, ModTime: modTime, Card: cardData(o.variant)}
}
func (b *cardDouble) objs(l []objd) []carddav.AddressObject {
	var out []carddav.AddressObject
	for _, o := range l {
		out = append(out, *b.obj(o))
	}
	return out
}
func (b *cardDouble) CurrentUserPrincipal(ctx context.Context) (string, error) {
	return b.e.principalP, b.e.principal.e.err()
}
func (b *cardDouble) AddressBookHomeSetPath(ctx context.Context) (string, error) {
	return b.e.homeP, b.e.homeset.e.err()
}
func (b *cardDouble) ListAddressBooks(ctx context.Context) ([]carddav.AddressBook, error) {
	if b.e.colls.e.kind != "" {
		return nil, b.e.colls.e.err()
	}
	var out []carddav.AddressBook
	for _, p := range b.e.collPaths {
		out = append(out, carddav.AddressBook{Path: p, Name: "n"})
	}
	return out, nil
}
func (b *cardDouble) GetAddressBook(ctx context.Context, path string) (*carddav.AddressBook, error) {
	if b.e.getcoll.e.kind != "" {
		return nil, b.e.getcoll.e.err()
	}
	if b.e.getcoll.nil {
		return nil, nil
	}
	return &carddav.AddressBook{Path: b.e.getcollP, Name: "n", Description: "d"}, nil
}
func (b *cardDouble) CreateAddressBook(ctx context.Context, ab *carddav.AddressBook) error {
	recOf(ctx, b.rec).add("CreateAddressBook", ab.Path, "")
	return b.e.creat.err()
}
func (b *cardDouble) DeleteAddressBook(ctx context.Context, path string) error {
	recOf(ctx, b.rec).add("DeleteAddressBook", path, "")
	return b.e.delbook.err()
}
func (b *cardDouble) GetAddressObject(ctx context.Context, path string, req *carddav.AddressDataRequest) (*carddav.AddressObject, error) {
	if b.e.getobj.e.kind != "" {
		return nil, b.e.getobj.e.err()
	}
	if b.e.getobj.nil {
		return nil, nil
	}
	return b.obj(b.e.getobjV), nil
}
func (b *cardDouble) ListAddressObjects(ctx context.Context, path string, req *carddav.AddressDataRequest) ([]carddav.AddressObject, error) {
	if b.e.objs.e.kind != "" {
		return nil, b.e.objs.e.err()
	}
	return b.objs(b.e.objsV), nil
}
func (b *cardDouble) QueryAddressObjects(ctx context.Context, path string, q *carddav.AddressBookQuery) ([]carddav.AddressObject, error) {
	if b.e.query.e.kind != "" {
		return nil, b.e.query.e.err()
	}
	return b.objs(b.e.queryV), nil
}
func (b *cardDouble) PutAddressObject(ctx context.Context, path string, card vcard.Card, opts *carddav.PutAddressObjectOptions) (*carddav.AddressObject, error) {
	recOf(ctx, b.rec).add("PutAddressObject", path, "")
	if b.e.put.e.kind != "" {
		return nil, b.e.put.e.err()
	}
	if b.e.put.nil {
		return nil, nil
	}
	return b.obj(b.e.putV), nil
}
func (b *cardDouble) DeleteAddressObject(ctx context.Context, path string) error {
	recOf(ctx, b.rec).add("DeleteAddressObject", path, "")
	return b.e.del.err()
}
