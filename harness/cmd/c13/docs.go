package main

import (
	"bytes"
	"encoding/xml"
	"strings"

	"verifharness/hx"
)

const (
	nsDAV  = "DAV:"
	nsCal  = "urn:ietf:params:xml:ns:caldav"
	nsCard = "urn:ietf:params:xml:ns:carddav"
	nsX    = "http://example.org/x"
)

// doc is a document tree the generators build and mutate before it becomes bytes.
type doc struct {
	ns, local string
	attrs     [][3]string // ns, local, value
	kids      []*doc
	text      string // a text node when local == ""
	raw       string // emitted verbatim (comments, PIs) when set
}

func el(ns, local string, kids ...*doc) *doc { return &doc{ns: ns, local: local, kids: kids} }
func (d *doc) at(name, val string) *doc       { d.attrs = append(d.attrs, [3]string{"", name, val}); return d }
func tx(s string) *doc                        { return &doc{text: s} }

func (d *doc) clone() *doc {
	c := *d
	c.attrs = append([][3]string{}, d.attrs...)
	c.kids = nil
	for _, k := range d.kids {
		c.kids = append(c.kids, k.clone())
	}
	return &c
}

var prefixes = map[string]string{nsDAV: "D", nsCal: "C", nsCard: "A", nsX: "X"}

func esc(s string) string {
	var b bytes.Buffer
	xml.EscapeText(&b, []byte(s))
	return b.String()
}

func qname(ns, local string) string {
	if ns == "" {
		return local
	}
	if ns == "xmlns-decl" {
		return "xmlns:" + local
	}
	if p, ok := prefixes[ns]; ok {
		return p + ":" + local
	}
	return "Q:" + local
}

func (d *doc) write(sb *strings.Builder, top bool) {
	if d.raw != "" {
		sb.WriteString(d.raw)
		return
	}
	if d.local == "" {
		sb.WriteString(esc(d.text))
		return
	}
	sb.WriteString("<" + qname(d.ns, d.local))
	if top {
		sb.WriteString(` xmlns:D="DAV:" xmlns:C="` + nsCal + `" xmlns:A="` + nsCard + `" xmlns:X="` + nsX + `" xmlns:Q="urn:q"`)
	}
	for _, a := range d.attrs {
		sb.WriteString(" " + qname(a[0], a[1]) + `="` + esc(a[2]) + `"`)
	}
	if len(d.kids) == 0 {
		sb.WriteString("/>")
		return
	}
	sb.WriteString(">")
	for _, k := range d.kids {
		k.write(sb, false)
	}
	sb.WriteString("</" + qname(d.ns, d.local) + ">")
}

func (d *doc) bytes(decl bool) []byte {
	var sb strings.Builder
	if decl {
		sb.WriteString(`<?xml version="1.0" encoding="utf-8"?>` + "\n")
	}
	d.write(&sb, true)
	return []byte(sb.String())
}

// all element nodes, parents first
func (d *doc) elems(out *[]*doc) {
	if d.local == "" || d.raw != "" {
		return
	}
	*out = append(*out, d)
	for _, k := range d.kids {
		k.elems(out)
	}
}

// ---------------------------------------------------------------- value pools

var goodDates = []string{"20200101T000000Z", "20240229T235959Z", "20000229T120000Z", "00000101T000000Z", "99991231T235959Z"}
var badDates = []string{"", "20200101", "20200101T000000", "20201301T000000Z", "20200230T000000Z", "19000229T000000Z",
	"20200101T240000Z", "20200101T006000Z", "20200101T000060Z", "2020-01-01T00:00:00Z", "20200101T000000.5Z", "20200101T0000.5Z",
	"20200100T000000Z", "20200001T000000Z", "20200431T000000Z", " 0200101T000000Z", "+0200101T000000Z", "20200101t000000Z", "20200101T000000z",
	"20200101T0000001", "20200101T9:0405Z", "2020010１T00000Z", "20200101T000000ZZ", "20210229T000000Z", "20200101T00000 Z"}
var yesNo = []string{"yes", "no"}
var badYesNo = []string{"", "YES", "true", "0", "yes ", "nope"}
var tests = []string{"anyof", "allof"}
var badTests = []string{"", "oneof", "ANYOF", "any of"}
var matchTypes = []string{"equals", "contains", "starts-with", "ends-with"}
var badMatchTypes = []string{"", "regex", "Equals", "startswith"}
var limits = []string{"1", "0", "10", "", "007", " 5 ", "\t3\n", "18446744073709551615", "9223372036854775807", "9223372036854775808", " 5", "5 "}
var badLimits = []string{"-1", "+1", "1_0", "abc", "18446744073709551616", "99999999999999999999999", " ", "1 2", "0x10", "５", "1.0", "​5"}
var names = []string{"VCALENDAR", "VEVENT", "VTODO", "SUMMARY", "ATTENDEE", "PARTSTAT", "FN", "EMAIL", "TYPE", "", "x y"}
var hrefs = []string{"/u/h/c/o.vk.ics", "/u/h/c/p.vl.ics", "/u/h/c/q.ve.ics", "http://example.org/a%20b", "", "rel/path", "%zz", "http://[::1", "/a b", ":bad"}

// ---------------------------------------------------------------- valid documents

func genTimeRange(r *hx.Rand) *doc {
	t := el(nsCal, "time-range")
	if r.Chance(3, 4) {
		t.at("start", r.Pick(goodDates))
	}
	if r.Chance(3, 4) {
		t.at("end", r.Pick(goodDates))
	}
	return t
}

func genTextMatch(r *hx.Rand, ns string) *doc {
	t := el(ns, "text-match", tx(r.Pick([]string{"abc", "", "a&b<c", "ü"})))
	if r.Chance(1, 3) {
		t.at("collation", "i;ascii-casemap")
	}
	if r.Chance(1, 2) {
		t.at("negate-condition", r.Pick(yesNo))
	}
	if ns == nsCard && r.Chance(1, 2) {
		t.at("match-type", r.Pick(matchTypes))
	}
	return t
}

func genParamFilter(r *hx.Rand, ns string) *doc {
	p := el(ns, "param-filter").at("name", r.Pick(names))
	switch r.Intn(3) {
	case 0:
		p.kids = append(p.kids, el(ns, "is-not-defined"))
	case 1:
		p.kids = append(p.kids, genTextMatch(r, ns))
	}
	return p
}

func genCalPropFilter(r *hx.Rand) *doc {
	p := el(nsCal, "prop-filter").at("name", r.Pick(names))
	if r.Chance(1, 4) {
		p.kids = append(p.kids, el(nsCal, "is-not-defined"))
		return p
	}
	if r.Chance(1, 3) {
		p.kids = append(p.kids, genTimeRange(r))
	} else if r.Chance(1, 2) {
		p.kids = append(p.kids, genTextMatch(r, nsCal))
	}
	for i := r.Intn(3); i > 0; i-- {
		p.kids = append(p.kids, genParamFilter(r, nsCal))
	}
	return p
}

func genCompFilter(r *hx.Rand, depth int) *doc {
	c := el(nsCal, "comp-filter").at("name", r.Pick(names))
	if r.Chance(1, 6) {
		c.kids = append(c.kids, el(nsCal, "is-not-defined"))
		return c
	}
	if r.Chance(1, 3) {
		c.kids = append(c.kids, genTimeRange(r))
	}
	for i := r.Intn(3); i > 0; i-- {
		c.kids = append(c.kids, genCalPropFilter(r))
	}
	if depth > 0 {
		for i := r.Intn(3); i > 0; i-- {
			c.kids = append(c.kids, genCompFilter(r, depth-1))
		}
	}
	return c
}

func genComp(r *hx.Rand, depth int) *doc {
	c := el(nsCal, "comp").at("name", r.Pick(names))
	if r.Chance(1, 2) {
		c.kids = append(c.kids, el(nsCal, "allprop"))
	} else {
		for i := r.Intn(3); i > 0; i-- {
			c.kids = append(c.kids, el(nsCal, "prop").at("name", r.Pick(names)))
		}
	}
	if r.Chance(1, 2) || depth == 0 {
		c.kids = append(c.kids, el(nsCal, "allcomp"))
	} else {
		for i := r.Intn(3); i > 0; i-- {
			c.kids = append(c.kids, genComp(r, depth-1))
		}
	}
	return c
}

func genCalData(r *hx.Rand) *doc {
	cd := el(nsCal, "calendar-data")
	if r.Chance(2, 3) {
		cd.kids = append(cd.kids, genComp(r, 2))
	}
	if r.Chance(1, 3) {
		cd.kids = append(cd.kids, el(nsCal, "expand").at("start", r.Pick(goodDates)).at("end", r.Pick(goodDates)))
	}
	return cd
}

func genAddrData(r *hx.Rand) *doc {
	ad := el(nsCard, "address-data")
	if r.Chance(1, 3) {
		ad.kids = append(ad.kids, el(nsCard, "allprop"))
	} else {
		for i := r.Intn(3); i > 0; i-- {
			ad.kids = append(ad.kids, el(nsCard, "prop").at("name", r.Pick(names)))
		}
	}
	return ad
}

// the prop / allprop / propname part of a propfind or report
func genSelector(r *hx.Rand, data func(*hx.Rand) *doc) []*doc {
	switch r.Intn(8) {
	case 0:
		return []*doc{el(nsDAV, "allprop")}
	case 1:
		return []*doc{el(nsDAV, "propname")}
	case 2:
		return nil
	}
	p := el(nsDAV, "prop")
	for i := r.Intn(4); i > 0; i-- {
		p.kids = append(p.kids, el(r.Pick([]string{nsDAV, nsDAV, nsCal, nsCard, nsX, ""}),
			r.Pick([]string{"getetag", "resourcetype", "displayname", "getcontenttype", "current-user-principal", "calendar-home-set", "addressbook-home-set", "unknown"})))
	}
	if data != nil && r.Chance(3, 4) {
		p.kids = append(p.kids, data(r))
	}
	return []*doc{p}
}

func genPropfind(r *hx.Rand) *doc {
	d := el(nsDAV, "propfind", genSelector(r, nil)...)
	if r.Chance(1, 8) {
		d.kids = append(d.kids, el(nsDAV, "include", el(nsDAV, "getetag")))
	}
	return d
}

func genPropertyUpdate(r *hx.Rand) *doc {
	d := el(nsDAV, "propertyupdate")
	for i := r.Intn(4); i > 0; i-- {
		p := el(nsDAV, "prop", el(r.Pick([]string{nsDAV, nsX}), "displayname", tx("v")))
		d.kids = append(d.kids, el(nsDAV, r.Pick([]string{"set", "remove"}), p))
	}
	return d
}

func genMkcol(r *hx.Rand, card bool) *doc {
	rt := el(nsDAV, "resourcetype")
	if r.Chance(5, 6) {
		rt.kids = append(rt.kids, el(nsDAV, "collection"))
	}
	if r.Chance(5, 6) {
		if card {
			rt.kids = append(rt.kids, el(nsCard, "addressbook"))
		} else {
			rt.kids = append(rt.kids, el(nsCal, "calendar"))
		}
	}
	p := el(nsDAV, "prop", rt)
	if r.Chance(1, 2) {
		p.kids = append(p.kids, el(nsDAV, "displayname", tx("name")))
	}
	if r.Chance(1, 4) {
		p.kids = append(p.kids, el(r.Pick([]string{nsCard, nsDAV, nsCal}), r.Pick([]string{"addressbook-description", "calendar-description"}), tx("desc")))
	}
	return el(nsDAV, "mkcol", el(nsDAV, "set", p))
}

func genCalQuery(r *hx.Rand) *doc {
	d := el(nsCal, "calendar-query", genSelector(r, genCalData)...)
	d.kids = append(d.kids, el(nsCal, "filter", genCompFilter(r, 2)))
	return d
}

func genHrefs(r *hx.Rand) []*doc {
	var out []*doc
	for i := r.Intn(4); i > 0; i-- {
		h := hrefs[r.Intn(3)]
		if r.Chance(1, 5) {
			h = r.Pick(hrefs)
		}
		out = append(out, el(nsDAV, "href", tx(h)))
	}
	return out
}

func genCalMultiget(r *hx.Rand) *doc {
	d := el(nsCal, "calendar-multiget", genSelector(r, genCalData)...)
	d.kids = append(d.kids, genHrefs(r)...)
	return d
}

func genCardPropFilter(r *hx.Rand) *doc {
	p := el(nsCard, "prop-filter").at("name", r.Pick(names))
	if r.Chance(1, 2) {
		p.at("test", r.Pick(tests))
	}
	if r.Chance(1, 4) {
		p.kids = append(p.kids, el(nsCard, "is-not-defined"))
		return p
	}
	for i := r.Intn(3); i > 0; i-- {
		p.kids = append(p.kids, genTextMatch(r, nsCard))
	}
	for i := r.Intn(3); i > 0; i-- {
		p.kids = append(p.kids, genParamFilter(r, nsCard))
	}
	return p
}

func genCardQuery(r *hx.Rand) *doc {
	d := el(nsCard, "addressbook-query", genSelector(r, genAddrData)...)
	f := el(nsCard, "filter")
	if r.Chance(1, 2) {
		f.at("test", r.Pick(tests))
	}
	for i := r.Intn(4); i > 0; i-- {
		f.kids = append(f.kids, genCardPropFilter(r))
	}
	d.kids = append(d.kids, f)
	if r.Chance(1, 2) {
		d.kids = append(d.kids, el(nsCard, "limit", el(nsCard, "nresults", tx(r.Pick(limits)))))
	}
	return d
}

func genCardMultiget(r *hx.Rand) *doc {
	d := el(nsCard, "addressbook-multiget", genSelector(r, genAddrData)...)
	d.kids = append(d.kids, genHrefs(r)...)
	return d
}

var docKinds = []string{"propfind", "propertyupdate", "mkcol-cal", "mkcol-card", "cal-query", "cal-multiget", "card-query", "card-multiget"}

func genDoc(r *hx.Rand, kind string) *doc {
	switch kind {
	case "propfind":
		return genPropfind(r)
	case "propertyupdate":
		return genPropertyUpdate(r)
	case "mkcol-cal":
		return genMkcol(r, false)
	case "mkcol-card":
		return genMkcol(r, true)
	case "cal-query":
		return genCalQuery(r)
	case "cal-multiget":
		return genCalMultiget(r)
	case "card-query":
		return genCardQuery(r)
	}
	return genCardMultiget(r)
}

// ---------------------------------------------------------------- structure-aware mutation

var vocabulary = []string{"is-not-defined", "time-range", "text-match", "param-filter", "prop-filter", "comp-filter", "filter",
	"comp", "allcomp", "allprop", "prop", "expand", "calendar-data", "address-data", "limit", "nresults", "href", "propname",
	"set", "remove", "resourcetype", "displayname", "collection", "calendar", "addressbook", "propfind", "mkcol",
	"calendar-query", "calendar-multiget", "addressbook-query", "addressbook-multiget", "propertyupdate", "include", "bogus"}

func badValueFor(r *hx.Rand, attr string) string {
	switch attr {
	case "start", "end":
		return r.Pick(badDates)
	case "negate-condition":
		return r.Pick(badYesNo)
	case "test":
		return r.Pick(badTests)
	case "match-type":
		return r.Pick(badMatchTypes)
	}
	return r.Pick([]string{"", "\x00", "ü", "a\"b"})
}

// mutate applies one structural mutation in place (root may be replaced: the result is returned).
func mutate(r *hx.Rand, root *doc) *doc {
	var es []*doc
	root.elems(&es)
	if len(es) == 0 {
		return root
	}
	t := es[r.Intn(len(es))]
	nss := []string{nsDAV, nsCal, nsCard, nsX, ""}
	// half of the time aim at what the query grammar constrains: a typed attribute,
	// an exclusive sibling, a limit
	if r.Bool() {
		var typed, excl, sel []*doc
		for _, e := range es {
			switch e.local {
			case "time-range", "expand", "text-match", "filter":
				typed = append(typed, e)
			case "nresults":
				typed = append(typed, e)
			}
			switch e.local {
			case "comp-filter", "prop-filter", "param-filter":
				excl = append(excl, e)
			case "comp", "address-data":
				sel = append(sel, e)
			}
			if e.local == "prop-filter" && e.ns == nsCard {
				typed = append(typed, e)
			}
		}
		switch k := r.Intn(3); {
		case k == 0 && len(typed) > 0:
			e := typed[r.Intn(len(typed))]
			if e.local == "nresults" {
				e.kids = []*doc{tx(r.Pick(badLimits))}
				return root
			}
			var idx []int
			for i, a := range e.attrs {
				if a[1] != "name" && a[1] != "collation" {
					idx = append(idx, i)
				}
			}
			if len(idx) > 0 {
				i := idx[r.Intn(len(idx))]
				e.attrs[i][2] = badValueFor(r, e.attrs[i][1])
			} else {
				a := map[string]string{"time-range": "start", "expand": "end", "text-match": "negate-condition", "filter": "test", "prop-filter": "test"}[e.local]
				e.at(a, badValueFor(r, a))
			}
			return root
		case k == 1 && len(excl) > 0:
			e := excl[r.Intn(len(excl))]
			e.kids = append(e.kids, el(e.ns, "is-not-defined"))
			return root
		case k == 2 && len(sel) > 0:
			e := sel[r.Intn(len(sel))]
			e.kids = append(e.kids, el(e.ns, r.Pick([]string{"allprop", "allcomp", "prop", "comp"})))
			return root
		}
	}
	switch r.Intn(13) {
	case 0: // delete an element
		if t != root {
			for _, p := range es {
				for i, k := range p.kids {
					if k == t {
						p.kids = append(append([]*doc{}, p.kids[:i]...), p.kids[i+1:]...)
						return root
					}
				}
			}
		}
	case 1: // duplicate an element
		for _, p := range es {
			for i, k := range p.kids {
				if k == t {
					nk := append(append([]*doc{}, p.kids[:i+1]...), t.clone())
					p.kids = append(nk, p.kids[i+1:]...)
					return root
				}
			}
		}
	case 2: // rename
		t.local = r.Pick(vocabulary)
	case 3: // swap the namespace
		t.ns = r.Pick(nss)
	case 4: // corrupt an attribute value
		if len(t.attrs) > 0 {
			i := r.Intn(len(t.attrs))
			t.attrs[i][2] = badValueFor(r, t.attrs[i][1])
		} else {
			t.at(r.Pick([]string{"start", "end", "negate-condition", "test", "match-type", "name"}), badValueFor(r, "start"))
		}
	case 5: // add an exclusive sibling
		t.kids = append(t.kids, el(t.ns, r.Pick([]string{"is-not-defined", "allprop", "allcomp", "prop", "comp", "time-range", "text-match", "param-filter"})))
	case 6: // add an attribute with a good or bad value
		a := r.Pick([]string{"start", "end", "negate-condition", "test", "match-type", "name"})
		v := badValueFor(r, a)
		if r.Bool() {
			v = r.Pick(append(append(append([]string{}, goodDates...), yesNo...), append(tests, matchTypes...)...))
		}
		t.attrs = append(t.attrs, [3]string{r.Pick([]string{"", "", nsX, "xmlns-decl"}), a, v})
	case 7: // move a subtree somewhere else
		o := es[r.Intn(len(es))]
		o.kids = append(o.kids, t.clone())
	case 8: // replace text
		t.kids = append(t.kids, tx(r.Pick(append(append([]string{}, badLimits...), limits...))))
	case 9: // corrupt a limit or an href
		if t.local == "nresults" || t.local == "href" {
			t.kids = []*doc{tx(r.Pick(append(append([]string{}, badLimits...), hrefs...)))}
		} else {
			t.kids = append(t.kids, &doc{raw: "<!-- c -->"}, &doc{raw: "<?pi x?>"})
		}
	case 10: // wrap the root
		return el(r.Pick(nss), r.Pick(vocabulary), root)
	case 11: // nest an element into a copy of itself
		t.kids = append(t.kids, t.clone())
	case 12: // interleave text
		t.kids = append([]*doc{tx(" x ")}, t.kids...)
	}
	return root
}
