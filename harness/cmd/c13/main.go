// Command c13 drives the real webdav, caldav and carddav handlers and
// webdav.ServePrincipal, with scripted backend doubles, inside recover, and
// records status and mutating backend calls.
//
// Case line:  (<server> <backend double> (req ...derived parses... (raw <content-type> <destination> <body>))) (resp <status> (<call> <arg> <arg2>)...) | (panic)
//
// Streams: an exhaustive grid (server x method x hierarchy level x header values x
// body kinds x backend doubles), structure-aware mutations of generated valid
// documents, truncation at every offset, random bytes, nesting beyond
// encoding/xml's depth limit.
package main

import (
	"flag"
	"fmt"
	"os"
	"runtime"
	"strings"
	"sync"
	"time"

	"verifharness/hx"
)

// ---------------------------------------------------------------- backend doubles

var errPool = []gerr{{"d", 404}, {"d", 403}, {"d", 409}, {"d", 412}, {"d", 500}, {"d", 507}, {"w", 404}, {"w", 403}, {"p", 0}, {"x", 0}, {"d", 501}}
var insaneErrs = []gerr{{"d", 0}, {"d", 99}, {"d", 1000}, {"w", 42}, {"d", 200}, {"d", 302}, {"d", 999}, {"d", 600}}

func pickErr(r *hx.Rand, insane bool) gerr {
	if insane && r.Chance(1, 2) {
		return insaneErrs[r.Intn(len(insaneErrs))]
	}
	return errPool[r.Intn(len(errPool))]
}

// maybe returns a scripted failure with probability 1/n
func maybe(r *hx.Rand, n int, insane, ptr bool) res {
	if !r.Chance(1, n) {
		return res{}
	}
	if ptr && insane && r.Chance(1, 2) {
		return res{nil: true}
	}
	return res{e: pickErr(r, insane)}
}

func maybeErr(r *hx.Rand, n int, insane bool) gerr {
	if !r.Chance(1, n) {
		return gerr{}
	}
	return pickErr(r, insane)
}

func genObjs(r *hx.Rand, ext string) []objd {
	var out []objd
	for i := r.Intn(3); i > 0; i-- {
		v := r.Pick([]string{"k", "k", "k", "e", "l"})
		out = append(out, objd{path: fmt.Sprintf("/u/h/c/o%d.v%s.%s", i, v, ext), variant: v})
	}
	return out
}

func genDavEnv(r *hx.Rand, card bool, failEvery int, insane bool) *davEnv {
	ext := "ics"
	if card {
		ext = "vcf"
	}
	e := &davEnv{card: card, has: !r.Chance(1, 60), prefix: r.Pick([]string{"", "", "/", "/dav", "/dav/", "/dav", "/dav/", "/dav/./", "//dav", "/dav//", "dav", "/DAV", "/dav/../dav"})}
	pre := strings.TrimSuffix(e.prefix, "/")
	e.principal = maybe(r, failEvery, insane, false)
	e.principalP = pre + r.Pick([]string{"/u/", "/u", "/u/", "/other/", "/u/", "/u//", "/./u/"})
	e.homeset = maybe(r, failEvery, insane, false)
	e.homeP = pre + r.Pick([]string{"/u/h/", "/u/h", "/u/h/", "/u/x/", "/u/h/", "/u//h/", "/u/h/./"})
	e.colls = maybe(r, failEvery, insane, false)
	for i := r.Intn(3); i > 0; i-- {
		e.collPaths = append(e.collPaths, fmt.Sprintf("%s/u/h/c%d/", pre, i))
	}
	e.getcoll = maybe(r, failEvery, insane, true)
	e.getcollP = pre + "/u/h/c/"
	e.getobj = maybe(r, failEvery, insane, true)
	v := r.Pick([]string{"k", "k", "k", "e", "l"})
	e.getobjV = objd{path: pre + "/u/h/c/o.v" + v + "." + ext, variant: v}
	e.objs = maybe(r, failEvery, insane, false)
	e.objsV = genObjs(r, ext)
	e.query = maybe(r, failEvery, insane, false)
	e.queryV = genObjs(r, ext)
	e.put = maybe(r, failEvery, insane, true)
	e.putV = objd{path: r.Pick([]string{"", pre + "/u/h/c/new.vk." + ext}), variant: "k"}
	e.del = maybeErr(r, failEvery, insane)
	e.delbook = maybeErr(r, failEvery, insane)
	e.creat = maybeErr(r, failEvery, insane)
	return e
}

func genFsEnv(r *hx.Rand, failEvery int, insane bool) *fsEnv {
	e := &fsEnv{has: !r.Chance(1, 60)}
	e.stat = maybe(r, failEvery, insane, true)
	e.statDir = r.Bool()
	e.open = maybeErr(r, failEvery, insane)
	e.readdir = maybe(r, failEvery, insane, false)
	for i := r.Intn(3); i > 0; i-- {
		e.children = append(e.children, r.Bool())
	}
	e.create = maybe(r, failEvery, insane, true)
	e.createDir = false
	e.created = r.Bool()
	e.removeall = maybeErr(r, failEvery, insane)
	e.mkdir = maybeErr(r, failEvery, insane)
	e.copy = maybe(r, failEvery, insane, false)
	e.copyCreated = r.Bool()
	e.move = maybe(r, failEvery, insane, false)
	e.moveCreat = r.Bool()
	return e
}

var servers = []string{"dav", "cal", "card", "principal"}

func withEnv(r *hx.Rand, server string, req *rawReq, failEvery int, insane bool) *kase {
	// the request may be shared by several cases: every case gets its own copy
	q := *req
	q.normalise()
	k := &kase{server: server, req: &q}
	switch server {
	case "dav":
		k.fs = genFsEnv(r, failEvery, insane)
	case "cal":
		k.dav = genDavEnv(r, false, failEvery, insane)
	case "card":
		k.dav = genDavEnv(r, true, failEvery, insane)
	default:
		k.nilOpt = insane && r.Chance(1, 4)
	}
	return k
}

// ---------------------------------------------------------------- request pools

var methods = []string{"OPTIONS", "GET", "HEAD", "PUT", "DELETE", "PROPFIND", "PROPPATCH", "MKCOL", "COPY", "MOVE", "REPORT", "POST", "FOO", "", "propfind"}
var paths = []string{"/", "/u", "/u/", "/u/h", "/u/h/", "/u/h/c", "/u/h/c/", "/u/h/c/o.ics", "/u/h/c/o/deeper", "/.well-known/caldav", "/.well-known/carddav",
	"", "u", "/u/../u/h", "//u//h//c", "/dav/u/h/c", "/dav", "/a b/é/%41"}
var depths = []string{"", "0", "1", "infinity", "2", "Infinity", " 1", "-1"}
var overwrites = []string{"", "T", "F", "X", "t", "TT"}
var dests = []string{"", "/d", "/u/h/c/d.ics", "http://example.org/d", "%zz", "http://[::1", "rel", ":", "/a%20b"}

// every other shape url.Parse accepts: no path at all (scheme+host, scheme-relative,
// only a query, only a fragment, userinfo/port), opaque references, "*", a
// percent-encoded first byte, dot segments, relative paths, a very long path
var destShapes = []string{"http://example.com", "//host", "?x=1", "#frag", "mailto:a@b", "urn:x", "*",
	"http://user:pw@example.com:8080", "https://example.com:8443", "http://example.com?x=1", "http://example.com#f",
	"%2Fd", "%2fu%2Fh", "/%2e%2e/x", "/d?x=1#f", "../up", "./d", "d/e", "//host/d", "http://example.com/", "/" + strings.Repeat("a", 3000),
	"http://" + strings.Repeat("h", 300) + ".example/d", " /d", "/d ", "\\d", "file:///etc/passwd", "HTTP://EXAMPLE.COM/D"}

func init() { dests = append(dests, destShapes...) }

var destsBase = 9 // the first entries of dests are crossed with every Depth and Overwrite value
var ctypes = []string{"", "application/xml", "text/xml; charset=utf-8", "TEXT/XML", "text/plain", "text/calendar", "text/calendar; charset=utf-8",
	"text/vcard", "text/vcard;charset=utf-8", "application/xml; bad", "application/xml;charset", ";;;", "application/", "text/x-vcard", "application/xml+foo", "text/calendar; x=\"y"}

const icalGood = "BEGIN:VCALENDAR\r\nVERSION:2.0\r\nPRODID:-//x//EN\r\nBEGIN:VEVENT\r\nUID:1\r\nDTSTAMP:20200101T000000Z\r\nEND:VEVENT\r\nEND:VCALENDAR\r\n"
const vcardGood = "BEGIN:VCARD\r\nVERSION:4.0\r\nFN:N\r\nEND:VCARD\r\n"

var objBodies = []string{icalGood, vcardGood, "", "BEGIN:VCALENDAR\r\n", "garbage", "BEGIN:VCARD\r\nFN:N\r\n", "BEGIN:VCALENDAR\r\nEND:VCARD\r\n",
	"A;B=c\r\n", "A;B=\"c\"d\r\n", "BEGIN:VCALENDAR\r\nA;B=c", "BEGIN:VCARD\r\nA;B=c\r\nEND:VCARD\r\n", "\xff\xfe", "BEGIN:VCALENDAR\r\nX\r\nEND:VCALENDAR\r\n", ":\r\n", "END:VCALENDAR\r\n"}

var xmlBodies = []string{
	"", " \n", "<!-- only a comment -->", "<?xml version=\"1.0\"?>", "<", "<a", "<a>", "<a></b>", "<a/>", "not xml", "<?xml version=\"1.0\" encoding=\"latin1\"?><a/>",
	`<D:propfind xmlns:D="DAV:"><D:allprop/></D:propfind>`, `<D:propfind xmlns:D="DAV:"><D:propname/></D:propfind>`,
	`<D:propfind xmlns:D="DAV:"><D:prop><D:getetag/><D:unknown/></D:prop></D:propfind>`, `<D:propfind xmlns:D="DAV:"/>`,
	`<propfind><allprop/></propfind>`, `<D:propfind xmlns:D="DAV:"><D:allprop/>`, `<D:propfind xmlns:D="DAV:"><allprop xmlns="x"/></D:propfind>`,
	`<D:propertyupdate xmlns:D="DAV:"><D:set><D:prop><D:displayname>x</D:displayname></D:prop></D:set></D:propertyupdate>`,
	`<D:propertyupdate xmlns:D="DAV:"/>`,
	`<D:mkcol xmlns:D="DAV:" xmlns:C="` + nsCal + `"><D:set><D:prop><D:resourcetype><D:collection/><C:calendar/></D:resourcetype><D:displayname>n</D:displayname></D:prop></D:set></D:mkcol>`,
	`<D:mkcol xmlns:D="DAV:" xmlns:C="` + nsCard + `"><D:set><D:prop><D:resourcetype><D:collection/><C:addressbook/></D:resourcetype></D:prop></D:set></D:mkcol>`,
	`<D:mkcol xmlns:D="DAV:" xmlns:C="` + nsCard + `"><D:set><D:prop><D:resourcetype><D:collection/><C:addressbook/></D:resourcetype><D:addressbook-description>d</D:addressbook-description></D:prop></D:set></D:mkcol>`,
	`<D:mkcol xmlns:D="DAV:"><D:set><D:prop><D:resourcetype><D:collection/></D:resourcetype></D:prop></D:set></D:mkcol>`,
	`<C:calendar-query xmlns:D="DAV:" xmlns:C="` + nsCal + `"><D:prop><D:getetag/><C:calendar-data/></D:prop><C:filter><C:comp-filter name="VCALENDAR"/></C:filter></C:calendar-query>`,
	`<C:calendar-query xmlns:C="` + nsCal + `"><C:filter><C:comp-filter name="VCALENDAR"><C:is-not-defined/><C:comp-filter name="VEVENT"/></C:comp-filter></C:filter></C:calendar-query>`,
	`<C:calendar-multiget xmlns:D="DAV:" xmlns:C="` + nsCal + `"><D:prop><D:getetag/></D:prop><D:href>/u/h/c/o.vk.ics</D:href></C:calendar-multiget>`,
	`<C:addressbook-query xmlns:D="DAV:" xmlns:C="` + nsCard + `"><D:prop><D:getetag/><C:address-data/></D:prop><C:filter><C:prop-filter name="FN"/></C:filter></C:addressbook-query>`,
	`<C:addressbook-query xmlns:D="DAV:" xmlns:C="` + nsCard + `"><D:allprop/><C:filter/><C:limit><C:nresults>0</C:nresults></C:limit></C:addressbook-query>`,
	`<C:addressbook-multiget xmlns:D="DAV:" xmlns:C="` + nsCard + `"><D:prop><D:getetag/></D:prop><D:href>/u/h/c/o.vk.vcf</D:href></C:addressbook-multiget>`,
}

func main() {
	// the process zone is not UTC: a handler that formats a time without .UTC() shows
	time.Local = time.FixedZone("HarnessLocal", -7*3600)
	out := flag.String("out", "", "output file")
	replay := flag.String("replay", "", "file of case lines to re-run (inputs are re-executed)")
	flag.Parse()
	sink := hx.NewSink(*out)
	defer sink.Close()

	if *replay != "" {
		w := newWire()
		defer w.srv.Close()
		for _, l := range hx.ReadLines(*replay) {
			items := hx.MustParse(l)
			sink.Put(parseKase(items[0]).line(w))
		}
		return
	}

	thorough := hx.Tier() == "thorough"
	jobs := make(chan *job, 4096)
	extra := make(chan *job, 4096)
	work := make(chan *kase, 4096)
	go func() {
		for k := range work {
			jobs <- &job{steps: []*kase{k}}
		}
		close(jobs)
	}()
	var wg sync.WaitGroup
	nw := runtime.NumCPU() / 2
	if nw < 2 {
		nw = 2
	}
	if nw > 8 {
		nw = 8
	}
	for w := 0; w < nw; w++ {
		wg.Add(1)
		go func() {
			defer wg.Done()
			wr := newWire()
			defer wr.srv.Close()
			for j := range jobs {
				for _, l := range j.lines(wr) {
					sink.Put(l)
				}
			}
			for j := range extra {
				for _, l := range j.lines(wr) {
					sink.Put(l)
				}
			}
		}()
	}

	rng := hx.NewRand(hx.Seed())
	var sessions []*job

	// ---- 1. the grid: every method x every hierarchy level, header values from valid,
	// boundary and invalid sets, a few bodies, against a healthy and an unhealthy double
	envRounds := 2
	gridN := 0
	if thorough {
		envRounds = 6
	}
	for _, srv := range servers {
		for _, m := range methods {
			for _, p := range paths {
				var variants []*rawReq
				base := rawReq{method: m, path: p}
				switch strings.ToUpper(m) {
				case "PROPFIND":
					for _, d := range depths {
						for _, ct := range []string{"", "application/xml", "text/plain", "application/xml; bad"} {
							for _, b := range []string{"", xmlBodies[1], xmlBodies[11], xmlBodies[13], xmlBodies[14], xmlBodies[4], xmlBodies[8], xmlBodies[24]} {
								q := base
								q.depth, q.ctype, q.body = d, ct, []byte(b)
								variants = append(variants, &q)
							}
						}
					}
				case "COPY", "MOVE":
					for _, d := range depths {
						for _, o := range overwrites {
							for _, ds := range dests[:destsBase] {
								q := base
								q.depth, q.overwrite, q.dest = d, o, ds
								variants = append(variants, &q)
							}
						}
					}
					for _, d := range []string{"", "0", "2"} {
						for _, o := range []string{"", "F", "X"} {
							for _, ds := range dests[destsBase:] {
								q := base
								q.depth, q.overwrite, q.dest = d, o, ds
								variants = append(variants, &q)
							}
						}
					}
				case "PUT":
					for _, ct := range ctypes {
						for _, b := range objBodies {
							q := base
							q.ctype, q.body = ct, []byte(b)
							variants = append(variants, &q)
						}
					}
				case "PROPPATCH", "MKCOL", "REPORT":
					for _, ct := range []string{"", "application/xml", "text/xml; charset=utf-8", "text/plain", "application/xml; bad", ";;;"} {
						for _, b := range xmlBodies {
							q := base
							q.ctype, q.body = ct, []byte(b)
							variants = append(variants, &q)
						}
					}
				default:
					for _, d := range []string{"", "1", "2"} {
						q := base
						q.depth = d
						variants = append(variants, &q)
					}
					q := base
					q.ctype, q.body = "application/xml", []byte(xmlBodies[4])
					variants = append(variants, &q)
				}
				// the way the body is delivered: every form for MKCOL, one rotating form
				// for the other methods that read a body
				switch strings.ToUpper(m) {
				case "MKCOL":
					level3 := p == "/u/h/c" || p == "/u/h/c/" || p == "//u//h//c" || p == "/dav/u/h/c"
					for _, v := range variants {
						for _, d := range deliveries[1:] {
							if !thorough && !level3 {
								gridN++
								if gridN%(len(deliveries)-1) != 0 {
									continue
								}
							}
							q := *v
							q.delivery = d
							work <- withEnv(rng, srv, &q, 1<<30, false)
						}
					}
				case "PROPFIND", "PUT", "PROPPATCH", "REPORT":
					for _, v := range variants {
						q := *v
						gridN++
						q.delivery = deliveries[1+gridN%(len(deliveries)-1)]
						work <- withEnv(rng, srv, &q, 1<<30, false)
					}
				}
				for _, v := range variants {
					for round := 0; round < envRounds; round++ {
						switch {
						case round == 0:
							work <- withEnv(rng, srv, v, 1<<30, false) // nothing fails
						case round%2 == 1:
							work <- withEnv(rng, srv, v, 3, false) // sane failures
						default:
							work <- withEnv(rng, srv, v, 3, true) // nil results, status codes out of range
						}
					}
				}
			}
		}
	}

	// ---- 2. structure-aware mutation of valid documents
	nDocs := 6000
	if thorough {
		nDocs = 24000
	}
	methodFor := map[string]string{"propfind": "PROPFIND", "propertyupdate": "PROPPATCH", "mkcol-cal": "MKCOL", "mkcol-card": "MKCOL",
		"cal-query": "REPORT", "cal-multiget": "REPORT", "card-query": "REPORT", "card-multiget": "REPORT"}
	serverFor := map[string][]string{"propfind": servers, "propertyupdate": {"dav", "cal", "card"}, "mkcol-cal": {"cal"}, "mkcol-card": {"card"},
		"cal-query": {"cal"}, "cal-multiget": {"cal"}, "card-query": {"card"}, "card-multiget": {"card"}}
	emit := func(kind string, body []byte) {
		srv := rng.Pick(serverFor[kind])
		if rng.Chance(1, 25) {
			srv = rng.Pick(servers)
		}
		req := &rawReq{method: methodFor[kind], path: rng.Pick(paths[:9]), ctype: "application/xml", body: body}
		if kind == "mkcol-cal" || kind == "mkcol-card" {
			req.path = rng.Pick([]string{"/u/h/c", "/u/h/c/", "/u/h/new", "/u/h"})
		}
		if rng.Chance(1, 20) {
			req.ctype = rng.Pick(ctypes)
		}
		if rng.Chance(1, 20) {
			req.method = rng.Pick(methods)
		}
		if rng.Chance(1, 10) {
			req.depth = rng.Pick(depths)
		}
		if rng.Chance(3, 5) {
			req.delivery = deliveries[1+rng.Intn(len(deliveries)-1)]
		}
		fail := 12
		work <- withEnv(rng, srv, req, fail, rng.Chance(1, 10))
	}
	for i := 0; i < nDocs; i++ {
		kind := docKinds[i%len(docKinds)]
		d := genDoc(rng, kind)
		emit(kind, d.bytes(rng.Bool())) // the valid document
		for j := 0; j < 4; j++ {
			m := d.clone()
			for n := 1 + rng.Intn(3); n > 0; n-- {
				m = mutate(rng, m)
			}
			emit(kind, m.bytes(rng.Bool()))
		}
		// truncation at every offset for small documents (every 7th document)
		if b := d.bytes(false); len(b) <= 400 && i%7 == 0 {
			for cut := 0; cut < len(b); cut++ {
				emit(kind, b[:cut])
			}
		}
		// byte-level damage
		b := d.bytes(true)
		for j := 0; j < 2 && len(b) > 0; j++ {
			c := append([]byte{}, b...)
			for n := 1 + rng.Intn(3); n > 0; n-- {
				c[rng.Intn(len(c))] = byte(rng.Intn(256))
			}
			emit(kind, c)
		}
	}

	// ---- 3. random bytes as bodies, random header strings
	nRand := 4000
	if thorough {
		nRand = 40000
	}
	alphabet := []byte("<>/=\"' :;\r\n\tabcDxml?!-[]&#BEGINVCALENDARVCARD0129\x00\xff\xc2\xa0")
	for i := 0; i < nRand; i++ {
		body := make([]byte, rng.Intn(60))
		for j := range body {
			if rng.Chance(1, 8) {
				body[j] = byte(rng.Intn(256))
			} else {
				body[j] = alphabet[rng.Intn(len(alphabet))]
			}
		}
		req := &rawReq{method: rng.Pick(methods), path: rng.Pick(paths), depth: rng.Pick(depths), overwrite: rng.Pick(overwrites),
			dest: rng.Pick(dests), ctype: rng.Pick(ctypes), body: body}
		if rng.Chance(1, 3) {
			req.body = []byte(rng.Pick(objBodies))
		}
		if rng.Chance(1, 2) {
			req.delivery = deliveries[1+rng.Intn(len(deliveries)-1)]
		}
		work <- withEnv(rng, rng.Pick(servers), req, 6, rng.Chance(1, 5))
	}

	// ---- 4. nesting around encoding/xml's depth limit (10000)
	for _, n := range []int{4990, 4998, 4999, 5000, 5001, 9990, 10001} {
		var sb strings.Builder
		sb.WriteString(`<C:calendar-query xmlns:D="DAV:" xmlns:C="` + nsCal + `"><D:allprop/><C:filter>`)
		for i := 0; i < n; i++ {
			sb.WriteString(`<C:comp-filter name="x">`)
		}
		for i := 0; i < n; i++ {
			sb.WriteString(`</C:comp-filter>`)
		}
		sb.WriteString(`</C:filter></C:calendar-query>`)
		req := &rawReq{method: "REPORT", path: "/u/h/c/", ctype: "application/xml", body: []byte(sb.String())}
		work <- withEnv(rng, "cal", req, 1<<30, false)
		sb.Reset()
		sb.WriteString(`<D:propfind xmlns:D="DAV:"><D:prop>`)
		for i := 0; i < 2*n; i++ {
			sb.WriteString(`<D:x>`)
		}
		for i := 0; i < 2*n; i++ {
			sb.WriteString(`</D:x>`)
		}
		sb.WriteString(`</D:prop></D:propfind>`)
		req = &rawReq{method: "PROPFIND", path: "/u/", ctype: "application/xml", body: []byte(sb.String())}
		work <- withEnv(rng, "dav", req, 1<<30, false)
	}

	// ---- 5. sessions, overlapping requests, sizes, spellings (generator audit)
	audit(rng, thorough, func(j *job) { sessions = append(sessions, j) }, func(k *kase) { work <- k })

	close(work)
	for _, j := range sessions {
		extra <- j
	}
	close(extra)
	wg.Wait()
	fmt.Fprintf(os.Stderr, "c13: %d cases\n", sink.N)
}
