package main

import (
	"fmt"
	"strings"

	"verifharness/hx"
)

// header spellings beyond the grid's: other letter case, blanks, signs, padding, lists
var depthSpell = []string{"0 ", " 0", "00", "+0", "-0", "01", "1 ", "INFINITY", "Infinity", "infinity ", " infinity", "infinite", "0, 1", "0,infinity", "1;q=1", "\t0", "0x0", "٠"}
var overwriteSpell = []string{"t", "f", " T", "T ", "F ", "TRUE", "true", "1", "0", "T, F", "T,T", "FT", "\tF", "Ｔ"}
var ctypeSpell = []string{" application/xml", "application/xml ", "Application/XML", "APPLICATION/XML; CHARSET=UTF-8", "application/xml;charset=utf-8",
	"application/xml ;charset=utf-8", "application/xml; charset=\"utf-8\"", "application/xml, text/xml", "text/xml;", "application / xml",
	"TEXT/CALENDAR", "text/calendar ", " text/calendar", "Text/Calendar; Component=VEVENT", "TEXT/VCARD", "text/vcard ; charset=utf-8", "text/vcard, text/calendar",
	"application/xml; charset=utf-8; charset=utf-8", "application/xml; " + strings.Repeat("p=v; ", 900) + "q=r", strings.Repeat("x", 4097) + "/xml"}

func pad(n int, doc string) string {
	// a document of n bytes: the valid document preceded by a comment of the right length
	if n <= len(doc)+9 {
		return doc
	}
	return "<!--" + strings.Repeat("c", n-len(doc)-7) + "-->" + doc
}

var sizePoints = []int{511, 512, 513, 1023, 1024, 1025, 4095, 4096, 4097, 8191, 8192, 8193, 32767, 32768, 32769, 65535, 65536, 65537}

func audit(rng *hx.Rand, thorough bool, session func(*job), single func(*kase)) {
	envFor := func(srv string, failEvery int, insane bool) *kase { return withEnv(rng, srv, &rawReq{}, failEvery, insane) }
	withReq := func(env *kase, req *rawReq) *kase {
		q := *req
		q.normalise()
		if q.delivery == "chunked" {
			q.delivery = "unknown" // sessions stay on the one handler value
		}
		k := *env
		k.req = &q
		return &k
	}
	randReq := func(srv string) *rawReq {
		m := rng.Pick([]string{"PROPFIND", "PROPFIND", "REPORT", "MKCOL", "PUT", "GET", "HEAD", "DELETE", "OPTIONS", "COPY", "MOVE", "PROPPATCH", "FOO"})
		req := &rawReq{method: m, path: rng.Pick(paths[:11])}
		switch m {
		case "PROPFIND":
			req.depth = rng.Pick(depths)
			if rng.Chance(2, 3) {
				req.ctype, req.body = "application/xml", genDoc(rng, "propfind").bytes(rng.Bool())
			}
		case "REPORT":
			kind := rng.Pick([]string{"cal-query", "cal-multiget", "card-query", "card-multiget"})
			d := genDoc(rng, kind)
			if rng.Chance(1, 3) {
				d = mutate(rng, d)
			}
			req.ctype, req.body = "application/xml", d.bytes(rng.Bool())
		case "MKCOL":
			req.path = rng.Pick([]string{"/u/h/c", "/u/h/c/", "/u/h/new", "/u/h"})
			if rng.Bool() {
				req.ctype, req.body = "application/xml", genDoc(rng, rng.Pick([]string{"mkcol-cal", "mkcol-card"})).bytes(false)
			}
		case "PUT":
			req.ctype, req.body = rng.Pick([]string{"text/calendar", "text/vcard", "text/plain"}), []byte(rng.Pick(objBodies))
		case "COPY", "MOVE":
			req.dest, req.overwrite, req.depth = rng.Pick(dests), rng.Pick(overwrites), rng.Pick(depths)
		case "PROPPATCH":
			req.ctype, req.body = "application/xml", genDoc(rng, "propertyupdate").bytes(false)
		}
		if rng.Chance(1, 3) {
			req.delivery = deliveries[rng.Intn(len(deliveries))]
		}
		return req
	}

	// ---- item 1: 2-5 consecutive requests on ONE handler value and ONE backend value.
	// The backend's answers may change between the steps (another user: other principal and
	// home set; a failure that comes and goes), the handler must not remember anything.
	nSessions := 2500
	if thorough {
		nSessions = 25000
	}
	for i := 0; i < nSessions; i++ {
		srv := servers[i%len(servers)]
		base := envFor(srv, 8, rng.Chance(1, 12))
		n := 2 + rng.Intn(4)
		j := &job{}
		var first *rawReq
		for s := 0; s < n; s++ {
			env := base
			if s > 0 && rng.Chance(1, 2) && base.dav != nil {
				// another user on the same handler
				e2 := *base.dav
				fresh := envFor(srv, 8, false).dav
				e2.principal, e2.principalP, e2.homeset, e2.homeP = fresh.principal, strings.Replace(fresh.principalP, "/u", "/v", 1), fresh.homeset, strings.Replace(fresh.homeP, "/u", "/v", 1)
				e2.getobj, e2.query, e2.put = fresh.getobj, fresh.query, fresh.put
				k := *base
				k.dav = &e2
				env = &k
			} else if s > 0 && rng.Chance(1, 3) && base.fs != nil {
				k := *base
				k.fs = envFor(srv, 4, false).fs
				k.fs.has = base.fs.has
				env = &k
			}
			req := randReq(srv)
			if s == 0 {
				first = req
			} else if rng.Chance(1, 4) {
				// the same request again, or the same with one thing changed
				c := *first
				if rng.Bool() {
					c.depth = rng.Pick(depths)
				}
				req = &c
			}
			j.steps = append(j.steps, withReq(env, req))
		}
		session(j)
	}
	// designed sequences: what step k leaves behind would show in step k+1
	designed := [][]rawReq{
		{{method: "PROPFIND", path: "/u/", depth: "0", ctype: "application/xml", body: []byte(xmlBodies[13])}, {method: "PROPFIND", path: "/u/", depth: "1"}, {method: "PROPFIND", path: "/u/", depth: "0", ctype: "application/xml", body: []byte(xmlBodies[12])}},
		{{method: "PROPFIND", path: "/u/h/c/", depth: "2"}, {method: "PROPFIND", path: "/u/h/c/", depth: ""}, {method: "PROPFIND", path: "/u/h/c/", depth: "2"}},
		{{method: "MKCOL", path: "/u/h/c", ctype: "application/xml", body: []byte("<")}, {method: "MKCOL", path: "/u/h/c"}, {method: "MKCOL", path: "/u/h/c", ctype: "application/xml", body: []byte(xmlBodies[20])}, {method: "MKCOL", path: "/u/h/c", ctype: "application/xml", body: []byte(xmlBodies[21])}},
		{{method: "PUT", path: "/u/h/c/o.ics", ctype: "text/calendar", body: []byte("A;B=\"c\"d\r\n")}, {method: "PUT", path: "/u/h/c/o.ics", ctype: "text/calendar", body: []byte(icalGood)}, {method: "GET", path: "/u/h/c/o.ics"}, {method: "PUT", path: "/u/h/c/o.vcf", ctype: "text/vcard", body: []byte(vcardGood)}},
		{{method: "REPORT", path: "/u/h/c/", ctype: "application/xml", body: []byte(xmlBodies[25])}, {method: "REPORT", path: "/u/h/c/", ctype: "application/xml", body: []byte(xmlBodies[24])}, {method: "REPORT", path: "/u/h/c/", ctype: "application/xml", body: []byte(xmlBodies[27])}, {method: "REPORT", path: "/u/h/c/", ctype: "text/plain", body: []byte(xmlBodies[24])}},
		{{method: "COPY", path: "/a", dest: "?x=1"}, {method: "COPY", path: "/a", dest: "/b", overwrite: "F"}, {method: "MOVE", path: "/a", dest: "/b", depth: "0"}, {method: "MOVE", path: "/a", dest: "/b"}},
		{{method: "OPTIONS", path: "/u/h/c/o.ics"}, {method: "DELETE", path: "/u/h/c/o.ics"}, {method: "OPTIONS", path: "/u/h/c/o.ics"}, {method: "DELETE", path: "/u/h/c"}, {method: "DELETE", path: "/u"}},
	}
	for rep := 0; rep < 40; rep++ {
		for _, seq := range designed {
			for _, srv := range servers {
				base := envFor(srv, []int{1 << 30, 1 << 30, 5}[rep%3], false)
				j := &job{}
				for i := range seq {
					j.steps = append(j.steps, withReq(base, &seq[i]))
				}
				session(j)
			}
		}
	}

	// several users on one handler value: the answers about the current user change from
	// request to request (ok -> error -> another principal -> ok)
	for rep := 0; rep < 60; rep++ {
		for _, srv := range []string{"cal", "card"} {
			base := envFor(srv, 1<<30, false)
			wk := "/.well-known/caldav"
			if srv == "card" {
				wk = "/.well-known/carddav"
			}
			users := []func(e *davEnv){
				func(e *davEnv) {},
				func(e *davEnv) { e.principal = res{e: errPool[rep%len(errPool)]} },
				func(e *davEnv) { e.principalP, e.homeP = "/v/", "/v/h/" },
				func(e *davEnv) { e.homeset = res{e: errPool[(rep+3)%len(errPool)]} },
				func(e *davEnv) {},
			}
			reqs := [][]rawReq{
				{{method: "GET", path: wk}, {method: "GET", path: wk}, {method: "GET", path: wk}, {method: "GET", path: wk}, {method: "GET", path: wk}},
				{{method: "PROPFIND", path: "/u/", depth: "0"}, {method: "PROPFIND", path: "/u/", depth: "0"}, {method: "PROPFIND", path: "/u/", depth: "1"}, {method: "PROPFIND", path: "/u/h/", depth: "1"}, {method: "PROPFIND", path: "/v/", depth: "1"}},
				{{method: "PROPFIND", path: "/", depth: "0"}, {method: "PROPFIND", path: "/", depth: "0"}, {method: "PROPFIND", path: "/v/h/", depth: "0"}, {method: "PROPFIND", path: "/v/h/", depth: "0"}, {method: "PROPFIND", path: "/u/h", depth: "infinity"}},
			}[rep%3]
			j := &job{}
			for i := range reqs {
				e2 := *base.dav
				e2.prefix = ""
				e2.principalP, e2.homeP = "/u/", "/u/h/"
				users[i](&e2)
				k := *base
				k.dav = &e2
				j.steps = append(j.steps, withReq(&k, &reqs[i]))
			}
			session(j)
		}
	}

	// ---- item 7: overlapping requests on ONE handler value and ONE backend value (same
	// answers for all of them); each is judged by the model like a sequential one
	nOverlap := 150
	if thorough {
		nOverlap = 1500
	}
	for i := 0; i < nOverlap; i++ {
		srv := servers[i%len(servers)]
		base := envFor(srv, 8, false)
		j := &job{overlap: true}
		for s := 0; s < 12; s++ {
			j.steps = append(j.steps, withReq(base, randReq(srv)))
		}
		session(j)
	}

	// ---- item 5: sizes around the buffers of encoding/xml (bufio 4096), net/http sniffing (512),
	// io.Copy (32 KiB), 64 KiB: bodies, attribute and header values, numbers of siblings, long lines
	points := sizePoints
	if !thorough {
		points = []int{512, 4095, 4096, 4097, 32768, 65537}
	}
	for _, n := range points {
		for _, srv := range []string{"dav", "cal", "card"} {
			for _, dv := range []string{"exact", "unknown", "onebyte"} {
				if dv == "onebyte" && n > 5000 {
					continue
				}
				single(withEnv(rng, srv, &rawReq{method: "PROPFIND", path: "/u/", ctype: "application/xml", body: []byte(pad(n, xmlBodies[11])), delivery: dv}, 1<<30, false))
				single(withEnv(rng, srv, &rawReq{method: "PROPFIND", path: "/u/", ctype: "application/xml", body: []byte(pad(n, xmlBodies[11])[:n-1]), delivery: dv}, 1<<30, false))
				single(withEnv(rng, srv, &rawReq{method: "PROPPATCH", path: "/u/", ctype: "application/xml", body: []byte(pad(n, xmlBodies[18])), delivery: dv}, 1<<30, false))
				single(withEnv(rng, srv, &rawReq{method: "MKCOL", path: "/u/h/c", ctype: "application/xml", body: []byte(pad(n, xmlBodies[20])), delivery: dv}, 1<<30, false))
				single(withEnv(rng, srv, &rawReq{method: "MKCOL", path: "/u/h/c", ctype: "application/xml", body: []byte(strings.Repeat(" ", n)), delivery: dv}, 1<<30, false))
			}
			// a name of n bytes, n prop-filters, n/16 hrefs
			name := strings.Repeat("N", n)
			single(withEnv(rng, srv, &rawReq{method: "REPORT", path: "/u/h/c/", ctype: "application/xml",
				body: []byte(`<C:calendar-query xmlns:D="DAV:" xmlns:C="` + nsCal + `"><D:allprop/><C:filter><C:comp-filter name="` + name + `"><C:is-not-defined/></C:comp-filter></C:filter></C:calendar-query>`)}, 1<<30, false))
			var sb strings.Builder
			sb.WriteString(`<C:addressbook-query xmlns:D="DAV:" xmlns:C="` + nsCard + `"><D:allprop/><C:filter>`)
			for i := 0; i < n/64+1; i++ {
				sb.WriteString(`<C:prop-filter name="FN"><C:text-match>x</C:text-match></C:prop-filter>`)
			}
			sb.WriteString(`</C:filter><C:limit><C:nresults>` + strings.Repeat("0", n%600) + `7</C:nresults></C:limit></C:addressbook-query>`)
			single(withEnv(rng, srv, &rawReq{method: "REPORT", path: "/u/h/c/", ctype: "application/xml", body: []byte(sb.String())}, 1<<30, false))
			sb.Reset()
			sb.WriteString(`<C:calendar-multiget xmlns:D="DAV:" xmlns:C="` + nsCal + `"><D:prop><D:getetag/></D:prop>`)
			for i := 0; i < n/32+1; i++ {
				sb.WriteString(fmt.Sprintf(`<D:href>/u/h/c/o%d.vk.ics</D:href>`, i))
			}
			sb.WriteString(`</C:calendar-multiget>`)
			single(withEnv(rng, srv, &rawReq{method: "REPORT", path: "/u/h/c/", ctype: "application/xml", body: []byte(sb.String())}, 1<<30, false))
			// iCalendar / vCard with one long content line
			long := strings.Repeat("d", n)
			single(withEnv(rng, srv, &rawReq{method: "PUT", path: "/u/h/c/o.ics", ctype: "text/calendar",
				body: []byte("BEGIN:VCALENDAR\r\nVERSION:2.0\r\nPRODID:-//x//EN\r\nBEGIN:VEVENT\r\nUID:1\r\nDTSTAMP:20200101T000000Z\r\nDESCRIPTION:" + long + "\r\nEND:VEVENT\r\nEND:VCALENDAR\r\n")}, 1<<30, false))
			single(withEnv(rng, srv, &rawReq{method: "PUT", path: "/u/h/c/o.vcf", ctype: "text/vcard",
				body: []byte("BEGIN:VCARD\r\nVERSION:4.0\r\nFN:" + long + "\r\nEND:VCARD\r\n")}, 1<<30, false))
			// header values and a path of that size
			single(withEnv(rng, srv, &rawReq{method: "PROPFIND", path: "/u/", depth: strings.Repeat("1", n)}, 1<<30, false))
			single(withEnv(rng, srv, &rawReq{method: "COPY", path: "/u/" + name, dest: "/" + name, overwrite: strings.Repeat("T", n)}, 1<<30, false))
			single(withEnv(rng, srv, &rawReq{method: "PROPFIND", path: "/u/", ctype: "application/xml; x=" + name, body: []byte(xmlBodies[11])}, 1<<30, false))
		}
	}
	// nesting of comp inside calendar-data around encoding/xml's depth limit (comp-filter and
	// DAV:prop nesting are in stream 4)
	for _, n := range []int{4990, 4997, 4998, 4999, 5000, 5001} {
		var sb strings.Builder
		sb.WriteString(`<C:calendar-multiget xmlns:D="DAV:" xmlns:C="` + nsCal + `"><D:prop><C:calendar-data>`)
		for i := 0; i < n; i++ {
			sb.WriteString(`<C:comp name="x">`)
		}
		for i := 0; i < n; i++ {
			sb.WriteString(`</C:comp>`)
		}
		sb.WriteString(`</C:calendar-data></D:prop><D:href>/u/h/c/o.vk.ics</D:href></C:calendar-multiget>`)
		single(withEnv(rng, "cal", &rawReq{method: "REPORT", path: "/u/h/c/", ctype: "application/xml", body: []byte(sb.String())}, 1<<30, false))
	}

	// ---- item 6: spellings of the headers the handlers parse, and repeated header lines
	for _, srv := range servers {
		for _, p := range []string{"/", "/u/", "/u/h/c", "/u/h/c/o.ics"} {
			for _, d := range depthSpell {
				for _, m := range []string{"PROPFIND", "COPY", "MOVE"} {
					single(withEnv(rng, srv, &rawReq{method: m, path: p, depth: d, dest: "/d"}, 1<<30, false))
				}
			}
			for _, o := range overwriteSpell {
				for _, m := range []string{"COPY", "MOVE"} {
					single(withEnv(rng, srv, &rawReq{method: m, path: p, overwrite: o, dest: "/d"}, 1<<30, false))
				}
			}
			for _, ct := range ctypeSpell {
				single(withEnv(rng, srv, &rawReq{method: "PROPFIND", path: p, ctype: ct, body: []byte(xmlBodies[11])}, 1<<30, false))
				single(withEnv(rng, srv, &rawReq{method: "REPORT", path: p, ctype: ct, body: []byte(xmlBodies[24])}, 1<<30, false))
				single(withEnv(rng, srv, &rawReq{method: "PUT", path: p, ctype: ct, body: []byte(icalGood)}, 1<<30, false))
				single(withEnv(rng, srv, &rawReq{method: "PUT", path: p, ctype: ct, body: []byte(vcardGood)}, 1<<30, false))
				single(withEnv(rng, srv, &rawReq{method: "MKCOL", path: p, ctype: ct, body: []byte(xmlBodies[20])}, 1<<30, false))
			}
			// every header twice: the first line counts
			for _, m := range []string{"PROPFIND", "COPY", "MOVE", "PUT", "MKCOL", "REPORT", "PROPPATCH"} {
				for _, hv := range [][4]string{{"0", "T", "/d", "application/xml"}, {"infinity", "F", "/d", "text/calendar"}, {"2", "X", "%zz", "text/plain"}, {"", "", "", "text/vcard"}} {
					single(withEnv(rng, srv, &rawReq{method: m, path: p, depth: hv[0], overwrite: hv[1], dest: hv[2], ctype: hv[3], body: []byte(xmlBodies[11]), dup: true,
						delivery: []string{"exact", "chunked"}[rng.Intn(2)]}, 1<<30, false))
				}
			}
		}
	}
}
