package main

import (
	"bytes"
	"context"
	"encoding/xml"
	"fmt"
	"io"
	"mime"
	"net/http"
	"net/http/httptest"
	"net/url"
	"reflect"
	"strings"
	"sync"

	"github.com/emersion/go-ical"
	"github.com/emersion/go-vcard"
	"github.com/emersion/go-webdav"
	"github.com/emersion/go-webdav/caldav"
	"github.com/emersion/go-webdav/carddav"

	"verifharness/hx"
)

// rawReq is what goes over the wire, as far as the handlers read it.
type rawReq struct {
	method, path                  string
	depth, overwrite, dest, ctype string
	body                          []byte
	// how the body reaches the handler: "exact" (ContentLength = len), "unknown"
	// (ContentLength -1, a reader of undisclosed type, as net/http hands over a chunked
	// body), "larger" / "smaller" (a ContentLength that disagrees with the bytes),
	// "nobody" (http.NoBody, ContentLength 0; empty bodies only), "chunked" (sent to a
	// real httptest.Server with Transfer-Encoding: chunked)
	// also: "closefail" (reads succeed, Close fails), "dataeof" (the reader returns the
	// last bytes together with io.EOF), "onebyte" (one byte per Read)
	delivery string
	// every header that is present is followed by a second line with another value
	// (Header.Get returns the first)
	dup bool
}

var deliveries = []string{"exact", "unknown", "larger", "smaller", "nobody", "chunked", "closefail", "dataeof", "onebyte"}

type failCloser struct{ io.Reader }

func (failCloser) Close() error { return fmt.Errorf("close failed") }

// slowReader hands out at most [step] bytes per Read (0 = all that fits) and, when
// [withEOF], reports io.EOF together with the last bytes.  A zero-length Read reports
// io.EOF exactly when nothing is left, as the bodies of net/http do.
type slowReader struct {
	b       []byte
	step    int
	withEOF bool
}

func (r *slowReader) Read(p []byte) (int, error) {
	if len(r.b) == 0 {
		return 0, io.EOF
	}
	if len(p) == 0 {
		return 0, nil
	}
	n := len(p)
	if r.step > 0 && n > r.step {
		n = r.step
	}
	if n > len(r.b) {
		n = len(r.b)
	}
	copy(p, r.b[:n])
	r.b = r.b[n:]
	if len(r.b) == 0 && r.withEOF {
		return n, io.EOF
	}
	return n, nil
}

// ---- the parses the model takes as inputs, computed with the real libraries

type xnode struct {
	kind       byte // 'e' element, 't' text, 'o' other
	ns, local  string
	attrs      []xml.Attr
	kids       []*xnode
	text       string
}

func readElem(d *xml.Decoder, start xml.StartElement) (*xnode, error) {
	n := &xnode{kind: 'e', ns: start.Name.Space, local: start.Name.Local, attrs: start.Attr}
	for {
		tok, err := d.Token()
		if err != nil {
			return nil, err
		}
		switch t := tok.(type) {
		case xml.StartElement:
			k, err := readElem(d, t.Copy())
			if err != nil {
				return nil, err
			}
			n.kids = append(n.kids, k)
		case xml.EndElement:
			return n, nil
		case xml.CharData:
			n.kids = append(n.kids, &xnode{kind: 't', text: string(t)})
		default:
			n.kids = append(n.kids, &xnode{kind: 'o'})
		}
	}
}

// parseXML reads the body as Decoder.Decode does: tokens up to the first start
// element, then that element.  "e" = EOF before any element, "s" = an error.
func parseXML(body []byte) (root *xnode, state string) {
	defer func() {
		if r := recover(); r != nil {
			root, state = nil, "s"
		}
	}()
	d := xml.NewDecoder(bytes.NewReader(body))
	for {
		tok, err := d.Token()
		if err == io.EOF {
			return nil, "e"
		}
		if err != nil {
			return nil, "s"
		}
		if st, ok := tok.(xml.StartElement); ok {
			n, err := readElem(d, st.Copy())
			if err != nil {
				return nil, "s"
			}
			return n, "t"
		}
	}
}

func (n *xnode) sx(sb *strings.Builder) {
	switch n.kind {
	case 't':
		sb.WriteString("(tx " + hx.S(n.text) + ")")
	case 'o':
		sb.WriteString("o")
	default:
		sb.WriteString("(el " + hx.S(n.ns) + " " + hx.S(n.local) + " (")
		for i, a := range n.attrs {
			if i > 0 {
				sb.WriteByte(' ')
			}
			sb.WriteString(hx.L(hx.S(a.Name.Space), hx.S(a.Name.Local), hx.S(a.Value)))
		}
		sb.WriteString(")")
		for _, k := range n.kids {
			sb.WriteByte(' ')
			k.sx(sb)
		}
		sb.WriteString(")")
	}
}

func (n *xnode) hrefTexts(out map[string]bool) {
	if n.kind != 'e' {
		return
	}
	if n.local == "href" {
		var t string
		for _, k := range n.kids {
			if k.kind == 't' {
				t += k.text
			}
		}
		_, err := url.Parse(t)
		out[t] = err == nil
	}
	for _, k := range n.kids {
		k.hrefTexts(out)
	}
}

func icalOK(body []byte) (ok bool) {
	defer func() {
		if r := recover(); r != nil {
			ok = false
		}
	}()
	_, err := ical.NewDecoder(bytes.NewReader(body)).Decode()
	return err == nil
}

func vcardOK(body []byte) (ok bool) {
	defer func() {
		if r := recover(); r != nil {
			ok = false
		}
	}()
	_, err := vcard.NewDecoder(bytes.NewReader(body)).Decode()
	return err == nil
}

func (r *rawReq) sx() string {
	dest := "a"
	if r.dest != "" {
		if u, err := url.Parse(r.dest); err != nil {
			dest = "b"
		} else {
			dest = hx.L("p", hx.S(u.Path))
		}
	}
	media, _, merr := mime.ParseMediaType(r.ctype)
	root, state := parseXML(r.body)
	xmls := state
	urls := []string{"urls"}
	if state == "t" {
		var sb strings.Builder
		root.sx(&sb)
		xmls = "(t " + sb.String() + ")"
		m := map[string]bool{}
		root.hrefTexts(m)
		for t, ok := range m {
			urls = append(urls, hx.L(hx.S(t), hx.B(ok)))
		}
	}
	return hx.L("req", hx.S(r.method), hx.S(r.path), hx.S(r.depth), hx.S(r.overwrite), dest,
		hx.B(r.ctype != ""), hx.S(media), hx.B(merr != nil), hx.B(len(r.body) == 0), xmls,
		hx.B(icalOK(r.body)), hx.B(vcardOK(r.body)), hx.L(urls...),
		hx.L("raw", hx.S(r.ctype), hx.S(r.dest), hx.S(string(r.body)), r.deliveryOr(), hx.B(r.dup)))
}

func (r *rawReq) deliveryOr() string {
	if r.delivery == "" {
		return "exact"
	}
	return r.delivery
}

// normalise replaces a delivery form the request cannot take by the nearest one
func (r *rawReq) normalise() {
	switch r.delivery {
	case "nobody":
		if len(r.body) != 0 {
			r.delivery = "unknown"
		}
	case "smaller":
		if len(r.body) < 2 {
			r.delivery = "larger"
		}
	case "chunked":
		if !r.wireSafe() {
			r.delivery = "unknown"
		}
	case "":
		r.delivery = "exact"
	}
}

func tokenOK(s string) bool {
	if s == "" {
		return false
	}
	for _, c := range []byte(s) {
		if !(c >= 'A' && c <= 'Z' || c >= 'a' && c <= 'z') {
			return false
		}
	}
	return true
}

func headerOK(s string) bool {
	if s != strings.TrimSpace(s) {
		return false
	}
	for _, c := range []byte(s) {
		if c < 0x20 || c > 0x7e {
			return false
		}
	}
	return true
}

// wireSafe: the request survives net/http's client and server unchanged
func (r *rawReq) wireSafe() bool {
	if !tokenOK(r.method) || !strings.HasPrefix(r.path, "/") || strings.ContainsAny(r.path, "?#") {
		return false
	}
	if r.method == "CONNECT" || strings.EqualFold(r.method, "HEAD") && len(r.body) > 0 {
		return false
	}
	return headerOK(r.depth) && headerOK(r.overwrite) && headerOK(r.dest) && headerOK(r.ctype)
}

func parseRawReq(x hx.Sx) *rawReq {
	a := x.Args()
	raw := a[len(a)-1].Args()
	r := &rawReq{method: a[0].Str(), path: a[1].Str(), depth: a[2].Str(), overwrite: a[3].Str(),
		ctype: raw[0].Str(), dest: raw[1].Str(), body: []byte(raw[2].Str()), delivery: "exact"}
	if len(raw) > 3 {
		r.delivery = raw[3].Atom
	}
	if len(raw) > 4 {
		r.dup = raw[4].Bool()
	}
	r.normalise()
	return r
}

// httpRequest builds the request as net/http hands it to a handler, without the
// validation of http.NewRequest (any method, any path).
func (r *rawReq) httpRequest() *http.Request {
	h := http.Header{}
	if r.depth != "" {
		h.Set("Depth", r.depth)
	}
	if r.overwrite != "" {
		h.Set("Overwrite", r.overwrite)
	}
	if r.dest != "" {
		h.Set("Destination", r.dest)
	}
	if r.ctype != "" {
		h.Set("Content-Type", r.ctype)
	}
	req := &http.Request{
		Method: r.method, URL: &url.URL{Path: r.path}, Proto: "HTTP/1.1", ProtoMajor: 1, ProtoMinor: 1,
		Header: h, Body: io.NopCloser(bytes.NewReader(r.body)), ContentLength: int64(len(r.body)), Host: "example.org",
		RequestURI: r.path,
	}
	switch r.delivery {
	case "unknown":
		req.Body = io.NopCloser(struct{ io.Reader }{bytes.NewReader(r.body)})
		req.ContentLength = -1
		req.TransferEncoding = []string{"chunked"}
	case "larger":
		req.ContentLength = int64(len(r.body)) + 7
	case "smaller":
		req.ContentLength = int64(len(r.body)) - 1
	case "nobody":
		req.Body = http.NoBody
		req.ContentLength = 0
	case "closefail":
		req.Body = failCloser{bytes.NewReader(r.body)}
	case "dataeof":
		req.Body = io.NopCloser(&slowReader{b: append([]byte{}, r.body...), withEOF: true})
	case "onebyte":
		req.Body = io.NopCloser(&slowReader{b: append([]byte{}, r.body...), step: 1})
	}
	if r.dup {
		for _, n := range []string{"Depth", "Overwrite", "Destination", "Content-Type"} {
			if h.Get(n) != "" {
				h.Add(n, "second-line/value")
			}
		}
	}
	return req
}

// a case: which server, its backend double, the request
type kase struct {
	server string // dav, cal, card, principal
	fs     *fsEnv
	dav    *davEnv
	nilOpt bool
	req    *rawReq
}

func (k *kase) sx() string {
	switch k.server {
	case "dav":
		return hx.L("dav", k.fs.sx(), k.req.sx())
	case "cal":
		return hx.L("cal", k.dav.sx(), k.req.sx())
	case "card":
		return hx.L("card", k.dav.sx(), k.req.sx())
	}
	return hx.L("principal", hx.B(k.nilOpt), k.req.sx())
}

func parseKase(x hx.Sx) *kase {
	k := &kase{server: x.Head()}
	a := x.Args()
	switch k.server {
	case "dav":
		k.fs = parseFsEnv(a[0])
	case "cal":
		k.dav = parseDavEnv(a[0], false)
	case "card":
		k.dav = parseDavEnv(a[0], true)
	default:
		k.nilOpt = a[0].Bool()
	}
	k.req = parseRawReq(a[1])
	return k
}

// served is one handler value with its backend double; a case run on its own gets a
// fresh one, a session shares one over several requests.
type served struct {
	server   string
	dav      *webdav.Handler
	fsd      *fsDouble
	cal      *caldav.Handler
	cald     *calDouble
	card     *carddav.Handler
	cardd    *cardDouble
	opts     *webdav.ServePrincipalOptions
	optsCopy webdav.ServePrincipalOptions
	prefix   string
	backend  interface{}
}

func newPrincipalOptions() *webdav.ServePrincipalOptions {
	return &webdav.ServePrincipalOptions{
		CurrentUserPrincipalPath: "/u/",
		HomeSets:                 []webdav.BackendSuppliedHomeSet{caldav.NewCalendarHomeSet("/u/cal/"), carddav.NewAddressBookHomeSet("/u/card/")},
		Capabilities:             []webdav.Capability{caldav.CapabilityCalendar, carddav.CapabilityAddressBook},
	}
}

func newServed(k *kase) *served {
	s := &served{server: k.server}
	switch k.server {
	case "dav":
		s.dav = &webdav.Handler{}
		if k.fs.has {
			s.fsd = &fsDouble{e: k.fs, rec: &recorder{}}
			s.dav.FileSystem = s.fsd
		}
	case "cal":
		s.cal = &caldav.Handler{Prefix: k.dav.prefix}
		if k.dav.has {
			s.cald = &calDouble{e: k.dav, rec: &recorder{}}
			s.cal.Backend = s.cald
		}
		s.prefix, s.backend = s.cal.Prefix, s.cal.Backend
	case "card":
		s.card = &carddav.Handler{Prefix: k.dav.prefix}
		if k.dav.has {
			s.cardd = &cardDouble{e: k.dav, rec: &recorder{}}
			s.card.Backend = s.cardd
		}
		s.prefix, s.backend = s.card.Prefix, s.card.Backend
	default:
		if !k.nilOpt {
			s.opts = newPrincipalOptions()
			s.optsCopy = *newPrincipalOptions()
		}
	}
	return s
}

// setEnv makes the (same) backend value answer as the next case says
func (s *served) setEnv(k *kase) {
	switch {
	case s.fsd != nil:
		s.fsd.e = k.fs
	case s.cald != nil:
		s.cald.e = k.dav
	case s.cardd != nil:
		s.cardd.e = k.dav
	}
}

func (s *served) serve(w http.ResponseWriter, req *http.Request) {
	switch s.server {
	case "dav":
		s.dav.ServeHTTP(w, req)
	case "cal":
		s.cal.ServeHTTP(w, req)
	case "card":
		s.card.ServeHTTP(w, req)
	default:
		webdav.ServePrincipal(w, req, s.opts)
	}
}

// modified reports whether the call changed what the caller handed in: the options of
// ServePrincipal, the configuration of the handler
func (s *served) modified() bool {
	switch s.server {
	case "cal":
		return s.cal.Prefix != s.prefix || s.cal.Backend != s.backend
	case "card":
		return s.card.Prefix != s.prefix || s.card.Backend != s.backend
	case "principal":
		return s.opts != nil && !reflect.DeepEqual(*s.opts, s.optsCopy)
	}
	return false
}

// observeOn runs the real handler inside recover, on a request built by hand; the
// mutating calls of this request are collected through its context.
func (k *kase) observeOn(s *served) (obs string) {
	rec := &recorder{}
	w := httptest.NewRecorder()
	defer func() {
		if r := recover(); r != nil {
			obs = "(panic)"
		}
	}()
	req := k.req.httpRequest()
	req = req.WithContext(context.WithValue(context.Background(), recKey{}, rec))
	s.serve(w, req)
	if s.modified() {
		return "(modified-argument)"
	}
	items := []string{"resp", fmt.Sprint(w.Code)}
	items = append(items, rec.calls...)
	return hx.L(items...)
}

func (k *kase) observe() (obs string) {
	defer func() {
		if r := recover(); r != nil {
			obs = "(panic)"
		}
	}()
	return k.observeOn(newServed(k))
}

// wire is one real HTTP server + client: net/http's own request framing (chunked
// transfer coding, its body type, ContentLength -1) is in the loop.
type wire struct {
	srv    *httptest.Server
	client *http.Client
	cur    *kase
	rec    *recorder
	status int
	panic  bool
	skew   string
}

type statusWriter struct {
	http.ResponseWriter
	w *wire
}

func (s *statusWriter) WriteHeader(code int) {
	if s.w.status == 0 {
		s.w.status = code
	}
	s.ResponseWriter.WriteHeader(code)
}

func (s *statusWriter) Write(p []byte) (int, error) {
	if s.w.status == 0 {
		s.w.status = 200
	}
	return s.ResponseWriter.Write(p)
}

func newWire() *wire {
	w := &wire{}
	w.srv = httptest.NewServer(http.HandlerFunc(func(rw http.ResponseWriter, r *http.Request) {
		k := w.cur
		q := k.req
		if r.Method != q.method || r.URL.Path != q.path || r.Header.Get("Depth") != q.depth || r.Header.Get("Overwrite") != q.overwrite ||
			r.Header.Get("Destination") != q.dest || r.Header.Get("Content-Type") != q.ctype {
			w.skew = fmt.Sprintf("%q %q", r.Method, r.URL.Path)
			return
		}
		defer func() {
			if p := recover(); p != nil {
				w.panic = true
			}
		}()
		r = r.WithContext(context.WithValue(r.Context(), recKey{}, w.rec))
		newServed(k).serve(&statusWriter{rw, w}, r)
	}))
	w.client = &http.Client{CheckRedirect: func(*http.Request, []*http.Request) error { return http.ErrUseLastResponse }}
	return w
}

func (w *wire) observe(k *kase) string {
	w.cur, w.rec, w.status, w.panic, w.skew = k, &recorder{}, 0, false, ""
	q := k.req
	req, err := http.NewRequest(q.method, w.srv.URL, struct{ io.Reader }{bytes.NewReader(q.body)})
	if err != nil {
		return "(wire-error)"
	}
	req.URL.Path = q.path
	req.ContentLength = -1
	req.TransferEncoding = []string{"chunked"}
	for n, v := range map[string]string{"Depth": q.depth, "Overwrite": q.overwrite, "Destination": q.dest, "Content-Type": q.ctype} {
		if v != "" {
			req.Header.Set(n, v)
			if q.dup {
				req.Header.Add(n, "second-line/value")
			}
		}
	}
	resp, err := w.client.Do(req)
	if err == nil {
		io.Copy(io.Discard, resp.Body)
		resp.Body.Close()
	}
	switch {
	case w.skew != "":
		return "(skew " + hx.S(w.skew) + ")"
	case w.panic:
		return "(panic)"
	case err != nil:
		return "(wire-error)"
	}
	status := w.status
	if status == 0 {
		status = 200
	}
	items := []string{"resp", fmt.Sprint(status)}
	items = append(items, w.rec.calls...)
	return hx.L(items...)
}

// line computes the case line; nothing the harness calls can kill it
func (k *kase) line(w *wire) (out string) {
	defer func() {
		if r := recover(); r != nil {
			out = "(harness-panic " + hx.S(fmt.Sprint(r)) + ") (panic)"
		}
	}()
	if k.req.delivery == "chunked" {
		return k.sx() + " " + w.observe(k)
	}
	return k.sx() + " " + k.observe()
}

// a job is one case, or a session: several cases served by ONE handler value and ONE
// backend value, one after the other or (overlap) at the same time
type job struct {
	steps   []*kase
	overlap bool
}

func (j *job) lines(w *wire) []string {
	if len(j.steps) == 1 && !j.overlap {
		return []string{j.steps[0].line(w)}
	}
	out := make([]string, len(j.steps))
	var s *served
	func() {
		defer func() { recover() }()
		s = newServed(j.steps[0])
	}()
	if s == nil {
		return nil
	}
	step := func(i int) {
		defer func() {
			if r := recover(); r != nil {
				out[i] = "(harness-panic " + hx.S(fmt.Sprint(r)) + ") (panic)"
			}
		}()
		k := j.steps[i]
		out[i] = k.sx() + " " + k.observeOn(s)
	}
	if j.overlap {
		var wg sync.WaitGroup
		for i := range j.steps {
			wg.Add(1)
			go func(i int) { defer wg.Done(); step(i) }(i)
		}
		wg.Wait()
		return out
	}
	for i := range j.steps {
		s.setEnv(j.steps[i])
		step(i)
	}
	return out
}
