package main

import (
	"bytes"
	"encoding/xml"
	"fmt"
	"io"
	"mime"
	"net/http"
	"net/http/httptest"
	"net/url"
	"strings"

	"github.com/emersion/go-ical"
	"github.com/emersion/go-vcard"
	"github.com/emersion/go-webdav"
	"github.com/emersion/go-webdav/caldav"
	"github.com/emersion/go-webdav/carddav"

	"verifharness/hx"
)

// rawReq is what goes over the wire, as far as the handlers read it.
type rawReq struct {
	method, path                  string
	depth, overwrite, dest, ctype string
	body                          []byte
}

// ---- the parses the model takes as inputs, computed with the real libraries

type xnode struct {
	kind       byte // 'e' element, 't' text, 'o' other
	ns, local  string
	attrs      []xml.Attr
	kids       []*xnode
	text       string
}

func readElem(d *xml.Decoder, start xml.StartElement) (*xnode, error) {
	n := &xnode{kind: 'e', ns: start.Name.Space, local: start.Name.Local, attrs: start.Attr}
	for {
		tok, err := d.Token()
		if err != nil {
			return nil, err
		}
		switch t := tok.(type) {
		case xml.StartElement:
			k, err := readElem(d, t.Copy())
			if err != nil {
				return nil, err
			}
			n.kids = append(n.kids, k)
		case xml.EndElement:
			return n, nil
		case xml.CharData:
			n.kids = append(n.kids, &xnode{kind: 't', text: string(t)})
		default:
			n.kids = append(n.kids, &xnode{kind: 'o'})
		}
	}
}

// parseXML reads the body as Decoder.Decode does: tokens up to the first start
// element, then that element.  "e" = EOF before any element, "s" = an error.
func parseXML(body []byte) (root *xnode, state string) {
	defer func() {
		if r := recover(); r != nil {
			root, state = nil, "s"
		}
	}()
	d := xml.NewDecoder(bytes.NewReader(body))
	for {
		tok, err := d.Token()
		if err == io.EOF {
			return nil, "e"
		}
		if err != nil {
			return nil, "s"
		}
		if st, ok := tok.(xml.StartElement); ok {
			n, err := readElem(d, st.Copy())
			if err != nil {
				return nil, "s"
			}
			return n, "t"
		}
	}
}

func (n *xnode) sx(sb *strings.Builder) {
	switch n.kind {
	case 't':
		sb.WriteString("(tx " + hx.S(n.text) + ")")
	case 'o':
		sb.WriteString("o")
	default:
		sb.WriteString("(el " + hx.S(n.ns) + " " + hx.S(n.local) + " (")
		for i, a := range n.attrs {
			if i > 0 {
				sb.WriteByte(' ')
			}
			sb.WriteString(hx.L(hx.S(a.Name.Space), hx.S(a.Name.Local), hx.S(a.Value)))
		}
		sb.WriteString(")")
		for _, k := range n.kids {
			sb.WriteByte(' ')
			k.sx(sb)
		}
		sb.WriteString(")")
	}
}

func (n *xnode) hrefTexts(out map[string]bool) {
	if n.kind != 'e' {
		return
	}
	if n.local == "href" {
		var t string
		for _, k := range n.kids {
			if k.kind == 't' {
				t += k.text
			}
		}
		_, err := url.Parse(t)
		out[t] = err == nil
	}
	for _, k := range n.kids {
		k.hrefTexts(out)
	}
}

func icalOK(body []byte) (ok bool) {
	defer func() {
		if r := recover(); r != nil {
			ok = false
		}
	}()
	_, err := ical.NewDecoder(bytes.NewReader(body)).Decode()
	return err == nil
}

func vcardOK(body []byte) (ok bool) {
	defer func() {
		if r := recover(); r != nil {
			ok = false
		}
	}()
	_, err := vcard.NewDecoder(bytes.NewReader(body)).Decode()
	return err == nil
}

func (r *rawReq) sx() string {
	dest := "a"
	if r.dest != "" {
		if u, err := url.Parse(r.dest); err != nil {
			dest = "b"
		} else {
			dest = hx.L("p", hx.S(u.Path))
		}
	}
	media, _, merr := mime.ParseMediaType(r.ctype)
	root, state := parseXML(r.body)
	xmls := state
	urls := []string{"urls"}
	if state == "t" {
		var sb strings.Builder
		root.sx(&sb)
		xmls = "(t " + sb.String() + ")"
		m := map[string]bool{}
		root.hrefTexts(m)
		for t, ok := range m {
			urls = append(urls, hx.L(hx.S(t), hx.B(ok)))
		}
	}
	return hx.L("req", hx.S(r.method), hx.S(r.path), hx.S(r.depth), hx.S(r.overwrite), dest,
		hx.B(r.ctype != ""), hx.S(media), hx.B(merr != nil), hx.B(len(r.body) == 0), xmls,
		hx.B(icalOK(r.body)), hx.B(vcardOK(r.body)), hx.L(urls...),
		hx.L("raw", hx.S(r.ctype), hx.S(r.dest), hx.S(string(r.body))))
}

func parseRawReq(x hx.Sx) *rawReq {
	a := x.Args()
	raw := a[len(a)-1].Args()
	return &rawReq{method: a[0].Str(), path: a[1].Str(), depth: a[2].Str(), overwrite: a[3].Str(),
		ctype: raw[0].Str(), dest: raw[1].Str(), body: []byte(raw[2].Str())}
}

// httpRequest builds the request as net/http hands it to a handler, without the
// validation of http.NewRequest (any method, any path).
func (r *rawReq) httpRequest() *http.Request {
	h := http.Header{}
	if r.depth != "" {
		h.Set("Depth", r.depth)
	}
	if r.overwrite != "" {
		h.Set("Overwrite", r.overwrite)
	}
	if r.dest != "" {
		h.Set("Destination", r.dest)
	}
	if r.ctype != "" {
		h.Set("Content-Type", r.ctype)
	}
	req := &http.Request{
		Method: r.method, URL: &url.URL{Path: r.path}, Proto: "HTTP/1.1", ProtoMajor: 1, ProtoMinor: 1,
		Header: h, Body: io.NopCloser(bytes.NewReader(r.body)), ContentLength: int64(len(r.body)), Host: "example.org",
		RequestURI: r.path,
	}
	return req
}

// a case: which server, its backend double, the request
type kase struct {
	server string // dav, cal, card, principal
	fs     *fsEnv
	dav    *davEnv
	nilOpt bool
	req    *rawReq
}

func (k *kase) sx() string {
	switch k.server {
	case "dav":
		return hx.L("dav", k.fs.sx(), k.req.sx())
	case "cal":
		return hx.L("cal", k.dav.sx(), k.req.sx())
	case "card":
		return hx.L("card", k.dav.sx(), k.req.sx())
	}
	return hx.L("principal", hx.B(k.nilOpt), k.req.sx())
}

func parseKase(x hx.Sx) *kase {
	k := &kase{server: x.Head()}
	a := x.Args()
	switch k.server {
	case "dav":
		k.fs = parseFsEnv(a[0])
	case "cal":
		k.dav = parseDavEnv(a[0], false)
	case "card":
		k.dav = parseDavEnv(a[0], true)
	default:
		k.nilOpt = a[0].Bool()
	}
	k.req = parseRawReq(a[1])
	return k
}

// observe runs the real handler inside recover.
func (k *kase) observe() (obs string) {
	rec := &recorder{}
	w := httptest.NewRecorder()
	defer func() {
		if r := recover(); r != nil {
			obs = "(panic)"
		}
	}()
	req := k.req.httpRequest()
	switch k.server {
	case "dav":
		h := &webdav.Handler{}
		if k.fs.has {
			h.FileSystem = &fsDouble{e: k.fs, rec: rec}
		}
		h.ServeHTTP(w, req)
	case "cal":
		h := &caldav.Handler{Prefix: k.dav.prefix}
		if k.dav.has {
			h.Backend = &calDouble{e: k.dav, rec: rec}
		}
		h.ServeHTTP(w, req)
	case "card":
		h := &carddav.Handler{Prefix: k.dav.prefix}
		if k.dav.has {
			h.Backend = &cardDouble{e: k.dav, rec: rec}
		}
		h.ServeHTTP(w, req)
	default:
		var opts *webdav.ServePrincipalOptions
		if !k.nilOpt {
			opts = &webdav.ServePrincipalOptions{
				CurrentUserPrincipalPath: "/u/",
				HomeSets:                 []webdav.BackendSuppliedHomeSet{caldav.NewCalendarHomeSet("/u/cal/"), carddav.NewAddressBookHomeSet("/u/card/")},
				Capabilities:             []webdav.Capability{caldav.CapabilityCalendar, carddav.CapabilityAddressBook},
			}
		}
		webdav.ServePrincipal(w, req, opts)
	}
	items := []string{"resp", fmt.Sprint(w.Code)}
	items = append(items, rec.calls...)
	return hx.L(items...)
}

func (k *kase) line() string { return k.sx() + " " + k.observe() }
