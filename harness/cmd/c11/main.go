// Command c11 drives the real PROPFIND code for property C11: webdav.Handler on
// a directory, caldav.Handler, carddav.Handler, webdav.ServePrincipal, and
// internal.NewPropFindResponse directly, and reduces every multi-status body —
// read by a strict XML reader — to {href -> propstats of (name, value kind)}.
//
// Case lines:
//
//	(nr <path> <pf> (props (p <ns> <local> <val>|(f <code>))...))          (resp <href> <ps>...) | (err <code>)
//	(dav <tree> <target> <req>)                                            <obs>
//	(hier cal|card <hier> <target> <req>)                                  <obs>
//	(principal <cup> (hs (<ns> <local> <path>)...) <path> <req>)           <obs>
//
//	<tree>   = (dir (<name> <tree>)...) | (file <has-mime 0|1>)
//	         | (special tofile|todir|dangling|fifo <has-mime 0|1>)   a symbolic link or FIFO: the server lists it like a file
//	<hier>   = (h (ps...) <prefix-trailing-slash> <user> <uslash> <home> <hslash> (c <name> <slash> n d m (o <name> l t e)...)...)
//	<target> = (segs (rs...) <trailing 0|1>) | (path <path>)
//	(hiertext cal|card <text> <hier> <target> <req>)                       <obs>
//	    as hier, with <text> (control characters, non-characters, ill-formed UTF-8, markup) inside the stored
//	    objects' property values and the collections' display names and descriptions
//	(hseq cal|card (hstep <hier> <target> <req>)...)                       <obs of the LAST step>
//	    ONE shared Handler over a multi-user backend (each step's user = its <hier>, carried in the
//	    request context); a line per prefix of a sequence; the last step is judged on its own inputs
//
//	<req>    = (req <depth> <ctype> <body> [<delivery>])
//	<depth>  = absent|0|1|inf|bad, optionally with a spelling tag after ':' (bad:case = "Infinity", 1:then0 = two header lines, ...)
//	<ctype>  = none|xml|xml2|other, optionally with a spelling tag after ':' (xml:case = "Application/XML", ...); the class is
//	           computed by the harness with the real mime.ParseMediaType
//	<delivery> = exact (default) | unknown | larger | smaller | nobody | chunked | eofdata | onebyte | closefail   how the body reaches the handler
//	<body>   = empty | blank | other | malformed | <pf>
//	<pf>     = (pf <propname 0|1> <allprop 0|1> noprop|(prop (<ns> <local>)...))
//	<val>    = n | (h <path>) | (r (<ns> <local>)...) | e | o
//	<obs>    = (obs <status> <strict 0|1> (resp <href> (ps <code> (<ns> <local> <val>)...)...)...)
package main

import (
	"bytes"
	"context"
	"encoding/xml"
	"errors"
	"flag"
	"fmt"
	"io"
	"mime"
	"net/http"
	"net/http/httptest"
	"net/url"
	"os"
	"path"
	"path/filepath"
	"reflect"
	"runtime"
	"sort"
	"strconv"
	"strings"
	"sync"
	"sync/atomic"
	"syscall"
	"testing/iotest"
	"time"

	"github.com/emersion/go-ical"
	"github.com/emersion/go-vcard"
	"github.com/emersion/go-webdav"
	"github.com/emersion/go-webdav/caldav"
	"github.com/emersion/go-webdav/carddav"
	"github.com/emersion/go-webdav/verifhook"

	"verifharness/hx"
)

const (
	nsDAV  = "DAV:"
	nsCal  = "urn:ietf:params:xml:ns:caldav"
	nsCard = "urn:ietf:params:xml:ns:carddav"
)

type pname struct{ ns, local string }

// ---------------------------------------------------------------- strict XML reader

type xnode struct {
	name     pname
	children []*xnode
	text     strings.Builder
}

// strictParse reads a document with encoding/xml's tokenizer in raw mode and
// does the namespace processing itself: start and end tags must match, there
// is exactly one root, every prefix (of elements and attributes) must be
// declared, no attribute may occur twice (neither by qualified nor by expanded
// name), prefixes cannot be undeclared, and nothing but white space, comments
// and processing instructions may surround the root.
func strictParse(data []byte) (*xnode, error) {
	d := xml.NewDecoder(bytes.NewReader(data))
	type frame struct {
		raw  xml.Name
		ns   map[string]string
		node *xnode
	}
	var stack []frame
	var root *xnode
	lookup := func(prefix string) (string, bool) {
		if prefix == "xml" {
			return "http://www.w3.org/XML/1998/namespace", true
		}
		for i := len(stack) - 1; i >= 0; i-- {
			if v, ok := stack[i].ns[prefix]; ok {
				return v, true
			}
		}
		if prefix == "" {
			return "", true
		}
		return "", false
	}
	for {
		tok, err := d.RawToken()
		if err == io.EOF {
			break
		}
		if err != nil {
			return nil, err
		}
		switch t := tok.(type) {
		case xml.StartElement:
			if root != nil && len(stack) == 0 {
				return nil, errors.New("strict: second root element")
			}
			decl := map[string]string{}
			seenRaw := map[xml.Name]bool{}
			for _, a := range t.Attr {
				if seenRaw[a.Name] {
					return nil, fmt.Errorf("strict: duplicate attribute %v", a.Name)
				}
				seenRaw[a.Name] = true
				switch {
				case a.Name.Space == "" && a.Name.Local == "xmlns":
					decl[""] = a.Value
				case a.Name.Space == "xmlns":
					if a.Value == "" {
						return nil, fmt.Errorf("strict: prefix %q undeclared", a.Name.Local)
					}
					if a.Name.Local == "xmlns" || a.Name.Local == "xml" {
						return nil, fmt.Errorf("strict: reserved prefix %q declared", a.Name.Local)
					}
					decl[a.Name.Local] = a.Value
				}
			}
			n := &xnode{}
			stack = append(stack, frame{raw: t.Name, ns: decl, node: n})
			ns, ok := lookup(t.Name.Space)
			if !ok {
				return nil, fmt.Errorf("strict: undeclared element prefix %q", t.Name.Space)
			}
			n.name = pname{ns, t.Name.Local}
			seenExp := map[pname]bool{}
			for _, a := range t.Attr {
				if a.Name.Space == "xmlns" || (a.Name.Space == "" && a.Name.Local == "xmlns") {
					continue
				}
				ans := ""
				if a.Name.Space != "" {
					if ans, ok = lookup(a.Name.Space); !ok {
						return nil, fmt.Errorf("strict: undeclared attribute prefix %q", a.Name.Space)
					}
				}
				k := pname{ans, a.Name.Local}
				if seenExp[k] {
					return nil, fmt.Errorf("strict: duplicate attribute {%s}%s", ans, a.Name.Local)
				}
				seenExp[k] = true
			}
			if len(stack) == 1 {
				root = n
			} else {
				p := stack[len(stack)-2].node
				p.children = append(p.children, n)
			}
		case xml.EndElement:
			if len(stack) == 0 || stack[len(stack)-1].raw != t.Name {
				return nil, fmt.Errorf("strict: unmatched end tag %v", t.Name)
			}
			stack = stack[:len(stack)-1]
		case xml.CharData:
			if len(stack) == 0 {
				if strings.TrimSpace(string(t)) != "" {
					return nil, errors.New("strict: text outside the root element")
				}
			} else {
				stack[len(stack)-1].node.text.Write(t)
			}
		case xml.Directive:
			return nil, errors.New("strict: unexpected directive")
		}
	}
	if len(stack) != 0 || root == nil {
		return nil, errors.New("strict: unclosed or missing root element")
	}
	return root, nil
}

func (n *xnode) elems(name pname) []*xnode {
	var out []*xnode
	for _, c := range n.children {
		if c.name == name {
			out = append(out, c)
		}
	}
	return out
}

func hrefPath(h string) string {
	u, err := url.Parse(strings.TrimSpace(h))
	if err != nil {
		return "!unparsable:" + h
	}
	return u.Path
}

func nameSx(n pname) []string { return []string{hx.S(n.ns), hx.S(n.local)} }

// valueKind classifies a property element as the model's pval does.
func valueKind(e *xnode) string {
	if e.name == (pname{nsDAV, "resourcetype"}) {
		items := []string{"r"}
		for _, c := range e.children {
			items = append(items, hx.L(nameSx(c.name)...))
		}
		return hx.L(items...)
	}
	text := strings.TrimSpace(e.text.String())
	if len(e.children) == 0 && text == "" {
		return "n"
	}
	if len(e.children) == 1 && text == "" && e.children[0].name == (pname{nsDAV, "href"}) && len(e.children[0].children) == 0 {
		return hx.L("h", hx.S(hrefPath(e.children[0].text.String())))
	}
	return "o"
}

func statusCode(s string) string {
	parts := strings.SplitN(strings.TrimSpace(s), " ", 3)
	if len(parts) < 2 || !strings.HasPrefix(parts[0], "HTTP/") {
		return "-1"
	}
	if _, err := strconv.Atoi(parts[1]); err != nil {
		return "-1"
	}
	return parts[1]
}

// reduceResponse renders one DAV:response element.
func reduceResponse(r *xnode) string {
	hrefs := r.elems(pname{nsDAV, "href"})
	href := fmt.Sprintf("!%d hrefs", len(hrefs))
	if len(hrefs) == 1 {
		href = hrefPath(hrefs[0].text.String())
	}
	items := []string{"resp", hx.S(href)}
	for _, ps := range r.elems(pname{nsDAV, "propstat"}) {
		sts := ps.elems(pname{nsDAV, "status"})
		code := "-1"
		if len(sts) == 1 {
			code = statusCode(sts[0].text.String())
		}
		pi := []string{"ps", code}
		for _, p := range ps.elems(pname{nsDAV, "prop"}) {
			for _, e := range p.children {
				pi = append(pi, hx.L(hx.S(e.name.ns), hx.S(e.name.local), valueKind(e)))
			}
		}
		items = append(items, hx.L(pi...))
	}
	// a response-level status (not used by PROPFIND answers) makes the response unlike any model's
	if len(r.elems(pname{nsDAV, "status"})) > 0 {
		items[1] = hx.S("!response status")
	}
	return hx.L(items...)
}

func reduceBody(code int, data []byte) string {
	if code != http.StatusMultiStatus {
		return hx.L("obs", hx.I(int64(code)), "1")
	}
	root, err := strictParse(data)
	if err != nil || root.name != (pname{nsDAV, "multistatus"}) {
		// fall back on Go's own decoder so that the rest of the observation is still there
		return hx.L("obs", hx.I(int64(code)), "0")
	}
	items := []string{"obs", hx.I(int64(code)), "1"}
	for _, r := range root.elems(pname{nsDAV, "response"}) {
		items = append(items, reduceResponse(r))
	}
	return hx.L(items...)
}

// ---------------------------------------------------------------- requests

type pfReq struct {
	propname, allprop, hasProp bool
	prop                       []pname
}

type reqDesc struct {
	dh, ct string
	body   string // empty blank other malformed pf
	pf     pfReq
	// how the body reaches the handler (as in cmd/c13): "" / "exact" (ContentLength =
	// len, what httptest.NewRequest makes), "unknown" (ContentLength -1 and a reader of
	// undisclosed type, as net/http hands over a chunked body), "larger" / "smaller" (a
	// ContentLength that disagrees with the bytes), "nobody" (http.NoBody, ContentLength
	// 0; empty bodies only), "chunked" (written to a real httptest.Server with
	// Transfer-Encoding: chunked over a TCP connection)
	dl string
}

func pfSx(p pfReq) string {
	pr := "noprop"
	if p.hasProp {
		items := []string{"prop"}
		for _, n := range p.prop {
			items = append(items, hx.L(nameSx(n)...))
		}
		pr = hx.L(items...)
	}
	return hx.L("pf", hx.B(p.propname), hx.B(p.allprop), pr)
}

func parsePf(x hx.Sx) pfReq {
	a := x.Args()
	p := pfReq{propname: a[0].Bool(), allprop: a[1].Bool()}
	if a[2].IsList {
		p.hasProp = true
		for _, n := range a[2].Args() {
			p.prop = append(p.prop, pname{n.List[0].Str(), n.List[1].Str()})
		}
	}
	return p
}

func reqSx(q reqDesc) string {
	b := q.body
	if b == "pf" {
		b = pfSx(q.pf)
	}
	if q.dl != "" && q.dl != "exact" {
		return hx.L("req", q.dh, q.ct, b, q.dl)
	}
	return hx.L("req", q.dh, q.ct, b)
}

func parseReq(x hx.Sx) reqDesc {
	a := x.Args()
	q := reqDesc{dh: a[0].Atom, ct: a[1].Atom}
	if a[2].IsList {
		q.body = "pf"
		q.pf = parsePf(a[2])
	} else {
		q.body = a[2].Atom
	}
	if len(a) > 3 {
		q.dl = a[3].Atom
	}
	return q
}

func pfXML(p pfReq) string {
	var sb strings.Builder
	sb.WriteString(`<?xml version="1.0" encoding="utf-8"?><D:propfind xmlns:D="DAV:">`)
	if p.hasProp {
		sb.WriteString("<D:prop>")
		for i, n := range p.prop {
			switch {
			case n.ns == "":
				fmt.Fprintf(&sb, `<%s xmlns=""/>`, n.local)
			case n.ns == nsDAV && i%2 == 0:
				fmt.Fprintf(&sb, `<D:%s/>`, n.local)
			default:
				sb.WriteString("<x:" + n.local + ` xmlns:x="`)
				xml.EscapeText(&sb, []byte(n.ns))
				sb.WriteString(`"/>`)
			}
		}
		sb.WriteString("</D:prop>")
	}
	if p.allprop {
		sb.WriteString("<D:allprop/>")
	}
	if p.propname {
		sb.WriteString("<D:propname/>")
	}
	sb.WriteString("</D:propfind>")
	return sb.String()
}

func escaped(p string) string { return (&url.URL{Path: p}).EscapedPath() }

func bodyText(q reqDesc) string {
	switch q.body {
	case "blank":
		return " \n\t "
	case "other":
		return `<D:propertyupdate xmlns:D="DAV:"/>`
	case "malformed":
		return `<D:propfind xmlns:D="DAV:"><D:prop>`
	case "pf":
		return pfXML(q.pf)
	}
	return ""
}

// spelled header values: tag -> the text(s) put into the header
var depthSpellings = map[string][]string{
	"case": {"Infinity"}, "upper": {"INFINITY"}, "pad": {"01"}, "sign": {"+1"}, "lblank": {" 1"}, "rblank": {"0 "},
	"list": {"0, 1"}, "word": {"one"}, "neg": {"-1"}, "then0": {"1", "0"}, "theninf": {"0", "infinity"},
	"emptythen1": {"", "1"}, "badthen1": {"2", "1"},
}
var ctypeSpellings = map[string][]string{
	"case": {"Application/XML"}, "upper": {"TEXT/XML"}, "param": {"application/xml;charset=utf-8"},
	"blank": {" application/xml "}, "badparam": {"application/xml; charset"}, "quoted": {`text/xml; charset="UTF-8"; x=y`},
	"list": {"application/xml, text/plain"}, "empty": {""}, "suffix": {"application/xml+dav"}, "sub": {"application/xmlx"},
	"thenxml": {"text/plain", "application/xml"}, "thenplain": {"application/xml", "text/plain"}, "slash": {"application/"},
}

func spellTag(atom string) (class, tag string) {
	if i := strings.IndexByte(atom, ':'); i >= 0 {
		return atom[:i], atom[i+1:]
	}
	return atom, ""
}

// depthClass: what handlePropfind makes of the header lines (r.Header.Get = the first line)
func depthClass(vals []string) string {
	switch vals[0] {
	case "":
		return "absent"
	case "0", "1":
		return vals[0]
	case "infinity":
		return "inf"
	}
	if strings.EqualFold(vals[0], "infinity") {
		return "infcase" // a case variant of the literal: refused, or answered as infinity
	}
	return "bad"
}

// ctypeClass: isContentXML with the real mime.ParseMediaType
func ctypeClass(vals []string) string {
	t, _, _ := mime.ParseMediaType(vals[0])
	if t == "application/xml" || t == "text/xml" {
		return "xml"
	}
	return "other"
}

func setSpelled(h http.Header, key string, vals []string) {
	h[key] = append([]string{}, vals...)
}

func contentType(q reqDesc) string {
	if _, tag := spellTag(q.ct); tag != "" {
		return ctypeSpellings[tag][0]
	}
	switch q.ct {
	case "xml":
		return "application/xml"
	case "xml2":
		return `text/xml; charset="utf-8"`
	case "other":
		return "text/plain"
	}
	return ""
}

func depthHeader(q reqDesc) string {
	if _, tag := spellTag(q.dh); tag != "" {
		return depthSpellings[tag][0]
	}
	switch q.dh {
	case "0", "1":
		return q.dh
	case "inf":
		return "infinity"
	case "bad":
		return "2"
	}
	return ""
}

// delivery: the form the request can take (see reqDesc.dl)
func delivery(q reqDesc, body string) string {
	switch q.dl {
	case "", "exact":
		return "exact"
	case "nobody":
		if body != "" {
			return "unknown"
		}
	case "smaller":
		if len(body) < 2 {
			return "larger"
		}
	}
	return q.dl
}

// runChunked sends the request to a real server over TCP with Transfer-Encoding:
// chunked (an empty body is the terminating chunk alone), so that net/http's
// server builds the *http.Request: ContentLength -1, a chunked body reader.
func runChunked(h http.Handler, p string, q reqDesc, body string) string {
	header := http.Header{}
	if ct := contentType(q); ct != "" {
		header.Set("Content-Type", ct)
	}
	if d := depthHeader(q); d != "" {
		header.Set("Depth", d)
	}
	code, _, data, ok := hx.ChunkedDo(h, "PROPFIND", escaped(p), header, body)
	if !ok {
		return hx.L("harness-chunked-failed")
	}
	return reduceBody(code, data)
}

// closeFails: every Read succeeds, Close reports an error
type closeFails struct{ io.Reader }

func (closeFails) Close() error { return errors.New("close failed") }

func buildRequest(p string, q reqDesc) *http.Request {
	body := bodyText(q)
	var rd io.Reader
	if body != "" {
		rd = strings.NewReader(body)
	}
	req := httptest.NewRequest("PROPFIND", "http://example.org"+escaped(p), rd)
	if ct := contentType(q); ct != "" {
		req.Header.Set("Content-Type", ct)
	}
	if d := depthHeader(q); d != "" {
		req.Header.Set("Depth", d)
	}
	// spelled values: exactly these header lines (several lines, blanks, an empty line)
	if _, tag := spellTag(q.ct); tag != "" {
		setSpelled(req.Header, "Content-Type", ctypeSpellings[tag])
	}
	if _, tag := spellTag(q.dh); tag != "" {
		setSpelled(req.Header, "Depth", depthSpellings[tag])
	}
	switch delivery(q, body) {
	case "eofdata":
		// the last bytes arrive together with io.EOF
		req.Body = io.NopCloser(iotest.DataErrReader(strings.NewReader(body)))
		req.ContentLength = -1
	case "onebyte":
		req.Body = io.NopCloser(iotest.OneByteReader(strings.NewReader(body)))
		req.ContentLength = -1
	case "closefail":
		req.Body = closeFails{strings.NewReader(body)}
		req.ContentLength = int64(len(body))
	case "unknown":
		req.Body = io.NopCloser(struct{ io.Reader }{strings.NewReader(body)})
		req.ContentLength = -1
		req.TransferEncoding = []string{"chunked"}
	case "larger":
		req.Body = io.NopCloser(strings.NewReader(body))
		req.ContentLength = int64(len(body)) + 7
	case "smaller":
		req.ContentLength = int64(len(body)) - 1
	case "nobody":
		req.Body = http.NoBody
		req.ContentLength = 0
	}
	return req
}

func runHandler(h http.Handler, p string, q reqDesc) (obs string) {
	defer func() {
		if r := recover(); r != nil {
			obs = hx.L("panic")
		}
	}()
	req := buildRequest(p, q)
	if req.URL.Path != p {
		return hx.L("harness-path-mismatch", hx.S(req.URL.Path))
	}
	if body := bodyText(q); delivery(q, body) == "chunked" {
		return runChunked(h, p, q, body)
	}
	rr := httptest.NewRecorder()
	h.ServeHTTP(rr, req)
	return reduceBody(rr.Code, rr.Body.Bytes())
}

// ---------------------------------------------------------------- targets

func join(segs []string) string {
	var sb strings.Builder
	for _, s := range segs {
		sb.WriteString("/")
		sb.WriteString(s)
	}
	return sb.String()
}

func tslash(b bool) string {
	if b {
		return "/"
	}
	return ""
}

func reqPath(ps, rs []string, trailing bool) string {
	all := append(append([]string{}, ps...), rs...)
	if len(all) == 0 {
		return "/"
	}
	return join(all) + tslash(trailing)
}

type target struct {
	isPath   bool
	path     string
	rs       []string
	trailing bool
}

func strList(l []string) string {
	items := make([]string, len(l))
	for i, s := range l {
		items[i] = hx.S(s)
	}
	return hx.L(items...)
}

func targetSx(t target) string {
	if t.isPath {
		return hx.L("path", hx.S(t.path))
	}
	return hx.L("segs", strList(t.rs), hx.B(t.trailing))
}

func parseTarget(x hx.Sx) target {
	a := x.Args()
	if x.Head() == "path" {
		return target{isPath: true, path: a[0].Str()}
	}
	t := target{trailing: a[1].Bool()}
	for _, s := range a[0].List {
		t.rs = append(t.rs, s.Str())
	}
	return t
}

func (t target) under(ps []string) string {
	if t.isPath {
		return t.path
	}
	return reqPath(ps, t.rs, t.trailing)
}

// ---------------------------------------------------------------- the file server on a directory

type tnode struct {
	dir      bool
	special  string // "" or tofile | todir | dangling | fifo: not a regular file, listed like one
	mime     bool
	names    []string
	children []*tnode
}

func treeSx(n *tnode) string {
	if !n.dir {
		if n.special != "" {
			return hx.L("special", n.special, hx.B(n.mime))
		}
		return hx.L("file", hx.B(n.mime))
	}
	items := []string{"dir"}
	for i, c := range n.children {
		items = append(items, hx.L(hx.S(n.names[i]), treeSx(c)))
	}
	return hx.L(items...)
}

func parseTree(x hx.Sx) *tnode {
	if x.Head() == "file" {
		return &tnode{mime: x.Args()[0].Bool()}
	}
	if x.Head() == "special" {
		return &tnode{special: x.Args()[0].Atom, mime: x.Args()[1].Bool()}
	}
	n := &tnode{dir: true}
	for _, c := range x.Args() {
		n.names = append(n.names, c.List[0].Str())
		n.children = append(n.children, parseTree(c.List[1]))
	}
	return n
}

func hasMime(name string) bool { return mime.TypeByExtension(path.Ext(name)) != "" }

func mkDir(names []string, children []*tnode) *tnode {
	idx := make([]int, len(names))
	for i := range idx {
		idx[i] = i
	}
	sort.Slice(idx, func(a, b int) bool { return names[idx[a]] < names[idx[b]] })
	n := &tnode{dir: true}
	for _, i := range idx {
		n.names = append(n.names, names[i])
		n.children = append(n.children, children[i])
	}
	return n
}

func mkFile(name string) *tnode { return &tnode{mime: hasMime(name)} }

func mkSpecial(kind, name string) *tnode { return &tnode{special: kind, mime: hasMime(name)} }

// materialise builds the tree below dir; what links point to lives under
// outside, which is not inside the served directory.
func materialise(dir string, n *tnode, outside string) error {
	if err := os.Mkdir(dir, 0o755); err != nil {
		return err
	}
	for i, c := range n.children {
		p := filepath.Join(dir, n.names[i])
		var err error
		switch {
		case c.dir:
			err = materialise(p, c, outside)
		case c.special == "tofile":
			// the targets live beside the served directory, never inside it
			if err = os.MkdirAll(outside, 0o755); err == nil {
				if err = os.WriteFile(filepath.Join(outside, "file"), []byte("linked"), 0o644); err == nil {
					err = os.Symlink(filepath.Join(outside, "file"), p)
				}
			}
		case c.special == "todir":
			if err = os.MkdirAll(filepath.Join(outside, "dir", "inside"), 0o755); err == nil {
				err = os.Symlink(filepath.Join(outside, "dir"), p)
			}
		case c.special == "dangling":
			err = os.Symlink(filepath.Join(outside, "nothing-here"), p)
		case c.special == "fifo":
			err = syscall.Mkfifo(p, 0o644)
		default:
			err = os.WriteFile(p, []byte("content"), 0o644)
		}
		if err != nil {
			return err
		}
	}
	return nil
}

var scratchSeq int64

func scratchDir() string {
	base := os.Getenv("VERIF_SCRATCH")
	if base == "" {
		base = "/dev/shm"
	}
	return filepath.Join(base, fmt.Sprintf("c11-%d-%d", os.Getpid(), atomic.AddInt64(&scratchSeq, 1)))
}

// davGroup runs all requests of one tree against one materialised directory.
func davGroup(tree *tnode, cases [][2]string, put func(string)) {
	root := scratchDir()
	if err := materialise(root, tree, root+".outside"); err != nil {
		fmt.Fprintln(os.Stderr, "c11: cannot build tree:", err)
		os.Exit(2)
	}
	defer func() {
		os.RemoveAll(root)
		os.RemoveAll(root + ".outside")
	}()
	// the served directory written in unclean but equivalent ways
	seq := atomic.AddInt64(&davGroupSeq, 1)
	spelled := []string{root, root + "/", root + "/.", filepath.Dir(root) + "/./" + filepath.Base(root), filepath.Dir(root) + "//" + filepath.Base(root) + "//"}[seq%5]
	h := &webdav.Handler{FileSystem: webdav.LocalFileSystem(spelled)}
	one := func(c [2]string) {
		x := hx.MustParse(c[0])[0]
		a := x.Args()
		put(c[0] + " " + runHandler(h, parseTarget(a[1]).under(nil), parseReq(a[2])))
	}
	if seq%4 == 0 && len(cases) > 8 {
		// overlapping requests on the one Handler: each answer is still judged on its own
		var wg sync.WaitGroup
		for k := 0; k < 4; k++ {
			wg.Add(1)
			go func(k int) {
				defer wg.Done()
				for i := k; i < len(cases); i += 4 {
					one(cases[i])
				}
			}(k)
		}
		wg.Wait()
		return
	}
	for _, c := range cases {
		one(c)
	}
}

// ---------------------------------------------------------------- caldav / carddav doubles

type hobj struct {
	name    string
	l, t, e bool
}
type hcoll struct {
	name           string
	slash, n, d, m bool
	objs           []hobj
}
type hier struct {
	ps             []string
	ptrail         bool // the handler's Prefix is spelled with a trailing slash
	user, home     string
	uslash, hslash bool
	colls          []hcoll
	// text inside the stored objects' values and the collections' names and
	// descriptions (not part of the hierarchy's S-expression: see hiertext)
	text string
}

func hierSx(h *hier) string {
	items := []string{"h", strList(h.ps), hx.B(h.ptrail), hx.S(h.user), hx.B(h.uslash), hx.S(h.home), hx.B(h.hslash)}
	for _, c := range h.colls {
		ci := []string{"c", hx.S(c.name), hx.B(c.slash), hx.B(c.n), hx.B(c.d), hx.B(c.m)}
		for _, o := range c.objs {
			ci = append(ci, hx.L("o", hx.S(o.name), hx.B(o.l), hx.B(o.t), hx.B(o.e)))
		}
		items = append(items, hx.L(ci...))
	}
	return hx.L(items...)
}

func parseHier(x hx.Sx) *hier {
	a := x.Args()
	h := &hier{ptrail: a[1].Bool(), user: a[2].Str(), uslash: a[3].Bool(), home: a[4].Str(), hslash: a[5].Bool()}
	for _, s := range a[0].List {
		h.ps = append(h.ps, s.Str())
	}
	for _, cx := range a[6:] {
		ca := cx.Args()
		c := hcoll{name: ca[0].Str(), slash: ca[1].Bool(), n: ca[2].Bool(), d: ca[3].Bool(), m: ca[4].Bool()}
		for _, ox := range ca[5:] {
			oa := ox.Args()
			c.objs = append(c.objs, hobj{oa[0].Str(), oa[1].Bool(), oa[2].Bool(), oa[3].Bool()})
		}
		h.colls = append(h.colls, c)
	}
	return h
}

func (h *hier) principal() string {
	return join(append(append([]string{}, h.ps...), h.user)) + tslash(h.uslash)
}
func (h *hier) homeSet() string {
	return join(append(append([]string{}, h.ps...), h.user, h.home)) + tslash(h.hslash)
}
func (h *hier) collPath(c *hcoll) string {
	return join(append(append([]string{}, h.ps...), h.user, h.home, c.name)) + tslash(c.slash)
}
func (h *hier) objPath(c *hcoll, o *hobj) string {
	return join(append(append([]string{}, h.ps...), h.user, h.home, c.name, o.name))
}

func samePath(a, b string) bool { return strings.TrimSuffix(a, "/") == strings.TrimSuffix(b, "/") }

func (h *hier) findColl(p string) *hcoll {
	for i := range h.colls {
		if samePath(h.collPath(&h.colls[i]), p) {
			return &h.colls[i]
		}
	}
	return nil
}

func (h *hier) findObj(p string) (*hcoll, *hobj) {
	for i := range h.colls {
		for j := range h.colls[i].objs {
			if h.objPath(&h.colls[i], &h.colls[i].objs[j]) == p {
				return &h.colls[i], &h.colls[i].objs[j]
			}
		}
	}
	return nil, nil
}

var notFound = webdav.NewHTTPError(http.StatusNotFound, fmt.Errorf("not found"))
var modTime = time.Date(2020, 1, 2, 3, 4, 5, 0, time.UTC)

func testCalendar() *ical.Calendar {
	ev := ical.NewEvent()
	ev.Props.SetText(ical.PropUID, "uid-1")
	ev.Props.SetDateTime(ical.PropDateTimeStamp, modTime)
	ev.Props.SetDateTime(ical.PropDateTimeStart, modTime)
	cal := ical.NewCalendar()
	cal.Props.SetText(ical.PropVersion, "2.0")
	cal.Props.SetText(ical.PropProductID, "-//verif//EN")
	cal.Children = append(cal.Children, ev.Component)
	return cal
}

func testCard() vcard.Card {
	c := make(vcard.Card)
	c.SetValue(vcard.FieldVersion, "4.0")
	c.SetValue(vcard.FieldFormattedName, "A B")
	return c
}

func testCalendarText(text string) *ical.Calendar {
	cal := testCalendar()
	if text != "" {
		cal.Children[0].Props.SetText(ical.PropSummary, "summary "+text+" end")
		cal.Children[0].Props.SetText(ical.PropDescription, text)
	}
	return cal
}

func testCardText(text string) vcard.Card {
	c := testCard()
	if text != "" {
		c.SetValue(vcard.FieldFormattedName, "A B "+text+" end")
		c.SetValue(vcard.FieldNote, text)
	}
	return c
}

// textVariants: what XML cannot carry, or carries only escaped
func textVariants() []string {
	var out []string
	for c := 1; c < 0x20; c++ {
		out = append(out, string([]byte{byte(c)}))
	}
	out = append(out, "\x7f", "\ufffe", "\uffff", "\xed\xa0\x80", "\xed\xbf\xbf", "\xff", "\xc0\xaf",
		"a\x0cb\x0bc\rd\x1be", "]]>", "&<>\"'", "x]]>\x0c<y/>", "\u0085\u2028", "\U0001F600")
	// only texts both codecs can write (a text the go-ical / go-vcard encoder refuses would
	// be answered as a failing property, which is not what these cases are about)
	var ok []string
	for _, t := range out {
		var b1, b2 bytes.Buffer
		e1 := func() (err error) {
			defer func() {
				if r := recover(); r != nil {
					err = errors.New("panic")
				}
			}()
			return ical.NewEncoder(&b1).Encode(testCalendarText(t))
		}()
		e2 := func() (err error) {
			defer func() {
				if r := recover(); r != nil {
					err = errors.New("panic")
				}
			}()
			return vcard.NewEncoder(&b2).Encode(testCardText(t))
		}()
		if e1 == nil && e2 == nil {
			ok = append(ok, t)
		} else {
			fmt.Fprintf(os.Stderr, "c11: text variant %q skipped (codec refuses it)\n", t)
		}
	}
	return ok
}

type calBackend struct{ h *hier }

func (b calBackend) CurrentUserPrincipal(ctx context.Context) (string, error) {
	return b.h.principal(), nil
}
func (b calBackend) CalendarHomeSetPath(ctx context.Context) (string, error) {
	return b.h.homeSet(), nil
}
func (b calBackend) calendar(c *hcoll) caldav.Calendar {
	out := caldav.Calendar{Path: b.h.collPath(c)}
	if c.n {
		out.Name = "name" + b.h.text
	}
	if c.d {
		out.Description = "description" + b.h.text
	}
	if c.m {
		out.MaxResourceSize = 1000
	}
	return out
}
func (b calBackend) object(c *hcoll, o *hobj) caldav.CalendarObject {
	out := caldav.CalendarObject{Path: b.h.objPath(c, o), Data: testCalendarText(b.h.text)}
	if o.l {
		out.ContentLength = 42
	}
	if o.t {
		out.ModTime = modTime
	}
	if o.e {
		out.ETag = "etag"
	}
	return out
}
func (b calBackend) CreateCalendar(ctx context.Context, c *caldav.Calendar) error { return nil }
func (b calBackend) ListCalendars(ctx context.Context) ([]caldav.Calendar, error) {
	var l []caldav.Calendar
	for i := range b.h.colls {
		l = append(l, b.calendar(&b.h.colls[i]))
	}
	return l, nil
}
func (b calBackend) GetCalendar(ctx context.Context, p string) (*caldav.Calendar, error) {
	if c := b.h.findColl(p); c != nil {
		cal := b.calendar(c)
		return &cal, nil
	}
	return nil, notFound
}
func (b calBackend) GetCalendarObject(ctx context.Context, p string, req *caldav.CalendarCompRequest) (*caldav.CalendarObject, error) {
	if c, o := b.h.findObj(p); o != nil {
		co := b.object(c, o)
		return &co, nil
	}
	return nil, notFound
}
func (b calBackend) ListCalendarObjects(ctx context.Context, p string, req *caldav.CalendarCompRequest) ([]caldav.CalendarObject, error) {
	var l []caldav.CalendarObject
	if c := b.h.findColl(p); c != nil {
		for i := range c.objs {
			l = append(l, b.object(c, &c.objs[i]))
		}
	}
	return l, nil
}
func (b calBackend) QueryCalendarObjects(ctx context.Context, p string, q *caldav.CalendarQuery) ([]caldav.CalendarObject, error) {
	return nil, nil
}
func (b calBackend) PutCalendarObject(ctx context.Context, p string, cal *ical.Calendar, opts *caldav.PutCalendarObjectOptions) (*caldav.CalendarObject, error) {
	return &caldav.CalendarObject{Path: p}, nil
}
func (b calBackend) DeleteCalendarObject(ctx context.Context, p string) error { return nil }

type cardBackend struct{ h *hier }

func (b cardBackend) CurrentUserPrincipal(ctx context.Context) (string, error) {
	return b.h.principal(), nil
}
func (b cardBackend) AddressBookHomeSetPath(ctx context.Context) (string, error) {
	return b.h.homeSet(), nil
}
func (b cardBackend) book(c *hcoll) carddav.AddressBook {
	out := carddav.AddressBook{Path: b.h.collPath(c)}
	if c.n {
		out.Name = "name" + b.h.text
	}
	if c.d {
		out.Description = "description" + b.h.text
	}
	if c.m {
		out.MaxResourceSize = 1000
	}
	return out
}
func (b cardBackend) object(c *hcoll, o *hobj) carddav.AddressObject {
	out := carddav.AddressObject{Path: b.h.objPath(c, o), Card: testCardText(b.h.text)}
	if o.l {
		out.ContentLength = 42
	}
	if o.t {
		out.ModTime = modTime
	}
	if o.e {
		out.ETag = "etag"
	}
	return out
}
func (b cardBackend) ListAddressBooks(ctx context.Context) ([]carddav.AddressBook, error) {
	var l []carddav.AddressBook
	for i := range b.h.colls {
		l = append(l, b.book(&b.h.colls[i]))
	}
	return l, nil
}
func (b cardBackend) GetAddressBook(ctx context.Context, p string) (*carddav.AddressBook, error) {
	if c := b.h.findColl(p); c != nil {
		ab := b.book(c)
		return &ab, nil
	}
	return nil, notFound
}
func (b cardBackend) CreateAddressBook(ctx context.Context, ab *carddav.AddressBook) error {
	return nil
}
func (b cardBackend) DeleteAddressBook(ctx context.Context, p string) error { return nil }
func (b cardBackend) GetAddressObject(ctx context.Context, p string, req *carddav.AddressDataRequest) (*carddav.AddressObject, error) {
	if c, o := b.h.findObj(p); o != nil {
		ao := b.object(c, o)
		return &ao, nil
	}
	return nil, notFound
}
func (b cardBackend) ListAddressObjects(ctx context.Context, p string, req *carddav.AddressDataRequest) ([]carddav.AddressObject, error) {
	var l []carddav.AddressObject
	if c := b.h.findColl(p); c != nil {
		for i := range c.objs {
			l = append(l, b.object(c, &c.objs[i]))
		}
	}
	return l, nil
}
func (b cardBackend) QueryAddressObjects(ctx context.Context, p string, q *carddav.AddressBookQuery) ([]carddav.AddressObject, error) {
	return nil, nil
}
func (b cardBackend) PutAddressObject(ctx context.Context, p string, card vcard.Card, opts *carddav.PutAddressObjectOptions) (*carddav.AddressObject, error) {
	return &carddav.AddressObject{Path: p}, nil
}
func (b cardBackend) DeleteAddressObject(ctx context.Context, p string) error { return nil }

// ctxCal / ctxCard: a multi-user backend; the user's hierarchy travels in the request context
type hierKey struct{}

func hierOf(ctx context.Context) *hier { return ctx.Value(hierKey{}).(*hier) }

type ctxCal struct{}

func (ctxCal) CurrentUserPrincipal(ctx context.Context) (string, error) {
	return calBackend{hierOf(ctx)}.CurrentUserPrincipal(ctx)
}
func (ctxCal) CalendarHomeSetPath(ctx context.Context) (string, error) {
	return calBackend{hierOf(ctx)}.CalendarHomeSetPath(ctx)
}
func (ctxCal) CreateCalendar(ctx context.Context, c *caldav.Calendar) error { return nil }
func (ctxCal) ListCalendars(ctx context.Context) ([]caldav.Calendar, error) {
	return calBackend{hierOf(ctx)}.ListCalendars(ctx)
}
func (ctxCal) GetCalendar(ctx context.Context, p string) (*caldav.Calendar, error) {
	return calBackend{hierOf(ctx)}.GetCalendar(ctx, p)
}
func (ctxCal) GetCalendarObject(ctx context.Context, p string, req *caldav.CalendarCompRequest) (*caldav.CalendarObject, error) {
	return calBackend{hierOf(ctx)}.GetCalendarObject(ctx, p, req)
}
func (ctxCal) ListCalendarObjects(ctx context.Context, p string, req *caldav.CalendarCompRequest) ([]caldav.CalendarObject, error) {
	return calBackend{hierOf(ctx)}.ListCalendarObjects(ctx, p, req)
}
func (ctxCal) QueryCalendarObjects(ctx context.Context, p string, q *caldav.CalendarQuery) ([]caldav.CalendarObject, error) {
	return nil, nil
}
func (ctxCal) PutCalendarObject(ctx context.Context, p string, cal *ical.Calendar, opts *caldav.PutCalendarObjectOptions) (*caldav.CalendarObject, error) {
	return &caldav.CalendarObject{Path: p}, nil
}
func (ctxCal) DeleteCalendarObject(ctx context.Context, p string) error { return nil }

type ctxCard struct{}

func (ctxCard) CurrentUserPrincipal(ctx context.Context) (string, error) {
	return cardBackend{hierOf(ctx)}.CurrentUserPrincipal(ctx)
}
func (ctxCard) AddressBookHomeSetPath(ctx context.Context) (string, error) {
	return cardBackend{hierOf(ctx)}.AddressBookHomeSetPath(ctx)
}
func (ctxCard) ListAddressBooks(ctx context.Context) ([]carddav.AddressBook, error) {
	return cardBackend{hierOf(ctx)}.ListAddressBooks(ctx)
}
func (ctxCard) GetAddressBook(ctx context.Context, p string) (*carddav.AddressBook, error) {
	return cardBackend{hierOf(ctx)}.GetAddressBook(ctx, p)
}
func (ctxCard) CreateAddressBook(ctx context.Context, ab *carddav.AddressBook) error { return nil }
func (ctxCard) DeleteAddressBook(ctx context.Context, p string) error                { return nil }
func (ctxCard) GetAddressObject(ctx context.Context, p string, req *carddav.AddressDataRequest) (*carddav.AddressObject, error) {
	return cardBackend{hierOf(ctx)}.GetAddressObject(ctx, p, req)
}
func (ctxCard) ListAddressObjects(ctx context.Context, p string, req *carddav.AddressDataRequest) ([]carddav.AddressObject, error) {
	return cardBackend{hierOf(ctx)}.ListAddressObjects(ctx, p, req)
}
func (ctxCard) QueryAddressObjects(ctx context.Context, p string, q *carddav.AddressBookQuery) ([]carddav.AddressObject, error) {
	return nil, nil
}
func (ctxCard) PutAddressObject(ctx context.Context, p string, card vcard.Card, opts *carddav.PutAddressObjectOptions) (*carddav.AddressObject, error) {
	return &carddav.AddressObject{Path: p}, nil
}
func (ctxCard) DeleteAddressObject(ctx context.Context, p string) error { return nil }

// execHseq: the steps are served one after the other by ONE Handler (Prefix of the
// first step); each request carries its user's hierarchy; the last answer is reported.
func execHseq(x hx.Sx) (obs string) {
	a := x.Args()
	srv := a[0].Atom
	var hd http.Handler
	for i, st := range a[1:] {
		sa := st.Args()
		h, t, q := parseHier(sa[0]), parseTarget(sa[1]), parseReq(sa[2])
		if i == 0 {
			hprefix := join(h.ps) + tslash(h.ptrail)
			if srv == "cal" {
				hd = &caldav.Handler{Backend: ctxCal{}, Prefix: hprefix}
			} else {
				hd = &carddav.Handler{Backend: ctxCard{}, Prefix: hprefix}
			}
		}
		user := h
		shared := hd
		obs = runHandler(http.HandlerFunc(func(w http.ResponseWriter, r *http.Request) {
			shared.ServeHTTP(w, r.WithContext(context.WithValue(r.Context(), hierKey{}, user)))
		}), t.under(h.ps), q)
	}
	return obs
}

func execHier(x hx.Sx) string {
	a := x.Args()
	text := ""
	if x.Head() == "hiertext" {
		text = a[1].Str()
		a = append([]hx.Sx{a[0]}, a[2:]...)
	}
	srv, h, t, q := a[0].Atom, parseHier(a[1]), parseTarget(a[2]), parseReq(a[3])
	h.text = text
	hprefix := join(h.ps) + tslash(h.ptrail)
	var hd http.Handler
	if srv == "cal" {
		hd = &caldav.Handler{Backend: calBackend{h}, Prefix: hprefix}
	} else {
		hd = &carddav.Handler{Backend: cardBackend{h}, Prefix: hprefix}
	}
	return runHandler(hd, t.under(h.ps), q)
}

// ---------------------------------------------------------------- ServePrincipal

func execPrincipal(x hx.Sx) string {
	a := x.Args()
	opts := &webdav.ServePrincipalOptions{CurrentUserPrincipalPath: a[0].Str()}
	for _, hs := range a[1].Args() {
		ns, local, p := hs.List[0].Str(), hs.List[1].Str(), hs.List[2].Str()
		switch {
		case ns == nsCal && local == "calendar-home-set":
			opts.HomeSets = append(opts.HomeSets, caldav.NewCalendarHomeSet(p))
		case ns == nsCard && local == "addressbook-home-set":
			opts.HomeSets = append(opts.HomeSets, carddav.NewAddressBookHomeSet(p))
		default:
			panic("c11: unknown home set kind")
		}
	}
	h := http.HandlerFunc(func(w http.ResponseWriter, r *http.Request) { webdav.ServePrincipal(w, r, opts) })
	return runHandler(h, a[2].Str(), parseReq(a[3]))
}

// ---------------------------------------------------------------- NewPropFindResponse directly

// elemValue marshals as <name>…</name> with the content the value kind asks for.
type elemValue struct {
	name pname
	kind string // h r e o
	href string
	res  []pname
}

func (v *elemValue) MarshalXML(e *xml.Encoder, _ xml.StartElement) error {
	start := xml.StartElement{Name: xml.Name{Space: v.name.ns, Local: v.name.local}}
	if err := e.EncodeToken(start); err != nil {
		return err
	}
	switch v.kind {
	case "h":
		hs := xml.StartElement{Name: xml.Name{Space: nsDAV, Local: "href"}}
		e.EncodeToken(hs)
		e.EncodeToken(xml.CharData((&url.URL{Path: v.href}).String()))
		e.EncodeToken(hs.End())
	case "r":
		for _, r := range v.res {
			rs := xml.StartElement{Name: xml.Name{Space: r.ns, Local: r.local}}
			e.EncodeToken(rs)
			e.EncodeToken(rs.End())
		}
	case "o":
		e.EncodeToken(xml.CharData("opaque value"))
	}
	return e.EncodeToken(start.End())
}

func toInternalPropFind(p pfReq) *verifhook.PropFind {
	pf := &verifhook.PropFind{}
	if p.propname {
		pf.PropName = &struct{}{}
	}
	if p.allprop {
		pf.AllProp = &struct{}{}
	}
	if p.hasProp {
		pf.Prop = &verifhook.Prop{}
		for _, n := range p.prop {
			pf.Prop.Raw = append(pf.Prop.Raw, *verifhook.NewRawXMLElement(xml.Name{Space: n.ns, Local: n.local}, nil, nil))
		}
	}
	return pf
}

func execNr(x hx.Sx) (obs string) {
	defer func() {
		if r := recover(); r != nil {
			obs = hx.L("panic")
		}
	}()
	a := x.Args()
	p, pf := a[0].Str(), parsePf(a[1])
	props := map[xml.Name]verifhook.PropFindFunc{}
	for _, px := range a[2].Args() {
		pa := px.Args()
		n := pname{pa[0].Str(), pa[1].Str()}
		key := xml.Name{Space: n.ns, Local: n.local}
		v := pa[2]
		if v.Head() == "f" {
			code := int(v.Args()[0].Int())
			if code == 500 {
				props[key] = func(*verifhook.RawXMLValue) (interface{}, error) { return nil, errors.New("backend failure") }
			} else {
				props[key] = func(*verifhook.RawXMLValue) (interface{}, error) {
					return nil, &verifhook.HTTPError{Code: code, Err: errors.New("refused")}
				}
			}
			continue
		}
		ev := &elemValue{name: n}
		switch {
		case v.Head() == "h":
			ev.kind, ev.href = "h", v.Args()[0].Str()
		case v.Head() == "r":
			ev.kind = "r"
			for _, r := range v.Args() {
				ev.res = append(ev.res, pname{r.List[0].Str(), r.List[1].Str()})
			}
		default:
			ev.kind = v.Atom
		}
		props[key] = verifhook.PropFindValue(ev)
	}
	ipf := toInternalPropFind(pf)
	resp, err := verifhook.NewPropFindResponse(p, ipf, props)
	if err != nil {
		return hx.L("err", hx.I(int64(verifhook.HTTPErrorFromError(err).Code)))
	}
	data, err := xml.Marshal(resp)
	if err != nil {
		return hx.L("marshal-error")
	}
	// the same request VALUE serves a second resource with other properties: the
	// request must come back unchanged, and the first response must not change
	other := map[xml.Name]verifhook.PropFindFunc{
		{Space: nsDAV, Local: "getetag"}: verifhook.PropFindValue(&elemValue{name: pname{nsDAV, "getetag"}, kind: "o"}),
	}
	verifhook.NewPropFindResponse(p+"/second", ipf, other)
	if !reflect.DeepEqual(ipf, toInternalPropFind(pf)) {
		return hx.L("modified-its-argument")
	}
	if again, err := xml.Marshal(resp); err != nil || !bytes.Equal(again, data) {
		return hx.L("result-changed-by-a-later-call")
	}
	root, err := strictParse(data)
	if err != nil || root.name != (pname{nsDAV, "response"}) {
		return hx.L("not-strict")
	}
	return reduceResponse(root)
}

func exec(in string) (line string) {
	x := hx.MustParse(in)[0]
	// every call into /repo runs under recover in the goroutine that makes it
	defer func() {
		if r := recover(); r != nil {
			line = in + " " + hx.L("panic")
		}
	}()
	switch x.Head() {
	case "hseq":
		return in + " " + execHseq(x)
	case "nr":
		return in + " " + execNr(x)
	case "hier", "hiertext":
		return in + " " + execHier(x)
	case "principal":
		return in + " " + execPrincipal(x)
	case "dav":
		var out string
		a := x.Args()
		davGroup(parseTree(a[0]), [][2]string{{in, ""}}, func(s string) { out = s })
		return out
	}
	panic("c11: unknown case " + x.Head())
}

// ---------------------------------------------------------------- generators

// the seven names of the property's universe per server, and one in no namespace
func universe(srv string) []pname {
	unknown := []pname{{nsDAV, "quota-used-bytes"}, {nsDAV, "no-such-property"}, {"urn:example:x", "color"}}
	switch srv {
	case "dav":
		return append([]pname{{nsDAV, "resourcetype"}, {nsDAV, "getcontentlength"}, {nsDAV, "getcontenttype"}, {nsDAV, "getetag"}}, unknown...)
	case "cal":
		return append([]pname{{nsDAV, "resourcetype"}, {nsDAV, "current-user-principal"}, {nsCal, "calendar-home-set"}, {nsDAV, "getetag"}}, unknown...)
	case "card":
		return append([]pname{{nsDAV, "resourcetype"}, {nsDAV, "current-user-principal"}, {nsCard, "addressbook-home-set"}, {nsDAV, "displayname"}}, unknown...)
	}
	return append([]pname{{nsDAV, "resourcetype"}, {nsDAV, "current-user-principal"}, {nsCal, "calendar-home-set"}, {nsCard, "addressbook-home-set"}}, unknown...)
}

var noNamespace = pname{"", "plain"}

// every subset of the universe, with and without one repetition
func propRequests(srv string) []pfReq {
	u := universe(srv)
	var out []pfReq
	for mask := 0; mask < 1<<len(u); mask++ {
		var names []pname
		for i := range u {
			if mask&(1<<i) != 0 {
				names = append(names, u[i])
			}
		}
		out = append(out, pfReq{hasProp: true, prop: names})
		if len(names) > 0 {
			rep := names[mask%len(names)]
			pos := (mask / 3) % (len(names) + 1)
			withRep := append(append(append([]pname{}, names[:pos]...), rep), names[pos:]...)
			out = append(out, pfReq{hasProp: true, prop: withRep})
		}
	}
	// a name in no namespace, alone, repeated, and mixed
	out = append(out, pfReq{hasProp: true, prop: []pname{noNamespace}},
		pfReq{hasProp: true, prop: []pname{noNamespace, u[0], noNamespace}},
		pfReq{hasProp: true, prop: []pname{u[1], noNamespace, u[4], u[6]}})
	return out
}

// all request bodies of the universe (Depth and Content-Type variants are added by the callers)
func bodies(srv string) []reqDesc {
	var out []reqDesc
	for _, p := range propRequests(srv) {
		out = append(out, reqDesc{ct: "xml", body: "pf", pf: p})
	}
	u := universe(srv)
	out = append(out,
		reqDesc{ct: "xml", body: "pf", pf: pfReq{propname: true}},
		reqDesc{ct: "xml2", body: "pf", pf: pfReq{allprop: true}},
		reqDesc{ct: "xml", body: "pf", pf: pfReq{}}, // <propfind/>
		reqDesc{ct: "xml", body: "pf", pf: pfReq{propname: true, allprop: true}},
		reqDesc{ct: "xml", body: "pf", pf: pfReq{propname: true, hasProp: true, prop: u[:2]}},
		reqDesc{ct: "xml", body: "pf", pf: pfReq{allprop: true, hasProp: true, prop: u[2:5]}},
		reqDesc{ct: "none", body: "empty"},
		reqDesc{ct: "xml", body: "empty"},
		reqDesc{ct: "xml2", body: "empty"},
		reqDesc{ct: "other", body: "empty"},
		reqDesc{ct: "xml", body: "blank"},
		reqDesc{ct: "none", body: "blank"},
		reqDesc{ct: "xml", body: "other"},
		reqDesc{ct: "xml", body: "malformed"},
		reqDesc{ct: "none", body: "pf", pf: pfReq{allprop: true}},
		reqDesc{ct: "other", body: "pf", pf: pfReq{hasProp: true, prop: u[:1]}},
	)
	out = append(out, deliveryBodies(u)...)
	return out
}

// the ways a body, or its absence, reaches the handler (net/http gives a handler
// ContentLength 0 and http.NoBody, ContentLength -1 and a chunked reader, or a
// declared length): an empty body is an allprop request however it arrives and
// whatever the Content-Type; a body is read to its end whatever length was declared
func deliveryBodies(u []pname) []reqDesc {
	var out []reqDesc
	for _, ct := range []string{"none", "xml", "other"} {
		for _, dl := range []string{"unknown", "nobody", "chunked"} {
			out = append(out, reqDesc{ct: ct, body: "empty", dl: dl})
		}
	}
	out = append(out,
		reqDesc{ct: "xml", body: "pf", pf: pfReq{allprop: true}, dl: "unknown"},
		reqDesc{ct: "xml2", body: "pf", pf: pfReq{allprop: true}, dl: "chunked"},
		reqDesc{ct: "xml", body: "pf", pf: pfReq{propname: true}, dl: "larger"},
		reqDesc{ct: "xml", body: "pf", pf: pfReq{propname: true}, dl: "chunked"},
		reqDesc{ct: "xml", body: "pf", pf: pfReq{hasProp: true, prop: u[:3]}, dl: "unknown"},
		reqDesc{ct: "xml", body: "pf", pf: pfReq{hasProp: true, prop: u[2:6]}, dl: "chunked"},
		reqDesc{ct: "xml", body: "pf", pf: pfReq{hasProp: true, prop: u[1:4]}, dl: "smaller"},
		reqDesc{ct: "xml", body: "pf", pf: pfReq{hasProp: true, prop: u[:2]}, dl: "larger"},
		reqDesc{ct: "xml", body: "pf", pf: pfReq{}, dl: "unknown"},
		reqDesc{ct: "xml", body: "pf", pf: pfReq{}, dl: "chunked"},
		reqDesc{ct: "xml", body: "blank", dl: "unknown"},
		reqDesc{ct: "none", body: "blank", dl: "chunked"},
		reqDesc{ct: "none", body: "pf", pf: pfReq{allprop: true}, dl: "unknown"},
		reqDesc{ct: "other", body: "pf", pf: pfReq{allprop: true}, dl: "chunked"},
		reqDesc{ct: "xml", body: "malformed", dl: "chunked"},
		reqDesc{ct: "xml", body: "other", dl: "unknown"},
		// data together with io.EOF, one byte per Read, a Close that fails
		reqDesc{ct: "none", body: "empty", dl: "eofdata"},
		reqDesc{ct: "xml", body: "empty", dl: "onebyte"},
		reqDesc{ct: "other", body: "empty", dl: "closefail"},
		reqDesc{ct: "none", body: "blank", dl: "eofdata"},
		reqDesc{ct: "xml", body: "pf", pf: pfReq{hasProp: true, prop: u[:5]}, dl: "eofdata"},
		reqDesc{ct: "xml", body: "pf", pf: pfReq{hasProp: true, prop: u[3:]}, dl: "onebyte"},
		reqDesc{ct: "xml", body: "pf", pf: pfReq{allprop: true}, dl: "closefail"},
		reqDesc{ct: "xml", body: "pf", pf: pfReq{propname: true}, dl: "eofdata"},
	)
	return out
}

// tailBodies: how many entries at the end of bodies() are not plain prop requests
const tailBodies = 16 + 9 + 16 + 8

// a few representative bodies, for the sweep over all backends
func fewBodies(srv string) []reqDesc {
	u := universe(srv)
	few := []reqDesc{
		{ct: "xml", body: "pf", pf: pfReq{hasProp: true, prop: u}},
		{ct: "xml", body: "pf", pf: pfReq{hasProp: true, prop: []pname{u[0], u[4], u[0], u[6], noNamespace}}},
		{ct: "xml", body: "pf", pf: pfReq{hasProp: true}},
		{ct: "xml", body: "pf", pf: pfReq{propname: true}},
		{ct: "xml", body: "pf", pf: pfReq{allprop: true}},
		{ct: "xml", body: "pf", pf: pfReq{}},
		{ct: "none", body: "empty"},
		{ct: "xml", body: "empty"},
		{ct: "none", body: "empty", dl: "unknown"},
	}
	if hx.Tier() == "thorough" {
		// a real server per request is costly: in the quick tier the chunked forms run with
		// the full body list (one tree and one hierarchy per server, and the principal helper)
		few = append(few, reqDesc{ct: "other", body: "empty", dl: "chunked"},
			reqDesc{ct: "xml", body: "pf", pf: pfReq{hasProp: true, prop: u[:4]}, dl: "chunked"})
	} else {
		few = append(few, reqDesc{ct: "other", body: "empty", dl: "eofdata"})
	}
	return few
}

var depths = []string{"absent", "0", "1", "inf"}

func genNr(emit func(string)) {
	rng := hx.NewRand(hx.Seed() + 11)
	n := 6000
	if hx.Tier() == "thorough" {
		n = 60000
	}
	pool := append(universe("all"), pname{nsDAV, "getetag"}, pname{nsDAV, "displayname"}, pname{"urn:example:y", "color"})
	// requested names also include one in no namespace (no resource of the library has such a property)
	asked := append(append([]pname{}, pool...), noNamespace)
	vals := []string{hx.L("h", hx.S("/a b/%41/")), hx.L("h", hx.S("/u/")), hx.L("r"), hx.L("r", hx.L(hx.S(nsDAV), hx.S("collection"))),
		hx.L("r", hx.L(hx.S(nsDAV), hx.S("collection")), hx.L(hx.S(nsCal), hx.S("calendar"))), "e", "o", "o",
		hx.L("f", "404"), hx.L("f", "403"), hx.L("f", "500"), hx.L("f", "401")}
	for i := 0; i < n; i++ {
		// the properties the resource has: a random subset of the pool, each with a random value or failure
		items := []string{"props"}
		for _, nm := range pool {
			if rng.Chance(2, 5) {
				v := vals[rng.Intn(len(vals))]
				if nm.local == "resourcetype" && !strings.HasPrefix(v, "(r") && !strings.HasPrefix(v, "(f") {
					v = hx.L("r")
				}
				if nm.local != "resourcetype" && strings.HasPrefix(v, "(r") {
					v = "o"
				}
				items = append(items, hx.L("p", hx.S(nm.ns), hx.S(nm.local), v))
			}
		}
		var pf pfReq
		switch k := rng.Intn(10); {
		case k == 0:
			pf = pfReq{propname: true}
		case k == 1:
			pf = pfReq{allprop: true}
		case k == 2 && rng.Chance(1, 3):
			pf = pfReq{}
		default:
			pf = pfReq{hasProp: true}
			for j := rng.Intn(9); j > 0; j-- {
				pf.prop = append(pf.prop, asked[rng.Intn(len(asked))])
			}
			if rng.Chance(1, 6) {
				pf.allprop = true
			}
			if rng.Chance(1, 8) {
				pf.propname = true
			}
		}
		emit(hx.L("nr", hx.S(rng.Pick([]string{"/", "/a b/c", "/%41/é/", "/x/y.ics"})), pfSx(pf), hx.L(items...)))
	}
}

// file trees: root with k directories of m members each (0..3 x 0..3), a file
// at the root, and a sub-directory with a file inside the first directory.
func davTree(k, m int, odd bool) *tnode {
	dnames := []string{"d1", "d2", "d3"}
	fnames := []string{"f1.html", "f2", "f3.json"}
	if odd {
		dnames = []string{"a b", "%41", "é"}
		fnames = []string{"..x", "x.y", "o#1?.png"}
	}
	var names []string
	var children []*tnode
	for i := 0; i < k; i++ {
		var fn []string
		var fc []*tnode
		for j := 0; j < m; j++ {
			fn = append(fn, fnames[j])
			fc = append(fc, mkFile(fnames[j]))
		}
		if i == 0 && m > 0 {
			fn = append(fn, "sub")
			fc = append(fc, mkDir([]string{"g.html", "deep"}, []*tnode{mkFile("g.html"), mkDir(nil, nil)}))
		}
		names = append(names, dnames[i])
		children = append(children, mkDir(fn, fc))
	}
	if (k+m)%2 == 0 {
		names = append(names, "top.html")
		children = append(children, mkFile("top.html"))
	}
	return mkDir(names, children)
}

func davTargets(k, m int, odd bool) []target {
	dn, fn := "d1", "f1.html"
	d2 := "d2"
	if odd {
		dn, fn, d2 = "a b", "..x", "%41"
	}
	ts := []target{{rs: nil}, {rs: []string{"missing"}}, {rs: []string{"top.html"}}, {rs: []string{"top.html"}, trailing: true}}
	if k > 0 {
		ts = append(ts, target{rs: []string{dn}}, target{rs: []string{dn}, trailing: true}, target{rs: []string{dn, "nothing"}})
		if m > 0 {
			ts = append(ts, target{rs: []string{dn, fn}}, target{rs: []string{dn, "sub"}}, target{rs: []string{dn, "sub"}, trailing: true},
				target{rs: []string{dn, "sub", "g.html"}}, target{rs: []string{dn, "sub", "deep"}}, target{rs: []string{dn, fn, "below-a-file"}})
		}
	}
	if k > 1 {
		ts = append(ts, target{rs: []string{d2}, trailing: true})
	}
	ts = append(ts, target{isPath: true, path: "/./" + dn + "/../" + dn}, target{isPath: true, path: "//" + dn + "//"})
	// a NUL byte in the path (%00 on the wire): localPath refuses it before looking at the tree
	ts = append(ts, target{isPath: true, path: "/" + dn + "\x00"}, target{isPath: true, path: "/\x00/" + dn},
		target{rs: []string{"mis\x00sing"}})
	return ts
}

type davJob struct {
	tree  *tnode
	cases [][2]string
}

var davGroupSeq int64

// trees with entries that are not regular files: symbolic links (to a file, to a
// directory, dangling) and a FIFO.  filepath.Walk does not follow links: the
// server lists such an entry like a file (what the tree given to the model says);
// every name of a directory has one response at Depth 1 and infinity, whatever
// sorts before it.  The special entries are members, never the target or above it.
func specialTrees() []*tnode {
	sub := mkDir([]string{"x.html", "0-dangling"}, []*tnode{mkFile("x.html"), mkSpecial("dangling", "0-dangling")})
	var out []*tnode
	// special entries first, in the middle, last; one kind at a time and all together
	for _, kind := range []string{"tofile", "todir", "dangling", "fifo"} {
		for _, name := range []string{"0-first", "m-middle.html", "zz-last"} {
			c := mkDir([]string{"a.txt", name, "n.json", "sub"},
				[]*tnode{mkFile("a.txt"), mkSpecial(kind, name), mkFile("n.json"), sub})
			out = append(out, mkDir([]string{"b.html", "c", name, "y"},
				[]*tnode{mkFile("b.html"), c, mkSpecial(kind, name), mkFile("y")}))
		}
	}
	c := mkDir([]string{"0fifo", "1-link.png", "m.txt", "sub", "t-dir"},
		[]*tnode{mkSpecial("fifo", "0fifo"), mkSpecial("tofile", "1-link.png"), mkFile("m.txt"), sub, mkSpecial("todir", "t-dir")})
	out = append(out, mkDir([]string{"a-link", "b.html", "c", "d-dangling", "e", "l-dir", "z.json"},
		[]*tnode{mkSpecial("tofile", "a-link"), mkFile("b.html"), c, mkSpecial("dangling", "d-dangling"), mkFile("e"),
			mkSpecial("todir", "l-dir"), mkFile("z.json")}))
	return out
}

func specialTargets() []target {
	return []target{{rs: nil}, {rs: nil, trailing: true}, {rs: []string{"c"}}, {rs: []string{"c"}, trailing: true},
		{rs: []string{"c", "sub"}}, {rs: []string{"c", "a.txt"}}, {rs: []string{"c", "m.txt"}}, {rs: []string{"b.html"}},
		{rs: []string{"missing"}}}
}

func genDav(jobs chan<- davJob) {
	thorough := hx.Tier() == "thorough"
	all, few := bodies("dav"), fewBodies("dav")
	for ti, tree := range specialTrees() {
		tsx := treeSx(tree)
		bs := few
		if thorough || ti == 12 {
			bs = all
		}
		job := davJob{tree: tree}
		for _, t := range specialTargets() {
			for _, b := range bs {
				for _, d := range depths {
					q := b
					q.dh = d
					job.cases = append(job.cases, [2]string{hx.L("dav", tsx, targetSx(t), reqSx(q)), ""})
				}
			}
		}
		for len(job.cases) > 4000 {
			jobs <- davJob{tree: tree, cases: job.cases[:4000]}
			job.cases = job.cases[4000:]
		}
		jobs <- job
	}
	for _, odd := range []bool{false, true} {
		for k := 0; k <= 3; k++ {
			for m := 0; m <= 3; m++ {
				tree := davTree(k, m, odd)
				tsx := treeSx(tree)
				bs := few
				if thorough || (k == 2 && m == 2) {
					bs = all
				}
				job := davJob{tree: tree}
				for _, t := range davTargets(k, m, odd) {
					for _, b := range bs {
						for _, d := range depths {
							q := b
							q.dh = d
							job.cases = append(job.cases, [2]string{hx.L("dav", tsx, targetSx(t), reqSx(q)), ""})
						}
					}
					q := few[0]
					q.dh = "bad"
					job.cases = append(job.cases, [2]string{hx.L("dav", tsx, targetSx(t), reqSx(q)), ""})
				}
				// split large jobs so that the workers stay busy
				for len(job.cases) > 4000 {
					jobs <- davJob{tree: tree, cases: job.cases[:4000]}
					job.cases = job.cases[4000:]
				}
				jobs <- job
			}
		}
	}
}

func mkHier(ps []string, nc, no int, odd bool, flags int) *hier {
	cn := []string{"c1", "c2", "c3"}
	on := []string{"o1.ics", "o2", "o3.vcf"}
	h := &hier{ps: ps, ptrail: flags&4 != 0, user: "u", home: "h", uslash: flags&1 == 0, hslash: flags&2 == 0}
	if odd {
		cn = []string{"%41", "x y", "é"}
		on = []string{"..x", "o#1?", "x.y"}
		h.user, h.home = "a b", "%2F"
	}
	for i := 0; i < nc; i++ {
		c := hcoll{name: cn[i], slash: (flags+i)&1 != 0, n: (flags+i)&2 != 0, d: (flags+i)&4 != 0, m: (flags+i)&1 == 0}
		for j := 0; j < no; j++ {
			c.objs = append(c.objs, hobj{name: on[j], l: (flags+i+j)&1 == 0, t: (flags+j)&2 != 0, e: (flags+i+j)&4 != 0})
		}
		h.colls = append(h.colls, c)
	}
	return h
}

func hierTargets(h *hier) []target {
	ts := []target{
		{rs: nil}, {rs: nil, trailing: true},
		{rs: []string{h.user}}, {rs: []string{h.user}, trailing: true}, {rs: []string{"someone-else"}, trailing: true},
		{rs: []string{h.user, h.home}}, {rs: []string{h.user, h.home}, trailing: true},
		{rs: []string{h.user, "other-home"}, trailing: true}, {rs: []string{"someone-else", h.home}},
		{rs: []string{h.user, h.home, "missing"}},
	}
	for i, c := range h.colls {
		ts = append(ts, target{rs: []string{h.user, h.home, c.name}, trailing: i%2 == 0})
		if i == 0 {
			ts = append(ts, target{rs: []string{h.user, h.home, c.name}, trailing: true}, target{rs: []string{h.user, h.home, c.name}},
				target{rs: []string{h.user, h.home, c.name, "missing"}})
		}
		for j, o := range c.objs {
			if i == 0 || j == 0 {
				ts = append(ts, target{rs: []string{h.user, h.home, c.name, o.name}})
			}
			if i == 0 && j == 0 {
				ts = append(ts, target{rs: []string{h.user, h.home, c.name, o.name}, trailing: true},
					target{rs: []string{h.user, h.home, c.name, o.name, "deeper"}})
			}
		}
	}
	ts = append(ts, target{isPath: true, path: join(h.ps) + "/./" + h.user + "//"}, target{isPath: true, path: "/zz" + join(h.ps) + "/" + h.user})
	return ts
}

func genHier(emit func(string)) {
	thorough := hx.Tier() == "thorough"
	for _, srv := range []string{"cal", "card"} {
		all, few := bodies(srv), fewBodies(srv)
		for pi, ps := range [][]string{{}, {"dav"}, {"a b", "%41"}} {
			for nc := 0; nc <= 3; nc++ {
				for no := 0; no <= 3; no++ {
					if !thorough && pi == 2 && (nc+no)%2 == 1 {
						continue
					}
					h := mkHier(ps, nc, no, pi == 2 || (nc+no)%3 == 2, pi+nc+2*no)
					hsx := hierSx(h)
					bs := few
					if thorough || (pi == 1 && nc == 2 && no == 2) {
						bs = all
					}
					for _, t := range hierTargets(h) {
						for _, b := range bs {
							for _, d := range depths {
								q := b
								q.dh = d
								emit(hx.L("hier", srv, hsx, targetSx(t), reqSx(q)))
							}
						}
						q := few[0]
						q.dh = "bad"
						emit(hx.L("hier", srv, hsx, targetSx(t), reqSx(q)))
					}
				}
			}
		}
	}
	// random larger hierarchies
	rng := hx.NewRand(hx.Seed() + 5)
	n := 1500
	if thorough {
		n = 20000
	}
	pieces := []string{"a", "b", "c", " ", "%", "4", "é", ".", "x", "~"}
	seg := func(used map[string]bool) string {
		for {
			var sb strings.Builder
			for k := 1 + rng.Intn(3); k > 0; k-- {
				sb.WriteString(rng.Pick(pieces))
			}
			if s := sb.String(); s != "." && s != ".." && !used[s] {
				used[s] = true
				return s
			}
		}
	}
	for i := 0; i < n; i++ {
		srv := rng.Pick([]string{"cal", "card"})
		h := &hier{ptrail: rng.Bool(), uslash: rng.Bool(), hslash: rng.Bool()}
		used := map[string]bool{}
		for k := rng.Intn(4); k > 0; k-- {
			h.ps = append(h.ps, seg(map[string]bool{}))
		}
		h.user, h.home = seg(used), seg(used)
		cu := map[string]bool{}
		for k := rng.Intn(7); k > 0; k-- {
			c := hcoll{name: seg(cu), slash: rng.Bool(), n: rng.Bool(), d: rng.Bool(), m: rng.Bool()}
			ou := map[string]bool{}
			for j := rng.Intn(6); j > 0; j-- {
				c.objs = append(c.objs, hobj{seg(ou), rng.Bool(), rng.Bool(), rng.Bool()})
			}
			h.colls = append(h.colls, c)
		}
		ts := hierTargets(h)
		t := ts[rng.Intn(len(ts))]
		bs := bodies(srv)
		q := bs[rng.Intn(len(bs))]
		q.dh = rng.Pick(append(depths, "inf", "1", "bad"))
		emit(hx.L("hier", srv, hierSx(h), targetSx(t), reqSx(q)))
	}
}

// header spellings: every Depth and Content-Type spelling on the three servers and the principal helper
func spelledRequests(srv string) []reqDesc {
	u := universe(srv)
	var out []reqDesc
	for tag, vals := range depthSpellings {
		dh := depthClass(vals) + ":" + tag
		out = append(out, reqDesc{dh: dh, ct: "xml", body: "pf", pf: pfReq{hasProp: true, prop: u[:3]}},
			reqDesc{dh: dh, ct: "none", body: "empty"})
	}
	for tag, vals := range ctypeSpellings {
		ct := ctypeClass(vals) + ":" + tag
		for _, d := range []string{"0", "1"} {
			out = append(out, reqDesc{dh: d, ct: ct, body: "pf", pf: pfReq{hasProp: true, prop: u[1:4]}},
				reqDesc{dh: d, ct: ct, body: "pf", pf: pfReq{allprop: true}},
				reqDesc{dh: d, ct: ct, body: "pf", pf: pfReq{}},
				reqDesc{dh: d, ct: ct, body: "empty"},
				reqDesc{dh: d, ct: ct, body: "blank"},
				reqDesc{dh: d, ct: ct, body: "empty", dl: "unknown"})
		}
	}
	sort.Slice(out, func(i, j int) bool { return reqSx(out[i]) < reqSx(out[j]) })
	return out
}

func genSpellings(emit func(string), jobs chan<- davJob) {
	tree := davTree(2, 2, false)
	job := davJob{tree: tree}
	for _, q := range spelledRequests("dav") {
		for _, t := range []target{{rs: nil}, {rs: []string{"d1"}}, {rs: []string{"d1", "f1.html"}}} {
			job.cases = append(job.cases, [2]string{hx.L("dav", treeSx(tree), targetSx(t), reqSx(q)), ""})
		}
	}
	jobs <- job
	for _, srv := range []string{"cal", "card"} {
		h := mkHier([]string{"dav"}, 2, 2, false, 3)
		for _, q := range spelledRequests(srv) {
			for _, t := range []target{{rs: []string{h.user}}, {rs: []string{h.user, h.home}, trailing: true}} {
				emit(hx.L("hier", srv, hierSx(h), targetSx(t), reqSx(q)))
			}
		}
	}
	hs := hx.L("hs", hx.L(hx.S(nsCal), hx.S("calendar-home-set"), hx.S("/u/cal/")))
	for _, q := range spelledRequests("principal") {
		emit(hx.L("principal", hx.S("/u/"), hs, hx.S("/u/"), reqSx(q)))
	}
}

// sizes: request bodies, names and answers around the buffer sizes of net/http,
// bufio and encoding/xml (512, 4096, 32 KiB, 64 KiB)
func genSizes(emit func(string), jobs chan<- davJob) {
	long := func(n int) string { return "p" + strings.Repeat("x", n-1) }
	var reqs []reqDesc
	for _, n := range []int{511, 512, 1024, 4095, 4096, 4097} {
		reqs = append(reqs, reqDesc{dh: "0", ct: "xml", body: "pf", pf: pfReq{hasProp: true,
			prop: []pname{{nsDAV, "getetag"}, {nsDAV, long(n)}, {"urn:example:" + long(n), "color"}, {nsDAV, "resourcetype"}}}})
	}
	counts := []int{200, 700}
	if hx.Tier() == "thorough" {
		reqs = append(reqs, reqDesc{dh: "0", ct: "xml", body: "pf", pf: pfReq{hasProp: true,
			prop: []pname{{nsDAV, long(32767)}, {nsDAV, long(32768)}, {nsDAV, long(65537)}}}})
		counts = append(counts, 1500)
	}
	for _, c := range counts {
		// many names (a body of several buffers), each once, one of them twice
		var names []pname
		for i := 0; i < c; i++ {
			names = append(names, pname{nsDAV, fmt.Sprintf("prop-%04d", i)})
		}
		names = append(names, pname{nsDAV, "getetag"}, names[c/2])
		for _, dl := range []string{"", "chunked", "onebyte"} {
			reqs = append(reqs, reqDesc{dh: "1", ct: "xml", body: "pf", pf: pfReq{hasProp: true, prop: names}, dl: dl})
		}
	}
	tree := davTree(2, 2, false)
	job := davJob{tree: tree}
	for _, q := range reqs {
		job.cases = append(job.cases, [2]string{hx.L("dav", treeSx(tree), targetSx(target{rs: []string{"d1"}}), reqSx(q)), ""})
	}
	// many siblings: a directory of 1100 files, Depth 1 and infinity
	var fn []string
	var fc []*tnode
	for i := 0; i < 1100; i++ {
		fn = append(fn, fmt.Sprintf("f%04d.txt", i))
		fc = append(fc, mkFile("x.txt"))
	}
	big := mkDir([]string{"many", "z"}, []*tnode{mkDir(fn, fc), mkFile("z")})
	bj := davJob{tree: big}
	for _, d := range []string{"1", "inf"} {
		q := reqDesc{dh: d, ct: "xml", body: "pf", pf: pfReq{hasProp: true, prop: []pname{{nsDAV, "getetag"}, {nsDAV, "nope"}}}}
		for _, t := range []target{{rs: []string{"many"}}, {rs: nil}} {
			bj.cases = append(bj.cases, [2]string{hx.L("dav", treeSx(big), targetSx(t), reqSx(q)), ""})
		}
	}
	jobs <- job
	jobs <- bj
	for _, srv := range []string{"cal", "card"} {
		h := mkHier(nil, 1, 1, false, 0)
		for _, q := range reqs {
			emit(hx.L("hier", srv, hierSx(h), targetSx(target{rs: []string{h.user, h.home}}), reqSx(q)))
		}
	}
}

// texts XML cannot carry in the stored objects and collection names: every answer
// must still be a body the strict reader accepts, with the same accounting
func genTexts(emit func(string)) {
	for _, srv := range []string{"cal", "card"} {
		data := pname{nsCal, "calendar-data"}
		desc := pname{nsCal, "calendar-description"}
		if srv == "card" {
			data, desc = pname{nsCard, "address-data"}, pname{nsCard, "addressbook-description"}
		}
		reqs := []reqDesc{
			{ct: "xml", body: "pf", pf: pfReq{allprop: true}},
			{ct: "xml", body: "pf", pf: pfReq{hasProp: true, prop: []pname{data, {nsDAV, "displayname"}, desc, {nsDAV, "getetag"}}}},
			{ct: "none", body: "empty", dl: "unknown"},
		}
		for vi, text := range textVariants() {
			h := mkHier([]string{"dav"}, 2, 2, vi%2 == 1, 6) // flags 6: names and descriptions present on some collections
			for ci := range h.colls {
				h.colls[ci].n, h.colls[ci].d = true, ci%2 == 0
			}
			c0 := h.colls[0]
			for _, t := range []struct {
				t  target
				dh string
			}{{target{rs: []string{h.user, h.home, c0.name, c0.objs[0].name}}, "0"},
				{target{rs: []string{h.user, h.home, c0.name}}, "1"},
				{target{rs: []string{h.user, h.home}, trailing: true}, "1"},
				{target{rs: []string{h.user}}, "inf"}} {
				for _, q := range reqs {
					q.dh = t.dh
					emit(hx.L("hiertext", srv, hx.S(text), hierSx(h), targetSx(t.t), reqSx(q)))
				}
			}
		}
	}
}

// histories: two users behind ONE shared Handler, alice then bob then alice
func genHseq(emit func(string)) {
	thorough := hx.Tier() == "thorough"
	for _, srv := range []string{"cal", "card"} {
		u := universe(srv)
		bodies := []reqDesc{
			{ct: "xml", body: "pf", pf: pfReq{hasProp: true, prop: u[:4]}},
			{ct: "xml", body: "pf", pf: pfReq{allprop: true}},
		}
		for pi, ps := range [][]string{{}, {"dav"}, {"a b", "%41"}} {
			if !thorough && pi == 2 {
				continue
			}
			alice := mkHier(ps, 2, 2, false, pi)
			alice.user, alice.home = "alice", "cal"
			bob := mkHier(ps, 1, 1, false, pi)
			bob.user, bob.home = "bob", "h"
			bob.ptrail = alice.ptrail
			shapes := func(me, ot *hier) []target {
				ts := []target{{rs: nil}, {rs: []string{me.user}, trailing: true}, {rs: []string{me.user}},
					{rs: []string{ot.user}, trailing: true}, {rs: []string{me.user, me.home}, trailing: true},
					{rs: []string{ot.user, ot.home}}, {rs: []string{me.user, me.home, me.colls[0].name}},
					{rs: []string{me.user, me.home, me.colls[0].name, me.colls[0].objs[0].name}}}
				return ts
			}
			sa, sb := shapes(alice, bob), shapes(bob, alice)
			step := func(h *hier, t target, b reqDesc, d string) string {
				b.dh = d
				return hx.L("hstep", hierSx(h), targetSx(t), reqSx(b))
			}
			n := 0
			for i, ta := range sa {
				for j, tb := range sb {
					for bi, b := range bodies {
						n++
						if !thorough && n%3 != 0 {
							continue
						}
						d := depths[(i+j+bi)%len(depths)]
						steps := []string{step(alice, ta, b, d), step(bob, tb, b, d), step(alice, sa[(i+j)%len(sa)], b, d)}
						for k := 1; k <= len(steps); k++ {
							emit(hx.L(append([]string{"hseq", srv}, steps[:k]...)...))
						}
					}
				}
			}
		}
	}
}

func genPrincipal(emit func(string)) {
	all := bodies("principal")
	hsets := []string{
		hx.L("hs"),
		hx.L("hs", hx.L(hx.S(nsCal), hx.S("calendar-home-set"), hx.S("/u/cal/"))),
		hx.L("hs", hx.L(hx.S(nsCal), hx.S("calendar-home-set"), hx.S("/a b/%41/")), hx.L(hx.S(nsCard), hx.S("addressbook-home-set"), hx.S("/a b/é/"))),
	}
	for hi, hs := range hsets {
		for _, p := range []string{"/u/", "/a b/%41", "/"} {
			for bi, b := range all {
				if hi != 1 && bi%5 != 0 && bi < len(all)-tailBodies {
					continue
				}
				for _, d := range append(append([]string{}, depths...), "bad") {
					if d == "bad" && bi%7 != 0 && bi < len(all)-tailBodies {
						continue
					}
					q := b
					q.dh = d
					emit(hx.L("principal", hx.S(p), hs, hx.S(p), reqSx(q)))
				}
			}
		}
	}
}

func main() {
	out := flag.String("out", "", "output file")
	replay := flag.String("replay", "", "file of case lines to re-run (inputs are re-executed)")
	flag.Parse()
	sink := hx.NewSink(*out)
	defer sink.Close()

	if *replay != "" {
		for _, l := range hx.ReadLines(*replay) {
			items := hx.MustParse(l)
			sink.Put(exec(items[0].String()))
		}
		return
	}

	inputs := make(chan string, 4096)
	jobs := make(chan davJob, 16)
	var wg sync.WaitGroup
	for w := 0; w < runtime.NumCPU(); w++ {
		wg.Add(1)
		go func() {
			defer wg.Done()
			for in := range inputs {
				sink.Put(exec(in))
			}
		}()
		wg.Add(1)
		go func() {
			defer wg.Done()
			for j := range jobs {
				davGroup(j.tree, j.cases, sink.Put)
			}
		}()
	}
	emit := func(s string) { inputs <- s }
	genDav(jobs)
	genSpellings(emit, jobs)
	genSizes(emit, jobs)
	close(jobs)
	genHseq(emit)
	genTexts(emit)
	genNr(emit)
	genHier(emit)
	genPrincipal(emit)
	close(inputs)
	wg.Wait()
	fmt.Fprintf(os.Stderr, "c11: %d cases\n", sink.N)
}
