package main

// Case runners: each executes the REAL clients and handlers of /repo on one input and
// renders "<input-with-codec-tables> <observation>".

import (
	"errors"
	"fmt"
	"net/http"
	"net/url"
	"sort"
	"strconv"
	"strings"
	"time"
	"unicode/utf8"

	"github.com/emersion/go-webdav/caldav"
	"github.com/emersion/go-webdav/carddav"
	"github.com/emersion/go-webdav/verifhook"

	"verifharness/hx"
)

const nsCal = "urn:ietf:params:xml:ns:caldav"
const nsCard = "urn:ietf:params:xml:ns:carddav"

func nsOf(card bool) string {
	if card {
		return nsCard
	}
	return nsCal
}

func dataLocal(card bool) string {
	if card {
		return "address-data"
	}
	return "calendar-data"
}

func flSx(card bool) string {
	if card {
		return "card"
	}
	return "cal"
}

// ---------------------------------------------------------------- codec tables

// tabs records the graph of each external function on the values of one case, computed
// with the very functions the repository calls.
type tabs struct {
	card     bool
	std      bool // the direct stdlib calls of the header code paths instead of internal's codecs
	hrefEnc  map[string]string
	hrefDec  map[string]*string
	etagEnc  map[string]string
	etagDec  map[string]*string
	timeEnc  map[int64]string
	timeDec  map[string]*int64
	payEnc   map[string]*string
	payDec   map[string]*string
	statusTx map[int64]string
}

func newTabs(card bool) *tabs {
	t := &tabs{card: card, hrefEnc: map[string]string{}, hrefDec: map[string]*string{}, etagEnc: map[string]string{},
		etagDec: map[string]*string{}, timeEnc: map[int64]string{}, timeDec: map[string]*int64{},
		payEnc: map[string]*string{}, payDec: map[string]*string{}, statusTx: map[int64]string{}}
	for _, c := range []int64{200, 404, 500} {
		t.code(c)
	}
	return t
}

func (t *tabs) code(c int64) { t.statusTx[c] = http.StatusText(int(c)) }

func (t *tabs) hrefText(s string) {
	if _, ok := t.hrefDec[s]; ok {
		return
	}
	var p string
	if t.std {
		u, err := url.Parse(s)
		if err != nil {
			t.hrefDec[s] = nil
			return
		}
		p = u.Path
	} else {
		var h verifhook.Href
		if err := h.UnmarshalText([]byte(s)); err != nil {
			t.hrefDec[s] = nil
			return
		}
		p = h.Path
	}
	t.hrefDec[s] = &p
}

func (t *tabs) path(p string) {
	var e string
	if t.std {
		e = (&url.URL{Path: p}).String()
	} else {
		h := verifhook.Href{Path: p}
		e = h.String()
	}
	t.hrefEnc[p] = e
	t.hrefText(e)
}

func (t *tabs) etagText(s string) {
	if _, ok := t.etagDec[s]; ok {
		return
	}
	var u string
	if t.std {
		var err error
		if u, err = strconv.Unquote(s); err != nil {
			t.etagDec[s] = nil
			return
		}
	} else {
		var e verifhook.ETag
		if err := e.UnmarshalText([]byte(s)); err != nil {
			t.etagDec[s] = nil
			return
		}
		u = string(e)
	}
	t.etagDec[s] = &u
}

func (t *tabs) etag(e string) {
	q := verifhook.ETag(e).String()
	t.etagEnc[e] = q
	t.etagText(q)
}

func (t *tabs) timeText(s string) {
	if _, ok := t.timeDec[s]; ok {
		return
	}
	var u int64
	if t.std {
		tt, err := http.ParseTime(s)
		if err != nil {
			t.timeDec[s] = nil
			return
		}
		u = tt.Unix()
	} else {
		var tt verifhook.Time
		if err := tt.UnmarshalText([]byte(s)); err != nil {
			t.timeDec[s] = nil
			return
		}
		u = time.Time(tt).Unix()
	}
	t.timeDec[s] = &u
}

func (t *tabs) time(sec int64) {
	var s string
	if t.std {
		s = time.Unix(sec, 0).UTC().Format(http.TimeFormat)
	} else {
		tt := verifhook.Time(time.Unix(sec, 0))
		b, _ := tt.MarshalText()
		s = string(b)
	}
	t.timeEnc[sec] = s
	t.timeText(s)
}

func (t *tabs) payText(s string) {
	if _, ok := t.payDec[s]; ok {
		return
	}
	if strings.HasPrefix(s, "K(") {
		k := s[1:]
		t.payDec[s] = &k
		return
	}
	if k, ok := decodeText(t.card, s); ok {
		t.payDec[s] = &k
	} else {
		t.payDec[s] = nil
	}
}

func (t *tabs) pay(k string) {
	text, ok := encodeK(t.card, k)
	if !ok {
		t.payEnc[k] = nil
		return
	}
	w := wireForm(t.card, text)
	t.payEnc[k] = &w
	t.payText(w)
}

func (t *tabs) obj(o *Obj) {
	t.path(o.Path)
	t.etag(o.ETag)
	t.time(o.Sec)
	t.pay(o.Data)
}

func (t *tabs) outcome(o *Outcome) {
	if o.Kind == "found" {
		t.obj(o.Obj)
	} else {
		t.code(failCode(o))
	}
}

func (t *tabs) scan(tr *Tree) {
	if tr == nil {
		return
	}
	tr.walk(func(n *Tree) {
		switch {
		case n.Kind == 'e' && n.Local == "href":
			t.hrefText(n.chardata())
		case n.is(nsDAV, "getetag"):
			t.etagText(n.chardata())
		case n.is(nsDAV, "getlastmodified"):
			t.timeText(n.chardata())
		case n.is(nsOf(t.card), dataLocal(t.card)):
			t.payText(n.chardata())
		}
	})
}

func optS(p *string) string {
	if p == nil {
		return "n"
	}
	return hx.S(*p)
}

func sortedKeys(m map[string]*string) []string {
	ks := make([]string, 0, len(m))
	for k := range m {
		ks = append(ks, k)
	}
	sort.Strings(ks)
	return ks
}

func (t *tabs) Sx() string {
	ssTab := func(name string, m map[string]string) string {
		ks := make([]string, 0, len(m))
		for k := range m {
			ks = append(ks, k)
		}
		sort.Strings(ks)
		items := []string{name}
		for _, k := range ks {
			items = append(items, hx.L(hx.S(k), hx.S(m[k])))
		}
		return hx.L(items...)
	}
	soTab := func(name string, m map[string]*string) string {
		items := []string{name}
		for _, k := range sortedKeys(m) {
			items = append(items, hx.L(hx.S(k), optS(m[k])))
		}
		return hx.L(items...)
	}
	var secs []int64
	for k := range t.timeEnc {
		secs = append(secs, k)
	}
	sort.Slice(secs, func(i, j int) bool { return secs[i] < secs[j] })
	te := []string{"time_enc"}
	for _, k := range secs {
		te = append(te, hx.L(hx.I(k), hx.S(t.timeEnc[k])))
	}
	var tks []string
	for k := range t.timeDec {
		tks = append(tks, k)
	}
	sort.Strings(tks)
	td := []string{"time_dec"}
	for _, k := range tks {
		v := "n"
		if t.timeDec[k] != nil {
			v = hx.I(*t.timeDec[k])
		}
		td = append(td, hx.L(hx.S(k), v))
	}
	var codes []int64
	for k := range t.statusTx {
		codes = append(codes, k)
	}
	sort.Slice(codes, func(i, j int) bool { return codes[i] < codes[j] })
	st := []string{"status_text"}
	for _, k := range codes {
		st = append(st, hx.L(hx.I(k), hx.S(t.statusTx[k])))
	}
	head := "tab"
	if t.std {
		head = "htab"
	}
	// the part of strconv.IsPrint's table that C16's model of %q takes as a parameter: the
	// printable runes above U+00FF of the tags that were quoted
	seenHi := map[rune]bool{}
	var his []int64
	for e := range t.etagEnc {
		for i := 0; i < len(e); {
			r, w := utf8.DecodeRuneInString(e[i:])
			i += w
			if r > 0xFF && !(r == utf8.RuneError && w == 1) && strconv.IsPrint(r) && !seenHi[r] {
				seenHi[r] = true
				his = append(his, int64(r))
			}
		}
	}
	sort.Slice(his, func(i, j int) bool { return his[i] < his[j] })
	ph := []string{"print_hi"}
	for _, r := range his {
		ph = append(ph, hx.I(r))
	}
	return hx.L(head, hx.L(ph...), ssTab("href_enc", t.hrefEnc), soTab("href_dec", t.hrefDec), ssTab("etag_enc", t.etagEnc),
		soTab("etag_dec", t.etagDec), hx.L(te...), hx.L(td...), soTab("pay_enc", t.payEnc), soTab("pay_dec", t.payDec), hx.L(st...))
}

// ---------------------------------------------------------------- outcomes

func failCode(o *Outcome) int64 {
	switch o.Kind {
	case "http", "wrap":
		return o.Code
	case "pre":
		return 409
	}
	return 500
}

func outcomeSx(card bool, o *Outcome) string {
	if o.Kind == "found" {
		return hx.L("found", o.Obj.Sx())
	}
	err := buildErr(card, o)
	code := "n"
	if o.Kind != "plain" {
		code = hx.I(failCode(o))
	}
	pre := "n"
	if o.Kind == "pre" {
		pre = Xname{nsOf(card), o.Pre}.Sx()
	}
	// kind and its parameters (for replay), then what the model needs: the code errors.As
	// finds, err.Error(), the precondition element
	return hx.L("fail", o.Kind, hx.I(o.Code), hx.S(o.Pre), code, hx.S(err.Error()), pre)
}

func parseOutcome(x hx.Sx) *Outcome {
	if x.Head() == "found" {
		return &Outcome{Kind: "found", Obj: parseObj(x.List[1])}
	}
	return &Outcome{Kind: x.List[1].Atom, Code: x.List[2].Int(), Pre: x.List[3].Str()}
}

// ---------------------------------------------------------------- observations

func errSx(err error) string {
	var he *verifhook.HTTPError
	if errors.As(err, &he) {
		return hx.L("http", hx.I(int64(he.Code)))
	}
	return hx.L("other")
}

func viewSx(path, etag string, mt time.Time, n int64, data string) string {
	return hx.L("v", hx.S(path), hx.S(etag), hx.I(mt.Unix()), hx.I(n), hx.S(data))
}

func calObjsSx(l []caldav.CalendarObject, err error) string {
	if err != nil {
		return errSx(err)
	}
	items := []string{"ok"}
	for _, o := range l {
		items = append(items, viewSx(o.Path, o.ETag, o.ModTime, o.ContentLength, calK(o.Data)))
	}
	return hx.L(items...)
}

func cardObjsSx(l []carddav.AddressObject, err error) string {
	if err != nil {
		return errSx(err)
	}
	items := []string{"ok"}
	for _, o := range l {
		items = append(items, viewSx(o.Path, o.ETag, o.ModTime, o.ContentLength, cardK(o.Card)))
	}
	return hx.L(items...)
}

func strsSx(l []string) string {
	s := make([]string, len(l))
	for i, x := range l {
		s[i] = hx.S(x)
	}
	return hx.L(s...)
}

// canonData rewrites the text of calendar-data / address-data elements of a server body
// to its wire form (see payload.go).
func canonData(card bool, t *Tree) {
	t.walk(func(n *Tree) {
		if n.is(nsOf(card), dataLocal(card)) && textOnly(n) && n.chardata() != "" {
			n.Kids = []*Tree{T(wireForm(card, n.chardata()))}
		}
	})
}

// bodySx renders a server body: its tree and the table the harness's own RFC reader
// extracts from it.
func bodySx(card bool, body []byte, tb *tabs) string {
	tree, err := readTree(body)
	if err != nil {
		return hx.L("unreadable", hx.S(err.Error()))
	}
	canonData(card, tree)
	tb.scan(tree)
	rows, ok := readTable(tree)
	return tree.Sx() + " " + rowsSx(rows, ok)
}

func guard(f func() string) (s string) {
	defer func() {
		if r := recover(); r != nil {
			s = hx.L("panic", hx.S(fmt.Sprint(r)))
		}
	}()
	return f()
}

