package main

// Case runners: each executes the REAL clients and handlers of /repo on one input and
// renders "<input-with-codec-tables> <observation>".

import (
	"context"
	"encoding/xml"
	"errors"
	"fmt"
	"hash/fnv"
	"net/http"
	"net/url"
	"sort"
	"strconv"
	"strings"
	"time"
	"unicode/utf8"

	"github.com/emersion/go-webdav/caldav"
	"github.com/emersion/go-webdav/carddav"
	"github.com/emersion/go-webdav/verifhook"

	"verifharness/hx"
)

const nsCal = "urn:ietf:params:xml:ns:caldav"
const nsCard = "urn:ietf:params:xml:ns:carddav"

func nsOf(card bool) string {
	if card {
		return nsCard
	}
	return nsCal
}

func dataLocal(card bool) string {
	if card {
		return "address-data"
	}
	return "calendar-data"
}

func flSx(card bool) string {
	if card {
		return "card"
	}
	return "cal"
}

// ---------------------------------------------------------------- codec tables

// tabs records the graph of each external function on the values of one case, computed
// with the very functions the repository calls.
type tabs struct {
	card     bool
	std      bool // the direct stdlib calls of the header code paths instead of internal's codecs
	hrefEnc  map[string]string
	hrefDec  map[string]*string
	etagEnc  map[string]string
	etagDec  map[string]*string
	timeEnc  map[int64]string
	timeDec  map[string]*int64
	payEnc   map[string]*string
	payDec   map[string]*string
	statusTx map[int64]string
}

func newTabs(card bool) *tabs {
	t := &tabs{card: card, hrefEnc: map[string]string{}, hrefDec: map[string]*string{}, etagEnc: map[string]string{},
		etagDec: map[string]*string{}, timeEnc: map[int64]string{}, timeDec: map[string]*int64{},
		payEnc: map[string]*string{}, payDec: map[string]*string{}, statusTx: map[int64]string{}}
	for _, c := range []int64{200, 404, 500} {
		t.code(c)
	}
	return t
}

func (t *tabs) code(c int64) { t.statusTx[c] = http.StatusText(int(c)) }

func (t *tabs) hrefText(s string) {
	if _, ok := t.hrefDec[s]; ok {
		return
	}
	var p string
	if t.std {
		u, err := url.Parse(s)
		if err != nil {
			t.hrefDec[s] = nil
			return
		}
		p = u.Path
	} else {
		var h verifhook.Href
		if err := h.UnmarshalText([]byte(s)); err != nil {
			t.hrefDec[s] = nil
			return
		}
		p = h.Path
	}
	t.hrefDec[s] = &p
}

func (t *tabs) path(p string) {
	var e string
	if t.std {
		e = (&url.URL{Path: p}).String()
	} else {
		h := verifhook.Href{Path: p}
		e = h.String()
	}
	t.hrefEnc[p] = e
	t.hrefText(e)
}

func (t *tabs) etagText(s string) {
	if _, ok := t.etagDec[s]; ok {
		return
	}
	var u string
	if t.std {
		var err error
		if u, err = strconv.Unquote(s); err != nil {
			t.etagDec[s] = nil
			return
		}
	} else {
		var e verifhook.ETag
		if err := e.UnmarshalText([]byte(s)); err != nil {
			t.etagDec[s] = nil
			return
		}
		u = string(e)
	}
	t.etagDec[s] = &u
}

func (t *tabs) etag(e string) {
	q := verifhook.ETag(e).String()
	t.etagEnc[e] = q
	t.etagText(q)
}

func (t *tabs) timeText(s string) {
	if _, ok := t.timeDec[s]; ok {
		return
	}
	var u int64
	if t.std {
		tt, err := http.ParseTime(s)
		if err != nil {
			t.timeDec[s] = nil
			return
		}
		u = tt.Unix()
	} else {
		var tt verifhook.Time
		if err := tt.UnmarshalText([]byte(s)); err != nil {
			t.timeDec[s] = nil
			return
		}
		u = time.Time(tt).Unix()
	}
	t.timeDec[s] = &u
}

func (t *tabs) time(sec int64) {
	var s string
	if t.std {
		s = time.Unix(sec, 0).UTC().Format(http.TimeFormat)
	} else {
		tt := verifhook.Time(time.Unix(sec, 0))
		b, _ := tt.MarshalText()
		s = string(b)
	}
	t.timeEnc[sec] = s
	t.timeText(s)
}

func (t *tabs) payText(s string) {
	if _, ok := t.payDec[s]; ok {
		return
	}
	if strings.HasPrefix(s, "K(") {
		k := s[1:]
		t.payDec[s] = &k
		return
	}
	if k, ok := decodeText(t.card, s); ok {
		t.payDec[s] = &k
	} else {
		t.payDec[s] = nil
	}
}

func (t *tabs) pay(k string) {
	text, ok := encodeK(t.card, k)
	if !ok {
		t.payEnc[k] = nil
		return
	}
	w := wireForm(t.card, text)
	t.payEnc[k] = &w
	t.payText(w)
}

func (t *tabs) obj(o *Obj) {
	t.path(o.Path)
	t.etag(o.ETag)
	t.time(o.Sec)
	t.pay(o.Data)
}

func (t *tabs) outcome(o *Outcome) {
	if o.Kind == "found" {
		t.obj(o.Obj)
	} else {
		t.code(failCode(o))
	}
}

func (t *tabs) scan(tr *Tree) {
	if tr == nil {
		return
	}
	tr.walk(func(n *Tree) {
		switch {
		case n.Kind == 'e' && n.Local == "href":
			t.hrefText(n.chardata())
		case n.is(nsDAV, "getetag"):
			t.etagText(n.chardata())
		case n.is(nsDAV, "getlastmodified"):
			t.timeText(n.chardata())
		case n.is(nsOf(t.card), dataLocal(t.card)):
			t.payText(n.chardata())
		}
	})
}

func optS(p *string) string {
	if p == nil {
		return "n"
	}
	return hx.S(*p)
}

func sortedKeys(m map[string]*string) []string {
	ks := make([]string, 0, len(m))
	for k := range m {
		ks = append(ks, k)
	}
	sort.Strings(ks)
	return ks
}

func (t *tabs) Sx() string {
	ssTab := func(name string, m map[string]string) string {
		ks := make([]string, 0, len(m))
		for k := range m {
			ks = append(ks, k)
		}
		sort.Strings(ks)
		items := []string{name}
		for _, k := range ks {
			items = append(items, hx.L(hx.S(k), hx.S(m[k])))
		}
		return hx.L(items...)
	}
	soTab := func(name string, m map[string]*string) string {
		items := []string{name}
		for _, k := range sortedKeys(m) {
			items = append(items, hx.L(hx.S(k), optS(m[k])))
		}
		return hx.L(items...)
	}
	var secs []int64
	for k := range t.timeEnc {
		secs = append(secs, k)
	}
	sort.Slice(secs, func(i, j int) bool { return secs[i] < secs[j] })
	te := []string{"time_enc"}
	for _, k := range secs {
		te = append(te, hx.L(hx.I(k), hx.S(t.timeEnc[k])))
	}
	var tks []string
	for k := range t.timeDec {
		tks = append(tks, k)
	}
	sort.Strings(tks)
	td := []string{"time_dec"}
	for _, k := range tks {
		v := "n"
		if t.timeDec[k] != nil {
			v = hx.I(*t.timeDec[k])
		}
		td = append(td, hx.L(hx.S(k), v))
	}
	var codes []int64
	for k := range t.statusTx {
		codes = append(codes, k)
	}
	sort.Slice(codes, func(i, j int) bool { return codes[i] < codes[j] })
	st := []string{"status_text"}
	for _, k := range codes {
		st = append(st, hx.L(hx.I(k), hx.S(t.statusTx[k])))
	}
	head := "tab"
	if t.std {
		head = "htab"
	}
	// the part of strconv.IsPrint's table that C16's model of %q takes as a parameter: the
	// printable runes above U+00FF of the tags that were quoted
	seenHi := map[rune]bool{}
	var his []int64
	for e := range t.etagEnc {
		for i := 0; i < len(e); {
			r, w := utf8.DecodeRuneInString(e[i:])
			i += w
			if r > 0xFF && !(r == utf8.RuneError && w == 1) && strconv.IsPrint(r) && !seenHi[r] {
				seenHi[r] = true
				his = append(his, int64(r))
			}
		}
	}
	sort.Slice(his, func(i, j int) bool { return his[i] < his[j] })
	ph := []string{"print_hi"}
	for _, r := range his {
		ph = append(ph, hx.I(r))
	}
	return hx.L(head, hx.L(ph...), ssTab("href_enc", t.hrefEnc), soTab("href_dec", t.hrefDec), ssTab("etag_enc", t.etagEnc),
		soTab("etag_dec", t.etagDec), hx.L(te...), hx.L(td...), soTab("pay_enc", t.payEnc), soTab("pay_dec", t.payDec), hx.L(st...))
}

// ---------------------------------------------------------------- outcomes

func failCode(o *Outcome) int64 {
	switch o.Kind {
	case "http", "wrap":
		return o.Code
	case "pre":
		return 409
	}
	return 500
}

func outcomeSx(card bool, o *Outcome) string {
	if o.Kind == "found" {
		return hx.L("found", o.Obj.Sx())
	}
	err := buildErr(card, o)
	code := "n"
	if o.Kind != "plain" {
		code = hx.I(failCode(o))
	}
	pre := "n"
	if o.Kind == "pre" {
		pre = Xname{nsOf(card), o.Pre}.Sx()
	}
	// kind and its parameters (for replay), then what the model needs: the code errors.As
	// finds, err.Error(), the precondition element
	return hx.L("fail", o.Kind, hx.I(o.Code), hx.S(o.Pre), code, hx.S(err.Error()), pre)
}

func parseOutcome(x hx.Sx) *Outcome {
	if x.Head() == "found" {
		return &Outcome{Kind: "found", Obj: parseObj(x.List[1])}
	}
	return &Outcome{Kind: x.List[1].Atom, Code: x.List[2].Int(), Pre: x.List[3].Str()}
}

// ---------------------------------------------------------------- observations

func errSx(err error) string {
	var he *verifhook.HTTPError
	if errors.As(err, &he) {
		return hx.L("http", hx.I(int64(he.Code)))
	}
	return hx.L("other")
}

func viewSx(path, etag string, mt time.Time, n int64, data string) string {
	return hx.L("v", hx.S(path), hx.S(etag), hx.I(mt.Unix()), hx.I(n), hx.S(data))
}

func calObjsSx(l []caldav.CalendarObject, err error) string {
	if err != nil {
		return errSx(err)
	}
	items := []string{"ok"}
	for _, o := range l {
		items = append(items, viewSx(o.Path, o.ETag, o.ModTime, o.ContentLength, calK(o.Data)))
	}
	return hx.L(items...)
}

func cardObjsSx(l []carddav.AddressObject, err error) string {
	if err != nil {
		return errSx(err)
	}
	items := []string{"ok"}
	for _, o := range l {
		items = append(items, viewSx(o.Path, o.ETag, o.ModTime, o.ContentLength, cardK(o.Card)))
	}
	return hx.L(items...)
}

func strsSx(l []string) string {
	s := make([]string, len(l))
	for i, x := range l {
		s[i] = hx.S(x)
	}
	return hx.L(s...)
}

// canonData rewrites the text of calendar-data / address-data elements of a server body
// to its wire form (see payload.go).
func canonData(card bool, t *Tree) {
	t.walk(func(n *Tree) {
		if n.is(nsOf(card), dataLocal(card)) && textOnly(n) && n.chardata() != "" {
			n.Kids = []*Tree{T(wireForm(card, n.chardata()))}
		}
	})
}

// bodySx renders a server body: its tree and the table the harness's own RFC reader
// extracts from it.
func bodySx(card bool, body []byte, tb *tabs) string {
	tree, err := readTree(body)
	if err != nil {
		return hx.L("unreadable", hx.S(err.Error()))
	}
	canonData(card, tree)
	tb.scan(tree)
	rows, ok := readTable(tree)
	return tree.Sx() + " " + rowsSx(rows, ok)
}

func guard(f func() string) (s string) {
	defer func() {
		if r := recover(); r != nil {
			s = hx.L("panic", hx.S(fmt.Sprint(r)))
		}
	}()
	return f()
}

type clients struct {
	cal  *caldav.Client
	card *carddav.Client
	ic   *verifhook.Client
}

func newClients(hc interface {
	Do(*http.Request) (*http.Response, error)
}) clients {
	var c clients
	var err error
	if c.cal, err = caldav.NewClient(hc, "http://dav.example.org"); err != nil {
		panic(err)
	}
	if c.card, err = carddav.NewClient(hc, "http://dav.example.org"); err != nil {
		panic(err)
	}
	if c.ic, err = verifhook.NewClient(hc, "http://dav.example.org"); err != nil {
		panic(err)
	}
	return c
}

var ctx = context.Background()

const reportPath = "/u/cal/c/"

func objsSx(l []*Obj) string {
	s := make([]string, len(l))
	for i, o := range l {
		s[i] = o.Sx()
	}
	return hx.L(s...)
}

func parseObjs(x hx.Sx) []*Obj {
	var out []*Obj
	for _, o := range x.List {
		out = append(out, parseObj(o))
	}
	return out
}

// (query fl principal (objs))
func runQuery(card bool, principal string, objs []*Obj) string {
	tb := newTabs(card)
	tb.path(principal)
	for _, o := range objs {
		tb.obj(o)
	}
	w := &world{card: card, principal: principal, objs: objs}
	tr := &inproc{h: w.handler()}
	cl := newClients(tr)
	obs := guard(func() string {
		var res string
		if card {
			l, err := cl.card.QueryAddressBook(ctx, reportPath, &carddav.AddressBookQuery{})
			res = cardObjsSx(l, err)
		} else {
			l, err := cl.cal.QueryCalendar(ctx, reportPath, &caldav.CalendarQuery{CompFilter: caldav.CompFilter{Name: "VCALENDAR"}})
			res = calObjsSx(l, err)
		}
		return bodySx(card, tr.lastBody, tb) + " " + res
	})
	return hx.L("query", flSx(card), hx.S(principal), objsSx(objs), tb.Sx()) + " " + hx.L(obs)
}

type hrefOut struct {
	Href string
	Out  *Outcome
}

// (multiget fl principal (hrefs) ((href outcome)...))
func runMultiget(card bool, principal string, hrefs []string, outs []hrefOut) string {
	tb := newTabs(card)
	tb.path(principal)
	w := &world{card: card, principal: principal, byPath: map[string]*Outcome{}}
	var os []string
	for _, ho := range outs {
		w.byPath[ho.Href] = ho.Out
		tb.path(ho.Href)
		tb.outcome(ho.Out)
		os = append(os, hx.L(hx.S(ho.Href), outcomeSx(card, ho.Out)))
	}
	for _, h := range hrefs {
		tb.path(h)
		// the path the server reads from the request
		if d := tb.hrefDec[tb.hrefEnc[h]]; d != nil {
			tb.path(*d)
		}
	}
	tr := &inproc{h: w.handler()}
	cl := newClients(tr)
	obs := guard(func() string {
		var res string
		if card {
			l, err := cl.card.MultiGetAddressBook(ctx, reportPath, &carddav.AddressBookMultiGet{Paths: hrefs})
			res = cardObjsSx(l, err)
		} else {
			l, err := cl.cal.MultiGetCalendar(ctx, reportPath, &caldav.CalendarMultiGet{Paths: hrefs})
			res = calObjsSx(l, err)
		}
		return bodySx(card, tr.lastBody, tb) + " " + res + " " + strsSx(w.getCalls)
	})
	return hx.L("multiget", flSx(card), hx.S(principal), strsSx(hrefs), hx.L(os...), tb.Sx()) + " " + hx.L(obs)
}

func collsSx(l []*Coll) string {
	s := make([]string, len(l))
	for i, c := range l {
		s[i] = c.Sx()
	}
	return hx.L(s...)
}

func compsSx(l []string) string { return strsSx(l) }

// (find fl principal home (colls))
func runFind(card bool, principal, home string, colls []*Coll) string {
	tb := newTabs(card)
	tb.path(principal)
	tb.path(home)
	for _, c := range colls {
		tb.path(c.Path)
	}
	w := &world{card: card, principal: principal, home: home, colls: colls}
	tr := &inproc{h: w.handler()}
	cl := newClients(tr)
	obs := guard(func() string {
		var res string
		if card {
			l, err := cl.card.FindAddressBooks(ctx, home)
			if err != nil {
				res = errSx(err)
			} else {
				items := []string{"ok"}
				for _, c := range l {
					var ad []string
					for _, t := range c.SupportedAddressData {
						ad = append(ad, hx.L(hx.S(t.ContentType), hx.S(t.Version)))
					}
					items = append(items, hx.L("cv", hx.S(c.Path), hx.S(c.Name), hx.S(c.Description), hx.I(c.MaxResourceSize), hx.L(), hx.L(ad...)))
				}
				res = hx.L(items...)
			}
		} else {
			l, err := cl.cal.FindCalendars(ctx, home)
			if err != nil {
				res = errSx(err)
			} else {
				items := []string{"ok"}
				for _, c := range l {
					items = append(items, hx.L("cv", hx.S(c.Path), hx.S(c.Name), hx.S(c.Description), hx.I(c.MaxResourceSize), compsSx(c.SupportedComponentSet), hx.L()))
				}
				res = hx.L(items...)
			}
		}
		return bodySx(card, tr.lastBody, tb) + " " + res
	})
	return hx.L("find", flSx(card), hx.S(principal), hx.S(home), collsSx(colls), tb.Sx()) + " " + hx.L(obs)
}

// (propfind fl principal (req names) coll (objs)): PROPFIND Depth 1 on the collection
func runPropfind(card bool, principal string, req []Xname, coll *Coll, objs []*Obj) string {
	tb := newTabs(card)
	tb.path(principal)
	tb.path(coll.Path)
	for _, o := range objs {
		tb.obj(o)
	}
	w := &world{card: card, principal: principal, home: "/u/cal/", colls: []*Coll{coll}, objs: objs}
	tr := &inproc{h: w.handler()}
	cl := newClients(tr)
	rs := make([]string, len(req))
	names := make([]xml.Name, len(req))
	for i, n := range req {
		rs[i] = n.Sx()
		names[i] = xml.Name{Space: n.NS, Local: n.Local}
	}
	obs := guard(func() string {
		_, err := cl.ic.PropFind(ctx, coll.Path, verifhook.DepthOne, verifhook.NewPropNamePropFind(names...))
		if err != nil {
			return hx.L("failed", errSx(err))
		}
		return bodySx(card, tr.lastBody, tb)
	})
	return hx.L("propfind", flSx(card), hx.S(principal), hx.L(rs...), coll.Sx(), objsSx(objs), tb.Sx()) + " " + hx.L(obs)
}

// (get fl reqpath outcome)
func runGet(card bool, reqpath string, out *Outcome) string {
	tb := newTabs(card)
	tb.path(reqpath)
	tb.outcome(out)
	hb := newTabs(card)
	hb.std = true
	hb.outcome(out)
	w := &world{card: card, principal: "/u/", byPath: map[string]*Outcome{reqpath: out}}
	tr := &inproc{h: w.handler()}
	cl := newClients(tr)
	obs := guard(func() string {
		if card {
			o, err := cl.card.GetAddressObject(ctx, reqpath)
			if err != nil {
				return errSx(err)
			}
			return hx.L("ok", viewSx(o.Path, o.ETag, o.ModTime, o.ContentLength, cardK(o.Card)))
		}
		o, err := cl.cal.GetCalendarObject(ctx, reqpath)
		if err != nil {
			return errSx(err)
		}
		return hx.L("ok", viewSx(o.Path, o.ETag, o.ModTime, o.ContentLength, calK(o.Data)))
	})
	return hx.L("get", flSx(card), hx.S(reqpath), outcomeSx(card, out), tb.Sx(), hb.Sx()) + " " + hx.L(obs)
}

// (put fl reqpath data outcome)
func runPut(card bool, reqpath, data string, ret *Outcome) string {
	tb := newTabs(card)
	tb.path(reqpath)
	tb.pay(data)
	tb.outcome(ret)
	hb := newTabs(card)
	hb.std = true
	hb.outcome(ret)
	w := &world{card: card, principal: "/u/", putRet: ret}
	tr := &inproc{h: w.handler()}
	cl := newClients(tr)
	obs := guard(func() string {
		var res string
		if card {
			o, err := cl.card.PutAddressObject(ctx, reqpath, cardFromK(data))
			if err != nil {
				res = errSx(err)
			} else {
				res = hx.L("ok", viewSx(o.Path, o.ETag, o.ModTime, o.ContentLength, ""))
			}
		} else {
			o, err := cl.cal.PutCalendarObject(ctx, reqpath, calFromK(data))
			if err != nil {
				res = errSx(err)
			} else {
				res = hx.L("ok", viewSx(o.Path, o.ETag, o.ModTime, o.ContentLength, ""))
			}
		}
		recv := "n"
		if w.putCalled {
			recv = hx.L(hx.S(w.putPath), hx.S(w.putData))
		}
		return res + " " + recv
	})
	return hx.L("put", flSx(card), hx.S(reqpath), hx.S(data), outcomeSx(card, ret), tb.Sx(), hb.Sx()) + " " + hx.L(obs)
}

type putStep struct {
	Data string
	Ret  *Outcome
}

// (putseq fl reqpath pre ((data outcome)...)): a short HISTORY of PUTs at one request path
// against a backend double with state: what a Put stored is retrievable afterwards (at the
// request path and at the path the backend answered); pre: an object is retrievable at
// the request path before the first PUT.  Per step: the client's result and what the
// backend received.
func runPutSeq(card bool, reqpath string, pre bool, steps []putStep) string {
	tb := newTabs(card)
	tb.path(reqpath)
	hb := newTabs(card)
	hb.std = true
	var in []string
	for _, st := range steps {
		tb.pay(st.Data)
		tb.outcome(st.Ret)
		hb.outcome(st.Ret)
		in = append(in, hx.L(hx.S(st.Data), outcomeSx(card, st.Ret)))
	}
	w := &world{card: card, principal: "/u/", stateful: true}
	if pre && len(steps) > 0 {
		w.stored = map[string]*Obj{reqpath: {Path: reqpath, ETag: "pre", Sec: 1600000000, Data: steps[0].Data}}
	}
	tr := &inproc{h: w.handler()}
	cl := newClients(tr)
	var obs []string
	for _, st := range steps {
		st := st
		w.putRet, w.putCalled, w.putPath, w.putData = st.Ret, false, "", ""
		obs = append(obs, guard(func() string {
			var res string
			if card {
				o, err := cl.card.PutAddressObject(ctx, reqpath, cardFromK(st.Data))
				if err != nil {
					res = errSx(err)
				} else {
					res = hx.L("ok", viewSx(o.Path, o.ETag, o.ModTime, o.ContentLength, ""))
				}
			} else {
				o, err := cl.cal.PutCalendarObject(ctx, reqpath, calFromK(st.Data))
				if err != nil {
					res = errSx(err)
				} else {
					res = hx.L("ok", viewSx(o.Path, o.ETag, o.ModTime, o.ContentLength, ""))
				}
			}
			recv := "n"
			if w.putCalled {
				recv = hx.L(hx.S(w.putPath), hx.S(w.putData))
			}
			return hx.L(res, recv)
		}))
	}
	preSx := "0"
	if pre {
		preSx = "1"
	}
	return hx.L("putseq", flSx(card), hx.S(reqpath), preSx, hx.L(in...), tb.Sx(), hb.Sx()) + " " + hx.L(obs...)
}

// ---------------------------------------------------------------- documents fed to the clients

func seedOf(s string) uint64 {
	h := fnv.New64a()
	h.Write([]byte(s))
	return h.Sum64()
}

// feed serializes the tree with the harness's own writer, reads it back (the tree the
// client is given) and runs one client call on it.
func feed(card bool, call, reqpath string, tree *Tree, rng *hx.Rand, tb *tabs) string {
	data := serialize(tree, rng)
	seen, err := readTree(data)
	if err != nil {
		return hx.L("unwritable", hx.S(err.Error()))
	}
	tb.scan(seen)
	cl := newClients(scripted{data})
	res := guard(func() string {
		switch call {
		case "objects":
			if card {
				if rng.Bool() {
					l, err := cl.card.QueryAddressBook(ctx, reqpath, &carddav.AddressBookQuery{})
					return cardObjsSx(l, err)
				}
				l, err := cl.card.MultiGetAddressBook(ctx, reqpath, &carddav.AddressBookMultiGet{})
				return cardObjsSx(l, err)
			}
			if rng.Bool() {
				l, err := cl.cal.QueryCalendar(ctx, reqpath, &caldav.CalendarQuery{})
				return calObjsSx(l, err)
			}
			l, err := cl.cal.MultiGetCalendar(ctx, reqpath, &caldav.CalendarMultiGet{})
			return calObjsSx(l, err)
		case "find":
			if card {
				l, err := cl.card.FindAddressBooks(ctx, reqpath)
				if err != nil {
					return errSx(err)
				}
				items := []string{"ok"}
				for _, c := range l {
					var ad []string
					for _, t := range c.SupportedAddressData {
						ad = append(ad, hx.L(hx.S(t.ContentType), hx.S(t.Version)))
					}
					items = append(items, hx.L("cv", hx.S(c.Path), hx.S(c.Name), hx.S(c.Description), hx.I(c.MaxResourceSize), hx.L(), hx.L(ad...)))
				}
				return hx.L(items...)
			}
			l, err := cl.cal.FindCalendars(ctx, reqpath)
			if err != nil {
				return errSx(err)
			}
			items := []string{"ok"}
			for _, c := range l {
				items = append(items, hx.L("cv", hx.S(c.Path), hx.S(c.Name), hx.S(c.Description), hx.I(c.MaxResourceSize), compsSx(c.SupportedComponentSet), hx.L()))
			}
			return hx.L(items...)
		case "sync":
			r, err := cl.card.SyncCollection(ctx, reqpath, &carddav.SyncQuery{SyncToken: "t0"})
			if err != nil {
				return errSx(err)
			}
			var up []string
			for _, o := range r.Updated {
				up = append(up, hx.L(hx.S(o.Path), hx.S(o.ETag), hx.I(o.ModTime.Unix())))
			}
			return hx.L("ok", hx.S(r.SyncToken), hx.L(up...), strsSx(r.Deleted))
		}
		panic("harness: bad call " + call)
	})
	return seen.Sx() + " " + res
}

// (vdoc fl call reqpath doc1 doc2): two layouts of one content
func runVdoc(card bool, call, reqpath string, d1, d2 *WDoc) string {
	tb := newTabs(card)
	tb.path(reqpath)
	in := hx.L("vdoc", flSx(card), call, hx.S(reqpath), d1.Sx(), d2.Sx())
	rng := hx.NewRand(seedOf(in))
	for _, d := range []*WDoc{d1, d2} {
		for _, r := range d.Resps {
			for _, h := range r.Hrefs {
				tb.hrefText(h)
			}
		}
	}
	o1 := feed(card, call, reqpath, docTree(d1), rng, tb)
	o2 := feed(card, call, reqpath, docTree(d2), rng, tb)
	return in[:len(in)-1] + " " + tb.Sx() + ") " + hx.L(o1, o2)
}

// (doc fl call reqpath tree): any tree, also malformed ones
func runDoc(card bool, call, reqpath string, tree *Tree) string {
	tb := newTabs(card)
	tb.path(reqpath)
	in := hx.L("doc", flSx(card), call, hx.S(reqpath), tree.Sx())
	rng := hx.NewRand(seedOf(in))
	o := feed(card, call, reqpath, tree, rng, tb)
	return in[:len(in)-1] + " " + tb.Sx() + ") " + hx.L(o)
}

// ---------------------------------------------------------------- replay

func parseStrs(x hx.Sx) []string {
	var out []string
	for _, s := range x.List {
		out = append(out, s.Str())
	}
	return out
}

// execInput re-executes the input part of a case line.
func execInput(x hx.Sx) string {
	a := x.Args()
	card := a[0].Atom == "card"
	switch x.Head() {
	case "query":
		return runQuery(card, a[1].Str(), parseObjs(a[2]))
	case "multiget":
		var outs []hrefOut
		for _, ho := range a[3].List {
			outs = append(outs, hrefOut{ho.List[0].Str(), parseOutcome(ho.List[1])})
		}
		return runMultiget(card, a[1].Str(), parseStrs(a[2]), outs)
	case "find":
		var cs []*Coll
		for _, c := range a[3].List {
			cs = append(cs, parseColl(c))
		}
		return runFind(card, a[1].Str(), a[2].Str(), cs)
	case "propfind":
		var req []Xname
		for _, n := range a[2].List {
			req = append(req, parseXname(n))
		}
		return runPropfind(card, a[1].Str(), req, parseColl(a[3]), parseObjs(a[4]))
	case "get":
		return runGet(card, a[1].Str(), parseOutcome(a[2]))
	case "put":
		return runPut(card, a[1].Str(), a[2].Str(), parseOutcome(a[3]))
	case "putseq":
		var steps []putStep
		for _, sx := range a[3].List {
			steps = append(steps, putStep{sx.List[0].Str(), parseOutcome(sx.List[1])})
		}
		return runPutSeq(card, a[1].Str(), a[2].Atom == "1", steps)
	case "vdoc":
		return runVdoc(card, a[1].Atom, a[2].Str(), parseWDoc(a[3]), parseWDoc(a[4]))
	case "doc":
		return runDoc(card, a[1].Atom, a[2].Str(), parseTree(a[3]))
	}
	panic("harness: unknown case kind " + x.Head())
}
