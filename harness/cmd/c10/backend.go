package main

// In-memory backend doubles, the in-process transport between the real clients and
// the real handlers, and the scripted HTTP client for harness-written documents.

import (
		"context"
	"errors"
	"fmt"
	"net/http"
	"sync"
	"time"
	_ "time/tzdata"

	"github.com/emersion/go-ical"
	"github.com/emersion/go-vcard"
	"github.com/emersion/go-webdav"
	"github.com/emersion/go-webdav/caldav"
	"github.com/emersion/go-webdav/carddav"
)

var errPanic = errors.New("panic")

// zones a backend may hold its instants in: fixed offsets and named zones with daylight
// saving changes (time/tzdata is linked in, so they exist whatever the machine has)
var zoneNames = []string{"Europe/Berlin", "America/New_York", "Australia/Lord_Howe", "Asia/Kathmandu", "Pacific/Apia"}
var namedZones = func() []*time.Location {
	var out []*time.Location
	for _, n := range zoneNames {
		if l, err := time.LoadLocation(n); err == nil {
			out = append(out, l)
		}
	}
	return out
}()

func mkTime(sec, nsec int64) time.Time {
	if sec == zeroSec && nsec == 0 {
		return time.Time{}
	}
	k := int(((sec % 11) + 11) % 11)
	if k < len(namedZones) {
		return time.Unix(sec, nsec).In(namedZones[k])
	}
	if k == 10 {
		return time.Unix(sec, nsec).UTC()
	}
	return time.Unix(sec, nsec).In(time.FixedZone("x", 1800*(k-7)))
}

// buildErr makes the error value an Outcome describes.
func buildErr(card bool, o *Outcome) error {
	switch o.Kind {
	case "http":
		return webdav.NewHTTPError(int(o.Code), fmt.Errorf("backend says no to %d", o.Code))
	case "plain":
		return fmt.Errorf("backend failure")
	case "wrap":
		return fmt.Errorf("while looking: %w", webdav.NewHTTPError(int(o.Code), errors.New("inner")))
	case "pre":
		if card {
			return carddav.NewPreconditionError(carddav.PreconditionType(o.Pre))
		}
		return caldav.NewPreconditionError(caldav.PreconditionType(o.Pre))
	}
	panic("harness: bad outcome kind " + o.Kind)
}

// world is what a backend double holds and records.
type world struct {
	card      bool
	principal string
	home      string
	colls     []*Coll
	objs      []*Obj              // answer of List/Query
	byPath    map[string]*Outcome // answer of Get
	putRet    *Outcome
	getCalls  []string
	putPath   string
	putData   string
	putCalled bool
	// a backend with STATE (putseq cases): what a successful Put stored is retrievable
	// afterwards at the request path and at the path the backend answered
	stateful bool
	stored   map[string]*Obj
	// what the double handed to the server and received from it, kept to see whether it is
	// modified later (arguments unchanged / aliasing of results)
	mu      sync.Mutex
	issued  []issuedVal
	putCal  *ical.Calendar
	putCard vcard.Card
}

type issuedVal struct {
	cal  *ical.Calendar
	card vcard.Card
	k    string
}

func (w *world) issue(cal *ical.Calendar, card vcard.Card, k string) {
	w.mu.Lock()
	w.issued = append(w.issued, issuedVal{cal, card, k})
	w.mu.Unlock()
}

// issuedChanged: a value the backend returned to the server no longer is what it was.
func (w *world) issuedChanged() bool {
	w.mu.Lock()
	defer w.mu.Unlock()
	for _, v := range w.issued {
		if v.cal != nil && calK(v.cal) != v.k {
			return true
		}
		if v.card != nil && cardK(v.card) != v.k {
			return true
		}
	}
	return false
}

// configure makes the double answer as nw says, keeping its identity (the handler of a
// history holds a pointer to it) and what it remembers.
func (w *world) configure(nw *world) {
	w.mu.Lock()
	defer w.mu.Unlock()
	w.card, w.principal, w.home, w.colls, w.objs, w.byPath, w.putRet = nw.card, nw.principal, nw.home, nw.colls, nw.objs, nw.byPath, nw.putRet
	w.getCalls, w.putPath, w.putData, w.putCalled = nil, "", "", false
	if nw.stateful {
		w.stateful = true
	}
	for k, v := range nw.stored {
		if w.stored == nil {
			w.stored = map[string]*Obj{}
		}
		w.stored[k] = v
	}
}

// remember is called by the Put methods of a stateful double.
func (w *world) remember(reqPath, data string) {
	if !w.stateful || w.putRet.Kind != "found" {
		return
	}
	o := *w.putRet.Obj
	o.Data = data
	if w.stored == nil {
		w.stored = map[string]*Obj{}
	}
	w.stored[reqPath] = &o
	if o.Path != "" {
		w.stored[o.Path] = &o
	}
}

func (w *world) get(p string) (*Obj, error) {
	w.mu.Lock()
	w.getCalls = append(w.getCalls, p)
	w.mu.Unlock()
	if so, ok := w.stored[p]; ok {
		return so, nil
	}
	o, ok := w.byPath[p]
	if !ok {
		return nil, webdav.NewHTTPError(404, fmt.Errorf("not in the double"))
	}
	if o.Kind == "found" {
		return o.Obj, nil
	}
	return nil, buildErr(w.card, o)
}

func calObj(o *Obj) caldav.CalendarObject {
	return caldav.CalendarObject{Path: o.Path, ETag: o.ETag, ModTime: mkTime(o.Sec, o.Nsec), ContentLength: o.Len, Data: calFromK(o.Data)}
}

func cardObj(o *Obj) carddav.AddressObject {
	return carddav.AddressObject{Path: o.Path, ETag: o.ETag, ModTime: mkTime(o.Sec, o.Nsec), ContentLength: o.Len, Card: cardFromK(o.Data)}
}

type calBackend struct{ w *world }

func (b calBackend) CurrentUserPrincipal(ctx context.Context) (string, error) { return b.w.principal, nil }
func (b calBackend) CalendarHomeSetPath(ctx context.Context) (string, error)  { return b.w.home, nil }
func (b calBackend) CreateCalendar(ctx context.Context, c *caldav.Calendar) error {
	return webdav.NewHTTPError(501, nil)
}
func calColl(c *Coll) caldav.Calendar {
	cc := caldav.Calendar{Path: c.Path, Name: c.Name, Description: c.Desc, MaxResourceSize: c.Max}
	if !c.CompsNil {
		cc.SupportedComponentSet = append([]string{}, c.Comps...)
	}
	return cc
}
func (b calBackend) ListCalendars(ctx context.Context) ([]caldav.Calendar, error) {
	var out []caldav.Calendar
	for _, c := range b.w.colls {
		out = append(out, calColl(c))
	}
	return out, nil
}
func (b calBackend) GetCalendar(ctx context.Context, p string) (*caldav.Calendar, error) {
	for _, c := range b.w.colls {
		if c.Path == p {
			cc := calColl(c)
			return &cc, nil
		}
	}
	return nil, webdav.NewHTTPError(404, nil)
}
func (b calBackend) GetCalendarObject(ctx context.Context, p string, req *caldav.CalendarCompRequest) (*caldav.CalendarObject, error) {
	o, err := b.w.get(p)
	if err != nil {
		return nil, err
	}
	co := calObj(o)
	b.w.issue(co.Data, nil, o.Data)
	return &co, nil
}
func (b calBackend) list() []caldav.CalendarObject {
	var out []caldav.CalendarObject
	for _, o := range b.w.objs {
		co := calObj(o)
		b.w.issue(co.Data, nil, o.Data)
		out = append(out, co)
	}
	return out
}
func (b calBackend) ListCalendarObjects(ctx context.Context, p string, req *caldav.CalendarCompRequest) ([]caldav.CalendarObject, error) {
	return b.list(), nil
}
func (b calBackend) QueryCalendarObjects(ctx context.Context, p string, q *caldav.CalendarQuery) ([]caldav.CalendarObject, error) {
	return b.list(), nil
}
func (b calBackend) PutCalendarObject(ctx context.Context, p string, c *ical.Calendar, opts *caldav.PutCalendarObjectOptions) (*caldav.CalendarObject, error) {
	b.w.putCalled, b.w.putPath, b.w.putData, b.w.putCal = true, p, calK(c), c
	b.w.remember(p, b.w.putData)
	if b.w.putRet.Kind != "found" {
		return nil, buildErr(false, b.w.putRet)
	}
	o := b.w.putRet.Obj
	return &caldav.CalendarObject{Path: o.Path, ETag: o.ETag, ModTime: mkTime(o.Sec, o.Nsec), ContentLength: o.Len}, nil
}
func (b calBackend) DeleteCalendarObject(ctx context.Context, p string) error {
	return webdav.NewHTTPError(501, nil)
}

type cardBackend struct{ w *world }

func (b cardBackend) CurrentUserPrincipal(ctx context.Context) (string, error)    { return b.w.principal, nil }
func (b cardBackend) AddressBookHomeSetPath(ctx context.Context) (string, error) { return b.w.home, nil }
func cardColl(c *Coll) carddav.AddressBook {
	return carddav.AddressBook{Path: c.Path, Name: c.Name, Description: c.Desc, MaxResourceSize: c.Max}
}
func (b cardBackend) ListAddressBooks(ctx context.Context) ([]carddav.AddressBook, error) {
	var out []carddav.AddressBook
	for _, c := range b.w.colls {
		out = append(out, cardColl(c))
	}
	return out, nil
}
func (b cardBackend) GetAddressBook(ctx context.Context, p string) (*carddav.AddressBook, error) {
	for _, c := range b.w.colls {
		if c.Path == p {
			cc := cardColl(c)
			return &cc, nil
		}
	}
	return nil, webdav.NewHTTPError(404, nil)
}
func (b cardBackend) CreateAddressBook(ctx context.Context, ab *carddav.AddressBook) error {
	return webdav.NewHTTPError(501, nil)
}
func (b cardBackend) DeleteAddressBook(ctx context.Context, p string) error {
	return webdav.NewHTTPError(501, nil)
}
func (b cardBackend) GetAddressObject(ctx context.Context, p string, req *carddav.AddressDataRequest) (*carddav.AddressObject, error) {
	o, err := b.w.get(p)
	if err != nil {
		return nil, err
	}
	ao := cardObj(o)
	b.w.issue(nil, ao.Card, o.Data)
	return &ao, nil
}
func (b cardBackend) list() []carddav.AddressObject {
	var out []carddav.AddressObject
	for _, o := range b.w.objs {
		ao := cardObj(o)
		b.w.issue(nil, ao.Card, o.Data)
		out = append(out, ao)
	}
	return out
}
func (b cardBackend) ListAddressObjects(ctx context.Context, p string, req *carddav.AddressDataRequest) ([]carddav.AddressObject, error) {
	return b.list(), nil
}
func (b cardBackend) QueryAddressObjects(ctx context.Context, p string, q *carddav.AddressBookQuery) ([]carddav.AddressObject, error) {
	return b.list(), nil
}
func (b cardBackend) PutAddressObject(ctx context.Context, p string, c vcard.Card, opts *carddav.PutAddressObjectOptions) (*carddav.AddressObject, error) {
	b.w.putCalled, b.w.putPath, b.w.putData, b.w.putCard = true, p, cardK(c), c
	b.w.remember(p, b.w.putData)
	if b.w.putRet.Kind != "found" {
		return nil, buildErr(true, b.w.putRet)
	}
	o := b.w.putRet.Obj
	return &carddav.AddressObject{Path: o.Path, ETag: o.ETag, ModTime: mkTime(o.Sec, o.Nsec), ContentLength: o.Len}, nil
}
func (b cardBackend) DeleteAddressObject(ctx context.Context, p string) error {
	return webdav.NewHTTPError(501, nil)
}

func (w *world) handler() http.Handler {
	if w.card {
		return &carddav.Handler{Backend: cardBackend{w}}
	}
	return &caldav.Handler{Backend: calBackend{w}}
}

