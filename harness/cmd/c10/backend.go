package main

// In-memory backend doubles, the in-process transport between the real clients and
// the real handlers, and the scripted HTTP client for harness-written documents.

import (
	"bytes"
	"context"
	"errors"
	"fmt"
	"io"
	"net/http"
	"net/http/httptest"
	"time"

	"github.com/emersion/go-ical"
	"github.com/emersion/go-vcard"
	"github.com/emersion/go-webdav"
	"github.com/emersion/go-webdav/caldav"
	"github.com/emersion/go-webdav/carddav"
)

var errPanic = errors.New("panic")

func mkTime(sec, nsec int64) time.Time {
	if sec == zeroSec && nsec == 0 {
		return time.Time{}
	}
	return time.Unix(sec, nsec).In(time.FixedZone("x", 3600*int(sec%5-2)))
}

// buildErr makes the error value an Outcome describes.
func buildErr(card bool, o *Outcome) error {
	switch o.Kind {
	case "http":
		return webdav.NewHTTPError(int(o.Code), fmt.Errorf("backend says no to %d", o.Code))
	case "plain":
		return fmt.Errorf("backend failure")
	case "wrap":
		return fmt.Errorf("while looking: %w", webdav.NewHTTPError(int(o.Code), errors.New("inner")))
	case "pre":
		if card {
			return carddav.NewPreconditionError(carddav.PreconditionType(o.Pre))
		}
		return caldav.NewPreconditionError(caldav.PreconditionType(o.Pre))
	}
	panic("harness: bad outcome kind " + o.Kind)
}

// world is what a backend double holds and records.
type world struct {
	card      bool
	principal string
	home      string
	colls     []*Coll
	objs      []*Obj              // answer of List/Query
	byPath    map[string]*Outcome // answer of Get
	putRet    *Outcome
	getCalls  []string
	putPath   string
	putData   string
	putCalled bool
	// a backend with STATE (putseq cases): what a successful Put stored is retrievable
	// afterwards at the request path and at the path the backend answered
	stateful bool
	stored   map[string]*Obj
}

// remember is called by the Put methods of a stateful double.
func (w *world) remember(reqPath, data string) {
	if !w.stateful || w.putRet.Kind != "found" {
		return
	}
	o := *w.putRet.Obj
	o.Data = data
	if w.stored == nil {
		w.stored = map[string]*Obj{}
	}
	w.stored[reqPath] = &o
	if o.Path != "" {
		w.stored[o.Path] = &o
	}
}

func (w *world) get(p string) (*Obj, error) {
	w.getCalls = append(w.getCalls, p)
	if so, ok := w.stored[p]; ok {
		return so, nil
	}
	o, ok := w.byPath[p]
	if !ok {
		return nil, webdav.NewHTTPError(404, fmt.Errorf("not in the double"))
	}
	if o.Kind == "found" {
		return o.Obj, nil
	}
	return nil, buildErr(w.card, o)
}

func calObj(o *Obj) caldav.CalendarObject {
	return caldav.CalendarObject{Path: o.Path, ETag: o.ETag, ModTime: mkTime(o.Sec, o.Nsec), ContentLength: o.Len, Data: calFromK(o.Data)}
}

func cardObj(o *Obj) carddav.AddressObject {
	return carddav.AddressObject{Path: o.Path, ETag: o.ETag, ModTime: mkTime(o.Sec, o.Nsec), ContentLength: o.Len, Card: cardFromK(o.Data)}
}

type calBackend struct{ w *world }

func (b calBackend) CurrentUserPrincipal(ctx context.Context) (string, error) { return b.w.principal, nil }
func (b calBackend) CalendarHomeSetPath(ctx context.Context) (string, error)  { return b.w.home, nil }
func (b calBackend) CreateCalendar(ctx context.Context, c *caldav.Calendar) error {
	return webdav.NewHTTPError(501, nil)
}
func calColl(c *Coll) caldav.Calendar {
	cc := caldav.Calendar{Path: c.Path, Name: c.Name, Description: c.Desc, MaxResourceSize: c.Max}
	if !c.CompsNil {
		cc.SupportedComponentSet = append([]string{}, c.Comps...)
	}
	return cc
}
func (b calBackend) ListCalendars(ctx context.Context) ([]caldav.Calendar, error) {
	var out []caldav.Calendar
	for _, c := range b.w.colls {
		out = append(out, calColl(c))
	}
	return out, nil
}
func (b calBackend) GetCalendar(ctx context.Context, p string) (*caldav.Calendar, error) {
	for _, c := range b.w.colls {
		if c.Path == p {
			cc := calColl(c)
			return &cc, nil
		}
	}
	return nil, webdav.NewHTTPError(404, nil)
}
func (b calBackend) GetCalendarObject(ctx context.Context, p string, req *caldav.CalendarCompRequest) (*caldav.CalendarObject, error) {
	o, err := b.w.get(p)
	if err != nil {
		return nil, err
	}
	co := calObj(o)
	return &co, nil
}
func (b calBackend) list() []caldav.CalendarObject {
	var out []caldav.CalendarObject
	for _, o := range b.w.objs {
		out = append(out, calObj(o))
	}
	return out
}
func (b calBackend) ListCalendarObjects(ctx context.Context, p string, req *caldav.CalendarCompRequest) ([]caldav.CalendarObject, error) {
	return b.list(), nil
}
func (b calBackend) QueryCalendarObjects(ctx context.Context, p string, q *caldav.CalendarQuery) ([]caldav.CalendarObject, error) {
	return b.list(), nil
}
func (b calBackend) PutCalendarObject(ctx context.Context, p string, c *ical.Calendar, opts *caldav.PutCalendarObjectOptions) (*caldav.CalendarObject, error) {
	b.w.putCalled, b.w.putPath, b.w.putData = true, p, calK(c)
	b.w.remember(p, b.w.putData)
	if b.w.putRet.Kind != "found" {
		return nil, buildErr(false, b.w.putRet)
	}
	o := b.w.putRet.Obj
	return &caldav.CalendarObject{Path: o.Path, ETag: o.ETag, ModTime: mkTime(o.Sec, o.Nsec), ContentLength: o.Len}, nil
}
func (b calBackend) DeleteCalendarObject(ctx context.Context, p string) error {
	return webdav.NewHTTPError(501, nil)
}

type cardBackend struct{ w *world }

func (b cardBackend) CurrentUserPrincipal(ctx context.Context) (string, error)    { return b.w.principal, nil }
func (b cardBackend) AddressBookHomeSetPath(ctx context.Context) (string, error) { return b.w.home, nil }
func cardColl(c *Coll) carddav.AddressBook {
	return carddav.AddressBook{Path: c.Path, Name: c.Name, Description: c.Desc, MaxResourceSize: c.Max}
}
func (b cardBackend) ListAddressBooks(ctx context.Context) ([]carddav.AddressBook, error) {
	var out []carddav.AddressBook
	for _, c := range b.w.colls {
		out = append(out, cardColl(c))
	}
	return out, nil
}
func (b cardBackend) GetAddressBook(ctx context.Context, p string) (*carddav.AddressBook, error) {
	for _, c := range b.w.colls {
		if c.Path == p {
			cc := cardColl(c)
			return &cc, nil
		}
	}
	return nil, webdav.NewHTTPError(404, nil)
}
func (b cardBackend) CreateAddressBook(ctx context.Context, ab *carddav.AddressBook) error {
	return webdav.NewHTTPError(501, nil)
}
func (b cardBackend) DeleteAddressBook(ctx context.Context, p string) error {
	return webdav.NewHTTPError(501, nil)
}
func (b cardBackend) GetAddressObject(ctx context.Context, p string, req *carddav.AddressDataRequest) (*carddav.AddressObject, error) {
	o, err := b.w.get(p)
	if err != nil {
		return nil, err
	}
	ao := cardObj(o)
	return &ao, nil
}
func (b cardBackend) list() []carddav.AddressObject {
	var out []carddav.AddressObject
	for _, o := range b.w.objs {
		out = append(out, cardObj(o))
	}
	return out
}
func (b cardBackend) ListAddressObjects(ctx context.Context, p string, req *carddav.AddressDataRequest) ([]carddav.AddressObject, error) {
	return b.list(), nil
}
func (b cardBackend) QueryAddressObjects(ctx context.Context, p string, q *carddav.AddressBookQuery) ([]carddav.AddressObject, error) {
	return b.list(), nil
}
func (b cardBackend) PutAddressObject(ctx context.Context, p string, c vcard.Card, opts *carddav.PutAddressObjectOptions) (*carddav.AddressObject, error) {
	b.w.putCalled, b.w.putPath, b.w.putData = true, p, cardK(c)
	b.w.remember(p, b.w.putData)
	if b.w.putRet.Kind != "found" {
		return nil, buildErr(true, b.w.putRet)
	}
	o := b.w.putRet.Obj
	return &carddav.AddressObject{Path: o.Path, ETag: o.ETag, ModTime: mkTime(o.Sec, o.Nsec), ContentLength: o.Len}, nil
}
func (b cardBackend) DeleteAddressObject(ctx context.Context, p string) error {
	return webdav.NewHTTPError(501, nil)
}

func (w *world) handler() http.Handler {
	if w.card {
		return &carddav.Handler{Backend: cardBackend{w}}
	}
	return &caldav.Handler{Backend: calBackend{w}}
}

// inproc hands each client request to the handler as a server would receive it
// (request target re-parsed from its wire form) and keeps the last response body.
type inproc struct {
	h        http.Handler
	lastBody []byte
	lastCode int
}

func (t *inproc) Do(req *http.Request) (*http.Response, error) {
	var body io.Reader = http.NoBody
	if req.Body != nil {
		data, err := io.ReadAll(req.Body)
		if err != nil {
			return nil, err
		}
		body = bytes.NewReader(data)
	}
	sreq := httptest.NewRequest(req.Method, req.URL.String(), body)
	for k, v := range req.Header {
		sreq.Header[k] = v
	}
	rec := httptest.NewRecorder()
	t.h.ServeHTTP(rec, sreq.WithContext(req.Context()))
	resp := rec.Result()
	resp.Request = req
	data, _ := io.ReadAll(resp.Body)
	t.lastBody, t.lastCode = data, resp.StatusCode
	resp.Body = io.NopCloser(bytes.NewReader(data))
	return resp, nil
}

// scripted answers every request with one prepared 207 body.
type scripted struct{ body []byte }

func (s scripted) Do(req *http.Request) (*http.Response, error) {
	return &http.Response{
		Status: "207 Multi-Status", StatusCode: 207, Proto: "HTTP/1.1", ProtoMajor: 1, ProtoMinor: 1,
		Header:  http.Header{"Content-Type": []string{`application/xml; charset="utf-8"`}},
		Body:    io.NopCloser(bytes.NewReader(s.body)),
		Request: req,
	}, nil
}
