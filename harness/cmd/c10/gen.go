package main

// Generators: every random choice comes from one hx.Rand.

import (
	"net/http"
	"strconv"
	"time"

	"verifharness/hx"
)

// Strings with every escaping-relevant character (XML, URL, quoting), all of them
// valid UTF-8 made of XML characters so that encoding/xml can carry them.
var atoms = []string{
	"a", "Work", "a b", " lead", "trail ", "x%20y", "100%", "#frag", "a?b=c", "\"q\"", "'s'", "<&>", "]]>",
	"é", "日本", "😀", "\ttab", "l1\nl2", "cr\r\nlf", "&amp;", "a;b", "a+b", "\\back", "{}", "a b", "~", "=", "@",
}

func genString(rng *hx.Rand) string {
	switch rng.Intn(6) {
	case 0:
		return ""
	case 1:
		return rng.Pick(atoms)
	}
	s := ""
	for n := 1 + rng.Intn(4); n > 0; n-- {
		s += rng.Pick(atoms)
	}
	return s
}

var segAtoms = []string{
	"a", "b.ics", "a b", "a%20b", "x#y", "q?z", "é", "<&>\"", "a%zz", "a;b", "a+b", ":a", "a:b", "a\\b", "日本", "%", "~u", "a=b&c",
	"a'b", "[x]", "{y}", "a|b", "^", "`",
}

func genSeg(rng *hx.Rand) string {
	s := rng.Pick(segAtoms)
	if rng.Chance(1, 3) {
		s += rng.Pick(segAtoms)
	}
	return s
}

// genObjPath: mostly /u/cal/<coll>/<name>; rarely a form the href codec cannot carry
// (leading "//", relative with a colon), which the oracle reports as outside the
// premises.
func genObjPath(rng *hx.Rand, coll string) string {
	switch rng.Intn(40) {
	case 0:
		return "//host/" + genSeg(rng)
	case 1:
		return "rel:" + genSeg(rng) + "/x"
	case 2:
		return "rel/" + genSeg(rng)
	}
	return coll + genSeg(rng) + rng.Pick([]string{"", ".ics", ".vcf"})
}

var etags = []string{"", "abc", "W/\"weak\"", "a\"b", "a\\b", "é", "\x01\x7f", "a b", "'", "`", "0", "1234567890-abcdef", "日本", "\xff\xfe"}

func genETag(rng *hx.Rand) string {
	if rng.Chance(1, 4) {
		return rng.Pick(etags) + rng.Pick(etags)
	}
	return rng.Pick(etags)
}

var secs = []int64{zeroSec, 0, 1, -1, 1700000000, 951782400, 253402300799, 1e9, 4102444800, -2208988800, zeroSec + 1}

func genTime(rng *hx.Rand) (int64, int64) {
	sec := pick64(rng, secs)
	if rng.Chance(1, 3) {
		sec = int64(rng.Intn(2000000000))
	}
	if rng.Chance(1, 50) {
		sec = 253402300800 + int64(rng.Intn(1000)) // year 10000: not representable in the HTTP date format
	}
	nsec := int64(0)
	if rng.Chance(1, 3) {
		nsec = int64(rng.Intn(1000000000))
	}
	return sec, nsec
}

var sizes = []int64{0, 0, 1, 7, 512, 1 << 31, 1 << 40, 1<<62 - 1, -3}

func genObj(rng *hx.Rand, card bool, coll string) *Obj {
	sec, nsec := genTime(rng)
	return &Obj{Path: genObjPath(rng, coll), ETag: genETag(rng), Sec: sec, Nsec: nsec, Len: pick64(rng, sizes), Data: genPayload(card, rng)}
}

var compNames = []string{"VEVENT", "VTODO", "VJOURNAL", "VFREEBUSY", "X-é <&>", ""}

func genColl(rng *hx.Rand, home string) *Coll {
	c := &Coll{Path: home + genSeg(rng) + rng.Pick([]string{"/", ""}), Name: genString(rng), Desc: genString(rng), Max: pick64(rng, sizes)}
	switch rng.Intn(3) {
	case 0:
		c.CompsNil = true
	case 1:
		c.Comps = []string{}
	default:
		c.Comps = []string{}
		for n := 1 + rng.Intn(3); n > 0; n-- {
			c.Comps = append(c.Comps, rng.Pick(compNames))
		}
	}
	return c
}

// statuses a backend may refuse a resource with: registered codes of every class and codes
// net/http has no reason phrase for (http.StatusText == ""), for which Status.MarshalText
// writes an empty phrase after the second space
var failCodes = []int64{400, 401, 403, 404, 409, 410, 412, 423, 499, 500, 507, 509, 520, 599, 419, 430, 450, 512, 555, 306}

func genFail(rng *hx.Rand, card bool) *Outcome {
	switch rng.Intn(8) {
	case 0:
		return &Outcome{Kind: "plain"}
	case 1:
		return &Outcome{Kind: "wrap", Code: pick64(rng, failCodes)}
	case 2:
		return &Outcome{Kind: "pre", Pre: rng.Pick([]string{"no-uid-conflict", "max-resource-size"})}
	}
	return &Outcome{Kind: "http", Code: pick64(rng, failCodes)}
}

var homes = []string{"/u/cal/", "/usr é/my cal%20x/", "/p/h#1/", "/a b/c?d/"}

// ---------------------------------------------------------------- writer documents

func wsJunk(rng *hx.Rand) []*Tree {
	switch rng.Intn(6) {
	case 0, 1:
		return nil
	case 2:
		return []*Tree{T(rng.Pick([]string{" ", "\n", "\n  ", "\t", "\r\n    "}))}
	case 3:
		return []*Tree{T("\n "), C(rng.Pick([]string{" note ", "", "<x>"})), T("\n")}
	case 4:
		// an extension element; rarely one that shares its local name with an element of the
		// schema (known finding C10-foreign-namesake)
		name := "extension"
		if rng.Chance(1, 60) {
			name = rng.Pick([]string{"status", "href", "prop", "error"})
		}
		return []*Tree{E("urn:example:ext", name, T("ignored"))}
	}
	return []*Tree{C("c"), E("", "plain", E(nsDAV, "href", T("/inner")))}
}

func genJunk(rng *hx.Rand, n int, pjunk bool) [][]*Tree {
	if rng.Chance(1, 3) {
		return nil
	}
	out := make([][]*Tree, n+1)
	for i := range out {
		j := wsJunk(rng)
		if pjunk {
			var f []*Tree
			for _, t := range j {
				if t.Kind != 'e' {
					f = append(f, t)
				}
			}
			j = f
		}
		out[i] = j
	}
	return out
}

var reasons = map[int64][]string{
	200: {"OK", "ok", "Fine by me", ""},
	404: {"Not Found", "Nothing here", ""},
}

func reason(rng *hx.Rand, code int64) string {
	if l, ok := reasons[code]; ok {
		return rng.Pick(l)
	}
	return http.StatusText(int(code))
}

var unknownProps = []*Tree{
	E("urn:example:ext", "color", T("#ff0000")),
	E(nsDAV, "quota-used-bytes", T("12")),
	E("http://apple.com/ns/ical/", "calendar-order", T("3")),
	E(nsDAV, "owner", E(nsDAV, "href", T("/principals/x/"))),
	E("", "nons"),
}

type answerT struct {
	Prop *Tree
	Code int64
}

// layout arranges the answers of one resource into propstat groups.  canonical: one
// group per status code in order of appearance; otherwise a random partition, with
// unknown properties added and the groups shuffled.
func layout(rng *hx.Rand, answers []answerT, canonical bool) []*WGroup {
	var groups []*WGroup
	if canonical {
		for _, a := range answers {
			var g *WGroup
			for _, x := range groups {
				if x.Code == a.Code {
					g = x
				}
			}
			if g == nil {
				g = &WGroup{Code: a.Code, Reason: http.StatusText(int(a.Code))}
				groups = append(groups, g)
			}
			g.Props = append(g.Props, a.Prop)
		}
		return groups
	}
	all := append([]answerT{}, answers...)
	for n := rng.Intn(3); n > 0; n-- {
		all = append(all, answerT{unknownProps[rng.Intn(len(unknownProps))],
			pick64(rng, []int64{200, 404, 403, 500})})
	}
	// shuffle
	for i := len(all) - 1; i > 0; i-- {
		j := rng.Intn(i + 1)
		all[i], all[j] = all[j], all[i]
	}
	for _, a := range all {
		var cands []*WGroup
		for _, x := range groups {
			if x.Code == a.Code {
				cands = append(cands, x)
			}
		}
		if len(cands) == 0 || rng.Chance(1, 3) {
			g := &WGroup{Code: a.Code, Reason: reason(rng, a.Code), StatusFirst: rng.Chance(1, 4)}
			groups = append(groups, g)
			cands = []*WGroup{g}
		}
		g := cands[rng.Intn(len(cands))]
		g.Props = append(g.Props, a.Prop)
	}
	if rng.Chance(1, 5) {
		groups = append(groups, &WGroup{Code: 404, Reason: "Not Found"}) // an empty prop element
	}
	for _, g := range groups {
		g.Junk = genJunk(rng, 2, false)
		g.PJunk = genJunk(rng, len(g.Props), true)
	}
	return groups
}

func prop(ns, local string, kids ...*Tree) *Tree { return E(ns, local, kids...) }

var timeLayouts = []string{http.TimeFormat, time.RFC850, time.ANSIC}

// objAnswers: the properties an independent server might report for an object.
func objAnswers(rng *hx.Rand, card bool, o *Obj, withLen bool) []answerT {
	var out []answerT
	text, ok := encodeK(card, o.Data)
	if !ok {
		text = "BEGIN:NOTHING"
	}
	if rng.Chance(1, 2) {
		text = fold(text, rng)
	}
	out = append(out, answerT{prop(nsOf(card), dataLocal(card), T(text)), 200})
	if o.Sec == zeroSec && o.Nsec == 0 {
		if rng.Bool() {
			out = append(out, answerT{prop(nsDAV, "getlastmodified"), 404})
		}
	} else {
		l := rng.Pick(timeLayouts)
		out = append(out, answerT{prop(nsDAV, "getlastmodified", T(time.Unix(o.Sec, 0).UTC().Format(l))), 200})
	}
	if o.ETag == "" {
		if rng.Bool() {
			out = append(out, answerT{prop(nsDAV, "getetag"), 404})
		}
	} else {
		q := strconv.Quote(o.ETag)
		out = append(out, answerT{prop(nsDAV, "getetag", T(q)), 200})
	}
	if withLen && o.Len > 0 {
		out = append(out, answerT{prop(nsDAV, "getcontentlength", T(rng.Pick([]string{"", " ", "\n"})+strconv.FormatInt(o.Len, 10)+rng.Pick([]string{"", " "}))), 200})
	}
	return out
}

func collAnswers(rng *hx.Rand, card bool, c *Coll) []answerT {
	var out []answerT
	ns := nsOf(card)
	typ := "calendar"
	desc := "calendar-description"
	if card {
		typ, desc = "addressbook", "addressbook-description"
	}
	out = append(out, answerT{prop(nsDAV, "resourcetype", E(nsDAV, "collection"), E(ns, typ)), 200})
	if c.Name != "" || rng.Bool() {
		out = append(out, answerT{prop(nsDAV, "displayname", textNodes(c.Name)...), 200})
	} else {
		out = append(out, answerT{prop(nsDAV, "displayname"), 404})
	}
	if c.Desc != "" {
		out = append(out, answerT{prop(ns, desc, T(c.Desc)), 200})
	}
	if c.Max > 0 {
		out = append(out, answerT{prop(ns, "max-resource-size", T(strconv.FormatInt(c.Max, 10))), 200})
	} else if rng.Bool() {
		out = append(out, answerT{prop(ns, "max-resource-size"), 404})
	}
	if !card && !c.CompsNil {
		var comps []*Tree
		for _, n := range c.Comps {
			comps = append(comps, &Tree{Kind: 'e', NS: nsCal, Local: "comp", Attrs: []Attr{{"", "name", n}}})
		}
		out = append(out, answerT{prop(nsCal, "supported-calendar-component-set", comps...), 200})
	}
	if card && rng.Bool() {
		out = append(out, answerT{prop(nsCard, "supported-address-data",
			&Tree{Kind: 'e', NS: nsCard, Local: "address-data-type", Attrs: []Attr{{"", "content-type", "text/vcard"}, {"", "version", "4.0"}}}), 200})
	}
	return out
}

// hrefSpellings: different texts for the same path.
func hrefText(rng *hx.Rand, path string, canonical bool) string {
	tb := newTabs(false)
	tb.path(path)
	e := tb.hrefEnc[path]
	if canonical {
		return e
	}
	switch rng.Intn(4) {
	case 0:
		if len(path) > 0 && path[0] == '/' {
			return "http://dav.example.org" + e
		}
	case 1:
		if len(path) > 0 && path[0] == '/' {
			return "https://other.example:8443" + e
		}
	}
	return e
}

// genDocPair: a content and two layouts of it.
func genDocPair(rng *hx.Rand, card bool, call string) (string, *WDoc, *WDoc) {
	reqpath := "/u/cal/c/"
	n := rng.Intn(4)
	type res struct {
		path    string
		status  int64 // 0: propstats
		answers []answerT
		dups    []answerT // second answers for names already answered, written in a last propstat
	}
	var content []res
	token := ""
	switch call {
	case "objects":
		for i := 0; i < n; i++ {
			o := genObj(rng, card, reqpath)
			if rng.Chance(1, 12) {
				content = append(content, res{path: o.Path, status: pick64(rng, []int64{404, 403, 500, 204})})
			} else {
				content = append(content, res{path: o.Path, answers: objAnswers(rng, card, o, true)})
			}
		}
	case "find":
		reqpath = "/u/cal/"
		content = append(content, res{path: reqpath, answers: []answerT{{prop(nsDAV, "resourcetype", E(nsDAV, "collection")), 200}, {prop(nsDAV, "displayname"), 404}}})
		for i := 0; i < n; i++ {
			c := genColl(rng, reqpath)
			content = append(content, res{path: c.Path, answers: collAnswers(rng, card, c)})
		}
	case "sync":
		token = rng.Pick([]string{"", "http://example.org/sync/42", "tok <&> é"})
		if rng.Bool() {
			content = append(content, res{path: rng.Pick([]string{reqpath, "/u/cal/c"}), answers: []answerT{{prop(nsDAV, "getetag", T(`"coll"`)), 200}}})
		}
		for i := 0; i < n; i++ {
			o := genObj(rng, card, reqpath)
			if rng.Chance(1, 3) {
				content = append(content, res{path: o.Path, status: 404})
			} else {
				content = append(content, res{path: o.Path, answers: objAnswers(rng, card, o, false)[1:]})
			}
		}
	}
	// any 2xx propstat status is a success (RFC 4918 section 13.1 lets a server use e.g. 204
	// or 207 inside a propstat); rarely report a property with one of them
	for _, c := range content {
		for i := range c.answers {
			if c.answers[i].Code == 200 && rng.Chance(1, 25) {
				c.answers[i].Code = pick64(rng, []int64{201, 204, 207, 299})
			}
		}
	}
	// a server may answer a name twice (RFC 4918 does not forbid it); a reader takes the first
	// answer.  The second one goes into a propstat of its own after all others, in both layouts,
	// so that the sequence of answers per name is the same.
	for i := range content {
		c := &content[i]
		if len(c.answers) > 0 && rng.Chance(1, 8) {
			a := c.answers[rng.Intn(len(c.answers))]
			d := answerT{Prop: clone(a.Prop), Code: pick64(rng, []int64{200, 200, 500, 404})}
			if d.Code == 200 && len(d.Prop.Kids) > 0 && d.Prop.Kids[0].Kind == 't' {
				switch d.Prop.Local {
				case "getetag":
					d.Prop.Kids = []*Tree{T(`"second"`)}
				case "getlastmodified":
					d.Prop.Kids = []*Tree{T("Mon, 02 Jan 2006 15:04:05 GMT")}
				case "displayname", "calendar-description", "addressbook-description":
					d.Prop.Kids = []*Tree{T("second")}
				case "max-resource-size", "getcontentlength":
					d.Prop.Kids = []*Tree{T("77")}
				}
			}
			c.dups = append(c.dups, d)
		}
	}
	mk := func(canonical bool) *WDoc {
		d := &WDoc{Token: token}
		for _, c := range content {
			r := &WResp{Hrefs: []string{hrefText(rng, c.path, canonical)}}
			if c.status != 0 {
				r.HasStatus, r.Code, r.Reason = true, c.status, reason(rng, c.status)
				if !canonical && rng.Bool() {
					r.Desc = "sorry <&>"
				}
			} else {
				r.Groups = layout(rng, c.answers, canonical)
				for _, dup := range c.dups {
					r.Groups = append(r.Groups, &WGroup{Code: dup.Code, Reason: http.StatusText(int(dup.Code)), Props: []*Tree{clone(dup.Prop)}})
				}
			}
			if !canonical {
				r.Junk = genJunk(rng, len(r.Hrefs)+len(r.Groups)+1, false)
			}
			d.Resps = append(d.Resps, r)
		}
		if !canonical {
			d.Junk = genJunk(rng, len(d.Resps)+1, false)
		}
		return d
	}
	return reqpath, mk(rng.Bool()), mk(false)
}

// ---------------------------------------------------------------- malformed documents

func clone(t *Tree) *Tree {
	c := *t
	c.Attrs = append([]Attr{}, t.Attrs...)
	c.Kids = nil
	for _, k := range t.Kids {
		c.Kids = append(c.Kids, clone(k))
	}
	return &c
}

func allNodes(t *Tree) []*Tree {
	var out []*Tree
	t.walk(func(n *Tree) {
		if n.Kind == 'e' {
			out = append(out, n)
		}
	})
	return out
}

var badTexts = []string{"", " ", "HTTP/1.1 200 OK", "HTTP/1.1 404 Not Found", "HTTP/1.1 204 No Content", "HTTP/1.1  200 OK", "HTTP/1.1 abc x",
	"200", "HTTP/1.1 200", "FOO +200 x", "HTTP/1.1 -404 neg", "HTTP/1.1 99999999999999999999 big", "\"abc\"", "abc", "'a'", "`x`", "W/\"w\"",
	"Mon, 02 Jan 2006 15:04:05 GMT", "yesterday", "12", " 12 ", "-5", "+7", "1e3", "0x10", "9223372036854775808", "/a b", "/a%zz", "http://[::1", ":", "%41",
	"BEGIN:VCALENDAR\r\nEND:VCALENDAR\r\n", "BEGIN:VCARD\r\nVERSION:4.0\r\nFN:x\r\nEND:VCARD\r\n", "garbage"}

// mutate applies one deviation a broken or hostile server could produce.
func mutate(rng *hx.Rand, root *Tree) *Tree {
	t := clone(root)
	nodes := allNodes(t)
	n := nodes[rng.Intn(len(nodes))]
	switch rng.Intn(12) {
	case 0: // drop a child
		if len(n.Kids) > 0 {
			i := rng.Intn(len(n.Kids))
			n.Kids = append(n.Kids[:i:i], n.Kids[i+1:]...)
		}
	case 1: // duplicate a child
		if len(n.Kids) > 0 {
			i := rng.Intn(len(n.Kids))
			n.Kids = append(n.Kids, clone(n.Kids[i]))
		}
	case 2: // replace the text
		n.Kids = textNodes(rng.Pick(badTexts))
	case 3: // move to another namespace
		n.NS = rng.Pick([]string{"", "urn:example:ext", nsDAV, nsCal, nsCard})
	case 4: // rename
		n.Local = rng.Pick([]string{"status", "href", "prop", "propstat", "response", "error", "location", "getetag", "responsedescription", "multistatus", "sync-token", "comp"})
	case 5: // add stray text
		n.Kids = append(n.Kids, T(rng.Pick([]string{"stray", " ", "HTTP/1.1 500 x"})))
	case 6: // add an element of the schema in a wrong place
		n.Kids = append(n.Kids, E(nsDAV, rng.Pick([]string{"status", "href", "location", "error", "propstat", "prop", "response"}), textNodes(rng.Pick(badTexts))...))
	case 7: // location with hrefs
		n.Kids = append(n.Kids, E(nsDAV, "location", E(nsDAV, "href", textNodes(rng.Pick(badTexts))...)))
	case 8: // swap two children
		if len(n.Kids) > 1 {
			i, j := rng.Intn(len(n.Kids)), rng.Intn(len(n.Kids))
			n.Kids[i], n.Kids[j] = n.Kids[j], n.Kids[i]
		}
	case 9: // attributes
		a := Attr{rng.Pick([]string{"", "urn:example:ext"}), rng.Pick([]string{"name", "version", "content-type", "x"}), rng.Pick(atoms)}
		dup := false
		for _, b := range n.Attrs {
			if b.NS == a.NS && b.Local == a.Local {
				dup = true
			}
		}
		if !dup {
			n.Attrs = append(n.Attrs, a)
		}
	case 10: // nest a copy of itself
		n.Kids = append(n.Kids, clone(n))
	case 11: // wrap children in an unknown element
		n.Kids = []*Tree{E("urn:example:ext", "wrapper", n.Kids...)}
	}
	return t
}

func pick64(rng *hx.Rand, l []int64) int64 { return l[rng.Intn(len(l))] }
