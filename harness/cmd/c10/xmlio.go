package main

// XML in and out of the harness:
//   - readTree: bytes -> namespace-expanded Tree using encoding/xml's RawToken with our own
//     namespace resolution and a strictness check (every prefix declared, no duplicate
//     attribute, one root);
//   - readTable: the harness's own RFC 4918 section 14 reader, Tree -> (href, property,
//     status) rows;
//   - writeDoc: the harness's own writer, WDoc -> Tree -> bytes with freely chosen
//     prefixes, default namespaces, CDATA sections and character references.

import (
	"bytes"
	"encoding/xml"
	"fmt"
	"io"
	"strconv"
	"strings"

	"verifharness/hx"
)

const nsDAV = "DAV:"

type nsFrame map[string]string

func lookupNS(stack []nsFrame, prefix string) (string, bool) {
	for i := len(stack) - 1; i >= 0; i-- {
		if v, ok := stack[i][prefix]; ok {
			return v, true
		}
	}
	if prefix == "" {
		return "", true
	}
	if prefix == "xml" {
		return "http://www.w3.org/XML/1998/namespace", true
	}
	return "", false
}

// readTree parses a document strictly.  The error says what a strict parser objects to.
func readTree(data []byte) (*Tree, error) {
	d := xml.NewDecoder(bytes.NewReader(data))
	var stack []nsFrame
	var open []*Tree
	var root *Tree
	for {
		tok, err := d.RawToken()
		if err == io.EOF {
			break
		}
		if err != nil {
			return nil, err
		}
		switch t := tok.(type) {
		case xml.StartElement:
			frame := nsFrame{}
			seenRaw := map[string]bool{}
			for _, a := range t.Attr {
				raw := a.Name.Space + ":" + a.Name.Local
				if seenRaw[raw] {
					return nil, fmt.Errorf("duplicate attribute %s", raw)
				}
				seenRaw[raw] = true
				if a.Name.Space == "xmlns" {
					if a.Value == "" {
						return nil, fmt.Errorf("prefix %s bound to the empty namespace", a.Name.Local)
					}
					frame[a.Name.Local] = a.Value
				} else if a.Name.Space == "" && a.Name.Local == "xmlns" {
					frame[""] = a.Value
				}
			}
			stack = append(stack, frame)
			ns, ok := lookupNS(stack, t.Name.Space)
			if !ok {
				return nil, fmt.Errorf("undeclared prefix %q", t.Name.Space)
			}
			el := &Tree{Kind: 'e', NS: ns, Local: t.Name.Local}
			seen := map[string]bool{}
			for _, a := range t.Attr {
				if a.Name.Space == "xmlns" || (a.Name.Space == "" && a.Name.Local == "xmlns") {
					continue
				}
				ans := ""
				if a.Name.Space != "" {
					var ok bool
					ans, ok = lookupNS(stack, a.Name.Space)
					if !ok {
						return nil, fmt.Errorf("undeclared attribute prefix %q", a.Name.Space)
					}
				}
				key := ans + "\x00" + a.Name.Local
				if seen[key] {
					return nil, fmt.Errorf("duplicate attribute {%s}%s", ans, a.Name.Local)
				}
				seen[key] = true
				el.Attrs = append(el.Attrs, Attr{ans, a.Name.Local, a.Value})
			}
			if len(open) == 0 {
				if root != nil {
					return nil, fmt.Errorf("second root element")
				}
				root = el
			} else {
				p := open[len(open)-1]
				p.Kids = append(p.Kids, el)
			}
			open = append(open, el)
		case xml.EndElement:
			if len(open) == 0 {
				return nil, fmt.Errorf("unbalanced end element")
			}
			open = open[:len(open)-1]
			stack = stack[:len(stack)-1]
		case xml.CharData:
			if len(open) == 0 {
				if strings.TrimSpace(string(t)) != "" {
					return nil, fmt.Errorf("text outside the root element")
				}
				continue
			}
			if len(t) == 0 {
				continue
			}
			p := open[len(open)-1]
			if n := len(p.Kids); n > 0 && p.Kids[n-1].Kind == 't' {
				p.Kids[n-1].S += string(t)
			} else {
				p.Kids = append(p.Kids, T(string(t)))
			}
		case xml.Comment:
			if len(open) > 0 {
				p := open[len(open)-1]
				p.Kids = append(p.Kids, C(string(t)))
			}
		}
	}
	if root == nil || len(open) != 0 {
		return nil, fmt.Errorf("no complete root element")
	}
	return root, nil
}

// ---------------------------------------------------------------- RFC 4918 table

type Row struct {
	Href string
	Prop *Tree // nil: status row
	Code int64
}

func rowsSx(rows []Row, ok bool) string {
	if !ok {
		return "bad"
	}
	s := make([]string, len(rows))
	for i, r := range rows {
		if r.Prop == nil {
			s[i] = hx.L("s", hx.S(r.Href), hx.I(r.Code))
		} else {
			s[i] = hx.L("p", hx.S(r.Href), r.Prop.Sx(), hx.I(r.Code))
		}
	}
	return hx.L(s...)
}

func isWS(s string) bool { return strings.Trim(s, " \t\n\v\f\r") == "" }

func elementOnly(t *Tree) bool {
	for _, k := range t.Kids {
		if k.Kind == 't' && !isWS(k.S) {
			return false
		}
	}
	return true
}

func textOnly(t *Tree) bool {
	for _, k := range t.Kids {
		if k.Kind == 'e' {
			return false
		}
	}
	return true
}

func (t *Tree) named(local string) []*Tree {
	var out []*Tree
	for _, k := range t.Kids {
		if k.is(nsDAV, local) {
			out = append(out, k)
		}
	}
	return out
}

func allDigits(s string) bool {
	if s == "" {
		return false
	}
	for i := 0; i < len(s); i++ {
		if s[i] < '0' || s[i] > '9' {
			return false
		}
	}
	return true
}

// statusCode: Status-Line = "HTTP/" 1*DIGIT "." 1*DIGIT SP 3DIGIT SP Reason-Phrase
func statusCode(s string) (int64, bool) {
	i := strings.IndexByte(s, ' ')
	if i < 0 || !strings.HasPrefix(s[:i], "HTTP/") {
		return 0, false
	}
	v := s[5:i]
	dot := strings.IndexByte(v, '.')
	if dot < 0 || !allDigits(v[:dot]) || !allDigits(v[dot+1:]) {
		return 0, false
	}
	rest := s[i+1:]
	if len(rest) < 4 || !allDigits(rest[:3]) || rest[3] != ' ' {
		return 0, false
	}
	n, _ := strconv.ParseInt(rest[:3], 10, 64)
	return n, true
}

func readTable(root *Tree) ([]Row, bool) {
	if root == nil || !root.is(nsDAV, "multistatus") || !elementOnly(root) {
		return nil, false
	}
	var rows []Row
	for _, resp := range root.named("response") {
		if !elementOnly(resp) {
			return nil, false
		}
		var hrefs []string
		for _, h := range resp.named("href") {
			if !textOnly(h) || h.chardata() == "" {
				return nil, false
			}
			hrefs = append(hrefs, h.chardata())
		}
		if len(hrefs) == 0 {
			return nil, false
		}
		pss, sts := resp.named("propstat"), resp.named("status")
		switch {
		case len(pss) == 0 && len(sts) == 1:
			if !textOnly(sts[0]) {
				return nil, false
			}
			c, ok := statusCode(sts[0].chardata())
			if !ok {
				return nil, false
			}
			for _, h := range hrefs {
				rows = append(rows, Row{Href: h, Code: c})
			}
		case len(pss) > 0 && len(sts) == 0 && len(hrefs) == 1:
			for _, ps := range pss {
				if !elementOnly(ps) {
					return nil, false
				}
				props, st := ps.named("prop"), ps.named("status")
				if len(props) != 1 || len(st) != 1 || !elementOnly(props[0]) || !textOnly(st[0]) {
					return nil, false
				}
				c, ok := statusCode(st[0].chardata())
				if !ok {
					return nil, false
				}
				for _, p := range props[0].Kids {
					if p.Kind == 'e' {
						rows = append(rows, Row{Href: hrefs[0], Prop: p, Code: c})
					}
				}
			}
		default:
			return nil, false
		}
	}
	return rows, true
}

// ---------------------------------------------------------------- writer

func interleave(junk [][]*Tree, xs []*Tree) []*Tree {
	var out []*Tree
	for i, x := range xs {
		if i < len(junk) {
			out = append(out, junk[i]...)
		}
		out = append(out, x)
	}
	if len(xs) < len(junk) {
		out = append(out, junk[len(xs)]...)
	}
	return out
}

func textNodes(s string) []*Tree {
	if s == "" {
		return nil
	}
	return []*Tree{T(s)}
}

func wStatus(code int64, reason string) *Tree {
	return E(nsDAV, "status", T("HTTP/1.1 "+strconv.FormatInt(code, 10)+" "+reason))
}

// docTree is the harness's rendering of rfc_write: the tree the document denotes.
func docTree(d *WDoc) *Tree {
	var top []*Tree
	for _, r := range d.Resps {
		var ks []*Tree
		for _, h := range r.Hrefs {
			ks = append(ks, E(nsDAV, "href", textNodes(h)...))
		}
		for _, g := range r.Groups {
			p := E(nsDAV, "prop", interleave(g.PJunk, g.Props)...)
			s := wStatus(g.Code, g.Reason)
			pair := []*Tree{p, s}
			if g.StatusFirst {
				pair = []*Tree{s, p}
			}
			ks = append(ks, E(nsDAV, "propstat", interleave(g.Junk, pair)...))
		}
		if r.HasStatus {
			ks = append(ks, wStatus(r.Code, r.Reason))
		}
		if r.Desc != "" {
			ks = append(ks, E(nsDAV, "responsedescription", T(r.Desc)))
		}
		top = append(top, E(nsDAV, "response", interleave(r.Junk, ks)...))
	}
	if d.Token != "" {
		top = append(top, E(nsDAV, "sync-token", T(d.Token)))
	}
	return E(nsDAV, "multistatus", interleave(d.Junk, top)...)
}

func escText(b *bytes.Buffer, s string, attr bool) {
	for i := 0; i < len(s); i++ {
		switch c := s[i]; c {
		case '&':
			b.WriteString("&amp;")
		case '<':
			b.WriteString("&lt;")
		case '>':
			b.WriteString("&gt;")
		case '"':
			if attr {
				b.WriteString("&quot;")
			} else {
				b.WriteByte(c)
			}
		case '\r':
			b.WriteString("&#13;")
		case '\n', '\t':
			if attr {
				fmt.Fprintf(b, "&#%d;", c)
			} else {
				b.WriteByte(c)
			}
		default:
			b.WriteByte(c)
		}
	}
}

// serializer with a free choice of prefixes: style 0 declares every namespace as a
// prefix on the root; style 1 uses default namespace declarations wherever the
// namespace changes; style 2 declares a fresh prefix on every element.
type serializer struct {
	rng   *hx.Rand
	style int
	b     bytes.Buffer
	pref  map[string]string
	n     int
}

func (s *serializer) collect(t *Tree, seen map[string]bool, order *[]string) {
	if t.Kind != 'e' {
		return
	}
	if t.NS != "" && !seen[t.NS] {
		seen[t.NS] = true
		*order = append(*order, t.NS)
	}
	for _, a := range t.Attrs {
		if a.NS != "" && !seen[a.NS] {
			seen[a.NS] = true
			*order = append(*order, a.NS)
		}
	}
	for _, k := range t.Kids {
		s.collect(k, seen, order)
	}
}

var prefixNames = []string{"D", "d", "C", "cal", "A", "x", "ns0", "dav", "Z"}

func (s *serializer) write(t *Tree, curDefault string, top bool) {
	switch t.Kind {
	case 't':
		if s.rng.Chance(1, 6) && !strings.Contains(t.S, "]]>") && !strings.Contains(t.S, "\r") {
			s.b.WriteString("<![CDATA[" + t.S + "]]>")
		} else {
			escText(&s.b, t.S, false)
		}
		return
	case 'c':
		s.b.WriteString("<!--" + t.S + "-->")
		return
	}
	decl := ""
	name := t.Local
	newDefault := curDefault
	local := map[string]string{}
	prefixFor := func(ns string) string {
		if p, ok := s.pref[ns]; ok && s.style == 0 {
			return p
		}
		if p, ok := local[ns]; ok {
			return p
		}
		s.n++
		p := fmt.Sprintf("p%d", s.n)
		local[ns] = p
		decl += ` xmlns:` + p + `="`
		var eb bytes.Buffer
		escText(&eb, ns, true)
		decl += eb.String() + `"`
		return p
	}
	switch {
	case t.NS == "":
		if curDefault != "" {
			decl += ` xmlns=""`
			newDefault = ""
		}
	case s.style == 1:
		if curDefault != t.NS {
			var eb bytes.Buffer
			escText(&eb, t.NS, true)
			decl += ` xmlns="` + eb.String() + `"`
			newDefault = t.NS
		}
	default:
		name = prefixFor(t.NS) + ":" + t.Local
	}
	s.b.WriteString("<" + name)
	if top && s.style == 0 {
		for ns, p := range s.pref {
			var eb bytes.Buffer
			escText(&eb, ns, true)
			decl += ` xmlns:` + p + `="` + eb.String() + `"`
		}
	}
	attrs := ""
	for _, a := range t.Attrs {
		an := a.Local
		if a.NS != "" {
			an = prefixFor(a.NS) + ":" + a.Local
		}
		var eb bytes.Buffer
		escText(&eb, a.Val, true)
		attrs += " " + an + `="` + eb.String() + `"`
	}
	s.b.WriteString(decl + attrs)
	if len(t.Kids) == 0 && s.rng.Bool() {
		s.b.WriteString("/>")
		return
	}
	s.b.WriteString(">")
	for _, k := range t.Kids {
		s.write(k, newDefault, false)
	}
	s.b.WriteString("</" + name + ">")
}

// serialize writes the tree as an XML document.
func serialize(t *Tree, rng *hx.Rand) []byte {
	s := &serializer{rng: rng, style: rng.Intn(3), pref: map[string]string{}}
	if s.style == 0 {
		var order []string
		s.collect(t, map[string]bool{}, &order)
		used := map[string]bool{}
		for _, ns := range order {
			for try := 0; ; try++ {
				p := rng.Pick(prefixNames)
				if try > 20 {
					p = fmt.Sprintf("q%d", len(used))
				}
				if !used[p] {
					used[p] = true
					s.pref[ns] = p
					break
				}
			}
		}
	}
	if rng.Bool() {
		s.b.WriteString(`<?xml version="1.0" encoding="UTF-8"?>` + "\n")
	}
	s.write(t, "", true)
	if rng.Bool() {
		s.b.WriteString("\n")
	}
	return s.b.Bytes()
}
