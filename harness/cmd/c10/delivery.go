package main

// Transports between the real clients and the real handlers, with every form in which a
// body can be delivered (generator audit, item 4), and the scripted client for
// harness-written documents.
//
//	mode 0  bytes with their exact length (what the clients produce)
//	mode 1  unknown length (ContentLength -1), both ways
//	mode 2  one byte per Read, both ways
//	mode 3  the last bytes arrive together with io.EOF, both ways
//	mode 4  all reads succeed, Close fails, both ways
//	mode 5  through a real httptest.Server: the request body is sent chunked, the
//	        response is whatever net/http makes of the handler's writes

import (
	"bytes"
	"context"
	"errors"
	"io"
	"net/http"
	"net/http/httptest"
	"net/url"
	"testing/iotest"
)

const nModes = 6

var modeNames = []string{"exact", "unknown-length", "one-byte-reads", "data-with-eof", "close-fails", "real-server-chunked"}

// capture receives the body of the answer to the request made under its context.
type capture struct {
	body []byte
	code int
}
type capKey struct{}

func withCapture() (context.Context, *capture) {
	c := &capture{}
	return context.WithValue(context.Background(), capKey{}, c), c
}

type failClose struct{ io.Reader }

func (failClose) Close() error { return errors.New("close failed") }

type hideLen struct{ io.Reader }

// shape wraps the bytes of a body in the delivery form of the mode.
func shape(mode int, data []byte) io.ReadCloser {
	switch mode {
	case 1:
		return io.NopCloser(hideLen{bytes.NewReader(data)})
	case 2:
		return io.NopCloser(iotest.OneByteReader(bytes.NewReader(data)))
	case 3:
		return io.NopCloser(iotest.DataErrReader(bytes.NewReader(data)))
	case 4:
		return failClose{bytes.NewReader(data)}
	}
	return io.NopCloser(bytes.NewReader(data))
}

// inproc hands each client request to the handler as a server would receive it
// (request target re-parsed from its wire form).
type inproc struct {
	h    http.Handler
	mode int
	srv  *httptest.Server
	rt   *http.Transport
}

func newInproc(h http.Handler, mode int) *inproc {
	t := &inproc{h: h, mode: mode}
	if mode == 5 {
		t.srv = httptest.NewServer(h)
		t.rt = &http.Transport{DisableCompression: true}
	}
	return t
}

func (t *inproc) close() {
	if t.srv != nil {
		t.rt.CloseIdleConnections()
		t.srv.Close()
	}
}

func (t *inproc) Do(req *http.Request) (*http.Response, error) {
	var data []byte
	if req.Body != nil {
		var err error
		if data, err = io.ReadAll(req.Body); err != nil {
			return nil, err
		}
	}
	cp, _ := req.Context().Value(capKey{}).(*capture)
	var resp *http.Response
	var body []byte
	if t.mode == 5 {
		su, _ := url.Parse(t.srv.URL)
		u := *req.URL
		u.Scheme, u.Host = su.Scheme, su.Host
		sreq, err := http.NewRequestWithContext(req.Context(), req.Method, u.String(), nil)
		if err != nil {
			return nil, err
		}
		if req.Body != nil {
			sreq.Body = io.NopCloser(hideLen{bytes.NewReader(data)})
			sreq.ContentLength = -1 // Transfer-Encoding: chunked
		}
		for k, v := range req.Header {
			sreq.Header[k] = v
		}
		resp, err = t.rt.RoundTrip(sreq)
		if err != nil {
			return nil, err
		}
		body, err = io.ReadAll(resp.Body)
		resp.Body.Close()
		if err != nil {
			return nil, err
		}
		resp.Body = io.NopCloser(bytes.NewReader(body))
	} else {
		var rd io.Reader = http.NoBody
		if req.Body != nil {
			if t.mode == 0 {
				rd = bytes.NewReader(data) // httptest.NewRequest sets the exact ContentLength
			} else {
				rd = shape(t.mode, data)
			}
		}
		sreq := httptest.NewRequest(req.Method, req.URL.String(), rd)
		if req.Body != nil && t.mode != 0 {
			sreq.ContentLength = -1
			if t.mode == 4 {
				sreq.Body = shape(4, data)
			}
		}
		for k, v := range req.Header {
			sreq.Header[k] = v
		}
		rec := httptest.NewRecorder()
		t.h.ServeHTTP(rec, sreq.WithContext(req.Context()))
		resp = rec.Result()
		body, _ = io.ReadAll(resp.Body)
		resp.Body = shape(t.mode, body)
		if t.mode != 0 {
			resp.ContentLength = -1
		}
	}
	resp.Request = req
	if cp != nil {
		cp.body, cp.code = body, resp.StatusCode
	}
	return resp, nil
}

// scripted answers every request with one prepared 207 body.
type scripted struct {
	body []byte
	mode int
}

func (s scripted) Do(req *http.Request) (*http.Response, error) {
	if s.mode == 5 {
		// a real server that writes the document in two flushed halves: a chunked response
		srv := httptest.NewServer(http.HandlerFunc(func(w http.ResponseWriter, r *http.Request) {
			io.Copy(io.Discard, r.Body)
			w.Header().Set("Content-Type", `application/xml; charset="utf-8"`)
			w.WriteHeader(207)
			half := len(s.body) / 2
			w.Write(s.body[:half])
			if f, ok := w.(http.Flusher); ok {
				f.Flush()
			}
			w.Write(s.body[half:])
		}))
		defer srv.Close()
		rt := &http.Transport{DisableCompression: true}
		defer rt.CloseIdleConnections()
		var data []byte
		if req.Body != nil {
			data, _ = io.ReadAll(req.Body)
		}
		su, _ := url.Parse(srv.URL)
		u := *req.URL
		u.Scheme, u.Host = su.Scheme, su.Host
		sreq, err := http.NewRequestWithContext(req.Context(), req.Method, u.String(), bytes.NewReader(data))
		if err != nil {
			return nil, err
		}
		for k, v := range req.Header {
			sreq.Header[k] = v
		}
		resp, err := rt.RoundTrip(sreq)
		if err != nil {
			return nil, err
		}
		body, err := io.ReadAll(resp.Body)
		resp.Body.Close()
		if err != nil {
			return nil, err
		}
		resp.Body = io.NopCloser(bytes.NewReader(body))
		resp.Request = req
		return resp, nil
	}
	n := int64(len(s.body))
	if s.mode != 0 {
		n = -1
	}
	return &http.Response{
		Status: "207 Multi-Status", StatusCode: 207, Proto: "HTTP/1.1", ProtoMajor: 1, ProtoMinor: 1,
		Header:        http.Header{"Content-Type": []string{`application/xml; charset="utf-8"`}},
		Body:          shape(s.mode, s.body),
		ContentLength: n,
		Request:       req,
	}, nil
}
