// Command c10 ties the Gallina model of property C10 to the code: it runs the real
// caldav.Client / carddav.Client against the real caldav.Handler / carddav.Handler (in
// process) over in-memory backend doubles, feeds the real clients multi-status documents
// written by the harness's own writer, and reduces the servers' raw bodies to trees and
// (href, property, status) tables with a strict reader.  One line per case:
//
//	(<kind> <flavor> <inputs...> (tab <codec tables>)) (<observations...>)
//
// kinds: query, multiget, find, propfind, get, put (client <-> handler), vdoc (two layouts
// of one content from the independent writer), doc (arbitrary, also malformed, trees).
package main

import (
	"flag"
	"fmt"
	"os"
	"runtime"
	"sync"

	"verifharness/hx"
)

type job func() string

func main() {
	out := flag.String("out", "", "output file")
	replay := flag.String("replay", "", "file of case lines to re-run (inputs are re-executed)")
	flag.Parse()
	sink := hx.NewSink(*out)
	defer sink.Close()

	if *replay != "" {
		for _, l := range hx.ReadLines(*replay) {
			sink.Put(safe(func() string { return execInput(hx.MustParse(l)[0]) }))
		}
		return
	}

	jobs := make(chan job, 256)
	var wg sync.WaitGroup
	for w := 0; w < runtime.NumCPU(); w++ {
		wg.Add(1)
		go func() {
			defer wg.Done()
			for j := range jobs {
				sink.Put(safe(j))
			}
		}()
	}

	scale := 1
	if hx.Tier() == "thorough" {
		scale = 10
	}
	rng := hx.NewRand(hx.Seed())

	// ---- exhaustive part: which optional facts an object / collection has, and every
	// outcome vector of a multiget of up to three hrefs
	failKinds := []*Outcome{{Kind: "http", Code: 404}, {Kind: "http", Code: 403}, {Kind: "http", Code: 500}, {Kind: "plain"}}
	for _, card := range []bool{false, true} {
		card := card
		data := genPayload(card, rng)
		for _, etag := range []string{"", "e\"1"} {
			for _, sec := range []int64{zeroSec, 1700000000} {
				for _, nsec := range []int64{0, 7} {
					for _, ln := range []int64{0, 42} {
						o := &Obj{Path: "/u/cal/c/a b.ics", ETag: etag, Sec: sec, Nsec: nsec, Len: ln, Data: data}
						jobs <- func() string { return runQuery(card, "/u/", []*Obj{o}) }
						jobs <- func() string { return runGet(card, o.Path, &Outcome{Kind: "found", Obj: o}) }
						jobs <- func() string {
							return runPut(card, "/u/cal/c/new.ics", data, &Outcome{Kind: "found", Obj: &Obj{Path: o.Path, ETag: etag, Sec: sec, Nsec: nsec}})
						}
						jobs <- func() string {
							return runPropfind(card, "/u/", allObjNames(card), &Coll{Path: "/u/cal/c/", CompsNil: true}, []*Obj{o})
						}
					}
				}
			}
		}
		for _, name := range []string{"", "N <&>"} {
			for _, desc := range []string{"", " d\n"} {
				for _, max := range []int64{0, 9} {
					for ci := 0; ci < 3; ci++ {
						c := &Coll{Path: "/u/cal/x y/", Name: name, Desc: desc, Max: max}
						switch ci {
						case 0:
							c.CompsNil = true
						case 1:
							c.Comps = []string{}
						default:
							c.Comps = []string{"VTODO", "VEVENT"}
						}
						jobs <- func() string { return runFind(card, "/u/", "/u/cal/", []*Coll{c}) }
					}
				}
			}
		}
		// PUT histories against a backend with state: the object is retrievable at the request
		// path before the first PUT or not; PUT, then PUT again at the same request path; each
		// time the backend answers with the request path, a different (renamed / case-folded)
		// path, a path that needs escaping, no path, or a failure
		{
			req := "/u/cal/c/Meeting.ics"
			retPaths := []string{req, "/u/cal/c/meeting.ics", "/u/cal/c/a b%41#é.ics", ""}
			mkRet := func(k int, n int) *Outcome {
				if k == len(retPaths) {
					return &Outcome{Kind: "http", Code: 403}
				}
				return &Outcome{Kind: "found", Obj: &Obj{Path: retPaths[k], ETag: fmt.Sprintf("v%d", n), Sec: 1700000000 + int64(n)}}
			}
			for _, pre := range []bool{false, true} {
				pre := pre
				for k1 := 0; k1 <= len(retPaths); k1++ {
					for k2 := 0; k2 <= len(retPaths); k2++ {
						steps := []putStep{{data, mkRet(k1, 1)}, {data, mkRet(k2, 2)}}
						jobs <- func() string { return runPutSeq(card, req, pre, steps) }
					}
				}
			}
		}
		// every refusal status, registered or not, as the backend's answer for one resource of
		// a multiget (alone, after and before a found one), for a GET and for a PUT
		{
			codes := append([]int64{}, failCodes...)
			if hx.Tier() == "thorough" {
				for c := int64(300); c <= 999; c++ {
					if c < 600 || c%37 == 0 {
						codes = append(codes, c)
					}
				}
			}
			okH := "/u/cal/c/ok.ics"
			okOut := hrefOut{okH, &Outcome{Kind: "found", Obj: &Obj{Path: okH, ETag: "t", Sec: 1700000000, Data: data}}}
			for _, c := range codes {
				for _, kind := range []string{"http", "wrap"} {
					f := &Outcome{Kind: kind, Code: c}
					badH := fmt.Sprintf("/u/cal/c/refused %d.ics", c)
					bad := hrefOut{badH, f}
					jobs <- func() string { return runMultiget(card, "/u/", []string{badH}, []hrefOut{bad}) }
					jobs <- func() string { return runMultiget(card, "/u/", []string{okH, badH}, []hrefOut{okOut, bad}) }
					if kind == "http" {
						jobs <- func() string { return runMultiget(card, "/u/", []string{badH, okH, badH}, []hrefOut{okOut, bad}) }
						jobs <- func() string { return runGet(card, badH, f) }
						jobs <- func() string { return runPut(card, badH, data, f) }
					}
				}
			}
		}
		var vec func(prefix []int)
		vec = func(prefix []int) {
			if len(prefix) > 0 {
				var hrefs []string
				var outs []hrefOut
				for i, k := range prefix {
					h := fmt.Sprintf("/u/cal/c/o %d.ics", i)
					hrefs = append(hrefs, h)
					if k == 0 {
						outs = append(outs, hrefOut{h, &Outcome{Kind: "found", Obj: &Obj{Path: h, ETag: "t", Sec: 1700000000 + int64(i), Data: data}}})
					} else {
						outs = append(outs, hrefOut{h, failKinds[k-1]})
					}
				}
				jobs <- func() string { return runMultiget(card, "/u/", hrefs, outs) }
			}
			if len(prefix) == 3 {
				return
			}
			for k := 0; k <= len(failKinds); k++ {
				vec(append(append([]int{}, prefix...), k))
			}
		}
		vec(nil)
	}

	// ---- every kind of call in every delivery form of bodies and with every endpoint spelling
	for _, card := range []bool{false, true} {
		card := card
		data := genPayload(card, rng)
		o1 := &Obj{Path: "/u/cal/c/a b.ics", ETag: "e\"1", Sec: 1700000000, Nsec: 7, Len: 0, Data: data}
		o2 := &Obj{Path: "/u/cal/c/é.ics", ETag: "", Sec: zeroSec, Data: genPayload(card, rng)}
		coll := &Coll{Path: "/u/cal/c/", Name: "N <&>", Desc: " d\n", Max: 9, Comps: []string{"VTODO", "VEVENT"}}
		for mode := 0; mode < nModes; mode++ {
			for ep := 0; ep < len(endpoints); ep++ {
				if mode == 0 && ep == 0 {
					continue // the plain cases
				}
				if mode != 0 && ep != mode%len(endpoints) && hx.Tier() != "thorough" {
					continue
				}
				mode, ep := mode, ep
				g := *o1
				fitLen(card, &g)
				via := func(f stepFn) { jobs <- func() string { return runVia(mode, ep, f) } }
				via(func(e env) (string, string) { return e.query(card, "/u/", []*Obj{o1, o2}) })
				via(func(e env) (string, string) {
					return e.multiget(card, "/u/", []string{o2.Path, "/u/cal/c/missing", o1.Path},
						[]hrefOut{{o1.Path, &Outcome{Kind: "found", Obj: o1}}, {o2.Path, &Outcome{Kind: "found", Obj: o2}}, {"/u/cal/c/missing", failKinds[0]}})
				})
				via(func(e env) (string, string) { return e.find(card, "/u/", "/u/cal/", []*Coll{coll}) })
				via(func(e env) (string, string) {
					return e.propfind(card, "/u/", append(allObjNames(card), allCollNames(card)...), coll, []*Obj{o1, o2})
				})
				via(func(e env) (string, string) { return e.get(card, g.Path, &Outcome{Kind: "found", Obj: &g}) })
				via(func(e env) (string, string) { return e.get(card, "/u/cal/c/gone.ics", failKinds[0]) })
				via(func(e env) (string, string) {
					return e.put(card, "/u/cal/c/new.ics", data, &Outcome{Kind: "found", Obj: &Obj{Path: o1.Path, ETag: "t", Sec: 1700000000}})
				})
				via(func(e env) (string, string) {
					return e.putseq(card, "/u/cal/c/Meeting.ics", false, []putStep{
						{data, &Outcome{Kind: "found", Obj: &Obj{Path: "/u/cal/c/meeting.ics", ETag: "v1", Sec: 1700000001}}},
						{data, &Outcome{Kind: "found", Obj: &Obj{Path: "/u/cal/c/meeting.ics", ETag: "v2", Sec: 1700000002}}}})
				})
				for ci, call := range []string{"objects", "find", "sync"} {
					r := rng.Fork(7000000 + mode*100 + ep*10 + ci)
					call := call
					cd := card || call == "sync"
					reqpath, d1, d2 := genDocPair(r, cd, call)
					via(func(e env) (string, string) { return e.vdoc(cd, call, reqpath, d1, d2) })
				}
			}
		}
		sizeCases(jobs, card, rng)
	}

	// ---- generated part
	for i := 0; i < 400*scale; i++ {
		r := rng.Fork(i)
		card := r.Bool()
		principal := r.Pick([]string{"/u/", "/usr é/", "/p q/"})
		coll := "/u/cal/" + genSeg(r) + "/"
		var objs []*Obj
		for n := r.Intn(5); n > 0; n-- {
			objs = append(objs, genObj(r, card, coll))
		}
		if r.Chance(1, 60) {
			for n := 40; n > 0; n-- {
				objs = append(objs, genObj(r, card, coll))
			}
		}
		if !card && len(objs) > 0 && r.Chance(1, 12) {
			// an object the iCalendar encoder refuses: the data property is answered 500
			objs[r.Intn(len(objs))].Data = genBadCal(r)
		}
		jobs <- func() string { return runQuery(card, principal, objs) }

		// multiget over those objects plus failing and repeated hrefs
		var hrefs []string
		var outs []hrefOut
		seen := map[string]bool{}
		for _, o := range objs {
			if !seen[o.Path] {
				seen[o.Path] = true
				outs = append(outs, hrefOut{o.Path, &Outcome{Kind: "found", Obj: o}})
			}
		}
		for n := r.Intn(3); n > 0; n-- {
			h := coll + "missing" + genSeg(r)
			if !seen[h] {
				seen[h] = true
				outs = append(outs, hrefOut{h, genFail(r, card)})
			}
		}
		if len(outs) == 0 || r.Chance(1, 20) {
			// the backend answers with an object whose path is not the requested one
			o := genObj(r, card, coll)
			h := coll + "alias"
			if !seen[h] {
				outs = append(outs, hrefOut{h, &Outcome{Kind: "found", Obj: o}})
			}
		}
		for n := 1 + r.Intn(2*len(outs)); n > 0; n-- {
			hrefs = append(hrefs, outs[r.Intn(len(outs))].Href)
		}
		jobs <- func() string { return runMultiget(card, principal, hrefs, outs) }

		home := r.Pick(homes)
		var colls []*Coll
		for n := r.Intn(4); n > 0; n-- {
			colls = append(colls, genColl(r, home))
		}
		jobs <- func() string { return runFind(card, principal, home, colls) }

		// PROPFIND Depth 1 listing of a collection, asking for any mix of names
		pc := genColl(r, "/u/cal/")
		pc.Path = "/u/cal/" + r.Pick([]string{"c", "a b", "é", "x%20y"}) + r.Pick([]string{"/", ""})
		var req []Xname
		pool := append(allObjNames(card), allCollNames(card)...)
		pool = append(pool, Xname{"urn:example:ext", "unknown"}, Xname{nsDAV, "getetag"})
		for n := r.Intn(9); n > 0; n-- {
			req = append(req, pool[r.Intn(len(pool))])
		}
		jobs <- func() string { return runPropfind(card, principal, req, pc, objs) }

		// GET and PUT
		var gout *Outcome
		gpath := coll + genSeg(r)
		if r.Chance(1, 5) {
			gout = genFail(r, card)
		} else {
			o := genObj(r, card, coll)
			if o.Path[0] == '/' && (len(o.Path) < 2 || o.Path[1] != '/') && r.Chance(9, 10) {
				gpath = o.Path
			}
			gout = &Outcome{Kind: "found", Obj: o}
		}
		jobs <- func() string { return runGet(card, gpath, gout) }
		var pret *Outcome
		if r.Chance(1, 6) {
			pret = genFail(r, card)
		} else {
			o := genObj(r, card, coll)
			o.Data = ""
			if r.Chance(1, 4) {
				o.Path = ""
			}
			pret = &Outcome{Kind: "found", Obj: o}
		}
		pdata := genPayload(card, r)
		ppath := coll + genSeg(r)
		jobs <- func() string { return runPut(card, ppath, pdata, pret) }

		// a random PUT history at one request path (see the exhaustive part)
		if i%2 == 0 {
			var steps []putStep
			spath := coll + genSeg(r)
			for n := 1 + r.Intn(3); n > 0; n-- {
				var ret *Outcome
				if r.Chance(1, 6) {
					ret = genFail(r, card)
				} else {
					o := genObj(r, card, coll)
					o.Data = ""
					switch r.Intn(4) {
					case 0:
						o.Path = spath
					case 1:
						o.Path = ""
					}
					ret = &Outcome{Kind: "found", Obj: o}
				}
				steps = append(steps, putStep{genPayload(card, r), ret})
			}
			pre := r.Bool()
			jobs <- func() string { return runPutSeq(card, spath, pre, steps) }
		}

		// ---- the calls of this round once more, in another delivery form / endpoint spelling
		if i%4 == 1 {
			mode, ep := 1+r.Intn(4), r.Intn(len(endpoints))
			if i%20 == 1 {
				mode = 5
			}
			gout2 := gout
			if gout.Kind == "found" {
				g := *gout.Obj
				fitLen(card, &g)
				gout2 = &Outcome{Kind: "found", Obj: &g}
			}
			via := func(f stepFn) { jobs <- func() string { return runVia(mode, ep, f) } }
			via(func(e env) (string, string) { return e.query(card, principal, objs) })
			via(func(e env) (string, string) { return e.multiget(card, principal, hrefs, outs) })
			via(func(e env) (string, string) { return e.find(card, principal, home, colls) })
			via(func(e env) (string, string) { return e.propfind(card, principal, req, pc, objs) })
			via(func(e env) (string, string) { return e.get(card, gpath, gout2) })
			via(func(e env) (string, string) { return e.put(card, ppath, pdata, pret) })
		}

		// ---- a history on ONE backend, ONE handler, ONE client, request values reused
		if i%3 == 0 {
			mode, ep := 0, r.Intn(len(endpoints))
			if r.Chance(1, 3) {
				mode = 1 + r.Intn(4)
			}
			if r.Chance(1, 12) {
				mode = 5
			}
			gout2 := gout
			if gout.Kind == "found" {
				g := *gout.Obj
				fitLen(card, &g)
				gout2 = &Outcome{Kind: "found", Obj: &g}
			}
			other := r.Pick([]string{"/u/", "/usr é/", "/p q/", "/other user/"})
			short := hrefs[:1+r.Intn(len(hrefs))/2] // a shorter multiget after a longer one
			cup := append([]Xname{{nsDAV, "current-user-principal"}, {nsDAV, "getetag"}}, req...)
			pool := []stepFn{
				func(e env) (string, string) { return e.query(card, principal, objs) },
				func(e env) (string, string) { return e.multiget(card, principal, hrefs, outs) },
				func(e env) (string, string) { return e.find(card, principal, home, colls) },
				func(e env) (string, string) { return e.propfind(card, principal, cup, pc, objs) },
				func(e env) (string, string) { return e.get(card, gpath, gout2) },
				func(e env) (string, string) { return e.put(card, ppath, pdata, pret) },
				// the same calls for another user / with less to answer: stale state of the step
				// before would show
				func(e env) (string, string) { return e.query(card, other, nil) },
				func(e env) (string, string) { return e.multiget(card, other, short, outs) },
				func(e env) (string, string) { return e.find(card, other, home, nil) },
				func(e env) (string, string) { return e.propfind(card, other, cup, pc, nil) },
				func(e env) (string, string) { return e.get(card, ppath, genFail(r.Fork(77), card)) },
			}
			var steps []stepFn
			for n := 2 + r.Intn(4); n > 0; n-- {
				steps = append(steps, pool[r.Intn(len(pool))])
			}
			jobs <- func() string { return runSession(card, false, mode, ep, steps) }
		}

		// ---- a read-only history, then the same calls overlapping on the same values
		if i%8 == 2 {
			mode, ep := r.Intn(5), r.Intn(len(endpoints))
			if r.Chance(1, 10) {
				mode = 5
			}
			cup := append([]Xname{{nsDAV, "current-user-principal"}}, allObjNames(card)...)
			var robjs []*Obj // objects every codec can carry, with distinct paths
			seenP := map[string]bool{}
			for _, o := range objs {
				// (GET of an object the iCalendar encoder refuses is not modelled: the streaming
				// encoder may have sent part of a 200 answer before it fails)
				_, enc := encodeK(card, o.Data)
				if enc && len(o.Path) > 1 && o.Path[0] == '/' && o.Path[1] != '/' && !seenP[o.Path] {
					seenP[o.Path] = true
					g := *o
					fitLen(card, &g)
					robjs = append(robjs, &g)
				}
			}
			steps := []stepFn{
				func(e env) (string, string) { return e.query(card, "/u/", robjs) },
				func(e env) (string, string) { return e.find(card, "/u/", "/u/cal/", []*Coll{pc}) },
				func(e env) (string, string) { return e.propfind(card, "/u/", cup, pc, robjs) },
			}
			for _, o := range robjs {
				o := o
				steps = append(steps, func(e env) (string, string) { return e.get(card, o.Path, &Outcome{Kind: "found", Obj: o}) })
			}
			steps = append(steps, func(e env) (string, string) { return e.get(card, "/u/cal/c/nothing here", &Outcome{Kind: "http", Code: 404}) })
			jobs <- func() string { return runSession(card, true, mode, ep, steps) }
		}
	}

	// ---- documents from the independent writer: two layouts of one content
	calls := []string{"objects", "find", "sync"}
	for i := 0; i < 600*scale; i++ {
		r := rng.Fork(1000000 + i)
		call := calls[r.Intn(3)]
		card := r.Bool() || call == "sync"
		reqpath, d1, d2 := genDocPair(r, card, call)
		if i%5 == 3 {
			mode, ep := 1+r.Intn(5), r.Intn(len(endpoints))
			if mode == 5 && i%25 != 3 {
				mode = 2
			}
			jobs <- func() string {
				return runVia(mode, ep, func(e env) (string, string) { return e.vdoc(card, call, reqpath, d1, d2) })
			}
		} else {
			jobs <- func() string { return runVdoc(card, call, reqpath, d1, d2) }
		}
		// malformed stream: one to three deviations from a conformant document
		t := docTree(d2)
		for n := 1 + r.Intn(3); n > 0; n-- {
			t = mutate(r, t)
		}
		jobs <- func() string { return runDoc(card, call, reqpath, t) }
	}
	close(jobs)
	wg.Wait()
	fmt.Fprintf(os.Stderr, "c10: %d cases\n", sink.N)
}

// safe: whatever the harness calls in /repo - also to compute inputs or expected values,
// outside the guarded client calls - a panic is an observation, never the death of the
// harness (generator audit, item 9).
func safe(j job) (line string) {
	defer func() {
		if r := recover(); r != nil {
			line = hx.L("crash", "cal", hx.S(fmt.Sprint(r))) + " " + hx.L(hx.L("panic", hx.S(fmt.Sprint(r))))
		}
	}()
	return j()
}

// fitLen: through a real server the Content-Length a backend states for an object must be
// the length of what the server writes (net/http enforces it, and adds the header itself
// when the handler does not); the harness makes the double state the true length there.
func fitLen(card bool, o *Obj) {
	if text, ok := encodeK(card, o.Data); ok {
		o.Len = int64(len(text))
	}
}

func allObjNames(card bool) []Xname {
	return []Xname{{nsOf(card), dataLocal(card)}, {nsDAV, "getlastmodified"}, {nsDAV, "getetag"}, {nsDAV, "getcontentlength"},
		{nsDAV, "getcontenttype"}, {nsDAV, "resourcetype"}, {nsDAV, "current-user-principal"}}
}

func allCollNames(card bool) []Xname {
	if card {
		return []Xname{{nsDAV, "displayname"}, {nsCard, "addressbook-description"}, {nsCard, "max-resource-size"}, {nsCard, "supported-address-data"}}
	}
	return []Xname{{nsDAV, "displayname"}, {nsCal, "calendar-description"}, {nsCal, "max-resource-size"},
		{nsCal, "supported-calendar-data"}, {nsCal, "supported-calendar-component-set"}}
}

// sizeCases: values around the buffer sizes of the code and its libraries (generator
// audit, item 5): bufio / encoding/xml 4096, net/http's 2048-byte sniffing and 4 KiB
// chunks, io.Copy's 32 KiB, 64 KiB; in property values, header values, payload values,
// names, and numbers of siblings.
func sizeCases(jobs chan<- job, card bool, rng *hx.Rand) {
	sizes := []int{512, 4096, 32769}
	sibs := []int{120}
	if hx.Tier() == "thorough" {
		sizes = []int{511, 512, 513, 1023, 1024, 1025, 2047, 2048, 2049, 4095, 4096, 4097, 8192, 32767, 32768, 32769, 65535, 65536, 65537}
		sibs = []int{120, 600, 2000}
	}
	fill := func(n int, unit string) string { // exactly n bytes, whole units then x (valid UTF-8)
		s := ""
		for len(s)+len(unit) <= n {
			s += unit
		}
		for len(s) < n {
			s += "x"
		}
		return s
	}
	for si, n := range sizes {
		n := n
		r := rng.Fork(9000000 + si)
		mode := si % nModes
		// a collection whose name and description have that size
		c := &Coll{Path: "/u/cal/big/", Name: fill(n, "n<&>é"), Desc: fill(n, "d \n"), Max: int64(n)}
		jobs <- func() string {
			return runVia(mode, 0, func(e env) (string, string) { return e.find(card, "/u/", "/u/cal/", []*Coll{c}) })
		}
		// an object with a tag of that size, a name of (at most 200 bytes of) that size and a
		// payload holding a value of that size
		var data string
		if card {
			v := cardFromK(genCard(r))
			v.SetValue("NOTE", fill(n, "note, with; chars "))
			data = cardK(v)
		} else {
			v := calFromK(genCal(r))
			v.Children[len(v.Children)-1].Props.SetText("DESCRIPTION", fill(n, "long text, with; chars "))
			data = calK(v)
		}
		name := fill(n, "x")
		if len(name) > 200 {
			name = name[:200]
		}
		o := &Obj{Path: "/u/cal/big/" + name + ".ics", ETag: fill(n, "t\"g"), Sec: 1700000000, Data: data}
		fitLen(card, o)
		jobs <- func() string {
			return runVia(mode, 0, func(e env) (string, string) { return e.query(card, "/u/", []*Obj{o}) })
		}
		jobs <- func() string {
			return runVia(mode, 0, func(e env) (string, string) { return e.get(card, o.Path, &Outcome{Kind: "found", Obj: o}) })
		}
		jobs <- func() string {
			return runVia(mode, 0, func(e env) (string, string) {
				return e.put(card, o.Path, data, &Outcome{Kind: "found", Obj: &Obj{Path: o.Path, ETag: o.ETag, Sec: o.Sec}})
			})
		}
	}
	for _, n := range sibs {
		var objs []*Obj
		var hrefs []string
		var outs []hrefOut
		data := genPayload(card, rng)
		for i := 0; i < n; i++ {
			o := &Obj{Path: fmt.Sprintf("/u/cal/many/%d.ics", i), ETag: fmt.Sprint(i), Sec: 1700000000 + int64(i), Data: data}
			objs = append(objs, o)
			hrefs = append(hrefs, o.Path)
			outs = append(outs, hrefOut{o.Path, &Outcome{Kind: "found", Obj: o}})
		}
		jobs <- func() string { return runQuery(card, "/u/", objs) }
		jobs <- func() string { return runMultiget(card, "/u/", hrefs, outs) }
	}
}
