// Command c10 ties the Gallina model of property C10 to the code: it runs the real
// caldav.Client / carddav.Client against the real caldav.Handler / carddav.Handler (in
// process) over in-memory backend doubles, feeds the real clients multi-status documents
// written by the harness's own writer, and reduces the servers' raw bodies to trees and
// (href, property, status) tables with a strict reader.  One line per case:
//
//	(<kind> <flavor> <inputs...> (tab <codec tables>)) (<observations...>)
//
// kinds: query, multiget, find, propfind, get, put (client <-> handler), vdoc (two layouts
// of one content from the independent writer), doc (arbitrary, also malformed, trees).
package main

import (
	"flag"
	"fmt"
	"os"
	"runtime"
	"sync"

	"verifharness/hx"
)

type job func() string

func main() {
	out := flag.String("out", "", "output file")
	replay := flag.String("replay", "", "file of case lines to re-run (inputs are re-executed)")
	flag.Parse()
	sink := hx.NewSink(*out)
	defer sink.Close()

	if *replay != "" {
		for _, l := range hx.ReadLines(*replay) {
			items := hx.MustParse(l)
			in := items[0]
			// drop the codec tables from the stored input: they are recomputed
			for n := len(in.List); n > 0 && (in.List[n-1].Head() == "tab" || in.List[n-1].Head() == "htab"); n = len(in.List) {
				in.List = in.List[:n-1]
			}
			sink.Put(execInput(in))
		}
		return
	}

	jobs := make(chan job, 256)
	var wg sync.WaitGroup
	for w := 0; w < runtime.NumCPU(); w++ {
		wg.Add(1)
		go func() {
			defer wg.Done()
			for j := range jobs {
				sink.Put(j())
			}
		}()
	}

	scale := 1
	if hx.Tier() == "thorough" {
		scale = 10
	}
	rng := hx.NewRand(hx.Seed())

	// ---- exhaustive part: which optional facts an object / collection has, and every
	// outcome vector of a multiget of up to three hrefs
	failKinds := []*Outcome{{Kind: "http", Code: 404}, {Kind: "http", Code: 403}, {Kind: "http", Code: 500}, {Kind: "plain"}}
	for _, card := range []bool{false, true} {
		card := card
		data := genPayload(card, rng)
		for _, etag := range []string{"", "e\"1"} {
			for _, sec := range []int64{zeroSec, 1700000000} {
				for _, nsec := range []int64{0, 7} {
					for _, ln := range []int64{0, 42} {
						o := &Obj{Path: "/u/cal/c/a b.ics", ETag: etag, Sec: sec, Nsec: nsec, Len: ln, Data: data}
						jobs <- func() string { return runQuery(card, "/u/", []*Obj{o}) }
						jobs <- func() string { return runGet(card, o.Path, &Outcome{Kind: "found", Obj: o}) }
						jobs <- func() string {
							return runPut(card, "/u/cal/c/new.ics", data, &Outcome{Kind: "found", Obj: &Obj{Path: o.Path, ETag: etag, Sec: sec, Nsec: nsec}})
						}
						jobs <- func() string {
							return runPropfind(card, "/u/", allObjNames(card), &Coll{Path: "/u/cal/c/", CompsNil: true}, []*Obj{o})
						}
					}
				}
			}
		}
		for _, name := range []string{"", "N <&>"} {
			for _, desc := range []string{"", " d\n"} {
				for _, max := range []int64{0, 9} {
					for ci := 0; ci < 3; ci++ {
						c := &Coll{Path: "/u/cal/x y/", Name: name, Desc: desc, Max: max}
						switch ci {
						case 0:
							c.CompsNil = true
						case 1:
							c.Comps = []string{}
						default:
							c.Comps = []string{"VTODO", "VEVENT"}
						}
						jobs <- func() string { return runFind(card, "/u/", "/u/cal/", []*Coll{c}) }
					}
				}
			}
		}
		// PUT histories against a backend with state: the object is retrievable at the request
		// path before the first PUT or not; PUT, then PUT again at the same request path; each
		// time the backend answers with the request path, a different (renamed / case-folded)
		// path, a path that needs escaping, no path, or a failure
		{
			req := "/u/cal/c/Meeting.ics"
			retPaths := []string{req, "/u/cal/c/meeting.ics", "/u/cal/c/a b%41#é.ics", ""}
			mkRet := func(k int, n int) *Outcome {
				if k == len(retPaths) {
					return &Outcome{Kind: "http", Code: 403}
				}
				return &Outcome{Kind: "found", Obj: &Obj{Path: retPaths[k], ETag: fmt.Sprintf("v%d", n), Sec: 1700000000 + int64(n)}}
			}
			for _, pre := range []bool{false, true} {
				pre := pre
				for k1 := 0; k1 <= len(retPaths); k1++ {
					for k2 := 0; k2 <= len(retPaths); k2++ {
						steps := []putStep{{data, mkRet(k1, 1)}, {data, mkRet(k2, 2)}}
						jobs <- func() string { return runPutSeq(card, req, pre, steps) }
					}
				}
			}
		}
		var vec func(prefix []int)
		vec = func(prefix []int) {
			if len(prefix) > 0 {
				var hrefs []string
				var outs []hrefOut
				for i, k := range prefix {
					h := fmt.Sprintf("/u/cal/c/o %d.ics", i)
					hrefs = append(hrefs, h)
					if k == 0 {
						outs = append(outs, hrefOut{h, &Outcome{Kind: "found", Obj: &Obj{Path: h, ETag: "t", Sec: 1700000000 + int64(i), Data: data}}})
					} else {
						outs = append(outs, hrefOut{h, failKinds[k-1]})
					}
				}
				jobs <- func() string { return runMultiget(card, "/u/", hrefs, outs) }
			}
			if len(prefix) == 3 {
				return
			}
			for k := 0; k <= len(failKinds); k++ {
				vec(append(append([]int{}, prefix...), k))
			}
		}
		vec(nil)
	}

	// ---- generated part
	for i := 0; i < 400*scale; i++ {
		r := rng.Fork(i)
		card := r.Bool()
		principal := r.Pick([]string{"/u/", "/usr é/", "/p q/"})
		coll := "/u/cal/" + genSeg(r) + "/"
		var objs []*Obj
		for n := r.Intn(5); n > 0; n-- {
			objs = append(objs, genObj(r, card, coll))
		}
		if r.Chance(1, 60) {
			for n := 40; n > 0; n-- {
				objs = append(objs, genObj(r, card, coll))
			}
		}
		if !card && len(objs) > 0 && r.Chance(1, 12) {
			// an object the iCalendar encoder refuses: the data property is answered 500
			objs[r.Intn(len(objs))].Data = genBadCal(r)
		}
		jobs <- func() string { return runQuery(card, principal, objs) }

		// multiget over those objects plus failing and repeated hrefs
		var hrefs []string
		var outs []hrefOut
		seen := map[string]bool{}
		for _, o := range objs {
			if !seen[o.Path] {
				seen[o.Path] = true
				outs = append(outs, hrefOut{o.Path, &Outcome{Kind: "found", Obj: o}})
			}
		}
		for n := r.Intn(3); n > 0; n-- {
			h := coll + "missing" + genSeg(r)
			if !seen[h] {
				seen[h] = true
				outs = append(outs, hrefOut{h, genFail(r, card)})
			}
		}
		if len(outs) == 0 || r.Chance(1, 20) {
			// the backend answers with an object whose path is not the requested one
			o := genObj(r, card, coll)
			h := coll + "alias"
			if !seen[h] {
				outs = append(outs, hrefOut{h, &Outcome{Kind: "found", Obj: o}})
			}
		}
		for n := 1 + r.Intn(2*len(outs)); n > 0; n-- {
			hrefs = append(hrefs, outs[r.Intn(len(outs))].Href)
		}
		jobs <- func() string { return runMultiget(card, principal, hrefs, outs) }

		home := r.Pick(homes)
		var colls []*Coll
		for n := r.Intn(4); n > 0; n-- {
			colls = append(colls, genColl(r, home))
		}
		jobs <- func() string { return runFind(card, principal, home, colls) }

		// PROPFIND Depth 1 listing of a collection, asking for any mix of names
		pc := genColl(r, "/u/cal/")
		pc.Path = "/u/cal/" + r.Pick([]string{"c", "a b", "é", "x%20y"}) + r.Pick([]string{"/", ""})
		var req []Xname
		pool := append(allObjNames(card), allCollNames(card)...)
		pool = append(pool, Xname{"urn:example:ext", "unknown"}, Xname{nsDAV, "getetag"})
		for n := r.Intn(9); n > 0; n-- {
			req = append(req, pool[r.Intn(len(pool))])
		}
		jobs <- func() string { return runPropfind(card, principal, req, pc, objs) }

		// GET and PUT
		var gout *Outcome
		gpath := coll + genSeg(r)
		if r.Chance(1, 5) {
			gout = genFail(r, card)
		} else {
			o := genObj(r, card, coll)
			if o.Path[0] == '/' && (len(o.Path) < 2 || o.Path[1] != '/') && r.Chance(9, 10) {
				gpath = o.Path
			}
			gout = &Outcome{Kind: "found", Obj: o}
		}
		jobs <- func() string { return runGet(card, gpath, gout) }
		var pret *Outcome
		if r.Chance(1, 6) {
			pret = genFail(r, card)
		} else {
			o := genObj(r, card, coll)
			o.Data = ""
			if r.Chance(1, 4) {
				o.Path = ""
			}
			pret = &Outcome{Kind: "found", Obj: o}
		}
		pdata := genPayload(card, r)
		ppath := coll + genSeg(r)
		jobs <- func() string { return runPut(card, ppath, pdata, pret) }

		// a random PUT history at one request path (see the exhaustive part)
		if i%2 == 0 {
			var steps []putStep
			spath := coll + genSeg(r)
			for n := 1 + r.Intn(3); n > 0; n-- {
				var ret *Outcome
				if r.Chance(1, 6) {
					ret = genFail(r, card)
				} else {
					o := genObj(r, card, coll)
					o.Data = ""
					switch r.Intn(4) {
					case 0:
						o.Path = spath
					case 1:
						o.Path = ""
					}
					ret = &Outcome{Kind: "found", Obj: o}
				}
				steps = append(steps, putStep{genPayload(card, r), ret})
			}
			pre := r.Bool()
			jobs <- func() string { return runPutSeq(card, spath, pre, steps) }
		}
	}

	// ---- documents from the independent writer: two layouts of one content
	calls := []string{"objects", "find", "sync"}
	for i := 0; i < 600*scale; i++ {
		r := rng.Fork(1000000 + i)
		call := calls[r.Intn(3)]
		card := r.Bool() || call == "sync"
		reqpath, d1, d2 := genDocPair(r, card, call)
		jobs <- func() string { return runVdoc(card, call, reqpath, d1, d2) }
		// malformed stream: one to three deviations from a conformant document
		t := docTree(d2)
		for n := 1 + r.Intn(3); n > 0; n-- {
			t = mutate(r, t)
		}
		jobs <- func() string { return runDoc(card, call, reqpath, t) }
	}
	close(jobs)
	wg.Wait()
	fmt.Fprintf(os.Stderr, "c10: %d cases\n", sink.N)
}

func allObjNames(card bool) []Xname {
	return []Xname{{nsOf(card), dataLocal(card)}, {nsDAV, "getlastmodified"}, {nsDAV, "getetag"}, {nsDAV, "getcontentlength"},
		{nsDAV, "getcontenttype"}, {nsDAV, "resourcetype"}, {nsDAV, "current-user-principal"}}
}

func allCollNames(card bool) []Xname {
	if card {
		return []Xname{{nsDAV, "displayname"}, {nsCard, "addressbook-description"}, {nsCard, "max-resource-size"}, {nsCard, "supported-address-data"}}
	}
	return []Xname{{nsDAV, "displayname"}, {nsCal, "calendar-description"}, {nsCal, "max-resource-size"},
		{nsCal, "supported-calendar-data"}, {nsCal, "supported-calendar-component-set"}}
}
