package main

// Input and observation types of the C10 cases, with their S-expression
// rendering (for the oracle) and parsing (for -replay).

import (
	"strings"

	"verifharness/hx"
)

// ---------------------------------------------------------------- trees

// Tree is a namespace-expanded XML tree: element ('e'), text ('t') or comment ('c').
type Tree struct {
	Kind  byte
	NS    string
	Local string
	Attrs []Attr
	Kids  []*Tree
	S     string
}

type Attr struct{ NS, Local, Val string }

func E(ns, local string, kids ...*Tree) *Tree { return &Tree{Kind: 'e', NS: ns, Local: local, Kids: kids} }
func T(s string) *Tree                         { return &Tree{Kind: 't', S: s} }
func C(s string) *Tree                         { return &Tree{Kind: 'c', S: s} }

func (t *Tree) Sx() string {
	switch t.Kind {
	case 't':
		return hx.L("t", hx.S(t.S))
	case 'c':
		return hx.L("c", hx.S(t.S))
	}
	as := make([]string, len(t.Attrs))
	for i, a := range t.Attrs {
		as[i] = hx.L(hx.S(a.NS), hx.S(a.Local), hx.S(a.Val))
	}
	ks := make([]string, len(t.Kids))
	for i, k := range t.Kids {
		ks[i] = k.Sx()
	}
	return hx.L("e", hx.S(t.NS), hx.S(t.Local), hx.L(as...), hx.L(ks...))
}

func parseTree(x hx.Sx) *Tree {
	switch x.Head() {
	case "t":
		return T(x.List[1].Str())
	case "c":
		return C(x.List[1].Str())
	case "e":
		t := &Tree{Kind: 'e', NS: x.List[1].Str(), Local: x.List[2].Str()}
		for _, a := range x.List[3].List {
			t.Attrs = append(t.Attrs, Attr{a.List[0].Str(), a.List[1].Str(), a.List[2].Str()})
		}
		for _, k := range x.List[4].List {
			t.Kids = append(t.Kids, parseTree(k))
		}
		return t
	}
	panic("harness: bad tree " + x.String())
}

func treesSx(l []*Tree) string {
	s := make([]string, len(l))
	for i, t := range l {
		s[i] = t.Sx()
	}
	return hx.L(s...)
}

func parseTrees(x hx.Sx) []*Tree {
	var out []*Tree
	for _, k := range x.List {
		out = append(out, parseTree(k))
	}
	return out
}

func (t *Tree) chardata() string {
	var b strings.Builder
	for _, k := range t.Kids {
		if k.Kind == 't' {
			b.WriteString(k.S)
		}
	}
	return b.String()
}

func (t *Tree) is(ns, local string) bool { return t.Kind == 'e' && t.NS == ns && t.Local == local }

func (t *Tree) walk(f func(*Tree)) {
	f(t)
	for _, k := range t.Kids {
		k.walk(f)
	}
}

// ---------------------------------------------------------------- abstract values

const zeroSec = -62135596800

type Obj struct {
	Path, ETag string
	Sec, Nsec  int64
	Len        int64
	Data       string // canonical form K of the calendar / card
}

func (o *Obj) Sx() string {
	return hx.L("o", hx.S(o.Path), hx.S(o.ETag), hx.I(o.Sec), hx.I(o.Nsec), hx.I(o.Len), hx.S(o.Data))
}

func parseObj(x hx.Sx) *Obj {
	a := x.Args()
	return &Obj{a[0].Str(), a[1].Str(), a[2].Int(), a[3].Int(), a[4].Int(), a[5].Str()}
}

type Coll struct {
	Path, Name, Desc string
	Max              int64
	Comps            []string
	CompsNil         bool
}

func (c *Coll) Sx() string {
	comps := "n"
	if !c.CompsNil {
		s := []string{"l"}
		for _, n := range c.Comps {
			s = append(s, hx.S(n))
		}
		comps = hx.L(s...)
	}
	return hx.L("c", hx.S(c.Path), hx.S(c.Name), hx.S(c.Desc), hx.I(c.Max), comps)
}

func parseColl(x hx.Sx) *Coll {
	a := x.Args()
	c := &Coll{Path: a[0].Str(), Name: a[1].Str(), Desc: a[2].Str(), Max: a[3].Int()}
	if !a[4].IsList {
		c.CompsNil = true
	} else {
		c.Comps = []string{}
		for _, n := range a[4].List[1:] {
			c.Comps = append(c.Comps, n.Str())
		}
	}
	return c
}

// Outcome of a backend method for one resource.  Kind: "found", or how the error
// is built: "http" (HTTPError), "plain" (errors.New), "wrap" (fmt.Errorf %w of an
// HTTPError), "pre" (precondition error: HTTPError 409 carrying an <error> element).
type Outcome struct {
	Kind string
	Obj  *Obj
	Code int64
	Pre  string // local name of the precondition, Kind "pre"
}

type Xname struct{ NS, Local string }

func (n Xname) Sx() string { return hx.L(hx.S(n.NS), hx.S(n.Local)) }

func parseXname(x hx.Sx) Xname { return Xname{x.List[0].Str(), x.List[1].Str()} }

// ---------------------------------------------------------------- writer documents

type WGroup struct {
	Code        int64
	Reason      string
	Props       []*Tree
	StatusFirst bool
	Junk, PJunk [][]*Tree
}
type WResp struct {
	Hrefs     []string
	HasStatus bool
	Code      int64
	Reason    string
	Groups    []*WGroup
	Desc      string
	Junk      [][]*Tree
}
type WDoc struct {
	Resps []*WResp
	Token string
	Junk  [][]*Tree
}

func junkSx(j [][]*Tree) string {
	s := make([]string, len(j))
	for i, l := range j {
		s[i] = treesSx(l)
	}
	return hx.L(s...)
}

func parseJunk(x hx.Sx) [][]*Tree {
	var out [][]*Tree
	for _, l := range x.List {
		out = append(out, parseTrees(l))
	}
	return out
}

func (g *WGroup) Sx() string {
	return hx.L("g", hx.I(g.Code), hx.S(g.Reason), treesSx(g.Props), hx.B(g.StatusFirst), junkSx(g.Junk), junkSx(g.PJunk))
}

func (r *WResp) Sx() string {
	hs := make([]string, len(r.Hrefs))
	for i, h := range r.Hrefs {
		hs[i] = hx.S(h)
	}
	st := "n"
	if r.HasStatus {
		st = hx.L(hx.I(r.Code), hx.S(r.Reason))
	}
	gs := make([]string, len(r.Groups))
	for i, g := range r.Groups {
		gs[i] = g.Sx()
	}
	return hx.L("r", hx.L(hs...), st, hx.L(gs...), hx.S(r.Desc), junkSx(r.Junk))
}

func (d *WDoc) Sx() string {
	rs := make([]string, len(d.Resps))
	for i, r := range d.Resps {
		rs[i] = r.Sx()
	}
	return hx.L("d", hx.L(rs...), hx.S(d.Token), junkSx(d.Junk))
}

func parseWDoc(x hx.Sx) *WDoc {
	a := x.Args()
	d := &WDoc{Token: a[1].Str(), Junk: parseJunk(a[2])}
	for _, rx := range a[0].List {
		ra := rx.Args()
		r := &WResp{Desc: ra[3].Str(), Junk: parseJunk(ra[4])}
		for _, h := range ra[0].List {
			r.Hrefs = append(r.Hrefs, h.Str())
		}
		if ra[1].IsList {
			r.HasStatus = true
			r.Code = ra[1].List[0].Int()
			r.Reason = ra[1].List[1].Str()
		}
		for _, gx := range ra[2].List {
			ga := gx.Args()
			r.Groups = append(r.Groups, &WGroup{Code: ga[0].Int(), Reason: ga[1].Str(), Props: parseTrees(ga[2]),
				StatusFirst: ga[3].Bool(), Junk: parseJunk(ga[4]), PJunk: parseJunk(ga[5])})
		}
		d.Resps = append(d.Resps, r)
	}
	return d
}
