package main

// Histories (generator audit, items 1, 2, 3, 7): 2-5 client calls served by ONE backend
// value, ONE handler and ONE client, with the request / option values reused from step to
// step, every result kept until the end and compared again with what it was, and - for
// read-only histories - the same calls once more, overlapping, on the same values.
// Each step is judged by the model on its own inputs.

import (
	"sync"

	"github.com/emersion/go-webdav/caldav"
	"github.com/emersion/go-webdav/carddav"

	"verifharness/hx"
)

type env struct {
	mode int      // delivery form of bodies (delivery.go)
	ep   int      // spelling of the client's endpoint
	sess *session // nil: a fresh backend, handler and client per call
}

type stepFn func(e env) (in, obs string)

type session struct {
	w      *world
	tr     *inproc
	cl     clients
	frozen bool // overlapping phase: the backend answers for all steps at once
	union  *world

	// request values reused across the steps of the history
	calQ   *caldav.CalendarQuery
	calMG  *caldav.CalendarMultiGet
	cardQ  *carddav.AddressBookQuery
	cardMG *carddav.AddressBookMultiGet

	mu   sync.Mutex
	kept []kept
}

type kept struct {
	was string
	now func() string
}

func mkCalQuery() *caldav.CalendarQuery {
	return &caldav.CalendarQuery{CompFilter: caldav.CompFilter{Name: "VCALENDAR"}}
}
func mkCardQuery() *carddav.AddressBookQuery { return &carddav.AddressBookQuery{} }

func (e env) calQuery() *caldav.CalendarQuery {
	if e.sess == nil {
		return mkCalQuery()
	}
	e.sess.mu.Lock()
	defer e.sess.mu.Unlock()
	if e.sess.calQ == nil {
		e.sess.calQ = mkCalQuery()
	}
	return e.sess.calQ
}

func (e env) cardQuery() *carddav.AddressBookQuery {
	if e.sess == nil {
		return mkCardQuery()
	}
	e.sess.mu.Lock()
	defer e.sess.mu.Unlock()
	if e.sess.cardQ == nil {
		e.sess.cardQ = mkCardQuery()
	}
	return e.sess.cardQ
}

// the multiget value of a history is ONE value whose Paths slice is refilled in place:
// bytes of the previous step stay behind its length
func (e env) calMultiGet(hrefs []string) *caldav.CalendarMultiGet {
	if e.sess == nil {
		return &caldav.CalendarMultiGet{Paths: append([]string(nil), hrefs...)}
	}
	if e.sess.calMG == nil {
		e.sess.calMG = &caldav.CalendarMultiGet{}
	}
	e.sess.calMG.Paths = append(e.sess.calMG.Paths[:0], hrefs...)
	return e.sess.calMG
}

func (e env) cardMultiGet(hrefs []string) *carddav.AddressBookMultiGet {
	if e.sess == nil {
		return &carddav.AddressBookMultiGet{Paths: append([]string(nil), hrefs...)}
	}
	if e.sess.cardMG == nil {
		e.sess.cardMG = &carddav.AddressBookMultiGet{}
	}
	e.sess.cardMG.Paths = append(e.sess.cardMG.Paths[:0], hrefs...)
	return e.sess.cardMG
}

// setup gives a runner its backend double, transport and clients.
func (e env) setup(nw *world) (*world, *inproc, clients, func()) {
	s := e.sess
	if s == nil {
		tr := newInproc(nw.handler(), e.mode)
		return nw, tr, newClients(tr, e.ep), tr.close
	}
	s.mu.Lock()
	defer s.mu.Unlock()
	if s.w == nil {
		s.w = &world{}
		s.w.configure(nw)
		s.tr = newInproc(s.w.handler(), e.mode)
		s.cl = newClients(s.tr, e.ep)
		s.union = &world{byPath: map[string]*Outcome{}}
	} else if !s.frozen {
		s.w.configure(nw)
	}
	if !s.frozen {
		merge(s.union, nw)
	}
	return s.w, s.tr, s.cl, func() {}
}

// merge: what a backend must hold to answer every step of a read-only history at once.
func merge(u, nw *world) {
	u.card = nw.card
	if nw.principal != "" {
		u.principal = nw.principal
	}
	if nw.home != "" {
		u.home = nw.home
	}
	if nw.colls != nil {
		u.colls = nw.colls
	}
	if nw.objs != nil {
		u.objs = nw.objs
	}
	for k, v := range nw.byPath {
		u.byPath[k] = v
	}
}

func (e env) keep(was string, now func() string) {
	if e.sess == nil {
		return
	}
	e.sess.mu.Lock()
	e.sess.kept = append(e.sess.kept, kept{was, now})
	e.sess.mu.Unlock()
}

// (via mode ep <input>): one plain case with its bodies in another delivery form and the
// client's endpoint spelled differently
func runVia(mode, ep int, f stepFn) string {
	in, obs := f(env{mode: mode, ep: ep})
	return hx.L("via", hx.I(int64(mode)), hx.I(int64(ep)), in) + " " + hx.L(obs)
}

// (session fl par mode ep <input>...) ((obs)... (final ok|changed|overlap-differs))
func runSession(card, par bool, mode, ep int, steps []stepFn) string {
	s := &session{}
	e := env{mode: mode, ep: ep, sess: s}
	var ins, obss []string
	for _, f := range steps {
		in, obs := f(e)
		ins = append(ins, in)
		obss = append(obss, obs)
	}
	final := "ok"
	if par && s.w != nil {
		// the same calls again, overlapping, on the same backend, handler, client and request
		// values; the backend now holds what all of them need
		s.w.configure(s.union)
		s.frozen = true
		again := make([]string, len(steps))
		var wg sync.WaitGroup
		for round := 0; round < 3; round++ {
			for i, f := range steps {
				wg.Add(1)
				go func(i int, f stepFn) {
					defer wg.Done()
					defer func() {
						if r := recover(); r != nil {
							again[i] = "panic"
						}
					}()
					_, again[i] = f(e)
				}(i, f)
			}
			wg.Wait()
			for i := range steps {
				if again[i] != obss[i] {
					final = "overlap-differs"
				}
			}
		}
	}
	for _, k := range s.kept {
		func() {
			defer func() {
				if r := recover(); r != nil {
					final = "changed" // it cannot even be rendered any more
				}
			}()
			if k.now() != k.was {
				final = "changed"
			}
		}()
	}
	if s.tr != nil {
		s.tr.close()
	}
	parSx := "0"
	if par {
		parSx = "1"
	}
	items := append([]string{"session", flSx(card), parSx, hx.I(int64(mode)), hx.I(int64(ep))}, ins...)
	o := make([]string, 0, len(obss)+1)
	for _, x := range obss {
		o = append(o, hx.L(x))
	}
	o = append(o, hx.L("final", final))
	return hx.L(items...) + " " + hx.L(o...)
}
