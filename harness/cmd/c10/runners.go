package main

// Case runners: each executes the REAL clients and handlers of /repo on one input and
// returns the input (with the codec tables of its values) and the observation.  A runner
// is a method of env: which delivery form bodies take, how the client's endpoint is
// spelled, and whether it runs alone (fresh backend, handler and client) or as a step of
// a history on ONE backend, ONE handler and ONE client (session.go).

import (
	"context"
	"encoding/xml"
	"fmt"
	"hash/fnv"
	"net/http"
	"reflect"
	"strings"

	"github.com/emersion/go-ical"
	"github.com/emersion/go-vcard"
	"github.com/emersion/go-webdav/caldav"
	"github.com/emersion/go-webdav/carddav"
	"github.com/emersion/go-webdav/verifhook"

	"verifharness/hx"
)

type clients struct {
	cal  *caldav.Client
	card *carddav.Client
	ic   *verifhook.Client
}

// spellings of one endpoint (generator audit, item 8); request paths are absolute, so
// all of them denote the same resources
var endpoints = []string{"http://dav.example.org", "http://dav.example.org/", "HTTP://DAV.EXAMPLE.ORG", "http://dav.example.org:80"}

func newClients(hc interface {
	Do(*http.Request) (*http.Response, error)
}, ep int) clients {
	var c clients
	var err error
	if c.cal, err = caldav.NewClient(hc, endpoints[ep]); err != nil {
		panic(err)
	}
	if c.card, err = carddav.NewClient(hc, endpoints[ep]); err != nil {
		panic(err)
	}
	if c.ic, err = verifhook.NewClient(hc, endpoints[ep]); err != nil {
		panic(err)
	}
	return c
}

const reportPath = "/u/cal/c/"

func join(in, obs string) string { return in + " " + hx.L(obs) }

func argmod(what string) string { return hx.L("argmod", hx.S(what)) }

func objsSx(l []*Obj) string {
	s := make([]string, len(l))
	for i, o := range l {
		s[i] = o.Sx()
	}
	return hx.L(s...)
}

func parseObjs(x hx.Sx) []*Obj {
	var out []*Obj
	for _, o := range x.List {
		out = append(out, parseObj(o))
	}
	return out
}

func sameStrs(a, b []string) bool {
	if len(a) != len(b) {
		return false
	}
	for i := range a {
		if a[i] != b[i] {
			return false
		}
	}
	return true
}

// (query fl principal (objs))
func (e env) query(card bool, principal string, objs []*Obj) (string, string) {
	tb := newTabs(card)
	tb.path(principal)
	for _, o := range objs {
		tb.obj(o)
	}
	w, _, cl, done := e.setup(&world{card: card, principal: principal, objs: objs})
	defer done()
	cx, cp := withCapture()
	obs := guard(func() string {
		var res string
		if card {
			q := e.cardQuery()
			l, err := cl.card.QueryAddressBook(cx, reportPath, q)
			if !reflect.DeepEqual(q, mkCardQuery()) {
				return argmod("AddressBookQuery")
			}
			res = cardObjsSx(l, err)
			e.keep(res, func() string { return cardObjsSx(l, err) })
		} else {
			q := e.calQuery()
			l, err := cl.cal.QueryCalendar(cx, reportPath, q)
			if !reflect.DeepEqual(q, mkCalQuery()) {
				return argmod("CalendarQuery")
			}
			res = calObjsSx(l, err)
			e.keep(res, func() string { return calObjsSx(l, err) })
		}
		if w.issuedChanged() {
			return argmod("object returned by the backend")
		}
		return bodySx(card, cp.body, tb) + " " + res
	})
	return hx.L("query", flSx(card), hx.S(principal), objsSx(objs), tb.Sx()), obs
}

type hrefOut struct {
	Href string
	Out  *Outcome
}

// (multiget fl principal (hrefs) ((href outcome)...))
func (e env) multiget(card bool, principal string, hrefs []string, outs []hrefOut) (string, string) {
	tb := newTabs(card)
	tb.path(principal)
	nw := &world{card: card, principal: principal, byPath: map[string]*Outcome{}}
	var os []string
	for _, ho := range outs {
		nw.byPath[ho.Href] = ho.Out
		tb.path(ho.Href)
		tb.outcome(ho.Out)
		os = append(os, hx.L(hx.S(ho.Href), outcomeSx(card, ho.Out)))
	}
	for _, h := range hrefs {
		tb.path(h)
		// the path the server reads from the request
		if d := tb.hrefDec[tb.hrefEnc[h]]; d != nil {
			tb.path(*d)
		}
	}
	w, _, cl, done := e.setup(nw)
	defer done()
	cx, cp := withCapture()
	obs := guard(func() string {
		var res string
		if card {
			mg := e.cardMultiGet(hrefs)
			l, err := cl.card.MultiGetAddressBook(cx, reportPath, mg)
			if !sameStrs(mg.Paths, hrefs) || !reflect.DeepEqual(mg.DataRequest, carddav.AddressDataRequest{}) {
				return argmod("AddressBookMultiGet")
			}
			res = cardObjsSx(l, err)
			e.keep(res, func() string { return cardObjsSx(l, err) })
		} else {
			mg := e.calMultiGet(hrefs)
			l, err := cl.cal.MultiGetCalendar(cx, reportPath, mg)
			if !sameStrs(mg.Paths, hrefs) || !reflect.DeepEqual(mg.CompRequest, caldav.CalendarCompRequest{}) {
				return argmod("CalendarMultiGet")
			}
			res = calObjsSx(l, err)
			e.keep(res, func() string { return calObjsSx(l, err) })
		}
		if w.issuedChanged() {
			return argmod("object returned by the backend")
		}
		return bodySx(card, cp.body, tb) + " " + res + " " + strsSx(w.getCalls)
	})
	return hx.L("multiget", flSx(card), hx.S(principal), strsSx(hrefs), hx.L(os...), tb.Sx()), obs
}

func collsSx(l []*Coll) string {
	s := make([]string, len(l))
	for i, c := range l {
		s[i] = c.Sx()
	}
	return hx.L(s...)
}

func compsSx(l []string) string { return strsSx(l) }

func calCollsSx(l []caldav.Calendar, err error) string {
	if err != nil {
		return errSx(err)
	}
	items := []string{"ok"}
	for _, c := range l {
		items = append(items, hx.L("cv", hx.S(c.Path), hx.S(c.Name), hx.S(c.Description), hx.I(c.MaxResourceSize), compsSx(c.SupportedComponentSet), hx.L()))
	}
	return hx.L(items...)
}

func cardCollsSx(l []carddav.AddressBook, err error) string {
	if err != nil {
		return errSx(err)
	}
	items := []string{"ok"}
	for _, c := range l {
		var ad []string
		for _, t := range c.SupportedAddressData {
			ad = append(ad, hx.L(hx.S(t.ContentType), hx.S(t.Version)))
		}
		items = append(items, hx.L("cv", hx.S(c.Path), hx.S(c.Name), hx.S(c.Description), hx.I(c.MaxResourceSize), hx.L(), hx.L(ad...)))
	}
	return hx.L(items...)
}

// (find fl principal home (colls))
func (e env) find(card bool, principal, home string, colls []*Coll) (string, string) {
	tb := newTabs(card)
	tb.path(principal)
	tb.path(home)
	for _, c := range colls {
		tb.path(c.Path)
	}
	_, _, cl, done := e.setup(&world{card: card, principal: principal, home: home, colls: colls})
	defer done()
	cx, cp := withCapture()
	obs := guard(func() string {
		var res string
		if card {
			l, err := cl.card.FindAddressBooks(cx, home)
			res = cardCollsSx(l, err)
			e.keep(res, func() string { return cardCollsSx(l, err) })
		} else {
			l, err := cl.cal.FindCalendars(cx, home)
			res = calCollsSx(l, err)
			e.keep(res, func() string { return calCollsSx(l, err) })
		}
		return bodySx(card, cp.body, tb) + " " + res
	})
	return hx.L("find", flSx(card), hx.S(principal), hx.S(home), collsSx(colls), tb.Sx()), obs
}

// (propfind fl principal (req names) coll (objs)): PROPFIND Depth 1 on the collection
func (e env) propfind(card bool, principal string, req []Xname, coll *Coll, objs []*Obj) (string, string) {
	tb := newTabs(card)
	tb.path(principal)
	tb.path(coll.Path)
	for _, o := range objs {
		tb.obj(o)
	}
	w, _, cl, done := e.setup(&world{card: card, principal: principal, home: "/u/cal/", colls: []*Coll{coll}, objs: objs})
	defer done()
	rs := make([]string, len(req))
	names := make([]xml.Name, len(req))
	for i, n := range req {
		rs[i] = n.Sx()
		names[i] = xml.Name{Space: n.NS, Local: n.Local}
	}
	cx, cp := withCapture()
	obs := guard(func() string {
		_, err := cl.ic.PropFind(cx, coll.Path, verifhook.DepthOne, verifhook.NewPropNamePropFind(names...))
		if err != nil {
			return hx.L("failed", errSx(err))
		}
		if w.issuedChanged() {
			return argmod("object returned by the backend")
		}
		return bodySx(card, cp.body, tb)
	})
	return hx.L("propfind", flSx(card), hx.S(principal), hx.L(rs...), coll.Sx(), objsSx(objs), tb.Sx()), obs
}

// (get fl reqpath outcome)
func (e env) get(card bool, reqpath string, out *Outcome) (string, string) {
	tb := newTabs(card)
	tb.path(reqpath)
	tb.outcome(out)
	hb := newTabs(card)
	hb.std = true
	hb.outcome(out)
	w, _, cl, done := e.setup(&world{card: card, principal: "/u/", byPath: map[string]*Outcome{reqpath: out}})
	defer done()
	cx, _ := withCapture()
	obs := guard(func() string {
		var res string
		if card {
			o, err := cl.card.GetAddressObject(cx, reqpath)
			if err != nil {
				return errSx(err)
			}
			res = hx.L("ok", viewSx(o.Path, o.ETag, o.ModTime, o.ContentLength, cardK(o.Card)))
			e.keep(res, func() string { return hx.L("ok", viewSx(o.Path, o.ETag, o.ModTime, o.ContentLength, cardK(o.Card))) })
		} else {
			o, err := cl.cal.GetCalendarObject(cx, reqpath)
			if err != nil {
				return errSx(err)
			}
			res = hx.L("ok", viewSx(o.Path, o.ETag, o.ModTime, o.ContentLength, calK(o.Data)))
			e.keep(res, func() string { return hx.L("ok", viewSx(o.Path, o.ETag, o.ModTime, o.ContentLength, calK(o.Data))) })
		}
		if w.issuedChanged() {
			return argmod("object returned by the backend")
		}
		return res
	})
	return hx.L("get", flSx(card), hx.S(reqpath), outcomeSx(card, out), tb.Sx(), hb.Sx()), obs
}

// onePut makes one PUT through the client and renders (result, what the backend received).
func (e env) onePut(card bool, cl clients, w *world, cx context.Context, reqpath, data string) string {
	var res string
	if card {
		c := cardFromK(data)
		o, err := cl.card.PutAddressObject(cx, reqpath, c)
		if cardK(c) != data {
			return argmod("vcard.Card")
		}
		if err != nil {
			res = errSx(err)
		} else {
			res = hx.L("ok", viewSx(o.Path, o.ETag, o.ModTime, o.ContentLength, ""))
			e.keep(res, func() string { return hx.L("ok", viewSx(o.Path, o.ETag, o.ModTime, o.ContentLength, "")) })
		}
	} else {
		c := calFromK(data)
		o, err := cl.cal.PutCalendarObject(cx, reqpath, c)
		if calK(c) != data {
			return argmod("ical.Calendar")
		}
		if err != nil {
			res = errSx(err)
		} else {
			res = hx.L("ok", viewSx(o.Path, o.ETag, o.ModTime, o.ContentLength, ""))
			e.keep(res, func() string { return hx.L("ok", viewSx(o.Path, o.ETag, o.ModTime, o.ContentLength, "")) })
		}
	}
	recv := "n"
	if w.putCalled {
		recv = hx.L(hx.S(w.putPath), hx.S(w.putData))
		// what the backend was handed stays what it was
		var pc *ical.Calendar = w.putCal
		var pv vcard.Card = w.putCard
		was := w.putData
		if card {
			e.keep(was, func() string { return cardK(pv) })
		} else {
			e.keep(was, func() string { return calK(pc) })
		}
	}
	return res + " " + recv
}

// (put fl reqpath data outcome)
func (e env) put(card bool, reqpath, data string, ret *Outcome) (string, string) {
	tb := newTabs(card)
	tb.path(reqpath)
	tb.pay(data)
	tb.outcome(ret)
	hb := newTabs(card)
	hb.std = true
	hb.outcome(ret)
	w, _, cl, done := e.setup(&world{card: card, principal: "/u/", putRet: ret})
	defer done()
	cx, _ := withCapture()
	obs := guard(func() string { return e.onePut(card, cl, w, cx, reqpath, data) })
	return hx.L("put", flSx(card), hx.S(reqpath), hx.S(data), outcomeSx(card, ret), tb.Sx(), hb.Sx()), obs
}

type putStep struct {
	Data string
	Ret  *Outcome
}

// (putseq fl reqpath pre ((data outcome)...)): a short HISTORY of PUTs at one request path
// against a backend double with state: what a Put stored is retrievable afterwards (at the
// request path and at the path the backend answered); pre: an object is retrievable at
// the request path before the first PUT.  Per step: the client's result and what the
// backend received.
func (e env) putseq(card bool, reqpath string, pre bool, steps []putStep) (string, string) {
	tb := newTabs(card)
	tb.path(reqpath)
	hb := newTabs(card)
	hb.std = true
	var in []string
	for _, st := range steps {
		tb.pay(st.Data)
		tb.outcome(st.Ret)
		hb.outcome(st.Ret)
		in = append(in, hx.L(hx.S(st.Data), outcomeSx(card, st.Ret)))
	}
	nw := &world{card: card, principal: "/u/", stateful: true}
	if pre && len(steps) > 0 {
		nw.stored = map[string]*Obj{reqpath: {Path: reqpath, ETag: "pre", Sec: 1600000000, Data: steps[0].Data}}
	}
	w, _, cl, done := e.setup(nw)
	defer done()
	var obs []string
	for _, st := range steps {
		st := st
		w.putRet, w.putCalled, w.putPath, w.putData = st.Ret, false, "", ""
		cx, _ := withCapture()
		o := guard(func() string { return e.onePut(card, cl, w, cx, reqpath, st.Data) })
		if !strings.HasPrefix(o, "(argmod ") && !strings.HasPrefix(o, "(panic ") { // "res recv" -> (res recv)
			o = hx.L(o)
		}
		obs = append(obs, o)
	}
	preSx := "0"
	if pre {
		preSx = "1"
	}
	return hx.L("putseq", flSx(card), hx.S(reqpath), preSx, hx.L(in...), tb.Sx(), hb.Sx()), joinObs(obs)
}

func joinObs(obs []string) string {
	s := ""
	for i, o := range obs {
		if i > 0 {
			s += " "
		}
		s += o
	}
	return s
}

// ---------------------------------------------------------------- documents fed to the clients

func seedOf(s string) uint64 {
	h := fnv.New64a()
	h.Write([]byte(s))
	return h.Sum64()
}

// feed serializes the tree with the harness's own writer, reads it back (the tree the
// client is given) and runs one client call on it.
func (e env) feed(card bool, call, reqpath string, tree *Tree, rng *hx.Rand, tb *tabs) string {
	data := serialize(tree, rng)
	seen, err := readTree(data)
	if err != nil {
		return hx.L("unwritable", hx.S(err.Error()))
	}
	tb.scan(seen)
	cl := newClients(scripted{data, e.mode}, e.ep)
	cx, _ := withCapture()
	res := guard(func() string {
		switch call {
		case "objects":
			if card {
				if rng.Bool() {
					l, err := cl.card.QueryAddressBook(cx, reqpath, &carddav.AddressBookQuery{})
					return cardObjsSx(l, err)
				}
				l, err := cl.card.MultiGetAddressBook(cx, reqpath, &carddav.AddressBookMultiGet{})
				return cardObjsSx(l, err)
			}
			if rng.Bool() {
				l, err := cl.cal.QueryCalendar(cx, reqpath, &caldav.CalendarQuery{})
				return calObjsSx(l, err)
			}
			l, err := cl.cal.MultiGetCalendar(cx, reqpath, &caldav.CalendarMultiGet{})
			return calObjsSx(l, err)
		case "find":
			if card {
				l, err := cl.card.FindAddressBooks(cx, reqpath)
				return cardCollsSx(l, err)
			}
			l, err := cl.cal.FindCalendars(cx, reqpath)
			return calCollsSx(l, err)
		case "sync":
			q := &carddav.SyncQuery{SyncToken: "t0"}
			r, err := cl.card.SyncCollection(cx, reqpath, q)
			if !reflect.DeepEqual(q, &carddav.SyncQuery{SyncToken: "t0"}) {
				return argmod("SyncQuery")
			}
			if err != nil {
				return errSx(err)
			}
			var up []string
			for _, o := range r.Updated {
				up = append(up, hx.L(hx.S(o.Path), hx.S(o.ETag), hx.I(o.ModTime.Unix())))
			}
			return hx.L("ok", hx.S(r.SyncToken), hx.L(up...), strsSx(r.Deleted))
		}
		panic("harness: bad call " + call)
	})
	return seen.Sx() + " " + res
}

// (vdoc fl call reqpath doc1 doc2): two layouts of one content
func (e env) vdoc(card bool, call, reqpath string, d1, d2 *WDoc) (string, string) {
	tb := newTabs(card)
	tb.path(reqpath)
	in := hx.L("vdoc", flSx(card), call, hx.S(reqpath), d1.Sx(), d2.Sx())
	rng := hx.NewRand(seedOf(in))
	for _, d := range []*WDoc{d1, d2} {
		for _, r := range d.Resps {
			for _, h := range r.Hrefs {
				tb.hrefText(h)
			}
		}
	}
	o1 := e.feed(card, call, reqpath, docTree(d1), rng, tb)
	o2 := e.feed(card, call, reqpath, docTree(d2), rng, tb)
	return in[:len(in)-1] + " " + tb.Sx() + ")", o1 + " " + o2
}

// (doc fl call reqpath tree): any tree, also malformed ones
func (e env) doc(card bool, call, reqpath string, tree *Tree) (string, string) {
	tb := newTabs(card)
	tb.path(reqpath)
	in := hx.L("doc", flSx(card), call, hx.S(reqpath), tree.Sx())
	rng := hx.NewRand(seedOf(in))
	o := e.feed(card, call, reqpath, tree, rng, tb)
	return in[:len(in)-1] + " " + tb.Sx() + ")", o
}

// ---------------------------------------------------------------- the plain runners and replay

func runQuery(card bool, principal string, objs []*Obj) string {
	return join(env{}.query(card, principal, objs))
}
func runMultiget(card bool, principal string, hrefs []string, outs []hrefOut) string {
	return join(env{}.multiget(card, principal, hrefs, outs))
}
func runFind(card bool, principal, home string, colls []*Coll) string {
	return join(env{}.find(card, principal, home, colls))
}
func runPropfind(card bool, principal string, req []Xname, coll *Coll, objs []*Obj) string {
	return join(env{}.propfind(card, principal, req, coll, objs))
}
func runGet(card bool, reqpath string, out *Outcome) string { return join(env{}.get(card, reqpath, out)) }
func runPut(card bool, reqpath, data string, ret *Outcome) string {
	return join(env{}.put(card, reqpath, data, ret))
}
func runPutSeq(card bool, reqpath string, pre bool, steps []putStep) string {
	return join(env{}.putseq(card, reqpath, pre, steps))
}
func runVdoc(card bool, call, reqpath string, d1, d2 *WDoc) string {
	return join(env{}.vdoc(card, call, reqpath, d1, d2))
}
func runDoc(card bool, call, reqpath string, tree *Tree) string {
	return join(env{}.doc(card, call, reqpath, tree))
}

func parseStrs(x hx.Sx) []string {
	var out []string
	for _, s := range x.List {
		out = append(out, s.Str())
	}
	return out
}

// dropTabs removes the codec tables from a stored input: they are recomputed.
func dropTabs(in hx.Sx) hx.Sx {
	for n := len(in.List); n > 0 && (in.List[n-1].Head() == "tab" || in.List[n-1].Head() == "htab"); n = len(in.List) {
		in.List = in.List[:n-1]
	}
	return in
}

// exec re-executes the input part of a plain case (one client call or PUT history).
func (e env) exec(x hx.Sx) (string, string) {
	x = dropTabs(x)
	a := x.Args()
	card := a[0].Atom == "card"
	switch x.Head() {
	case "query":
		return e.query(card, a[1].Str(), parseObjs(a[2]))
	case "multiget":
		var outs []hrefOut
		for _, ho := range a[3].List {
			outs = append(outs, hrefOut{ho.List[0].Str(), parseOutcome(ho.List[1])})
		}
		return e.multiget(card, a[1].Str(), parseStrs(a[2]), outs)
	case "find":
		var cs []*Coll
		for _, c := range a[3].List {
			cs = append(cs, parseColl(c))
		}
		return e.find(card, a[1].Str(), a[2].Str(), cs)
	case "propfind":
		var req []Xname
		for _, n := range a[2].List {
			req = append(req, parseXname(n))
		}
		return e.propfind(card, a[1].Str(), req, parseColl(a[3]), parseObjs(a[4]))
	case "get":
		return e.get(card, a[1].Str(), parseOutcome(a[2]))
	case "put":
		return e.put(card, a[1].Str(), a[2].Str(), parseOutcome(a[3]))
	case "putseq":
		var steps []putStep
		for _, sx := range a[3].List {
			steps = append(steps, putStep{sx.List[0].Str(), parseOutcome(sx.List[1])})
		}
		return e.putseq(card, a[1].Str(), a[2].Atom == "1", steps)
	case "vdoc":
		return e.vdoc(card, a[1].Atom, a[2].Str(), parseWDoc(a[3]), parseWDoc(a[4]))
	case "doc":
		return e.doc(card, a[1].Atom, a[2].Str(), parseTree(a[3]))
	}
	panic("harness: unknown case kind " + x.Head())
}

// execInput re-executes the input part of any case line.
func execInput(x hx.Sx) string {
	switch x.Head() {
	case "via":
		a := x.Args()
		return runVia(int(a[0].Int()), int(a[1].Int()), func(e env) (string, string) { return e.exec(a[2]) })
	case "session":
		a := x.Args()
		var steps []stepFn
		for _, sx := range a[4:] {
			sx := sx
			steps = append(steps, func(e env) (string, string) { return e.exec(sx) })
		}
		return runSession(a[0].Atom == "card", a[1].Atom == "1", int(a[2].Int()), int(a[3].Int()), steps)
	case "crash":
		return x.String() + " " + hx.L(hx.L("panic", hx.S("not replayable: the harness itself panicked")))
	}
	return join(env{}.exec(x))
}

var _ = fmt.Sprint
