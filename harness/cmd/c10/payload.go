package main

// iCalendar / vCard payloads.  A payload travels through the model as its canonical
// form K: an S-expression text of the parsed structure (names, parameters, values,
// children), from which the harness can rebuild the go-ical / go-vcard value.

import (
	"bytes"
	"sort"
	"strings"

	"github.com/emersion/go-ical"
	"github.com/emersion/go-vcard"

	"verifharness/hx"
)

func paramsSx(keys []string, get func(string) []string) string {
	sort.Strings(keys)
	ps := make([]string, len(keys))
	for i, k := range keys {
		vs := []string{hx.S(k)}
		for _, v := range get(k) {
			vs = append(vs, hx.S(v))
		}
		ps[i] = hx.L(vs...)
	}
	return hx.L(ps...)
}

func compK(c *ical.Component) string {
	names := make([]string, 0, len(c.Props))
	for n := range c.Props {
		names = append(names, n)
	}
	sort.Strings(names)
	var props []string
	for _, n := range names {
		for _, p := range c.Props[n] {
			keys := make([]string, 0, len(p.Params))
			for k := range p.Params {
				keys = append(keys, k)
			}
			props = append(props, hx.L(hx.S(p.Name), paramsSx(keys, func(k string) []string { return p.Params[k] }), hx.S(p.Value)))
		}
	}
	kids := make([]string, len(c.Children))
	for i, k := range c.Children {
		kids[i] = compK(k)
	}
	return hx.L("comp", hx.S(c.Name), hx.L(props...), hx.L(kids...))
}

func calK(c *ical.Calendar) string {
	if c == nil || c.Component == nil {
		return "(nil)"
	}
	return compK(c.Component)
}

func compFromK(x hx.Sx) *ical.Component {
	a := x.Args()
	c := ical.NewComponent(a[0].Str())
	for _, px := range a[1].List {
		p := ical.NewProp(px.List[0].Str())
		for _, kv := range px.List[1].List {
			k := kv.List[0].Str()
			p.Params[k] = []string{}
			for _, v := range kv.List[1:] {
				p.Params[k] = append(p.Params[k], v.Str())
			}
		}
		p.Value = px.List[2].Str()
		c.Props[p.Name] = append(c.Props[p.Name], *p)
	}
	for _, kx := range a[2].List {
		c.Children = append(c.Children, compFromK(kx))
	}
	return c
}

func calFromK(k string) *ical.Calendar {
	return &ical.Calendar{Component: compFromK(hx.MustParse(k)[0])}
}

func cardK(c vcard.Card) string {
	if c == nil {
		return "(nil)"
	}
	names := make([]string, 0, len(c))
	for n := range c {
		names = append(names, n)
	}
	sort.Strings(names)
	var fields []string
	for _, n := range names {
		for _, f := range c[n] {
			keys := make([]string, 0, len(f.Params))
			for k := range f.Params {
				keys = append(keys, k)
			}
			fields = append(fields, hx.L(hx.S(n), hx.S(f.Group), paramsSx(keys, func(k string) []string { return f.Params[k] }), hx.S(f.Value)))
		}
	}
	return hx.L("card", hx.L(fields...))
}

func cardFromK(k string) vcard.Card {
	x := hx.MustParse(k)[0]
	c := vcard.Card{}
	for _, fx := range x.Args()[0].List {
		f := &vcard.Field{Group: fx.List[1].Str(), Value: fx.List[3].Str()}
		for _, kv := range fx.List[2].List {
			if f.Params == nil {
				f.Params = vcard.Params{}
			}
			key := kv.List[0].Str()
			f.Params[key] = []string{}
			for _, v := range kv.List[1:] {
				f.Params[key] = append(f.Params[key], v.Str())
			}
		}
		c[fx.List[0].Str()] = append(c[fx.List[0].Str()], f)
	}
	return c
}

// encodeK: the text go-ical / go-vcard write for a payload ("", false on error).
func encodeK(card bool, k string) (string, bool) {
	var buf bytes.Buffer
	var err error
	func() {
		defer func() {
			if r := recover(); r != nil {
				err = errPanic
			}
		}()
		if card {
			err = vcard.NewEncoder(&buf).Encode(cardFromK(k))
		} else {
			err = ical.NewEncoder(&buf).Encode(calFromK(k))
		}
	}()
	if err != nil {
		return "", false
	}
	return buf.String(), true
}

// decodeText: K of what the libraries read from a text ("", false on error).
func decodeText(card bool, text string) (string, bool) {
	if card {
		c, err := vcard.NewDecoder(strings.NewReader(text)).Decode()
		if err != nil {
			return "", false
		}
		return cardK(c), true
	}
	c, err := ical.NewDecoder(strings.NewReader(text)).Decode()
	if err != nil {
		return "", false
	}
	return calK(c), true
}

// wireForm is how a payload text appears in the model: the canonical form of what it
// decodes to (go-vcard writes parameters in map order, so the bytes themselves are
// not a function of the value), or the raw text when it does not decode.
func wireForm(card bool, text string) string {
	if k, ok := decodeText(card, text); ok {
		return "K" + k
	}
	return "R" + text
}

// ---------------------------------------------------------------- generators

var textValues = []string{
	"plain", "with, comma; semicolon \\ backslash", "line1\nline2", "é ü 日本 😀", "  spaced  ", "a:b=c",
	"\"quoted\"", "x", "very long value that a folding encoder would have to fold over several lines because it exceeds seventy-five octets easily",
	"%41 & <tag> ]]>",
}

func genCal(rng *hx.Rand) string {
	cal := ical.NewCalendar()
	cal.Props.SetText(ical.PropVersion, "2.0")
	cal.Props.SetText(ical.PropProductID, "-//verif//C10//"+rng.Pick(textValues))
	kind := rng.Pick([]string{ical.CompEvent, ical.CompToDo, ical.CompJournal})
	n := 1 + rng.Intn(3)
	if rng.Chance(1, 4) {
		tz := ical.NewComponent(ical.CompTimezone)
		tz.Props.SetText(ical.PropTimezoneID, "Europe/Paris")
		st := ical.NewComponent(ical.CompTimezoneStandard)
		st.Props.SetText(ical.PropDateTimeStart, "19701025T030000")
		p := ical.NewProp(ical.PropTimezoneOffsetFrom)
		p.Value = "+0200"
		st.Props.Set(p)
		p = ical.NewProp(ical.PropTimezoneOffsetTo)
		p.Value = "+0100"
		st.Props.Set(p)
		tz.Children = append(tz.Children, st)
		cal.Children = append(cal.Children, tz)
	}
	for i := 0; i < n; i++ {
		c := ical.NewComponent(kind)
		c.Props.SetText(ical.PropUID, "uid-"+rng.Pick(textValues))
		p := ical.NewProp(ical.PropDateTimeStamp)
		p.Value = "20240102T030405Z"
		c.Props.Set(p)
		if kind == ical.CompEvent {
			p = ical.NewProp(ical.PropDateTimeStart)
			p.Value = "20240102T100000"
			if rng.Bool() {
				p.Params.Set(ical.ParamTimezoneID, "Europe/Paris")
			} else {
				p.Value += "Z"
			}
			c.Props.Set(p)
		}
		c.Props.SetText(ical.PropSummary, rng.Pick(textValues))
		if rng.Bool() {
			c.Props.SetText(ical.PropDescription, rng.Pick(textValues)+rng.Pick(textValues))
		}
		if rng.Bool() {
			// multi-valued text list
			p = ical.NewProp(ical.PropCategories)
			p.SetTextList([]string{rng.Pick(textValues), rng.Pick(textValues), "c"})
			c.Props.Set(p)
		}
		for j := rng.Intn(3); j > 0; j-- {
			// same-named properties, parameters with several and with quoted values
			p = ical.NewProp(ical.PropAttendee)
			p.Value = "mailto:" + rng.Pick([]string{"a@example.org", "b@example.org", "ü@example.org"})
			p.Params.Set(ical.ParamCommonName, rng.Pick([]string{"Plain Name", "Name, With; Chars: x", "Nämé"}))
			if rng.Bool() {
				p.Params[ical.ParamRole] = []string{"CHAIR", "REQ-PARTICIPANT"}
			}
			c.Props.Add(p)
		}
		if rng.Chance(1, 4) && kind != ical.CompJournal {
			al := ical.NewComponent(ical.CompAlarm)
			al.Props.SetText(ical.PropAction, "DISPLAY")
			al.Props.SetText(ical.PropDescription, rng.Pick(textValues))
			p = ical.NewProp(ical.PropTrigger)
			p.Value = "-PT15M"
			al.Props.Set(p)
			c.Children = append(c.Children, al)
		}
		cal.Children = append(cal.Children, c)
	}
	return calK(cal)
}

func genCard(rng *hx.Rand) string {
	c := vcard.Card{}
	c.SetValue(vcard.FieldVersion, rng.Pick([]string{"3.0", "4.0"}))
	c.SetValue(vcard.FieldFormattedName, rng.Pick(textValues))
	c.SetValue(vcard.FieldUID, "uid-"+rng.Pick(textValues))
	if rng.Bool() {
		c.AddName(&vcard.Name{FamilyName: rng.Pick(textValues), GivenName: "G;iven", AdditionalName: "a,b"})
	}
	for j := rng.Intn(3); j > 0; j-- {
		f := &vcard.Field{Value: rng.Pick([]string{"a@example.org", "ü@example.org", "x y@example.org"}), Params: vcard.Params{}}
		f.Params[vcard.ParamType] = []string{"home", "work"}[:1+rng.Intn(2)]
		if rng.Bool() {
			f.Params[vcard.ParamPreferred] = []string{"1"}
		}
		if rng.Chance(1, 3) {
			f.Group = "item1"
		}
		c.Add(vcard.FieldEmail, f)
	}
	if rng.Bool() {
		c.SetValue(vcard.FieldNote, rng.Pick(textValues)+"\n"+rng.Pick(textValues))
	}
	if rng.Bool() {
		c.SetCategories([]string{rng.Pick(textValues), "b,c", "d"})
	}
	if rng.Chance(1, 3) {
		c.AddAddress(&vcard.Address{StreetAddress: rng.Pick(textValues), Locality: "Zürich", Country: "CH"})
	}
	return cardK(c)
}

func genPayload(card bool, rng *hx.Rand) string {
	if card {
		return genCard(rng)
	}
	return genCal(rng)
}

// genBadCal: a calendar go-ical refuses to encode (two SUMMARY properties in the
// second component, after the encoder has already written the first).
func genBadCal(rng *hx.Rand) string {
	cal := calFromK(genCal(rng))
	c := cal.Children[len(cal.Children)-1]
	p := ical.NewProp(ical.PropSummary)
	p.SetText("second summary")
	c.Props.Add(p)
	return calK(cal)
}

// fold inserts RFC 5545 / RFC 6350 line folds (CRLF + space or tab) inside long lines.
func fold(text string, rng *hx.Rand) string {
	lines := strings.Split(text, "\r\n")
	for i, l := range lines {
		if len(l) < 12 {
			continue
		}
		var b strings.Builder
		pos := 0
		for pos < len(l) {
			step := 8 + rng.Intn(60)
			end := pos + step
			if end >= len(l) {
				b.WriteString(l[pos:])
				break
			}
			// never cut inside a UTF-8 sequence
			for end > pos && end < len(l) && l[end]&0xC0 == 0x80 {
				end--
			}
			if end == pos {
				end = pos + step
			}
			b.WriteString(l[pos:end])
			b.WriteString("\r\n")
			b.WriteString(rng.Pick([]string{" ", "\t"}))
			pos = end
		}
		lines[i] = b.String()
	}
	return strings.Join(lines, "\r\n")
}
