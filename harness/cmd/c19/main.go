// Command c19 runs caldav.ValidateCalendarObject on enumerated and random
// calendars and records what it returned.
//
// Case line:  (cal <method 0|1> (<name> n | u <uid> | b)...) (ok <type> <uid>) | (err <both-empty 0|1>)
//
// Every calendar is built through the go-ical API; a text-decoded variant of the
// same calendar (encoded with go-ical, decoded again) is validated too and must
// give the same answer, otherwise the observation is (split ...), which no model
// output equals.
package main

import (
	"bytes"
	"flag"
	"fmt"
	"os"
	"runtime"
	"strings"
	"sync"

	"github.com/emersion/go-ical"
	"github.com/emersion/go-webdav/caldav"

	"verifharness/hx"
)

type comp struct {
	name string
	kind byte // 'n' none, 'u' uid, 'b' bad escape
	uid  string
}

func inputSx(method int, comps []comp) string {
	items := []string{"cal", hx.I(int64(method))}
	for _, c := range comps {
		switch c.kind {
		case 'n':
			items = append(items, hx.L(hx.S(strings.ToUpper(c.name)), "n"))
		case 'u':
			items = append(items, hx.L(hx.S(strings.ToUpper(c.name)), "u", hx.S(c.uid)))
		case 'b':
			items = append(items, hx.L(hx.S(strings.ToUpper(c.name)), "b"))
		}
	}
	return hx.L(items...)
}

func parseInput(x hx.Sx) (int, []comp) {
	args := x.Args()
	method := int(args[0].Int())
	var comps []comp
	for _, c := range args[1:] {
		cc := comp{name: c.List[0].Str(), kind: c.List[1].Atom[0]}
		if cc.kind == 'u' {
			cc.uid = c.List[2].Str()
		}
		comps = append(comps, cc)
	}
	return method, comps
}

// methodVariants: a METHOD property is a METHOD property whatever its value looks like
// (0 = no METHOD property; the model only knows whether one is present).
var methodVariants = []func(p *ical.Prop){
	nil,
	func(p *ical.Prop) { p.SetText("PUBLISH") },
	func(p *ical.Prop) { p.Value = "" },
	func(p *ical.Prop) { p.Value = ",REQUEST" },
	func(p *ical.Prop) { p.Value = "REQUEST\\" },
	func(p *ical.Prop) { p.Value = "QUJD"; p.Params.Set("VALUE", "BINARY") },
	func(p *ical.Prop) { p.SetText("request") },
	func(p *ical.Prop) { p.Value = "bad\\xescape" },
}

func build(method int, comps []comp) *ical.Calendar {
	cal := ical.NewCalendar()
	cal.Props.SetText(ical.PropVersion, "2.0")
	cal.Props.SetText(ical.PropProductID, "-//verif//EN")
	if method > 0 && method < len(methodVariants) {
		p := ical.NewProp(ical.PropMethod)
		methodVariants[method](p)
		cal.Props.Set(p)
	}
	for _, c := range comps {
		cc := ical.NewComponent(c.name)
		switch c.kind {
		case 'u':
			cc.Props.SetText(ical.PropUID, c.uid)
		case 'b':
			p := ical.NewProp(ical.PropUID)
			p.Value = "bad\\xescape"
			cc.Props.Set(p)
		}
		cal.Children = append(cal.Children, cc)
	}
	return cal
}

func observe(cal *ical.Calendar) (obs string) {
	defer func() {
		if r := recover(); r != nil {
			obs = "(panic)"
		}
	}()
	ty, uid, err := caldav.ValidateCalendarObject(cal)
	if err != nil {
		return hx.L("err", hx.B(ty == "" && uid == ""))
	}
	return hx.L("ok", hx.S(ty), hx.S(uid))
}

// textVariant encodes the calendar with go-ical and decodes it again; nil when the
// calendar cannot be encoded (go-ical insists on required properties).
func textVariant(cal *ical.Calendar) *ical.Calendar {
	var buf bytes.Buffer
	if err := ical.NewEncoder(&buf).Encode(cal); err != nil {
		return nil
	}
	out, err := ical.NewDecoder(&buf).Decode()
	if err != nil {
		return nil
	}
	return out
}

func exec(in string, withText bool) string {
	x := hx.MustParse(in)[0]
	method, comps := parseInput(x)
	cal := build(method, comps)
	obs := observe(cal)
	if withText {
		if tv := textVariant(cal); tv != nil {
			if o2 := observe(tv); o2 != obs {
				obs = hx.L("split", obs, o2)
			}
		}
	}
	return in + " " + obs
}

var names = []string{"VEVENT", "VTODO", "VJOURNAL", "VFREEBUSY", "VTIMEZONE"}

func uidChoices() []comp {
	return []comp{{kind: 'n'}, {kind: 'u', uid: "u1"}, {kind: 'u', uid: "u2"}, {kind: 'b'}}
}

func main() {
	out := flag.String("out", "", "output file")
	replay := flag.String("replay", "", "file of case lines to re-run (inputs are re-executed)")
	flag.Parse()
	sink := hx.NewSink(*out)
	defer sink.Close()

	if *replay != "" {
		for _, l := range hx.ReadLines(*replay) {
			items := hx.MustParse(l)
			sink.Put(exec(items[0].String(), true))
		}
		return
	}

	maxLen := 4
	textLen := 3
	nRandom := 20000
	if hx.Tier() == "thorough" {
		maxLen = 5
		nRandom = 200000
	}

	// exhaustive part: every sequence of <= maxLen components over 5 names x 4 UID states, x METHOD
	var alphabet []comp
	for _, n := range names {
		for _, u := range uidChoices() {
			u.name = n
			alphabet = append(alphabet, u)
		}
	}
	inputs := make(chan [2]string, 1024)
	var wg sync.WaitGroup
	for w := 0; w < runtime.NumCPU(); w++ {
		wg.Add(1)
		go func() {
			defer wg.Done()
			for in := range inputs {
				sink.Put(exec(in[0], in[1] == "t"))
			}
		}()
	}
	var rec func(prefix []comp)
	rec = func(prefix []comp) {
		ms := []int{0, 1}
		if len(prefix) <= 2 {
			ms = []int{0, 1, 2, 3, 4, 5, 6, 7}
		}
		for _, m := range ms {
			t := "f"
			if len(prefix) <= textLen {
				t = "t"
			}
			inputs <- [2]string{inputSx(m, prefix), t}
		}
		if len(prefix) == maxLen {
			return
		}
		for _, c := range alphabet {
			rec(append(append([]comp{}, prefix...), c))
		}
	}
	rec(nil)

	// random part: larger calendars, more names and UID strings
	rng := hx.NewRand(hx.Seed())
	moreNames := append([]string{"VALARM", "X-CUSTOM", "vevent"}, names...)
	uidStrs := []string{"u1", "u2", "", "a,b", "x;y\\z", "ü", "U1"}
	for i := 0; i < nRandom; i++ {
		n := rng.Intn(30)
		var comps []comp
		// mostly-valid: pick a dominant type and uid, deviate rarely
		dom := rng.Pick(moreNames)
		domUID := rng.Pick(uidStrs)
		for j := 0; j < n; j++ {
			c := comp{name: dom, kind: 'u', uid: domUID}
			if rng.Chance(1, 4) {
				c.name = "VTIMEZONE"
			}
			if rng.Chance(1, 3) {
				c.kind = 'n'
			}
			if rng.Chance(1, 25) {
				c.name = rng.Pick(moreNames)
			}
			if rng.Chance(1, 25) {
				c.uid = rng.Pick(uidStrs)
			}
			if rng.Chance(1, 60) {
				c.kind = 'b'
			}
			comps = append(comps, c)
		}
		m := 0
		if rng.Chance(1, 10) {
			m = 1 + rng.Intn(len(methodVariants)-1)
		}
		inputs <- [2]string{inputSx(m, comps), "t"}
	}
	close(inputs)
	wg.Wait()
	fmt.Fprintf(os.Stderr, "c19: %d cases\n", sink.N)
}
