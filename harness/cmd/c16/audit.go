// Generator audit additions (notes/C16.md, "Generator audit"): results of encoders kept
// across later encodings (sequentially and overlapping), one receiver decoded into
// several times, one handler/client serving several requests, named zones with DST and a
// process zone that is not UTC, texts around buffer sizes.
//
//	(hold <case>...)                    (<obs>...)   every <case> is an -rt input of this file ((depth-rt d), (ow-rt b),
//	                                                 (status-rt c t), (time-rt s off), (time-rtz s zone), (ical-rt s off), (ical-rtz s zone),
//	                                                 (etag-rt tag runes), (href-rt p)); ALL are encoded first, the results are kept as the
//	                                                 encoders returned them (the very slices), then each is read and decoded: <obs> has the
//	                                                 shape of the -rt observation
//	(overlap (<case>...) (<case>...)...)  ((<obs>...)...)   one goroutine per list runs the hold procedure many times while the others
//	                                                 do the same; a round that differs from the first is the one reported
//	(redec <prim> <text>...)            (<obs>...)   ONE receiver, UnmarshalText of each text in turn (prim: status|time|etag|href)
//	(e2e-many (<secs> <off> <path> <tag> <runes>)...)  ((<r>...) (<r>...))  ONE handler and ONE client: a PROPFIND per resource in
//	                                                 turn, then all at once from as many goroutines; <r> = ((ok secs ns) (ok path) (ok tag))|((err) (err) (err))
//	(time-rtz <secs> <zone>) (ical-rtz ...) (time-e2ez ...)   as time-rt/ical-rt/time-e2e with the instant in a named zone ("Local" = time.Local)
package main

import (
	"context"
	"runtime"
	"strconv"
	"strings"
	"sync"
	"time"

	webdav "github.com/emersion/go-webdav"
	"github.com/emersion/go-webdav/caldav"
	"github.com/emersion/go-webdav/verifhook"

	"verifharness/hx"
)

// argCheck: a decoder must leave its argument alone, and what it decoded must not
// alias it: the bytes are compared, then overwritten before the result is read.
func argCheck(b []byte, orig string) string {
	if string(b) != orig {
		return "(modified-argument)"
	}
	for i := range b {
		b[i] ^= 0xff
	}
	return ""
}

func hrefText(p string) (t string, ok bool) {
	defer func() {
		if r := recover(); r != nil {
			t, ok = "", false
		}
	}()
	h := verifhook.Href{Path: p}
	return h.String(), true
}

func zoneByName(name string) *time.Location {
	if name == "Local" {
		return time.Local
	}
	loc, err := time.LoadLocation(name)
	if err != nil {
		panic("harness: zone " + name + ": " + err.Error())
	}
	return loc
}

// held is one encoding whose result is kept as the encoder returned it.
type held struct {
	kind  string
	bytes []byte // the slice MarshalText returned (not copied)
	str   string // or the string String()/Format returned
	isStr bool
	bad   string // (panic) / (err) observed while encoding
}

func (h *held) text() string {
	if h.isStr {
		return h.str
	}
	return string(h.bytes)
}

func encodeHeld(c hx.Sx) (h *held) {
	h = &held{kind: c.Head()}
	defer func() {
		if r := recover(); r != nil {
			h.bad = obsPanic()
		}
	}()
	a := c.Args()
	fail := func(err error) bool {
		if err != nil {
			h.bad = obsErr()
			return true
		}
		return false
	}
	switch h.kind {
	case "depth-rt":
		h.isStr = true
		h.str = verifhook.Depth(a[0].Int()).String()
	case "ow-rt":
		h.isStr = true
		h.str = verifhook.FormatOverwrite(a[0].Bool())
	case "status-rt":
		st := verifhook.Status{Code: int(a[0].Int()), Text: a[1].Str()}
		b, err := st.MarshalText()
		if !fail(err) {
			h.bytes = b
		}
	case "time-rt", "time-rtz":
		var tm time.Time
		if h.kind == "time-rt" {
			tm = inZone(a[0].Int(), a[1].Int())
		} else {
			tm = time.Unix(a[0].Int(), 0).In(zoneByName(a[1].Str()))
		}
		t := verifhook.Time(tm)
		b, err := t.MarshalText()
		if !fail(err) {
			h.bytes = b
		}
	case "ical-rt", "ical-rtz":
		var tm time.Time
		if h.kind == "ical-rt" {
			tm = inZone(a[0].Int(), a[1].Int())
		} else {
			tm = time.Unix(a[0].Int(), 0).In(zoneByName(a[1].Str()))
		}
		b, err := caldav.VerifMarshalDateWithUTCTime(tm)
		if !fail(err) {
			h.bytes = b
		}
	case "etag-rt":
		b, err := verifhook.ETag(a[0].Str()).MarshalText()
		if !fail(err) {
			h.bytes = b
		}
	case "href-rt":
		hr := verifhook.Href{Path: a[0].Str()}
		b, err := hr.MarshalText()
		if !fail(err) {
			h.bytes = b
		}
	default:
		panic("harness: hold: unknown case " + c.String())
	}
	return h
}

// readHeld renders the -rt observation of a kept encoding from what it holds NOW.
func readHeld(h *held) string {
	if h.bad != "" {
		if h.kind == "depth-rt" {
			return hx.L(h.bad, "(skip)")
		}
		return h.bad
	}
	t := h.text()
	switch h.kind {
	case "depth-rt":
		return hx.L(hx.L("ok", hx.S(t)), depthParseObs(t))
	case "ow-rt":
		return hx.L(hx.S(t), owParseObs(t))
	case "status-rt":
		return hx.L(hx.S(t), statusUnmarshalObs(t))
	case "time-rt", "time-rtz":
		return hx.L(hx.S(t), timeDecObs(t))
	case "ical-rt", "ical-rtz":
		return hx.L(hx.S(t), icalDecObs(t))
	case "etag-rt":
		return hx.L(hx.S(t), etagDecObs(t))
	case "href-rt":
		return hx.L(hx.S(t), hrefDecObs(t))
	}
	panic("harness: readHeld")
}

// holdOnce: encode everything, then read everything.
func holdOnce(cases []hx.Sx, yield bool) []string {
	hs := make([]*held, len(cases))
	for i, c := range cases {
		hs[i] = encodeHeld(c)
		if yield {
			runtime.Gosched()
		}
	}
	out := make([]string, len(cases))
	for i, h := range hs {
		out[i] = readHeld(h)
	}
	return out
}

func holdObs(cases []hx.Sx) string {
	return guard(func() string { return hx.L(holdOnce(cases, false)...) })
}

func overlapObs(lists []hx.Sx) string {
	const rounds = 60
	res := make([]string, len(lists))
	var wg sync.WaitGroup
	start := make(chan struct{})
	for i := range lists {
		wg.Add(1)
		go func(i int) {
			defer wg.Done()
			res[i] = guard(func() string {
				cases := lists[i].List
				<-start
				first := hx.L(holdOnce(cases, true)...)
				for k := 1; k < rounds; k++ {
					if o := hx.L(holdOnce(cases, true)...); o != first {
						return o
					}
				}
				return first
			})
		}(i)
	}
	close(start)
	wg.Wait()
	return hx.L(res...)
}

// redecObs decodes the texts one after the other into ONE receiver.
func redecObs(prim string, texts []string) string {
	return guard(func() string {
		out := make([]string, 0, len(texts))
		var st verifhook.Status
		var tm verifhook.Time
		var et verifhook.ETag
		var hr verifhook.Href
		for _, text := range texts {
			b := []byte(text)
			var o string
			switch prim {
			case "status":
				err := st.UnmarshalText(b)
				if o = argCheck(b, text); o == "" {
					o = statusObs(&st, err)
				}
			case "time":
				err := tm.UnmarshalText(b)
				if o = argCheck(b, text); o == "" {
					o = timeObs(time.Time(tm), err)
				}
			case "etag":
				err := et.UnmarshalText(b)
				if o = argCheck(b, text); o == "" {
					o = strObs(string(et), err)
				}
			case "href":
				err := hr.UnmarshalText(b)
				if o = argCheck(b, text); o == "" {
					if err != nil {
						o = obsErr()
					} else {
						o = hrefObsOf(&hr)
					}
				}
			default:
				panic("harness: redec " + prim)
			}
			out = append(out, o)
		}
		return hx.L(out...)
	})
}

// mapFS answers Stat from a table.
type mapFS struct {
	stubFS
	infos map[string]webdav.FileInfo
}

func (fs *mapFS) Stat(ctx context.Context, name string) (*webdav.FileInfo, error) {
	fi, ok := fs.infos[name]
	if !ok {
		return fs.stubFS.Stat(ctx, name)
	}
	return &fi, nil
}

func e2eManyObs(items []hx.Sx) string {
	return guard(func() string {
		fs := &mapFS{infos: map[string]webdav.FileInfo{}}
		for i, it := range items {
			a := it.List
			fs.infos["/r"+strconv.Itoa(i)] = webdav.FileInfo{Path: a[2].Str(), Size: int64(i), ModTime: inZone(a[0].Int(), a[1].Int()), ETag: a[3].Str()}
		}
		h := &webdav.Handler{FileSystem: fs}
		c, err := webdav.NewClient(inProc{h}, "http://example.org/")
		if err != nil {
			return obsErr()
		}
		one := func(i int) string {
			return guard(func() string {
				fi, err := c.Stat(context.Background(), "/r"+strconv.Itoa(i))
				if err != nil {
					return hx.L(obsErr(), obsErr(), obsErr())
				}
				return hx.L(timeObs(fi.ModTime, nil), strObs(fi.Path, nil), strObs(fi.ETag, nil))
			})
		}
		seq := make([]string, len(items))
		for i := range items {
			seq[i] = one(i)
		}
		ovl := make([]string, len(items))
		var wg sync.WaitGroup
		start := make(chan struct{})
		for i := range items {
			wg.Add(1)
			go func(i int) {
				defer wg.Done()
				<-start
				ovl[i] = seq[i]
				for k := 0; k < 12; k++ {
					if o := one(i); o != seq[i] {
						ovl[i] = o
						return
					}
				}
			}(i)
		}
		close(start)
		wg.Wait()
		return hx.L(hx.L(seq...), hx.L(ovl...))
	})
}

func execAudit(x hx.Sx) (string, bool) {
	a := x.Args()
	switch x.Head() {
	case "hold":
		return holdObs(a), true
	case "overlap":
		return overlapObs(a), true
	case "redec":
		texts := make([]string, 0, len(a)-1)
		for _, t := range a[1:] {
			texts = append(texts, t.Str())
		}
		return redecObs(a[0].Atom, texts), true
	case "e2e-many":
		return e2eManyObs(a), true
	case "time-rtz", "ical-rtz":
		return guard(func() string { return readHeld(encodeHeld(x)) }), true
	case "time-e2ez":
		return guard(func() string {
			fs := &stubFS{stat: &webdav.FileInfo{Path: "/f", Size: 0, ModTime: time.Unix(a[0].Int(), 0).In(zoneByName(a[1].Str()))}}
			h := &webdav.Handler{FileSystem: fs}
			c, err := webdav.NewClient(inProc{h}, "http://example.org/")
			if err != nil {
				return obsErr()
			}
			fi, err := c.Stat(context.Background(), "/f")
			if err != nil {
				return obsErr()
			}
			return timeObs(fi.ModTime, nil)
		}), true
	}
	return "", false
}

// ---------------------------------------------------------------- generators

var namedZones = []string{"Local", "UTC", "Europe/Berlin", "Europe/London", "Europe/Dublin", "America/New_York", "America/St_Johns", "America/Sao_Paulo",
	"Australia/Lord_Howe", "Australia/Adelaide", "Pacific/Apia", "Pacific/Chatham", "Pacific/Kiritimati", "Asia/Kathmandu", "Asia/Kolkata", "Asia/Tehran",
	"Africa/Casablanca", "Antarctica/Troll", "Etc/GMT+12", "Etc/GMT-14"}

// zoneChanges finds the instants between lo and hi at which the zone's offset changes.
func zoneChanges(loc *time.Location, lo, hi int64) []int64 {
	off := func(t int64) int { _, o := time.Unix(t, 0).In(loc).Zone(); return o }
	var out []int64
	const step = 7 * 86400
	for t := lo; t+step <= hi; t += step {
		if off(t) != off(t+step) {
			a, b := t, t+step
			for b-a > 1 {
				m := a + (b-a)/2
				if off(m) == off(a) {
					a = m
				} else {
					b = m
				}
			}
			out = append(out, b)
		}
	}
	return out
}

func zoneInstants(r *hx.Rand, name string, thorough bool) []int64 {
	loc := zoneByName(name)
	var out []int64
	lo, hi := ux(2009, 1, 1, 0, 0, 0), ux(2026, 1, 1, 0, 0, 0)
	if thorough {
		lo = ux(1880, 1, 1, 0, 0, 0)
	}
	for _, t := range zoneChanges(loc, lo, hi) {
		out = append(out, t-3600, t-1, t, t+1, t+3599, t+3600)
	}
	// local mean time (offsets with seconds), the years 1 and 9999, and random instants
	out = append(out, ux(1850, 6, 1, 12, 0, 0), ux(1, 1, 2, 0, 0, 0), maxSecs-86400, 0, 1136214245)
	n := 6
	if thorough {
		n = 200
	}
	for i := 0; i < n; i++ {
		out = append(out, randInstant(r))
	}
	return out
}

func genZones(emit func(string), r *hx.Rand, thorough bool) {
	for _, z := range namedZones {
		for i, t := range zoneInstants(r, z, thorough) {
			emit(hx.L("time-rtz", hx.I(t), hx.S(z)))
			emit(hx.L("ical-rtz", hx.I(t), hx.S(z)))
			if i%3 == 0 || thorough {
				emit(hx.L("time-e2ez", hx.I(t), hx.S(z)))
			}
		}
	}
}

// long texts around the buffer sizes of the code and its libraries
func sizes(thorough bool) []int {
	s := []int{63, 64, 65, 255, 256, 511, 512, 513, 1023, 1024, 1025, 4095, 4096, 4097}
	if thorough {
		s = append(s, 8191, 8192, 8193, 32767, 32768, 32769, 65535, 65536, 65537)
	} else {
		s = append(s, 32768)
	}
	return s
}

func fill(pattern string, n int) string {
	if pattern == "" {
		pattern = "a"
	}
	return strings.Repeat(pattern, n/len(pattern)+1)[:n]
}

// an rt case of every primitive, drawn at random
func randRT(r *hx.Rand, kind int) string {
	offs := []int64{0, 3600, -18000, 19800, 45900, -34200, 50400}
	switch kind % 7 {
	case 0:
		return hx.L("depth-rt", hx.I([]int64{0, 1, -1}[r.Intn(3)]))
	case 1:
		return hx.L("ow-rt", hx.B(r.Bool()))
	case 2:
		return hx.L("status-rt", hx.I(int64(100+r.Intn(900))), hx.S(r.Pick([]string{"", "OK", "a b  c", randBytes(r, 10), "Multi-Status", " x "})))
	case 3:
		return hx.L("time-rt", hx.I(randInstant(r)), hx.I(offs[r.Intn(len(offs))]))
	case 4:
		return hx.L("ical-rt", hx.I(randInstant(r)), hx.I(offs[r.Intn(len(offs))]))
	case 5:
		tag := randTag(r, 8)
		return hx.L("etag-rt", hx.S(tag), printableHi(tag))
	default:
		return hx.L("href-rt", hx.S("/"+r.Pick(segPool)+"/"+randBytes(r, 6)))
	}
}

func genSeq(emit func(string), r *hx.Rand, thorough bool) {
	mult := 1
	if thorough {
		mult = 12
	}
	// (a) results kept across later encodings, per primitive: pairs a,b / b,a, and runs of 3 and 5
	for kind := 0; kind < 7; kind++ {
		for i := 0; i < 40*mult; i++ {
			a, b := randRT(r, kind), randRT(r, kind)
			emit(hx.L("hold", a, b))
			emit(hx.L("hold", b, a))
			if i%4 == 0 {
				emit(hx.L("hold", a, b, randRT(r, kind)))
				emit(hx.L("hold", a, b, randRT(r, kind), randRT(r, kind), a))
			}
		}
	}
	// fixed pairs: the two texts have the same length (one buffer fits both) / different lengths
	emit(hx.L("hold", hx.L("time-rt", "0", "0"), hx.L("time-rt", "1", "0")))
	emit(hx.L("hold", hx.L("time-rt", "1718454600", "7200"), hx.L("time-rt", "1713837598", "-3600"), hx.L("time-rt", "1", "0")))
	emit(hx.L("hold", hx.L("ical-rt", "0", "0"), hx.L("ical-rt", "1", "0")))
	emit(hx.L("hold", hx.L("status-rt", "200", hx.S("OK")), hx.L("status-rt", "404", hx.S("Not Found")), hx.L("status-rt", "207", hx.S(""))))
	emit(hx.L("hold", hx.L("etag-rt", hx.S("abc"), "()"), hx.L("etag-rt", hx.S("xyz"), "()"), hx.L("etag-rt", hx.S("a\"b\\c-longer"), "()")))
	emit(hx.L("hold", hx.L("href-rt", hx.S("/a/b")), hx.L("href-rt", hx.S("/c d")), hx.L("href-rt", hx.S("/caf\xc3\xa9/x?y"))))
	emit(hx.L("hold", hx.L("depth-rt", "0"), hx.L("depth-rt", "1"), hx.L("depth-rt", "-1"), hx.L("depth-rt", "7"), hx.L("ow-rt", "1"), hx.L("ow-rt", "0")))
	// (b) across primitives (a buffer shared by several encoders)
	for i := 0; i < 150*mult; i++ {
		n := 2 + r.Intn(5)
		cs := make([]string, n)
		for j := range cs {
			cs[j] = randRT(r, r.Intn(7))
		}
		emit(hx.L(append([]string{"hold"}, cs...)...))
	}
	// (c) overlapping: 4..8 goroutines, each with its own list, per primitive and mixed
	for i := 0; i < 12*mult; i++ {
		g := 4 + r.Intn(5)
		lists := make([]string, g)
		for j := range lists {
			n := 2 + r.Intn(3)
			cs := make([]string, n)
			for k := range cs {
				if i%2 == 0 {
					cs[k] = randRT(r, i/2) // one primitive
				} else {
					cs[k] = randRT(r, r.Intn(7))
				}
			}
			lists[j] = hx.L(cs...)
		}
		emit(hx.L(append([]string{"overlap"}, lists...)...))
	}
	// (d) one receiver decoded into several times
	statusTexts := []string{"HTTP/1.1 200 OK", "", "HTTP/1.1 404 Not Found", "HTTP/1.1 207 ", "bad", "HTTP/1.0 500 a b  c", "HTTP/1.1 99 x", "HTTP/2.0 299 \xff"}
	timeTexts := []string{"Mon, 02 Jan 2006 15:04:05 GMT", "Sunday, 06-Nov-94 08:49:37 GMT", "Sun Nov  6 08:49:37 1994", "", "garbage", "Mon, 02 Jan 2006 15:04:05.5 GMT", "Thu, 01 Jan 1970 00:00:00 GMT"}
	etagTexts := []string{"\"abc\"", "\"\"", "\"a\\\"b\"", "abc", "", "\"\\u00e9\"", "\"long-long-long-long-long\"", "\"x\"", "\"\xff\""}
	hrefTexts := []string{"/a/b", "/c%20d?q=1#f", "", "/", "http://h/p?x", "/%zz", "//u@h:1/p", "mailto:a@b", "/a#frag", "*", "/x"}
	for _, set := range []struct {
		prim  string
		texts []string
	}{{"status", statusTexts}, {"time", timeTexts}, {"etag", etagTexts}, {"href", hrefTexts}} {
		for _, x := range set.texts {
			for _, y := range set.texts {
				emit(hx.L("redec", set.prim, hx.S(x), hx.S(y)))
			}
		}
		for i := 0; i < 60*mult; i++ {
			n := 3 + r.Intn(3)
			items := []string{"redec", set.prim}
			for j := 0; j < n; j++ {
				items = append(items, hx.S(r.Pick(set.texts)))
			}
			emit(hx.L(items...))
		}
	}
	// (e) one handler, one client: several resources in turn, then all at once
	for i := 0; i < 25*mult; i++ {
		n := 2 + r.Intn(7)
		items := make([]string, n)
		for j := range items {
			t := randInstant(r)
			if t == -62135596800 {
				t++
			}
			tag := "t" + randTag(r, 6)
			items[j] = hx.L(hx.I(t), hx.I([]int64{0, 7200, -16200, 20700}[r.Intn(4)]), hx.S("/"+r.Pick([]string{"a", "b c", "caf\xc3\xa9", "x?y", "50%", "#1"})+"/"+randBytes(r, 5)), hx.S(tag), printableHi(tag))
		}
		emit(hx.L(append([]string{"e2e-many"}, items...)...))
	}
	// (f) texts around buffer sizes, encoders and decoders, directly and end to end
	for _, n := range sizes(thorough) {
		for _, pat := range []string{"a", "ab\"\\", "caf\xc3\xa9 ", "\xff\x00/%?#"} {
			tag := fill(pat, n)
			emit(hx.L("etag-rt", hx.S(tag), printableHi(tag)))
			emit(hx.L("etag-dec", hx.S("\""+fill("a\\n", n)+"\"")))
			emit(hx.L("etag-dec", hx.S("\""+tag)))
			emit(hx.L("status-rt", "207", hx.S(tag)))
			emit(hx.L("status-dec", hx.S("HTTP/1.1 207 "+tag)))
			emit(hx.L("status-dec", hx.S(tag)))
			emit(hx.L("href-rt", hx.S("/"+tag)))
			emit(hx.L("href-dec", hx.S("/"+fill("a%20", n))))
			emit(hx.L("href-dec", hx.S("/"+tag)))
			emit(hx.L("time-dec", hx.S("Mon, 02 Jan 2006 15:04:05 GMT"+tag)))
			emit(hx.L("time-dec", hx.S(tag)))
			emit(hx.L("ical-dec", hx.S("20060102T150405Z"+tag)))
			emit(hx.L("depth-dec", hx.S(tag)))
			emit(hx.L("depth-dec", hx.S("infinity"+tag)))
			emit(hx.L("ow-dec", hx.S("T"+tag)))
			if n <= 8193 || pat == "a" {
				emit(hx.L("etag-e2e", hx.S(tag), printableHi(tag)))
				emit(hx.L("href-e2e", hx.S("/"+tag)))
				emit(hx.L("status-e2e", "207", hx.S(fill("cafe <&>\"' ", n))))
			}
			emit(hx.L("hold", hx.L("etag-rt", hx.S(tag), printableHi(tag)), hx.L("etag-rt", hx.S("x"), "()"), hx.L("href-rt", hx.S("/"+tag)), hx.L("href-rt", hx.S("/y")), hx.L("status-rt", "200", hx.S(tag))))
		}
		// many siblings: a path of n/2 segments
		emit(hx.L("href-rt", hx.S(fill("/a", n))))
		emit(hx.L("href-e2e", hx.S(fill("/a", n))))
		emit(hx.L("status-dec", hx.S("HTTP/1.1 "+fill("2", n)+" x")))
		emit(hx.L("status-dec", hx.S("HTTP/"+fill("1", n)+".1 200 x")))
		emit(hx.L("ical-dec", hx.S(fill("2", n))))
	}
	// (g) header spellings of Depth and Overwrite: other letter case, blanks, lists, numbers
	for _, s := range []string{"Infinity", "INFINITY", "infinitY", " infinity", "infinity ", "\tinfinity", "0 ", " 0", "00", "+0", "-0", "01", "+1", "1,0", "0, 1", "1 1", "infinity,infinity", "0;q=1", "1\r\n"} {
		emit(hx.L("depth-dec", hx.S(s)))
	}
	for _, s := range []string{"t", "f", " T", "T ", "\tF", "T,F", "T, T", "F F", "True", "FALSE", "T;q=1", "T\r\n"} {
		emit(hx.L("ow-dec", hx.S(s)))
	}
}

// genDateLocal runs with time.Local = Europe/Berlin (see main): instants in the process
// zone and in named zones, and texts whose reading does not depend on the process zone.
func genDateLocal(emit func(string), r *hx.Rand, thorough bool) {
	genZones(emit, r, thorough)
	var offs []int64
	for o := int64(-12 * 3600); o <= 14*3600; o += 3600 {
		offs = append(offs, o)
	}
	n := 1500
	if thorough {
		n = 40000
	}
	for i := 0; i < n; i++ {
		t := randInstant(r)
		emit(hx.L("time-rtz", hx.I(t), hx.S("Local")))
		emit(hx.L("ical-rtz", hx.I(t), hx.S("Local")))
		emit(hx.L("time-rt", hx.I(t), hx.I(offs[r.Intn(len(offs))])))
		emit(hx.L("ical-rt", hx.I(t), hx.I(offs[r.Intn(len(offs))])))
		if i%10 == 0 {
			emit(hx.L("time-e2ez", hx.I(t), hx.S("Local")))
			emit(hx.L("hold", hx.L("time-rtz", hx.I(t), hx.S("Local")), hx.L("ical-rtz", hx.I(randInstant(r)), hx.S("Europe/Berlin")), hx.L("time-rt", hx.I(randInstant(r)), "3600")))
		}
	}
	// decoders: the texts of the grammar (their zone is the literal GMT / Z) and their neighbours
	var valid, ical []string
	sample := []int64{0, 1136214245, ux(2024, 3, 31, 0, 59, 59), ux(2024, 3, 31, 1, 0, 0), ux(2024, 10, 27, 0, 59, 59), ux(2024, 10, 27, 1, 0, 0), ux(2024, 7, 1, 12, 0, 0), minSecs, maxSecs}
	for i := 0; i < 20; i++ {
		sample = append(sample, randInstant(r))
	}
	for _, t := range sample {
		u := time.Unix(t, 0).UTC()
		valid = append(valid, u.Format("Mon, 02 Jan 2006 15:04:05 GMT"), u.Format(time.ANSIC))
		if u.Year() >= 1969 && u.Year() <= 2068 {
			valid = append(valid, u.Format("Monday, 02-Jan-06 15:04:05 GMT"))
		}
		ical = append(ical, u.Format("20060102T150405Z"))
	}
	for i, v := range valid {
		emit(hx.L("time-dec", hx.S(v)))
		if i < 9 || thorough {
			for _, m := range nearMisses(v, []byte("0139 ,:-.\x00")) {
				emit(hx.L("time-dec", hx.S(m)))
			}
		}
	}
	for i, v := range ical {
		emit(hx.L("ical-dec", hx.S(v)))
		if i < 6 || thorough {
			for _, m := range nearMisses(v, []byte("0129TZtz .,:+-\x00")) {
				emit(hx.L("ical-dec", hx.S(m)))
			}
		}
	}
}
