// Command c16 runs the wire-primitive codecs of go-webdav (Depth, Overwrite,
// status line, HTTP date, iCalendar UTC date-time, entity tag, href) on
// enumerated and generated values and texts and records what they did.
//
// One case per line: "<input> <observation>".  Inputs (strings are hex atoms):
//
//	(depth-rt <int>)            ((ok <text>)|(panic)  (ok <int>)|(err)|(panic)|(skip))   Depth.String then ParseDepth
//	(depth-dec <text>)          (ok <int>)|(err)|(panic)                                   ParseDepth
//	(ow-rt <0|1>)               (<text> (ok <0|1>)|(err)|(panic))                          FormatOverwrite then ParseOverwrite
//	(ow-dec <text>)             (ok <0|1>)|(err)|(panic)
//	(copy-e2e <norec> <noow>)   (ok <norec> <noow>)|(err)    webdav.Client.Copy -> webdav.Handler -> FileSystem.Copy options
//	(status-rt <code> <text>)   (<text> (ok <code> <text>)|(err)|(panic))                  Status.MarshalText then UnmarshalText
//	(status-e2e <code> <text>)  same, through xml.Marshal / xml.Unmarshal of a real multistatus
//	(status-dec <text>)         (ok <code> <text>)|(err)|(panic)
//	(status-text <code>)        <text>                                                     http.StatusText
//
// Stages (-stage): small (Depth, Overwrite, status line), ... ; -replay re-executes
// the inputs of the given case lines whatever their stage.
package main

import (
	"context"
	"encoding/xml"
	"flag"
	"fmt"
	"io"
	"net/http"
	"net/http/httptest"
	"os"
	"runtime"
	"sync"
	"time"

	webdav "github.com/emersion/go-webdav"
	"github.com/emersion/go-webdav/verifhook"

	"verifharness/hx"
)

// ---------------------------------------------------------------- observations

func obsErr() string   { return "(err)" }
func obsPanic() string { return "(panic)" }

// guard runs f and turns a panic into the (panic) observation.
func guard(f func() string) (obs string) {
	defer func() {
		if r := recover(); r != nil {
			obs = obsPanic()
		}
	}()
	return f()
}

// ---------------------------------------------------------------- Depth / Overwrite

func depthFmt(d int64) (string, bool) {
	ok := true
	var s string
	func() {
		defer func() {
			if r := recover(); r != nil {
				ok = false
			}
		}()
		s = verifhook.Depth(d).String()
	}()
	return s, ok
}

func depthParseObs(s string) string {
	return guard(func() string {
		d, err := verifhook.ParseDepth(s)
		if err != nil {
			return obsErr()
		}
		return hx.L("ok", hx.I(int64(d)))
	})
}

func owParseObs(s string) string {
	return guard(func() string {
		b, err := verifhook.ParseOverwrite(s)
		if err != nil {
			return obsErr()
		}
		return hx.L("ok", hx.B(b))
	})
}

// stubFS records the options the server hands to the backend.
type stubFS struct {
	mu       sync.Mutex
	copyOpts *webdav.CopyOptions
	stat     *webdav.FileInfo
}

func (fs *stubFS) Open(ctx context.Context, name string) (io.ReadCloser, error) {
	return io.NopCloser(&emptyReader{}), nil
}
func (fs *stubFS) Stat(ctx context.Context, name string) (*webdav.FileInfo, error) {
	if fs.stat == nil {
		return nil, webdav.NewHTTPError(http.StatusNotFound, fmt.Errorf("not found"))
	}
	fi := *fs.stat
	return &fi, nil
}
func (fs *stubFS) ReadDir(ctx context.Context, name string, recursive bool) ([]webdav.FileInfo, error) {
	return nil, nil
}
func (fs *stubFS) Create(ctx context.Context, name string, body io.ReadCloser, opts *webdav.CreateOptions) (*webdav.FileInfo, bool, error) {
	return nil, false, fmt.Errorf("unsupported")
}
func (fs *stubFS) RemoveAll(ctx context.Context, name string, opts *webdav.RemoveAllOptions) error {
	return fmt.Errorf("unsupported")
}
func (fs *stubFS) Mkdir(ctx context.Context, name string) error { return fmt.Errorf("unsupported") }
func (fs *stubFS) Copy(ctx context.Context, name, dest string, options *webdav.CopyOptions) (bool, error) {
	fs.mu.Lock()
	o := *options
	fs.copyOpts = &o
	fs.mu.Unlock()
	return true, nil
}
func (fs *stubFS) Move(ctx context.Context, name, dest string, options *webdav.MoveOptions) (bool, error) {
	return false, fmt.Errorf("unsupported")
}

type emptyReader struct{}

func (*emptyReader) Read(p []byte) (int, error) { return 0, io.EOF }

// inProc is an HTTPClient that serves requests with a handler in this process.
type inProc struct{ h http.Handler }

func (c inProc) Do(req *http.Request) (*http.Response, error) {
	rec := httptest.NewRecorder()
	c.h.ServeHTTP(rec, req)
	return rec.Result(), nil
}

func copyE2E(norec, noow bool) string {
	return guard(func() string {
		fs := &stubFS{}
		h := &webdav.Handler{FileSystem: fs}
		c, err := webdav.NewClient(inProc{h}, "http://example.org/")
		if err != nil {
			return obsErr()
		}
		if err := c.Copy(context.Background(), "/a", "/b", &webdav.CopyOptions{NoRecursive: norec, NoOverwrite: noow}); err != nil {
			return obsErr()
		}
		if fs.copyOpts == nil {
			return obsErr()
		}
		return hx.L("ok", hx.B(fs.copyOpts.NoRecursive), hx.B(fs.copyOpts.NoOverwrite))
	})
}

// ---------------------------------------------------------------- status line

func statusObs(st *verifhook.Status, err error) string {
	if err != nil {
		return obsErr()
	}
	return hx.L("ok", hx.I(int64(st.Code)), hx.S(st.Text))
}

func statusUnmarshalObs(text string) string {
	return guard(func() string {
		var st verifhook.Status
		err := st.UnmarshalText([]byte(text))
		return statusObs(&st, err)
	})
}

func statusRT(code int64, text string) string {
	return guard(func() string {
		st := verifhook.Status{Code: int(code), Text: text}
		b, err := st.MarshalText()
		if err != nil {
			return obsErr()
		}
		return hx.L(hx.S(string(b)), statusUnmarshalObs(string(b)))
	})
}

// statusE2E sends the status through the XML of a real multistatus body.
func statusE2E(code int64, text string) string {
	return guard(func() string {
		st := verifhook.Status{Code: int(code), Text: text}
		want, _ := st.MarshalText()
		ms := verifhook.NewMultiStatus(verifhook.Response{
			Hrefs:  []verifhook.Href{{Path: "/x"}},
			Status: &st,
		})
		body, err := xml.Marshal(ms)
		if err != nil {
			return obsErr()
		}
		var back verifhook.MultiStatus
		if err := xml.Unmarshal(body, &back); err != nil {
			return hx.L(hx.S(string(want)), obsErr())
		}
		if len(back.Responses) != 1 || back.Responses[0].Status == nil {
			return hx.L(hx.S(string(want)), obsErr())
		}
		return hx.L(hx.S(string(want)), statusObs(back.Responses[0].Status, nil))
	})
}

// ---------------------------------------------------------------- dispatch

func exec(in string) string {
	x := hx.MustParse(in)[0]
	a := x.Args()
	var obs string
	switch x.Head() {
	case "depth-rt":
		d := a[0].Int()
		s, ok := depthFmt(d)
		if !ok {
			obs = hx.L(obsPanic(), "(skip)")
		} else {
			obs = hx.L(hx.L("ok", hx.S(s)), depthParseObs(s))
		}
	case "depth-dec":
		obs = depthParseObs(a[0].Str())
	case "ow-rt":
		s := verifhook.FormatOverwrite(a[0].Bool())
		obs = hx.L(hx.S(s), owParseObs(s))
	case "ow-dec":
		obs = owParseObs(a[0].Str())
	case "copy-e2e":
		obs = copyE2E(a[0].Bool(), a[1].Bool())
	case "status-rt":
		obs = statusRT(a[0].Int(), a[1].Str())
	case "status-e2e":
		obs = statusE2E(a[0].Int(), a[1].Str())
	case "status-dec":
		obs = statusUnmarshalObs(a[0].Str())
	case "status-text":
		obs = hx.S(http.StatusText(int(a[0].Int())))
	default:
		panic("harness: unknown case " + in)
	}
	return in + " " + obs
}

// ---------------------------------------------------------------- generators

// interesting bytes for every text generator of this property
var biased = []byte("\"\\'`%?#;:/ .+-_~@&=,*()[]<>{}|^\t\n\r\x00\x01\x1f\x7f\x80\xbf\xc3\xa9\xe2\x82\xac\xf0\x9f\x98\x80\xff\xfe\xed\xa0\xc00123456789abcxyzABCTFZHPGMT")

func randBytes(r *hx.Rand, maxLen int) string {
	n := r.Intn(maxLen + 1)
	b := make([]byte, n)
	for i := range b {
		switch r.Intn(4) {
		case 0:
			b[i] = byte(r.Intn(256))
		default:
			b[i] = biased[r.Intn(len(biased))]
		}
	}
	return string(b)
}

// nearMisses returns every text one edit away from s: each byte deleted, each byte
// replaced by each of alts, each of alts inserted at each position.
func nearMisses(s string, alts []byte) []string {
	var out []string
	for i := 0; i < len(s); i++ {
		out = append(out, s[:i]+s[i+1:])
		for _, c := range alts {
			if c != s[i] {
				out = append(out, s[:i]+string([]byte{c})+s[i+1:])
			}
		}
	}
	for i := 0; i <= len(s); i++ {
		for _, c := range alts {
			out = append(out, s[:i]+string([]byte{c})+s[i:])
		}
	}
	return out
}

func genSmall(emit func(string), r *hx.Rand, thorough bool) {
	// Depth: the three values, every other small int, a few large ones
	for d := int64(-5); d <= 5; d++ {
		emit(hx.L("depth-rt", hx.I(d)))
	}
	for _, d := range []int64{1 << 31, -1 << 31, 1 << 40, 255, 256, -2} {
		emit(hx.L("depth-rt", hx.I(d)))
	}
	depthTexts := []string{"0", "1", "infinity", "", "2", "-1", "Infinity", "INFINITY", "infinite", "00", "01", "1 ", " 1", "0\n", "infinity,noroot", "+1", "1.0", "T", "F"}
	for _, v := range []string{"0", "1", "infinity"} {
		depthTexts = append(depthTexts, nearMisses(v, []byte("01 iIytT\x00"))...)
	}
	for _, s := range depthTexts {
		emit(hx.L("depth-dec", hx.S(s)))
		emit(hx.L("ow-dec", hx.S(s)))
	}
	// Overwrite
	emit(hx.L("ow-rt", "0"))
	emit(hx.L("ow-rt", "1"))
	owTexts := []string{"T", "F", "t", "f", "", "TT", "T ", " F", "true", "false", "1", "0", "Y", "N", "T\n", "\x00"}
	owTexts = append(owTexts, nearMisses("T", []byte("TFtf 01"))...)
	owTexts = append(owTexts, nearMisses("F", []byte("TFtf 01"))...)
	for _, s := range owTexts {
		emit(hx.L("ow-dec", hx.S(s)))
		emit(hx.L("depth-dec", hx.S(s)))
	}
	n := 300
	if thorough {
		n = 5000
	}
	for i := 0; i < n; i++ {
		s := randBytes(r, 9)
		emit(hx.L("depth-dec", hx.S(s)))
		emit(hx.L("ow-dec", hx.S(s)))
	}
	for _, a := range []string{"0", "1"} {
		for _, b := range []string{"0", "1"} {
			emit(hx.L("copy-e2e", a, b))
		}
	}

	// status line: every code 100..999 x phrases; codes outside; StatusText table
	phrases := []string{"", "OK", "a b  c", " lead", "trail ", "caf\xc3\xa9", "x\ny", "\xff\x00", "Multi-Status", "  ", "200", "HTTP/1.1 200 OK"}
	for c := int64(100); c <= 999; c++ {
		for _, p := range phrases {
			emit(hx.L("status-rt", hx.I(c), hx.S(p)))
		}
		emit(hx.L("status-rt", hx.I(c), hx.S(http.StatusText(int(c)))))
		emit(hx.L("status-rt", hx.I(c), hx.S(randBytes(r, 12))))
		for _, p := range []string{"", "OK", "a b  c", " lead", "caf\xc3\xa9", "<&>\"'", "x\ty"} {
			emit(hx.L("status-e2e", hx.I(c), hx.S(p)))
		}
	}
	for c := int64(-20); c < 1200; c++ {
		emit(hx.L("status-text", hx.I(c)))
		if c < 100 || c > 999 {
			emit(hx.L("status-rt", hx.I(c), hx.S("x")))
			emit(hx.L("status-rt", hx.I(c), hx.S("")))
		}
	}
	for _, c := range []int64{1 << 31, -1 << 31, 1<<62 - 1, -(1<<62 - 1), 10000, 99999} {
		emit(hx.L("status-rt", hx.I(c), hx.S("big")))
	}
	statusTexts := []string{"", "FOO +200 x", "HTTP/1.1 -5 x", "HTTP/1.1 +200 OK", "HTTP/1.1 0200 OK", "HTTP/1.1 99999 x", "HTTP/1.1 200", "HTTP/1.1 200 ",
		"HTTP/1.1  200 OK", " HTTP/1.1 200 OK", "HTTP/2 200 OK", "HTTP/2.0 200 OK", "HTTP/1.0 404 Not Found", "HTTP/9.9 000 ", "http/1.1 200 OK",
		"HTTP/1.1 2x0 OK", "HTTP/1.1 200\tOK", "HTTP/1.1\t200 OK", "HTTP/1.1 200 OK\n", "HTTP/1.1 200 a b c", "HTTP/11 200 OK", "HTTP/1.10 200 OK",
		"HTTP/+.1 200 OK", "HTTP/1.1 20 OK", "HTTP/1.1 2 00 OK", "HTTP/1.1 ２００ OK", "200 OK", "HTTP/1.1", " ", "  ", "   ", "a b c"}
	for _, v := range []string{"HTTP/1.1 207 Multi-Status", "HTTP/1.0 404 ", "HTTP/2.0 100 x"} {
		statusTexts = append(statusTexts, nearMisses(v, []byte(" 0159+-./HTPx\x00\n\xff"))...)
	}
	for _, s := range statusTexts {
		emit(hx.L("status-dec", hx.S(s)))
	}
	n = 3000
	if thorough {
		n = 100000
	}
	heads := []string{"HTTP/1.1 ", "HTTP/1.0 ", "HTTP/", "HTTP/1.1", "", "FOO "}
	for i := 0; i < n; i++ {
		var s string
		switch r.Intn(3) {
		case 0: // mostly valid
			s = r.Pick(heads) + fmt.Sprintf("%d", r.Intn(1100)) + r.Pick([]string{" ", "", "  "}) + randBytes(r, 6)
		case 1:
			s = r.Pick(heads) + randBytes(r, 8)
		default:
			s = randBytes(r, 20)
		}
		emit(hx.L("status-dec", hx.S(s)))
	}
}

// ---------------------------------------------------------------- main

func main() {
	out := flag.String("out", "", "output file")
	replay := flag.String("replay", "", "file of case lines to re-run (inputs are re-executed)")
	stage := flag.String("stage", "small", "which primitives to exercise")
	flag.Parse()
	time.Local = time.UTC // zone abbreviations are looked up in time.Local; keep the run independent of TZ
	sink := hx.NewSink(*out)
	defer sink.Close()

	if *replay != "" {
		for _, l := range hx.ReadLines(*replay) {
			items := hx.MustParse(l)
			sink.Put(exec(items[0].String()))
		}
		return
	}

	inputs := make(chan string, 4096)
	var wg sync.WaitGroup
	for w := 0; w < runtime.NumCPU(); w++ {
		wg.Add(1)
		go func() {
			defer wg.Done()
			for in := range inputs {
				sink.Put(exec(in))
			}
		}()
	}
	seen := map[string]bool{}
	emit := func(s string) {
		if !seen[s] {
			seen[s] = true
			inputs <- s
		}
	}
	rng := hx.NewRand(hx.Seed())
	thorough := hx.Tier() == "thorough"
	switch *stage {
	case "small":
		genSmall(emit, rng, thorough)
	default:
		fmt.Fprintln(os.Stderr, "c16: unknown stage", *stage)
		os.Exit(2)
	}
	close(inputs)
	wg.Wait()
	fmt.Fprintf(os.Stderr, "c16 %s: %d cases\n", *stage, sink.N)
}
