// Command c16 runs the wire-primitive codecs of go-webdav (Depth, Overwrite,
// status line, HTTP date, iCalendar UTC date-time, entity tag, href) on
// enumerated and generated values and texts and records what they did.
//
// One case per line: "<input> <observation>".  Inputs (strings are hex atoms):
//
//	(depth-rt <int>)            ((ok <text>)|(panic)  (ok <int>)|(err)|(panic)|(skip))   Depth.String then ParseDepth
//	(depth-dec <text>)          (ok <int>)|(err)|(panic)                                   ParseDepth
//	(ow-rt <0|1>)               (<text> (ok <0|1>)|(err)|(panic))                          FormatOverwrite then ParseOverwrite
//	(ow-dec <text>)             (ok <0|1>)|(err)|(panic)
//	(copy-e2e <norec> <noow>)   (ok <norec> <noow>)|(err)    webdav.Client.Copy -> webdav.Handler -> FileSystem.Copy options
//	(status-rt <code> <text>)   (<text> (ok <code> <text>)|(err)|(panic))                  Status.MarshalText then UnmarshalText
//	(status-e2e <code> <text>)  same, through xml.Marshal / xml.Unmarshal of a real multistatus
//	(status-dec <text>)         (ok <code> <text>)|(err)|(panic)
//	(status-text <code>)        <text>                                                     http.StatusText
//
//	(civil <secs>)              (<y> <m> <d> <h> <mi> <s> <weekday>)                        time.Unix(secs,0).UTC() fields
//	(time-rt <secs> <off>)      (<text> (ok <secs> <nsec>)|(err)|(panic))                  internal.Time Marshal/UnmarshalText, instant given in zone off
//	(time-dec <text>)           (ok <secs> <nsec>)|(err)|(panic)
//	(ical-rt <secs> <off>)      likewise for caldav.dateWithUTCTime
//	(ical-dec <text>)
//
//	(etag-rt <bytes> (<rune>...))   (<text> (ok <bytes>)|(err)|(panic))    ETag.String then ETag.UnmarshalText; the runes are those
//	                                                                        above U+00FF in <bytes> that strconv.IsPrint calls printable
//	(etag-e2e <bytes> (<rune>...))  ((ok <bytes>)|(err)|(none) ...)          the tag through the ETag header of a real HEAD response
//	                                                                        (read with ConditionalMatch.ETag) and through a real PROPFIND (Client.Stat)
//	(etag-dec <text>)               (ok <bytes>)|(err)|(panic)              ETag.UnmarshalText
//	(unquote-dec <text>)            (ok <bytes>)|(err)                      strconv.Unquote itself
//	(utf8 <bytes>)                  ((<rune> <width>)...)                   utf8.DecodeRuneInString along the string
//	(utf8-enc <rune>)               <bytes>                                 utf8.AppendRune
//
//	(href-rt <path>)                (<text> <hobs>)        Href{Path: p}.MarshalText then Href.UnmarshalText
//	(href-e2e <path>)               (<hobs> (ok <path>)|(err))  the href through xml.Marshal/Unmarshal of a real multistatus, and
//	                                                        FileInfo.Path through a real PROPFIND (Client.Stat)
//	(href-dec <text>)               <hobs>                 Href.UnmarshalText
//	(href-restr <text>)             (err)|(ok <text> <hobs>)   UnmarshalText, then String of the result, then UnmarshalText of that
//	  <hobs> = (ok <user?> <host> <scheme> <opaque> <path> <rawpath> <omithost> <forcequery> <rawquery> <fragment> <rawfragment>)|(err)|(panic)
//	(time-e2e <secs> <off>)         (ok <secs> <nsec>)|(err)   FileInfo.ModTime through a real PROPFIND (Client.Stat)
//
// Stages (-stage): small (Depth, Overwrite, status line), ... ; -replay re-executes
// the inputs of the given case lines whatever their stage.
package main

import (
	"context"
	"encoding/xml"
	"flag"
	"fmt"
	"io"
	"net/http"
	"net/http/httptest"
	"net/url"
	"os"
	"runtime"
	"strconv"
	"sync"
	"time"
	"unicode/utf8"

	webdav "github.com/emersion/go-webdav"
	"github.com/emersion/go-webdav/caldav"
	"github.com/emersion/go-webdav/verifhook"

	"verifharness/hx"
)

// ---------------------------------------------------------------- observations

func obsErr() string   { return "(err)" }
func obsPanic() string { return "(panic)" }

// guard runs f and turns a panic into the (panic) observation.
func guard(f func() string) (obs string) {
	defer func() {
		if r := recover(); r != nil {
			obs = obsPanic()
		}
	}()
	return f()
}

// ---------------------------------------------------------------- Depth / Overwrite

func depthFmt(d int64) (string, bool) {
	ok := true
	var s string
	func() {
		defer func() {
			if r := recover(); r != nil {
				ok = false
			}
		}()
		s = verifhook.Depth(d).String()
	}()
	return s, ok
}

func depthParseObs(s string) string {
	return guard(func() string {
		d, err := verifhook.ParseDepth(s)
		if err != nil {
			return obsErr()
		}
		return hx.L("ok", hx.I(int64(d)))
	})
}

func owParseObs(s string) string {
	return guard(func() string {
		b, err := verifhook.ParseOverwrite(s)
		if err != nil {
			return obsErr()
		}
		return hx.L("ok", hx.B(b))
	})
}

// stubFS records the options the server hands to the backend.
type stubFS struct {
	mu       sync.Mutex
	copyOpts *webdav.CopyOptions
	stat     *webdav.FileInfo
}

func (fs *stubFS) Open(ctx context.Context, name string) (io.ReadCloser, error) {
	return io.NopCloser(&emptyReader{}), nil
}
func (fs *stubFS) Stat(ctx context.Context, name string) (*webdav.FileInfo, error) {
	if fs.stat == nil {
		return nil, webdav.NewHTTPError(http.StatusNotFound, fmt.Errorf("not found"))
	}
	fi := *fs.stat
	return &fi, nil
}
func (fs *stubFS) ReadDir(ctx context.Context, name string, recursive bool) ([]webdav.FileInfo, error) {
	return nil, nil
}
func (fs *stubFS) Create(ctx context.Context, name string, body io.ReadCloser, opts *webdav.CreateOptions) (*webdav.FileInfo, bool, error) {
	return nil, false, fmt.Errorf("unsupported")
}
func (fs *stubFS) RemoveAll(ctx context.Context, name string, opts *webdav.RemoveAllOptions) error {
	return fmt.Errorf("unsupported")
}
func (fs *stubFS) Mkdir(ctx context.Context, name string) error { return fmt.Errorf("unsupported") }
func (fs *stubFS) Copy(ctx context.Context, name, dest string, options *webdav.CopyOptions) (bool, error) {
	fs.mu.Lock()
	o := *options
	fs.copyOpts = &o
	fs.mu.Unlock()
	return true, nil
}
func (fs *stubFS) Move(ctx context.Context, name, dest string, options *webdav.MoveOptions) (bool, error) {
	return false, fmt.Errorf("unsupported")
}

type emptyReader struct{}

func (*emptyReader) Read(p []byte) (int, error) { return 0, io.EOF }

// inProc is an HTTPClient that serves requests with a handler in this process.
type inProc struct{ h http.Handler }

func (c inProc) Do(req *http.Request) (*http.Response, error) {
	rec := httptest.NewRecorder()
	c.h.ServeHTTP(rec, req)
	return rec.Result(), nil
}

func copyE2E(norec, noow bool) string {
	return guard(func() string {
		fs := &stubFS{}
		h := &webdav.Handler{FileSystem: fs}
		c, err := webdav.NewClient(inProc{h}, "http://example.org/")
		if err != nil {
			return obsErr()
		}
		if err := c.Copy(context.Background(), "/a", "/b", &webdav.CopyOptions{NoRecursive: norec, NoOverwrite: noow}); err != nil {
			return obsErr()
		}
		if fs.copyOpts == nil {
			return obsErr()
		}
		return hx.L("ok", hx.B(fs.copyOpts.NoRecursive), hx.B(fs.copyOpts.NoOverwrite))
	})
}

// ---------------------------------------------------------------- status line

func statusObs(st *verifhook.Status, err error) string {
	if err != nil {
		return obsErr()
	}
	return hx.L("ok", hx.I(int64(st.Code)), hx.S(st.Text))
}

func statusUnmarshalObs(text string) string {
	return guard(func() string {
		var st verifhook.Status
		b := []byte(text)
		err := st.UnmarshalText(b)
		if bad := argCheck(b, text); bad != "" {
			return bad
		}
		return statusObs(&st, err)
	})
}

func statusRT(code int64, text string) string {
	return guard(func() string {
		st := verifhook.Status{Code: int(code), Text: text}
		b, err := st.MarshalText()
		if err != nil {
			return obsErr()
		}
		if st.Code != int(code) || st.Text != text {
			return "(modified-receiver)"
		}
		return hx.L(hx.S(string(b)), statusUnmarshalObs(string(b)))
	})
}

// statusE2E sends the status through the XML of a real multistatus body.
func statusE2E(code int64, text string) string {
	return guard(func() string {
		st := verifhook.Status{Code: int(code), Text: text}
		want, _ := st.MarshalText()
		ms := verifhook.NewMultiStatus(verifhook.Response{
			Hrefs:  []verifhook.Href{{Path: "/x"}},
			Status: &st,
		})
		body, err := xml.Marshal(ms)
		if err != nil {
			return obsErr()
		}
		var back verifhook.MultiStatus
		if err := xml.Unmarshal(body, &back); err != nil {
			return hx.L(hx.S(string(want)), obsErr())
		}
		if len(back.Responses) != 1 || back.Responses[0].Status == nil {
			return hx.L(hx.S(string(want)), obsErr())
		}
		return hx.L(hx.S(string(want)), statusObs(back.Responses[0].Status, nil))
	})
}

// ---------------------------------------------------------------- instants

func timeObs(t time.Time, err error) string {
	if err != nil {
		return obsErr()
	}
	return hx.L("ok", hx.I(t.Unix()), hx.I(int64(t.Nanosecond())))
}

func inZone(secs, off int64) time.Time {
	return time.Unix(secs, 0).In(time.FixedZone("", int(off)))
}

func timeDecObs(text string) string {
	return guard(func() string {
		var t verifhook.Time
		b := []byte(text)
		err := t.UnmarshalText(b)
		if bad := argCheck(b, text); bad != "" {
			return bad
		}
		return timeObs(time.Time(t), err)
	})
}

func timeRT(secs, off int64) string {
	return guard(func() string {
		orig := inZone(secs, off)
		t := verifhook.Time(orig)
		b, err := t.MarshalText()
		if err != nil {
			return obsErr()
		}
		if time.Time(t) != orig {
			return "(modified-receiver)"
		}
		return hx.L(hx.S(string(b)), timeDecObs(string(b)))
	})
}

func icalDecObs(text string) string {
	return guard(func() string {
		b := []byte(text)
		t, err := caldav.VerifUnmarshalDateWithUTCTime(b)
		if bad := argCheck(b, text); bad != "" {
			return bad
		}
		return timeObs(t, err)
	})
}

func icalRT(secs, off int64) string {
	return guard(func() string {
		b, err := caldav.VerifMarshalDateWithUTCTime(inZone(secs, off))
		if err != nil {
			return obsErr()
		}
		return hx.L(hx.S(string(b)), icalDecObs(string(b)))
	})
}

func civilObs(secs int64) string {
	t := time.Unix(secs, 0).UTC()
	return hx.L(hx.I(int64(t.Year())), hx.I(int64(t.Month())), hx.I(int64(t.Day())), hx.I(int64(t.Hour())),
		hx.I(int64(t.Minute())), hx.I(int64(t.Second())), hx.I(int64(t.Weekday())))
}

// ---------------------------------------------------------------- entity tags

func strObs(s string, err error) string {
	if err != nil {
		return obsErr()
	}
	return hx.L("ok", hx.S(s))
}

func etagDecObs(text string) string {
	return guard(func() string {
		var e verifhook.ETag
		b := []byte(text)
		err := e.UnmarshalText(b)
		if bad := argCheck(b, text); bad != "" {
			return bad
		}
		return strObs(string(e), err)
	})
}

func etagRT(tag string) string {
	return guard(func() string {
		b, err := verifhook.ETag(tag).MarshalText()
		if err != nil {
			return obsErr()
		}
		if verifhook.ETag(tag).String() != string(b) {
			return obsErr()
		}
		return hx.L(hx.S(string(b)), etagDecObs(string(b)))
	})
}

// printableHi lists the runes above U+00FF of s that strconv.IsPrint accepts: the
// part of the IsPrint table the model takes as a parameter.
func printableHi(s string) string {
	seen := map[rune]bool{}
	var items []string
	for i := 0; i < len(s); {
		r, w := utf8.DecodeRuneInString(s[i:])
		i += w
		if r > 0xFF && !(r == utf8.RuneError && w == 1) && strconv.IsPrint(r) && !seen[r] {
			seen[r] = true
			items = append(items, hx.I(int64(r)))
		}
	}
	return hx.L(items...)
}

func etagE2E(tag string) string {
	hdr := guard(func() string {
		fs := &stubFS{stat: &webdav.FileInfo{Path: "/f", Size: 0, ETag: tag, ModTime: time.Unix(0, 0)}}
		h := &webdav.Handler{FileSystem: fs}
		req := httptest.NewRequest("HEAD", "/f", nil)
		rec := httptest.NewRecorder()
		h.ServeHTTP(rec, req)
		v, ok := rec.Result().Header["Etag"]
		if !ok || len(v) != 1 {
			return "(none)"
		}
		got, err := webdav.ConditionalMatch(v[0]).ETag()
		return strObs(got, err)
	})
	viaXML := guard(func() string {
		fs := &stubFS{stat: &webdav.FileInfo{Path: "/f", Size: 0, ETag: tag, ModTime: time.Unix(0, 0)}}
		h := &webdav.Handler{FileSystem: fs}
		c, err := webdav.NewClient(inProc{h}, "http://example.org/")
		if err != nil {
			return obsErr()
		}
		fi, err := c.Stat(context.Background(), "/f")
		if err != nil {
			return obsErr()
		}
		return strObs(fi.ETag, nil)
	})
	return hx.L(hdr, viaXML)
}

func utf8Obs(s string) string {
	var items []string
	for i := 0; i < len(s); {
		r, w := utf8.DecodeRuneInString(s[i:])
		items = append(items, hx.L(hx.I(int64(r)), hx.I(int64(w))))
		i += w
	}
	return hx.L(items...)
}

// ---------------------------------------------------------------- hrefs

func hrefObsOf(h *verifhook.Href) string {
	u := (*url.URL)(h)
	return hx.L("ok", hx.B(u.User != nil), hx.S(u.Host), hx.S(u.Scheme), hx.S(u.Opaque), hx.S(u.Path), hx.S(u.RawPath),
		hx.B(u.OmitHost), hx.B(u.ForceQuery), hx.S(u.RawQuery), hx.S(u.Fragment), hx.S(u.RawFragment))
}

func hrefDecObs(text string) string {
	return guard(func() string {
		var h verifhook.Href
		b := []byte(text)
		err := h.UnmarshalText(b)
		if bad := argCheck(b, text); bad != "" {
			return bad
		}
		if err != nil {
			return obsErr()
		}
		return hrefObsOf(&h)
	})
}

func hrefRT(p string) string {
	return guard(func() string {
		h := verifhook.Href{Path: p}
		b, err := h.MarshalText()
		if err != nil {
			return obsErr()
		}
		if h.String() != string(b) {
			return obsErr()
		}
		if h != (verifhook.Href{Path: p}) {
			return "(modified-receiver)"
		}
		return hx.L(hx.S(string(b)), hrefDecObs(string(b)))
	})
}

func hrefRestr(text string) string {
	return guard(func() string {
		var h verifhook.Href
		if err := h.UnmarshalText([]byte(text)); err != nil {
			return obsErr()
		}
		s := h.String()
		return hx.L("ok", hx.S(s), hrefDecObs(s))
	})
}

func hrefE2E(p string) string {
	viaXML := guard(func() string {
		ms := verifhook.NewMultiStatus(verifhook.Response{Hrefs: []verifhook.Href{{Path: p}}})
		body, err := xml.Marshal(ms)
		if err != nil {
			return obsErr()
		}
		var back verifhook.MultiStatus
		if err := xml.Unmarshal(body, &back); err != nil {
			return obsErr()
		}
		if len(back.Responses) != 1 || len(back.Responses[0].Hrefs) != 1 {
			return obsErr()
		}
		return hrefObsOf(&back.Responses[0].Hrefs[0])
	})
	viaStat := guard(func() string {
		fs := &stubFS{stat: &webdav.FileInfo{Path: p, Size: 0, ModTime: time.Unix(0, 0)}}
		h := &webdav.Handler{FileSystem: fs}
		c, err := webdav.NewClient(inProc{h}, "http://example.org/")
		if err != nil {
			return obsErr()
		}
		fi, err := c.Stat(context.Background(), "/f")
		if err != nil {
			return obsErr()
		}
		return strObs(fi.Path, nil)
	})
	return hx.L(viaXML, viaStat)
}

func timeE2E(secs, off int64) string {
	return guard(func() string {
		fs := &stubFS{stat: &webdav.FileInfo{Path: "/f", Size: 0, ModTime: inZone(secs, off)}}
		h := &webdav.Handler{FileSystem: fs}
		c, err := webdav.NewClient(inProc{h}, "http://example.org/")
		if err != nil {
			return obsErr()
		}
		fi, err := c.Stat(context.Background(), "/f")
		if err != nil {
			return obsErr()
		}
		return timeObs(fi.ModTime, nil)
	})
}

// ---------------------------------------------------------------- dispatch

// safeExec: nothing the harness calls may kill it; a panic that escapes the guards of a
// case is the observation of that case.
func safeExec(in string) (line string) {
	defer func() {
		if r := recover(); r != nil {
			line = in + " " + obsPanic()
		}
	}()
	return exec(in)
}

func exec(in string) string {
	x := hx.MustParse(in)[0]
	a := x.Args()
	var obs string
	switch x.Head() {
	case "depth-rt":
		d := a[0].Int()
		s, ok := depthFmt(d)
		if !ok {
			obs = hx.L(obsPanic(), "(skip)")
		} else {
			obs = hx.L(hx.L("ok", hx.S(s)), depthParseObs(s))
		}
	case "depth-dec":
		obs = depthParseObs(a[0].Str())
	case "ow-rt":
		obs = guard(func() string {
			s := verifhook.FormatOverwrite(a[0].Bool())
			return hx.L(hx.S(s), owParseObs(s))
		})
	case "ow-dec":
		obs = owParseObs(a[0].Str())
	case "copy-e2e":
		obs = copyE2E(a[0].Bool(), a[1].Bool())
	case "status-rt":
		obs = statusRT(a[0].Int(), a[1].Str())
	case "status-e2e":
		obs = statusE2E(a[0].Int(), a[1].Str())
	case "status-dec":
		obs = statusUnmarshalObs(a[0].Str())
	case "status-text":
		obs = hx.S(http.StatusText(int(a[0].Int())))
	case "civil":
		obs = civilObs(a[0].Int())
	case "time-rt":
		obs = timeRT(a[0].Int(), a[1].Int())
	case "time-dec":
		obs = timeDecObs(a[0].Str())
	case "ical-rt":
		obs = icalRT(a[0].Int(), a[1].Int())
	case "ical-dec":
		obs = icalDecObs(a[0].Str())
	case "etag-rt":
		obs = etagRT(a[0].Str())
	case "etag-e2e":
		obs = etagE2E(a[0].Str())
	case "etag-dec":
		obs = etagDecObs(a[0].Str())
	case "unquote-dec":
		u, err := strconv.Unquote(a[0].Str())
		obs = strObs(u, err)
	case "utf8":
		obs = utf8Obs(a[0].Str())
	case "href-rt":
		obs = hrefRT(a[0].Str())
	case "href-e2e":
		obs = hrefE2E(a[0].Str())
	case "href-dec":
		obs = hrefDecObs(a[0].Str())
	case "href-restr":
		obs = hrefRestr(a[0].Str())
	case "time-e2e":
		obs = timeE2E(a[0].Int(), a[1].Int())
	case "utf8-enc":
		obs = hx.S(string(utf8.AppendRune(nil, rune(a[0].Int()))))
	default:
		var ok bool
		if obs, ok = execAudit(x); !ok {
			panic("harness: unknown case " + in)
		}
	}
	return in + " " + obs
}

// ---------------------------------------------------------------- generators

// interesting bytes for every text generator of this property
var biased = []byte("\"\\'`%?#;:/ .+-_~@&=,*()[]<>{}|^\t\n\r\x00\x01\x1f\x7f\x80\xbf\xc3\xa9\xe2\x82\xac\xf0\x9f\x98\x80\xff\xfe\xed\xa0\xc00123456789abcxyzABCTFZHPGMT")

func randBytes(r *hx.Rand, maxLen int) string {
	n := r.Intn(maxLen + 1)
	b := make([]byte, n)
	for i := range b {
		switch r.Intn(4) {
		case 0:
			b[i] = byte(r.Intn(256))
		default:
			b[i] = biased[r.Intn(len(biased))]
		}
	}
	return string(b)
}

// nearMisses returns every text one edit away from s: each byte deleted, each byte
// replaced by each of alts, each of alts inserted at each position.
func nearMisses(s string, alts []byte) []string {
	var out []string
	for i := 0; i < len(s); i++ {
		out = append(out, s[:i]+s[i+1:])
		for _, c := range alts {
			if c != s[i] {
				out = append(out, s[:i]+string([]byte{c})+s[i+1:])
			}
		}
	}
	for i := 0; i <= len(s); i++ {
		for _, c := range alts {
			out = append(out, s[:i]+string([]byte{c})+s[i:])
		}
	}
	return out
}

func genSmall(emit func(string), r *hx.Rand, thorough bool) {
	// Depth: the three values, every other small int, a few large ones
	for d := int64(-5); d <= 5; d++ {
		emit(hx.L("depth-rt", hx.I(d)))
	}
	for _, d := range []int64{1 << 31, -1 << 31, 1 << 40, 255, 256, -2} {
		emit(hx.L("depth-rt", hx.I(d)))
	}
	depthTexts := []string{"0", "1", "infinity", "", "2", "-1", "Infinity", "INFINITY", "infinite", "00", "01", "1 ", " 1", "0\n", "infinity,noroot", "+1", "1.0", "T", "F"}
	for _, v := range []string{"0", "1", "infinity"} {
		depthTexts = append(depthTexts, nearMisses(v, []byte("01 iIytT\x00"))...)
	}
	for _, s := range depthTexts {
		emit(hx.L("depth-dec", hx.S(s)))
		emit(hx.L("ow-dec", hx.S(s)))
	}
	// every ASCII-case spelling of the literals (the decoder may read or refuse them, not read anything else)
	for m := 0; m < 256; m++ {
		b := []byte("infinity")
		for i := range b {
			if m&(1<<i) != 0 {
				b[i] -= 32
			}
		}
		emit(hx.L("depth-dec", hx.S(string(b))))
		emit(hx.L("ow-dec", hx.S(string(b))))
	}
	for _, s := range []string{"t", "f", "T", "F", "\xd4", "\x54\x00", "\u0131nfinity", "\u0130nfinity", "infin\u0131ty", "\u017f", "\u212a"} {
		emit(hx.L("depth-dec", hx.S(s)))
		emit(hx.L("ow-dec", hx.S(s)))
	}
	// Overwrite
	emit(hx.L("ow-rt", "0"))
	emit(hx.L("ow-rt", "1"))
	owTexts := []string{"T", "F", "t", "f", "", "TT", "T ", " F", "true", "false", "1", "0", "Y", "N", "T\n", "\x00"}
	owTexts = append(owTexts, nearMisses("T", []byte("TFtf 01"))...)
	owTexts = append(owTexts, nearMisses("F", []byte("TFtf 01"))...)
	for _, s := range owTexts {
		emit(hx.L("ow-dec", hx.S(s)))
		emit(hx.L("depth-dec", hx.S(s)))
	}
	n := 300
	if thorough {
		n = 5000
	}
	for i := 0; i < n; i++ {
		s := randBytes(r, 9)
		emit(hx.L("depth-dec", hx.S(s)))
		emit(hx.L("ow-dec", hx.S(s)))
	}
	for _, a := range []string{"0", "1"} {
		for _, b := range []string{"0", "1"} {
			emit(hx.L("copy-e2e", a, b))
		}
	}

	// status line: every code 100..999 x phrases; codes outside; StatusText table
	phrases := []string{"", "OK", "a b  c", " lead", "trail ", "caf\xc3\xa9", "x\ny", "\xff\x00", "Multi-Status", "  ", "200", "HTTP/1.1 200 OK"}
	for c := int64(100); c <= 999; c++ {
		for _, p := range phrases {
			emit(hx.L("status-rt", hx.I(c), hx.S(p)))
		}
		emit(hx.L("status-rt", hx.I(c), hx.S(http.StatusText(int(c)))))
		emit(hx.L("status-rt", hx.I(c), hx.S(randBytes(r, 12))))
		for _, p := range []string{"", "OK", "a b  c", " lead", "caf\xc3\xa9", "<&>\"'", "x\ty"} {
			emit(hx.L("status-e2e", hx.I(c), hx.S(p)))
		}
	}
	for c := int64(-20); c < 1200; c++ {
		emit(hx.L("status-text", hx.I(c)))
		if c < 100 || c > 999 {
			emit(hx.L("status-rt", hx.I(c), hx.S("x")))
			emit(hx.L("status-rt", hx.I(c), hx.S("")))
		}
	}
	for _, c := range []int64{1 << 31, -1 << 31, 1<<62 - 1, -(1<<62 - 1), 10000, 99999} {
		emit(hx.L("status-rt", hx.I(c), hx.S("big")))
	}
	statusTexts := []string{"", "FOO +200 x", "HTTP/1.1 -5 x", "HTTP/1.1 +200 OK", "HTTP/1.1 0200 OK", "HTTP/1.1 99999 x", "HTTP/1.1 200", "HTTP/1.1 200 ",
		"HTTP/1.1  200 OK", " HTTP/1.1 200 OK", "HTTP/2 200 OK", "HTTP/2.0 200 OK", "HTTP/1.0 404 Not Found", "HTTP/9.9 000 ", "http/1.1 200 OK",
		"HTTP/1.1 2x0 OK", "HTTP/1.1 200\tOK", "HTTP/1.1\t200 OK", "HTTP/1.1 200 OK\n", "HTTP/1.1 200 a b c", "HTTP/11 200 OK", "HTTP/1.10 200 OK",
		"HTTP/+.1 200 OK", "HTTP/1.1 20 OK", "HTTP/1.1 2 00 OK", "HTTP/1.1 ２００ OK", "200 OK", "HTTP/1.1", " ", "  ", "   ", "a b c"}
	for _, v := range []string{"HTTP/1.1 207 Multi-Status", "HTTP/1.0 404 ", "HTTP/2.0 100 x"} {
		statusTexts = append(statusTexts, nearMisses(v, []byte(" 0159+-./HTPx\x00\n\xff"))...)
	}
	for _, s := range statusTexts {
		emit(hx.L("status-dec", hx.S(s)))
	}
	// status-lines of the grammar whose code is outside the round-trip domain (000..099): the decoder
	// may read them or refuse them, but not read anything else
	for c := 0; c < 100; c++ {
		for _, f := range []string{"HTTP/1.1 %03d x", "HTTP/1.0 %03d ", "HTTP/2.0 %03d a b  c"} {
			emit(hx.L("status-dec", hx.S(fmt.Sprintf(f, c))))
		}
	}
	n = 3000
	if thorough {
		n = 100000
	}
	heads := []string{"HTTP/1.1 ", "HTTP/1.0 ", "HTTP/", "HTTP/1.1", "", "FOO "}
	for i := 0; i < n; i++ {
		var s string
		switch r.Intn(3) {
		case 0: // mostly valid
			s = r.Pick(heads) + fmt.Sprintf("%d", r.Intn(1100)) + r.Pick([]string{" ", "", "  "}) + randBytes(r, 6)
		case 1:
			s = r.Pick(heads) + randBytes(r, 8)
		default:
			s = randBytes(r, 20)
		}
		emit(hx.L("status-dec", hx.S(s)))
	}
}

// unix seconds of a UTC civil time
func ux(y int, m time.Month, d, h, mi, s int) int64 {
	return time.Date(y, m, d, h, mi, s, 0, time.UTC).Unix()
}

const (
	minSecs = -62167219200 // 0000-01-01T00:00:00Z
	maxSecs = 253402300799 // 9999-12-31T23:59:59Z
)

func boundaryInstants() []int64 {
	var out []int64
	add := func(t int64) { out = append(out, t-1, t, t+1) }
	add(minSecs)
	add(maxSecs)
	add(0)
	add(1 << 31)
	add(-(1 << 31))
	add(1 << 32)
	add(ux(1, 1, 1, 0, 0, 0))
	add(-62135596800)
	for _, y := range []int{0, 1, 4, 99, 100, 101, 399, 400, 401, 1000, 1582, 1600, 1699, 1700, 1900, 1969, 1970, 1999, 2000, 2001, 2004, 2023, 2024, 2038, 2068, 2069, 2100, 2400, 4000, 8000, 9600, 9996, 9999} {
		add(ux(y, 1, 1, 0, 0, 0))
		add(ux(y, 3, 1, 0, 0, 0))  // the second before is Feb 28 or 29
		add(ux(y, 2, 28, 12, 0, 0))
		add(ux(y, 12, 31, 23, 59, 59))
		for m := time.Month(1); m <= 12; m++ {
			out = append(out, ux(y, m, 1, 0, 0, 0), ux(y, m, 15, 9, 8, 7))
		}
	}
	return out
}

func randInstant(r *hx.Rand) int64 {
	return minSecs + int64(r.U64()%uint64(maxSecs-minSecs+1))
}

func genDate(emit func(string), r *hx.Rand, thorough bool) {
	var offs []int64
	for o := int64(-12 * 3600); o <= 14*3600; o += 900 {
		offs = append(offs, o)
	}
	bs := boundaryInstants()
	for _, t := range bs {
		emit(hx.L("civil", hx.I(t)))
		for _, o := range offs {
			if !thorough && r.Intn(6) != 0 {
				continue
			}
			emit(hx.L("time-rt", hx.I(t), hx.I(o)))
			emit(hx.L("ical-rt", hx.I(t), hx.I(o)))
			if r.Intn(4) == 0 {
				emit(hx.L("time-e2e", hx.I(t), hx.I(o)))
			}
		}
	}
	n := 12000
	if thorough {
		n = 400000
	}
	for i := 0; i < n; i++ {
		t := randInstant(r)
		o := offs[r.Intn(len(offs))]
		if r.Intn(8) == 0 {
			o = int64(r.Intn(26*3600+1)) - 12*3600 // any second offset
		}
		emit(hx.L("civil", hx.I(t)))
		emit(hx.L("time-rt", hx.I(t), hx.I(o)))
		emit(hx.L("ical-rt", hx.I(t), hx.I(o)))
		if i%8 == 0 {
			emit(hx.L("time-e2e", hx.I(t), hx.I(o)))
		}
	}
	// outside the domain of the property (years < 0 or > 9999): model agreement only
	for i := 0; i < n/20; i++ {
		var t int64
		if r.Bool() {
			t = maxSecs + 1 + int64(r.U64()%uint64(1<<40))
		} else {
			t = minSecs - 1 - int64(r.U64()%uint64(1<<40))
		}
		emit(hx.L("civil", hx.I(t)))
		emit(hx.L("time-rt", hx.I(t), hx.I(offs[r.Intn(len(offs))])))
		emit(hx.L("ical-rt", hx.I(t), hx.I(offs[r.Intn(len(offs))])))
	}

	// decoders: valid texts of every accepted form, their one-edit neighbours, hand-made leniencies, random texts
	httpValid := []string{}
	icalValid := []string{}
	sample := []int64{0, 1136214245, ux(2024, 2, 29, 23, 59, 59), ux(1999, 12, 31, 0, 0, 0), ux(2068, 6, 9, 4, 5, 6), ux(1969, 7, 20, 20, 17, 40), minSecs, maxSecs, ux(2000, 3, 1, 7, 0, 9)}
	for i := 0; i < 12; i++ {
		sample = append(sample, randInstant(r))
	}
	for _, t := range sample {
		u := time.Unix(t, 0).UTC()
		httpValid = append(httpValid, u.Format(http.TimeFormat))
		if u.Year() >= 1969 && u.Year() <= 2068 {
			httpValid = append(httpValid, u.Format(time.RFC850))
			httpValid = append(httpValid, u.Format("Monday, 02-Jan-06 15:04:05 GMT"))
		}
		httpValid = append(httpValid, u.Format(time.ANSIC))
		icalValid = append(icalValid, u.Format("20060102T150405Z"))
	}
	lenient := []string{"Mon, 02 Jan 2006 5:04:05 GMT", "mon, 02 jan 2006 15:04:05 GMT", "MON, 02 JAN 2006 15:04:05 GMT", "Tue, 02 Jan 2006 15:04:05 GMT",
		"Mon, 02 Jan 2006 15:04:05.5 GMT", "Mon, 02 Jan 2006 15:04:05,123456789123 GMT", "Mon,   02 Jan 2006 15:04:05 GMT", "Mon, 02 Jan 2006 15:04:05  GMT",
		"Monday, 02-Jan-06 15:04:05 PST", "Monday, 02-Jan-+5 15:04:05 GMT", "Monday, 02-Jan--5 15:04:05 GMT", "Monday, 02-Jan-06 15:04:05 GMT+3", "Monday, 02-Jan-06 15:04:05 GMT+24",
		"Monday, 02-Jan-06 15:04:05 GMT-", "Monday, 02-Jan-06 15:04:05 +03", "Monday, 02-Jan-06 15:04:05 -2", "Monday, 02-Jan-06 15:04:05 +", "Monday, 02-Jan-06 15:04:05 UTC",
		"Monday, 02-Jan-06 15:04:05 ChST", "Monday, 02-Jan-06 15:04:05 MeST", "Monday, 02-Jan-06 15:04:05 ABCDT", "Monday, 02-Jan-06 15:04:05 ABCD", "Monday, 02-Jan-06 15:04:05 WITA",
		"Monday, 02-Jan-06 15:04:05 ABCDEF", "Monday, 02-Jan-06 15:04:05 AB", "Monday, 02-Jan-06 15:04:05 ABCDE", "Monday, 02-Jan-06 15:04:05 UTCx", "Monday, 02-Jan-06 15:04:05 GMT ",
		"Mon Jan 2 15:04:05 2006", "Mon Jan  2 15:04:05 2006", "Mon Jan 02 15:04:05 2006", "Mon Jan   2 15:04:05 2006", "Mon  Jan  2 15:04:05 2006", "Mon Jan  2 15:04:05 2006 ",
		"Mon, 31 Feb 2006 15:04:05 GMT", "Mon, 29 Feb 2023 15:04:05 GMT", "Mon, 29 Feb 2024 15:04:05 GMT", "Mon, 00 Jan 2006 15:04:05 GMT", "Mon, 32 Jan 2006 15:04:05 GMT",
		"Mon, 02 Jan 2006 15:04:60 GMT", "Mon, 02 Jan 2006 24:00:00 GMT", "Mon, 02 Jan 2006 23:60:00 GMT", "Mon, 02 Jan 2006 15:04:05 GMT ", "Mon, 02 Jan 2006 15:04:05GMT",
		"Mon, 02 Jan 2006 15:04:05 gmt", "Mon, 02 Jan 2006 15:04:05 UTC", "Mon, 02 Jan 2006 15:04:05", "Mon, 2 Jan 2006 15:04:05 GMT", "Mon, 02 Jan 06 15:04:05 GMT",
		"Mon, 02 Jan 0000 00:00:00 GMT", "Mon, 02 Jan 9999 23:59:59 GMT", "Mon, 02 Jan 10000 00:00:00 GMT", "Monday, 02 Jan 2006 15:04:05 GMT", "Mon, 02-Jan-2006 15:04:05 GMT",
		"Mond, 02 Jan 2006 15:04:05 GMT", "Sunday, 06-Nov-94 08:49:37 GMT", "Sun, 06 Nov 1994 08:49:37 GMT", "Sun Nov  6 08:49:37 1994", "", " ", "GMT", "0", "Mon",
		"Mon, 02 Jan 2006 15:04:05. GMT", "Mon, 02 Jan 2006 15:04:05.x GMT", "Mon, 02 Jan 2006 15:04:05.1234567891 GMT", "Mon, 02 Jan 2006 15:04:5 GMT", "Mon, 02 Jan 2006 15:4:05 GMT"}
	icalHand := []string{"20060102T150405Z", "20060102T150405.5Z", "20060102T150405,5Z", "20060102T90405Z", "20060102T240000Z", "20060230T000000Z", "00000101T000000Z",
		"20060102T150405z", "20060102T150405", "+0060102T150405Z", "20060102t150405Z", "20060102T150460Z", "20061302T150405Z", "20060002T150405Z", "20060100T150405Z",
		"20060132T150405Z", "20240229T000000Z", "20230229T000000Z", "99991231T235959Z", "2006 102T150405Z", "20060102T1504 5Z", "20060102 150405Z", "2006-01-02T15:04:05Z",
		"20060102T150405ZZ", " 20060102T150405Z", "20060102T150405Z ", "", "Z", "20060102", "20060102T1504Z", "20060102T15.5405Z", "2006010T2150405Z", "20060102T15040.Z", "20060102T1504.5Z",
		"200601021T50405Z", "２0060102T150405Z"}
	digitsEtc := []byte("0129TZtz .,:+-\x00")
	for _, v := range icalValid {
		emit(hx.L("ical-dec", hx.S(v)))
	}
	for _, v := range icalValid[:6] {
		for _, m := range nearMisses(v, digitsEtc) {
			emit(hx.L("ical-dec", hx.S(m)))
		}
	}
	for _, v := range append(icalHand, lenient...) {
		emit(hx.L("ical-dec", hx.S(v)))
	}
	httpAlts := []byte("0139 ,:-.GMTUtjJ+\x00")
	for _, v := range httpValid {
		emit(hx.L("time-dec", hx.S(v)))
	}
	for i, v := range httpValid {
		if i < 12 || thorough {
			for _, m := range nearMisses(v, httpAlts) {
				emit(hx.L("time-dec", hx.S(m)))
			}
		}
	}
	for _, v := range append(lenient, icalHand...) {
		emit(hx.L("time-dec", hx.S(v)))
	}
	// structured random texts: fields drawn independently, separators perturbed
	days := []string{"Mon", "Tue", "Sun", "mon", "Monday", "Saturday", "Wednesday", "Xyz", ""}
	months := []string{"Jan", "Feb", "Dec", "feb", "SEP", "Foo", "May"}
	zones := []string{"GMT", "UTC", "PST", "GMT+1", "+02", "CEST", "gmt", "", "Z"}
	num := func(max int, w int) string {
		v := r.Intn(max)
		switch r.Intn(12) {
		case 0:
			return fmt.Sprintf("%d", v)
		case 1:
			return fmt.Sprintf("%0*d", w+1, v)
		}
		return fmt.Sprintf("%0*d", w, v)
	}
	sp := func() string {
		switch r.Intn(15) {
		case 0:
			return ""
		case 1:
			return "  "
		}
		return " "
	}
	m := n / 2
	for i := 0; i < m; i++ {
		var s string
		switch r.Intn(4) {
		case 0:
			s = r.Pick(days) + "," + sp() + num(33, 2) + sp() + r.Pick(months) + sp() + num(10100, 4) + sp() + num(25, 2) + ":" + num(61, 2) + ":" + num(61, 2) + r.Pick([]string{"", "", "", ".5", ",25"}) + sp() + r.Pick(zones)
		case 1:
			s = r.Pick(days) + "," + sp() + num(33, 2) + "-" + r.Pick(months) + "-" + r.Pick([]string{num(100, 2), "+5", "-1"}) + sp() + num(25, 2) + ":" + num(61, 2) + ":" + num(61, 2) + sp() + r.Pick(zones)
		case 2:
			s = r.Pick(days) + sp() + r.Pick(months) + sp() + r.Pick([]string{num(33, 2), " " + num(10, 1), num(10, 1)}) + sp() + num(25, 2) + ":" + num(61, 2) + ":" + num(61, 2) + sp() + num(10100, 4)
		default:
			s = randBytes(r, 30)
		}
		emit(hx.L("time-dec", hx.S(s)))
		var c string
		switch r.Intn(3) {
		case 0:
			c = num(10100, 4) + num(14, 2) + num(33, 2) + r.Pick([]string{"T", "T", "T", "t", " "}) + num(25, 2) + num(61, 2) + num(61, 2) + r.Pick([]string{"Z", "Z", "Z", "", "z", ".5Z"})
		case 1:
			c = num(10100, 4) + num(13, 2) + num(29, 2) + "T" + num(24, 2) + num(60, 2) + num(60, 2) + "Z"
		default:
			c = randBytes(r, 18)
		}
		emit(hx.L("ical-dec", hx.S(c)))
	}
}

// runes of interest: printable and not, every UTF-8 length, edges of the ranges
var runePool = []rune{0, 1, 7, 8, 9, 10, 11, 12, 13, 0x1b, 0x1f, ' ', '!', '"', '#', '%', '\'', '/', ':', '?', '\\', '`', 'a', 'z', '~', 0x7f,
	0x80, 0x85, 0xa0, 0xa1, 0xad, 0xe9, 0xff, 0x100, 0x378, 0x7ff, 0x800, 0x200b, 0x2028, 0x20ac, 0xd7ff, 0xe000, 0xfeff, 0xfffd, 0xfffe, 0xffff,
	0x10000, 0x1f600, 0xe0001, 0xf0000, 0x10fffd, 0x10ffff}

// broken UTF-8: lone continuation, truncated sequences, overlong forms, surrogates, beyond U+10FFFF
var brokenUTF8 = []string{"\x80", "\xbf", "\xc0\x80", "\xc1\xbf", "\xc2", "\xc3", "\xe0\x80\x80", "\xe0\x9f\xbf", "\xe2\x82", "\xe2", "\xed\xa0\x80", "\xed\xbf\xbf",
	"\xf0\x80\x80\x80", "\xf0\x8f\xbf\xbf", "\xf0\x9f\x98", "\xf0\x9f", "\xf0", "\xf4\x90\x80\x80", "\xf5\x80\x80\x80", "\xf8\x88\x80\x80\x80", "\xfe", "\xff", "\xc3\x28", "\xe2\x28\xa1"}

func randTag(r *hx.Rand, maxRunes int) string {
	n := r.Intn(maxRunes + 1)
	var b []byte
	for i := 0; i < n; i++ {
		switch r.Intn(10) {
		case 0:
			b = append(b, brokenUTF8[r.Intn(len(brokenUTF8))]...)
		case 1:
			b = append(b, byte(r.Intn(256)))
		case 2:
			b = utf8.AppendRune(b, rune(r.Intn(0x110000)))
		case 3, 4:
			b = append(b, biased[r.Intn(len(biased))])
		default:
			b = utf8.AppendRune(b, runePool[r.Intn(len(runePool))])
		}
	}
	return string(b)
}

func genETag(emit func(string), r *hx.Rand, thorough bool) {
	rt := func(tag string) {
		emit(hx.L("etag-rt", hx.S(tag), printableHi(tag)))
		emit(hx.L("utf8", hx.S(tag)))
	}
	e2e := func(tag string) { emit(hx.L("etag-e2e", hx.S(tag), printableHi(tag))) }
	dec := func(text string) {
		emit(hx.L("etag-dec", hx.S(text)))
		emit(hx.L("unquote-dec", hx.S(text)))
	}
	// every single byte, every rune of the pool, every broken sequence, alone and between letters
	rt("")
	for b := 0; b < 256; b++ {
		rt(string([]byte{byte(b)}))
		rt("a" + string([]byte{byte(b)}) + "z")
		e2e("a" + string([]byte{byte(b)}) + "z")
	}
	for _, ru := range runePool {
		rt(string(ru))
		rt("x" + string(ru) + string(ru) + "\\")
		e2e(string(ru) + "-" + string(ru))
		emit(hx.L("utf8-enc", hx.I(int64(ru))))
	}
	for _, ru := range []int64{0xd800, 0xdbff, 0xdc00, 0xdfff, 0x110000, 0x7fffffff} {
		emit(hx.L("utf8-enc", hx.I(ru)))
	}
	for _, bs := range brokenUTF8 {
		rt(bs)
		rt("\"" + bs + "\\")
		e2e("t" + bs)
	}
	// every pair of interesting bytes
	inter := []byte("\"\\'`\n\r\t\x00\x7f a\x80\xbf\xc2\xc3\xe0\xed\xf0\xf4\xff")
	for _, x := range inter {
		for _, y := range inter {
			rt(string([]byte{x, y}))
		}
	}
	if thorough {
		for x := 0; x < 256; x++ {
			for y := 0; y < 256; y++ {
				rt(string([]byte{byte(x), byte(y)}))
			}
		}
	}
	n := 6000
	if thorough {
		n = 200000
	}
	var samples []string
	for i := 0; i < n; i++ {
		var tag string
		if r.Bool() {
			tag = randTag(r, 8)
		} else {
			tag = randBytes(r, 12)
		}
		rt(tag)
		if i%4 == 0 {
			e2e(tag)
		}
		if i < 40 {
			samples = append(samples, tag)
		}
	}
	for i := 0; i < n/20; i++ {
		emit(hx.L("utf8-enc", hx.I(int64(r.Intn(0x120000)))))
	}

	// decoders: every escape letter, the escape families, the three literal forms, near misses, random texts
	for c := 0; c < 256; c++ {
		ch := string([]byte{byte(c)})
		dec("\"\\" + ch + "\"")
		dec("\"\\" + ch + "41\"")
		dec("\"" + ch + "\"")
		dec("'" + ch + "'")
		dec("'\\" + ch + "'")
		dec("`" + ch + "`")
		dec(ch + "a" + ch)
		dec("\"a" + ch)
		dec(ch + "a\"")
	}
	hand := []string{"", "\"", "\"\"", "''", "``", "'", "`", "\"\"\"", "\"a\"b\"", "\"a\\\"b\"", "\"a\\\"", "\"\\\\\"", "\"\\", "W/\"a\"", "a", "\"a", "a\"",
		"\"\\x41\"", "\"\\x4\"", "\"\\x4g\"", "\"\\xFF\"", "\"\\xff\"", "\"\\u00e9\"", "\"\\u00E9\"", "\"\\ud800\"", "\"\\udfff\"", "\"\\ue000\"", "\"\\uffff\"", "\"\\u12\"",
		"\"\\U0001f600\"", "\"\\U0010ffff\"", "\"\\U00110000\"", "\"\\Uffffffff\"", "\"\\U80000000\"", "\"\\U0001f60\"", "\"\\000\"", "\"\\377\"", "\"\\400\"", "\"\\08\"", "\"\\0\"",
		"\"\\12\"", "\"\\1234\"", "\"\\'\"", "'\\\"'", "'\\''", "'\"'", "\"'\"", "'ab'", "'\\x41'", "'\\xff'", "'\\u00e9'", "'\xc3\xa9'", "'\xff'", "'\xc3'", "'\\377'", "'a'b'", "'a''",
		"`a\rb`", "`\r`", "`a\nb`", "`a\\nb`", "`a`b`", "`a\"b`", "`\xff`", "\"a\nb\"", "\"a\rb\"", "\"a\tb\"", "\"\xff\"", "\"\xc3\xa9\"", "\"\xc3\"", "\"a\xffb\\n\"", "\"\xed\xa0\x80\"",
		"\"a\" ", " \"a\"", "\"a\"\n", "\"\x00\"", "\"\x7f\"", "\"\\a\\b\\f\\n\\r\\t\\v\"", "\"\\e\"", "\"\\ \"", "\"\\\n\"", "\"abc\\", "\"abc\\\"", "\"\\u00e9\xff\""}
	for _, h := range hand {
		dec(h)
	}
	alts := []byte("\"\\'`\nx0u8a\xff\xc3")
	for _, tag := range append(samples, "abc", "a\"b", "caf\xc3\xa9", "\x00\xff", "\u200b\U0001f600") {
		q := strconv.Quote(tag)
		dec(q)
		for _, m := range nearMisses(q, alts) {
			dec(m)
		}
	}
	escapes := []string{"\\n", "\\x41", "\\xff", "\\u00e9", "\\ud800", "\\U0001f600", "\\101", "\\777", "\\\"", "\\'", "\\\\", "\\", "\\x", "\\u12", "\"", "'", "`", "\n", "\r", "a", "\xc3\xa9", "\xff", "\xe2\x82"}
	for i := 0; i < n; i++ {
		var body string
		k := r.Intn(5)
		for j := 0; j < k; j++ {
			if r.Bool() {
				body += r.Pick(escapes)
			} else {
				body += randTag(r, 2)
			}
		}
		q := r.Pick([]string{"\"", "\"", "\"", "'", "`", ""})
		q2 := q
		if r.Intn(10) == 0 {
			q2 = r.Pick([]string{"\"", "'", "`", ""})
		}
		dec(q + body + q2)
	}
}

// path segments of interest: characters that need escaping, that look like URL syntax, broken UTF-8
var segPool = []string{"a", "b c", "a%20b", "%", "%41", "%zz", "%2", "%2F", "%2f", "x?y", "x#y", "a:b", ":", ";v=1", "a,b", "a@b", "a&b=c", "+", "a+b", "$", "!", "'", "(x)", "*",
	"caf\xc3\xa9", "\xe2\x82\xac", "\xf0\x9f\x98\x80", "\xff", "\xc3", "\x80", " ", "  ", "\t", "\n", "\r\n", "\x00", "\x7f", "\x1f", "\"", "<", ">", "\\", "^", "`", "{", "|", "}", "[", "]", "~", "-", "_", ".",
	"..", "...", "", "http:", "http://h", "//", "?", "#", "&amp;", "<a>", "]]>", "%25", "%3F", "%23", "a=b", "A", "Z", "0", "9", "z"}

func randPath(r *hx.Rand) string {
	n := r.Intn(5)
	p := ""
	for i := 0; i < n; i++ {
		p += "/"
		switch r.Intn(6) {
		case 0:
			p += randBytes(r, 5)
		case 1:
			p += randTag(r, 3)
		default:
			p += r.Pick(segPool)
		}
	}
	switch r.Intn(12) {
	case 0:
		p += "/"
	case 1:
		if len(p) > 0 {
			p = p[1:] // relative: outside the domain
		}
	case 2:
		p = "/" + p // may start with "//": outside the domain
	}
	return p
}

func genHref(emit func(string), r *hx.Rand, thorough bool) {
	rt := func(p string) { emit(hx.L("href-rt", hx.S(p))) }
	e2e := func(p string) { emit(hx.L("href-e2e", hx.S(p))) }
	dec := func(t string) {
		emit(hx.L("href-dec", hx.S(t)))
		emit(hx.L("href-restr", hx.S(t)))
	}
	// round trip: every byte alone in a segment, at the start of the first segment, every pair of interesting bytes
	for b := 0; b < 256; b++ {
		c := string([]byte{byte(b)})
		rt("/" + c)
		rt("/a" + c + "z")
		rt("/a/" + c + "/")
		rt(c) // relative (outside the domain, except "/")
		rt("/" + c + c)
		e2e("/a" + c + "z") // XML cannot carry control characters; the escaped href can
	}
	inter := []byte("/%?#:;@ +\x00\n\x7f\x80\xc3\xa9\xffaZ09.~*")
	for _, x := range inter {
		for _, y := range inter {
			rt("/" + string([]byte{x, y}))
			rt(string([]byte{x, y}))
			rt("/p/" + string([]byte{x, y}) + "/q")
		}
	}
	for _, sg := range segPool {
		rt("/" + sg)
		rt("/" + sg + "/")
		rt("/x/" + sg)
		rt(sg)
		rt("//" + sg)
		e2e("/" + sg)
		e2e("/x/" + sg + "/y")
		for _, sg2 := range segPool {
			rt("/" + sg + "/" + sg2)
		}
	}
	for _, p := range []string{"", "/", "//", "///", "*", "/*", ".", "..", "/.", "/..", "/./a", "/a/../b", "a:b", "a:b/c", "a/b:c", "./a:b", "/a:b", "http://h/p", "//h/p", "/%2F", "/a%2Fb", "/a b/c d"} {
		rt(p)
		e2e(p)
	}
	n := 8000
	if thorough {
		n = 300000
	}
	for i := 0; i < n; i++ {
		p := randPath(r)
		rt(p)
		if i%4 == 0 {
			e2e(p)
		}
	}

	// decoders: what the encoder sends, its one-edit neighbours, hand-made texts of every branch of url.Parse, random texts
	hand := []string{"", "/", "//", "///", "////", "///a", "//h", "//h/", "//h/p", "//h:80/p", "//u@h/p", "//u:p@h/p", "//[::1]/p", "//[::1/p", "//h h/p", "//h%20/p", "//%zz/p", "//h/%zz",
		"//h?q", "//?q", "//#f", "//h#f", "/?", "/?q", "/??", "/?q?", "/a?", "/a?b=c&d", "/a?%zz", "/a? b", "/a#", "/a#f", "/a#%zz", "/a#%41", "/a#f#g", "/a#\n", "/a?\n", "/a\n", "\n", "\x7f", "/a\x00",
		"*", "*?q", "*#f", "**", "/*", "a", "a/b", "a/b:c", "a:b", "a:", ":", ":a", ":/", "a:/", "a:/b", "a://", "a:///", "a:///p", "a://h", "a://h/p", "a:/p?q#f", "a:b?q", "a:b#f", "a:?", "a:#",
		"HTTP://H/P", "hTtP:/x", "a+b-c.d:e", "1a:b", "+a:b", "a_b:c", "a b:c", "a/b:c", "a?b:c", "a#b:c", "./a:b", "../a:b", ".:", "%41:b", "a%3Ab", "é:b", "http:", "http:a b", "http:%zz", "mailto:a@b",
		"/%", "/%4", "/%41", "/%4g", "/%g1", "/%2f", "/%2F", "/%25", "/%00", "/%ff", "/%FF", "/a%20b", "/a b", "/a+b", "/caf\xc3\xa9", "/caf%C3%A9", "/caf%c3%a9", "/\xff", "/a\"b", "/a<b>", "/a\\b", "/a^b", "/a`b",
		"/a{b}", "/a|b", "/a[b]", "/a;b", "/a,b", "/a:b", "/a@b", "/a&b", "/a=b", "/a$b", "/a!b", "/a'b", "/a(b)", "/a*b", "/a~b", "/-._~", "/a//b", "/a/./b", "/a/../b", "/a/", "/a/b/",
		"/?#", "/#?", "#", "#f", "?", "?q", "?#", "a?", " ", " /a", "/a ", "/ ", "\t/a"}
	for _, t := range hand {
		dec(t)
	}
	alts := []byte("/%?#: a2G\x00\xff")
	var sample []string
	for i := 0; i < 30; i++ {
		sample = append(sample, randPath(r))
	}
	for _, p := range append(sample, "/a/b", "/a b/caf\xc3\xa9", "/x?y#z%", "/a:b/c") {
		t, ok := hrefText(p)
		if !ok {
			continue
		}
		dec(t)
		for _, m := range nearMisses(t, alts) {
			dec(m)
		}
	}
	pieces := []string{"/", "/", "/", "a", "b c", "%20", "%41", "%", "%4", "%zz", "?", "#", ":", "//", "h", "@", "http:", "é", "\xff", "\n", " ", "+", "*", ";", "=", "&", "[", "]", "."}
	for i := 0; i < n; i++ {
		var t string
		switch r.Intn(3) {
		case 0:
			k := r.Intn(7)
			for j := 0; j < k; j++ {
				t += r.Pick(pieces)
			}
		case 1:
			t, _ = hrefText(randPath(r))
			t += r.Pick([]string{"", "", "?q", "?", "#f", "?a=b#f", "#%zz", " "})
		default:
			t = randBytes(r, 12)
		}
		dec(t)
	}
}

// ---------------------------------------------------------------- main

func main() {
	out := flag.String("out", "", "output file")
	replay := flag.String("replay", "", "file of case lines to re-run (inputs are re-executed)")
	stage := flag.String("stage", "small", "which primitives to exercise")
	flag.Parse()
	time.Local = time.UTC // zone abbreviations are looked up in time.Local; keep the run independent of TZ
	if *stage == "datelocal" {
		// a process whose zone is not UTC (and has DST): time.Unix and os.Stat yield values in
		// this zone. Only texts whose reading does not depend on the process zone are decoded.
		if loc, err := time.LoadLocation("Europe/Berlin"); err == nil {
			time.Local = loc
		}
	}
	sink := hx.NewSink(*out)
	defer sink.Close()

	if *replay != "" {
		for _, l := range hx.ReadLines(*replay) {
			items := hx.MustParse(l)
			sink.Put(safeExec(items[0].String()))
		}
		return
	}

	inputs := make(chan string, 4096)
	var wg sync.WaitGroup
	for w := 0; w < runtime.NumCPU(); w++ {
		wg.Add(1)
		go func() {
			defer wg.Done()
			for in := range inputs {
				sink.Put(safeExec(in))
			}
		}()
	}
	seen := map[string]bool{}
	emit := func(s string) {
		if !seen[s] {
			seen[s] = true
			inputs <- s
		}
	}
	rng := hx.NewRand(hx.Seed())
	thorough := hx.Tier() == "thorough"
	switch *stage {
	case "small":
		genSmall(emit, rng, thorough)
	case "date":
		genDate(emit, rng, thorough)
	case "etag":
		genETag(emit, rng, thorough)
	case "href":
		genHref(emit, rng, thorough)
	case "seq":
		genSeq(emit, rng, thorough)
	case "datelocal":
		genDateLocal(emit, rng, thorough)
	default:
		fmt.Fprintln(os.Stderr, "c16: unknown stage", *stage)
		os.Exit(2)
	}
	close(inputs)
	wg.Wait()
	fmt.Fprintf(os.Stderr, "c16 %s: %d cases\n", *stage, sink.N)
}
