// Command dav explores the real webdav.Handler{LocalFileSystem} on real directories.
//
//	-stage universe   every (tree, request) pair of the bounded universe of C01
//	-stage history    seeded random request histories over larger trees and odd names
//	-stage paths      path.Clean / localPath against the model on all short strings
//	-stage traversal  traversal-shaped request targets and Destinations in a sandbox with canaries (C03)
//	-stage cond       the If-Match / If-None-Match table (C04)
//	-stage putfault   PUT bodies that break off after k bytes (C02)
//	-stage putsteps   the states an upload passes through, read by read of the body (C02, C01)
//
// Case line: (root ..) (tree <before>) (req ..) (drv ..) (obs ..) (after <after>)
package main

import (
	"bufio"
	"context"
	"flag"
	"fmt"
	"net/http"
	"net/url"
	"os"
	"os/exec"
	"os/signal"
	"path"
	"path/filepath"
	"runtime"
	"sort"
	"strings"
	"sync"
	"syscall"
	"time"

	webdav "github.com/emersion/go-webdav"

	"verifharness/davx"
	"verifharness/hx"
)

var scratch string

func workerDir(w int) string { return filepath.Join(scratch, fmt.Sprintf("w%d", w), "verif-sb-7f3a") }

// job: a sandbox tree and the requests to try on it, each from the same start state.
type job struct {
	tree  *davx.Node
	reqs  []davx.Req
	hist  bool   // requests form a history (state carries over)
	fresh bool   // rebuild the sandbox before every request
	spell string // how the served directory is written in the configuration ("" = clean)
}

func runJobs(jobs <-chan job, sink *hx.Sink, rootRel []string) {
	var wg sync.WaitGroup
	for w := 0; w < runtime.NumCPU(); w++ {
		wg.Add(1)
		go func(w int) {
			defer wg.Done()
			sb := davx.NewSandbox(workerDir(w), rootRel)
			for j := range jobs {
				if j.spell != sb.Spell {
					sb = davx.NewSandboxSpelled(workerDir(w), rootRel, j.spell)
				}
				if err := sb.Reset(j.tree); err != nil {
					fmt.Fprintln(os.Stderr, "dav: reset:", err)
					os.Exit(2)
				}
				before := davx.Snapshot(sb.Dir)
				for _, r := range j.reqs {
					d, o, after := sb.Do(r, before)
					sink.Put(davx.Line(sb, before, r, d, o, after))
					if j.hist {
						before = after
					} else if j.fresh || !after.SameShape(before) || (r.Method == "PUT" && o.Status < 300) {
						if err := sb.Reset(j.tree); err != nil {
							fmt.Fprintln(os.Stderr, "dav: reset:", err)
							os.Exit(2)
						}
						before = davx.Snapshot(sb.Dir)
					}
				}
			}
			os.RemoveAll(filepath.Dir(sb.Dir))
		}(w)
	}
	wg.Wait()
}

// ---- the bounded universe of C01

func memberChoices() []*davx.Node {
	leaf := []*davx.Node{nil, davx.File("x"), davx.File("y"), davx.Dir()}
	out := []*davx.Node{nil, davx.File("x"), davx.File("y")}
	for _, a := range leaf {
		for _, b := range leaf {
			d := davx.Dir()
			if a != nil {
				d.Put("a", a.Clone())
			}
			if b != nil {
				d.Put("b", b.Clone())
			}
			out = append(out, d)
		}
	}
	return out
}

func universeTrees() []*davx.Node {
	var out []*davx.Node
	ms := memberChoices()
	for _, a := range ms {
		for _, b := range ms {
			root := davx.Dir()
			if a != nil {
				root.Put("a", a.Clone())
			}
			if b != nil {
				root.Put("b", b.Clone())
			}
			out = append(out, davx.Dir("canary", davx.File("CANARY"), "root", root))
		}
	}
	// nothing mapped at the root
	out = append(out, davx.Dir("canary", davx.File("CANARY")))
	return out
}

var uPaths = []string{"/", "/a", "/b", "/a/a", "/a/b", "/b/a", "/b/b", "/a/a/a"}

func universeReqs(thorough bool) []davx.Req {
	var out []davx.Req
	pathsSl := append([]string{}, uPaths...)
	for _, p := range []string{"/a/", "/a/b/", "/b//a", "/a/./b", "/a/../b"} {
		pathsSl = append(pathsSl, p)
	}
	for _, m := range []string{"OPTIONS", "GET", "HEAD", "DELETE", "FOO"} {
		for _, p := range pathsSl {
			out = append(out, davx.NewReq(m, p))
		}
	}
	for _, p := range pathsSl {
		for _, b := range []string{"x", "y"} {
			r := davx.NewReq("PUT", p)
			r.Body = b
			out = append(out, r)
		}
		for _, ct := range []string{"", "text/plain"} {
			r := davx.NewReq("MKCOL", p)
			r.CType = ct
			out = append(out, r)
		}
	}
	depths := []string{"", "0", "1", "infinity", "2"}
	pfbs := []string{"none", "allprop", "propname", "empty", "bad", "junk"}
	for _, p := range pathsSl {
		for _, d := range depths {
			for _, b := range pfbs {
				if !thorough && b != "none" && d != "" && d != "1" {
					continue
				}
				r := davx.NewReq("PROPFIND", p)
				r.Depth = d
				r.PfBody = b
				out = append(out, r)
			}
		}
	}
	// PROPPATCH: understood, refused (403), or 400 for a body that is no propertyupdate document
	for _, p := range pathsSl {
		for _, b := range []string{"none", "pupdate", "allprop", "bad", "junk", "pupdate-noct"} {
			r := davx.NewReq("PROPPATCH", p)
			r.PfBody = b
			out = append(out, r)
		}
	}
	for _, m := range []string{"LOCK", "UNLOCK", "REPORT", "POST", "PATCH", "TRACE", "CONNECT", "proppatch", "Get", ""} {
		for _, p := range []string{"/", "/a", "/zz"} {
			out = append(out, davx.NewReq(m, p))
		}
	}
	dests := append([]string{}, uPaths...)
	dests = append(dests, "", "%zz", "b", "http://other.example/b", "/b/", "//h/a/b")
	type hdr struct{ depth, ow string }
	// quick: the valid combinations that differ in meaning, on every (source, destination);
	// invalid header values on a reduced set of destinations
	valid := []hdr{{"", ""}, {"0", ""}, {"", "F"}, {"0", "F"}}
	invalid := []hdr{{"1", ""}, {"2", ""}, {"", "X"}}
	if thorough {
		valid = nil
		invalid = nil
		for _, d := range depths {
			for _, ow := range []string{"", "T", "F", "X"} {
				valid = append(valid, hdr{d, ow})
			}
		}
	}
	for _, m := range []string{"COPY", "MOVE"} {
		for _, p := range uPaths {
			for _, dst := range dests {
				for _, h := range valid {
					r := davx.NewReq(m, p)
					r.Dest, r.Depth, r.Overwrite = dst, h.depth, h.ow
					out = append(out, r)
				}
			}
			for _, dst := range []string{"/b", "/a/b"} {
				for _, h := range invalid {
					r := davx.NewReq(m, p)
					r.Dest, r.Depth, r.Overwrite = dst, h.depth, h.ow
					out = append(out, r)
				}
			}
		}
	}
	return out
}

func stageUniverse(sink *hx.Sink) {
	thorough := hx.Tier() == "thorough"
	reqs := universeReqs(thorough)
	jobs := make(chan job, 64)
	go func() {
		for _, t := range universeTrees() {
			// split the request list so that all cores stay busy
			const chunk = 400
			for i := 0; i < len(reqs); i += chunk {
				j := i + chunk
				if j > len(reqs) {
					j = len(reqs)
				}
				jobs <- job{tree: t, reqs: reqs[i:j]}
			}
		}
		close(jobs)
	}()
	runJobs(jobs, sink, []string{"root"})
}

// ---- random histories over larger universes

var oddNames = []string{"a", "b", "a b", "%41", "é", "x#y?z", "c.txt", "..x", "a;b", "+", "q'\"<&>"}

func randTree(rng *hx.Rand, depth int) *davx.Node {
	d := davx.Dir()
	n := rng.Intn(4)
	for i := 0; i < n; i++ {
		name := rng.Pick(oddNames)
		if depth > 0 && rng.Chance(2, 5) {
			d.Put(name, randTree(rng, depth-1))
		} else {
			d.Put(name, davx.File(rng.Pick([]string{"", "x", "y", "hello world", "\x00\xff"})))
		}
	}
	return d
}

func randPath(rng *hx.Rand) string {
	n := rng.Intn(4)
	p := ""
	for i := 0; i < n; i++ {
		p += "/" + rng.Pick(oddNames)
	}
	if p == "" {
		p = "/"
	}
	if rng.Chance(1, 12) {
		p += "/"
	}
	if rng.Chance(1, 25) {
		p = strings.Replace(p, "/", "/../", 1)
	}
	return p
}

func randReq(rng *hx.Rand) davx.Req {
	m := rng.Pick([]string{"PUT", "PUT", "MKCOL", "MKCOL", "DELETE", "COPY", "COPY", "MOVE", "MOVE", "PROPFIND", "GET", "HEAD", "OPTIONS", "BREW"})
	r := davx.NewReq(m, randPath(rng))
	switch m {
	case "PUT":
		r.Body = rng.Pick([]string{"", "x", "new content", "z\n"})
		if rng.Chance(1, 10) {
			r.FailAfter = rng.Intn(len(r.Body) + 1)
		}
		if rng.Chance(1, 8) {
			r.IfNoneMatch = "*"
		}
	case "MKCOL":
		if rng.Chance(1, 15) {
			r.CType = "application/xml"
		}
	case "COPY", "MOVE":
		dp := randPath(rng)
		switch rng.Intn(6) {
		case 0:
			r.Dest = "http://example.org" + (&url.URL{Path: dp}).EscapedPath()
		default:
			r.Dest = (&url.URL{Path: dp}).EscapedPath()
		}
		if rng.Chance(1, 30) {
			r.Dest = ""
		}
		r.Overwrite = rng.Pick([]string{"", "", "T", "F", "F", "x"})
		r.Depth = rng.Pick([]string{"", "", "infinity", "0", "1", "9"})
	case "PROPFIND":
		r.Depth = rng.Pick([]string{"", "0", "1", "infinity", "x"})
		r.PfBody = rng.Pick([]string{"none", "none", "allprop", "propname", "empty", "bad", "junk"})
	}
	return r
}

func stageHistory(sink *hx.Sink) {
	n := 1500
	if hx.Tier() == "thorough" {
		n = 20000
	}
	rng := hx.NewRand(hx.Seed())
	jobs := make(chan job, 64)
	go func() {
		for i := 0; i < n; i++ {
			r := rng.Fork(i)
			tree := davx.Dir("canary", davx.File("CANARY"), "root", randTree(r, 3))
			var reqs []davx.Req
			for k := 0; k < 40; k++ {
				reqs = append(reqs, randReq(r))
			}
			jobs <- job{tree: tree, reqs: reqs, hist: true}
		}
		close(jobs)
	}()
	runJobs(jobs, sink, []string{"root"})
}

// ---- path functions

func stagePaths(sink *hx.Sink) {
	maxLen := 8
	if hx.Tier() == "thorough" {
		maxLen = 10
	}
	alpha := []byte{'/', '.', 'a'}
	fs := webdav.LocalFileSystem("/srv/dav root")
	emit := func(s string) {
		sink.Put(hx.L("clean", hx.S(s), hx.S(path.Clean(s))))
		out := "-"
		if p, err := webdav.VerifLocalPath(fs, s); err == nil {
			out = hx.S(p)
		}
		sink.Put(hx.L("lpath", hx.S(string(fs)), hx.S(s), out))
	}
	var rec func(prefix []byte)
	rec = func(prefix []byte) {
		emit(string(prefix))
		if len(prefix) == maxLen {
			return
		}
		for _, c := range alpha {
			rec(append(append([]byte{}, prefix...), c))
		}
	}
	rec(nil)
	rng := hx.NewRand(hx.Seed())
	frag := []string{"/", "//", ".", "..", "...", "a", "b c", "\\", "\x00", "%2e%2e", "é", "..a", "a..", "./", "../", "/.."}
	n := 20000
	if hx.Tier() == "thorough" {
		n = 300000
	}
	for i := 0; i < n; i++ {
		s := ""
		k := rng.Intn(9)
		for j := 0; j < k; j++ {
			s += rng.Pick(frag)
		}
		emit(s)
	}
}

// ---- traversal (C03): request lines through http.ReadRequest so that net/http's own
// decoding of the target is inside the loop

func traversalTargets(rng *hx.Rand, n int) []string {
	segs := []string{"..", ".", "a", "root", "rootx", "up", "canary", "%2e%2e", "%2E%2E", "..%2f", "%2f", "%5c", "..%5c", "%00", "\\", "..\\", "%252e%252e", "a%2f..%2f..", "é", "%c0%ae%c0%ae", "....", ".%2e"}
	var out []string
	// systematic: dot-dot at every position of /a/b/c-like paths
	base := [][]string{{"a"}, {"a", "b"}, {"a", "a", "canary"}, {"root"}, {"canary"}, {"rootx", "secret"}}
	for _, b := range base {
		for pos := 0; pos <= len(b); pos++ {
			for k := 1; k <= 4; k++ {
				var s []string
				s = append(s, b[:pos]...)
				for i := 0; i < k; i++ {
					s = append(s, "..")
				}
				s = append(s, b[pos:]...)
				out = append(out, "/"+strings.Join(s, "/"))
				out = append(out, "/"+strings.Join(s, "//"))
				out = append(out, "/"+strings.Join(s, "/")+"/")
			}
		}
	}
	out = append(out, "/../canary", "/../../canary", "/..%2fcanary", "/%2e%2e/canary", "/a/../../canary", "//canary", "/..", "/../", "/.", "/../rootx/secret",
		"/../root/a", "/a/%2e%2e/%2e%2e/canary", "/..\\canary", "/%5c..%5ccanary", "/a%00b", "/%00", "http://evil.example/../canary", "//evil.example/../../canary",
		"/../root", "/../rootx", "/a/../../rootx/secret", "*")
	for i := 0; i < n; i++ {
		k := 1 + rng.Intn(6)
		s := ""
		for j := 0; j < k; j++ {
			s += "/" + rng.Pick(segs)
		}
		if rng.Chance(1, 10) {
			s = s[1:]
		}
		out = append(out, s)
	}
	return out
}

func stageTraversal(sink *hx.Sink) {
	rng := hx.NewRand(hx.Seed())
	n := 300
	if hx.Tier() == "thorough" {
		n = 3000
	}
	targets := traversalTargets(rng, n)
	tree := func() *davx.Node {
		return davx.Dir(
			"canary", davx.File("CANARY-TOP"),
			"rootx", davx.Dir("secret", davx.File("CANARY-SIBLING")),
			"up", davx.Dir("canary", davx.File("CANARY-UP")),
			"root", davx.Dir("a", davx.Dir("a", davx.File("inner"), "canary", davx.File("inside")), "b", davx.File("bee"), "canary", davx.File("inside-top")),
		)
	}
	methods := []string{"GET", "HEAD", "OPTIONS", "PUT", "DELETE", "MKCOL", "PROPFIND", "COPY", "MOVE"}
	type tcase struct {
		method, target, dest string
	}
	var cases []tcase
	for _, t := range targets {
		for _, m := range methods {
			switch m {
			case "COPY", "MOVE":
				cases = append(cases, tcase{m, t, "/b"}) // hostile source, plain destination
				cases = append(cases, tcase{m, "/b", t}) // plain source, hostile destination
				cases = append(cases, tcase{m, "/a", t}) // collection source
			default:
				cases = append(cases, tcase{m, t, ""})
			}
		}
	}
	jobs := make(chan []tcase, 64)
	go func() {
		const chunk = 200
		for i := 0; i < len(cases); i += chunk {
			j := i + chunk
			if j > len(cases) {
				j = len(cases)
			}
			jobs <- cases[i:j]
		}
		close(jobs)
	}()
	var wg sync.WaitGroup
	for w := 0; w < runtime.NumCPU(); w++ {
		wg.Add(1)
		go func(w int) {
			defer wg.Done()
			sb := davx.NewSandbox(workerDir(w), []string{"root"})
			t0 := tree()
			sb.Reset(t0)
			before := davx.Snapshot(sb.Dir)
			for js := range jobs {
				for _, c := range js {
					// let net/http parse the request line: what reaches the handler is r.URL.Path
					raw := c.method + " " + c.target + " HTTP/1.1\r\nHost: h\r\n\r\n"
					hr, err := http.ReadRequest(bufio.NewReader(strings.NewReader(raw)))
					if err != nil {
						continue // net/http itself refuses the request line
					}
					r := davx.NewReq(c.method, hr.URL.Path)
					r.Dest = c.dest
					if c.method == "PUT" {
						r.Body = "pwned"
					}
					d, o, after := sb.Do(r, before)
					sink.Put(davx.Line(sb, before, r, d, o, after))
					if !after.SameShape(before) || c.method == "PUT" {
						sb.Reset(t0)
						before = davx.Snapshot(sb.Dir)
					}
				}
			}
			os.RemoveAll(filepath.Dir(sb.Dir))
		}(w)
	}
	wg.Wait()
}

// ---- conditional requests (C04)

// retag rewrites a header value built around the tag old (plain, upper-cased, or with its
// first byte escaped) into the same spelling of the tag now.
func retag(h, old, now string) string {
	h = strings.ReplaceAll(h, old, now)
	h = strings.ReplaceAll(h, strings.ToUpper(old), strings.ToUpper(now))
	for _, f := range []string{`\x%02x%s`, `\%03o%s`, `\u%04x%s`} {
		h = strings.ReplaceAll(h, fmt.Sprintf(f, old[0], old[1:]), fmt.Sprintf(f, now[0], now[1:]))
	}
	return h
}

func stageCond(sink *hx.Sink) {
	// resource states: absent, file, collection; header values built around the current tag
	jobs := make(chan job, 64)
	go func() {
		for _, state := range []string{"absent", "file", "dir"} {
			root := davx.Dir("other", davx.File("zzz"))
			switch state {
			case "file":
				root.Put("t", davx.File("content"))
			case "dir":
				root.Put("t", davx.Dir("m", davx.File("member")))
			}
			jobs <- job{tree: davx.Dir("root", root), reqs: []davx.Req{davx.NewReq("COND", state)}}
		}
		close(jobs)
	}()
	// the cond stage needs the current tag, so it runs its own loop
	var wg sync.WaitGroup
	var mu sync.Mutex
	w := 0
	for j := range jobs {
		wg.Add(1)
		mu.Lock()
		w++
		wi := w
		mu.Unlock()
		go func(j job, wi int) {
			defer wg.Done()
			sb := davx.NewSandbox(workerDir(100+wi), []string{"root"})
			state := j.reqs[0].Path
			reset := func() *davx.Node {
				sb.Reset(j.tree)
				return davx.Snapshot(sb.Dir)
			}
			before := reset()
			// the stale tag: the tag of the resource before it was last rewritten
			stale := `"0deadbeef7"`
			values := func(cur string) []string {
				vs := []string{"", "*", stale, `"other"`, `unquoted`, `W/"weak"`, `"a", "b"`, `'a'`, "`raw`", `"`, `"\q"`}
				vs = append(vs, `"\u00e9"`, "\"\xff\"", `"a"b"`, `""`, `"a\`, `"tab\there"`)
				if cur != "" {
					bare := strings.Trim(cur, `"`)
					// other spellings of the same tag as a Go string literal: they decode to it
					esc := fmt.Sprintf(`"\x%02x%s"`, bare[0], bare[1:])
					oct := fmt.Sprintf(`"\%03o%s"`, bare[0], bare[1:])
					uni := fmt.Sprintf(`"\u%04x%s"`, bare[0], bare[1:])
					vs = append(vs, cur, cur+" ", bare, esc, oct, uni, "W/"+cur, cur+`, "x"`, cur+cur, " "+cur, strings.ToUpper(cur))
				}
				return vs
			}
			for _, m := range []string{"PUT", "DELETE"} {
				cur := ""
				if fi, err := sb.FS.Stat(context.Background(), "/t"); err == nil {
					cur = `"` + fi.ETag + `"`
				}
				for _, im := range values(cur) {
					for _, inm := range values(cur) {
						r := davx.NewReq(m, "/t")
						r.IfMatch, r.IfNoneMatch = im, inm
						r.Body = "content"
						if fi, err := sb.FS.Stat(context.Background(), "/t"); err == nil {
							// keep header values in step with the tag of the rebuilt file
							now := `"` + fi.ETag + `"`
							if cur != "" && now != cur {
								r.IfMatch = retag(r.IfMatch, strings.Trim(cur, `"`), strings.Trim(now, `"`))
								r.IfNoneMatch = retag(r.IfNoneMatch, strings.Trim(cur, `"`), strings.Trim(now, `"`))
							}
						}
						d, o, after := sb.Do(r, before)
						sink.Put(davx.Line(sb, before, r, d, o, after))
						before = reset()
					}
				}
			}
			_ = state
			os.RemoveAll(filepath.Dir(sb.Dir))
		}(j, wi)
	}
	wg.Wait()
}

// ---- PUT bodies that break off (C02)

func stagePutFault(sink *hx.Sink) {
	sizes := []int{0, 1, 5, 32767, 32768, 32769, 100000}
	type tgt struct {
		name string
		tree *davx.Node
		path string
	}
	mk := func(target string) tgt {
		root := davx.Dir("keep", davx.File("keep me"))
		p := "/t"
		switch target {
		case "file":
			root.Put("t", davx.File("old content that must survive"))
		case "dir":
			root.Put("t", davx.Dir("m", davx.File("member")))
		case "noparent":
			p = "/nodir/t"
		case "underfile":
			p = "/keep/t"
		case "nested":
			root.Put("sub", davx.Dir("t", davx.File("old nested")))
			p = "/sub/t"
		}
		return tgt{target, davx.Dir("root", root), p}
	}
	var targets []tgt
	for _, t := range []string{"absent", "file", "dir", "noparent", "underfile", "nested"} {
		targets = append(targets, mk(t))
	}

	// Where does an upload keep its bytes while the body is being read? Probe the
	// real handler, then plant an unrelated file under every name seen (and under
	// the usual derived names): an upload, failing or not, must not touch it.
	probe := davx.NewSandbox(workerDir(99), []string{"root"})
	var planted []tgt
	for _, t := range targets {
		if t.name == "dir" || t.name == "noparent" || t.name == "underfile" {
			continue
		}
		seen := map[string]bool{}
		for i := 0; i < 2; i++ {
			if err := probe.Reset(t.tree); err != nil {
				fmt.Fprintln(os.Stderr, "dav: reset:", err)
				os.Exit(2)
			}
			r := davx.NewReq("PUT", t.path)
			r.Body = "probe"
			for _, n := range probe.ProbeTemps(r, davx.Snapshot(probe.Dir)) {
				seen[n] = true
			}
		}
		dir, base := path.Split(t.path) // "/", "t" or "/sub/", "t"
		for _, n := range []string{base + ".part", base + ".tmp", base + "~", "." + base + ".tmp", base + ".new", base + ".bak", "." + base + ".swp", base + ".upload", ".webdav-upload-0", "tmp"} {
			seen[path.Join("root", dir, n)] = true
		}
		var names []string
		for n := range seen {
			names = append(names, n)
		}
		sort.Strings(names)
		for _, n := range names {
			tree := t.tree.Clone()
			cur := tree
			segs := strings.Split(n, "/")
			ok := true
			for _, sg := range segs[:len(segs)-1] {
				if cur.Kids[sg] == nil || !cur.Kids[sg].IsDir {
					ok = false
					break
				}
				cur = cur.Kids[sg]
			}
			if !ok || cur.Kids[segs[len(segs)-1]] != nil {
				continue
			}
			cur.Put(segs[len(segs)-1], davx.File("an unrelated stored resource"))
			planted = append(planted, tgt{t.name + "+" + n, tree, t.path})
		}
	}
	os.RemoveAll(filepath.Dir(probe.Dir))

	jobs := make(chan job, 64)
	go func() {
		for _, t := range targets {
			var reqs []davx.Req
			for _, sz := range sizes {
				body := strings.Repeat("Z", sz)
				ks := map[int]bool{0: true, 1: true, 2: true, sz - 1: true, sz: true, 32767: true, 32768: true, 32769: true, -1: true, -2: true}
				for k := range ks {
					if k > sz || (k < 0 && k != -1 && k != -2) {
						continue
					}
					r := davx.NewReq("PUT", t.path)
					r.Body = body
					r.FailAfter = k
					reqs = append(reqs, r)
					// the same offsets as points at which the request context is cancelled
					// (the body itself can be read to its end, or fails later)
					if k >= 0 {
						c := davx.NewReq("PUT", t.path)
						c.Body = body
						c.Cancel = k
						reqs = append(reqs, c)
						for _, cond := range []string{"*", `"nope"`} {
							cc := c
							cc.IfNoneMatch = cond
							reqs = append(reqs, cc)
							cm := c
							cm.IfMatch = cond
							reqs = append(reqs, cm)
						}
						if k+1 <= sz {
							cf := c
							cf.FailAfter = k + 1
							reqs = append(reqs, cf)
						}
					}
				}
			}
			// every other method with a context that is already cancelled
			for _, m := range []string{"GET", "HEAD", "OPTIONS", "PROPFIND", "DELETE", "MKCOL", "COPY", "MOVE"} {
				for _, p := range []string{t.path, "/keep", "/new"} {
					r := davx.NewReq(m, p)
					r.Cancel = 0
					if m == "COPY" || m == "MOVE" {
						for _, d := range []string{"/keep", "/dst", t.path} {
							for _, ow := range []string{"", "F"} {
								rr := r
								rr.Dest = d
								rr.Overwrite = ow
								reqs = append(reqs, rr)
							}
						}
					} else {
						reqs = append(reqs, r)
					}
				}
			}
			jobs <- job{tree: t.tree, reqs: reqs}
		}
		// someone else changes the target or its parent while the body of a (conditional) PUT is
		// being read: whatever the answer, a failure must leave the tree as the other party left it
		for _, t := range targets {
			if t.name == "dir" || t.name == "noparent" || t.name == "underfile" {
				continue
			}
			var reqs []davx.Req
			for _, race := range []string{"filetarget", "mkdirtarget", "mkdirfull", "rmparent", "parentfile"} {
				for _, cond := range [][2]string{{"", ""}, {"", "*"}, {"*", ""}, {`"nope"`, ""}, {"", `"nope"`}} {
					for _, sz := range []int{0, 7, 40000} {
						r := davx.NewReq("PUT", t.path)
						r.Body = strings.Repeat("R", sz)
						r.Race = race
						r.IfMatch, r.IfNoneMatch = cond[0], cond[1]
						reqs = append(reqs, r)
					}
				}
			}
			jobs <- job{tree: t.tree, reqs: reqs, fresh: true}
		}
		for _, t := range planted {
			var reqs []davx.Req
			for _, sz := range []int{0, 5, 40000} {
				for _, k := range []int{-1, 0, 3, sz} {
					if k > sz {
						continue
					}
					r := davx.NewReq("PUT", t.path)
					r.Body = strings.Repeat("Z", sz)
					r.FailAfter = k
					reqs = append(reqs, r)
				}
			}
			jobs <- job{tree: t.tree, reqs: reqs}
		}
		close(jobs)
	}()
	runJobs(jobs, sink, []string{"root"})
}

// ---- the upload, OS call by OS call (C02, C01)

// stepsLine renders one observed upload:
// (usteps (dir seg..) tmp name (chunks c..) fails status (tree before) (seen s..) (final after) <req for replay>)
func stepsLine(sb *davx.Sandbox, before *davx.Node, r davx.Req, fails bool, o davx.Obs, after *davx.Node, st davx.Steps) string {
	segs := append([]string{}, sb.RootRel...)
	for _, sg := range strings.Split(strings.Trim(path.Clean(r.Path), "/"), "/") {
		if sg != "" {
			segs = append(segs, sg)
		}
	}
	dir, name := segs[:len(segs)-1], segs[len(segs)-1]
	tmp := "-"
	if len(st.Temps) == 1 {
		t := strings.Split(st.Temps[0], "/")
		if strings.Join(t[:len(t)-1], "/") == strings.Join(dir, "/") {
			tmp = hx.S(t[len(t)-1])
		}
	}
	ds := []string{"dir"}
	for _, d := range dir {
		ds = append(ds, hx.S(d))
	}
	cs := []string{"chunks"}
	for _, c := range st.Given {
		cs = append(cs, hx.S(c))
	}
	ss := []string{"seen"}
	for _, n := range st.Seen {
		ss = append(ss, n.Sx())
	}
	status := "panic"
	if !o.Panic {
		status = hx.I(int64(o.Status))
	}
	return strings.Join([]string{hx.L("usteps", hx.L(ds...), tmp, hx.S(name), hx.L(cs...), hx.B(fails), status),
		hx.L("tree", before.Sx()), hx.L(ss...), hx.L("after", after.Sx()), r.Sx(), sb.RootSx()}, " ")
}

func stagePutSteps(sink *hx.Sink) {
	rng := hx.NewRand(hx.Seed())
	type tcase struct {
		tree *davx.Node
		path string
	}
	mk := func(target string, extra ...string) tcase {
		root := davx.Dir("keep", davx.File("keep me"))
		p := "/t"
		switch target {
		case "file":
			root.Put("t", davx.File("old content that must survive"))
		case "nested":
			root.Put("sub", davx.Dir("t", davx.File("old nested"), "other", davx.File("o")))
			p = "/sub/t"
		case "nestedabsent":
			root.Put("sub", davx.Dir())
			p = "/sub/t"
		}
		for _, e := range extra {
			root.Put(e, davx.File("an unrelated stored resource"))
		}
		return tcase{davx.Dir("root", root, "beside", davx.File("outside the root")), p}
	}
	var cases []tcase
	for _, t := range []string{"absent", "file", "nested", "nestedabsent"} {
		cases = append(cases, mk(t))
	}
	// names an upload might use for its temporary file, taken: found by probing, plus the usual ones
	probe := davx.NewSandbox(workerDir(98), []string{"root"})
	seen := map[string]bool{"t.part": true, "t.tmp": true, ".t.tmp": true, "t~": true, ".webdav-upload-0": true}
	for i := 0; i < 2; i++ {
		c := mk("file")
		probe.Reset(c.tree)
		r := davx.NewReq("PUT", c.path)
		r.Body = "probe"
		for _, n := range probe.ProbeTemps(r, davx.Snapshot(probe.Dir)) {
			if strings.HasPrefix(n, "root/") && !strings.Contains(n[5:], "/") {
				seen[n[5:]] = true
			}
		}
	}
	os.RemoveAll(filepath.Dir(probe.Dir))
	var names []string
	for n := range seen {
		names = append(names, n)
	}
	sort.Strings(names)
	for _, n := range names {
		cases = append(cases, mk("file", n), mk("absent", n))
	}
	chunkings := [][]string{{}, {"a"}, {"ab", "c"}, {"x", "", "y"}, {strings.Repeat("Z", 32768), "1"}, {strings.Repeat("Q", 40000)},
		{strings.Repeat("a", 5), strings.Repeat("b", 32769), strings.Repeat("c", 7)}}
	n := 40
	if hx.Tier() == "thorough" {
		n = 400
	}
	for i := 0; i < n; i++ {
		var c []string
		for k := rng.Intn(6); k > 0; k-- {
			c = append(c, strings.Repeat(string(rune('a'+rng.Intn(26))), rng.Intn(9)*rng.Intn(9)*rng.Intn(600)+rng.Intn(3)))
		}
		chunkings = append(chunkings, c)
	}
	type sjob struct {
		c      tcase
		chunks []string
		fails  bool
	}
	jobs := make(chan sjob, 64)
	go func() {
		for _, c := range cases {
			for _, ch := range chunkings {
				jobs <- sjob{c, ch, false}
				jobs <- sjob{c, ch, true}
			}
		}
		close(jobs)
	}()
	var wg sync.WaitGroup
	for w := 0; w < runtime.NumCPU(); w++ {
		wg.Add(1)
		go func(w int) {
			defer wg.Done()
			sb := davx.NewSandbox(workerDir(w), []string{"root"})
			for j := range jobs {
				if err := sb.Reset(j.c.tree); err != nil {
					fmt.Fprintln(os.Stderr, "dav: reset:", err)
					os.Exit(2)
				}
				before := davx.Snapshot(sb.Dir)
				r := davx.NewReq("PUT", j.c.path)
				_, o, after, st := sb.DoSteps(r, j.chunks, j.fails, before)
				r.Body = strings.Join(j.chunks, "\x00|") // replay: the pieces (never contain NUL)
				if j.fails {
					r.FailAfter = len(strings.Join(j.chunks, ""))
				}
				sink.Put(stepsLine(sb, before, r, j.fails, o, after, st))
			}
			os.RemoveAll(filepath.Dir(sb.Dir))
		}(w)
	}
	wg.Wait()
}

// ---- headers: odd Depth / Overwrite / Content-Type values (C01)

func stageHeaders(sink *hx.Sink) {
	depths := []string{"", "0", "1", "infinity", "2", "-1", "-0", "+0", "+1", "00", "01", "1.0", "0x1", " 1", "1 ", "1,1", "Infinity", "INFINITY", "infinite", "inf", "-2", "10", "1e0", "\x31", "∞", "0,infinity", "noroot", "infinity, noroot"}
	overwrites := []string{"", "T", "F", "t", "f", "TRUE", "true", "False", "1", "0", "T ", " F", "TF", "T,F", "Y", "N", "X", "yes", "no"}
	ctypes := []string{"", "text/plain", "application/xml", "text/xml; charset=utf-8", " ", ";", "application/octet-stream"}
	trees := []*davx.Node{
		davx.Dir("a", davx.File("x"), "b", davx.Dir("a", davx.File("y"))),
		davx.Dir("a", davx.Dir("a", davx.File("x"), "b", davx.Dir()), "b", davx.File("y")),
	}
	jobs := make(chan job, 16)
	go func() {
		for _, t := range trees {
			var reqs []davx.Req
			for _, m := range []string{"COPY", "MOVE"} {
				for _, src := range []string{"/a", "/b", "/zz"} {
					for _, dst := range []string{"/c", "/b", "/a/c"} {
						for _, d := range depths {
							r := davx.NewReq(m, src)
							r.Dest, r.Depth = dst, d
							reqs = append(reqs, r)
						}
						for _, o := range overwrites {
							r := davx.NewReq(m, src)
							r.Dest, r.Overwrite = dst, o
							reqs = append(reqs, r)
							r.Depth = "0"
							reqs = append(reqs, r)
						}
					}
				}
			}
			for _, p := range []string{"/", "/a", "/b", "/zz"} {
				for _, d := range depths {
					for _, pf := range []string{"none", "propname"} {
						r := davx.NewReq("PROPFIND", p)
						r.Depth, r.PfBody = d, pf
						reqs = append(reqs, r)
					}
					// methods that take no Depth ignore it
					for _, m := range []string{"DELETE", "GET", "MKCOL", "PUT", "OPTIONS"} {
						r := davx.NewReq(m, p)
						r.Depth = d
						r.Body = "z"
						reqs = append(reqs, r)
					}
				}
				for _, ct := range ctypes {
					r := davx.NewReq("MKCOL", p+"new")
					r.CType = ct
					reqs = append(reqs, r)
					q := davx.NewReq("PUT", p+"new")
					q.CType, q.Body = ct, "z"
					reqs = append(reqs, q)
				}
			}
			// every body in every delivery form
			for _, dl := range []string{"unknown", "larger", "smaller", "eofdata", "bytewise"} {
				for _, p := range []string{"/a", "/new", "/b/a", "/zz/new"} {
					for _, body := range []string{"", "z", strings.Repeat("w", 40000)} {
						q := davx.NewReq("PUT", p)
						q.Body, q.Delivery = body, dl
						reqs = append(reqs, q)
					}
					for _, pf := range []string{"none", "allprop", "propname", "empty", "bad", "junk"} {
						q := davx.NewReq("PROPFIND", p)
						q.PfBody, q.Delivery, q.Depth = pf, dl, "1"
						reqs = append(reqs, q)
					}
					for _, pf := range []string{"none", "pupdate", "bad", "junk", "pupdate-noct"} {
						q := davx.NewReq("PROPPATCH", p)
						q.PfBody, q.Delivery = pf, dl
						reqs = append(reqs, q)
					}
					q := davx.NewReq("MKCOL", p)
					q.Delivery = dl
					reqs = append(reqs, q)
				}
			}
			jobs <- job{tree: davx.Dir("root", t), reqs: reqs}
		}
		close(jobs)
	}()
	runJobs(jobs, sink, []string{"root"})
}

// ---- exotic: OS errors the model does not distinguish — over-long names, over-long
// paths, symbolic links, the sandbox changing under an upload.  Only what C17 projects
// (does the answer contain the host path) is compared on these.

func stageExotic(sink *hx.Sink) {
	long := strings.Repeat("n", 256)
	long2 := strings.Repeat("L", 300)
	ok250 := strings.Repeat("k", 250)
	deep := "/s"
	deepTree := davx.Dir("leaf", davx.File("x"))
	for i := 0; i < 15; i++ {
		deepTree = davx.Dir(ok250, deepTree)
		deep += "/" + ok250
	}
	base := func() *davx.Node {
		return davx.Dir("a", davx.File("x"), "d", davx.Dir("f", davx.File("y"), "g", davx.Dir("h", davx.File("z"))),
			"loop", davx.File(davx.LinkMark+"loop"), "dirlink", davx.File(davx.LinkMark+"d"), "dangling", davx.File(davx.LinkMark+"nowhere"), "devnull", davx.File(davx.LinkMark+"/dev/null"),
			"withlink", davx.Dir("m", davx.File("m"), "l", davx.File(davx.LinkMark+"../d"), "z", davx.File("z")),
			"twolinks", davx.Dir("a-dangling", davx.File(davx.LinkMark+"nowhere"), "b-dirlink", davx.File(davx.LinkMark+"../d"), "c-ok", davx.File("fine"), "d-devnull", davx.File(davx.LinkMark+"/dev/null")),
			"s", deepTree)
	}
	methods := []string{"OPTIONS", "GET", "HEAD", "PUT", "DELETE", "MKCOL", "COPY", "MOVE", "PROPFIND"}
	paths := []string{"/" + long, "/" + long2, "/d/" + long, "/a/" + long, "/" + long + "/x", "/loop", "/loop/x", "/devnull", "/devnull/x", "/dirlink", "/dirlink/f", "/dangling", "/dangling/x",
		"/withlink", "/withlink/l", "/withlink/l/f", "/twolinks", "/twolinks/a-dangling", "/twolinks/b-dirlink", deep, deep + "/leaf", deep + "/" + ok250, "/s", "/d", "/a"}
	dests := []string{"/" + long, "/d/" + long2, "/new", "/" + strings.Repeat("D", 200), "/loop", "/loop/x", "/dirlink/new", "/dangling", "/withlink/l/new", deep + "/copy", "/a", "/d"}
	jobs := make(chan job, 16)
	go func() {
		var reqs []davx.Req
		for _, m := range methods {
			for _, p := range paths {
				if m == "COPY" || m == "MOVE" {
					for _, d := range dests {
						for _, ow := range []string{"", "F"} {
							for _, dp := range []string{"", "0"} {
								if m == "MOVE" && dp == "0" {
									continue
								}
								r := davx.NewReq(m, p)
								r.Dest, r.Overwrite, r.Depth = d, ow, dp
								reqs = append(reqs, r)
							}
						}
					}
					continue
				}
				r := davx.NewReq(m, p)
				r.Body = "zz"
				if m == "PROPFIND" {
					for _, dp := range []string{"0", "1", "infinity"} {
						r.Depth = dp
						reqs = append(reqs, r)
					}
					continue
				}
				reqs = append(reqs, r)
			}
		}
		// the sandbox changes while the body of a PUT is being received
		for _, race := range []string{"rmparent", "mkdirtarget", "mkdirfull", "filetarget", "parentfile", "rmroot"} {
			for _, p := range []string{"/d/new", "/d/f", "/d/g/h", "/d/g/new", "/new", "/a"} {
				for _, inm := range []string{"", "*"} {
					r := davx.NewReq("PUT", p)
					r.Body = "raced body"
					r.Race = race
					r.IfNoneMatch = inm
					reqs = append(reqs, r)
				}
			}
		}
		// one job per request: every request starts from the same tree
		for i := 0; i < len(reqs); i += 8 {
			j := i + 8
			if j > len(reqs) {
				j = len(reqs)
			}
			jobs <- job{tree: davx.Dir("root", base()), reqs: reqs[i:j], fresh: true}
		}
		// the served directory configured through a symbolic link
		var viaLink []davx.Req
		for _, p := range []string{"/", "/a", "/d", "/d/g", "/zz", "/withlink", "/twolinks"} {
			for _, m := range []string{"GET", "OPTIONS", "DELETE", "MKCOL"} {
				viaLink = append(viaLink, davx.NewReq(m, p))
			}
			for _, dp := range []string{"0", "1", "infinity"} {
				r := davx.NewReq("PROPFIND", p)
				r.Depth = dp
				viaLink = append(viaLink, r)
			}
			for _, m := range []string{"COPY", "MOVE"} {
				for _, d := range []string{"/new", "/d/new", "/a"} {
					r := davx.NewReq(m, p)
					r.Dest = d
					viaLink = append(viaLink, r)
				}
			}
			r := davx.NewReq("PUT", p)
			r.Body = "via link"
			viaLink = append(viaLink, r)
		}
		for i := 0; i < len(viaLink); i += 8 {
			j := i + 8
			if j > len(viaLink) {
				j = len(viaLink)
			}
			jobs <- job{tree: davx.Dir("root", base()), reqs: viaLink[i:j], fresh: true, spell: "symlink"}
		}
		close(jobs)
	}()
	runJobs(jobs, sink, []string{"root"})
}

// ---- types: media types of stored files (Content-Type of GET/HEAD, getcontenttype) (C01)

func stageTypes(sink *hx.Sink) {
	contents := map[string]string{"text": "hello\n", "html": "<html><body>x</body></html>", "pdf": "%PDF-1.4\n", "bin": "\x00\x01\x02\xff", "empty": "",
		"xml": "<?xml version=\"1.0\"?><a/>", "png": "\x89PNG\x0d\x0a\x1a\x0a", "long": strings.Repeat("a", 600) + "\x00"}
	names := []string{"a.txt", "b.html", "c.ics", "d.vcf", "e.unknownext", "f", "UP.TXT", "g.tar.gz", ".hidden", "trail.", "h.json", "i.PNG", "j.x.y", "k.", "l.css", "m.xml", "n.js", "o.svg", "p.webdavfile"}
	tree := davx.Dir()
	i := 0
	keys := []string{"text", "html", "pdf", "bin", "empty", "xml", "png", "long"}
	for _, n := range names {
		tree.Put(n, davx.File(contents[keys[i%len(keys)]]))
		i++
	}
	for _, k := range keys {
		tree.Put("plain-"+k, davx.File(contents[k]))
		tree.Put("as-"+k+".txt", davx.File(contents[k]))
	}
	tree.Put("tmpish", davx.Dir(".webdav-upload-1", davx.File("looks like an upload"), ".webdav-upload-2", davx.Dir("in", davx.File("member")), ".webdav-copy-3", davx.File("c"), "z", davx.File("last")))
	tree.Put("col.txt", davx.Dir("inner.html", davx.File(contents["text"]), "sub.d", davx.Dir("deep.pdf", davx.File(contents["html"]))))
	var reqs []davx.Req
	var paths []string
	for _, n := range tree.Names {
		paths = append(paths, "/"+n, "/"+n+"/", "//"+n, "/col.txt/../"+n, "/"+n+"/.")
	}
	paths = append(paths, "/col.txt/inner.html", "/col.txt/sub.d/deep.pdf", "/col.txt/sub.d", "/", "/missing.txt")
	for _, p := range paths {
		for _, m := range []string{"GET", "HEAD"} {
			reqs = append(reqs, davx.NewReq(m, p))
		}
	}
	for _, p := range []string{"/", "/col.txt", "/col.txt/", "/a.txt", "/col.txt/sub.d"} {
		for _, d := range []string{"0", "1", "infinity"} {
			for _, pf := range []string{"none", "allprop", "propname"} {
				r := davx.NewReq("PROPFIND", p)
				r.Depth, r.PfBody = d, pf
				reqs = append(reqs, r)
			}
		}
	}
	// names that look like the server's own temporary files are ordinary resources
	for _, step := range [][3]string{{"COPY", "/tmpish", "/tmpish-copy"}, {"PROPFIND", "/tmpish-copy", ""}, {"COPY", "/tmpish/.webdav-upload-2", "/up2"},
		{"MOVE", "/tmpish-copy", "/tmpish-moved"}, {"PROPFIND", "/tmpish-moved", ""}, {"COPY", "/tmpish", "/tmpish-moved"}, {"GET", "/tmpish-moved/.webdav-upload-1", ""},
		{"PUT", "/tmpish/.webdav-upload-9", ""}, {"DELETE", "/tmpish/.webdav-upload-2", ""}, {"PROPFIND", "/tmpish", ""}, {"COPY", "/tmpish", "/t0"}} {
		r := davx.NewReq(step[0], step[1])
		r.Dest = step[2]
		if step[0] == "PROPFIND" {
			r.Depth = "infinity"
		}
		if step[0] == "PUT" {
			r.Body = "u"
		}
		if step[2] == "/t0" {
			r.Depth = "0"
		}
		reqs = append(reqs, r)
	}
	// a PUT changes what a later GET says
	for _, n := range []string{"/new.html", "/a.txt", "/newnoext"} {
		for _, k := range keys {
			r := davx.NewReq("PUT", n)
			r.Body = contents[k]
			reqs = append(reqs, r, davx.NewReq("GET", n), davx.NewReq("HEAD", n))
		}
	}
	jobs := make(chan job, 4)
	go func() {
		jobs <- job{tree: davx.Dir("root", tree), reqs: reqs, hist: true}
		close(jobs)
	}()
	runJobs(jobs, sink, []string{"root"})
}

// ---- rootspell: the served directory written in unclean ways in the configuration (C01, C17)

func stageRootSpell(sink *hx.Sink) {
	tree := davx.Dir("a", davx.File("x"), "d", davx.Dir("f", davx.File("y"), "g", davx.Dir("h", davx.File("z"))))
	var reqs []davx.Req
	for _, p := range []string{"/", "/a", "/d", "/d/", "/d/g", "/zz", "//d", "/d/../a"} {
		for _, m := range []string{"OPTIONS", "GET", "HEAD", "DELETE"} {
			reqs = append(reqs, davx.NewReq(m, p))
		}
		for _, dp := range []string{"0", "1", "infinity"} {
			for _, pf := range []string{"none", "propname"} {
				r := davx.NewReq("PROPFIND", p)
				r.Depth, r.PfBody = dp, pf
				reqs = append(reqs, r)
			}
		}
		r := davx.NewReq("PUT", p)
		r.Body = "w"
		reqs = append(reqs, r, davx.NewReq("MKCOL", p+"n"))
		for _, m := range []string{"COPY", "MOVE"} {
			for _, dst := range []string{"/new", "/d/new", "/a", "/"} {
				c := davx.NewReq(m, p)
				c.Dest = dst
				reqs = append(reqs, c)
			}
		}
	}
	var wg sync.WaitGroup
	for i, how := range davx.RootSpellings {
		wg.Add(1)
		go func(i int, how string) {
			defer wg.Done()
			sb := davx.NewSandboxSpelled(workerDir(200+i), []string{"root"}, how)
			for _, r := range reqs {
				if err := sb.Reset(davx.Dir("root", tree.Clone())); err != nil {
					fmt.Fprintln(os.Stderr, "dav: reset:", err)
					os.Exit(2)
				}
				before := davx.Snapshot(sb.Dir)
				d, o, after := sb.Do(r, before)
				sink.Put(davx.Line(sb, before, r, d, o, after))
			}
			os.RemoveAll(filepath.Dir(sb.Dir))
		}(i, how)
	}
	wg.Wait()
}

// ---- tworoots: the same subtree served from two different places of two different
// surroundings (C17_response_independent_of_root / C17_history_independent_of_root): every
// answer — status, every header, the whole body — must be the same bytes, and the served
// subtrees must stay equal, for as long as the served directory exists.  Modification
// times are pinned to the same instants in both before every request; what a PUT
// announces from the clock is masked.

func twoRootsLine(w int, sub *davx.Node, reqs []davx.Req) string {
	relA := []string{"srv", "dav"}
	relB := []string{"home", "u", "data", "store"}
	treeA := davx.Dir("srv", davx.Dir("dav", sub.Clone(), "beside", davx.File("A")), "secret", davx.File("s"))
	treeB := davx.Dir("home", davx.Dir("u", davx.Dir("data", davx.Dir("store", sub.Clone())), "other", davx.Dir("x", davx.File("B"))))
	a := davx.NewSandbox(filepath.Join(scratch, fmt.Sprintf("ta%d", w), "verif-sb-7f3a"), relA)
	b := davx.NewSandbox(filepath.Join(scratch, fmt.Sprintf("tb%d", w), "elsewhere", "deeper", "verif-sb-7f3a"), relB)
	a.KeepRaw, b.KeepRaw = true, true
	if err := a.Reset(treeA); err != nil {
		fmt.Fprintln(os.Stderr, "dav: reset:", err)
		os.Exit(2)
	}
	if err := b.Reset(treeB); err != nil {
		fmt.Fprintln(os.Stderr, "dav: reset:", err)
		os.Exit(2)
	}
	rootA := filepath.Join(append([]string{a.Dir}, relA...)...)
	rootB := filepath.Join(append([]string{b.Dir}, relB...)...)
	t0 := time.Unix(1600000000, 0)
	diff, served := -1, 0
	whatA, whatB := "", ""
	for i, r := range reqs {
		t := t0.Add(time.Duration(i) * time.Second)
		davx.PinTimes(a.Dir, t)
		davx.PinTimes(b.Dir, t)
		_, oa, _ := a.DoNoSnapshot(r)
		_, ob, _ := b.DoNoSnapshot(r)
		served++
		ra, rb := oa.Raw, ob.Raw
		if oa.Panic {
			ra = "(panic)"
		}
		if ob.Panic {
			rb = "(panic)"
		}
		if ra != rb {
			diff, whatA, whatB = i, ra, rb
			break
		}
		sa, sb := davx.Snapshot(rootA), davx.Snapshot(rootB)
		if !sa.SameShape(sb) {
			diff, whatA, whatB = i, "subtree afterwards: "+sa.Sx(), "subtree afterwards: "+sb.Sx()
			break
		}
		if sa == nil {
			break // the served directory is gone: the theorem's premise ends here
		}
	}
	os.RemoveAll(filepath.Dir(a.Dir))
	os.RemoveAll(filepath.Join(scratch, fmt.Sprintf("tb%d", w)))
	rs := []string{"reqs"}
	for _, r := range reqs {
		rs = append(rs, r.Sx())
	}
	return hx.L("tworoots", hx.L("tree", sub.Sx()), hx.L(rs...), hx.I(int64(served)), hx.I(int64(diff)), hx.S(whatA), hx.S(whatB))
}

func stageTwoRoots(sink *hx.Sink) {
	n := 400
	if hx.Tier() == "thorough" {
		n = 6000
	}
	rng := hx.NewRand(hx.Seed() + 77)
	long := strings.Repeat("n", 300)
	type tr struct {
		sub  *davx.Node
		reqs []davx.Req
	}
	jobs := make(chan tr, 64)
	go func() {
		for i := 0; i < n; i++ {
			r := rng.Fork(i)
			sub := randTree(r, 3)
			var reqs []davx.Req
			for k := 0; k < 30; k++ {
				q := randReq(r)
				switch r.Intn(12) {
				case 0: // names the OS refuses: its error text carries the host path until it is stripped
					q.Path = "/" + long
				case 1:
					q.Path = q.Path + "/" + long + "/x"
				case 2:
					if q.Method == "COPY" || q.Method == "MOVE" {
						q.Dest = "/" + long
					}
				case 3: // through a file
					q.Path = strings.TrimSuffix(q.Path, "/") + "/below/it"
				case 4:
					q.Path = "/../" + strings.TrimPrefix(q.Path, "/")
				case 5:
					q.Path = q.Path + "\x00"
				}
				reqs = append(reqs, q)
			}
			jobs <- tr{sub, reqs}
		}
		close(jobs)
	}()
	var wg sync.WaitGroup
	for w := 0; w < runtime.NumCPU(); w++ {
		wg.Add(1)
		go func(w int) {
			defer wg.Done()
			for j := range jobs {
				sink.Put(twoRootsLine(w, j.sub, j.reqs))
			}
		}(w)
	}
	wg.Wait()
}

// ---- raceput: DELETE of the target while PUTs to it are being served (C17: leak bit only)

func stageRacePut(sink *hx.Sink) {
	n := 1500
	if hx.Tier() == "thorough" {
		n = 12000
	}
	tree := davx.Dir("root", davx.Dir("d", davx.Dir()))
	sb := davx.NewSandbox(workerDir(300), []string{"root"})
	if err := sb.Reset(tree); err != nil {
		fmt.Fprintln(os.Stderr, "dav: reset:", err)
		os.Exit(2)
	}
	before := davx.Snapshot(sb.Dir)
	stop := make(chan struct{})
	var wg sync.WaitGroup
	for g := 0; g < 4; g++ {
		wg.Add(1)
		go func() {
			defer wg.Done()
			del := davx.NewSandbox(sb.Dir, sb.RootRel)
			for {
				select {
				case <-stop:
					return
				default:
				}
				r := davx.NewReq("DELETE", "/d/f")
				d, o, _ := del.DoNoSnapshot(r)
				if o.Leak {
					sink.Put(davx.Line(sb, before, r, d, o, before))
				}
			}
		}()
	}
	for i := 0; i < n; i++ {
		r := davx.NewReq("PUT", "/d/f")
		r.Body = "racing"
		d, o, _ := sb.DoNoSnapshot(r)
		d.Stamp = 0
		sink.Put(davx.Line(sb, before, r, d, o, before))
		g := davx.NewReq("GET", "/d/f")
		d2, o2, _ := sb.DoNoSnapshot(g)
		sink.Put(davx.Line(sb, before, g, d2, o2, before))
	}
	close(stop)
	wg.Wait()
	os.RemoveAll(filepath.Dir(sb.Dir))
}

// ---- wfault: the file system refuses to grow a file (RLIMIT_FSIZE) while the server writes
// an upload or a copy (C17: no host path in the answer; C02: a failed request changes nothing).
// The limit is per process, so the stage runs in a child of this binary whose case lines
// come back through a pipe (pipes are not files).

const wfaultLimit = 64 << 10

func stageWFault(sink *hx.Sink) {
	self, err := os.Executable()
	if err != nil {
		fmt.Fprintln(os.Stderr, "dav: wfault:", err)
		os.Exit(2)
	}
	cmd := exec.Command(self, "-stage", "wfault-child")
	cmd.Env = append(os.Environ(), "VERIF_SCRATCH="+scratch)
	cmd.Stderr = os.Stderr
	out, err := cmd.StdoutPipe()
	if err != nil || cmd.Start() != nil {
		fmt.Fprintln(os.Stderr, "dav: wfault: cannot start the child")
		os.Exit(2)
	}
	sc := bufio.NewScanner(out)
	sc.Buffer(make([]byte, 1<<20), 64<<20)
	for sc.Scan() {
		if l := sc.Text(); strings.HasPrefix(l, "(") {
			sink.Put(l)
		}
	}
	if err := cmd.Wait(); err != nil {
		fmt.Fprintln(os.Stderr, "dav: wfault child:", err)
		os.Exit(2)
	}
}

func stageWFaultChild() {
	signal.Ignore(syscall.SIGXFSZ)
	big := strings.Repeat("B", 3*wfaultLimit)
	tree := davx.Dir("root", davx.Dir(
		"keep", davx.File("keep me"),
		"old", davx.File("old content that must survive"),
		"big", davx.File(big),
		"col", davx.Dir("m1", davx.File("small"), "m2", davx.File(big), "m3", davx.File("after")),
		"dstcol", davx.Dir("x", davx.File("existing member"))))
	sb := davx.NewSandbox(workerDir(400), []string{"root"})
	if err := sb.Reset(tree); err != nil { // built before the limit is lowered
		fmt.Fprintln(os.Stderr, "dav: reset:", err)
		os.Exit(2)
	}
	lim := syscall.Rlimit{Cur: wfaultLimit, Max: wfaultLimit}
	if err := syscall.Setrlimit(syscall.RLIMIT_FSIZE, &lim); err != nil {
		fmt.Fprintln(os.Stderr, "dav: setrlimit:", err)
		os.Exit(2)
	}
	w := bufio.NewWriter(os.Stdout)
	defer w.Flush()
	before := davx.Snapshot(sb.Dir)
	var reqs []davx.Req
	for _, p := range []string{"/new", "/old", "/col/new"} {
		for _, n := range []int{wfaultLimit - 1, wfaultLimit, wfaultLimit + 1, 2 * wfaultLimit} {
			r := davx.NewReq("PUT", p)
			r.Body = strings.Repeat("Z", n)
			reqs = append(reqs, r)
		}
	}
	for _, m := range []string{"COPY", "MOVE"} {
		for _, src := range []string{"/big", "/col", "/keep"} {
			for _, dst := range []string{"/copy", "/old", "/dstcol", "/col/copy"} {
				r := davx.NewReq(m, src)
				r.Dest = dst
				reqs = append(reqs, r)
			}
		}
	}
	for _, r := range reqs {
		d, o, after := sb.Do(r, before)
		d.WriteLimit = wfaultLimit
		fmt.Fprintln(w, davx.Line(sb, before, r, d, o, after))
		if !after.SameShape(before) {
			// rebuilding needs the big files, which this process can no longer write: put back
			// what can be put back and stop using the tree when that is not enough
			restoreSmall(sb, tree, before)
			before = davx.Snapshot(sb.Dir)
		}
	}
	os.RemoveAll(filepath.Dir(sb.Dir))
}

// restoreSmall removes what a request added and rewrites small files it changed (big files
// cannot be rewritten under the limit; a request that destroyed one ends their use as sources).
func restoreSmall(sb *davx.Sandbox, tree, before *davx.Node) {
	var fix func(dir string, want, have *davx.Node)
	fix = func(dir string, want, have *davx.Node) {
		if have != nil && have.IsDir {
			for _, k := range have.Names {
				var wk *davx.Node
				if want != nil && want.IsDir {
					wk = want.Kids[k]
				}
				if wk == nil || wk.IsDir != have.Kids[k].IsDir {
					os.RemoveAll(filepath.Join(dir, k))
				}
			}
		}
		if want == nil || !want.IsDir {
			return
		}
		for _, k := range want.Names {
			p := filepath.Join(dir, k)
			wk := want.Kids[k]
			cur := davx.Snapshot(p)
			switch {
			case wk.IsDir:
				if cur == nil {
					os.Mkdir(p, 0755)
				}
				fix(p, wk, davx.Snapshot(p))
			case cur == nil || cur.Content != wk.Content:
				if len(wk.Content) < wfaultLimit {
					os.WriteFile(p, []byte(wk.Content), 0644)
				}
			}
		}
	}
	fix(sb.Dir, tree, davx.Snapshot(sb.Dir))
}

// ---- rfault: the OS refuses os.Rename after LocalFileSystem.Move has passed its checks
// (C02: a failed request changes nothing).  The source's directory is made immutable
// (chattr +i: EPERM for every rename out of it, for root too), which needs a file system
// that has the flag: the stage works in a directory under os.TempDir() (ext4 here), not in
// the tmpfs scratch.  Where chattr is refused the stage produces no case.

func chattr(flag, p string) error { return exec.Command("chattr", flag, p).Run() }

func stageRFault(sink *hx.Sink) {
	base, err := os.MkdirTemp("", "verif-rfault-")
	if err != nil {
		fmt.Fprintln(os.Stderr, "dav: rfault:", err)
		return
	}
	defer os.RemoveAll(base)
	tree := davx.Dir("root", davx.Dir(
		"a", davx.Dir("src", davx.File("new content"), "sub", davx.Dir("m", davx.File("member"))),
		"dst", davx.File("precious old content"),
		"dstcol", davx.Dir("x", davx.File("existing member")),
		"keep", davx.File("keep me")))
	sb := davx.NewSandbox(filepath.Join(base, "w"), []string{"root"})
	locked := filepath.Join(sb.Dir, "root", "a")
	defer chattr("-i", locked)
	type mv struct{ src, dst, ow string }
	var cases []mv
	for _, src := range []string{"/a/src", "/a/sub", "/a/sub/m"} {
		for _, dst := range []string{"/dst", "/dstcol", "/dstcol/x", "/newname", "/dstcol/new", "/missing/new", "/a/src2"} {
			for _, ow := range []string{"", "T", "F"} {
				cases = append(cases, mv{src, dst, ow})
			}
		}
	}
	for _, c := range cases {
		chattr("-i", locked)
		if err := sb.Reset(tree); err != nil {
			fmt.Fprintln(os.Stderr, "dav: rfault: reset:", err)
			return
		}
		lock := locked
		if c.src == "/a/sub/m" {
			lock = filepath.Join(locked, "sub")
		}
		if err := chattr("+i", lock); err != nil {
			fmt.Fprintln(os.Stderr, "dav: rfault: chattr +i is not available here:", err)
			return
		}
		before := davx.Snapshot(sb.Dir)
		r := davx.NewReq("MOVE", c.src)
		r.Dest = c.dst
		r.Overwrite = c.ow
		d, o, after := sb.Do(r, before)
		chattr("-i", lock)
		d.WriteLimit = -2
		sink.Put(davx.Line(sb, before, r, d, o, after))
	}
}

func main() {
	out := flag.String("out", "", "output file")
	replay := flag.String("replay", "", "file of case lines to re-run")
	stage := flag.String("stage", "universe", "universe|history|paths|traversal|cond|putfault|putsteps|headers|exotic|types|rootspell|raceput|wfault|rfault|tworoots")
	flag.Parse()
	if *stage == "wfault-child" {
		scratch = filepath.Join(os.Getenv("VERIF_SCRATCH"), "wfault-child")
		stageWFaultChild()
		return
	}
	scratch = os.Getenv("VERIF_SCRATCH")
	if scratch == "" {
		scratch = filepath.Join("/dev/shm", fmt.Sprintf("verif.%d", os.Getpid()))
		defer os.RemoveAll(scratch)
	}
	scratch = filepath.Join(scratch, "dav-"+*stage)
	os.MkdirAll(scratch, 0755)
	defer os.RemoveAll(scratch)
	sink := hx.NewSink(*out)
	defer sink.Close()

	if *replay != "" {
		sb := davx.NewSandbox(workerDir(0), nil)
		for _, l := range hx.ReadLines(*replay) {
			items := hx.MustParse(l)
			switch items[0].Head() {
			case "clean":
				s := items[0].List[1].Str()
				sink.Put(hx.L("clean", hx.S(s), hx.S(path.Clean(s))))
			case "lpath":
				root, s := items[0].List[1].Str(), items[0].List[2].Str()
				o := "-"
				if p, err := webdav.VerifLocalPath(webdav.LocalFileSystem(root), s); err == nil {
					o = hx.S(p)
				}
				sink.Put(hx.L("lpath", hx.S(root), hx.S(s), o))
			case "usteps":
				// (usteps ..) (tree t) (seen ..) (after ..) (req ..) (root ..)
				var rootRel []string
				for _, a := range items[5].Args() {
					rootRel = append(rootRel, a.Str())
				}
				sb = davx.NewSandbox(workerDir(0), rootRel)
				sb.Reset(davx.ParseNode(items[1].List[1]))
				before := davx.Snapshot(sb.Dir)
				r := davx.ParseReq(items[4])
				chunks := strings.Split(r.Body, "\x00|")
				if r.Body == "" {
					chunks = nil
				}
				fails := r.FailAfter >= 0
				rr := r
				rr.FailAfter = -1
				_, o, after, st := sb.DoSteps(rr, chunks, fails, before)
				sink.Put(stepsLine(sb, before, r, fails, o, after, st))
			case "tworoots":
				sub := davx.ParseNode(items[0].List[1].List[1])
				var reqs []davx.Req
				for _, x := range items[0].List[2].Args() {
					reqs = append(reqs, davx.ParseReq(x))
				}
				sink.Put(twoRootsLine(0, sub, reqs))
			case "root":
				rootRel, spell := davx.ParseRoot(items[0])
				sb = davx.NewSandboxSpelled(workerDir(0), rootRel, spell)
				tree := davx.ParseNode(items[1].List[1])
				sb.Reset(tree)
				before := davx.Snapshot(sb.Dir)
				r := davx.ParseReq(items[2])
				d, o, after := sb.Do(r, before)
				sink.Put(davx.Line(sb, before, r, d, o, after))
			}
		}
		os.RemoveAll(filepath.Dir(sb.Dir))
		return
	}

	switch *stage {
	case "universe":
		stageUniverse(sink)
	case "history":
		stageHistory(sink)
	case "paths":
		stagePaths(sink)
	case "traversal":
		stageTraversal(sink)
	case "cond":
		stageCond(sink)
	case "putfault":
		stagePutFault(sink)
	case "putsteps":
		stagePutSteps(sink)
	case "headers":
		stageHeaders(sink)
	case "exotic":
		stageExotic(sink)
	case "types":
		stageTypes(sink)
	case "rootspell":
		stageRootSpell(sink)
	case "wfault":
		stageWFault(sink)
	case "rfault":
		stageRFault(sink)
	case "raceput":
		stageRacePut(sink)
	case "tworoots":
		stageTwoRoots(sink)
	default:
		fmt.Fprintln(os.Stderr, "unknown stage")
		os.Exit(2)
	}
	fmt.Fprintf(os.Stderr, "dav/%s: %d cases\n", *stage, sink.N)
}
