// Command dav explores the real webdav.Handler{LocalFileSystem} on real directories.
//
//	-stage universe   every (tree, request) pair of the bounded universe of C01
//	-stage history    seeded random request histories over larger trees and odd names
//	-stage paths      path.Clean / localPath against the model on all short strings
//	-stage traversal  traversal-shaped request targets and Destinations in a sandbox with canaries (C03)
//	-stage cond       the If-Match / If-None-Match table (C04)
//	-stage putfault   PUT bodies that break off after k bytes (C02)
//
// Case line: (root ..) (tree <before>) (req ..) (drv ..) (obs ..) (after <after>)
package main

import (
	"bufio"
	"context"
	"flag"
	"fmt"
	"net/http"
	"net/url"
	"os"
	"path"
	"path/filepath"
	"runtime"
	"strings"
	"sync"

	webdav "github.com/emersion/go-webdav"

	"verifharness/davx"
	"verifharness/hx"
)

var scratch string

func workerDir(w int) string { return filepath.Join(scratch, fmt.Sprintf("w%d", w), "verif-sb-7f3a") }

// job: a sandbox tree and the requests to try on it, each from the same start state.
type job struct {
	tree *davx.Node
	reqs []davx.Req
	hist bool // requests form a history (state carries over)
}

func runJobs(jobs <-chan job, sink *hx.Sink, rootRel []string) {
	var wg sync.WaitGroup
	for w := 0; w < runtime.NumCPU(); w++ {
		wg.Add(1)
		go func(w int) {
			defer wg.Done()
			sb := davx.NewSandbox(workerDir(w), rootRel)
			for j := range jobs {
				if err := sb.Reset(j.tree); err != nil {
					fmt.Fprintln(os.Stderr, "dav: reset:", err)
					os.Exit(2)
				}
				before := davx.Snapshot(sb.Dir)
				for _, r := range j.reqs {
					d, o, after := sb.Do(r, before)
					sink.Put(davx.Line(sb, before, r, d, o, after))
					if j.hist {
						before = after
					} else if !after.SameShape(before) || (r.Method == "PUT" && o.Status < 300) {
						if err := sb.Reset(j.tree); err != nil {
							fmt.Fprintln(os.Stderr, "dav: reset:", err)
							os.Exit(2)
						}
						before = davx.Snapshot(sb.Dir)
					}
				}
			}
			os.RemoveAll(filepath.Dir(sb.Dir))
		}(w)
	}
	wg.Wait()
}

// ---- the bounded universe of C01

func memberChoices() []*davx.Node {
	leaf := []*davx.Node{nil, davx.File("x"), davx.File("y"), davx.Dir()}
	out := []*davx.Node{nil, davx.File("x"), davx.File("y")}
	for _, a := range leaf {
		for _, b := range leaf {
			d := davx.Dir()
			if a != nil {
				d.Put("a", a.Clone())
			}
			if b != nil {
				d.Put("b", b.Clone())
			}
			out = append(out, d)
		}
	}
	return out
}

func universeTrees() []*davx.Node {
	var out []*davx.Node
	ms := memberChoices()
	for _, a := range ms {
		for _, b := range ms {
			root := davx.Dir()
			if a != nil {
				root.Put("a", a.Clone())
			}
			if b != nil {
				root.Put("b", b.Clone())
			}
			out = append(out, davx.Dir("canary", davx.File("CANARY"), "root", root))
		}
	}
	// nothing mapped at the root
	out = append(out, davx.Dir("canary", davx.File("CANARY")))
	return out
}

var uPaths = []string{"/", "/a", "/b", "/a/a", "/a/b", "/b/a", "/b/b", "/a/a/a"}

func universeReqs(thorough bool) []davx.Req {
	var out []davx.Req
	pathsSl := append([]string{}, uPaths...)
	for _, p := range []string{"/a/", "/a/b/", "/b//a", "/a/./b", "/a/../b"} {
		pathsSl = append(pathsSl, p)
	}
	for _, m := range []string{"OPTIONS", "GET", "HEAD", "DELETE", "FOO"} {
		for _, p := range pathsSl {
			out = append(out, davx.NewReq(m, p))
		}
	}
	for _, p := range pathsSl {
		for _, b := range []string{"x", "y"} {
			r := davx.NewReq("PUT", p)
			r.Body = b
			out = append(out, r)
		}
		for _, ct := range []string{"", "text/plain"} {
			r := davx.NewReq("MKCOL", p)
			r.CType = ct
			out = append(out, r)
		}
	}
	depths := []string{"", "0", "1", "infinity", "2"}
	pfbs := []string{"none", "allprop", "propname", "empty", "bad", "junk"}
	for _, p := range pathsSl {
		for _, d := range depths {
			for _, b := range pfbs {
				if !thorough && b != "none" && d != "" && d != "1" {
					continue
				}
				r := davx.NewReq("PROPFIND", p)
				r.Depth = d
				r.PfBody = b
				out = append(out, r)
			}
		}
	}
	dests := append([]string{}, uPaths...)
	dests = append(dests, "", "%zz", "b", "http://other.example/b", "/b/", "//h/a/b")
	type hdr struct{ depth, ow string }
	// quick: the valid combinations that differ in meaning, on every (source, destination);
	// invalid header values on a reduced set of destinations
	valid := []hdr{{"", ""}, {"0", ""}, {"", "F"}, {"0", "F"}}
	invalid := []hdr{{"1", ""}, {"2", ""}, {"", "X"}}
	if thorough {
		valid = nil
		invalid = nil
		for _, d := range depths {
			for _, ow := range []string{"", "T", "F", "X"} {
				valid = append(valid, hdr{d, ow})
			}
		}
	}
	for _, m := range []string{"COPY", "MOVE"} {
		for _, p := range uPaths {
			for _, dst := range dests {
				for _, h := range valid {
					r := davx.NewReq(m, p)
					r.Dest, r.Depth, r.Overwrite = dst, h.depth, h.ow
					out = append(out, r)
				}
			}
			for _, dst := range []string{"/b", "/a/b"} {
				for _, h := range invalid {
					r := davx.NewReq(m, p)
					r.Dest, r.Depth, r.Overwrite = dst, h.depth, h.ow
					out = append(out, r)
				}
			}
		}
	}
	return out
}

func stageUniverse(sink *hx.Sink) {
	thorough := hx.Tier() == "thorough"
	reqs := universeReqs(thorough)
	jobs := make(chan job, 64)
	go func() {
		for _, t := range universeTrees() {
			// split the request list so that all cores stay busy
			const chunk = 400
			for i := 0; i < len(reqs); i += chunk {
				j := i + chunk
				if j > len(reqs) {
					j = len(reqs)
				}
				jobs <- job{tree: t, reqs: reqs[i:j]}
			}
		}
		close(jobs)
	}()
	runJobs(jobs, sink, []string{"root"})
}

// ---- random histories over larger universes

var oddNames = []string{"a", "b", "a b", "%41", "é", "x#y?z", "c.txt", "..x", "a;b", "+", "q'\"<&>"}

func randTree(rng *hx.Rand, depth int) *davx.Node {
	d := davx.Dir()
	n := rng.Intn(4)
	for i := 0; i < n; i++ {
		name := rng.Pick(oddNames)
		if depth > 0 && rng.Chance(2, 5) {
			d.Put(name, randTree(rng, depth-1))
		} else {
			d.Put(name, davx.File(rng.Pick([]string{"", "x", "y", "hello world", "\x00\xff"})))
		}
	}
	return d
}

func randPath(rng *hx.Rand) string {
	n := rng.Intn(4)
	p := ""
	for i := 0; i < n; i++ {
		p += "/" + rng.Pick(oddNames)
	}
	if p == "" {
		p = "/"
	}
	if rng.Chance(1, 12) {
		p += "/"
	}
	if rng.Chance(1, 25) {
		p = strings.Replace(p, "/", "/../", 1)
	}
	return p
}

func randReq(rng *hx.Rand) davx.Req {
	m := rng.Pick([]string{"PUT", "PUT", "MKCOL", "MKCOL", "DELETE", "COPY", "COPY", "MOVE", "MOVE", "PROPFIND", "GET", "HEAD", "OPTIONS", "BREW"})
	r := davx.NewReq(m, randPath(rng))
	switch m {
	case "PUT":
		r.Body = rng.Pick([]string{"", "x", "new content", "z\n"})
		if rng.Chance(1, 10) {
			r.FailAfter = rng.Intn(len(r.Body) + 1)
		}
		if rng.Chance(1, 8) {
			r.IfNoneMatch = "*"
		}
	case "MKCOL":
		if rng.Chance(1, 15) {
			r.CType = "application/xml"
		}
	case "COPY", "MOVE":
		dp := randPath(rng)
		switch rng.Intn(6) {
		case 0:
			r.Dest = "http://example.org" + (&url.URL{Path: dp}).EscapedPath()
		default:
			r.Dest = (&url.URL{Path: dp}).EscapedPath()
		}
		if rng.Chance(1, 30) {
			r.Dest = ""
		}
		r.Overwrite = rng.Pick([]string{"", "", "T", "F", "F", "x"})
		r.Depth = rng.Pick([]string{"", "", "infinity", "0", "1", "9"})
	case "PROPFIND":
		r.Depth = rng.Pick([]string{"", "0", "1", "infinity", "x"})
		r.PfBody = rng.Pick([]string{"none", "none", "allprop", "propname", "empty", "bad", "junk"})
	}
	return r
}

func stageHistory(sink *hx.Sink) {
	n := 1500
	if hx.Tier() == "thorough" {
		n = 20000
	}
	rng := hx.NewRand(hx.Seed())
	jobs := make(chan job, 64)
	go func() {
		for i := 0; i < n; i++ {
			r := rng.Fork(i)
			tree := davx.Dir("canary", davx.File("CANARY"), "root", randTree(r, 3))
			var reqs []davx.Req
			for k := 0; k < 40; k++ {
				reqs = append(reqs, randReq(r))
			}
			jobs <- job{tree: tree, reqs: reqs, hist: true}
		}
		close(jobs)
	}()
	runJobs(jobs, sink, []string{"root"})
}

// ---- path functions

func stagePaths(sink *hx.Sink) {
	maxLen := 8
	if hx.Tier() == "thorough" {
		maxLen = 10
	}
	alpha := []byte{'/', '.', 'a'}
	fs := webdav.LocalFileSystem("/srv/dav root")
	emit := func(s string) {
		sink.Put(hx.L("clean", hx.S(s), hx.S(path.Clean(s))))
		out := "-"
		if p, err := webdav.VerifLocalPath(fs, s); err == nil {
			out = hx.S(p)
		}
		sink.Put(hx.L("lpath", hx.S(string(fs)), hx.S(s), out))
	}
	var rec func(prefix []byte)
	rec = func(prefix []byte) {
		emit(string(prefix))
		if len(prefix) == maxLen {
			return
		}
		for _, c := range alpha {
			rec(append(append([]byte{}, prefix...), c))
		}
	}
	rec(nil)
	rng := hx.NewRand(hx.Seed())
	frag := []string{"/", "//", ".", "..", "...", "a", "b c", "\\", "\x00", "%2e%2e", "é", "..a", "a..", "./", "../", "/.."}
	n := 20000
	if hx.Tier() == "thorough" {
		n = 300000
	}
	for i := 0; i < n; i++ {
		s := ""
		k := rng.Intn(9)
		for j := 0; j < k; j++ {
			s += rng.Pick(frag)
		}
		emit(s)
	}
}

// ---- traversal (C03): request lines through http.ReadRequest so that net/http's own
// decoding of the target is inside the loop

func traversalTargets(rng *hx.Rand, n int) []string {
	segs := []string{"..", ".", "a", "root", "rootx", "up", "canary", "%2e%2e", "%2E%2E", "..%2f", "%2f", "%5c", "..%5c", "%00", "\\", "..\\", "%252e%252e", "a%2f..%2f..", "é", "%c0%ae%c0%ae", "....", ".%2e"}
	var out []string
	// systematic: dot-dot at every position of /a/b/c-like paths
	base := [][]string{{"a"}, {"a", "b"}, {"a", "a", "canary"}, {"root"}, {"canary"}, {"rootx", "secret"}}
	for _, b := range base {
		for pos := 0; pos <= len(b); pos++ {
			for k := 1; k <= 4; k++ {
				var s []string
				s = append(s, b[:pos]...)
				for i := 0; i < k; i++ {
					s = append(s, "..")
				}
				s = append(s, b[pos:]...)
				out = append(out, "/"+strings.Join(s, "/"))
				out = append(out, "/"+strings.Join(s, "//"))
				out = append(out, "/"+strings.Join(s, "/")+"/")
			}
		}
	}
	out = append(out, "/../canary", "/../../canary", "/..%2fcanary", "/%2e%2e/canary", "/a/../../canary", "//canary", "/..", "/../", "/.", "/../rootx/secret",
		"/../root/a", "/a/%2e%2e/%2e%2e/canary", "/..\\canary", "/%5c..%5ccanary", "/a%00b", "/%00", "http://evil.example/../canary", "//evil.example/../../canary",
		"/../root", "/../rootx", "/a/../../rootx/secret", "*")
	for i := 0; i < n; i++ {
		k := 1 + rng.Intn(6)
		s := ""
		for j := 0; j < k; j++ {
			s += "/" + rng.Pick(segs)
		}
		if rng.Chance(1, 10) {
			s = s[1:]
		}
		out = append(out, s)
	}
	return out
}

func stageTraversal(sink *hx.Sink) {
	rng := hx.NewRand(hx.Seed())
	n := 300
	if hx.Tier() == "thorough" {
		n = 3000
	}
	targets := traversalTargets(rng, n)
	tree := func() *davx.Node {
		return davx.Dir(
			"canary", davx.File("CANARY-TOP"),
			"rootx", davx.Dir("secret", davx.File("CANARY-SIBLING")),
			"up", davx.Dir("canary", davx.File("CANARY-UP")),
			"root", davx.Dir("a", davx.Dir("a", davx.File("inner"), "canary", davx.File("inside")), "b", davx.File("bee"), "canary", davx.File("inside-top")),
		)
	}
	methods := []string{"GET", "HEAD", "OPTIONS", "PUT", "DELETE", "MKCOL", "PROPFIND", "COPY", "MOVE"}
	type tcase struct {
		method, target, dest string
	}
	var cases []tcase
	for _, t := range targets {
		for _, m := range methods {
			switch m {
			case "COPY", "MOVE":
				cases = append(cases, tcase{m, t, "/b"}) // hostile source, plain destination
				cases = append(cases, tcase{m, "/b", t}) // plain source, hostile destination
				cases = append(cases, tcase{m, "/a", t}) // collection source
			default:
				cases = append(cases, tcase{m, t, ""})
			}
		}
	}
	jobs := make(chan []tcase, 64)
	go func() {
		const chunk = 200
		for i := 0; i < len(cases); i += chunk {
			j := i + chunk
			if j > len(cases) {
				j = len(cases)
			}
			jobs <- cases[i:j]
		}
		close(jobs)
	}()
	var wg sync.WaitGroup
	for w := 0; w < runtime.NumCPU(); w++ {
		wg.Add(1)
		go func(w int) {
			defer wg.Done()
			sb := davx.NewSandbox(workerDir(w), []string{"root"})
			t0 := tree()
			sb.Reset(t0)
			before := davx.Snapshot(sb.Dir)
			for js := range jobs {
				for _, c := range js {
					// let net/http parse the request line: what reaches the handler is r.URL.Path
					raw := c.method + " " + c.target + " HTTP/1.1\r\nHost: h\r\n\r\n"
					hr, err := http.ReadRequest(bufio.NewReader(strings.NewReader(raw)))
					if err != nil {
						continue // net/http itself refuses the request line
					}
					r := davx.NewReq(c.method, hr.URL.Path)
					r.Dest = c.dest
					if c.method == "PUT" {
						r.Body = "pwned"
					}
					d, o, after := sb.Do(r, before)
					sink.Put(davx.Line(sb, before, r, d, o, after))
					if !after.SameShape(before) || c.method == "PUT" {
						sb.Reset(t0)
						before = davx.Snapshot(sb.Dir)
					}
				}
			}
			os.RemoveAll(filepath.Dir(sb.Dir))
		}(w)
	}
	wg.Wait()
}

// ---- conditional requests (C04)

func stageCond(sink *hx.Sink) {
	// resource states: absent, file, collection; header values built around the current tag
	jobs := make(chan job, 64)
	go func() {
		for _, state := range []string{"absent", "file", "dir"} {
			root := davx.Dir("other", davx.File("zzz"))
			switch state {
			case "file":
				root.Put("t", davx.File("content"))
			case "dir":
				root.Put("t", davx.Dir("m", davx.File("member")))
			}
			jobs <- job{tree: davx.Dir("root", root), reqs: []davx.Req{davx.NewReq("COND", state)}}
		}
		close(jobs)
	}()
	// the cond stage needs the current tag, so it runs its own loop
	var wg sync.WaitGroup
	var mu sync.Mutex
	w := 0
	for j := range jobs {
		wg.Add(1)
		mu.Lock()
		w++
		wi := w
		mu.Unlock()
		go func(j job, wi int) {
			defer wg.Done()
			sb := davx.NewSandbox(workerDir(100+wi), []string{"root"})
			state := j.reqs[0].Path
			reset := func() *davx.Node {
				sb.Reset(j.tree)
				return davx.Snapshot(sb.Dir)
			}
			before := reset()
			// the stale tag: the tag of the resource before it was last rewritten
			stale := `"0deadbeef7"`
			values := func(cur string) []string {
				vs := []string{"", "*", stale, `"other"`, `unquoted`, `W/"weak"`, `"a", "b"`, `'a'`, "`raw`", `"`, `"\q"`}
				if cur != "" {
					vs = append(vs, cur, cur+" ", strings.Trim(cur, `"`))
				}
				return vs
			}
			for _, m := range []string{"PUT", "DELETE"} {
				cur := ""
				if fi, err := sb.FS.Stat(context.Background(), "/t"); err == nil {
					cur = `"` + fi.ETag + `"`
				}
				for _, im := range values(cur) {
					for _, inm := range values(cur) {
						r := davx.NewReq(m, "/t")
						r.IfMatch, r.IfNoneMatch = im, inm
						r.Body = "content"
						if fi, err := sb.FS.Stat(context.Background(), "/t"); err == nil {
							// keep header values in step with the tag of the rebuilt file
							now := `"` + fi.ETag + `"`
							if cur != "" && now != cur {
								r.IfMatch = strings.ReplaceAll(r.IfMatch, strings.Trim(cur, `"`), strings.Trim(now, `"`))
								r.IfNoneMatch = strings.ReplaceAll(r.IfNoneMatch, strings.Trim(cur, `"`), strings.Trim(now, `"`))
							}
						}
						d, o, after := sb.Do(r, before)
						sink.Put(davx.Line(sb, before, r, d, o, after))
						before = reset()
					}
				}
			}
			_ = state
			os.RemoveAll(filepath.Dir(sb.Dir))
		}(j, wi)
	}
	wg.Wait()
}

// ---- PUT bodies that break off (C02)

func stagePutFault(sink *hx.Sink) {
	sizes := []int{0, 1, 5, 32767, 32768, 32769, 100000}
	jobs := make(chan job, 64)
	go func() {
		for _, target := range []string{"absent", "file", "dir", "noparent", "underfile"} {
			root := davx.Dir("keep", davx.File("keep me"))
			p := "/t"
			switch target {
			case "file":
				root.Put("t", davx.File("old content that must survive"))
			case "dir":
				root.Put("t", davx.Dir("m", davx.File("member")))
			case "noparent":
				p = "/nodir/t"
			case "underfile":
				p = "/keep/t"
			}
			var reqs []davx.Req
			for _, sz := range sizes {
				body := strings.Repeat("Z", sz)
				ks := map[int]bool{0: true, 1: true, 2: true, sz - 1: true, sz: true, 32767: true, 32768: true, 32769: true, -1: true}
				for k := range ks {
					if k > sz || (k < 0 && k != -1) {
						continue
					}
					r := davx.NewReq("PUT", p)
					r.Body = body
					r.FailAfter = k
					reqs = append(reqs, r)
				}
			}
			jobs <- job{tree: davx.Dir("root", root), reqs: reqs}
		}
		close(jobs)
	}()
	runJobs(jobs, sink, []string{"root"})
}

func main() {
	out := flag.String("out", "", "output file")
	replay := flag.String("replay", "", "file of case lines to re-run")
	stage := flag.String("stage", "universe", "universe|history|paths|traversal|cond|putfault")
	flag.Parse()
	scratch = os.Getenv("VERIF_SCRATCH")
	if scratch == "" {
		scratch = filepath.Join("/dev/shm", fmt.Sprintf("verif.%d", os.Getpid()))
		defer os.RemoveAll(scratch)
	}
	scratch = filepath.Join(scratch, "dav-"+*stage)
	os.MkdirAll(scratch, 0755)
	defer os.RemoveAll(scratch)
	sink := hx.NewSink(*out)
	defer sink.Close()

	if *replay != "" {
		sb := davx.NewSandbox(workerDir(0), nil)
		for _, l := range hx.ReadLines(*replay) {
			items := hx.MustParse(l)
			switch items[0].Head() {
			case "clean":
				s := items[0].List[1].Str()
				sink.Put(hx.L("clean", hx.S(s), hx.S(path.Clean(s))))
			case "lpath":
				root, s := items[0].List[1].Str(), items[0].List[2].Str()
				o := "-"
				if p, err := webdav.VerifLocalPath(webdav.LocalFileSystem(root), s); err == nil {
					o = hx.S(p)
				}
				sink.Put(hx.L("lpath", hx.S(root), hx.S(s), o))
			case "root":
				var rootRel []string
				for _, a := range items[0].Args() {
					rootRel = append(rootRel, a.Str())
				}
				sb = davx.NewSandbox(workerDir(0), rootRel)
				tree := davx.ParseNode(items[1].List[1])
				sb.Reset(tree)
				before := davx.Snapshot(sb.Dir)
				r := davx.ParseReq(items[2])
				d, o, after := sb.Do(r, before)
				sink.Put(davx.Line(sb, before, r, d, o, after))
			}
		}
		os.RemoveAll(filepath.Dir(sb.Dir))
		return
	}

	switch *stage {
	case "universe":
		stageUniverse(sink)
	case "history":
		stageHistory(sink)
	case "paths":
		stagePaths(sink)
	case "traversal":
		stageTraversal(sink)
	case "cond":
		stageCond(sink)
	case "putfault":
		stagePutFault(sink)
	default:
		fmt.Fprintln(os.Stderr, "unknown stage")
		os.Exit(2)
	}
	fmt.Fprintf(os.Stderr, "dav/%s: %d cases\n", *stage, sink.N)
}
