package main

// Raw-request universe and generators of stage (b), and the structural mutations of the
// separate malformed stream.

import (
	"verifharness/hx"
)

var (
	optTests  = []ostr{{}, some("anyof"), some("allof"), some(""), some("bogus"), some("ANYOF")}
	optMatch  = []ostr{{}, some("equals"), some("contains"), some("starts-with"), some("ends-with"), some(""), some("bogus"), some("Equals")}
	optNegate = []ostr{{}, some("yes"), some("no"), some(""), some("true"), some("YES")}
	rawLimits = []ostr{{}, some("1"), some("5"), some("0"), some(""), some("abc"), some("-1"), some("007"), some(" 7 "),
		some("18446744073709551615"), some("18446744073709551616"), some("9223372036854775807"), some("9223372036854775808"), some("1.0"), some("+5")}
	hrefPool = []string{"/ab/book/a.vcf", "/ab/book/a%20b.vcf", "/ab/book/%C3%BC.vcf", "http://example.org/ab/book/c.vcf?x=1#f",
		"rel/d.vcf", "/ab/book/a%2Fb", "%zz", "/ab/book/a b", "", "//host/p", "/ab/book/<&>'\""}
)

func selPool() []xSel {
	etag := xItem{ns: nsDAV, local: "getetag"}
	return []xSel{
		{kind: 'n'}, {kind: 'a'}, {kind: 'p'},
		{kind: 'P', items: []xItem{{addressData: true, all: true}}},
		{kind: 'P', items: []xItem{etag, {addressData: true, props: []string{"FN", "EMAIL"}}, {ns: nsDAV, local: "getlastmodified"}}},
		{kind: 'P', items: []xItem{etag}},
		{kind: 'P', items: []xItem{{addressData: true}, {ns: "urn:ext", local: "thing"}}},
	}
}

func genServer(jobs chan<- job, rng *hx.Rand, thorough bool) {
	count := uint64(0)
	put := func(r *xReq) {
		count++
		seed := rng.U64() >> 8
		if count%8 == 0 {
			seed = 0 // plain rendering
		}
		jobs <- job{server: r, seed: seed}
	}
	var x1, x1r []xTM
	for _, mt := range optMatch {
		for _, ng := range optNegate {
			x1 = append(x1, xTM{text: "a", neg: ng, mt: mt})
		}
	}
	for _, mt := range []ostr{{}, some("equals"), some("bogus")} {
		for _, ng := range []ostr{{}, some("yes"), some("no"), some("true")} {
			x1r = append(x1r, xTM{text: "p", neg: ng, mt: mt})
		}
	}
	x2 := []xTM{{text: "b"}, {text: " b ", neg: some("yes"), mt: some("ends-with")}, {text: "", mt: some("Bogus")}}
	if thorough {
		x2 = x1
	}
	var tmLists [][]xTM
	tmLists = append(tmLists, nil)
	for _, a := range x1 {
		tmLists = append(tmLists, []xTM{a})
		for _, b := range x2 {
			tmLists = append(tmLists, []xTM{a, b})
		}
	}
	var paramLists [][]xParam
	paramLists = append(paramLists, nil, []xParam{{name: "TYPE", kind: 'd'}}, []xParam{{name: "TYPE", kind: 'i'}})
	for _, t := range x1r {
		paramLists = append(paramLists, []xParam{{name: "TYPE", kind: 't', tm: t}})
	}
	// every single prop-filter
	for _, test := range optTests {
		put(&xReq{pfs: []xPF{{name: "FN", test: test, ind: true}}})
		for _, tms := range tmLists {
			for _, pas := range paramLists {
				put(&xReq{pfs: []xPF{{name: "FN", test: test, tms: tms, params: pas}}})
			}
		}
	}
	// query level
	small := []xPF{
		{name: "FN"},
		{name: "EMAIL", test: some("allof"), tms: []xTM{{text: "x", mt: some("equals")}, {text: "y", neg: some("yes")}}},
		{name: "N", ind: true},
		{name: "TEL", test: some("anyof"), tms: []xTM{{text: " q "}}, params: []xParam{{name: "TYPE", kind: 't', tm: xTM{text: "home", mt: some("starts-with"), neg: some("no")}}, {name: "PREF", kind: 'i'}}},
	}
	var filterSets [][]xPF
	filterSets = append(filterSets, nil)
	for _, a := range small {
		filterSets = append(filterSets, []xPF{a})
		for _, b := range small {
			filterSets = append(filterSets, []xPF{a, b})
		}
	}
	sels := selPool()
	for _, test := range optTests {
		for _, lim := range rawLimits {
			for _, s := range sels {
				for _, fs := range filterSets {
					put(&xReq{sel: s, test: test, limit: lim, pfs: fs})
				}
			}
		}
	}
	// multiget
	for _, s := range sels {
		put(&xReq{multiget: true, sel: s})
		for _, a := range hrefPool {
			put(&xReq{multiget: true, sel: s, hrefs: []string{a}})
			for _, b := range hrefPool {
				put(&xReq{multiget: true, sel: s, hrefs: []string{a, b, a}})
			}
		}
	}
	// the known finding's region, deterministically: prefixes named like attributes
	for i, fs := range filterSets {
		for k := 0; k < 4; k++ {
			jobs <- job{server: &xReq{sel: sels[i%len(sels)], pfs: fs}, seed: uint64(64*(i*4+k+1) + 63)}
		}
	}
	// random, larger; one in five structurally mutated (malformed stream)
	n := 8000
	if thorough {
		n = 80000
	}
	for i := 0; i < n; i++ {
		r := randomXReq(rng)
		seed := rng.U64() >> 8
		if i%5 == 4 {
			seed |= mutateFlag
		}
		jobs <- job{server: r, seed: seed}
	}
}

const (
	mutateFlag = uint64(1) << 60
	emptyFlag  = uint64(1) << 59 // the body is empty (malformed stream)
	truncFlag  = uint64(1) << 58 // the body breaks off after two thirds (malformed stream)
)

func randOpt(rng *hx.Rand, valid []string, junk []string) ostr {
	if rng.Chance(1, 3) {
		return ostr{}
	}
	if rng.Chance(1, 15) {
		return some(pickStr(rng, junk))
	}
	return some(pickStr(rng, valid))
}

func randXTM(rng *hx.Rand) xTM {
	return xTM{text: randText(rng),
		neg: randOpt(rng, []string{"yes", "no"}, []string{"", "true", "YES", "1", " yes"}),
		mt:  randOpt(rng, validMatch[1:], junkEnums)}
}

func randomXReq(rng *hx.Rand) *xReq {
	sels := selPool()
	r := &xReq{sel: sels[rng.Intn(len(sels))]}
	if r.sel.kind == 'P' && rng.Chance(1, 2) {
		it := xItem{addressData: true, all: rng.Chance(1, 3)}
		if !it.all {
			for k := rng.Intn(4); k > 0; k-- {
				it.props = append(it.props, pickStr(rng, propNames))
			}
		}
		r.sel = xSel{kind: 'P', items: []xItem{it, {ns: nsDAV, local: "getetag"}}}
	}
	if rng.Chance(1, 5) {
		r.multiget = true
		for k := 1 + rng.Intn(6); k > 0; k-- {
			r.hrefs = append(r.hrefs, pickStr(rng, hrefPool))
		}
		return r
	}
	r.test = randOpt(rng, []string{"anyof", "allof"}, junkEnums)
	if rng.Chance(1, 3) {
		r.limit = rawLimits[rng.Intn(len(rawLimits))]
		if rng.Chance(1, 2) {
			r.limit = some(hx.I(int64(1 + rng.Intn(100000))))
		}
	}
	for k := rng.Intn(6); k > 0; k-- {
		pf := xPF{name: pickStr(rng, propNames), test: randOpt(rng, []string{"anyof", "allof"}, junkEnums)}
		if rng.Chance(1, 5) {
			pf.ind = true
		} else {
			for m := rng.Intn(4); m > 0; m-- {
				pf.tms = append(pf.tms, randXTM(rng))
			}
			for m := rng.Intn(3); m > 0; m-- {
				pa := xParam{name: pickStr(rng, paramNames), kind: "dit"[rng.Intn(3)]}
				if pa.kind == 't' {
					pa.tm = randXTM(rng)
				}
				pf.params = append(pf.params, pa)
			}
		}
		r.pfs = append(r.pfs, pf)
	}
	return r
}

// ---- malformed stream: one structural mutation of the laid-out document ------------

func allNodes(n *wnode, acc *[]*wnode) {
	*acc = append(*acc, n)
	for _, k := range n.kids {
		allNodes(k, acc)
	}
}

func cloneNode(n *wnode) *wnode {
	c := *n
	c.kids = nil
	for _, k := range n.kids {
		c.kids = append(c.kids, cloneNode(k))
	}
	return &c
}

func mutate(root *wnode, rng *hx.Rand) {
	var nodes []*wnode
	allNodes(root, &nodes)
	var parents []*wnode
	for _, n := range nodes {
		if n.kind == 'E' {
			parents = append(parents, n)
		}
	}
	p := parents[rng.Intn(len(parents))]
	n := nodes[rng.Intn(len(nodes))]
	switch rng.Intn(9) {
	case 0: // repeat a child
		if len(p.kids) > 0 {
			p.kids = append(p.kids, cloneNode(p.kids[rng.Intn(len(p.kids))]))
		}
	case 1: // move an element to another namespace
		n.ns = pickStr(rng, []string{"urn:other", nsDAV, nsCard})
	case 2: // an extension element
		p.kids = append(p.kids, elemT("urn:ext", pickStr(rng, []string{"ext", "text-match", "is-not-defined", "prop", "limit"}), "x"))
	case 3: // is-not-defined next to other conditions
		p.kids = append(p.kids, elemZ(nsCard, "is-not-defined", nil))
	case 4: // an attribute in a foreign namespace, or an undeclared plain one
		if rng.Bool() {
			n.xattrs = append(n.xattrs, [3]string{"urn:ext", pickStr(rng, []string{"test", "name", "match-type", "negate-condition", "foo"}), pickStr(rng, []string{"allof", "zz", "yes", "equals"})})
		} else {
			n.attrs = append(n.attrs, [2]string{pickStr(rng, []string{"foo", "collation", "novalue", "content-type"}), pickStr(rng, []string{"i;octet", "yes", "no", "i;unicode-casemap"})})
		}
	case 5: // text where only elements belong
		p.kids = append(p.kids, &wnode{kind: 'X', text: pickStr(rng, []string{"x", " stray ", "0"})})
	case 6: // drop a child
		if len(p.kids) > 0 {
			i := rng.Intn(len(p.kids))
			p.kids = append(append([]*wnode{}, p.kids[:i]...), p.kids[i+1:]...)
		}
	case 7: // an element inside text content
		if n.kind == 'T' {
			n.kind = 'E'
			n.kids = []*wnode{{kind: 'X', text: n.text}, elemZ(nsCard, "b", nil), {kind: 'X', text: "tail"}}
		}
	case 8: // allprop and prop together, or a second nresults
		p.kids = append(p.kids, elemZ(nsCard, pickStr(rng, []string{"allprop", "prop", "nresults"}), nil))
	}
}
