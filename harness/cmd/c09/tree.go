package main

// XML bytes -> namespace-expanded element tree, using encoding/xml's tokenizer (the
// bytes <-> token step is Go's and is not modelled), plus the strictness checks Go's
// decoder does not make: every prefix used is declared, no attribute occurs twice.

import (
	"bytes"
	"encoding/xml"
	"fmt"
	"io"
	"strings"

	"verifharness/hx"
)

type node struct {
	kind  byte // 'e', 't', 'c'
	name  xml.Name
	attrs []xml.Attr
	kids  []*node
	text  string
}

func (n *node) sx() string {
	switch n.kind {
	case 't':
		return hx.L("t", hx.S(n.text))
	case 'c':
		return hx.L("c", hx.S(n.text))
	}
	var attrs []string
	for _, a := range n.attrs {
		attrs = append(attrs, hx.L(hx.S(a.Name.Space), hx.S(a.Name.Local), hx.S(a.Value)))
	}
	items := []string{"e", hx.S(n.name.Space), hx.S(n.name.Local), hx.L(attrs...)}
	for _, k := range n.kids {
		items = append(items, k.sx())
	}
	return hx.L(items...)
}

// parseTree returns the root element of the document.  Adjacent character data
// (text, CDATA sections, character references) is one text node; empty text is no node.
func parseTree(doc []byte) (*node, error) {
	if err := strictCheck(doc); err != nil {
		return nil, err
	}
	d := xml.NewDecoder(bytes.NewReader(doc))
	var stack []*node
	var root *node
	for {
		tok, err := d.Token()
		if err == io.EOF {
			break
		}
		if err != nil {
			return nil, err
		}
		switch t := tok.(type) {
		case xml.StartElement:
			n := &node{kind: 'e', name: t.Name, attrs: append([]xml.Attr(nil), t.Attr...)}
			if len(stack) > 0 {
				p := stack[len(stack)-1]
				p.kids = append(p.kids, n)
			} else if root != nil {
				return nil, fmt.Errorf("two root elements")
			} else {
				root = n
			}
			stack = append(stack, n)
		case xml.EndElement:
			stack = stack[:len(stack)-1]
		case xml.CharData:
			if len(stack) == 0 || len(t) == 0 {
				continue
			}
			p := stack[len(stack)-1]
			if k := len(p.kids); k > 0 && p.kids[k-1].kind == 't' {
				p.kids[k-1].text += string(t)
			} else {
				p.kids = append(p.kids, &node{kind: 't', text: string(t)})
			}
		case xml.Comment:
			if len(stack) > 0 {
				p := stack[len(stack)-1]
				p.kids = append(p.kids, &node{kind: 'c', text: string(t)})
			}
		}
	}
	if root == nil {
		return nil, fmt.Errorf("no root element")
	}
	return root, nil
}

// strictCheck walks the raw (untranslated) tokens with its own namespace scopes.
func strictCheck(doc []byte) error {
	d := xml.NewDecoder(bytes.NewReader(doc))
	type scope map[string]string
	scopes := []scope{{"xml": "http://www.w3.org/XML/1998/namespace"}}
	lookup := func(p string) (string, bool) {
		for i := len(scopes) - 1; i >= 0; i-- {
			if v, ok := scopes[i][p]; ok {
				return v, true
			}
		}
		return "", false
	}
	for {
		tok, err := d.RawToken()
		if err == io.EOF {
			return nil
		}
		if err != nil {
			return err
		}
		switch t := tok.(type) {
		case xml.StartElement:
			sc := scope{}
			for _, a := range t.Attr {
				if a.Name.Space == "xmlns" {
					if a.Value == "" {
						return fmt.Errorf("prefix %q undeclared with empty value", a.Name.Local)
					}
					sc[a.Name.Local] = a.Value
				} else if a.Name.Space == "" && a.Name.Local == "xmlns" {
					sc[""] = a.Value
				}
			}
			scopes = append(scopes, sc)
			if t.Name.Space != "" {
				if _, ok := lookup(t.Name.Space); !ok {
					return fmt.Errorf("undeclared element prefix %q", t.Name.Space)
				}
			}
			seen := map[string]bool{}
			for _, a := range t.Attr {
				key := a.Name.Space + ":" + a.Name.Local // lexical duplicate
				if seen[key] {
					return fmt.Errorf("duplicate attribute %s", key)
				}
				seen[key] = true
				if a.Name.Space != "" && a.Name.Space != "xmlns" {
					uri, ok := lookup(a.Name.Space)
					if !ok {
						return fmt.Errorf("undeclared attribute prefix %q", a.Name.Space)
					}
					ekey := "{" + uri + "}" + a.Name.Local // duplicate after expansion
					if seen[ekey] {
						return fmt.Errorf("duplicate attribute %s", ekey)
					}
					seen[ekey] = true
				}
				if strings.ContainsAny(a.Name.Local, " <>&") {
					return fmt.Errorf("bad attribute name")
				}
			}
		case xml.EndElement:
			scopes = scopes[:len(scopes)-1]
		}
	}
}
