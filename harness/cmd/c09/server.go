package main

// Stage (b): documents from the harness's own writer, sent as REPORT to the real
// carddav.Handler with a recording carddav.Backend.

import (
	"bytes"
	"context"
	"errors"
	"net/http/httptest"
	"net/url"
	"strconv"

	"github.com/emersion/go-vcard"
	"github.com/emersion/go-webdav"
	"github.com/emersion/go-webdav/carddav"

	"verifharness/hx"
)

type recorder struct{ calls []string }

var errNotFound = webdav.NewHTTPError(404, errors.New("not found"))

func (b *recorder) AddressBookHomeSetPath(ctx context.Context) (string, error) { return "/ab/", nil }
func (b *recorder) ListAddressBooks(ctx context.Context) ([]carddav.AddressBook, error) {
	return nil, nil
}
func (b *recorder) GetAddressBook(ctx context.Context, path string) (*carddav.AddressBook, error) {
	return nil, errNotFound
}
func (b *recorder) CreateAddressBook(ctx context.Context, ab *carddav.AddressBook) error { return nil }
func (b *recorder) DeleteAddressBook(ctx context.Context, path string) error            { return nil }
func (b *recorder) GetAddressObject(ctx context.Context, path string, req *carddav.AddressDataRequest) (*carddav.AddressObject, error) {
	b.calls = append(b.calls, hx.L("g", hx.S(path), dataSx(req)))
	return nil, errNotFound
}
func (b *recorder) ListAddressObjects(ctx context.Context, path string, req *carddav.AddressDataRequest) ([]carddav.AddressObject, error) {
	b.calls = append(b.calls, "(other)")
	return nil, nil
}
func (b *recorder) QueryAddressObjects(ctx context.Context, path string, q *carddav.AddressBookQuery) ([]carddav.AddressObject, error) {
	b.calls = append(b.calls, hx.L("q", hx.S(path), querySx(q)))
	return nil, nil
}
func (b *recorder) PutAddressObject(ctx context.Context, path string, card vcard.Card, opts *carddav.PutAddressObjectOptions) (*carddav.AddressObject, error) {
	b.calls = append(b.calls, "(other)")
	return nil, nil
}
func (b *recorder) DeleteAddressObject(ctx context.Context, path string) error {
	b.calls = append(b.calls, "(other)")
	return nil
}
func (b *recorder) CurrentUserPrincipal(ctx context.Context) (string, error) { return "/", nil }

const reportPath = "/ab/book/"

func observeServer(doc []byte, contentType string) (obs string) {
	rec := &recorder{}
	defer func() {
		if r := recover(); r != nil {
			obs = hx.L(append([]string{"obs", "1", "0"}, rec.calls...)...)
		}
	}()
	h := &carddav.Handler{Backend: rec}
	req := httptest.NewRequest("REPORT", reportPath, bytes.NewReader(doc))
	req.Header.Set("Content-Type", contentType)
	req.Header.Set("Depth", "1")
	w := httptest.NewRecorder()
	h.ServeHTTP(w, req)
	return hx.L(append([]string{"obs", "0", strconv.Itoa(w.Code)}, rec.calls...)...)
}

// upTable: url.Parse applied to every href text of the raw request and to the character
// data of every DAV:href child of the root of the document actually sent.
func upTable(r *xReq, root *node) string {
	items := []string{"up"}
	seen := map[string]bool{}
	add := func(h string) {
		if seen[h] {
			return
		}
		seen[h] = true
		u, err := url.Parse(h)
		if err != nil {
			items = append(items, hx.L(hx.S(h), "err"))
		} else {
			items = append(items, hx.L(hx.S(h), "ok", hx.S(u.Path)))
		}
	}
	for _, h := range r.hrefs {
		add(h)
	}
	if root != nil {
		for _, k := range root.kids {
			if k.kind == 'e' && k.name.Local == "href" {
				text := ""
				for _, t := range k.kids {
					if t.kind == 't' {
						text += t.text
					}
				}
				add(text)
			}
		}
	}
	return hx.L(items...)
}

// execServer writes the raw request with the lexical style drawn from seed, parses the
// bytes back with encoding/xml's tokenizer (that tree is what the model is given) and
// sends the same bytes to the handler.
func execServer(r *xReq, seed uint64) string {
	st := newStyle(seed)
	doc := st.render(docOf(r))
	root, err := parseTree(doc)
	var treeSx string
	if err != nil {
		// the writer produced something the tokenizer refuses: a harness fault, made visible
		treeSx = hx.L("t", hx.S("unparsable: "+err.Error()))
	} else {
		treeSx = root.sx()
	}
	ct := "application/xml"
	if seed%3 == 1 {
		ct = "text/xml; charset=\"utf-8\""
	}
	xr := r.sx()
	if st.mutated {
		xr = hx.L("mut", xr)
	}
	in := hx.L("server", hx.S(reportPath), strconv.FormatUint(seed, 10), upTable(r, root), xr, treeSx)
	return in + " " + observeServer(doc, ct)
}
