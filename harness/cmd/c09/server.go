package main

// Stage (b): documents from the harness's own writer, sent as REPORT to the real
// carddav.Handler with a recording carddav.Backend.  A case is one request, or a
// sequence of requests served by ONE handler and ONE backend value (consecutively, or
// overlapping from several goroutines); every request is judged by the model on its own
// inputs, and what the backend was handed is kept and compared again when the sequence
// is over (a server that reuses or rewrites a value it gave to the backend shows there).

import (
	"bytes"
	"context"
	"errors"
	"io"
	"net/http"
	"net/http/httptest"
	"net/url"
	"strconv"
	"sync"
	"testing/iotest"

	"github.com/emersion/go-vcard"
	"github.com/emersion/go-webdav"
	"github.com/emersion/go-webdav/carddav"

	"verifharness/hx"
)

type recCall struct {
	sx   string
	q    *carddav.AddressBookQuery
	data *carddav.AddressDataRequest
}

type ctxKey struct{}

// recorder attributes every backend call to the request whose context carries its id.
type recorder struct {
	mu    sync.Mutex
	calls map[int][]recCall
}

func (b *recorder) add(ctx context.Context, c recCall) {
	id, _ := ctx.Value(ctxKey{}).(int)
	b.mu.Lock()
	b.calls[id] = append(b.calls[id], c)
	b.mu.Unlock()
}

var errNotFound = webdav.NewHTTPError(404, errors.New("not found"))

func (b *recorder) AddressBookHomeSetPath(ctx context.Context) (string, error) { return "/ab/", nil }
func (b *recorder) ListAddressBooks(ctx context.Context) ([]carddav.AddressBook, error) {
	return nil, nil
}
func (b *recorder) GetAddressBook(ctx context.Context, path string) (*carddav.AddressBook, error) {
	return nil, errNotFound
}
func (b *recorder) CreateAddressBook(ctx context.Context, ab *carddav.AddressBook) error { return nil }
func (b *recorder) DeleteAddressBook(ctx context.Context, path string) error             { return nil }
func (b *recorder) GetAddressObject(ctx context.Context, path string, req *carddav.AddressDataRequest) (*carddav.AddressObject, error) {
	b.add(ctx, recCall{sx: hx.L("g", hx.S(path), dataSx(req)), data: req})
	return nil, errNotFound
}
func (b *recorder) ListAddressObjects(ctx context.Context, path string, req *carddav.AddressDataRequest) ([]carddav.AddressObject, error) {
	b.add(ctx, recCall{sx: "(other)"})
	return nil, nil
}
func (b *recorder) QueryAddressObjects(ctx context.Context, path string, q *carddav.AddressBookQuery) ([]carddav.AddressObject, error) {
	b.add(ctx, recCall{sx: hx.L("q", hx.S(path), querySx(q)), q: q})
	return nil, nil
}
func (b *recorder) PutAddressObject(ctx context.Context, path string, card vcard.Card, opts *carddav.PutAddressObjectOptions) (*carddav.AddressObject, error) {
	b.add(ctx, recCall{sx: "(other)"})
	return nil, nil
}
func (b *recorder) DeleteAddressObject(ctx context.Context, path string) error {
	b.add(ctx, recCall{sx: "(other)"})
	return nil
}
func (b *recorder) CurrentUserPrincipal(ctx context.Context) (string, error) { return "/", nil }

// ---- how a request is put together from the seed (everything here must be irrelevant
// to the answer: the model is not told) -------------------------------------------------

var (
	contentTypes = []string{"application/xml", "text/xml; charset=\"utf-8\"", "application/xml", "Application/XML",
		"text/xml;charset=UTF-8", " application/xml", "application/xml ; charset=utf-8", "TEXT/XML"}
	depths       = []string{"1", "", "0", "infinity", "junk"}
	prefixes     = []string{"", "/", "/dav", "/dav/"}
	requestPaths = []string{"/ab/book/", "/ab/book/", "/ab/b%20k/", "/ab//book/./x"}
)

const (
	dExact = iota
	dUnknown
	dLarger
	dOneByte
	dDataEOF
	dCloseFails
	dChunked
)

type envOf struct {
	ct, depth, prefix, target string
	twoCT                     bool
	delivery                  int
}

func envFromSeed(seed uint64) envOf {
	if seed == 0 {
		return envOf{ct: contentTypes[0], depth: "1", target: requestPaths[0]}
	}
	s := seed &^ (mutateFlag | emptyFlag | truncFlag)
	e := envOf{
		ct:     contentTypes[s%8],
		twoCT:  s%16 == 7,
		depth:  depths[(s/8)%5],
		prefix: prefixes[(s/40)%4],
		target: requestPaths[(s/160)%4],
	}
	switch (s / 64) % 12 {
	case 4:
		e.delivery = dUnknown
	case 5:
		e.delivery = dLarger
	case 6:
		e.delivery = dOneByte
	case 7:
		e.delivery = dDataEOF
	case 8:
		e.delivery = dCloseFails
	case 9:
		if (s/768)%4 == 0 {
			e.delivery = dChunked
		}
	}
	return e
}

type plainReader struct{ r io.Reader } // hides Len(): the length is unknown

func (p plainReader) Read(b []byte) (int, error) { return p.r.Read(b) }

type closeFails struct{ io.Reader }

func (closeFails) Close() error { return errors.New("close failed") }

func newReport(e envOf, doc []byte, id int) *http.Request {
	var req *http.Request
	switch e.delivery {
	case dUnknown:
		req = httptest.NewRequest("REPORT", e.target, plainReader{bytes.NewReader(doc)})
	case dLarger:
		req = httptest.NewRequest("REPORT", e.target, bytes.NewReader(doc))
		req.ContentLength = int64(len(doc)) + 7
	case dOneByte:
		req = httptest.NewRequest("REPORT", e.target, plainReader{iotest.OneByteReader(bytes.NewReader(doc))})
	case dDataEOF:
		req = httptest.NewRequest("REPORT", e.target, plainReader{iotest.DataErrReader(bytes.NewReader(doc))})
	case dCloseFails:
		req = httptest.NewRequest("REPORT", e.target, nil)
		req.Body = closeFails{bytes.NewReader(doc)}
		req.ContentLength = int64(len(doc))
	default:
		if len(doc) == 0 {
			req = httptest.NewRequest("REPORT", e.target, nil)
			req.Body = http.NoBody
			req.ContentLength = 0
		} else {
			req = httptest.NewRequest("REPORT", e.target, bytes.NewReader(doc))
		}
	}
	req.Header.Set("Content-Type", e.ct)
	if e.twoCT {
		req.Header.Add("Content-Type", "text/plain")
	}
	if e.depth != "" {
		req.Header.Set("Depth", e.depth)
	}
	return req.WithContext(context.WithValue(req.Context(), ctxKey{}, id))
}

// targetPath is r.URL.Path for the request target, as net/http reads it.
func targetPath(target string) string {
	return httptest.NewRequest("REPORT", target, nil).URL.Path
}

type idHandler struct{ h http.Handler }

func (w idHandler) ServeHTTP(rw http.ResponseWriter, r *http.Request) {
	id, _ := strconv.Atoi(r.Header.Get("X-Verif-Id"))
	w.h.ServeHTTP(rw, r.WithContext(context.WithValue(r.Context(), ctxKey{}, id)))
}

// serveOne returns (panicked, status).
func serveOne(h *carddav.Handler, e envOf, doc []byte, id int) (panicked bool, status int) {
	defer func() {
		if r := recover(); r != nil {
			panicked, status = true, 0
		}
	}()
	if e.delivery == dChunked {
		srv := httptest.NewServer(idHandler{h})
		defer srv.Close()
		req, err := http.NewRequest("REPORT", srv.URL+e.target, plainReader{bytes.NewReader(doc)})
		if err != nil {
			return true, 0
		}
		req.ContentLength = -1 // chunked
		req.Header.Set("Content-Type", e.ct)
		if e.depth != "" {
			req.Header.Set("Depth", e.depth)
		}
		req.Header.Set("X-Verif-Id", strconv.Itoa(id))
		resp, err := srv.Client().Do(req)
		if err != nil {
			return true, 0 // the server goroutine recovered a panic and dropped the connection
		}
		io.Copy(io.Discard, resp.Body)
		resp.Body.Close()
		return false, resp.StatusCode
	}
	w := httptest.NewRecorder()
	h.ServeHTTP(w, newReport(e, doc, id))
	return false, w.Code
}

// upTable: url.Parse applied to every href text of the raw request and to the character
// data of every DAV:href child of the root of the document actually sent.
func upTable(r *xReq, root *node) string {
	items := []string{"up"}
	seen := map[string]bool{}
	add := func(h string) {
		if seen[h] {
			return
		}
		seen[h] = true
		u, err := url.Parse(h)
		if err != nil {
			items = append(items, hx.L(hx.S(h), "err"))
		} else {
			items = append(items, hx.L(hx.S(h), "ok", hx.S(u.Path)))
		}
	}
	for _, h := range r.hrefs {
		add(h)
	}
	if root != nil {
		for _, k := range root.kids {
			if k.kind == 'e' && k.name.Local == "href" {
				text := ""
				for _, t := range k.kids {
					if t.kind == 't' {
						text += t.text
					}
				}
				add(text)
			}
		}
	}
	return hx.L(items...)
}

type serverStep struct {
	r    *xReq
	seed uint64
}

func (s serverStep) sx() string { return hx.L(strconv.FormatUint(s.seed, 10), s.r.sx()) }

// execServerSeq writes every raw request with the lexical style drawn from its seed,
// parses the bytes back with encoding/xml's tokenizer (that tree is what the model is
// given) and sends the same bytes to ONE handler with ONE backend, one after the other or
// (overlap) all at once.  One line per request; the line of request k names requests
// 0..k-1 as its history (after ...), which -replay serves again.
func execServerSeq(steps []serverStep, overlap bool) []string {
	rec := &recorder{calls: map[int][]recCall{}}
	n := len(steps)
	type prepared struct {
		doc, orig []byte
		in        string
		e         envOf
	}
	ps := make([]prepared, n)
	hist := []string{"after"}
	if overlap {
		hist = []string{"overlap"}
	}
	for i, s := range steps {
		st := newStyle(s.seed)
		doc := st.render(docOf(s.r))
		root, err := parseTree(doc)
		var treeSx string
		if err != nil {
			// empty or cut-off body of the malformed stream, or a writer fault made visible
			treeSx = hx.L("t", hx.S("unparsable: "+err.Error()))
		} else {
			treeSx = root.sx()
		}
		xr := s.r.sx()
		if st.mutated {
			xr = hx.L("mut", xr)
		}
		e := envFromSeed(s.seed)
		items := []string{"server", hx.S(targetPath(e.target)), strconv.FormatUint(s.seed, 10), upTable(s.r, root), xr, treeSx}
		if i > 0 || overlap {
			h := append([]string(nil), hist...)
			if overlap { // all the others
				for j, o := range steps {
					if j != i {
						h = append(h, o.sx())
					}
				}
			}
			items = append(items, hx.L(h...))
		}
		if !overlap {
			hist = append(hist, s.sx())
		}
		ps[i] = prepared{doc: doc, orig: append([]byte(nil), doc...), in: hx.L(items...), e: e}
	}
	h := &carddav.Handler{Backend: rec}
	panicked := make([]bool, n)
	status := make([]int, n)
	if overlap {
		h.Prefix = ps[0].e.prefix
		var wg sync.WaitGroup
		for i := range ps {
			wg.Add(1)
			go func(i int) {
				defer wg.Done()
				panicked[i], status[i] = serveOne(h, ps[i].e, ps[i].doc, i)
			}(i)
		}
		wg.Wait()
	} else {
		for i := range ps {
			h.Prefix = ps[i].e.prefix
			panicked[i], status[i] = serveOne(h, ps[i].e, ps[i].doc, i)
		}
	}
	lines := make([]string, n)
	for i := range ps {
		p := "0"
		if panicked[i] {
			p = "1"
		}
		items := []string{"obs", p, strconv.Itoa(status[i])}
		rec.mu.Lock()
		calls := rec.calls[i]
		rec.mu.Unlock()
		for _, c := range calls {
			items = append(items, c.sx)
			// what the backend was handed, looked at again now that everything is over
			now := c.sx
			if c.q != nil {
				now = hx.L("q", hx.MustParse(c.sx)[0].Args()[0].String(), querySx(c.q))
			} else if c.data != nil {
				now = hx.L("g", hx.MustParse(c.sx)[0].Args()[0].String(), dataSx(c.data))
			}
			if now != c.sx {
				items = append(items, "(bad backend-argument-changed-later)")
			}
		}
		if !bytes.Equal(ps[i].doc, ps[i].orig) {
			items = append(items, "(bad request-bytes-modified)")
		}
		lines[i] = ps[i].in + " " + hx.L(items...)
	}
	return lines
}

func execServer(r *xReq, seed uint64) string {
	return execServerSeq([]serverStep{{r, seed}}, false)[0]
}
