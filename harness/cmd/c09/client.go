package main

// Stage (a): the real carddav.Client with a capturing webdav.HTTPClient.  A case is one
// call, or a sequence of calls on ONE client: the same request value passed again with
// other arguments ("same"), or values that share slices and pointers with the first
// ("shared").  Every call is judged by the model on its own inputs; the values the
// caller passed are compared with what they were (also the spare capacity of their
// slices), and the results of earlier calls are compared again at the end.

import (
	"context"
	"encoding/json"
	"io"
	"net/http"
	"net/url"
	"strings"

	"github.com/emersion/go-webdav/carddav"

	"verifharness/hx"
)

type capture struct {
	method string
	body   []byte
	sent   bool
}

const cannedAnswer = `<?xml version="1.0" encoding="UTF-8"?><multistatus xmlns="DAV:"><response><href>/ab/book/a.vcf</href>` +
	`<propstat><prop><getetag>"e1"</getetag><address-data xmlns="urn:ietf:params:xml:ns:carddav">BEGIN:VCARD&#13;&#10;VERSION:4.0&#13;&#10;FN:A&#13;&#10;END:VCARD&#13;&#10;</address-data></prop>` +
	`<status>HTTP/1.1 200 OK</status></propstat></response></multistatus>`

func (c *capture) Do(req *http.Request) (*http.Response, error) {
	c.sent = true
	c.method = req.Method
	if req.Body != nil {
		c.body, _ = io.ReadAll(req.Body)
	}
	return &http.Response{
		StatusCode: 207,
		Header:     http.Header{"Content-Type": {"text/xml; charset=\"utf-8\""}},
		Body:       io.NopCloser(strings.NewReader(cannedAnswer)),
	}, nil
}

func usTable(ci *clientInput) string {
	items := []string{"us"}
	seen := map[string]bool{}
	add := func(p string) {
		if !seen[p] {
			seen[p] = true
			items = append(items, hx.L(hx.S(p), hx.S((&url.URL{Path: p}).String())))
		}
	}
	if ci.multiget {
		add(ci.path)
		for _, p := range ci.mg.Paths {
			add(p)
		}
	}
	return hx.L(items...)
}

const sentinel = "\x00verif-sentinel"

// withSpare re-allocates every slice of the value with two spare elements of capacity
// holding a sentinel, so that an append by the callee into the caller's array shows.
func spareStrings(l []string) []string {
	if l == nil {
		return nil
	}
	n := make([]string, len(l), len(l)+2)
	copy(n, l)
	n = append(n, sentinel, sentinel)
	return n[:len(l)]
}

func spareOK(l []string) bool {
	if l == nil {
		return true
	}
	f := l[:cap(l)]
	return len(f) >= len(l)+2 && f[len(l)] == sentinel && f[len(l)+1] == sentinel
}

func sparePFs(l []carddav.PropFilter) []carddav.PropFilter {
	if l == nil {
		return nil
	}
	n := make([]carddav.PropFilter, len(l), len(l)+2)
	copy(n, l)
	n = append(n, carddav.PropFilter{Name: sentinel}, carddav.PropFilter{Name: sentinel})
	return n[:len(l)]
}

func sparePFsOK(l []carddav.PropFilter) bool {
	if l == nil {
		return true
	}
	f := l[:cap(l)]
	return len(f) >= len(l)+2 && f[len(l)].Name == sentinel && f[len(l)+1].Name == sentinel
}

// callValue is what is handed to the client for one call.
type callValue struct {
	in *clientInput // the input as the model is told (a snapshot, never handed to the client)
	q  *carddav.AddressBookQuery
	mg *carddav.AddressBookMultiGet
	// slices that alias another value's array have no spare capacity of their own
	aliasMain, aliasProps bool
}

func (v *callValue) now() string {
	if v.mg != nil {
		c := clientInput{multiget: true, path: v.in.path, mg: *v.mg}
		return c.sx()
	}
	return querySx(v.q)
}

func (v *callValue) spareIntact() bool {
	if v.mg != nil {
		return (v.aliasMain || spareOK(v.mg.Paths)) && (v.aliasProps || spareOK(v.mg.DataRequest.Props))
	}
	return (v.aliasMain || sparePFsOK(v.q.PropFilters)) && (v.aliasProps || spareOK(v.q.DataRequest.Props))
}

func buildValue(ci *clientInput) *callValue {
	// a deep, independent copy through the S-expression
	c := parseClientInput(hx.MustParse(ci.sx())[0])
	v := &callValue{in: c}
	f := parseClientInput(hx.MustParse(ci.sx())[0])
	if f.multiget {
		f.mg.Paths = spareStrings(f.mg.Paths)
		f.mg.DataRequest.Props = spareStrings(f.mg.DataRequest.Props)
		v.mg = &f.mg
	} else {
		f.query.PropFilters = sparePFs(f.query.PropFilters)
		f.query.DataRequest.Props = spareStrings(f.query.DataRequest.Props)
		v.q = &f.query
	}
	return v
}

func isPrefixSx(a, b []string) bool {
	if len(a) > len(b) {
		return false
	}
	for i := range a {
		if a[i] != b[i] {
			return false
		}
	}
	return true
}

func pfSxs(q *carddav.AddressBookQuery) []string {
	var l []string
	for i := range q.PropFilters {
		one := carddav.AddressBookQuery{PropFilters: q.PropFilters[i : i+1]}
		l = append(l, querySx(&one))
	}
	return l
}

// buildValues: mode "same" hands the one value of step 0 to every call (the steps differ
// in the path argument only); mode "shared" lets later values alias the slices (and with
// them the TextMatch pointers) of the first wherever theirs are a prefix of its.
func buildValues(steps []*clientInput, mode string) []*callValue {
	vals := make([]*callValue, len(steps))
	for i, s := range steps {
		switch {
		case i == 0 || mode == "":
			vals[i] = buildValue(s)
		case mode == "same":
			c := parseClientInput(hx.MustParse(s.sx())[0])
			vals[i] = &callValue{in: c, q: vals[0].q, mg: vals[0].mg, aliasMain: true, aliasProps: true}
		default: // shared
			v := buildValue(s)
			b := vals[0]
			if v.q != nil && b.q != nil {
				if n := len(v.q.PropFilters); n > 0 && isPrefixSx(pfSxs(v.q), pfSxs(b.q)) {
					v.q.PropFilters, v.aliasMain = b.q.PropFilters[:n], true
				}
				if n := len(v.q.DataRequest.Props); n > 0 && isPrefixSx(v.q.DataRequest.Props, b.q.DataRequest.Props) {
					v.q.DataRequest.Props, v.aliasProps = b.q.DataRequest.Props[:n], true
				}
			}
			if v.mg != nil && b.mg != nil {
				if n := len(v.mg.Paths); n > 0 && isPrefixSx(v.mg.Paths, b.mg.Paths) {
					v.mg.Paths, v.aliasMain = b.mg.Paths[:n], true
				}
				if n := len(v.mg.DataRequest.Props); n > 0 && isPrefixSx(v.mg.DataRequest.Props, b.mg.DataRequest.Props) {
					v.mg.DataRequest.Props, v.aliasProps = b.mg.DataRequest.Props[:n], true
				}
			}
			if v.mg != nil && b.q != nil {
				if n := len(v.mg.DataRequest.Props); n > 0 && isPrefixSx(v.mg.DataRequest.Props, b.q.DataRequest.Props) {
					v.mg.DataRequest.Props, v.aliasProps = b.q.DataRequest.Props[:n], true
				}
			}
			vals[i] = v
		}
	}
	return vals
}

var bookPaths = []string{"/ab/book/", "/ab/other/", "/ab/b k/"}

// oneCall makes call number k with value v on the client and returns the observation.
func oneCall(cl *carddav.Client, capt *capture, v *callValue, k int) (obs string, res []carddav.AddressObject, ok bool) {
	defer func() {
		if r := recover(); r != nil {
			obs, ok = "(bad panic)", false
		}
	}()
	*capt = capture{}
	var err error
	if v.mg != nil {
		res, err = cl.MultiGetAddressBook(context.Background(), v.in.path, v.mg)
	} else {
		res, err = cl.QueryAddressBook(context.Background(), bookPaths[k%len(bookPaths)], v.q)
	}
	if !capt.sent {
		if err != nil {
			return "(err)", nil, false
		}
		return "(bad nothing-sent)", nil, false
	}
	if capt.method != "REPORT" {
		return "(bad method)", nil, false
	}
	root, perr := parseTree(capt.body)
	if perr != nil {
		return "(bad unparsable-body)", nil, false
	}
	return hx.L("body", root.sx()), res, err == nil
}

func resultsJSON(res []carddav.AddressObject) string {
	js, err := json.Marshal(res)
	if err != nil {
		return "unmarshalable: " + err.Error()
	}
	return string(js)
}

// execClientSeq: one line per call; the line of call k names calls 0..k-1 as its history.
func execClientSeq(steps []*clientInput, mode string) (lines []string) {
	vals := buildValues(steps, mode)
	lines = make([]string, len(steps))
	capt := &capture{}
	var cl *carddav.Client
	func() {
		defer func() { recover() }()
		cl, _ = carddav.NewClient(capt, "http://verif.invalid/")
	}()
	hist := []string{"after", mode}
	obs := make([]string, len(steps))
	var keptRes [][]carddav.AddressObject // results of earlier calls, scribbled over
	var keptJS []string                   // ... and what they looked like then
	var keptAt []int
	first := ""
	for k, v := range vals {
		in := []string{"client", usTable(v.in), v.in.sx()}
		if k > 0 {
			in = append(in, hx.L(hist...))
		}
		hist = append(hist, v.in.sx())
		lines[k] = hx.L(in...)
		if cl == nil {
			obs[k] = "(bad newclient)"
			continue
		}
		var res []carddav.AddressObject
		var ok bool
		obs[k], res, ok = oneCall(cl, capt, v, k)
		// the caller's value is what it was
		if v.now() != v.in.sx() || !v.spareIntact() {
			obs[k] = "(bad modified-its-argument)"
		}
		if ok {
			// the same answer decodes to the same result, whatever earlier results became
			js := resultsJSON(res)
			if first == "" {
				first = js
			} else if js != first {
				obs[k] = "(bad result-depends-on-earlier-calls)"
			}
			for i := range res {
				res[i].Path = "/scribbled"
				res[i].ETag = "scribbled"
				for _, fs := range res[i].Card {
					for _, f := range fs {
						if f != nil {
							f.Value = "scribbled"
						}
					}
				}
			}
			keptRes, keptJS, keptAt = append(keptRes, res), append(keptJS, resultsJSON(res)), append(keptAt, k)
		}
	}
	// once more, now that all calls are over: nothing handed in or out earlier has changed since
	for k, v := range vals {
		if cl != nil && !strings.HasPrefix(obs[k], "(bad") && (v.now() != v.in.sx() || !v.spareIntact()) {
			obs[k] = "(bad argument-changed-by-a-later-call)"
		}
	}
	for i, r := range keptRes {
		if k := keptAt[i]; !strings.HasPrefix(obs[k], "(bad") && resultsJSON(r) != keptJS[i] {
			obs[k] = "(bad result-changed-by-a-later-call)"
		}
	}
	for k := range lines {
		lines[k] += " " + obs[k]
	}
	return lines
}
