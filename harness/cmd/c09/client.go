package main

// Stage (a): the real carddav.Client with a capturing webdav.HTTPClient.

import (
	"context"
	"io"
	"net/http"
	"net/url"
	"strings"

	"github.com/emersion/go-webdav/carddav"

	"verifharness/hx"
)

type capture struct {
	method string
	body   []byte
	sent   bool
}

func (c *capture) Do(req *http.Request) (*http.Response, error) {
	c.sent = true
	c.method = req.Method
	if req.Body != nil {
		c.body, _ = io.ReadAll(req.Body)
	}
	return &http.Response{
		StatusCode: 207,
		Header:     http.Header{"Content-Type": {"text/xml; charset=\"utf-8\""}},
		Body:       io.NopCloser(strings.NewReader(`<?xml version="1.0" encoding="UTF-8"?><multistatus xmlns="DAV:"></multistatus>`)),
	}, nil
}

func usTable(ci *clientInput) string {
	items := []string{"us"}
	seen := map[string]bool{}
	add := func(p string) {
		if !seen[p] {
			seen[p] = true
			items = append(items, hx.L(hx.S(p), hx.S((&url.URL{Path: p}).String())))
		}
	}
	if ci.multiget {
		add(ci.path)
		for _, p := range ci.mg.Paths {
			add(p)
		}
	}
	return hx.L(items...)
}

func observeClient(ci *clientInput) (obs string) {
	defer func() {
		if r := recover(); r != nil {
			obs = "(bad panic)"
		}
	}()
	capt := &capture{}
	cl, err := carddav.NewClient(capt, "http://verif.invalid/")
	if err != nil {
		return "(bad newclient)"
	}
	if ci.multiget {
		mg := ci.mg
		_, err = cl.MultiGetAddressBook(context.Background(), ci.path, &mg)
	} else {
		q := ci.query
		_, err = cl.QueryAddressBook(context.Background(), "/ab/book/", &q)
	}
	if !capt.sent {
		if err != nil {
			return "(err)"
		}
		return "(bad nothing-sent)"
	}
	if capt.method != "REPORT" {
		return "(bad method)"
	}
	root, perr := parseTree(capt.body)
	if perr != nil {
		return "(bad unparsable-body)"
	}
	return hx.L("body", root.sx())
}

func execClient(inSx hx.Sx) string {
	ci := parseClientInput(inSx)
	in := hx.L("client", usTable(ci), ci.sx())
	return in + " " + observeClient(ci)
}
