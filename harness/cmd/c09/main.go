// Command c09 ties the Gallina model of CardWire.v to the Go code, in two stages.
//
// (a) client: the real carddav.Client.QueryAddressBook / MultiGetAddressBook with a
//
//	capturing webdav.HTTPClient; the body is parsed into a namespace-expanded tree.
//	line: (client (us (<path> <escaped>)...) <input>) (err)|(body <tree>)|(bad <why>)
//
// (b) server: documents from the harness's own RFC 6352 writer (writer.go), in seeded
//
//	lexical variants, sent as REPORT to the real carddav.Handler with a recording
//	backend.
//	line: (server <path> <seed> (up ...) <raw request> <tree>) (obs <panic> <status> <call>...)
//
// Formats: oracle/c09/main.ml.
package main

import (
	"flag"
	"fmt"
	"math"
	"os"
	"runtime"
	"sync"

	"github.com/emersion/go-webdav/carddav"

	"verifharness/hx"
)

type job struct {
	client  *clientInput
	server  *xReq
	seed    uint64
	cseq    []*clientInput // a sequence of calls on one client
	cmode   string         // "same" | "shared"
	sseq    []serverStep   // a sequence of requests to one handler
	overlap bool           // ... served all at once
}

func run(j job, put func(string)) {
	switch {
	case j.cseq != nil:
		for _, l := range execClientSeq(j.cseq, j.cmode) {
			put(l)
		}
	case j.sseq != nil:
		for _, l := range execServerSeq(j.sseq, j.overlap) {
			put(l)
		}
	case j.client != nil:
		put(execClientSeq([]*clientInput{j.client}, "")[0])
	default:
		put(execServer(j.server, j.seed))
	}
}

func stripMut(x hx.Sx) hx.Sx {
	if x.Head() == "mut" {
		return x.Args()[0]
	}
	return x
}

func main() {
	out := flag.String("out", "", "output file")
	replay := flag.String("replay", "", "file of case lines to re-run (inputs are re-executed)")
	flag.Parse()
	sink := hx.NewSink(*out)
	defer sink.Close()

	if *replay != "" {
		warmUp()
		for _, l := range hx.ReadLines(*replay) {
			in := hx.MustParse(l)[0]
			a := in.Args()
			switch in.Head() {
			case "client":
				// the earlier calls of the sequence are made again, on the same client
				var steps []*clientInput
				mode := ""
				if len(a) > 2 {
					h := a[2].Args()
					mode = h[0].Atom
					for _, p := range h[1:] {
						steps = append(steps, parseClientInput(p))
					}
				}
				steps = append(steps, parseClientInput(a[1]))
				lines := execClientSeq(steps, mode)
				sink.Put(lines[len(lines)-1])
			case "server":
				// ... and the earlier (or overlapping) requests are served again by the same handler
				var steps []serverStep
				overlap := false
				if len(a) > 5 {
					overlap = a[5].Head() == "overlap"
					for _, p := range a[5].Args() {
						steps = append(steps, serverStep{parseXReq(stripMut(p.List[1])), uint64(p.List[0].Int())})
					}
				}
				steps = append(steps, serverStep{parseXReq(stripMut(a[3])), uint64(a[1].Int())})
				lines := execServerSeq(steps, overlap)
				sink.Put(lines[len(lines)-1])
			}
		}
		return
	}

	jobs := make(chan job, 1024)
	var wg sync.WaitGroup
	workers := runtime.NumCPU()
	if workers > 8 {
		workers = 8 // the machine is shared between several checks
	}
	for w := 0; w < workers; w++ {
		wg.Add(1)
		go func() {
			defer wg.Done()
			for j := range jobs {
				run(j, sink.Put)
			}
		}()
	}
	thorough := hx.Tier() == "thorough"
	rng := hx.NewRand(hx.Seed())
	genClient(jobs, rng.Fork(1), thorough)
	genServer(jobs, rng.Fork(2), thorough)
	genAudit(jobs, rng.Fork(3), thorough)
	close(jobs)
	wg.Wait()
	fmt.Fprintf(os.Stderr, "c09: %d cases\n", sink.N)
}

// ---- client universe ---------------------------------------------------------------

var (
	testsAll   = []string{"", "anyof", "allof", "bogus", "ANYOF"}
	matchAll   = []string{"", "equals", "contains", "starts-with", "ends-with", "bogus", "Equals"}
	hardTexts  = []string{" a b ", "<&>\"'", "  ", "a\nb\tc", "x]]>y", "é你", "&amp;", "\r\n", "<!--c-->", ""}
	propNames  = []string{"FN", "EMAIL", "N", "TEL", "X-ABC", "", "fn", "a b", "<&>"}
	paramNames = []string{"TYPE", "PREF", "X-P", "", "type"}
)

func tmFull(text string) []carddav.TextMatch {
	var l []carddav.TextMatch
	for _, neg := range []bool{false, true} {
		for _, mt := range matchAll {
			l = append(l, carddav.TextMatch{Text: text, NegateCondition: neg, MatchType: carddav.MatchType(mt)})
		}
	}
	return l
}

func genClient(jobs chan<- job, rng *hx.Rand, thorough bool) {
	put := func(ci *clientInput) { jobs <- job{client: ci} }
	t1 := tmFull("a")
	t2 := []carddav.TextMatch{{Text: "b"}, {Text: "b", NegateCondition: true, MatchType: "ends-with"}, {Text: "", MatchType: "Bogus"}}
	if thorough {
		t2 = tmFull("b")
	}
	// lists of at most two text-matches
	var tmLists [][]carddav.TextMatch
	tmLists = append(tmLists, nil)
	for _, a := range t1 {
		tmLists = append(tmLists, []carddav.TextMatch{a})
		for _, b := range t2 {
			tmLists = append(tmLists, []carddav.TextMatch{a, b})
		}
	}
	// at most one param filter
	var paramLists [][]carddav.ParamFilter
	paramLists = append(paramLists, nil,
		[]carddav.ParamFilter{{Name: "TYPE"}},
		[]carddav.ParamFilter{{Name: "TYPE", IsNotDefined: true}})
	for i := range t1 {
		paramLists = append(paramLists, []carddav.ParamFilter{{Name: "TYPE", TextMatch: &t1[i]}})
	}
	paramLists = append(paramLists, []carddav.ParamFilter{{Name: "TYPE", IsNotDefined: true, TextMatch: &t1[0]}})
	// every single prop-filter over these, every test string, both flags
	for _, test := range testsAll {
		for _, ind := range []bool{false, true} {
			for _, tms := range tmLists {
				for _, pas := range paramLists {
					pf := carddav.PropFilter{Name: "FN", Test: carddav.FilterTest(test), IsNotDefined: ind, TextMatches: tms, Params: pas}
					put(&clientInput{query: carddav.AddressBookQuery{PropFilters: []carddav.PropFilter{pf}}})
				}
			}
		}
	}
	// query level: test x limit x data request x up to two prop-filters from a small set
	small := []carddav.PropFilter{
		{Name: "FN"},
		{Name: "EMAIL", Test: "allof", TextMatches: []carddav.TextMatch{{Text: "x", MatchType: "equals"}, {Text: "y", NegateCondition: true}}},
		{Name: "N", IsNotDefined: true},
		{Name: "TEL", Test: "anyof", Params: []carddav.ParamFilter{{Name: "TYPE", TextMatch: &carddav.TextMatch{Text: "home", MatchType: "starts-with"}}}},
		{Name: "X", Test: "Allof"},
		{Name: "Y", IsNotDefined: true, TextMatches: []carddav.TextMatch{{Text: "z"}}},
		{Name: "Z", TextMatches: []carddav.TextMatch{{Text: " q ", MatchType: "ends-with"}}, Params: []carddav.ParamFilter{{Name: "P", IsNotDefined: true}}},
		{Name: "", Params: []carddav.ParamFilter{{Name: "P"}}},
	}
	var filterSets [][]carddav.PropFilter
	filterSets = append(filterSets, nil)
	for _, a := range small {
		filterSets = append(filterSets, []carddav.PropFilter{a})
		for _, b := range small {
			filterSets = append(filterSets, []carddav.PropFilter{a, b})
		}
	}
	limits := []int{0, 1, 7, -1, math.MinInt64, math.MaxInt64, 1 << 40}
	datas := []carddav.AddressDataRequest{{}, {AllProp: true}, {Props: []string{"FN"}}, {Props: []string{"FN", "EMAIL", "FN"}}, {AllProp: true, Props: []string{"FN"}}}
	for _, test := range testsAll {
		for _, lim := range limits {
			for _, d := range datas {
				for _, fs := range filterSets {
					put(&clientInput{query: carddav.AddressBookQuery{DataRequest: d, FilterTest: carddav.FilterTest(test), Limit: lim, PropFilters: fs}})
				}
			}
		}
	}
	// multiget: href lists with duplicates and characters that need escaping
	paths := []string{"/ab/book/a.vcf", "/ab/book/a b.vcf", "/ab/book/%41.vcf", "/ab/book/ü.vcf", "/ab/book/a?b#c", "/ab/book/<&>.vcf", "/", "", "rel/x.vcf", "//host/x", "a:b", "/ab/book/a+b;c=d"}
	for _, d := range datas {
		put(&clientInput{multiget: true, path: "/ab/book/", mg: carddav.AddressBookMultiGet{DataRequest: d}})
		for _, a := range paths {
			put(&clientInput{multiget: true, path: "/ab/book/", mg: carddav.AddressBookMultiGet{DataRequest: d, Paths: []string{a}}})
			for _, b := range paths {
				put(&clientInput{multiget: true, path: "/ab/ book/", mg: carddav.AddressBookMultiGet{DataRequest: d, Paths: []string{a, b, a}}})
			}
		}
	}
	// random, larger
	n := 8000
	if thorough {
		n = 80000
	}
	for i := 0; i < n; i++ {
		put(randomClient(rng))
	}
}

func pickStr(rng *hx.Rand, l []string) string { return l[rng.Intn(len(l))] }

func randText(rng *hx.Rand) string {
	if rng.Chance(1, 3) {
		return pickStr(rng, hardTexts)
	}
	alphabet := []string{"a", "b", " ", "<", "&", ">", "\"", "'", "\n", "\t", "é", "]", "-", "\r", "你", "😀", ";", "#"}
	s := ""
	for k := rng.Intn(12); k > 0; k-- {
		s += pickStr(rng, alphabet)
	}
	return s
}

func randEnum(rng *hx.Rand, valid []string, junk []string) string {
	if rng.Chance(1, 12) {
		return pickStr(rng, junk)
	}
	return pickStr(rng, valid)
}

var (
	validTests = []string{"", "anyof", "allof"}
	validMatch = []string{"", "equals", "contains", "starts-with", "ends-with"}
	junkEnums  = []string{"bogus", "ANYOF", "Equals", " anyof", "anyof ", "yes", "startswith", "any of", "é"}
)

func randTM(rng *hx.Rand) carddav.TextMatch {
	return carddav.TextMatch{Text: randText(rng), NegateCondition: rng.Bool(), MatchType: carddav.MatchType(randEnum(rng, validMatch, junkEnums))}
}

func randomClient(rng *hx.Rand) *clientInput {
	if rng.Chance(1, 5) {
		ci := &clientInput{multiget: true, path: pickStr(rng, []string{"/ab/book/", "/ab/b k/", ""})}
		for k := rng.Intn(8); k > 0; k-- {
			p := "/ab/book/" + randText(rng)
			if rng.Chance(1, 6) {
				p = randText(rng)
			}
			ci.mg.Paths = append(ci.mg.Paths, p)
			if rng.Chance(1, 4) {
				ci.mg.Paths = append(ci.mg.Paths, p)
			}
		}
		ci.mg.DataRequest = randData(rng)
		return ci
	}
	q := carddav.AddressBookQuery{DataRequest: randData(rng), FilterTest: carddav.FilterTest(randEnum(rng, validTests, junkEnums))}
	switch rng.Intn(4) {
	case 0:
		q.Limit = rng.Intn(1000)
	case 1:
		q.Limit = -rng.Intn(5)
	case 2:
		q.Limit = int(rng.U64() >> 1)
	}
	for k := rng.Intn(6); k > 0; k-- {
		pf := carddav.PropFilter{Name: pickStr(rng, propNames), Test: carddav.FilterTest(randEnum(rng, validTests, junkEnums))}
		if rng.Chance(1, 5) {
			pf.IsNotDefined = true
		}
		if !pf.IsNotDefined || rng.Chance(1, 8) {
			for m := rng.Intn(4); m > 0; m-- {
				pf.TextMatches = append(pf.TextMatches, randTM(rng))
			}
			for m := rng.Intn(3); m > 0; m-- {
				pa := carddav.ParamFilter{Name: pickStr(rng, paramNames)}
				if rng.Chance(1, 4) {
					pa.IsNotDefined = true
				}
				if !pa.IsNotDefined && rng.Chance(2, 3) || rng.Chance(1, 10) {
					t := randTM(rng)
					pa.TextMatch = &t
				}
				pf.Params = append(pf.Params, pa)
			}
		}
		q.PropFilters = append(q.PropFilters, pf)
	}
	return &clientInput{query: q}
}

func randData(rng *hx.Rand) carddav.AddressDataRequest {
	d := carddav.AddressDataRequest{AllProp: rng.Chance(1, 4)}
	if !d.AllProp || rng.Chance(1, 6) {
		for k := rng.Intn(4); k > 0; k-- {
			d.Props = append(d.Props, pickStr(rng, propNames))
		}
	}
	return d
}
