package main

// Inputs of both stages and their S-expression forms (see oracle/c09/main.ml).

import (
	"strconv"

	"github.com/emersion/go-webdav/carddav"

	"verifharness/hx"
)

// ---- client stage: public values ------------------------------------------------

type clientInput struct {
	multiget bool
	query    carddav.AddressBookQuery
	path     string
	mg       carddav.AddressBookMultiGet
}

func tmSx(t *carddav.TextMatch) string {
	return hx.L("tm", hx.S(t.Text), hx.B(t.NegateCondition), hx.S(string(t.MatchType)))
}

func dataSx(d *carddav.AddressDataRequest) string {
	items := []string{"data", hx.B(d.AllProp)}
	for _, n := range d.Props {
		items = append(items, hx.S(n))
	}
	return hx.L(items...)
}

func querySx(q *carddav.AddressBookQuery) string {
	items := []string{"query", dataSx(&q.DataRequest), hx.S(string(q.FilterTest)), strconv.Itoa(q.Limit)}
	for _, pf := range q.PropFilters {
		var tms, pas []string
		for i := range pf.TextMatches {
			tms = append(tms, tmSx(&pf.TextMatches[i]))
		}
		for _, pa := range pf.Params {
			t := "n"
			if pa.TextMatch != nil {
				t = tmSx(pa.TextMatch)
			}
			pas = append(pas, hx.L("pa", hx.S(pa.Name), hx.B(pa.IsNotDefined), t))
		}
		items = append(items, hx.L("pf", hx.S(pf.Name), hx.S(string(pf.Test)), hx.B(pf.IsNotDefined), hx.L(tms...), hx.L(pas...)))
	}
	return hx.L(items...)
}

func (ci *clientInput) sx() string {
	if !ci.multiget {
		return querySx(&ci.query)
	}
	items := []string{"multiget", hx.S(ci.path), dataSx(&ci.mg.DataRequest)}
	for _, p := range ci.mg.Paths {
		items = append(items, hx.S(p))
	}
	return hx.L(items...)
}

func parseTM(x hx.Sx) carddav.TextMatch {
	a := x.Args()
	return carddav.TextMatch{Text: a[0].Str(), NegateCondition: a[1].Bool(), MatchType: carddav.MatchType(a[2].Str())}
}

func parseData(x hx.Sx) carddav.AddressDataRequest {
	a := x.Args()
	d := carddav.AddressDataRequest{AllProp: a[0].Bool()}
	for _, n := range a[1:] {
		d.Props = append(d.Props, n.Str())
	}
	return d
}

func parseQuery(x hx.Sx) carddav.AddressBookQuery {
	a := x.Args()
	q := carddav.AddressBookQuery{DataRequest: parseData(a[0]), FilterTest: carddav.FilterTest(a[1].Str()), Limit: int(a[2].Int())}
	for _, p := range a[3:] {
		pa := p.Args()
		pf := carddav.PropFilter{Name: pa[0].Str(), Test: carddav.FilterTest(pa[1].Str()), IsNotDefined: pa[2].Bool()}
		for _, t := range pa[3].List {
			pf.TextMatches = append(pf.TextMatches, parseTM(t))
		}
		for _, r := range pa[4].List {
			ra := r.Args()
			par := carddav.ParamFilter{Name: ra[0].Str(), IsNotDefined: ra[1].Bool()}
			if ra[2].IsList {
				t := parseTM(ra[2])
				par.TextMatch = &t
			}
			pf.Params = append(pf.Params, par)
		}
		q.PropFilters = append(q.PropFilters, pf)
	}
	return q
}

func parseClientInput(x hx.Sx) *clientInput {
	if x.Head() == "query" {
		return &clientInput{query: parseQuery(x)}
	}
	a := x.Args()
	ci := &clientInput{multiget: true, path: a[0].Str()}
	ci.mg.DataRequest = parseData(a[1])
	for _, p := range a[2:] {
		ci.mg.Paths = append(ci.mg.Paths, p.Str())
	}
	return ci
}

// ---- server stage: "raw" requests (every enumerated attribute an optional, arbitrary
// string; nresults an arbitrary string) ---------------------------------------------

type ostr struct {
	set bool
	v   string
}

func some(v string) ostr { return ostr{true, v} }

func (o ostr) sx() string {
	if !o.set {
		return "n"
	}
	return hx.L("s", hx.S(o.v))
}

func parseOstr(x hx.Sx) ostr {
	if !x.IsList {
		return ostr{}
	}
	return some(x.List[1].Str())
}

type xTM struct {
	text    string
	neg, mt ostr
}

type xParam struct {
	name string
	kind byte // 'd' defined, 'i' is-not-defined, 't' text-match
	tm   xTM
}

type xPF struct {
	name   string
	test   ostr
	ind    bool
	tms    []xTM
	params []xParam
}

type xItem struct {
	addressData bool
	all         bool
	props       []string
	ns, local   string
	deep        int // a foreign property with content nested this deep (0: empty element)
}

type xSel struct {
	kind  byte // 'n' none, 'a' allprop, 'p' propname, 'P' prop
	items []xItem
}

type xReq struct {
	multiget bool
	sel      xSel
	test     ostr
	limit    ostr
	pfs      []xPF
	hrefs    []string
}

func (t *xTM) sx() string { return hx.L("xtm", hx.S(t.text), t.neg.sx(), t.mt.sx()) }

func (s *xSel) sx() string {
	switch s.kind {
	case 'a':
		return "(allprop)"
	case 'p':
		return "(propname)"
	case 'P':
		items := []string{"prop"}
		for _, it := range s.items {
			if it.addressData {
				if it.all {
					items = append(items, "(ad (all))")
				} else {
					ps := []string{"props"}
					for _, n := range it.props {
						ps = append(ps, hx.S(n))
					}
					items = append(items, hx.L("ad", hx.L(ps...)))
				}
			} else {
				if it.deep > 0 {
					items = append(items, hx.L("o", hx.S(it.ns), hx.S(it.local), strconv.Itoa(it.deep)))
				} else {
					items = append(items, hx.L("o", hx.S(it.ns), hx.S(it.local)))
				}
			}
		}
		return hx.L(items...)
	}
	return "(none)"
}

func (r *xReq) sx() string {
	if r.multiget {
		items := []string{"xm", r.sel.sx()}
		for _, h := range r.hrefs {
			items = append(items, hx.S(h))
		}
		return hx.L(items...)
	}
	items := []string{"xq", r.sel.sx(), r.test.sx(), r.limit.sx()}
	for _, pf := range r.pfs {
		cond := "(ind)"
		if !pf.ind {
			var tms, pas []string
			for i := range pf.tms {
				tms = append(tms, pf.tms[i].sx())
			}
			for _, p := range pf.params {
				c := "(def)"
				switch p.kind {
				case 'i':
					c = "(ind)"
				case 't':
					c = p.tm.sx()
				}
				pas = append(pas, hx.L("xpa", hx.S(p.name), c))
			}
			cond = hx.L("m", hx.L(tms...), hx.L(pas...))
		}
		items = append(items, hx.L("xpf", hx.S(pf.name), pf.test.sx(), cond))
	}
	return hx.L(items...)
}

func parseXTM(x hx.Sx) xTM {
	a := x.Args()
	return xTM{text: a[0].Str(), neg: parseOstr(a[1]), mt: parseOstr(a[2])}
}

func parseXSel(x hx.Sx) xSel {
	switch x.Head() {
	case "allprop":
		return xSel{kind: 'a'}
	case "propname":
		return xSel{kind: 'p'}
	case "prop":
		s := xSel{kind: 'P'}
		for _, it := range x.Args() {
			if it.Head() == "ad" {
				d := it.Args()[0]
				xi := xItem{addressData: true}
				if d.Head() == "all" {
					xi.all = true
				} else {
					for _, n := range d.Args() {
						xi.props = append(xi.props, n.Str())
					}
				}
				s.items = append(s.items, xi)
			} else {
				xi := xItem{ns: it.Args()[0].Str(), local: it.Args()[1].Str()}
				if len(it.Args()) > 2 {
					xi.deep = int(it.Args()[2].Int())
				}
				s.items = append(s.items, xi)
			}
		}
		return s
	}
	return xSel{kind: 'n'}
}

func parseXReq(x hx.Sx) *xReq {
	a := x.Args()
	if x.Head() == "xm" {
		r := &xReq{multiget: true, sel: parseXSel(a[0])}
		for _, h := range a[1:] {
			r.hrefs = append(r.hrefs, h.Str())
		}
		return r
	}
	r := &xReq{sel: parseXSel(a[0]), test: parseOstr(a[1]), limit: parseOstr(a[2])}
	for _, p := range a[3:] {
		pa := p.Args()
		pf := xPF{name: pa[0].Str(), test: parseOstr(pa[1])}
		if pa[2].Head() == "ind" {
			pf.ind = true
		} else {
			m := pa[2].Args()
			for _, t := range m[0].List {
				pf.tms = append(pf.tms, parseXTM(t))
			}
			for _, q := range m[1].List {
				qa := q.Args()
				par := xParam{name: qa[0].Str(), kind: 'd'}
				switch qa[1].Head() {
				case "ind":
					par.kind = 'i'
				case "xtm":
					par.kind = 't'
					par.tm = parseXTM(qa[1])
				}
				pf.params = append(pf.params, par)
			}
		}
		r.pfs = append(r.pfs, pf)
	}
	return r
}
