package main

// The harness's OWN writer of RFC 6352 request documents, independent of the library
// and of the Coq development: docOf lays a raw request out as elements following the
// DTD fragments of RFC 6352 (8.7, 10.3-10.7); style.render serialises it with seeded
// lexical variation (prefix names, default namespace vs prefixes, redeclaration, unused
// declarations, attribute order and quoting, white space and comments between elements,
// comments inside text, character references, CDATA, empty-element tags, the relative
// order of children of different kinds).

import (
	"fmt"
	"strings"
	"unicode/utf8"

	"verifharness/hx"
)

const (
	nsCard = "urn:ietf:params:xml:ns:carddav"
	nsDAV  = "DAV:"
)

type wnode struct {
	ns, local string
	attrs     [][2]string
	xattrs    [][3]string // attributes in a namespace (malformed stream only)
	kind      byte        // 'E' element content, 'T' text content, 'Z' empty, 'X' bare text (malformed stream only)
	kids      []*wnode
	group     int // children of different groups may be reordered relative to each other
	text      string
}

func elemE(ns, local string, attrs [][2]string, kids ...*wnode) *wnode {
	return &wnode{ns: ns, local: local, attrs: attrs, kind: 'E', kids: kids}
}
func elemT(ns, local, text string) *wnode { return &wnode{ns: ns, local: local, kind: 'T', text: text} }
func elemZ(ns, local string, attrs [][2]string) *wnode {
	return &wnode{ns: ns, local: local, attrs: attrs, kind: 'Z'}
}

func optAttr(attrs [][2]string, name string, o ostr) [][2]string {
	if o.set {
		attrs = append(attrs, [2]string{name, o.v})
	}
	return attrs
}

func tmNode(t *xTM) *wnode {
	n := elemT(nsCard, "text-match", t.text)
	n.attrs = optAttr(optAttr(nil, "negate-condition", t.neg), "match-type", t.mt)
	return n
}

func selNode(s *xSel) *wnode {
	switch s.kind {
	case 'a':
		return elemZ(nsDAV, "allprop", nil)
	case 'p':
		return elemZ(nsDAV, "propname", nil)
	case 'P':
		p := elemE(nsDAV, "prop", nil)
		for _, it := range s.items {
			if !it.addressData {
				o := elemZ(it.ns, it.local, nil)
				if it.deep > 0 { // content of a requested property the server does not know: nested it.deep levels
					inner := elemZ("urn:ext", "leaf", nil)
					for d := 1; d < it.deep; d++ {
						inner = elemE("urn:ext", "n", nil, inner)
					}
					o = elemE(it.ns, it.local, nil, inner)
				}
				p.kids = append(p.kids, o)
				continue
			}
			ad := elemE(nsCard, "address-data", nil)
			if it.all {
				ad.kids = append(ad.kids, elemZ(nsCard, "allprop", nil))
			}
			for _, name := range it.props {
				ad.kids = append(ad.kids, elemZ(nsCard, "prop", [][2]string{{"name", name}}))
			}
			p.kids = append(p.kids, ad)
		}
		return p
	}
	return nil
}

func docOf(r *xReq) *wnode {
	sel := selNode(&r.sel)
	if r.multiget {
		root := elemE(nsCard, "addressbook-multiget", nil)
		if sel != nil {
			sel.group = 0
			root.kids = append(root.kids, sel)
		}
		for _, h := range r.hrefs {
			n := elemT(nsDAV, "href", h)
			n.group = 1
			root.kids = append(root.kids, n)
		}
		return root
	}
	root := elemE(nsCard, "addressbook-query", nil)
	if sel != nil {
		sel.group = 0
		root.kids = append(root.kids, sel)
	}
	filter := elemE(nsCard, "filter", optAttr(nil, "test", r.test))
	filter.group = 1
	for i := range r.pfs {
		pf := &r.pfs[i]
		n := elemE(nsCard, "prop-filter", optAttr([][2]string{{"name", pf.name}}, "test", pf.test))
		if pf.ind {
			n.kids = append(n.kids, elemZ(nsCard, "is-not-defined", nil))
		}
		for j := range pf.tms {
			t := tmNode(&pf.tms[j])
			t.group = 0
			n.kids = append(n.kids, t)
		}
		for j := range pf.params {
			p := &pf.params[j]
			pn := elemE(nsCard, "param-filter", [][2]string{{"name", p.name}})
			pn.group = 1
			switch p.kind {
			case 'i':
				pn.kids = append(pn.kids, elemZ(nsCard, "is-not-defined", nil))
			case 't':
				pn.kids = append(pn.kids, tmNode(&p.tm))
			}
			n.kids = append(n.kids, pn)
		}
		filter.kids = append(filter.kids, n)
	}
	root.kids = append(root.kids, filter)
	if r.limit.set {
		l := elemE(nsCard, "limit", nil, elemT(nsCard, "nresults", r.limit.v))
		l.group = 2
		root.kids = append(root.kids, l)
	}
	return root
}

// ---- lexical style ---------------------------------------------------------------

type style struct {
	rng      *hx.Rand
	plain    bool // seed 0: one fixed, plain rendering
	collide  bool // use namespace prefixes named like the filter attributes
	sb       strings.Builder
	reorder  bool
	junkRate int
	mutated  bool // malformed stream: one structural mutation before rendering
	empty    bool // malformed stream: the body is empty
	trunc    bool // malformed stream: the body breaks off
}

var (
	cardPrefixes = []string{"C", "card", "A", "x", "c", "CARD", "ns0"}
	davPrefixes  = []string{"D", "d", "dav", "B", "ns1", "w"}
	junkPrefixes = []string{"u", "unused", "z9", "e-x", "_p"}
	collidePfx   = []string{"name", "test", "collation", "negate-condition", "match-type"}
)

func newStyle(seed uint64) *style {
	st := &style{rng: hx.NewRand(seed ^ 0xC09C09), plain: seed == 0, mutated: seed&mutateFlag != 0,
		empty: seed&emptyFlag != 0, trunc: seed&truncFlag != 0}
	if !st.plain {
		st.collide = seed%64 == 63
		st.reorder = st.rng.Chance(1, 5)
		st.junkRate = st.rng.Intn(4)
	}
	return st
}

type scope map[string]string // prefix ("" = default) -> namespace

func (sc scope) clone() scope {
	n := scope{}
	for k, v := range sc {
		n[k] = v
	}
	return n
}

func (st *style) pickPrefix(ns string) string {
	if st.collide && st.rng.Chance(1, 2) {
		return st.rng.Pick(collidePfx)
	}
	if ns == nsCard {
		return st.rng.Pick(cardPrefixes)
	}
	if ns == nsDAV {
		return st.rng.Pick(davPrefixes)
	}
	return st.rng.Pick([]string{"o", "ext", "q"})
}

func (st *style) render(root *wnode) []byte {
	st.sb.Reset()
	if st.empty {
		st.mutated = true
		return nil
	}
	if st.trunc {
		st.mutated = true
		doc := (&style{rng: st.rng, plain: st.plain, junkRate: st.junkRate}).render(root)
		return doc[:len(doc)*2/3]
	}
	if st.mutated {
		mutate(root, st.rng)
	}
	if st.plain {
		st.sb.WriteString(`<?xml version="1.0" encoding="utf-8"?>` + "\n")
	} else {
		if st.rng.Chance(1, 2) {
			st.sb.WriteString(`<?xml version="1.0" encoding="UTF-8"?>`)
		}
		st.junk(true)
	}
	st.emit(root, scope{})
	if !st.plain {
		st.junk(true)
	}
	return []byte(st.sb.String())
}

var wsChoices = []string{" ", "\n", "\n  ", "\t", "\r\n", "\n\n\t ", ""}

// junk writes white space and/or comments where element content allows them
func (st *style) junk(ws bool) {
	if st.plain {
		return
	}
	for i := 0; i < 3; i++ {
		if st.rng.Intn(4) >= st.junkRate {
			return
		}
		if ws && st.rng.Chance(2, 3) {
			st.sb.WriteString(st.rng.Pick(wsChoices))
		} else {
			st.sb.WriteString("<!--" + st.rng.Pick([]string{"", " c ", "<x a='1'>&amp;", "text-match", " - "}) + "-->")
		}
	}
}

func (st *style) emit(n *wnode, sc scope) {
	if n.kind == 'X' {
		st.sb.WriteString(st.escape(n.text, 0, false))
		return
	}
	sc = sc.clone()
	type decl struct{ prefix, uri string }
	var decls []decl
	declared := map[string]bool{}
	// how is the element's namespace expressed?
	var cands []string
	for p, u := range sc {
		if u == n.ns {
			cands = append(cands, p)
		}
	}
	sortStrings(cands)
	prefix := ""
	if st.plain {
		if len(cands) > 0 {
			prefix = cands[0]
		} else {
			prefix = map[string]string{nsCard: "C", nsDAV: "D"}[n.ns]
			if prefix == "" {
				prefix = "o"
			}
			decls = append(decls, decl{prefix, n.ns})
		}
	} else if len(cands) > 0 && !st.rng.Chance(1, 6) {
		prefix = st.rng.Pick(cands)
	} else {
		if st.rng.Chance(1, 3) {
			prefix = ""
		} else {
			prefix = st.pickPrefix(n.ns)
		}
		decls = append(decls, decl{prefix, n.ns})
	}
	for _, d := range decls {
		declared[d.prefix] = true
		sc[d.prefix] = d.uri
	}
	// declarations the element does not need
	if !st.plain {
		for i := 0; i < 2 && st.rng.Intn(8) < st.junkRate; i++ {
			p := st.rng.Pick(junkPrefixes)
			if st.collide && st.rng.Chance(1, 2) {
				p = st.rng.Pick(collidePfx)
			}
			if declared[p] || p == prefix {
				continue
			}
			declared[p] = true
			u := "urn:x-unused:" + p
			// pre-declare a namespace a descendant will use, sometimes
			if st.rng.Chance(1, 3) {
				u = st.rng.Pick([]string{nsCard, nsDAV})
			}
			decls = append(decls, decl{p, u})
			sc[p] = u
		}
	}
	// an un-prefixed element under a default namespace that is not its own needs xmlns reset:
	// not needed here, every element is in a namespace.
	name := n.local
	if prefix != "" {
		name = prefix + ":" + n.local
	}
	type at struct{ name, val string }
	var attrs []at
	for _, a := range n.attrs {
		attrs = append(attrs, at{a[0], a[1]})
	}
	for i, xa := range n.xattrs {
		p := fmt.Sprintf("xa%d", i)
		decls = append(decls, decl{p, xa[0]})
		attrs = append(attrs, at{p + ":" + xa[1], xa[2]})
	}
	for _, d := range decls {
		if d.prefix == "" {
			attrs = append(attrs, at{"xmlns", d.uri})
		} else {
			attrs = append(attrs, at{"xmlns:" + d.prefix, d.uri})
		}
	}
	if !st.plain {
		for i := len(attrs) - 1; i > 0; i-- {
			j := st.rng.Intn(i + 1)
			attrs[i], attrs[j] = attrs[j], attrs[i]
		}
	}
	st.sb.WriteString("<" + name)
	for _, a := range attrs {
		sep := " "
		if !st.plain && st.rng.Chance(1, 8) {
			sep = st.rng.Pick([]string{"\n ", "  ", "\t"})
		}
		q := byte('"')
		if !st.plain && st.rng.Chance(1, 3) {
			q = '\''
		}
		st.sb.WriteString(sep + a.name + "=" + string(q) + st.escape(a.val, q, true) + string(q))
	}
	switch n.kind {
	case 'Z':
		if st.plain || st.rng.Chance(1, 2) {
			st.sb.WriteString("/>")
		} else {
			st.sb.WriteString("></" + name + ">")
		}
		return
	case 'T':
		if n.text == "" && (st.plain || st.rng.Chance(1, 2)) {
			st.sb.WriteString("/>")
			return
		}
		st.sb.WriteString(">")
		st.text(n.text)
		st.sb.WriteString("</" + name + ">")
		return
	}
	kids := n.kids
	if st.reorder {
		kids = st.stableShuffle(kids)
	}
	if len(kids) == 0 && (st.plain || st.rng.Chance(1, 2)) {
		st.sb.WriteString("/>")
		return
	}
	st.sb.WriteString(">")
	st.junk(true)
	for _, k := range kids {
		st.emit(k, sc)
		st.junk(true)
	}
	st.sb.WriteString("</" + name)
	if !st.plain && st.rng.Chance(1, 10) {
		st.sb.WriteString(" ")
	}
	st.sb.WriteString(">")
}

// stableShuffle interleaves the groups at random, keeping the order within each group.
func (st *style) stableShuffle(kids []*wnode) []*wnode {
	groups := map[int][]*wnode{}
	var order []int
	for _, k := range kids {
		if _, ok := groups[k.group]; !ok {
			order = append(order, k.group)
		}
		groups[k.group] = append(groups[k.group], k)
	}
	if len(order) < 2 {
		return kids
	}
	var out []*wnode
	for len(out) < len(kids) {
		g := order[st.rng.Intn(len(order))]
		if len(groups[g]) == 0 {
			continue
		}
		out = append(out, groups[g][0])
		groups[g] = groups[g][1:]
	}
	return out
}

// text writes character data: pieces of literal text, references and CDATA sections,
// possibly separated by comments.
func (st *style) text(s string) {
	if st.plain {
		st.sb.WriteString(st.escape(s, 0, false))
		return
	}
	for len(s) > 0 {
		n := len(s)
		if st.rng.Chance(1, 3) {
			n = 1 + st.rng.Intn(len(s))
			for n < len(s) && !utf8.RuneStart(s[n]) {
				n++
			}
		}
		piece := s[:n]
		s = s[n:]
		if st.rng.Chance(1, 4) && !strings.Contains(piece, "]]>") && !strings.Contains(piece, "\r") {
			st.sb.WriteString("<![CDATA[" + piece + "]]>")
		} else {
			st.sb.WriteString(st.escape(piece, 0, false))
		}
		if len(s) > 0 && st.rng.Chance(1, 2) {
			st.sb.WriteString("<!--" + st.rng.Pick([]string{"", "split", " <b> "}) + "-->")
		}
	}
	if st.rng.Chance(1, 10) {
		st.sb.WriteString("<!---->")
	}
}

func (st *style) escape(s string, quote byte, attr bool) string {
	var b strings.Builder
	for _, r := range s {
		ref := false
		switch {
		case r == '<' || r == '&':
			ref = true
		case r == '>' || r == '\r':
			ref = true
		case quote != 0 && r == rune(quote):
			ref = true
		case attr && (r == '\n' || r == '\t'):
			ref = true
		case !st.plain && st.rng.Chance(1, 12):
			ref = true
		}
		if !ref {
			b.WriteRune(r)
			continue
		}
		named := map[rune]string{'<': "lt", '>': "gt", '&': "amp", '"': "quot", '\'': "apos"}
		if nm, ok := named[r]; ok && (st.plain || st.rng.Chance(1, 2)) {
			b.WriteString("&" + nm + ";")
		} else if st.plain || st.rng.Chance(1, 2) {
			fmt.Fprintf(&b, "&#%d;", r)
		} else if st.rng.Chance(1, 2) {
			fmt.Fprintf(&b, "&#x%X;", r)
		} else {
			fmt.Fprintf(&b, "&#x%x;", r)
		}
	}
	return b.String()
}

func sortStrings(l []string) {
	for i := 1; i < len(l); i++ {
		for j := i; j > 0 && l[j] < l[j-1]; j-- {
			l[j], l[j-1] = l[j-1], l[j]
		}
	}
}
