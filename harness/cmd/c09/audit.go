package main

// Generator audit (notes/C09.md, "Generator audit"): histories, shared values, overlapping
// requests, body delivery, sizes, spellings.  Delivery form, Content-Type spelling, Depth
// header, handler prefix and request path are drawn from the seed of every server case
// (server.go, envFromSeed); this file adds the cases that need inputs of their own.

import (
	"strings"

	"github.com/emersion/go-webdav/carddav"

	"verifharness/hx"
)

var sizes = []int{511, 512, 513, 1023, 1024, 1025, 4095, 4096, 4097, 32767, 32768, 32769, 65535, 65536, 65537}

func sizedText(n int, rng *hx.Rand) string {
	unit := []string{"a", "ab ", "<&>", "é", " x"}[rng.Intn(5)]
	s := strings.Repeat(unit, n/len(unit))
	for len(s) < n {
		s += "a"
	}
	return s
}

func genAudit(jobs chan<- job, rng *hx.Rand, thorough bool) {
	seedOf := func() uint64 { return rng.U64() >> 8 }

	// ---- 1/2/3 client: one VALUE through consecutive calls of one client ----------------
	datas := []carddav.AddressDataRequest{{}, {AllProp: true}, {Props: []string{"FN", "EMAIL"}}}
	seqPaths := []string{"/ab/book/", "/ab/other/", "/ab/b k/", "/ab/book/x.vcf"}
	tm := carddav.TextMatch{Text: "home", MatchType: "starts-with"}
	someFilters := []carddav.PropFilter{
		{Name: "FN", TextMatches: []carddav.TextMatch{{Text: "a"}, {Text: "b", NegateCondition: true, MatchType: "equals"}}},
		{Name: "TEL", Test: "allof", Params: []carddav.ParamFilter{{Name: "TYPE", TextMatch: &tm}, {Name: "PREF", IsNotDefined: true}}},
		{Name: "N", IsNotDefined: true},
		{Name: "EMAIL"},
	}
	for _, d := range datas {
		// a multiget without paths asks for the collection of each call
		for n := 2; n <= 3; n++ {
			var steps []*clientInput
			for i := 0; i < n; i++ {
				steps = append(steps, &clientInput{multiget: true, path: seqPaths[(i+n)%len(seqPaths)], mg: carddav.AddressBookMultiGet{DataRequest: d}})
			}
			jobs <- job{cseq: steps, cmode: "same"}
		}
		// the same multiget with paths, the same query (zero values the callee might fill in)
		for _, paths := range [][]string{{"/ab/book/a.vcf"}, {"/ab/book/a.vcf", "/ab/book/b c.vcf"}} {
			var steps []*clientInput
			for i := 0; i < 3; i++ {
				steps = append(steps, &clientInput{multiget: true, path: seqPaths[i], mg: carddav.AddressBookMultiGet{DataRequest: d, Paths: paths}})
			}
			jobs <- job{cseq: steps, cmode: "same"}
		}
		for _, fs := range [][]carddav.PropFilter{nil, someFilters[:1], someFilters} {
			for _, lim := range []int{0, 5, -1} {
				q := &clientInput{query: carddav.AddressBookQuery{DataRequest: d, PropFilters: fs, Limit: lim}}
				jobs <- job{cseq: []*clientInput{q, q, q}, cmode: "same"}
			}
		}
		// values sharing slices and pointers with the first; a query, then a multiget, then a query
		full := carddav.AddressBookQuery{DataRequest: carddav.AddressDataRequest{Props: []string{"FN", "EMAIL", "TEL"}}, PropFilters: someFilters, FilterTest: "allof", Limit: 3}
		for n := 1; n <= len(someFilters); n++ {
			part := carddav.AddressBookQuery{DataRequest: d, PropFilters: someFilters[:n]}
			if len(d.Props) > 0 {
				part.DataRequest.Props = full.DataRequest.Props[:2]
			}
			mg := carddav.AddressBookMultiGet{DataRequest: carddav.AddressDataRequest{Props: []string{"FN"}}, Paths: []string{"/ab/book/a.vcf"}}
			jobs <- job{cseq: []*clientInput{{query: full}, {query: part}, {multiget: true, path: "/ab/book/", mg: mg}, {query: full}}, cmode: "shared"}
			jobs <- job{cseq: []*clientInput{{query: part}, {query: full}, {query: part}}, cmode: "shared"}
		}
	}
	nseq := 400
	if thorough {
		nseq = 6000
	}
	for i := 0; i < nseq; i++ {
		n := 2 + rng.Intn(3)
		var steps []*clientInput
		mode := "shared"
		if rng.Chance(1, 2) {
			mode = "same"
			first := randomClient(rng)
			for k := 0; k < n; k++ {
				c := *first
				if c.multiget {
					c.path = rng.Pick(seqPaths)
				}
				steps = append(steps, &c)
			}
		} else {
			base := randomClient(rng)
			steps = append(steps, base)
			for k := 1; k < n; k++ {
				c := *base
				if c.multiget {
					c.path = rng.Pick(seqPaths)
					if len(c.mg.Paths) > 0 {
						c.mg.Paths = c.mg.Paths[:1+rng.Intn(len(c.mg.Paths))]
					}
					c.mg.DataRequest.AllProp = rng.Chance(1, 3)
				} else {
					if len(c.query.PropFilters) > 0 {
						c.query.PropFilters = c.query.PropFilters[:1+rng.Intn(len(c.query.PropFilters))]
					}
					c.query.Limit = rng.Intn(4) - 1
					c.query.FilterTest = carddav.FilterTest(rng.Pick(validTests))
				}
				if rng.Chance(1, 4) {
					c = *randomClient(rng)
				}
				steps = append(steps, &c)
			}
		}
		jobs <- job{cseq: steps, cmode: mode}
	}

	// ---- 1/3/7 server: consecutive and overlapping requests to ONE handler ---------------
	sels := selPool()
	ad := adSel
	shapes := auditShapes()
	for i := range shapes {
		for j := range shapes {
			jobs <- job{sseq: []serverStep{{shapes[i], seedOf()}, {shapes[j], seedOf()}}}
			if (i+j)%3 == 0 {
				k := (i + 2*j + 1) % len(shapes)
				jobs <- job{sseq: []serverStep{{shapes[i], seedOf()}, {shapes[j], 0}, {shapes[k], seedOf()}, {shapes[1], seedOf()}, {shapes[i], seedOf()}}}
			}
		}
	}
	nsrv := 300
	if thorough {
		nsrv = 5000
	}
	for i := 0; i < nsrv; i++ {
		n := 2 + rng.Intn(4)
		var steps []serverStep
		for k := 0; k < n; k++ {
			r := shapes[rng.Intn(len(shapes))]
			if rng.Chance(1, 2) {
				r = randomXReq(rng)
			}
			s := seedOf()
			switch rng.Intn(12) {
			case 0:
				s |= mutateFlag
			case 1:
				s |= emptyFlag
			case 2:
				s |= truncFlag
			}
			steps = append(steps, serverStep{r, s})
		}
		jobs <- job{sseq: steps, overlap: i%3 == 2}
	}

	// ---- 4 body delivery: an empty and a cut-off body in every delivery form -------------
	for i := 0; i < 96; i++ {
		r := shapes[i%len(shapes)]
		jobs <- job{server: r, seed: uint64(64*i+1) | emptyFlag}
		jobs <- job{server: r, seed: uint64(64*i+2) | truncFlag}
		jobs <- job{server: r, seed: uint64(64*i + 3)} // and the whole body in the same form
	}

	// ---- 5 sizes ---------------------------------------------------------------------------
	szs := sizes
	if !thorough {
		szs = []int{512, 1025, 4096, 4097, 32768, 65537}
	}
	for _, n := range szs {
		t := sizedText(n, rng)
		jobs <- job{server: &xReq{sel: sels[0], pfs: []xPF{{name: "FN", tms: []xTM{{text: t, mt: some("contains")}}}}}, seed: seedOf()}
		jobs <- job{server: &xReq{sel: sels[0], pfs: []xPF{{name: t, params: []xParam{{name: t, kind: 't', tm: xTM{text: t}}}}}}, seed: 0}
		jobs <- job{server: &xReq{multiget: true, sel: ad(false, t), hrefs: []string{"/ab/book/" + strings.ReplaceAll(strings.ReplaceAll(t, " ", "_"), "<&>", "abc")}}, seed: seedOf()}
		if n <= 4097 { // the extracted model is quadratic here (List.rev, decimal conversion): that sets the bound
			jobs <- job{server: &xReq{sel: sels[0], limit: some(strings.Repeat(" ", n) + "7" + strings.Repeat("\n", n))}, seed: seedOf()}
			jobs <- job{server: &xReq{sel: sels[0], limit: some(strings.Repeat("0", n) + "7")}, seed: seedOf()}
			jobs <- job{server: &xReq{sel: sels[0], limit: some(strings.Repeat("9", n))}, seed: seedOf()}
		}
		jobs <- job{client: &clientInput{query: carddav.AddressBookQuery{PropFilters: []carddav.PropFilter{{Name: t, TextMatches: []carddav.TextMatch{{Text: t}}}}}}}
		jobs <- job{client: &clientInput{multiget: true, path: "/ab/book/", mg: carddav.AddressBookMultiGet{Paths: []string{"/ab/book/" + t}, DataRequest: carddav.AddressDataRequest{Props: []string{t}}}}}
	}
	counts := []int{255, 256, 257, 1023, 1024, 1025}
	if thorough {
		counts = append(counts, 4095, 4096, 4097) // the oracle's href tables are association lists: beyond this it is minutes
	}
	for _, n := range counts {
		var pfs []xPF
		var tms []xTM
		var params []xParam
		var hrefs, props []string
		var cpfs []carddav.PropFilter
		var ctms []carddav.TextMatch
		var cpaths []string
		for i := 0; i < n; i++ {
			name := "X-P" + hx.I(int64(i))
			pfs = append(pfs, xPF{name: name, tms: []xTM{{text: name}}})
			tms = append(tms, xTM{text: name, neg: some("yes")})
			params = append(params, xParam{name: name, kind: "dit"[i%3], tm: xTM{text: "v"}})
			hrefs = append(hrefs, "/ab/book/"+name+".vcf")
			props = append(props, name)
			cpfs = append(cpfs, carddav.PropFilter{Name: name, TextMatches: []carddav.TextMatch{{Text: name}}})
			ctms = append(ctms, carddav.TextMatch{Text: name, NegateCondition: i%2 == 0})
			cpaths = append(cpaths, "/ab/book/"+name+".vcf")
		}
		jobs <- job{server: &xReq{sel: sels[0], pfs: pfs}, seed: seedOf()}
		jobs <- job{server: &xReq{sel: ad(false, props...), pfs: []xPF{{name: "FN", tms: tms, params: params}}}, seed: seedOf()}
		jobs <- job{server: &xReq{multiget: true, sel: ad(false, "FN"), hrefs: hrefs}, seed: seedOf()}
		jobs <- job{server: &xReq{multiget: true, sel: ad(false, props...), hrefs: hrefs[:2]}, seed: seedOf()}
		jobs <- job{client: &clientInput{query: carddav.AddressBookQuery{PropFilters: cpfs, DataRequest: carddav.AddressDataRequest{Props: props}}}}
		jobs <- job{client: &clientInput{query: carddav.AddressBookQuery{PropFilters: []carddav.PropFilter{{Name: "FN", TextMatches: ctms}}}}}
		jobs <- job{client: &clientInput{multiget: true, path: "/ab/book/", mg: carddav.AddressBookMultiGet{Paths: cpaths}}}
	}
	// nesting inside a requested property the server only captures (RawXMLValue), around the
	// depth limits of encoding/xml
	deeps := []int{100, 4999, 5000, 5001}
	if thorough {
		deeps = append(deeps, 9990, 9999, 10000, 10001)
	}
	for _, d := range deeps {
		deep := xSel{kind: 'P', items: []xItem{{ns: "urn:ext", local: "thing", deep: d}, {addressData: true, props: []string{"FN"}}}}
		jobs <- job{server: &xReq{sel: deep, pfs: []xPF{{name: "FN"}}}, seed: 0}
		jobs <- job{server: &xReq{multiget: true, sel: deep, hrefs: []string{"/ab/book/a.vcf"}}, seed: seedOf() &^ 63}
	}

	// ---- 6 spellings of the enumerated attributes, one at a time -----------------------------
	spell := []string{"", " ", "anyof ", " anyof", "ANYOF", "AnyOf", "allof\n", "any of", "anyof,allof", "anyof allof"}
	mspell := []string{"", " equals", "equals ", "EQUALS", "Contains", "starts_with", "startswith", "ends-with\t", "equals,contains"}
	nspell := []string{"", " yes", "yes ", "YES", "No", "true", "false", "1", "0", "yes no", "y"}
	for _, v := range spell {
		jobs <- job{server: &xReq{sel: sels[0], test: some(v)}, seed: seedOf()}
		jobs <- job{server: &xReq{sel: sels[0], pfs: []xPF{{name: "FN", test: some(v)}}}, seed: seedOf()}
		jobs <- job{client: &clientInput{query: carddav.AddressBookQuery{FilterTest: carddav.FilterTest(v), PropFilters: []carddav.PropFilter{{Name: "FN", Test: carddav.FilterTest(v)}}}}}
	}
	for _, v := range mspell {
		jobs <- job{server: &xReq{sel: sels[0], pfs: []xPF{{name: "FN", tms: []xTM{{text: "a", mt: some(v)}}}}}, seed: seedOf()}
		jobs <- job{server: &xReq{sel: sels[0], pfs: []xPF{{name: "FN", params: []xParam{{name: "T", kind: 't', tm: xTM{text: "a", mt: some(v)}}}}}}, seed: seedOf()}
		jobs <- job{client: &clientInput{query: carddav.AddressBookQuery{PropFilters: []carddav.PropFilter{{Name: "FN", TextMatches: []carddav.TextMatch{{Text: "a", MatchType: carddav.MatchType(v)}}}}}}}
	}
	for _, v := range nspell {
		jobs <- job{server: &xReq{sel: sels[0], pfs: []xPF{{name: "FN", tms: []xTM{{text: "a", neg: some(v)}}}}}, seed: seedOf()}
		jobs <- job{server: &xReq{sel: sels[0], pfs: []xPF{{name: "FN", params: []xParam{{name: "T", kind: 't', tm: xTM{text: "a", neg: some(v)}}}}}}, seed: seedOf()}
	}
	for _, v := range []string{"1", " 1", "1 ", "01", "+1", "-1", "-0", "0", "00", "1e3", "0x10", "1_000", "١", "1,2", "1 2", "\t5\r\n", " 5 ", "　5", "5​"} {
		jobs <- job{server: &xReq{sel: sels[0], limit: some(v)}, seed: seedOf()}
		jobs <- job{server: &xReq{sel: sels[0], limit: some(v), pfs: []xPF{{name: "FN"}}}, seed: 0}
	}
}

func adSel(all bool, props ...string) xSel {
	return xSel{kind: 'P', items: []xItem{{addressData: true, all: all, props: props}, {ns: nsDAV, local: "getetag"}}}
}

// auditShapes: requests whose traces in a handler (or in the process) would show in the next one
func auditShapes() []*xReq {
	ad := adSel
	sels := selPool()
	return []*xReq{
		{sel: ad(false, "FN", "EMAIL"), test: some("allof"), limit: some("5"), pfs: []xPF{{name: "FN", test: some("allof"), tms: []xTM{{text: "a", neg: some("yes"), mt: some("equals")}}, params: []xParam{{name: "TYPE", kind: 't', tm: xTM{text: "home", mt: some("ends-with")}}}}}},
		{sel: xSel{kind: 'n'}},
		{sel: ad(true)},
		{sel: ad(false), pfs: []xPF{{name: "N", ind: true}}},
		{sel: xSel{kind: 'a'}, limit: some("1"), pfs: []xPF{{name: "TEL", params: []xParam{{name: "PREF", kind: 'i'}}}}},
		{multiget: true, sel: ad(false, "TEL"), hrefs: []string{"/ab/book/a.vcf", "/ab/book/b.vcf"}},
		{multiget: true, sel: xSel{kind: 'n'}, hrefs: []string{"/ab/book/c.vcf"}},
		{multiget: true, sel: ad(true), hrefs: []string{"/ab/book/d.vcf", "/ab/book/a.vcf", "/ab/book/d.vcf"}},
		{sel: xSel{kind: 'p'}, test: some("anyof"), pfs: []xPF{{name: "EMAIL", tms: []xTM{{text: "x"}, {text: " y "}}}}},
		{sel: ad(false, "FN"), limit: some("0")},
		{sel: ad(false, "FN"), test: some("bogus")},
		{multiget: true, sel: sels[3], hrefs: []string{"%zz"}},
	}
}

// warmUp (replay mode): a line without history is replayed in a process that has served
// other requests before, as it was when the line was written: state kept in package-level
// variables shows in a replay as it did in the run.
func warmUp() {
	shapes := auditShapes()
	for i, r := range append(shapes, shapes[5], shapes[0]) {
		execServer(r, uint64(1000+64*i))
	}
	tm := carddav.TextMatch{Text: "w", NegateCondition: true, MatchType: "equals"}
	execClientSeq([]*clientInput{
		{query: carddav.AddressBookQuery{DataRequest: carddav.AddressDataRequest{Props: []string{"FN"}}, FilterTest: "allof", Limit: 9,
			PropFilters: []carddav.PropFilter{{Name: "W", Test: "allof", TextMatches: []carddav.TextMatch{tm}, Params: []carddav.ParamFilter{{Name: "P", TextMatch: &tm}}}}}},
		{multiget: true, path: "/ab/warm/", mg: carddav.AddressBookMultiGet{DataRequest: carddav.AddressDataRequest{AllProp: true}, Paths: []string{"/ab/warm/w.vcf"}}},
	}, "shared")
}
