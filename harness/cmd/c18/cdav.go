package main

// Part "cdav" (support, no Gallina model): N goroutines share ONE caldav.Client (or
// carddav.Client) and ONE caldav.Handler (carddav.Handler) — whose ServeHTTP builds a
// fresh adapter per request, caldav/server.go:77-82, carddav/server.go:74-79 — over an
// in-memory backend of the harness (one mutex around a map of encoded objects; nothing
// decoded is ever shared).  Goroutine i is USER i: its requests carry the user in their
// context, the backend derives principal (/u<i>/), home set and collections from it, so
// that requests of different users overlap on the one handler.  The
// canonical answers are recorded concurrently and again alone; the verdict is the
// property's own predicate "concurrently = alone" (Concurrent.dav_spec_ok).
//
//   (cdav <caldav|carddav> (client (<op>...))...) (dobs <hang> (cl (<answer>...) (<answer>...))...)

import (
	"bytes"
	"context"
	"errors"
	"fmt"
	"net/http"
	"sort"
	"strings"
	"sync"
	"time"

	"github.com/emersion/go-ical"
	"github.com/emersion/go-vcard"
	webdav "github.com/emersion/go-webdav"
	"github.com/emersion/go-webdav/caldav"
	"github.com/emersion/go-webdav/carddav"
	"github.com/emersion/go-webdav/verifhook"

	"verifharness/hx"
)

type dop struct {
	kind    string // put get query mget del find
	k, k2   int
	summary string
}

func (o dop) Sx() string {
	switch o.kind {
	case "put":
		return hx.L("put", hx.I(int64(o.k)), hx.S(o.summary))
	case "mget":
		return hx.L("mget", hx.I(int64(o.k)), hx.I(int64(o.k2)))
	case "get", "del":
		return hx.L(o.kind, hx.I(int64(o.k)))
	default:
		return hx.L(o.kind)
	}
}

type dworkload struct {
	proto   string // caldav | carddav
	clients [][]dop
}

func (w dworkload) Sx() string {
	items := []string{"cdav", w.proto}
	for _, c := range w.clients {
		var ops []string
		for _, o := range c {
			ops = append(ops, o.Sx())
		}
		items = append(items, hx.L("client", hx.L(ops...)))
	}
	return hx.L(items...)
}

func parseDWorkload(x hx.Sx) dworkload {
	a := x.Args()
	w := dworkload{proto: a[0].Atom}
	for _, c := range a[1:] {
		var ops []dop
		for _, o := range c.Args()[0].List {
			oa := o.Args()
			p := dop{kind: o.Head()}
			switch p.kind {
			case "put":
				p.k, p.summary = int(oa[0].Int()), oa[1].Str()
			case "mget":
				p.k, p.k2 = int(oa[0].Int()), int(oa[1].Int())
			case "get", "del":
				p.k = int(oa[0].Int())
			}
			ops = append(ops, p)
		}
		w.clients = append(w.clients, ops)
	}
	return w
}

// the user a request belongs to travels in its context (as an authenticating
// middleware would put it there); the backend doubles derive principal and home set
// from it.  Goroutine i is user i.
type userKey struct{}

func userOf(ctx context.Context) int {
	if u, ok := ctx.Value(userKey{}).(int); ok {
		return u
	}
	return -1
}

func notFound() error { return webdav.NewHTTPError(http.StatusNotFound, errors.New("not found")) }

// ---- in-memory backends

type memStore struct {
	mu    sync.Mutex
	objs  map[string][]byte
	colls []string
}

func (m *memStore) get(p string) ([]byte, bool) {
	m.mu.Lock()
	defer m.mu.Unlock()
	b, ok := m.objs[p]
	return b, ok
}

func (m *memStore) under(prefix string) []string {
	m.mu.Lock()
	defer m.mu.Unlock()
	var ps []string
	for p := range m.objs {
		if strings.HasPrefix(p, prefix) {
			ps = append(ps, p)
		}
	}
	sort.Strings(ps)
	return ps
}

func (m *memStore) put(p string, b []byte) {
	m.mu.Lock()
	m.objs[p] = b
	m.mu.Unlock()
}

func (m *memStore) del(p string) bool {
	m.mu.Lock()
	defer m.mu.Unlock()
	_, ok := m.objs[p]
	delete(m.objs, p)
	return ok
}

func (m *memStore) hasColl(p string) bool {
	for _, c := range m.colls {
		if c == p {
			return true
		}
	}
	return false
}

var fixedTime = time.Date(2024, 1, 2, 3, 4, 5, 0, time.UTC)

type memCal struct{ *memStore }

func (b memCal) CurrentUserPrincipal(ctx context.Context) (string, error) {
	return fmt.Sprintf("/u%d/", userOf(ctx)), nil
}
func (b memCal) CalendarHomeSetPath(ctx context.Context) (string, error) {
	return fmt.Sprintf("/u%d/cal/", userOf(ctx)), nil
}
func (b memCal) CreateCalendar(context.Context, *caldav.Calendar) error {
	return webdav.NewHTTPError(http.StatusForbidden, errors.New("fixed set of calendars"))
}
func (b memCal) ListCalendars(ctx context.Context) ([]caldav.Calendar, error) {
	var l []caldav.Calendar
	home := fmt.Sprintf("/u%d/", userOf(ctx))
	for _, c := range b.colls {
		if !strings.HasPrefix(c, home) {
			continue
		}
		l = append(l, caldav.Calendar{Path: c, Name: c, SupportedComponentSet: []string{"VEVENT"}})
	}
	return l, nil
}
func (b memCal) GetCalendar(_ context.Context, p string) (*caldav.Calendar, error) {
	if !b.hasColl(p) {
		return nil, notFound()
	}
	return &caldav.Calendar{Path: p, Name: p, SupportedComponentSet: []string{"VEVENT"}}, nil
}
func (b memCal) load(p string) (*caldav.CalendarObject, error) {
	raw, ok := b.get(p)
	if !ok {
		return nil, notFound()
	}
	cal, err := ical.NewDecoder(bytes.NewReader(raw)).Decode()
	if err != nil {
		return nil, err
	}
	return &caldav.CalendarObject{Path: p, ModTime: fixedTime, ContentLength: int64(len(raw)),
		ETag: fmt.Sprintf("%x", len(raw)), Data: cal}, nil
}
func (b memCal) GetCalendarObject(_ context.Context, p string, _ *caldav.CalendarCompRequest) (*caldav.CalendarObject, error) {
	return b.load(p)
}
func (b memCal) ListCalendarObjects(_ context.Context, p string, _ *caldav.CalendarCompRequest) ([]caldav.CalendarObject, error) {
	var l []caldav.CalendarObject
	for _, op := range b.under(p) {
		if o, err := b.load(op); err == nil {
			l = append(l, *o)
		}
	}
	return l, nil
}
func (b memCal) QueryCalendarObjects(ctx context.Context, p string, q *caldav.CalendarQuery) ([]caldav.CalendarObject, error) {
	l, _ := b.ListCalendarObjects(ctx, p, nil)
	return caldav.Filter(q, l)
}
func (b memCal) PutCalendarObject(_ context.Context, p string, cal *ical.Calendar, _ *caldav.PutCalendarObjectOptions) (*caldav.CalendarObject, error) {
	var buf bytes.Buffer
	if err := ical.NewEncoder(&buf).Encode(cal); err != nil {
		return nil, webdav.NewHTTPError(http.StatusBadRequest, err)
	}
	b.put(p, buf.Bytes())
	return b.load(p)
}
func (b memCal) DeleteCalendarObject(_ context.Context, p string) error {
	if !b.del(p) {
		return notFound()
	}
	return nil
}

type memCard struct{ *memStore }

func (b memCard) CurrentUserPrincipal(ctx context.Context) (string, error) {
	return fmt.Sprintf("/u%d/", userOf(ctx)), nil
}
func (b memCard) AddressBookHomeSetPath(ctx context.Context) (string, error) {
	return fmt.Sprintf("/u%d/card/", userOf(ctx)), nil
}
func (b memCard) CreateAddressBook(context.Context, *carddav.AddressBook) error {
	return webdav.NewHTTPError(http.StatusForbidden, errors.New("fixed set of address books"))
}
func (b memCard) DeleteAddressBook(context.Context, string) error {
	return webdav.NewHTTPError(http.StatusForbidden, errors.New("fixed set of address books"))
}
func (b memCard) ListAddressBooks(ctx context.Context) ([]carddav.AddressBook, error) {
	var l []carddav.AddressBook
	home := fmt.Sprintf("/u%d/", userOf(ctx))
	for _, c := range b.colls {
		if !strings.HasPrefix(c, home) {
			continue
		}
		l = append(l, carddav.AddressBook{Path: c, Name: c})
	}
	return l, nil
}
func (b memCard) GetAddressBook(_ context.Context, p string) (*carddav.AddressBook, error) {
	if !b.hasColl(p) {
		return nil, notFound()
	}
	return &carddav.AddressBook{Path: p, Name: p}, nil
}
func (b memCard) load(p string) (*carddav.AddressObject, error) {
	raw, ok := b.get(p)
	if !ok {
		return nil, notFound()
	}
	card, err := vcard.NewDecoder(bytes.NewReader(raw)).Decode()
	if err != nil {
		return nil, err
	}
	return &carddav.AddressObject{Path: p, ModTime: fixedTime, ContentLength: int64(len(raw)),
		ETag: fmt.Sprintf("%x", len(raw)), Card: card}, nil
}
func (b memCard) GetAddressObject(_ context.Context, p string, _ *carddav.AddressDataRequest) (*carddav.AddressObject, error) {
	return b.load(p)
}
func (b memCard) ListAddressObjects(_ context.Context, p string, _ *carddav.AddressDataRequest) ([]carddav.AddressObject, error) {
	var l []carddav.AddressObject
	for _, op := range b.under(p) {
		if o, err := b.load(op); err == nil {
			l = append(l, *o)
		}
	}
	return l, nil
}
func (b memCard) QueryAddressObjects(ctx context.Context, p string, q *carddav.AddressBookQuery) ([]carddav.AddressObject, error) {
	l, _ := b.ListAddressObjects(ctx, p, nil)
	return carddav.Filter(q, l)
}
func (b memCard) PutAddressObject(_ context.Context, p string, card vcard.Card, _ *carddav.PutAddressObjectOptions) (*carddav.AddressObject, error) {
	var buf bytes.Buffer
	if err := vcard.NewEncoder(&buf).Encode(card); err != nil {
		return nil, webdav.NewHTTPError(http.StatusBadRequest, err)
	}
	b.put(p, buf.Bytes())
	return b.load(p)
}
func (b memCard) DeleteAddressObject(_ context.Context, p string) error {
	if !b.del(p) {
		return notFound()
	}
	return nil
}

// ---- operations through the shared client

func code(err error) string {
	var he *verifhook.HTTPError
	if errors.As(err, &he) {
		return fmt.Sprintf("E%d", he.Code)
	}
	return "Eother"
}

func newEvent(uid, summary string) *ical.Calendar {
	cal := ical.NewCalendar()
	cal.Props.SetText(ical.PropVersion, "2.0")
	cal.Props.SetText(ical.PropProductID, "-//verif//c18//EN")
	ev := ical.NewEvent()
	ev.Props.SetText(ical.PropUID, uid)
	ev.Props.SetDateTime(ical.PropDateTimeStamp, fixedTime)
	ev.Props.SetDateTime(ical.PropDateTimeStart, fixedTime)
	ev.Props.SetText(ical.PropSummary, summary)
	cal.Children = append(cal.Children, ev.Component)
	return cal
}

func summaryOf(cal *ical.Calendar) string {
	if cal == nil {
		return "<nil>"
	}
	for _, c := range cal.Children {
		if c.Name == ical.CompEvent {
			s, _ := c.Props.Text(ical.PropSummary)
			return s
		}
	}
	return "<no event>"
}

var calAllProps = caldav.CalendarCompRequest{Name: "VCALENDAR", AllProps: true, AllComps: true}

func runCalOp(c *caldav.Client, i int, o dop) string {
	ctx := context.WithValue(context.Background(), userKey{}, i)
	coll := fmt.Sprintf("/u%d/cal/c/", i)
	obj := func(k int) string { return fmt.Sprintf("%se%d.ics", coll, k) }
	render := func(l []caldav.CalendarObject, err error) string {
		if err != nil {
			return code(err)
		}
		var items []string
		for _, co := range l {
			items = append(items, co.Path+"="+summaryOf(co.Data))
		}
		sort.Strings(items)
		return "[" + strings.Join(items, ";") + "]"
	}
	switch o.kind {
	case "put":
		co, err := c.PutCalendarObject(ctx, obj(o.k), newEvent(fmt.Sprintf("u%d-%d", i, o.k), o.summary))
		if err != nil {
			return code(err)
		}
		return "ok " + co.Path
	case "get":
		co, err := c.GetCalendarObject(ctx, obj(o.k))
		if err != nil {
			return code(err)
		}
		return "got " + summaryOf(co.Data)
	case "query":
		return render(c.QueryCalendar(ctx, coll, &caldav.CalendarQuery{CompRequest: calAllProps,
			CompFilter: caldav.CompFilter{Name: "VCALENDAR", Comps: []caldav.CompFilter{{Name: "VEVENT"}}}}))
	case "mget":
		return render(c.MultiGetCalendar(ctx, coll, &caldav.CalendarMultiGet{CompRequest: calAllProps,
			Paths: []string{obj(o.k), obj(o.k2)}}))
	case "del":
		if err := c.RemoveAll(ctx, obj(o.k)); err != nil {
			return code(err)
		}
		return "deleted"
	case "whoami":
		p, err := c.FindCurrentUserPrincipal(ctx)
		if err != nil {
			return code(err)
		}
		return "principal " + p
	case "home":
		p, err := c.FindCalendarHomeSet(ctx, fmt.Sprintf("/u%d/", i))
		if err != nil {
			return code(err)
		}
		return "home " + p
	default:
		cals, err := c.FindCalendars(ctx, fmt.Sprintf("/u%d/cal/", i))
		if err != nil {
			return code(err)
		}
		var ps []string
		for _, cl := range cals {
			ps = append(ps, cl.Path)
		}
		sort.Strings(ps)
		return strings.Join(ps, ";")
	}
}

func newCard(uid, name string) vcard.Card {
	card := make(vcard.Card)
	card.SetValue(vcard.FieldVersion, "3.0")
	card.SetValue(vcard.FieldUID, uid)
	card.SetValue(vcard.FieldFormattedName, name)
	return card
}

var cardAllProps = carddav.AddressDataRequest{AllProp: true}

func runCardOp(c *carddav.Client, i int, o dop) string {
	ctx := context.WithValue(context.Background(), userKey{}, i)
	coll := fmt.Sprintf("/u%d/card/c/", i)
	obj := func(k int) string { return fmt.Sprintf("%sv%d.vcf", coll, k) }
	render := func(l []carddav.AddressObject, err error) string {
		if err != nil {
			return code(err)
		}
		var items []string
		for _, ao := range l {
			items = append(items, ao.Path+"="+ao.Card.Value(vcard.FieldFormattedName))
		}
		sort.Strings(items)
		return "[" + strings.Join(items, ";") + "]"
	}
	switch o.kind {
	case "put":
		ao, err := c.PutAddressObject(ctx, obj(o.k), newCard(fmt.Sprintf("u%d-%d", i, o.k), o.summary))
		if err != nil {
			return code(err)
		}
		return "ok " + ao.Path
	case "get":
		ao, err := c.GetAddressObject(ctx, obj(o.k))
		if err != nil {
			return code(err)
		}
		return "got " + ao.Card.Value(vcard.FieldFormattedName)
	case "query":
		return render(c.QueryAddressBook(ctx, coll, &carddav.AddressBookQuery{DataRequest: cardAllProps,
			PropFilters: []carddav.PropFilter{{Name: vcard.FieldFormattedName}}}))
	case "mget":
		return render(c.MultiGetAddressBook(ctx, coll, &carddav.AddressBookMultiGet{DataRequest: cardAllProps,
			Paths: []string{obj(o.k), obj(o.k2)}}))
	case "del":
		if err := c.RemoveAll(ctx, obj(o.k)); err != nil {
			return code(err)
		}
		return "deleted"
	case "whoami":
		p, err := c.FindCurrentUserPrincipal(ctx)
		if err != nil {
			return code(err)
		}
		return "principal " + p
	case "home":
		p, err := c.FindAddressBookHomeSet(ctx, fmt.Sprintf("/u%d/", i))
		if err != nil {
			return code(err)
		}
		return "home " + p
	default:
		abs, err := c.FindAddressBooks(ctx, fmt.Sprintf("/u%d/card/", i))
		if err != nil {
			return code(err)
		}
		var ps []string
		for _, ab := range abs {
			ps = append(ps, ab.Path)
		}
		sort.Strings(ps)
		return strings.Join(ps, ";")
	}
}

// davRunner returns a function running one operation of goroutine i through one
// shared client on one shared handler over a fresh store.
func davRunner(w dworkload) func(i int, o dop) string {
	st := &memStore{objs: map[string][]byte{}}
	if w.proto == "caldav" {
		for i := range w.clients {
			st.colls = append(st.colls, fmt.Sprintf("/u%d/cal/c/", i))
			st.put(fmt.Sprintf("/u%d/cal/c/e0.ics", i), mustEncodeCal(newEvent(fmt.Sprintf("u%d-0", i), "initial")))
		}
		h := &caldav.Handler{Backend: memCal{st}}
		c, err := caldav.NewClient(inprocClient{h}, "http://cdav.invalid/")
		if err != nil {
			panic(err)
		}
		return func(i int, o dop) string { return runCalOp(c, i, o) }
	}
	for i := range w.clients {
		st.colls = append(st.colls, fmt.Sprintf("/u%d/card/c/", i))
		var buf bytes.Buffer
		vcard.NewEncoder(&buf).Encode(newCard(fmt.Sprintf("u%d-0", i), "initial"))
		st.put(fmt.Sprintf("/u%d/card/c/v0.vcf", i), buf.Bytes())
	}
	h := &carddav.Handler{Backend: memCard{st}}
	c, err := carddav.NewClient(inprocClient{h}, "http://cdav.invalid/")
	if err != nil {
		panic(err)
	}
	return func(i int, o dop) string { return runCardOp(c, i, o) }
}

func mustEncodeCal(cal *ical.Calendar) []byte {
	var buf bytes.Buffer
	if err := ical.NewEncoder(&buf).Encode(cal); err != nil {
		panic(err)
	}
	return buf.Bytes()
}

func runDav(w dworkload, watchdog time.Duration) string {
	n := len(w.clients)
	conc := make([][]string, n)
	alone := make([][]string, n)
	finished := make(chan struct{})
	go func() {
		defer close(finished)
		defer func() {
			if r := recover(); r != nil {
				for i := range conc {
					conc[i] = append(conc[i], hx.S(fmt.Sprint("PANIC ", r)))
				}
			}
		}()
		run := davRunner(w)
		var start, wg sync.WaitGroup
		start.Add(1)
		for i := range w.clients {
			wg.Add(1)
			go func(i int) {
				defer wg.Done()
				start.Wait()
				for _, o := range w.clients[i] {
					conc[i] = append(conc[i], hx.S(safeOp(run, i, o)))
				}
			}(i)
		}
		start.Done()
		wg.Wait()
		for i := range w.clients {
			run := davRunner(w)
			for _, o := range w.clients[i] {
				alone[i] = append(alone[i], hx.S(safeOp(run, i, o)))
			}
		}
	}()
	select {
	case <-finished:
	case <-time.After(shrink(watchdog, hangsSeen.Load())):
		hangsSeen.Add(1)
		return w.Sx() + " " + hx.L("dobs", "1")
	}
	items := []string{"dobs", "0"}
	for i := range w.clients {
		items = append(items, hx.L("cl", hx.L(conc[i]...), hx.L(alone[i]...)))
	}
	return w.Sx() + " " + hx.L(items...)
}

func safeOp(run func(int, dop) string, i int, o dop) (s string) {
	defer func() {
		if r := recover(); r != nil {
			s = fmt.Sprint("PANIC ", r)
		}
	}()
	return run(i, o)
}

func davWorkloads(rng *hx.Rand, n int) []dworkload {
	var out []dworkload
	for j := 0; j < n; j++ {
		w := dworkload{proto: "caldav"}
		if j%2 == 1 {
			w.proto = "carddav"
		}
		k := 2 + rng.Intn(5)
		for i := 0; i < k; i++ {
			var ops []dop
			m := 1 + rng.Intn(12)
			for x := 0; x < m; x++ {
				o := dop{k: rng.Intn(4), k2: rng.Intn(4), summary: rng.Pick([]string{"a", "b", "meeting", "Zoë", ""})}
				switch rng.Intn(14) {
				case 10, 11:
					o.kind = "whoami"
				case 12, 13:
					o.kind = "home"
				case 0, 1, 2:
					o.kind = "put"
				case 3, 4:
					o.kind = "get"
				case 5, 6:
					o.kind = "query"
				case 7:
					o.kind = "mget"
				case 8:
					o.kind = "del"
				default:
					o.kind = "find"
				}
				ops = append(ops, o)
			}
			w.clients = append(w.clients, ops)
		}
		out = append(out, w)
	}
	return out
}
