package main

// Part "upx": the caller's context is cancelled at an arbitrary point of an upload —
// before Create, after the k-th Write, after the server has answered but before Close,
// while Close waits (the server has seen EOF and is about to decide).  The fault script
// then no longer determines what the HTTPClient's Do returns; what the theorems fix
// (C18_close_after_answer / C18_close_outcome / C18_closed_implies_exited,
// C18_close_is_do_partial) and what is observed here: Close returns only after Do has
// returned, and returns exactly what Do returned.
//
//   (upx <script|http> (<chunk len>...) <read k> <eof 0|1> (ans <st>)|drop|cancel pre|(w <k>)|answered|ateof)
//   (xobs <close result|none> <do result|none> <do returned first 0|1> <leak> <hang> <create error|none> <sent 0|1>)
//
// <create error>: Create itself returned an error and no writer (then nothing is written
// or closed); <sent>: a request reached the HTTPClient.

import (
	"context"
	"fmt"
	"net/http"
	"net/http/httptest"
	"runtime/pprof"
	"sync/atomic"
	"time"

	webdav "github.com/emersion/go-webdav"

	"verifharness/hx"
)

type xscript struct {
	script
	cx  string // pre | w | answered | ateof
	cxk int
}

func (x xscript) Sx() string {
	var cs []string
	for _, c := range x.chunks {
		cs = append(cs, hx.I(int64(c)))
	}
	dec := x.dec
	if dec == "ans" {
		dec = hx.L("ans", hx.I(int64(x.status)))
	}
	cx := x.cx
	if cx == "w" {
		cx = hx.L("w", hx.I(int64(x.cxk)))
	}
	return hx.L("upx", x.transport, hx.L(cs...), hx.I(int64(x.read)), hx.B(x.eof), dec, cx)
}

func parseXScript(s hx.Sx) xscript {
	a := s.Args()
	x := xscript{}
	x.transport, x.close, x.read, x.eof, x.rdsz = a[0].Atom, true, int(a[2].Int()), a[3].Bool(), 4096
	for _, c := range a[1].List {
		x.chunks = append(x.chunks, int(c.Int()))
	}
	if a[4].IsList {
		x.dec, x.status = "ans", int(a[4].List[1].Int())
	} else {
		x.dec = a[4].Atom
	}
	if a[5].IsList {
		x.cx, x.cxk = "w", int(a[5].List[1].Int())
	} else {
		x.cx = a[5].Atom
	}
	return x
}

// doRecorder notes what the HTTPClient's Do returned, as internal.Client.Do maps it,
// at the moment it returns.
type doRecorder struct {
	inner    webdav.HTTPClient
	entered  atomic.Bool
	returned atomic.Bool
	class    atomic.Value
}

func (d *doRecorder) Do(req *http.Request) (*http.Response, error) {
	d.entered.Store(true)
	resp, err := d.inner.Do(req)
	switch {
	case err != nil:
		d.class.Store(classify(err))
	case resp.StatusCode/100 == 2:
		d.class.Store("nil")
	default:
		d.class.Store(hx.L("http", hx.I(int64(resp.StatusCode))))
	}
	d.returned.Store(true)
	return resp, err
}

func doUploadX(x xscript, id string) string {
	ctx, cancel := context.WithCancel(context.Background())
	defer cancel()
	e := &env{sc: x.script, cancel: cancel, release: make(chan struct{})}
	if x.cx == "ateof" {
		e.atEOF, e.resume = make(chan struct{}), make(chan struct{})
		go func() {
			select {
			case <-e.atEOF:
			case <-time.After(5 * time.Second):
			}
			cancel()
			close(e.resume)
		}()
	}
	var inner webdav.HTTPClient = e
	endpoint := "http://upload.invalid/"
	cleanup := func() {}
	if x.transport == "http" {
		srv := httptest.NewServer(e)
		tr := &http.Transport{}
		inner = &http.Client{Transport: tr}
		endpoint = srv.URL
		cleanup = func() {
			tr.CloseIdleConnections()
			go srv.Close()
		}
	}
	rec := &doRecorder{inner: inner}
	c, err := webdav.NewClient(rec, endpoint)
	if err != nil {
		return hx.L("xobs", "none", "none", "0", "0", "1", "none", "0")
	}
	if x.cx == "pre" {
		cancel()
	}
	w, err := c.Create(ctx, "/f")
	if err != nil || w == nil {
		// Create refused: there is no writer, nothing to write or close.  What is left to
		// observe: the error, whether anything reached the transport, what stays behind.
		time.Sleep(2 * time.Millisecond)
		leak := leaked(id, 2*time.Second)
		close(e.release)
		cleanup()
		return hx.L("xobs", "none", "none", "0", hx.B(leak), "0", classify(err), hx.B(rec.entered.Load()))
	}
	off := 0
	if x.cx == "w" && x.cxk == 0 {
		cancel()
	}
	for i, n := range x.chunks {
		w.Write(pattern(off, n))
		off += n
		if x.cx == "w" && x.cxk == i+1 {
			cancel()
		}
	}
	if x.cx == "answered" {
		for i := 0; i < 2000 && !e.decided.Load(); i++ {
			time.Sleep(time.Millisecond)
		}
		cancel()
	}
	cerr := w.Close()
	doFirst := rec.returned.Load()
	closeRes := classify(cerr)
	for i := 0; i < 2000 && !rec.returned.Load(); i++ {
		time.Sleep(time.Millisecond)
	}
	doRes := "none"
	if v, ok := rec.class.Load().(string); ok && rec.returned.Load() {
		doRes = v
	}
	leak := leaked(id, 2*time.Second)
	close(e.release)
	cleanup()
	return hx.L("xobs", closeRes, doRes, hx.B(doFirst), hx.B(leak), "0", "none", hx.B(rec.entered.Load()))
}

func runUploadX(x xscript, watchdog time.Duration) string {
	id := fmt.Sprintf("x%d", caseCounter.Add(1))
	ch := make(chan string, 1)
	go pprof.Do(context.Background(), pprof.Labels("case", id), func(context.Context) {
		ch <- doUploadX(x, id)
	})
	select {
	case o := <-ch:
		return x.Sx() + " " + o
	case <-time.After(shrink(watchdog, hangsSeen.Load())):
		hangsSeen.Add(1)
		return x.Sx() + " " + hx.L("xobs", "none", "none", "0", "0", "1", "none", "0")
	}
}

func uploadXScripts(thorough bool) []xscript {
	var out []xscript
	lists := [][]int{nil, {3}, {1, 3}, {4096, 4096}, {70000}}
	if thorough {
		lists = append(lists, []int{1, 1, 1, 1}, []int{300000}, []int{65536, 65536, 65536})
	}
	type dec struct {
		d  string
		st int
	}
	decs := []dec{{"ans", 201}, {"ans", 204}, {"ans", 403}, {"ans", 500}, {"drop", 0}}
	reps := 3
	if thorough {
		reps = 10
	}
	for _, tr := range []string{"script", "http"} {
		for _, l := range lists {
			total := 0
			for _, c := range l {
				total += c
			}
			reads := map[int]bool{0: true, total: true, total / 2: true}
			for k := range reads {
				for _, d := range decs {
					base := xscript{}
					base.transport, base.chunks, base.close, base.read = tr, l, true, k
					base.dec, base.status, base.rdsz = d.d, d.st, 4096
					// before Create, and after each write (0 = before the first)
					x := base
					x.cx = "pre"
					out = append(out, x)
					for w := 0; w <= len(l); w++ {
						x := base
						x.cx, x.cxk = "w", w
						out = append(out, x)
					}
					// after the answer, before Close: the select of a Close that also listens to
					// the context is a coin toss, so repeat
					for i := 0; i < reps; i++ {
						x := base
						x.cx = "answered"
						out = append(out, x)
					}
					// while Close waits: the server has seen EOF and then decides
					for i := 0; i < reps; i++ {
						x := base
						x.eof, x.cx = true, "ateof"
						out = append(out, x)
					}
				}
			}
		}
	}
	return out
}
