// Command c18 ties the two models of property C18 to the Go code.
//
// Part "up" (Upload.v): the real webdav.Client.Create / Write... / Close run against
// an environment that follows a fault script — either a scripted HTTPClient that
// implements exactly the moves of the model's environment (reads k bytes, perhaps
// goes on to EOF, then answers / drops / stalls until the context is cancelled;
// closes the request body before or after Do returns), or net/http's own Transport
// against an httptest server whose handler follows the same script.
//
//	(up <script|http> (<chunk len>...) <close 0|1> <read k> <eof 0|1> (ans <st>)|drop|cancel (v <rdsz> <late 0|1> <drain 0|1>))
//	(obs ((<len> <ok 0|1>)...) none|nil|(http <st>)|transport|ctx <other> <after_end> <leak> <hang>)
//
// Part "conc" (Concurrent.v): N goroutines share ONE webdav.Client and ONE
// webdav.Handler{LocalFileSystem}; goroutine i works below collection <name i>.
// Every goroutine's answers and final subtree are recorded while all run at once and
// again when its program runs alone from the same initial tree.
//
//	(conc <inproc|http> (client <name> <tree> (<op>...))...)
//	(cobs <stray 0|1> <hang 0|1> (cl (<answer>...) <tree> (<answer>...) <tree>)...)
//
// Part "upx" (upx.go): the caller's context ends at an arbitrary point of an upload.
//
// Part "gate" (gate.go): independence of progress — requests held in the middle by the
// harness must not keep requests on disjoint collections from completing as alone.
//
// Part "cdav" (cdav.go): the same differential for caldav/carddav handlers, no model.
//
// In the thorough tier the conc and cdav workloads are additionally run in a child process
// built with -race (support, not proof); a race report becomes the line
// (conc race) (cobs 0 0 race <report>).
package main

import (
	"bytes"
	"context"
	"crypto/sha1"
	"errors"
	"flag"
	"fmt"
	"io"
	"net"
	"net/http"
	"net/http/httptest"
	"os"
	"os/exec"
	"path"
	"path/filepath"
	"runtime"
	"runtime/pprof"
	"sort"
	"strings"
	"sync"
	"sync/atomic"
	"syscall"
	"time"

	webdav "github.com/emersion/go-webdav"
	"github.com/emersion/go-webdav/verifhook"

	"verifharness/davx"
	"verifharness/hx"
)

// ---------------------------------------------------------------------------
// part "up": the upload protocol

type script struct {
	transport string // "script" | "http"
	chunks    []int
	close     bool
	read      int
	eof       bool
	dec       string // "ans" | "drop" | "cancel"
	status    int
	// variants the model is indifferent to
	rdsz  int  // size of the environment's reads
	late  bool // script transport: the request body is closed after Do has returned
	drain bool // http transport: the handler goes on reading the body after it has answered
}

func (s script) total() int {
	t := 0
	for _, c := range s.chunks {
		t += c
	}
	return t
}

func (s script) wf() bool { return s.read <= s.total() && (s.close || !s.eof) }

func (s script) Sx() string {
	var cs []string
	for _, c := range s.chunks {
		cs = append(cs, hx.I(int64(c)))
	}
	dec := s.dec
	if dec == "ans" {
		dec = hx.L("ans", hx.I(int64(s.status)))
	}
	return hx.L("up", s.transport, hx.L(cs...), hx.B(s.close), hx.I(int64(s.read)), hx.B(s.eof), dec,
		hx.L("v", hx.I(int64(s.rdsz)), hx.B(s.late), hx.B(s.drain)))
}

func parseScript(x hx.Sx) script {
	a := x.Args()
	s := script{transport: a[0].Atom, close: a[2].Bool(), read: int(a[3].Int()), eof: a[4].Bool()}
	for _, c := range a[1].List {
		s.chunks = append(s.chunks, int(c.Int()))
	}
	if a[5].IsList {
		s.dec = "ans"
		s.status = int(a[5].List[1].Int())
	} else {
		s.dec = a[5].Atom
	}
	v := a[6].List
	s.rdsz, s.late, s.drain = int(v[1].Int()), v[2].Bool(), v[3].Bool()
	if s.rdsz < 1 {
		s.rdsz = 1
	}
	return s
}

// the body is a fixed function of the offset, so that the environment can check
// that it receives the caller's bytes, in order, exactly once
func patByte(i int) byte { return byte(i*131 + (i >> 8) + (i >> 16)) }

func pattern(off, n int) []byte {
	b := make([]byte, n)
	for i := range b {
		b[i] = patByte(off + i)
	}
	return b
}

// env is the scripted environment (transport + network + server) of one upload.
type env struct {
	sc      script
	cancel  context.CancelFunc
	release chan struct{} // closed by the harness once the caller is done
	decided atomic.Bool   // the exchange has been decided (answer / drop / cancellation)
	corrupt atomic.Bool   // the bytes received are not the bytes written
	got     int
	// part "upx": the environment announces that it has seen EOF and waits for the
	// harness (which cancels the caller's context meanwhile) before it decides
	atEOF, resume chan struct{}
}

// consume reads what the script says from the request body.
func (e *env) consume(body io.Reader) {
	buf := make([]byte, e.sc.rdsz)
	check := func(n int) {
		for i := 0; i < n; i++ {
			if buf[i] != patByte(e.got+i) {
				e.corrupt.Store(true)
			}
		}
		e.got += n
	}
	for e.got < e.sc.read {
		want := e.sc.read - e.got
		if want > len(buf) {
			want = len(buf)
		}
		n, err := body.Read(buf[:want])
		check(n)
		if err != nil {
			if e.got < e.sc.read {
				e.corrupt.Store(true) // the body ended before the bytes the caller wrote arrived
			}
			return
		}
	}
	if e.sc.eof {
		for {
			n, err := body.Read(buf)
			check(n)
			if err == io.EOF {
				break
			}
			if err != nil {
				e.corrupt.Store(true)
				return
			}
		}
		if e.got != e.sc.total() {
			e.corrupt.Store(true)
		}
		if e.atEOF != nil {
			close(e.atEOF)
			select {
			case <-e.resume:
			case <-time.After(5 * time.Second):
			}
		}
	}
}

var errDropped = errors.New("verif: connection dropped")

// Do makes env a webdav.HTTPClient: the "script" transport.  It honours the
// RoundTripper contract: it returns only after the exchange is decided, and it
// closes the request body (before returning, or shortly after when sc.late).
func (e *env) Do(req *http.Request) (*http.Response, error) {
	body := req.Body
	e.consume(body)
	closeBody := func() {
		if e.sc.late {
			go func() {
				runtime.Gosched()
				time.Sleep(200 * time.Microsecond)
				body.Close()
			}()
		} else {
			body.Close()
		}
	}
	switch e.sc.dec {
	case "ans":
		e.decided.Store(true)
		resp := &http.Response{
			StatusCode: e.sc.status, Status: fmt.Sprintf("%d scripted", e.sc.status),
			Proto: "HTTP/1.1", ProtoMajor: 1, ProtoMinor: 1,
			Header:  http.Header{"Content-Type": {"text/plain"}},
			Body:    io.NopCloser(strings.NewReader("scripted answer")),
			Request: req,
		}
		closeBody()
		return resp, nil
	case "drop":
		e.decided.Store(true)
		closeBody()
		return nil, errDropped
	default: // cancel: stall until the caller's context ends
		e.decided.Store(true)
		e.cancel()
		<-req.Context().Done()
		closeBody()
		return nil, req.Context().Err()
	}
}

// ServeHTTP makes env the handler of an httptest server: the "http" transport.
func (e *env) ServeHTTP(w http.ResponseWriter, r *http.Request) {
	if e.sc.drain {
		http.NewResponseController(w).EnableFullDuplex()
	}
	e.consume(r.Body)
	switch e.sc.dec {
	case "ans":
		e.decided.Store(true)
		w.Header().Set("Content-Type", "text/plain")
		w.WriteHeader(e.sc.status)
		if e.sc.drain {
			http.NewResponseController(w).Flush()
			io.Copy(io.Discard, r.Body)
		}
	case "drop":
		conn, _, err := w.(http.Hijacker).Hijack()
		e.decided.Store(true)
		if err == nil {
			if tc, ok := conn.(*net.TCPConn); ok {
				tc.SetLinger(0)
			}
			conn.Close()
		}
	default:
		e.decided.Store(true)
		e.cancel()
		select {
		case <-e.release:
		case <-time.After(15 * time.Second):
		}
	}
}

type upObs struct {
	writes   []string
	closeRes string
	other    bool
	afterEnd bool
	leak     bool
	hang     bool
}

func (o upObs) Sx() string {
	return hx.L("obs", hx.L(o.writes...), o.closeRes, hx.B(o.other), hx.B(o.afterEnd), hx.B(o.leak), hx.B(o.hang))
}

func classify(err error) string {
	var he *verifhook.HTTPError
	switch {
	case err == nil:
		return "nil"
	case errors.As(err, &he):
		return hx.L("http", hx.I(int64(he.Code)))
	case errors.Is(err, context.Canceled), errors.Is(err, context.DeadlineExceeded):
		return "ctx"
	default:
		return "transport"
	}
}

// libraryGoroutines counts the goroutines started under the label case=<id> that
// are inside go-webdav code.
func libraryGoroutines(id string) int {
	var buf bytes.Buffer
	pprof.Lookup("goroutine").WriteTo(&buf, 1)
	n := 0
	needle := fmt.Sprintf("%q:%q", "case", id)
	for _, blk := range strings.Split(buf.String(), "\n\n") {
		if strings.Contains(blk, needle) && strings.Contains(blk, "emersion/go-webdav") {
			cnt := 1
			fmt.Sscanf(blk, "%d @", &cnt)
			n += cnt
		}
	}
	return n
}

// Once a failure mode has been seen often, later cases wait less for it: a broken
// tree must not make the run take hours (the first failures are the patient ones,
// and they are what the replay file keeps).
var leaksSeen, hangsSeen atomic.Int64

func shrink(d time.Duration, seen int64) time.Duration {
	switch {
	case seen < 8:
		return d
	case seen < 64:
		return d / 10
	default:
		return d / 50
	}
}

// tooBroken: enough hangs have been recorded; the rest of the run is skipped.
func tooBroken() bool { return hangsSeen.Load() >= 100 }

func leaked(id string, patience time.Duration) bool {
	patience = shrink(patience, leaksSeen.Load())
	deadline := time.Now().Add(patience)
	d := 50 * time.Microsecond
	for {
		runtime.Gosched()
		if libraryGoroutines(id) == 0 {
			return false
		}
		if time.Now().After(deadline) {
			if os.Getenv("VERIF_C18_DEBUG") != "" {
				var buf bytes.Buffer
				pprof.Lookup("goroutine").WriteTo(&buf, 1)
				for _, blk := range strings.Split(buf.String(), "\n\n") {
					if strings.Contains(blk, fmt.Sprintf("%q:%q", "case", id)) {
						fmt.Fprintf(os.Stderr, "c18: case %s still has:\n%s\n\n", id, blk)
					}
				}
			}
			leaksSeen.Add(1)
			return true
		}
		time.Sleep(d)
		if d < 20*time.Millisecond {
			d *= 2
		}
	}
}

func doUpload(sc script, id string) upObs {
	obs := upObs{closeRes: "none"}
	ctx, cancel := context.WithCancel(context.Background())
	defer cancel()
	e := &env{sc: sc, cancel: cancel, release: make(chan struct{})}
	var hc webdav.HTTPClient = e
	endpoint := "http://upload.invalid/"
	cleanup := func() {}
	if sc.transport == "http" {
		srv := httptest.NewServer(e)
		tr := &http.Transport{}
		hc = &http.Client{Transport: tr}
		endpoint = srv.URL
		cleanup = func() {
			tr.CloseIdleConnections()
			go srv.Close() // may wait for net/http's 500 ms lingering close
		}
	}
	c, err := webdav.NewClient(hc, endpoint)
	if err != nil {
		obs.other = true
		return obs
	}
	w, err := c.Create(ctx, "/f")
	if err != nil {
		obs.other = true
		return obs
	}
	off := 0
	for _, n := range sc.chunks {
		k, err := w.Write(pattern(off, n))
		ok := err == nil && k == n
		if !ok && !errors.Is(err, io.ErrClosedPipe) {
			obs.other = true
		}
		obs.writes = append(obs.writes, hx.L(hx.I(int64(n)), hx.B(ok)))
		off += n
	}
	if sc.close {
		err := w.Close()
		obs.afterEnd = e.decided.Load()
		obs.closeRes = classify(err)
	}
	if e.corrupt.Load() {
		obs.other = true
	}
	if !sc.close {
		// the caller has finished; the exchange is decided as soon as the environment
		// has read its k bytes.  Only then may the pipe be released (not observed).
		for i := 0; i < 2000 && !e.decided.Load(); i++ {
			time.Sleep(time.Millisecond)
		}
	}
	obs.leak = leaked(id, 2*time.Second)
	close(e.release)
	if !sc.close {
		go w.Close()
	}
	cleanup()
	return obs
}

var caseCounter atomic.Int64

func runUpload(sc script, watchdog time.Duration) string {
	id := fmt.Sprintf("u%d", caseCounter.Add(1))
	ch := make(chan upObs, 1)
	go pprof.Do(context.Background(), pprof.Labels("case", id), func(context.Context) {
		ch <- doUpload(sc, id)
	})
	select {
	case o := <-ch:
		return sc.Sx() + " " + o.Sx()
	case <-time.After(shrink(watchdog, hangsSeen.Load())):
		hangsSeen.Add(1)
		return sc.Sx() + " " + upObs{closeRes: "none", hang: true}.Sx()
	}
}

func uploadScripts(rng *hx.Rand, thorough bool) []script {
	var out []script
	add := func(s script) {
		if s.wf() {
			out = append(out, s)
		}
	}
	type dec struct {
		d  string
		st int
	}
	// (1) exhaustive bounded universe, scripted transport: every chunk list over
	// {0,1,3} up to length 3 x close x read point x eof x decision x body-close timing
	var lists [][]int
	var rec func(p []int)
	rec = func(p []int) {
		lists = append(lists, append([]int{}, p...))
		if len(p) == 3 {
			return
		}
		for _, c := range []int{0, 1, 3} {
			rec(append(p, c))
		}
	}
	rec(nil)
	decs := []dec{{"ans", 201}, {"ans", 204}, {"ans", 403}, {"ans", 500}, {"drop", 0}, {"cancel", 0}}
	for _, l := range lists {
		base := script{transport: "script", chunks: l}
		for _, cl := range []bool{true, false} {
			for k := 0; k <= base.total(); k++ {
				for _, eof := range []bool{false, true} {
					for _, d := range decs {
						for _, late := range []bool{false, true} {
							s := base
							s.close, s.read, s.eof, s.dec, s.status, s.late = cl, k, eof, d.d, d.st, late
							s.rdsz = 1 + (k+len(l))%2
							add(s)
						}
					}
				}
			}
		}
	}
	// (2) the fault matrix of the property text on net/http's own transport (and the
	// same scripts on the scripted one): size x chunking x read point x fault
	sizes := []int{0, 1, 4096, 65536, 300000, 1 << 20}
	if thorough {
		sizes = append(sizes, 4<<20, 9<<20)
	} else {
		sizes = append(sizes, 4<<20)
	}
	chunkings := func(size int) [][]int {
		var cs [][]int
		cs = append(cs, []int{size})
		if size == 0 {
			cs = append(cs, nil, []int{0, 0})
		}
		if size > 1 && size <= 4096 {
			if size <= 64 || thorough {
				one := make([]int, size)
				for i := range one {
					one[i] = 1
				}
				cs = append(cs, one)
			}
		}
		for _, step := range []int{4096, 65536} {
			if size > step && size/step <= 1200 {
				var l []int
				for left := size; left > 0; left -= step {
					if left < step {
						l = append(l, left)
					} else {
						l = append(l, step)
					}
				}
				cs = append(cs, l)
			}
		}
		return cs
	}
	mdecs := []dec{{"ans", 201}, {"ans", 200}, {"ans", 403}, {"ans", 507}, {"drop", 0}, {"cancel", 0}}
	for _, size := range sizes {
		for _, ch := range chunkings(size) {
			points := map[int]bool{0: true, size: true, size / 2: true}
			if size > 1 {
				points[1] = true
			}
			for k := range points {
				for _, eof := range []bool{false, true} {
					if eof && k != size/2 {
						continue // reading to EOF: one read granularity is enough
					}
					for _, d := range mdecs {
						for _, tr := range []string{"http", "script"} {
							s := script{transport: tr, chunks: ch, close: true, read: k, eof: eof, dec: d.d, status: d.st, rdsz: 32 * 1024}
							if tr == "script" && len(ch) > 300 {
								continue
							}
							add(s)
							if tr == "http" && d.d == "ans" && !eof && k < size {
								s.drain = true
								add(s)
							}
							// a caller that never closes: only on the scripted transport.  net/http's
							// Transport does not let Do return while its write loop is blocked reading
							// the request body (mapRoundTripError waits for writeLoopDone), so there
							// the exchange cannot end before the caller releases the pipe.
							if tr == "script" && !eof && (size <= 65536 || k == size) && len(ch) <= 20 {
								s.drain = false
								s.close = false
								s.late = true
								add(s)
							}
						}
					}
				}
			}
		}
	}
	// (3) random scripts: random chunkings (zero-length writes included), any status
	nrand, nhttp := 8000, 800
	if thorough {
		nrand, nhttp = 40000, 4000
	}
	statuses := []int{200, 201, 202, 204, 207, 226, 299, 300, 304, 400, 401, 403, 404, 405, 409, 412, 413, 423, 500, 502, 503, 507, 599}
	for i := 0; i < nrand+nhttp; i++ {
		s := script{transport: "script", rdsz: 1 + rng.Intn(5000)}
		if i >= nrand {
			s.transport = "http"
		}
		n := rng.Intn(9)
		for j := 0; j < n; j++ {
			switch rng.Intn(6) {
			case 0:
				s.chunks = append(s.chunks, 0)
			case 1:
				s.chunks = append(s.chunks, 1+rng.Intn(4))
			case 2, 3:
				s.chunks = append(s.chunks, 1+rng.Intn(5000))
			case 4:
				s.chunks = append(s.chunks, 1+rng.Intn(70000))
			default:
				s.chunks = append(s.chunks, 32768)
			}
		}
		s.close = s.transport == "http" || !rng.Chance(1, 5)
		switch rng.Intn(4) {
		case 0:
			s.read = 0
		case 1:
			s.read = s.total()
		default:
			s.read = rng.Intn(s.total() + 1)
		}
		s.eof = s.close && rng.Chance(1, 3)
		switch rng.Intn(6) {
		case 0:
			s.dec = "drop"
		case 1:
			s.dec = "cancel"
		default:
			s.dec = "ans"
			if s.transport == "script" && rng.Chance(1, 4) {
				s.status = 100 + rng.Intn(900)
			} else {
				s.status = statuses[rng.Intn(len(statuses))]
			}
		}
		s.late = s.transport == "script" && rng.Bool()
		s.drain = s.transport == "http" && s.dec == "ans" && rng.Chance(1, 3)
		add(s)
	}
	return out
}

// ---------------------------------------------------------------------------
// part "conc": concurrent clients on disjoint subtrees

type op struct {
	kind     string // get list stat put mkcol del copy move
	q, q2    []string
	content  string
	deep, ow bool
}

type cclient struct {
	name string
	tree *davx.Node
	ops  []op
}

type workload struct {
	transport string // inproc | http
	clients   []cclient
}

func pathSx(q []string) string {
	var items []string
	for _, s := range q {
		items = append(items, hx.S(s))
	}
	return hx.L(items...)
}

func (o op) Sx() string {
	switch o.kind {
	case "put":
		return hx.L("put", pathSx(o.q), hx.S(o.content))
	case "copy":
		return hx.L("copy", pathSx(o.q), pathSx(o.q2), hx.B(o.deep), hx.B(o.ow))
	case "move":
		return hx.L("move", pathSx(o.q), pathSx(o.q2), hx.B(o.ow))
	default:
		return hx.L(o.kind, pathSx(o.q))
	}
}

func treeSx(n *davx.Node) string {
	if n == nil {
		return "-"
	}
	if !n.IsDir {
		return hx.L("f", hx.S(n.Content), "0")
	}
	items := []string{"d"}
	for _, k := range n.Names {
		items = append(items, hx.L(hx.S(k), treeSx(n.Kids[k])))
	}
	return hx.L(items...)
}

func (w workload) Sx() string {
	items := []string{"conc", w.transport}
	for _, c := range w.clients {
		var ops []string
		for _, o := range c.ops {
			ops = append(ops, o.Sx())
		}
		items = append(items, hx.L("client", hx.S(c.name), treeSx(c.tree), hx.L(ops...)))
	}
	return hx.L(items...)
}

func parsePath(x hx.Sx) []string {
	var q []string
	for _, s := range x.List {
		q = append(q, s.Str())
	}
	return q
}

func parseWorkload(x hx.Sx) workload {
	a := x.Args()
	w := workload{transport: a[0].Atom}
	for _, c := range a[1:] {
		ca := c.Args()
		cl := cclient{name: ca[0].Str(), tree: davx.ParseNode(ca[1])}
		for _, o := range ca[2].List {
			oa := o.Args()
			p := op{kind: o.Head(), q: parsePath(oa[0])}
			switch p.kind {
			case "put":
				p.content = oa[1].Str()
			case "copy":
				p.q2, p.deep, p.ow = parsePath(oa[1]), oa[2].Bool(), oa[3].Bool()
			case "move":
				p.q2, p.ow = parsePath(oa[1]), oa[2].Bool()
			}
			cl.ops = append(cl.ops, p)
		}
		w.clients = append(w.clients, cl)
	}
	return w
}

type slotKey struct{}
type slot struct{ status int }

// recordingClient notes the status of every response in the slot its request's
// context carries.
type recordingClient struct{ inner webdav.HTTPClient }

func (r recordingClient) Do(req *http.Request) (*http.Response, error) {
	resp, err := r.inner.Do(req)
	if s, ok := req.Context().Value(slotKey{}).(*slot); ok && resp != nil {
		s.status = resp.StatusCode
	}
	return resp, err
}

// inprocClient hands the request to the handler on the caller's goroutine.
type inprocClient struct{ h http.Handler }

func (c inprocClient) Do(req *http.Request) (*http.Response, error) {
	sreq := req.Clone(req.Context())
	sreq.RequestURI = req.URL.RequestURI()
	if sreq.Body == nil {
		sreq.Body = http.NoBody
	}
	rec := httptest.NewRecorder()
	c.h.ServeHTTP(rec, sreq)
	if req.Body != nil {
		req.Body.Close()
	}
	resp := rec.Result()
	resp.Request = req
	return resp, nil
}

func absPath(name string, q []string) string {
	return "/" + strings.Join(append([]string{name}, q...), "/")
}

func errStatus(err error, s *slot) int64 {
	var he *verifhook.HTTPError
	if errors.As(err, &he) {
		return int64(he.Code)
	}
	return 0
}

// runOp performs one operation through the shared client and renders its answer.
func runOp(c *webdav.Client, name string, o op) string {
	s := &slot{}
	ctx := context.WithValue(context.Background(), slotKey{}, s)
	p := absPath(name, o.q)
	st := func(err error) string {
		if err != nil {
			return hx.L("st", hx.I(errStatus(err, s)))
		}
		return hx.L("st", hx.I(int64(s.status)))
	}
	switch o.kind {
	case "get":
		rc, err := c.Open(ctx, p)
		if err != nil {
			return st(err)
		}
		b, err := io.ReadAll(rc)
		rc.Close()
		if err != nil {
			return hx.L("st", "0")
		}
		return hx.L("data", hx.I(int64(s.status)), hx.S(string(b)))
	case "list":
		fis, err := c.ReadDir(ctx, p, false)
		if err != nil {
			return st(err)
		}
		var names []string
		for _, fi := range fis {
			if path.Clean(fi.Path) == path.Clean(p) {
				continue
			}
			names = append(names, path.Base(path.Clean(fi.Path)))
		}
		sort.Strings(names)
		var items []string
		for _, n := range names {
			items = append(items, hx.S(n))
		}
		return hx.L("names", hx.I(int64(s.status)), hx.L(items...))
	case "stat":
		fi, err := c.Stat(ctx, p)
		if err != nil {
			return st(err)
		}
		if fi.IsDir {
			return hx.L("stat", "1", "0")
		}
		return hx.L("stat", "0", hx.I(fi.Size))
	case "put":
		w, err := c.Create(ctx, p)
		if err != nil {
			return st(err)
		}
		half := len(o.content) / 2
		w.Write([]byte(o.content[:half]))
		w.Write([]byte(o.content[half:]))
		return st(w.Close())
	case "mkcol":
		return st(c.Mkdir(ctx, p))
	case "del":
		return st(c.RemoveAll(ctx, p))
	case "copy":
		return st(c.Copy(ctx, p, absPath(name, o.q2), &webdav.CopyOptions{NoRecursive: !o.deep, NoOverwrite: !o.ow}))
	case "move":
		return st(c.Move(ctx, p, absPath(name, o.q2), &webdav.MoveOptions{NoOverwrite: !o.ow}))
	}
	return hx.L("st", "0")
}

var concDirs atomic.Int64

// serveTree materialises the initial tree and returns one shared client on one
// shared handler, and the directory.
func serveTree(w workload) (dir string, c *webdav.Client, done func()) {
	base := os.Getenv("VERIF_SCRATCH")
	if base == "" {
		base = filepath.Join("/dev/shm", fmt.Sprintf("verif.%d", os.Getpid()))
	}
	dir = filepath.Join(base, fmt.Sprintf("c18-%d-%d", os.Getpid(), concDirs.Add(1)))
	os.MkdirAll(filepath.Dir(dir), 0755)
	root := davx.Dir()
	for _, cl := range w.clients {
		root.Put(cl.name, cl.tree.Clone())
	}
	if err := davx.Materialize(dir, root); err != nil {
		fmt.Fprintln(os.Stderr, "c18: materialize:", err)
		os.Exit(2)
	}
	h := &webdav.Handler{FileSystem: webdav.LocalFileSystem(dir)}
	var hc webdav.HTTPClient
	endpoint := "http://conc.invalid/"
	cleanup := func() {}
	if w.transport == "http" {
		srv := httptest.NewServer(h)
		tr := &http.Transport{MaxIdleConnsPerHost: 16}
		hc = &http.Client{Transport: tr}
		endpoint = srv.URL
		cleanup = func() { tr.CloseIdleConnections(); srv.Close() }
	} else {
		hc = inprocClient{h}
		if w.transport == "auth" {
			// a client built with HTTPClientWithBasicAuth, fresh for this workload: the
			// goroutines' first requests through it run concurrently, no warm-up
			hc = webdav.HTTPClientWithBasicAuth(hc, "verif", "secret")
		}
	}
	c, err := webdav.NewClient(recordingClient{hc}, endpoint)
	if err != nil {
		fmt.Fprintln(os.Stderr, "c18: client:", err)
		os.Exit(2)
	}
	return dir, c, func() { cleanup(); os.RemoveAll(dir) }
}

// modes lists the permission bits of every file and directory of a client's
// collection ("relative path=0644", in Walk order): the Coq trees carry no modes, so
// this part of the observation is compared concurrently vs alone only.
func modes(dir, name string) string {
	var items []string
	root := filepath.Join(dir, name)
	filepath.Walk(root, func(p string, fi os.FileInfo, err error) error {
		if err != nil {
			return nil
		}
		rel, _ := filepath.Rel(root, p)
		items = append(items, hx.S(fmt.Sprintf("%s=%04o", filepath.ToSlash(rel), fi.Mode().Perm())))
		return nil
	})
	return hx.L(items...)
}

// processUmask reads the process-wide umask (the only way is to set it); called only
// while no request is in flight.
func processUmask() int {
	u := syscall.Umask(0)
	syscall.Umask(u)
	return u
}

// umaskItem renders the umask before and after a workload and puts it back when the
// workload changed it, so that one failure does not hide the following ones.
func umaskItem(before int) string {
	after := processUmask()
	if after != before {
		syscall.Umask(before)
	}
	return hx.L("um", hx.I(int64(before)), hx.I(int64(after)))
}

func subtree(dir, name string) string {
	return treeSx(davx.Snapshot(filepath.Join(dir, name)))
}

func runConc(w workload, watchdog time.Duration) string {
	n := len(w.clients)
	concOut := make([][]string, n)
	concTree := make([]string, n)
	aloneOut := make([][]string, n)
	aloneTree := make([]string, n)
	concModes := make([]string, n)
	aloneModes := make([]string, n)
	stray := false
	um := ""
	finished := make(chan struct{})
	go func() {
		defer close(finished)
		umask0 := processUmask()
		defer func() { um = umaskItem(umask0) }()
		// all at once: one client, one handler
		dir, c, done := serveTree(w)
		var start, wg sync.WaitGroup
		start.Add(1)
		for i := range w.clients {
			wg.Add(1)
			go func(i int) {
				defer wg.Done()
				start.Wait()
				for _, o := range w.clients[i].ops {
					concOut[i] = append(concOut[i], runOp(c, w.clients[i].name, o))
				}
			}(i)
		}
		start.Done()
		wg.Wait()
		names := map[string]bool{}
		for i, cl := range w.clients {
			concTree[i] = subtree(dir, cl.name)
			concModes[i] = modes(dir, cl.name)
			names[cl.name] = true
		}
		ents, _ := os.ReadDir(dir)
		for _, e := range ents {
			if !names[e.Name()] {
				stray = true
			}
		}
		done()
		// each program alone, from the same initial tree
		for i, cl := range w.clients {
			dir, c, done := serveTree(w)
			for _, o := range cl.ops {
				aloneOut[i] = append(aloneOut[i], runOp(c, cl.name, o))
			}
			aloneTree[i] = subtree(dir, cl.name)
			aloneModes[i] = modes(dir, cl.name)
			done()
		}
	}()
	select {
	case <-finished:
	case <-time.After(shrink(watchdog, hangsSeen.Load())):
		hangsSeen.Add(1)
		return w.Sx() + " " + hx.L("cobs", "0", "1")
	}
	items := []string{"cobs", hx.B(stray), "0"}
	for i := range w.clients {
		items = append(items, hx.L("cl", hx.L(concOut[i]...), concTree[i], hx.L(aloneOut[i]...), aloneTree[i], concModes[i], aloneModes[i]))
	}
	items = append(items, um)
	return w.Sx() + " " + hx.L(items...)
}

var segNames = []string{"a", "b", "c"}

func randTree(rng *hx.Rand, depth int) *davx.Node {
	d := davx.Dir()
	for _, n := range segNames {
		switch rng.Intn(6) {
		case 0, 1:
			d.Put(n, davx.File(rng.Pick([]string{"x", "y", "", "hello"})))
		case 2, 3:
			if depth > 0 {
				d.Put(n, randTree(rng, depth-1))
			} else {
				d.Put(n, davx.Dir())
			}
		}
	}
	return d
}

func randPath(rng *hx.Rand, allowEmpty bool) []string {
	n := 1
	if rng.Chance(2, 5) {
		n = 2
	}
	if rng.Chance(1, 14) {
		n = 3
	}
	if allowEmpty && rng.Chance(1, 25) {
		n = 0
	}
	var q []string
	for i := 0; i < n; i++ {
		q = append(q, rng.Pick(segNames))
	}
	return q
}

func randOp(rng *hx.Rand) op {
	switch rng.Intn(12) {
	case 0:
		return op{kind: "get", q: randPath(rng, true)}
	case 1:
		return op{kind: "list", q: randPath(rng, true)}
	case 2:
		return op{kind: "stat", q: randPath(rng, true)}
	case 3, 4, 5:
		content := rng.Pick([]string{"x", "y", "", "some content", "z"})
		if rng.Chance(1, 10) {
			content = strings.Repeat(rng.Pick([]string{"p", "q"}), 1+rng.Intn(20000))
		}
		return op{kind: "put", q: randPath(rng, true), content: content}
	case 6, 7:
		return op{kind: "mkcol", q: randPath(rng, true)}
	case 8:
		return op{kind: "del", q: randPath(rng, false)}
	case 9, 10:
		return op{kind: "copy", q: randPath(rng, true), q2: randPath(rng, true), deep: !rng.Chance(1, 4), ow: !rng.Chance(1, 4)}
	default:
		return op{kind: "move", q: randPath(rng, true), q2: randPath(rng, true), ow: !rng.Chance(1, 4)}
	}
}

func randWorkload(rng *hx.Rand, transport string, maxClients, maxOps int) workload {
	w := workload{transport: transport}
	n := 2 + rng.Intn(maxClients-1)
	special := []string{"a b", "%41", "é", "x#y?z", "c.d"}
	for i := 0; i < n; i++ {
		name := fmt.Sprintf("c%d", i)
		if rng.Chance(1, 10) {
			name = special[i%len(special)] + fmt.Sprint(i)
		}
		cl := cclient{name: name, tree: randTree(rng, 2)}
		m := 1 + rng.Intn(maxOps)
		for j := 0; j < m; j++ {
			cl.ops = append(cl.ops, randOp(rng))
		}
		w.clients = append(w.clients, cl)
	}
	return w
}

func concWorkloads(rng *hx.Rand, thorough bool, scale int) []workload {
	var out []workload
	nIn, nHTTP := 1500, 300
	if thorough {
		nIn, nHTTP = 8000, 1500
	}
	if scale == 0 { // the -race child: slower by an order of magnitude
		nIn, nHTTP = 400, 100
	}
	for i := 0; i < nIn; i++ {
		out = append(out, randWorkload(rng, "inproc", 6, 12))
	}
	for i := 0; i < nHTTP; i++ {
		out = append(out, randWorkload(rng, "http", 6, 12))
	}
	nAuth := 80
	if thorough {
		nAuth = 500
	}
	if scale == 0 {
		nAuth = 200
	}
	for i := 0; i < nAuth; i++ {
		out = append(out, randWorkload(rng, "auth", 6, 4))
	}
	// storms: many goroutines creating files and collections under new names as fast as
	// they can - whatever process-wide state a request touches for an instant (umask,
	// working directory, a shared buffer) is hit by an overlapping request of another
	// client, and shows in the answers, the contents or the permission bits
	nStorm := 16
	if thorough {
		nStorm = 80
	}
	if scale == 0 {
		nStorm = 8
	}
	for i := 0; i < nStorm; i++ {
		w := workload{transport: "inproc"}
		if i%4 == 3 {
			w.transport = "http"
		}
		for c := 0; c < 12; c++ {
			cl := cclient{name: fmt.Sprintf("c%d", c), tree: davx.Dir()}
			for j := 0; j < 50; j++ {
				if (j+c)%2 == 0 {
					cl.ops = append(cl.ops, op{kind: "put", q: []string{fmt.Sprintf("f%02d", j)}, content: "storm"})
				} else {
					cl.ops = append(cl.ops, op{kind: "mkcol", q: []string{fmt.Sprintf("d%02d", j)}})
				}
			}
			w.clients = append(w.clients, cl)
		}
		out = append(out, w)
	}
	// a few wide ones: many goroutines, long programs
	wide := 6
	if thorough {
		wide = 40
	}
	for i := 0; i < wide; i++ {
		tr := "inproc"
		if i%3 == 2 {
			tr = "http"
		}
		out = append(out, randWorkload(rng, tr, 24, 40))
	}
	return out
}

// runConcAll runs the workloads one after another (each is concurrent inside),
// under varying GOMAXPROCS.
func runConcAll(ws []workload, sink *hx.Sink, watchdog time.Duration) {
	procs := []int{1, 2, 4, 8}
	old := runtime.GOMAXPROCS(0)
	for i, w := range ws {
		if tooBroken() {
			fmt.Fprintln(os.Stderr, "c18: 100 hangs recorded, remaining workloads skipped")
			break
		}
		runtime.GOMAXPROCS(procs[i%len(procs)])
		sink.Put(runConc(w, watchdog))
	}
	runtime.GOMAXPROCS(old)
}

// raceSoak builds this command with -race and runs the conc workload in it; a race
// report yields the line "(conc race) (cobs 0 0 race <report>)".
func fileExists(p string) bool {
	_, err := os.Stat(p)
	return err == nil
}

func raceSoak(sink *hx.Sink) {
	scratch := os.Getenv("VERIF_SCRATCH")
	if scratch == "" {
		scratch = os.TempDir()
	}
	exe := filepath.Join(scratch, "c18-race")
	// the same module file bin/vlib.py builds this command with: harness/.mods/<tag>/go.mod
	// names the tree under test (/repo, or VERIF_REPO for seeded changes and mutations)
	args := []string{"build", "-race", "-tags", "verif", "-o", exe}
	repo := os.Getenv("VERIF_REPO")
	if repo == "" {
		repo = "/repo"
	}
	if abs, err := filepath.Abs(repo); err == nil {
		repo = abs
	}
	tag := "main"
	if repo != "/repo" {
		tag = fmt.Sprintf("%x", sha1.Sum([]byte(repo)))[:10]
	}
	if mf := filepath.Join(".mods", tag, "go.mod"); fileExists(mf) {
		args = append(args, "-modfile", mf)
	}
	build := exec.Command("go", append(args, "./cmd/c18")...)
	if out, err := build.CombinedOutput(); err != nil {
		fmt.Fprintf(os.Stderr, "c18: race build failed, soak skipped: %v\n%s\n", err, out)
		sink.Put("(conc race) (cobs 0 0 nobuild)")
		return
	}
	defer os.Remove(exe)
	outFile := filepath.Join(scratch, "c18-race.cases")
	defer os.Remove(outFile)
	raced := false
	report := ""
	for _, procs := range []string{"1", "2", "16"} {
		cmd := exec.Command(exe, "-mode", "racechild", "-out", outFile)
		cmd.Env = append(os.Environ(), "GOMAXPROCS="+procs, "GORACE=halt_on_error=0")
		var stderr bytes.Buffer
		cmd.Stderr = &stderr
		cmd.Run()
		if strings.Contains(stderr.String(), "DATA RACE") {
			raced = true
			rep := stderr.String()
			if len(rep) > 6000 {
				rep = rep[:6000]
			}
			fmt.Fprintf(os.Stderr, "c18: race detector report (GOMAXPROCS=%s):\n%s\n", procs, rep)
			if report == "" {
				if len(rep) > 2500 {
					rep = rep[:2500]
				}
				report = rep
			}
		}
		for _, l := range hx.ReadLines(outFile) {
			sink.Put(l)
		}
	}
	if raced {
		sink.Put("(conc race) " + hx.L("cobs", "0", "0", "race", hx.S(report)))
	} else {
		sink.Put("(conc race) (cobs 0 0 clean)")
	}
}

// ---------------------------------------------------------------------------

func main() {
	out := flag.String("out", "", "output file")
	replay := flag.String("replay", "", "file of case lines to re-run (inputs are re-executed)")
	mode := flag.String("mode", "all", "up | conc | all | racechild")
	flag.Parse()
	sink := hx.NewSink(*out)
	defer sink.Close()
	thorough := hx.Tier() == "thorough"
	upWatchdog, concWatchdog := 10*time.Second, 30*time.Second
	if thorough {
		upWatchdog, concWatchdog = 20*time.Second, 60*time.Second
	}

	if *replay != "" {
		for _, l := range hx.ReadLines(*replay) {
			x := hx.MustParse(l)[0]
			switch {
			case x.Head() == "up":
				sink.Put(runUpload(parseScript(x), upWatchdog))
			case x.Head() == "upx":
				sink.Put(runUploadX(parseXScript(x), upWatchdog))
			case x.Head() == "conc" && len(x.List) == 2 && x.List[1].Atom == "race":
				raceSoak(sink)
			case x.Head() == "conc":
				sink.Put(runConc(parseWorkload(x), concWatchdog))
			case x.Head() == "gate":
				sink.Put(runGate(parseGWorkload(x), concWatchdog))
			case x.Head() == "cdav":
				sink.Put(runDav(parseDWorkload(x), concWatchdog))
			}
		}
		return
	}

	rng := hx.NewRand(hx.Seed())
	if *mode == "racechild" {
		ws := concWorkloads(rng.Fork(2), false, 0)
		for _, w := range ws {
			sink.Put(runConc(w, 120*time.Second))
		}
		for _, w := range davWorkloads(rng.Fork(3), 150) {
			sink.Put(runDav(w, 120*time.Second))
		}
		return
	}
	if *mode == "up" || *mode == "all" {
		scripts := uploadScripts(rng.Fork(1), thorough)
		in := make(chan script, 256)
		var wg sync.WaitGroup
		workers := 8
		for w := 0; w < workers; w++ {
			wg.Add(1)
			go func() {
				defer wg.Done()
				for s := range in {
					sink.Put(runUpload(s, upWatchdog))
				}
			}()
		}
		for _, s := range scripts {
			if tooBroken() {
				fmt.Fprintln(os.Stderr, "c18: 100 hangs recorded, remaining upload cases skipped")
				break
			}
			in <- s
		}
		close(in)
		wg.Wait()
		fmt.Fprintf(os.Stderr, "c18: %d upload cases\n", len(scripts))
		xs := uploadXScripts(thorough)
		inx := make(chan xscript, 256)
		var wgx sync.WaitGroup
		for w := 0; w < workers; w++ {
			wgx.Add(1)
			go func() {
				defer wgx.Done()
				for x := range inx {
					sink.Put(runUploadX(x, upWatchdog))
				}
			}()
		}
		for _, x := range xs {
			if tooBroken() {
				break
			}
			inx <- x
		}
		close(inx)
		wgx.Wait()
		fmt.Fprintf(os.Stderr, "c18: %d cancellation cases\n", len(xs))
	}
	if *mode == "conc" || *mode == "all" {
		ws := concWorkloads(rng.Fork(2), thorough, 1)
		runConcAll(ws, sink, concWatchdog)
		fmt.Fprintf(os.Stderr, "c18: %d concurrent workloads\n", len(ws))
		nGin, nGhttp := 220, 60
		if thorough {
			nGin, nGhttp = 2500, 500
		}
		gws := gateWorkloads(rng.Fork(4), nGin, nGhttp)
		for _, g := range gws {
			if tooBroken() {
				break
			}
			sink.Put(runGate(g, concWatchdog))
		}
		fmt.Fprintf(os.Stderr, "c18: %d gated workloads\n", len(gws))
		ndav := 400
		if thorough {
			ndav = 4000
		}
		procs := []int{1, 2, 4, 8}
		old := runtime.GOMAXPROCS(0)
		for i, w := range davWorkloads(rng.Fork(3), ndav) {
			if tooBroken() {
				break
			}
			runtime.GOMAXPROCS(procs[i%len(procs)])
			sink.Put(runDav(w, concWatchdog))
		}
		runtime.GOMAXPROCS(old)
		if thorough {
			raceSoak(sink)
		}
	}
}
