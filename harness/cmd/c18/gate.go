package main

// Part "gate": INDEPENDENCE OF PROGRESS.  Some requests (of "holder" clients, each in
// its own collection) are held in the middle by a gate the harness controls, on the
// server side of the transport: a PUT whose body reader blocks after j bytes (the
// handler is inside LocalFileSystem.Create's io.Copy), or a GET whose ResponseWriter
// blocks at the first write.  While they are held, every request of the other clients
// on disjoint collections must complete, within a bounded wait, with the answer and
// the subtree the sequential model gives (and that it gets alone); then the gates open
// and the held requests must complete as they do alone.  One webdav.Client throughout;
// one webdav.Handler, or two Handler values over two directories (holders on one, the
// others on the other: nothing in the process may be shared between them either).
//
//   (gate <inproc|http> <handlers 1|2> ((<client index> <j>)...) (client <name> <tree> (<op>...))...)
//   (gobs <stray> <hang> <blocked> (cl (<answer>...) <tree> (<answer>...) <tree>)...)
//
// <blocked> = the free clients did not finish while the gates were closed.  The model
// is the one of part "conc": a schedule in which a thread stops stepping is one of the
// schedules of C18_threads_independent_partial / C18_stalled_thread_harmless_partial,
// and for the held PUT, stopped inside its third step, of C18_put_concurrent_partial.

import (
	"fmt"
	"net/http"
	"net/http/httptest"
	"os"
	"path/filepath"
	"strings"
	"sync"
	"time"

	webdav "github.com/emersion/go-webdav"

	"verifharness/davx"
	"verifharness/hx"
)

type heldSpec struct{ client, j int }

type gworkload struct {
	workload
	handlers int
	held     []heldSpec
}

func (g gworkload) Sx() string {
	var hs []string
	for _, h := range g.held {
		hs = append(hs, hx.L(hx.I(int64(h.client)), hx.I(int64(h.j))))
	}
	items := []string{"gate", g.transport, hx.I(int64(g.handlers)), hx.L(hs...)}
	for _, c := range g.clients {
		var ops []string
		for _, o := range c.ops {
			ops = append(ops, o.Sx())
		}
		items = append(items, hx.L("client", hx.S(c.name), treeSx(c.tree), hx.L(ops...)))
	}
	return hx.L(items...)
}

func parseGWorkload(x hx.Sx) gworkload {
	a := x.Args()
	g := gworkload{handlers: int(a[1].Int())}
	for _, h := range a[2].List {
		g.held = append(g.held, heldSpec{int(h.List[0].Int()), int(h.List[1].Int())})
	}
	// the clients parse as those of a conc workload
	rest := hx.Sx{IsList: true, List: append([]hx.Sx{{Atom: "conc"}, a[0]}, a[3:]...)}
	g.workload = parseWorkload(rest)
	return g
}

type gate struct {
	j       int
	reached chan struct{}
	open    chan struct{}
	once    sync.Once
}

func (g *gate) arrive() {
	g.once.Do(func() { close(g.reached) })
	<-g.open
}

type gatedBody struct {
	inner interface {
		Read([]byte) (int, error)
		Close() error
	}
	g *gate
	n int
}

func (b *gatedBody) Read(p []byte) (int, error) {
	if b.n >= b.g.j {
		b.g.arrive()
	} else if len(p) > b.g.j-b.n {
		p = p[:b.g.j-b.n]
	}
	n, err := b.inner.Read(p)
	b.n += n
	return n, err
}
func (b *gatedBody) Close() error { return b.inner.Close() }

type gatedWriter struct {
	http.ResponseWriter
	g *gate
}

func (w *gatedWriter) WriteHeader(c int)           { w.g.arrive(); w.ResponseWriter.WriteHeader(c) }
func (w *gatedWriter) Write(p []byte) (int, error) { w.g.arrive(); return w.ResponseWriter.Write(p) }

// gateRouter sends a request to the handler of its first path segment and installs
// the gates.
type gateRouter struct {
	byName map[string]http.Handler
	gates  map[string]*gate // "METHOD path"
}

func (r *gateRouter) ServeHTTP(w http.ResponseWriter, req *http.Request) {
	if g := r.gates[req.Method+" "+req.URL.Path]; g != nil {
		switch req.Method {
		case http.MethodPut:
			req.Body = &gatedBody{inner: req.Body, g: g}
		case http.MethodGet:
			w = &gatedWriter{w, g}
		}
	}
	seg := strings.SplitN(strings.TrimPrefix(req.URL.Path, "/"), "/", 2)[0]
	if h := r.byName[seg]; h != nil {
		h.ServeHTTP(w, req)
		return
	}
	http.NotFound(w, req)
}

// gatePatience: how long the free clients (a handful of tiny requests) may take while
// the gates are closed; generous at first, short once the failure has been recorded
// a few times.
func gatePatience() time.Duration {
	switch seen := hangsSeen.Load(); {
	case seen < 3:
		return 3 * time.Second
	case seen < 20:
		return 500 * time.Millisecond
	default:
		return 100 * time.Millisecond
	}
}

func runGate(g gworkload, watchdog time.Duration) string {
	n := len(g.clients)
	isHolder := make([]bool, n)
	for _, h := range g.held {
		isHolder[h.client] = true
	}
	concOut := make([][]string, n)
	concTree := make([]string, n)
	aloneOut := make([][]string, n)
	aloneTree := make([]string, n)
	concModes := make([]string, n)
	aloneModes := make([]string, n)
	stray, blocked := false, false
	um := ""
	finished := make(chan struct{})
	go func() {
		defer close(finished)
		umask0 := processUmask()
		defer func() { um = umaskItem(umask0) }()
		base := os.Getenv("VERIF_SCRATCH")
		if base == "" {
			base = filepath.Join("/dev/shm", fmt.Sprintf("verif.%d", os.Getpid()))
		}
		os.MkdirAll(base, 0755)
		root := davx.Dir()
		for _, cl := range g.clients {
			root.Put(cl.name, cl.tree.Clone())
		}
		var dirs []string
		var handlers []http.Handler
		for k := 0; k < g.handlers; k++ {
			dir := filepath.Join(base, fmt.Sprintf("c18g-%d-%d", os.Getpid(), concDirs.Add(1)))
			if err := davx.Materialize(dir, root); err != nil {
				fmt.Fprintln(os.Stderr, "c18: materialize:", err)
				os.Exit(2)
			}
			dirs = append(dirs, dir)
			handlers = append(handlers, &webdav.Handler{FileSystem: webdav.LocalFileSystem(dir)})
		}
		dirOf := make([]string, n)
		rt := &gateRouter{byName: map[string]http.Handler{}, gates: map[string]*gate{}}
		for i, cl := range g.clients {
			k := 0
			if g.handlers == 2 && !isHolder[i] {
				k = 1
			}
			dirOf[i] = dirs[k]
			rt.byName[cl.name] = handlers[k]
		}
		var gates []*gate
		for _, h := range g.held {
			cl := g.clients[h.client]
			o := cl.ops[0]
			gt := &gate{j: h.j, reached: make(chan struct{}), open: make(chan struct{})}
			method := http.MethodPut
			if o.kind == "get" {
				method = http.MethodGet
			}
			rt.gates[method+" "+absPath(cl.name, o.q)] = gt
			gates = append(gates, gt)
		}
		var hc webdav.HTTPClient = inprocClient{rt}
		endpoint := "http://gate.invalid/"
		cleanup := func() {}
		if g.transport == "http" {
			srv := httptest.NewServer(rt)
			tr := &http.Transport{MaxIdleConnsPerHost: 16}
			hc = &http.Client{Transport: tr}
			endpoint = srv.URL
			cleanup = func() { tr.CloseIdleConnections(); srv.Close() }
		}
		c, err := webdav.NewClient(recordingClient{hc}, endpoint)
		if err != nil {
			fmt.Fprintln(os.Stderr, "c18: client:", err)
			os.Exit(2)
		}
		runClient := func(i int, wg *sync.WaitGroup) {
			defer wg.Done()
			for _, o := range g.clients[i].ops {
				concOut[i] = append(concOut[i], runOp(c, g.clients[i].name, o))
			}
		}
		// 1. the holders start; each is held at its gate (or ends before reaching it)
		var holders sync.WaitGroup
		holderDone := make([]chan struct{}, len(g.held))
		for hi, h := range g.held {
			holders.Add(1)
			holderDone[hi] = make(chan struct{})
			go func(i int, done chan struct{}) {
				runClient(i, &holders)
				close(done)
			}(h.client, holderDone[hi])
		}
		for hi, gt := range gates {
			select {
			case <-gt.reached:
			case <-holderDone[hi]:
			case <-time.After(gatePatience()):
			}
		}
		// 2. while they are held, everybody else must get through
		var free sync.WaitGroup
		for i := range g.clients {
			if !isHolder[i] {
				free.Add(1)
				go runClient(i, &free)
			}
		}
		freeDone := make(chan struct{})
		go func() { free.Wait(); close(freeDone) }()
		select {
		case <-freeDone:
		case <-time.After(gatePatience()):
			blocked = true
			hangsSeen.Add(1)
		}
		// 3. the gates open; the held requests complete
		for _, gt := range gates {
			close(gt.open)
		}
		holders.Wait()
		<-freeDone
		for i, cl := range g.clients {
			concTree[i] = subtree(dirOf[i], cl.name)
			concModes[i] = modes(dirOf[i], cl.name)
		}
		names := map[string]bool{}
		for _, cl := range g.clients {
			names[cl.name] = true
		}
		for _, d := range dirs {
			ents, _ := os.ReadDir(d)
			for _, e := range ents {
				if !names[e.Name()] {
					stray = true
				}
			}
		}
		cleanup()
		for _, d := range dirs {
			os.RemoveAll(d)
		}
		// 4. each program alone, ungated, from the same initial tree
		for i, cl := range g.clients {
			dir, c, done := serveTree(g.workload)
			for _, o := range cl.ops {
				aloneOut[i] = append(aloneOut[i], runOp(c, cl.name, o))
			}
			aloneTree[i] = subtree(dir, cl.name)
			aloneModes[i] = modes(dir, cl.name)
			done()
		}
	}()
	select {
	case <-finished:
	case <-time.After(watchdog): // not shortened: "blocked" is this part's quick failure mode
		hangsSeen.Add(1)
		return g.Sx() + " " + hx.L("gobs", "0", "1", "0")
	}
	items := []string{"gobs", hx.B(stray), "0", hx.B(blocked)}
	for i := range g.clients {
		items = append(items, hx.L("cl", hx.L(concOut[i]...), concTree[i], hx.L(aloneOut[i]...), aloneTree[i], concModes[i], aloneModes[i]))
	}
	items = append(items, um)
	return g.Sx() + " " + hx.L(items...)
}

func gateWorkloads(rng *hx.Rand, nIn, nHTTP int) []gworkload {
	var out []gworkload
	for x := 0; x < nIn+nHTTP; x++ {
		tr := "inproc"
		if x >= nIn {
			tr = "http"
		}
		g := gworkload{handlers: 1 + rng.Intn(2)}
		g.transport = tr
		nh := 1 + rng.Intn(2)
		nf := 1 + rng.Intn(4)
		for i := 0; i < nh+nf; i++ {
			cl := cclient{name: fmt.Sprintf("c%d", i), tree: randTree(rng, 2)}
			if i == 0 && rng.Chance(1, 8) {
				cl.name = "a b0"
			}
			if i < nh {
				// a holder: one request, held in the middle
				if rng.Chance(1, 4) {
					cl.tree.Put("a", davx.File("held content"))
					cl.ops = []op{{kind: "get", q: []string{"a"}}}
					g.held = append(g.held, heldSpec{i, 0})
				} else {
					content := rng.Pick([]string{"x", "slow upload", strings.Repeat("s", 1+rng.Intn(70000))})
					q := randPath(rng, false)
					if rng.Chance(2, 3) {
						q = []string{rng.Pick(segNames)}
					}
					cl.ops = []op{{kind: "put", q: q, content: content}}
					g.held = append(g.held, heldSpec{i, 1 + rng.Intn(len(content))})
				}
			} else {
				m := 1 + rng.Intn(8)
				cl.ops = append(cl.ops, op{kind: "put", q: []string{rng.Pick(segNames)}, content: rng.Pick([]string{"q", "quick"})})
				for j := 0; j < m; j++ {
					cl.ops = append(cl.ops, randOp(rng))
				}
				// the first operation is not always the upload
				k := rng.Intn(len(cl.ops))
				cl.ops[0], cl.ops[k] = cl.ops[k], cl.ops[0]
			}
			g.clients = append(g.clients, cl)
		}
		out = append(out, g)
	}
	return out
}
