package main

// The harness's OWN writer of RFC 4791 request documents, independent of the
// library and of the Coq development: section 9.5-9.10 DTD fragments turned
// into a small node tree (rfcQuery, rfcMultiget), and a serializer that varies
// everything XML and the DTD declare insignificant (prefix names, default
// namespace vs prefixes, redeclaration, attribute order and quoting, white
// space and comments between elements, empty-element syntax, entity /
// numeric-reference / CDATA forms of text, defaulted attributes spelled out).

import (
	"fmt"
	"hash/fnv"
	"strings"
	"unicode/utf8"

	"verifharness/hx"
)

const nsC = "urn:ietf:params:xml:ns:caldav"
const nsD = "DAV:"

type dnode struct {
	ns, local string
	attrs     [][2]string // un-namespaced attributes, DTD order
	extra     [][3]string // (prefix-uri or "", qualified name as written, value): written verbatim, used by the known-finding and malformed streams
	kids      []*dnode
	pcdata    bool // (#PCDATA) content: text below
	text      string
	raw       string // when non-empty: written verbatim instead of the element
}

func el(ns, local string, attrs [][2]string, kids ...*dnode) *dnode {
	return &dnode{ns: ns, local: local, attrs: attrs, kids: kids}
}

const utcLayout = "20060102T150405Z"

// "date with UTC time", RFC 5545 3.3.5 (FORM #2)
func rfcTime(i inst) string { return toTime(i).UTC().Format(utcLayout) }

func rfcTextMatch(t *tmatch) *dnode {
	var attrs [][2]string
	if t.neg {
		attrs = append(attrs, [2]string{"negate-condition", "yes"})
	}
	return &dnode{ns: nsC, local: "text-match", attrs: attrs, pcdata: true, text: t.text}
}

func rfcTimeRange(s, e inst) *dnode {
	var attrs [][2]string
	if !s.isZero() {
		attrs = append(attrs, [2]string{"start", rfcTime(s)})
	}
	if !e.isZero() {
		attrs = append(attrs, [2]string{"end", rfcTime(e)})
	}
	return el(nsC, "time-range", attrs)
}

func rfcParamFilter(p pafV) *dnode {
	n := el(nsC, "param-filter", [][2]string{{"name", p.name}})
	if p.ind {
		n.kids = append(n.kids, el(nsC, "is-not-defined", nil))
	} else if p.tm != nil {
		n.kids = append(n.kids, rfcTextMatch(p.tm))
	}
	return n
}

func rfcPropFilter(p pfV) *dnode {
	n := el(nsC, "prop-filter", [][2]string{{"name", p.name}})
	if p.ind {
		n.kids = append(n.kids, el(nsC, "is-not-defined", nil))
		return n
	}
	if !p.start.isZero() || !p.end.isZero() {
		n.kids = append(n.kids, rfcTimeRange(p.start, p.end))
	} else if p.tm != nil {
		n.kids = append(n.kids, rfcTextMatch(p.tm))
	}
	for _, q := range p.params {
		n.kids = append(n.kids, rfcParamFilter(q))
	}
	return n
}

func rfcCompFilter(c cfV) *dnode {
	n := el(nsC, "comp-filter", [][2]string{{"name", c.name}})
	if c.ind {
		n.kids = append(n.kids, el(nsC, "is-not-defined", nil))
		return n
	}
	if !c.start.isZero() || !c.end.isZero() {
		n.kids = append(n.kids, rfcTimeRange(c.start, c.end))
	}
	for _, p := range c.props {
		n.kids = append(n.kids, rfcPropFilter(p))
	}
	for _, k := range c.comps {
		n.kids = append(n.kids, rfcCompFilter(k))
	}
	return n
}

func rfcComp(c crV) *dnode {
	n := el(nsC, "comp", [][2]string{{"name", c.name}})
	if c.allprops {
		n.kids = append(n.kids, el(nsC, "allprop", nil))
	} else {
		for _, p := range c.props {
			n.kids = append(n.kids, el(nsC, "prop", [][2]string{{"name", p}}))
		}
	}
	if c.allcomps {
		n.kids = append(n.kids, el(nsC, "allcomp", nil))
	} else {
		for _, k := range c.comps {
			n.kids = append(n.kids, rfcComp(k))
		}
	}
	return n
}

// omitComp: RFC 4791 9.6 makes comp optional; a request for the whole object
// (no name, all properties, all components) may be written without it.
var omitComp bool

func isWhole(c crV) bool {
	return c.name == "" && c.allprops && c.allcomps && len(c.props) == 0 && len(c.comps) == 0
}

func rfcProp(c crV) *dnode {
	cd := el(nsC, "calendar-data", nil, rfcComp(c))
	if omitComp && isWhole(c) {
		cd.kids = nil
	}
	if c.expand != nil {
		cd.kids = append(cd.kids, el(nsC, "expand", [][2]string{{"start", rfcTime(c.expand[0])}, {"end", rfcTime(c.expand[1])}}))
	}
	return el(nsD, "prop", nil, el(nsD, "getetag", nil), cd)
}

func rfcQuery(r request) *dnode {
	return el(nsC, "calendar-query", nil, rfcProp(r.cr), el(nsC, "filter", nil, rfcCompFilter(r.cf)))
}

// rfcEscape percent-encodes a path for an href (RFC 3986: unreserved
// characters and "/" stay; which of the equivalent spellings is used —
// upper or lower case hex digits, an unreserved letter escaped nevertheless —
// is a function of the path, so that a replay reproduces it).
func rfcEscape(p string) string {
	h := fnv.New32a()
	h.Write([]byte(p))
	style := h.Sum32() % 3
	var sb strings.Builder
	for i := 0; i < len(p); i++ {
		c := p[i]
		unres := c >= 'a' && c <= 'z' || c >= 'A' && c <= 'Z' || c >= '0' && c <= '9' || c == '-' || c == '.' || c == '_' || c == '~' || c == '/'
		if unres && !(style == 2 && c == 'a') {
			sb.WriteByte(c)
		} else if style == 1 {
			fmt.Fprintf(&sb, "%%%02x", c)
		} else {
			fmt.Fprintf(&sb, "%%%02X", c)
		}
	}
	return sb.String()
}

func rfcMultiget(r request) (*dnode, [][2]string) {
	n := el(nsC, "calendar-multiget", nil, rfcProp(r.cr))
	var pairs [][2]string
	for _, p := range r.paths {
		t := rfcEscape(p)
		pairs = append(pairs, [2]string{p, t})
		n.kids = append(n.kids, &dnode{ns: nsD, local: "href", pcdata: true, text: t})
	}
	return n, pairs
}

// ---- serializer with lexical variation

type binding struct{ prefix, ns string }

type writer struct {
	rng   *hx.Rand
	sb    strings.Builder
	plain bool // no variation at all (malformed stream, corpus)
	// style of this document
	redeclare int // probability (percent) that an element declares its namespace again
	useDef    int // probability (percent) that a declaration is a default-namespace one
	noise     int // probability (percent) of white space / comments at each gap
	defaults  int // probability (percent) of spelling out a defaulted attribute
	prefixes  []string
}

// prefix names, among them the names of the grammar's attributes: before the
// repair eba20a7 a declaration xmlns:name="..." was taken for the name attribute
var safePrefixes = []string{"C", "D", "cal", "dav", "ns0", "ns1", "x", "A", "B", "caldav", "d", "c", "xs", "n", "end-", "_start", "Name",
	"name", "start", "end", "collation", "negate-condition", "C", "D"}

// local names of attributes from a foreign namespace added now and then
var foreignLocals = []string{"name", "start", "end", "collation", "negate-condition", "note", "novalue"}

func newWriter(rng *hx.Rand, plain bool) *writer {
	w := &writer{rng: rng, plain: plain}
	if plain {
		return w
	}
	w.redeclare = []int{0, 0, 10, 50, 100}[rng.Intn(5)]
	w.useDef = []int{0, 50, 100}[rng.Intn(3)]
	w.noise = []int{0, 20, 60}[rng.Intn(3)]
	w.defaults = []int{0, 30, 100}[rng.Intn(3)]
	return w
}

func (w *writer) chance(pct int) bool { return !w.plain && w.rng.Intn(100) < pct }

func resolve(scope []binding, prefix string) (string, bool) {
	for i := len(scope) - 1; i >= 0; i-- {
		if scope[i].prefix == prefix {
			return scope[i].ns, true
		}
	}
	return "", false
}

// a prefix ("" = default namespace) currently bound to ns, if any
func findPrefix(scope []binding, ns string) (string, bool) {
	for i := len(scope) - 1; i >= 0; i-- {
		if scope[i].ns == ns {
			if v, ok := resolve(scope, scope[i].prefix); ok && v == ns {
				return scope[i].prefix, true
			}
		}
	}
	return "", false
}

var wsChoices = []string{" ", "\n", "\n  ", "\t", "\r\n", "\n\n    ", "  "}
var commentChoices = []string{"", " c ", "x", " <comp-filter name=\"X\"/> ", " a - b ", "é", "&amp; <", "]]>"}

func (w *writer) gap() {
	for w.chance(w.noise) {
		if w.rng.Intn(3) == 0 {
			w.sb.WriteString("<!--" + w.rng.Pick(commentChoices) + "-->")
		} else {
			w.sb.WriteString(w.rng.Pick(wsChoices))
		}
	}
}

func escAttr(v string, q byte, rng *hx.Rand, plain bool) string {
	var sb strings.Builder
	for _, r := range v {
		switch {
		case r == '<':
			sb.WriteString("&lt;")
		case r == '&':
			sb.WriteString("&amp;")
		case r == rune(q):
			if q == '"' {
				sb.WriteString("&quot;")
			} else {
				sb.WriteString("&apos;")
			}
		case r == '\n' || r == '\r' || r == '\t':
			fmt.Fprintf(&sb, "&#%d;", r)
		case !plain && rng.Intn(12) == 0:
			if rng.Bool() {
				fmt.Fprintf(&sb, "&#%d;", r)
			} else {
				fmt.Fprintf(&sb, "&#x%X;", r)
			}
		default:
			sb.WriteRune(r)
		}
	}
	return sb.String()
}

func escTextPlain(s string, rng *hx.Rand, vary bool) string {
	var sb strings.Builder
	for _, r := range s {
		switch {
		case r == '<':
			sb.WriteString("&lt;")
		case r == '&':
			sb.WriteString("&amp;")
		case r == '>':
			sb.WriteString("&gt;") // also keeps "]]>" out of character data
		case r == '\r':
			sb.WriteString("&#13;")
		case vary && r == '"' && rng.Bool():
			sb.WriteString("&quot;")
		case vary && r == '\'' && rng.Bool():
			sb.WriteString("&apos;")
		case vary && rng.Intn(10) == 0:
			if rng.Bool() {
				fmt.Fprintf(&sb, "&#%d;", r)
			} else {
				fmt.Fprintf(&sb, "&#x%x;", r)
			}
		default:
			sb.WriteRune(r)
		}
	}
	return sb.String()
}

// text writes character data in one or several pieces: escaped text, numeric
// references, CDATA sections, possibly with comments in between.
func (w *writer) text(s string) {
	if w.plain {
		w.sb.WriteString(escTextPlain(s, w.rng, false))
		return
	}
	if s == "" {
		switch w.rng.Intn(6) {
		case 0:
			w.sb.WriteString("<![CDATA[]]>")
		case 1:
			w.sb.WriteString("<!---->")
		}
		return
	}
	for len(s) > 0 {
		// cut a piece at a rune boundary
		n := len(s)
		if w.rng.Intn(3) == 0 {
			n = 1 + w.rng.Intn(len(s))
			for n < len(s) && !utf8.RuneStart(s[n]) {
				n++
			}
		}
		piece := s[:n]
		s = s[n:]
		switch w.rng.Intn(4) {
		case 0:
			if !strings.Contains(piece, "]]>") && !strings.Contains(piece, "\r") {
				w.sb.WriteString("<![CDATA[" + piece + "]]>")
				break
			}
			fallthrough
		case 1:
			var sb strings.Builder
			for _, r := range piece {
				if w.rng.Bool() {
					fmt.Fprintf(&sb, "&#%d;", r)
				} else {
					fmt.Fprintf(&sb, "&#x%X;", r)
				}
			}
			w.sb.WriteString(sb.String())
		default:
			w.sb.WriteString(escTextPlain(piece, w.rng, true))
		}
		if len(s) > 0 && w.rng.Intn(4) == 0 {
			w.sb.WriteString("<!--" + w.rng.Pick(commentChoices) + "-->")
		}
	}
}

var dtdDefaults = map[string][][2]string{
	nsC + " text-match":    {{"collation", "i;ascii-casemap"}, {"negate-condition", "no"}},
	nsC + " calendar-data": {{"content-type", "text/calendar"}, {"version", "2.0"}},
	nsC + " prop":          {{"novalue", "no"}},
}

func (w *writer) freshPrefix(scope []binding, ns string) string {
	for {
		p := w.rng.Pick(safePrefixes)
		// never rebind a prefix an ancestor uses for the other namespace if that
		// would leave this element's attributes ambiguous: any rebinding is legal
		// XML, so no restriction is needed beyond picking a name
		_ = scope
		_ = ns
		return p
	}
}

func (w *writer) element(n *dnode, scope []binding) {
	if n.raw != "" {
		w.sb.WriteString(n.raw)
		return
	}
	var decls [][2]string // attribute name as written, value
	prefix, ok := findPrefix(scope, n.ns)
	if n.ns == "" {
		// an element in no namespace is written without prefix; a default
		// namespace in scope has to be undeclared for it
		prefix, ok = "", true
		if v, bound := resolve(scope, ""); bound && v != "" {
			decls = append(decls, [2]string{"xmlns", ""})
			scope = append(scope, binding{"", ""})
		}
	}
	if ok && n.ns == "" {
		// nothing to declare
	} else if w.plain {
		if !ok {
			if n.ns == nsC {
				prefix = "C"
			} else if n.ns == nsD {
				prefix = "D"
			} else {
				prefix = "X"
			}
			decls = append(decls, [2]string{"xmlns:" + prefix, n.ns})
			scope = append(scope, binding{prefix, n.ns})
		}
	} else if !ok || w.chance(w.redeclare) {
		if w.chance(w.useDef) {
			prefix = ""
			decls = append(decls, [2]string{"xmlns", n.ns})
		} else {
			prefix = w.freshPrefix(scope, n.ns)
			decls = append(decls, [2]string{"xmlns:" + prefix, n.ns})
		}
		scope = append(scope, binding{prefix, n.ns})
		// now and then also declare the other namespace here, used or not
		if w.rng.Intn(4) == 0 {
			other := nsD
			if n.ns == nsD {
				other = nsC
			}
			p := w.freshPrefix(scope, other)
			if p != prefix {
				decls = append(decls, [2]string{"xmlns:" + p, other})
				scope = append(scope, binding{p, other})
			}
		} else if w.rng.Intn(10) == 0 {
			p := w.freshPrefix(scope, "urn:unused")
			if p != prefix {
				decls = append(decls, [2]string{"xmlns:" + p, "urn:unused"})
				scope = append(scope, binding{p, "urn:unused"})
			}
		}
	}
	name := n.local
	if prefix != "" {
		name = prefix + ":" + n.local
	}
	attrs := append([][2]string{}, n.attrs...)
	if !w.plain {
		have := map[string]bool{}
		for _, a := range attrs {
			have[a[0]] = true
		}
		for _, d := range dtdDefaults[n.ns+" "+n.local] {
			if !have[d[0]] && w.chance(w.defaults) {
				attrs = append(attrs, d)
			}
		}
	}
	if !w.plain && len(n.extra) == 0 && w.rng.Intn(10) == 0 {
		// an extension attribute from a foreign namespace, declared right here
		decls = append(decls, [2]string{"xmlns:fx", "urn:example:foreign"})
		attrs = append(attrs, [2]string{"fx:" + w.rng.Pick(foreignLocals), w.rng.Pick([]string{"", "v", "20200101T000000Z", "yes"})})
	}
	all := append(attrs, decls...)
	for _, x := range n.extra {
		all = append(all, [2]string{x[1], x[2]})
	}
	if !w.plain && len(n.extra) == 0 {
		for i := len(all) - 1; i > 0; i-- {
			j := w.rng.Intn(i + 1)
			all[i], all[j] = all[j], all[i]
		}
	}
	w.sb.WriteString("<" + name)
	for _, a := range all {
		q := byte('"')
		if !w.plain && w.rng.Intn(3) == 0 {
			q = '\''
		}
		sep := " "
		if !w.plain && w.rng.Intn(8) == 0 {
			sep = "\n   "
		}
		w.sb.WriteString(sep + a[0] + "=" + string(q) + escAttr(a[1], q, w.rng, w.plain) + string(q))
	}
	if n.pcdata {
		if n.text == "" && len(n.kids) == 0 && !w.plain && w.rng.Intn(3) == 0 {
			w.sb.WriteString("/>")
			return
		}
		w.sb.WriteString(">")
		w.text(n.text)
		for _, k := range n.kids { // malformed stream only: elements inside text
			w.element(k, scope)
		}
		w.sb.WriteString("</" + name + ">")
		return
	}
	if len(n.kids) == 0 && n.text == "" && (w.plain || w.rng.Intn(2) == 0) {
		if !w.plain && w.rng.Intn(4) == 0 {
			w.sb.WriteString(" ")
		}
		w.sb.WriteString("/>")
		return
	}
	w.sb.WriteString(">")
	if n.text != "" { // malformed stream only: text in element content
		w.sb.WriteString(escTextPlain(n.text, w.rng, false))
	}
	w.gap()
	for _, k := range n.kids {
		w.element(k, scope)
		w.gap()
	}
	w.sb.WriteString("</" + name)
	if !w.plain && w.rng.Intn(8) == 0 {
		w.sb.WriteString(" ")
	}
	w.sb.WriteString(">")
}

func serialize(root *dnode, rng *hx.Rand, plain bool) []byte {
	w := newWriter(rng, plain)
	if plain || rng.Intn(3) > 0 {
		w.sb.WriteString(`<?xml version="1.0" encoding="utf-8"?>`)
		if !plain && rng.Bool() {
			w.sb.WriteString("\n")
		}
	}
	if !plain && rng.Intn(5) == 0 {
		w.sb.WriteString("<!-- generated -->\n")
	}
	w.element(root, nil)
	if !plain && rng.Intn(4) == 0 {
		w.sb.WriteString("\n<!--tail-->\n")
	}
	return []byte(w.sb.String())
}
