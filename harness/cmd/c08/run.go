package main

// Running the real code: caldav.Client with a capturing HTTP client, the real
// caldav.Handler with a recording backend, and encoding/xml's tokenizer to
// turn a body into the namespace-expanded tree the model works on.

import (
	"bytes"
	"context"
	"encoding/xml"
	"fmt"
	"io"
	"net/http"
	"net/http/httptest"
	"net/url"
	"strings"

	"github.com/emersion/go-ical"
	"github.com/emersion/go-webdav"
	"github.com/emersion/go-webdav/caldav"

	"verifharness/hx"
)

// ---- recording backend

type recorder struct {
	queries  []string // (query path cr cf)
	getPaths []string
	getReqs  []string
}

func (r *recorder) CalendarHomeSetPath(ctx context.Context) (string, error)  { return "/u/cal/", nil }
func (r *recorder) CurrentUserPrincipal(ctx context.Context) (string, error) { return "/u/", nil }
func (r *recorder) CreateCalendar(ctx context.Context, c *caldav.Calendar) error {
	return fmt.Errorf("unexpected CreateCalendar")
}
func (r *recorder) ListCalendars(ctx context.Context) ([]caldav.Calendar, error) {
	return nil, fmt.Errorf("unexpected ListCalendars")
}
func (r *recorder) GetCalendar(ctx context.Context, path string) (*caldav.Calendar, error) {
	return nil, fmt.Errorf("unexpected GetCalendar")
}
func (r *recorder) GetCalendarObject(ctx context.Context, path string, req *caldav.CalendarCompRequest) (*caldav.CalendarObject, error) {
	r.getPaths = append(r.getPaths, path)
	r.getReqs = append(r.getReqs, crSx(fromCr(*req)))
	return nil, webdav.NewHTTPError(http.StatusNotFound, fmt.Errorf("no such object"))
}
func (r *recorder) ListCalendarObjects(ctx context.Context, path string, req *caldav.CalendarCompRequest) ([]caldav.CalendarObject, error) {
	return nil, fmt.Errorf("unexpected ListCalendarObjects")
}
func (r *recorder) QueryCalendarObjects(ctx context.Context, path string, q *caldav.CalendarQuery) ([]caldav.CalendarObject, error) {
	r.queries = append(r.queries, hx.L("query", hx.S(path), crSx(fromCr(q.CompRequest)), cfSx(fromCf(q.CompFilter))))
	return nil, nil
}
func (r *recorder) PutCalendarObject(ctx context.Context, path string, calendar *ical.Calendar, opts *caldav.PutCalendarObjectOptions) (*caldav.CalendarObject, error) {
	return nil, fmt.Errorf("unexpected PutCalendarObject")
}
func (r *recorder) DeleteCalendarObject(ctx context.Context, path string) error {
	return fmt.Errorf("unexpected DeleteCalendarObject")
}

var zeroCrSx = crSx(crV{})

// callSx renders what reached the backend, given the status the handler answered.
func (r *recorder) callSx(status int, panicked bool) string {
	if panicked {
		return "(panic)"
	}
	if status != http.StatusMultiStatus {
		if len(r.queries) > 0 || len(r.getPaths) > 0 {
			return hx.L("backend-called-but-status", hx.I(int64(status)))
		}
		return hx.L("err", hx.I(int64(status)))
	}
	switch {
	case len(r.queries) == 1 && len(r.getPaths) == 0:
		return hx.L("ok", r.queries[0])
	case len(r.queries) == 0:
		// a multiget (one GetCalendarObject per href, all with the same request)
		req := zeroCrSx
		var ps []string
		for i, p := range r.getPaths {
			if i == 0 {
				req = r.getReqs[0]
			} else if r.getReqs[i] != req {
				return "(split-comp-requests)"
			}
			ps = append(ps, hx.S(p))
		}
		return hx.L("ok", hx.L("multiget", hx.L(ps...), req))
	}
	return "(mixed-backend-calls)"
}

// serve runs the real handler on a REPORT request.
func serve(req *http.Request) (call string) {
	rec := &recorder{}
	return serveWith(&caldav.Handler{Backend: rec}, rec, req)
}

// serveWith runs one request through an existing handler value whose backend
// is rec (emptied first): consecutive requests of a sequence share the handler.
func serveWith(h *caldav.Handler, rec *recorder, req *http.Request) (call string) {
	*rec = recorder{}
	w := httptest.NewRecorder()
	panicked := false
	func() {
		defer func() {
			if e := recover(); e != nil {
				panicked = true
			}
		}()
		h.ServeHTTP(w, req)
	}()
	return rec.callSx(w.Code, panicked)
}

// ---- tokenizing a body into a tree

type tnode struct {
	ns, local string
	attrs     [][3]string
	kids      []*tnode
	kind      byte // 'e', 't', 'c'
	text      string
}

// nsAtom abbreviates the namespaces that occur in every element.
func nsAtom(ns string) string {
	switch ns {
	case nsC:
		return "C"
	case nsD:
		return "D"
	case "":
		return "N"
	case "xmlns":
		return "X"
	}
	return hx.S(ns)
}

func (n *tnode) sx() string {
	switch n.kind {
	case 't':
		return hx.L("t", hx.S(n.text))
	case 'c':
		return hx.L("c", hx.S(n.text))
	}
	var as, ks []string
	for _, a := range n.attrs {
		as = append(as, hx.L(nsAtom(a[0]), hx.S(a[1]), hx.S(a[2])))
	}
	for _, k := range n.kids {
		ks = append(ks, k.sx())
	}
	return hx.L("e", nsAtom(n.ns), hx.S(n.local), hx.L(as...), hx.L(ks...))
}

// tokenize runs encoding/xml's decoder (as the server does) and returns the
// root element as a tree; names are namespace-expanded, namespace
// declarations stay among the attributes exactly as xml.StartElement has them.
func tokenize(body []byte) (*tnode, error) {
	d := xml.NewDecoder(bytes.NewReader(body))
	var root *tnode
	var stack []*tnode
	for {
		tok, err := d.Token()
		if err == io.EOF {
			break
		}
		if err != nil {
			return nil, err
		}
		switch t := tok.(type) {
		case xml.StartElement:
			n := &tnode{kind: 'e', ns: t.Name.Space, local: t.Name.Local}
			for _, a := range t.Attr {
				n.attrs = append(n.attrs, [3]string{a.Name.Space, a.Name.Local, a.Value})
			}
			if len(stack) == 0 {
				if root != nil {
					return nil, fmt.Errorf("two root elements")
				}
				root = n
			} else {
				p := stack[len(stack)-1]
				p.kids = append(p.kids, n)
			}
			stack = append(stack, n)
		case xml.EndElement:
			stack = stack[:len(stack)-1]
		case xml.CharData:
			if len(stack) > 0 {
				p := stack[len(stack)-1]
				p.kids = append(p.kids, &tnode{kind: 't', text: string(t)})
			}
		case xml.Comment:
			if len(stack) > 0 {
				p := stack[len(stack)-1]
				p.kids = append(p.kids, &tnode{kind: 'c', text: string(t)})
			}
		case xml.ProcInst, xml.Directive:
			if len(stack) > 0 {
				return nil, fmt.Errorf("processing instruction or directive inside the root element")
			}
		}
	}
	if root == nil || len(stack) != 0 {
		return nil, fmt.Errorf("no complete root element")
	}
	return root, nil
}

// strictCheck reads the body with the raw (prefix-preserving) tokenizer and
// checks what encoding/xml's decoder does not insist on: every prefix used is
// declared in scope, no element carries the same attribute twice (by
// qualified name or by expanded name), and there is exactly one root.
func strictCheck(body []byte) error {
	d := xml.NewDecoder(bytes.NewReader(body))
	type scope map[string]string
	stack := []scope{{"xml": "http://www.w3.org/XML/1998/namespace"}}
	lookup := func(p string) (string, bool) {
		for i := len(stack) - 1; i >= 0; i-- {
			if v, ok := stack[i][p]; ok {
				return v, true
			}
		}
		return "", false
	}
	roots := 0
	for {
		tok, err := d.RawToken()
		if err == io.EOF {
			break
		}
		if err != nil {
			return err
		}
		switch t := tok.(type) {
		case xml.StartElement:
			if len(stack) == 1 {
				roots++
			}
			sc := scope{}
			for _, a := range t.Attr {
				if a.Name.Space == "xmlns" {
					if a.Value == "" {
						return fmt.Errorf("prefix %q undeclared with an empty value", a.Name.Local)
					}
					sc[a.Name.Local] = a.Value
				} else if a.Name.Space == "" && a.Name.Local == "xmlns" {
					sc[""] = a.Value
				}
			}
			stack = append(stack, sc)
			if t.Name.Space != "" {
				if _, ok := lookup(t.Name.Space); !ok {
					return fmt.Errorf("element prefix %q not declared", t.Name.Space)
				}
			}
			seenQ := map[string]bool{}
			seenX := map[string]bool{}
			for _, a := range t.Attr {
				q := a.Name.Space + ":" + a.Name.Local
				if seenQ[q] {
					return fmt.Errorf("duplicate attribute %s", q)
				}
				seenQ[q] = true
				if a.Name.Space == "xmlns" || (a.Name.Space == "" && a.Name.Local == "xmlns") {
					continue
				}
				uri := ""
				if a.Name.Space != "" {
					u, ok := lookup(a.Name.Space)
					if !ok {
						return fmt.Errorf("attribute prefix %q not declared", a.Name.Space)
					}
					uri = u
				}
				x := uri + " " + a.Name.Local
				if seenX[x] {
					return fmt.Errorf("duplicate attribute {%s}%s", uri, a.Name.Local)
				}
				seenX[x] = true
			}
		case xml.EndElement:
			stack = stack[:len(stack)-1]
		}
	}
	if roots != 1 {
		return fmt.Errorf("%d root elements", roots)
	}
	return nil
}

// ---- net/url as observed (the model takes these as given)

type hrefTables struct {
	fmt   [][2]string // path -> text
	parse [][2]string // text -> "n" | (s path)
	seenF map[string]bool
	seenP map[string]bool
}

func newTables() *hrefTables { return &hrefTables{seenF: map[string]bool{}, seenP: map[string]bool{}} }

func (t *hrefTables) addFmt(path, text string) {
	if !t.seenF[path] {
		t.seenF[path] = true
		t.fmt = append(t.fmt, [2]string{hx.S(path), hx.S(text)})
	}
	t.addParse(text)
}

func (t *hrefTables) addParse(text string) {
	if t.seenP[text] {
		return
	}
	t.seenP[text] = true
	res := "n"
	if u, err := url.Parse(text); err == nil {
		res = hx.L("s", hx.S(u.Path))
	}
	t.parse = append(t.parse, [2]string{hx.S(text), res})
}

func (t *hrefTables) sx() (string, string) {
	f := []string{"hf"}
	for _, e := range t.fmt {
		f = append(f, hx.L(e[0], e[1]))
	}
	p := []string{"hp"}
	for _, e := range t.parse {
		p = append(p, hx.L(e[0], e[1]))
	}
	return hx.L(f...), hx.L(p...)
}

// every href text of a tokenized document is looked up with url.Parse
func (t *hrefTables) addDocHrefs(n *tnode) {
	if n.kind != 'e' {
		return
	}
	if n.local == "href" {
		var sb strings.Builder
		for _, k := range n.kids {
			if k.kind == 't' {
				sb.WriteString(k.text)
			}
		}
		t.addParse(sb.String())
	}
	for _, k := range n.kids {
		t.addDocHrefs(k)
	}
}

// ---- stream (a): the client

type captureClient struct {
	body []byte
	call string
	sent int
}

func (c *captureClient) Do(req *http.Request) (*http.Response, error) {
	c.sent++
	body, err := io.ReadAll(req.Body)
	if err != nil {
		return nil, err
	}
	c.body = body
	// the very request the client built goes to the real handler
	req.Body = io.NopCloser(bytes.NewReader(body))
	req.RequestURI = req.URL.RequestURI()
	rec := &recorder{}
	h := &caldav.Handler{Backend: rec}
	w := httptest.NewRecorder()
	panicked := false
	func() {
		defer func() {
			if e := recover(); e != nil {
				panicked = true
			}
		}()
		h.ServeHTTP(w, req)
	}()
	c.call = rec.callSx(w.Code, panicked)
	return w.Result(), nil
}

func execClient(path string, r request) string {
	return execClientCalls(r, []string{path})[0]
}

// valueSx renders the caldav value a call was given, as it is NOW.
func valueSx(q *caldav.CalendarQuery, mg *caldav.CalendarMultiGet) string {
	if mg != nil {
		return requestSx(request{multiget: true, paths: mg.Paths, cr: fromCr(mg.CompRequest)})
	}
	return requestSx(request{cr: fromCr(q.CompRequest), cf: fromCf(q.CompFilter)})
}

// execClientCalls passes ONE request value (one *CalendarQuery or
// *CalendarMultiGet, built once) to consecutive calls of ONE client on the
// given paths and returns one case line per call.  The input of every line is
// the value as the caller built it, plus the paths of the earlier calls
// ("after"): the model is a function of the call's own inputs.  After each
// call the value is compared with what it was before the first one.
func execClientCalls(r request, paths []string) []string {
	return execClientCallsOn(r, paths, nil, nil)
}

func execClientCallsOn(r request, paths []string, q *caldav.CalendarQuery, mg *caldav.CalendarMultiGet) []string {
	cc := &captureClient{}
	cl, err := caldav.NewClient(cc, "http://caldav.example/")
	if q == nil && mg == nil {
		if r.multiget {
			mg = &caldav.CalendarMultiGet{Paths: r.paths, CompRequest: toCr(r.cr)}
		} else {
			q = &caldav.CalendarQuery{CompRequest: toCr(r.cr), CompFilter: toCf(r.cf)}
		}
	}
	orig := requestSx(r)
	var lines []string
	for i, path := range paths {
		args := []string{"client", hx.S(path), orig}
		if i > 0 {
			after := []string{"after"}
			for _, p := range paths[:i] {
				after = append(after, hx.S(p))
			}
			args = append(args, hx.L(after...))
		}
		in := hx.L(args...)
		if err != nil {
			lines = append(lines, in+" "+hx.L("obs", "(hf)", "(hp)", "(client-setup-failed)", "(none)"))
			continue
		}
		*cc = captureClient{}
		clientPanic := false
		func() {
			defer func() {
				if e := recover(); e != nil {
					clientPanic = true
				}
			}()
			if r.multiget {
				_, _ = cl.MultiGetCalendar(context.Background(), path, mg)
			} else {
				_, _ = cl.QueryCalendar(context.Background(), path, q)
			}
		}()
		tb := newTables()
		if r.multiget {
			ps := r.paths
			if len(ps) == 0 {
				ps = []string{path}
			}
			for _, p := range ps {
				tb.addFmt(p, (&url.URL{Path: p}).String())
			}
		}
		body := "(no-request-sent)"
		switch {
		case clientPanic:
			body = "(client-panic)"
		case cc.sent != 1:
			body = hx.L("requests-sent", hx.I(int64(cc.sent)))
		default:
			if err := strictCheck(cc.body); err != nil {
				body = hx.L("not-strict-xml", hx.S(err.Error()))
			} else if t, err := tokenize(cc.body); err != nil {
				body = hx.L("not-tokenizable", hx.S(err.Error()))
			} else {
				tb.addDocHrefs(t)
				body = t.sx()
			}
		}
		hf, hp := tb.sx()
		call := cc.call
		if call == "" {
			call = "(none)"
		}
		obs := []string{"obs", hf, hp, body, call}
		if valueSx(q, mg) != orig {
			obs = append(obs, "(mod)")
		}
		lines = append(lines, in+" "+hx.L(obs...))
	}
	return lines
}

// ---- stream (b): the server

type serverReq struct {
	path  string
	reqSx string
	doc   []byte
	pairs [][2]string
}

func execServer(path string, reqSx string, doc []byte, fmtPairs [][2]string) string {
	return execServerSeq([]serverReq{{path, reqSx, doc, fmtPairs}})[0]
}

// execServerSeq serves consecutive REPORT requests with ONE caldav.Handler
// value and returns one case line per request; the input of a later line
// names the requests served before it ("after").
func execServerSeq(reqs []serverReq) []string {
	rec := &recorder{}
	h := &caldav.Handler{Backend: rec}
	var lines []string
	for i, rq := range reqs {
		args := []string{"server", hx.S(rq.path), rq.reqSx, hx.S(string(rq.doc))}
		if i > 0 {
			after := []string{"after"}
			for _, p := range reqs[:i] {
				after = append(after, hx.L(hx.S(p.path), hx.S(string(p.doc))))
			}
			args = append(args, hx.L(after...))
		}
		in := hx.L(args...)
		tb := newTables()
		for _, p := range rq.pairs {
			tb.addFmt(p[0], p[1])
		}
		tree := "(not-tokenizable)"
		if t, err := tokenize(rq.doc); err == nil {
			tb.addDocHrefs(t)
			tree = t.sx()
		}
		target := (&url.URL{Path: rq.path}).String()
		req := httptest.NewRequest("REPORT", target, bytes.NewReader(rq.doc))
		req.Header.Set("Content-Type", "application/xml; charset=utf-8")
		req.Header.Set("Depth", "1")
		call := serveWith(h, rec, req)
		hf, hp := tb.sx()
		lines = append(lines, in+" "+hx.L("obs", hf, hp, tree, call))
	}
	return lines
}

// execShared: two request values that SHARE their slices and pointers (the
// second is a shallow copy of the first with some fields replaced, its slices
// alias the first's backing arrays with spare capacity), passed alternately to
// consecutive calls of one client.
func execShared(r1, r2 request, paths []string) []string {
	var lines []string
	if r1.multiget {
		m1 := &caldav.CalendarMultiGet{Paths: append(make([]string, 0, 8), r1.paths...), CompRequest: toCr(r1.cr)}
		m2 := &caldav.CalendarMultiGet{Paths: append(m1.Paths[:0:len(m1.Paths)], r2.paths...), CompRequest: toCr(r2.cr)}
		// share what can be shared without changing either value
		if len(m1.CompRequest.Props) == 0 {
			m1.CompRequest.Props = make([]string, 0, 4)
		}
		if m2.CompRequest.Expand == nil && m1.CompRequest.Expand != nil && r2.cr.expand != nil {
			m2.CompRequest.Expand = m1.CompRequest.Expand
		}
		for i, p := range paths {
			if i%2 == 0 {
				lines = append(lines, execClientCallsOn(r1, []string{p}, nil, m1)...)
			} else {
				lines = append(lines, execClientCallsOn(r2, []string{p}, nil, m2)...)
			}
		}
		return lines
	}
	q1 := &caldav.CalendarQuery{CompRequest: toCr(r1.cr), CompFilter: toCf(r1.cf)}
	q1.CompFilter.Comps = append(make([]caldav.CompFilter, 0, 8), q1.CompFilter.Comps...)
	q1.CompFilter.Props = append(make([]caldav.PropFilter, 0, 8), q1.CompFilter.Props...)
	q2 := &caldav.CalendarQuery{CompRequest: toCr(r2.cr), CompFilter: toCf(r2.cf)}
	// q2's child lists live in the spare capacity behind q1's
	n1, p1 := len(q1.CompFilter.Comps), len(q1.CompFilter.Props)
	q2.CompFilter.Comps = append(q1.CompFilter.Comps[:n1:8][n1:], q2.CompFilter.Comps...)
	q2.CompFilter.Props = append(q1.CompFilter.Props[:p1:8][p1:], q2.CompFilter.Props...)
	for i, p := range paths {
		if i%2 == 0 {
			lines = append(lines, execClientCallsOn(r1, []string{p}, q1, nil)...)
		} else {
			lines = append(lines, execClientCallsOn(r2, []string{p}, q2, nil)...)
		}
	}
	return lines
}
