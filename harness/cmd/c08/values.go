package main

// The public request values of the C08 check, their S-expression form (the
// input side of a case line, see oracle/c08/main.ml) and the conversion to
// and from the caldav package's types.

import (
	"time"

	"github.com/emersion/go-webdav/caldav"

	"verifharness/hx"
)

const zeroSec = -62135596800 // time.Time{}.Unix()

type inst struct{ sec, off int64 }

var zeroInst = inst{zeroSec, 0}

func (i inst) isZero() bool { return i.sec == zeroSec }

type tmatch struct {
	text string
	neg  bool
}

type pafV struct {
	name string
	ind  bool
	tm   *tmatch
}

type pfV struct {
	name       string
	ind        bool
	start, end inst
	tm         *tmatch
	params     []pafV
}

type cfV struct {
	name       string
	ind        bool
	start, end inst
	props      []pfV
	comps      []cfV
}

type crV struct {
	name     string
	allprops bool
	props    []string
	allcomps bool
	comps    []crV
	expand   *[2]inst
}

type request struct {
	multiget bool
	cr       crV
	cf       cfV      // query
	paths    []string // multiget
}

// ---- S-expressions

func instSx(i inst) string { return hx.L(hx.I(i.sec), hx.I(i.off)) }

func tmSx(t *tmatch) string {
	if t == nil {
		return "n"
	}
	return hx.L("tm", hx.S(t.text), hx.B(t.neg))
}

func pafSx(p pafV) string { return hx.L("paf", hx.S(p.name), hx.B(p.ind), tmSx(p.tm)) }

func pfSx(p pfV) string {
	var ps []string
	for _, q := range p.params {
		ps = append(ps, pafSx(q))
	}
	return hx.L("pf", hx.S(p.name), hx.B(p.ind), instSx(p.start), instSx(p.end), tmSx(p.tm), hx.L(ps...))
}

func cfSx(c cfV) string {
	var ps, cs []string
	for _, p := range c.props {
		ps = append(ps, pfSx(p))
	}
	for _, k := range c.comps {
		cs = append(cs, cfSx(k))
	}
	return hx.L("cf", hx.S(c.name), hx.B(c.ind), instSx(c.start), instSx(c.end), hx.L(ps...), hx.L(cs...))
}

func crSx(c crV) string {
	var ps, cs []string
	for _, p := range c.props {
		ps = append(ps, hx.S(p))
	}
	for _, k := range c.comps {
		cs = append(cs, crSx(k))
	}
	ex := "n"
	if c.expand != nil {
		ex = hx.L("e", instSx(c.expand[0]), instSx(c.expand[1]))
	}
	return hx.L("cr", hx.S(c.name), hx.B(c.allprops), hx.L(ps...), hx.B(c.allcomps), hx.L(cs...), ex)
}

func requestSx(r request) string {
	if r.multiget {
		var ps []string
		for _, p := range r.paths {
			ps = append(ps, hx.S(p))
		}
		return hx.L("multiget", hx.L(ps...), crSx(r.cr))
	}
	return hx.L("query", crSx(r.cr), cfSx(r.cf))
}

func parseInst(x hx.Sx) inst { return inst{x.List[0].Int(), x.List[1].Int()} }

func parseTm(x hx.Sx) *tmatch {
	if !x.IsList {
		return nil
	}
	return &tmatch{x.List[1].Str(), x.List[2].Bool()}
}

func parsePaf(x hx.Sx) pafV {
	a := x.Args()
	return pafV{a[0].Str(), a[1].Bool(), parseTm(a[2])}
}

func parsePf(x hx.Sx) pfV {
	a := x.Args()
	p := pfV{name: a[0].Str(), ind: a[1].Bool(), start: parseInst(a[2]), end: parseInst(a[3]), tm: parseTm(a[4])}
	for _, q := range a[5].List {
		p.params = append(p.params, parsePaf(q))
	}
	return p
}

func parseCf(x hx.Sx) cfV {
	a := x.Args()
	c := cfV{name: a[0].Str(), ind: a[1].Bool(), start: parseInst(a[2]), end: parseInst(a[3])}
	for _, p := range a[4].List {
		c.props = append(c.props, parsePf(p))
	}
	for _, k := range a[5].List {
		c.comps = append(c.comps, parseCf(k))
	}
	return c
}

func parseCr(x hx.Sx) crV {
	a := x.Args()
	c := crV{name: a[0].Str(), allprops: a[1].Bool(), allcomps: a[3].Bool()}
	for _, p := range a[2].List {
		c.props = append(c.props, p.Str())
	}
	for _, k := range a[4].List {
		c.comps = append(c.comps, parseCr(k))
	}
	if a[5].IsList {
		c.expand = &[2]inst{parseInst(a[5].List[1]), parseInst(a[5].List[2])}
	}
	return c
}

func parseRequest(x hx.Sx) request {
	a := x.Args()
	if x.Head() == "multiget" {
		r := request{multiget: true, cr: parseCr(a[1])}
		for _, p := range a[0].List {
			r.paths = append(r.paths, p.Str())
		}
		return r
	}
	return request{cr: parseCr(a[0]), cf: parseCf(a[1])}
}

// ---- to and from the caldav package's types

func toTime(i inst) time.Time {
	if i.sec == zeroSec && i.off == 0 {
		return time.Time{}
	}
	t := time.Unix(i.sec, 0)
	if i.off == 0 {
		return t.UTC()
	}
	return t.In(time.FixedZone("", int(i.off)))
}

func fromTime(t time.Time) inst {
	_, off := t.Zone()
	return inst{t.Unix(), int64(off)}
}

func toTm(t *tmatch) *caldav.TextMatch {
	if t == nil {
		return nil
	}
	return &caldav.TextMatch{Text: t.text, NegateCondition: t.neg}
}

func fromTm(t *caldav.TextMatch) *tmatch {
	if t == nil {
		return nil
	}
	return &tmatch{t.Text, t.NegateCondition}
}

func toCf(c cfV) caldav.CompFilter {
	out := caldav.CompFilter{Name: c.name, IsNotDefined: c.ind, Start: toTime(c.start), End: toTime(c.end)}
	for _, p := range c.props {
		pp := caldav.PropFilter{Name: p.name, IsNotDefined: p.ind, Start: toTime(p.start), End: toTime(p.end), TextMatch: toTm(p.tm)}
		for _, q := range p.params {
			pp.ParamFilter = append(pp.ParamFilter, caldav.ParamFilter{Name: q.name, IsNotDefined: q.ind, TextMatch: toTm(q.tm)})
		}
		out.Props = append(out.Props, pp)
	}
	for _, k := range c.comps {
		out.Comps = append(out.Comps, toCf(k))
	}
	return out
}

func fromCf(c caldav.CompFilter) cfV {
	out := cfV{name: c.Name, ind: c.IsNotDefined, start: fromTime(c.Start), end: fromTime(c.End)}
	for _, p := range c.Props {
		pp := pfV{name: p.Name, ind: p.IsNotDefined, start: fromTime(p.Start), end: fromTime(p.End), tm: fromTm(p.TextMatch)}
		for _, q := range p.ParamFilter {
			pp.params = append(pp.params, pafV{q.Name, q.IsNotDefined, fromTm(q.TextMatch)})
		}
		out.props = append(out.props, pp)
	}
	for _, k := range c.Comps {
		out.comps = append(out.comps, fromCf(k))
	}
	return out
}

func toCr(c crV) caldav.CalendarCompRequest {
	out := caldav.CalendarCompRequest{Name: c.name, AllProps: c.allprops, Props: c.props, AllComps: c.allcomps}
	for _, k := range c.comps {
		out.Comps = append(out.Comps, toCr(k))
	}
	if c.expand != nil {
		out.Expand = &caldav.CalendarExpandRequest{Start: toTime(c.expand[0]), End: toTime(c.expand[1])}
	}
	return out
}

func fromCr(c caldav.CalendarCompRequest) crV {
	out := crV{name: c.Name, allprops: c.AllProps, props: c.Props, allcomps: c.AllComps}
	for _, k := range c.Comps {
		out.comps = append(out.comps, fromCr(k))
	}
	if c.Expand != nil {
		out.expand = &[2]inst{fromTime(c.Expand.Start), fromTime(c.Expand.End)}
	}
	return out
}
