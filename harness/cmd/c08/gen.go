package main

// Generators: the exhaustive universe (every filter tree with at most three
// nodes, every flag combination, names over a two-letter alphabet), seeded
// random deep trees with awkward strings and zoned instants, href lists, the
// known-finding documents and the malformed-document stream.

import (
	"net/url"
	"strings"

	"verifharness/hx"
)

// ---- exhaustive universe

var exNames = []string{"A", "B"}

// instants of the exhaustive part: one with a zone east of UTC whose local
// date differs from the UTC date, one plain UTC
var exStart = inst{1577836800 - 3600, 7200} // 2019-12-31T23:00:00Z, written 01:00+02:00
var exEnd = inst{1580515200, 0}             // 2020-02-01T00:00:00Z

type timeChoice struct{ s, e inst }

var exTimes = []timeChoice{{zeroInst, zeroInst}, {exStart, zeroInst}, {zeroInst, exEnd}, {exStart, exEnd}}

var exTms = []*tmatch{nil, {"x", false}, {" y<&> ", true}}

func allPaf(names []string) []pafV {
	var out []pafV
	for _, n := range names {
		for _, ind := range []bool{false, true} {
			for _, tm := range exTms {
				out = append(out, pafV{n, ind, tm})
			}
		}
	}
	return out
}

func allPfLeaf(names []string) []pfV {
	var out []pfV
	for _, n := range names {
		for _, ind := range []bool{false, true} {
			for _, tc := range exTimes {
				for _, tm := range exTms {
					out = append(out, pfV{name: n, ind: ind, start: tc.s, end: tc.e, tm: tm})
				}
			}
		}
	}
	return out
}

func allCfLeaf(names []string) []cfV {
	var out []cfV
	for _, n := range names {
		for _, ind := range []bool{false, true} {
			for _, tc := range exTimes {
				out = append(out, cfV{name: n, ind: ind, start: tc.s, end: tc.e})
			}
		}
	}
	return out
}

// filterTrees calls f on every comp-filter tree with at most maxNodes nodes
// (comp-, prop- and param-filters all count as nodes), every flag combination
// on every node; the root's name ranges over exNames, the other nodes' names
// over childNames.
func filterTrees(maxNodes int, childNames []string, f func(cfV)) {
	cfs, pfs, pafs := allCfLeaf(childNames), allPfLeaf(childNames), allPaf(childNames)
	for _, root := range allCfLeaf(exNames) {
		f(root)
		if maxNodes < 2 {
			continue
		}
		for _, c := range cfs {
			r := root
			r.comps = []cfV{c}
			f(r)
		}
		for _, p := range pfs {
			r := root
			r.props = []pfV{p}
			f(r)
		}
		if maxNodes < 3 {
			continue
		}
		for _, c1 := range cfs {
			for _, c2 := range cfs {
				r := root
				r.comps = []cfV{c1, c2}
				f(r)
				r2 := root
				cc := c1
				cc.comps = []cfV{c2}
				r2.comps = []cfV{cc}
				f(r2)
			}
			for _, p := range pfs {
				r := root
				r.comps = []cfV{c1}
				r.props = []pfV{p}
				f(r)
				r2 := root
				cc := c1
				cc.props = []pfV{p}
				r2.comps = []cfV{cc}
				f(r2)
			}
		}
		for _, p1 := range pfs {
			for _, p2 := range pfs {
				r := root
				r.props = []pfV{p1, p2}
				f(r)
			}
			for _, q := range pafs {
				r := root
				pp := p1
				pp.params = []pafV{q}
				r.props = []pfV{pp}
				f(r)
			}
		}
	}
}

// a handful of component requests rotated through the exhaustive filters
var exCrs = []crV{
	{name: "VCALENDAR", allprops: true, allcomps: true},
	{name: "VCALENDAR", props: []string{"VERSION"}, comps: []crV{{name: "VEVENT", props: []string{"SUMMARY", "UID"}}}},
	{name: "", comps: []crV{{name: "VEVENT", allprops: true, allcomps: true}, {name: "VTIMEZONE"}}, expand: &[2]inst{exStart, exEnd}},
	{name: "VCALENDAR", allprops: true, comps: []crV{{name: "VTODO", allcomps: true}}},
	{},
}

// ---- validity (RFC 4791 content models), used only to decide which values
// are sent through the harness's own RFC writer

func validPaf(p pafV) bool { return !(p.ind && p.tm != nil) }

func validPf(p pfV) bool {
	hasTr := !p.start.isZero() || !p.end.isZero()
	if p.start.off != 0 || p.end.off != 0 {
		return false
	}
	if p.ind {
		if hasTr || p.tm != nil || len(p.params) > 0 {
			return false
		}
	} else if hasTr && p.tm != nil {
		return false
	}
	for _, q := range p.params {
		if !validPaf(q) {
			return false
		}
	}
	return true
}

func validCf(c cfV) bool {
	hasTr := !c.start.isZero() || !c.end.isZero()
	if c.start.off != 0 || c.end.off != 0 {
		return false
	}
	if c.ind && (hasTr || len(c.props) > 0 || len(c.comps) > 0) {
		return false
	}
	for _, p := range c.props {
		if !validPf(p) {
			return false
		}
	}
	for _, k := range c.comps {
		if !validCf(k) {
			return false
		}
	}
	return true
}

func validComp(c crV, top bool) bool {
	if c.allprops && len(c.props) > 0 || c.allcomps && len(c.comps) > 0 {
		return false
	}
	if !top && c.expand != nil {
		return false
	}
	if c.expand != nil && (c.expand[0].off != 0 || c.expand[1].off != 0) {
		return false
	}
	for _, k := range c.comps {
		if !validComp(k, false) {
			return false
		}
	}
	return true
}

func utcInst(i inst) inst { return inst{i.sec, 0} }

func utcCf(c cfV) cfV {
	c.start, c.end = utcInst(c.start), utcInst(c.end)
	ps := make([]pfV, len(c.props))
	for i, p := range c.props {
		p.start, p.end = utcInst(p.start), utcInst(p.end)
		ps[i] = p
	}
	c.props = ps
	if len(ps) == 0 {
		c.props = nil
	}
	cs := make([]cfV, len(c.comps))
	for i, k := range c.comps {
		cs[i] = utcCf(k)
	}
	c.comps = cs
	if len(cs) == 0 {
		c.comps = nil
	}
	return c
}

func utcCr(c crV) crV {
	if c.expand != nil {
		c.expand = &[2]inst{utcInst(c.expand[0]), utcInst(c.expand[1])}
	}
	return c
}

// ---- random values

var names = []string{"VCALENDAR", "VEVENT", "VTODO", "VJOURNAL", "VALARM", "VFREEBUSY", "VTIMEZONE",
	"SUMMARY", "DTSTART", "ATTENDEE", "ORGANIZER", "PARTSTAT", "ROLE", "X-ÉTÉ", "", "a b", "<&>\"'", " lead", "trail "}

var texts = []string{"", " ", "x", "  lead", "trail  ", " both ", "a<b", "x&y", "a>b", "]]>", "<![CDATA[x]]>", "&amp;", "&#65;",
	"\"q\"", "'s'", "é", "日本語", "a\tb", "line\nbreak", "cr\rlf\r\n", " nbsp ", "</text-match>", "<!-- c -->",
	"emoji \U0001F600", "mix <&>\"' end ", "\n", "-- --", "%41", "a  b   c"}

func randText(rng *hx.Rand) string {
	switch rng.Intn(6) {
	case 0:
		var sb strings.Builder
		n := rng.Intn(40)
		for i := 0; i < n; i++ {
			sb.WriteString(rng.Pick([]string{"a", "b", " ", "<", "&", ">", "\"", "'", "é", "]", "\n", "\t", "1", "Z", "ß", "漢"}))
		}
		return sb.String()
	case 1:
		return rng.Pick(texts) + rng.Pick(texts)
	}
	return rng.Pick(texts)
}

// randInst: an instant whose year has four digits, in a zone between -12:00
// and +14:00 (quarter-hour steps); now and then near the ends of the range,
// on a leap day, or where the local date differs from the UTC date.
func randInst(rng *hx.Rand) inst {
	off := int64(rng.Intn(105)-48) * 900 // -12:00 .. +14:00
	if rng.Intn(4) == 0 {
		off = 0
	}
	var sec int64
	switch rng.Intn(10) {
	case 0:
		sec = -62167219200 + int64(rng.Intn(400*86400)) // year 0 / 1
	case 1:
		sec = 253402300799 - int64(rng.Intn(400*86400)) // year 9998 / 9999
	case 2:
		sec = 951782400 + int64(rng.Intn(86400)) // 2000-02-29
	case 3:
		sec = 1709164800 + int64(rng.Intn(2*86400)) // 2024-02-29 / 03-01
	case 4:
		sec = int64(rng.Intn(4000)) * 86400 * 365 / 10 // day boundaries over 1970-2079
		if rng.Bool() {
			sec--
		}
	case 5:
		sec = -int64(rng.Intn(1 << 35)) // before 1970, after the year 880
	default:
		sec = 631152000 + int64(rng.Intn(3471292800-631152000)) // 1990 .. 2080
	}
	if sec == zeroSec {
		sec++
	}
	return inst{sec, off}
}

func randTimes(rng *hx.Rand) (inst, inst) {
	switch rng.Intn(4) {
	case 0:
		return randInst(rng), zeroInst
	case 1:
		return zeroInst, randInst(rng)
	}
	return randInst(rng), randInst(rng)
}

func randTm(rng *hx.Rand) *tmatch { return &tmatch{randText(rng), rng.Bool()} }

func randPaf(rng *hx.Rand, valid bool) pafV {
	p := pafV{name: rng.Pick(names)}
	switch rng.Intn(3) {
	case 0:
		p.ind = true
	case 1:
		p.tm = randTm(rng)
	}
	if !valid && rng.Intn(3) == 0 {
		p.ind = true
		p.tm = randTm(rng)
	}
	return p
}

func randPf(rng *hx.Rand, valid bool) pfV {
	p := pfV{name: rng.Pick(names), start: zeroInst, end: zeroInst}
	switch rng.Intn(5) {
	case 0:
		p.ind = true
		if valid {
			return p
		}
	case 1:
		p.start, p.end = randTimes(rng)
	case 2, 3:
		p.tm = randTm(rng)
	}
	if !valid && rng.Intn(2) == 0 {
		p.start, p.end = randTimes(rng)
		p.tm = randTm(rng)
	}
	for rng.Intn(3) == 0 && len(p.params) < 4 {
		p.params = append(p.params, randPaf(rng, valid))
	}
	return p
}

func randCf(rng *hx.Rand, depth int, valid bool) cfV {
	c := cfV{name: rng.Pick(names), start: zeroInst, end: zeroInst}
	if rng.Intn(6) == 0 {
		c.ind = true
		if valid {
			return c
		}
	}
	if rng.Intn(3) == 0 {
		c.start, c.end = randTimes(rng)
	}
	for rng.Intn(5) < 2 && len(c.props) < 4 {
		c.props = append(c.props, randPf(rng, valid))
	}
	if depth > 0 {
		for rng.Intn(5) < 3 && len(c.comps) < 3 {
			c.comps = append(c.comps, randCf(rng, depth-1, valid))
		}
	}
	return c
}

func randComp(rng *hx.Rand, depth int, valid bool, top bool) crV {
	c := crV{name: rng.Pick(names)}
	if rng.Intn(3) == 0 {
		c.allprops = true
	}
	if !c.allprops || (!valid && rng.Intn(3) == 0) {
		for rng.Intn(3) > 0 && len(c.props) < 4 {
			c.props = append(c.props, rng.Pick(names))
		}
	}
	if rng.Intn(3) == 0 {
		c.allcomps = true
	}
	if depth > 0 && (!c.allcomps || (!valid && rng.Intn(3) == 0)) {
		for rng.Intn(2) == 0 && len(c.comps) < 3 {
			c.comps = append(c.comps, randComp(rng, depth-1, valid, false))
		}
	}
	if (top && rng.Intn(3) == 0) || (!valid && rng.Intn(6) == 0) {
		c.expand = &[2]inst{randInst(rng), randInst(rng)}
	}
	return c
}

var goodPaths = []string{"/cal/a.ics", "/cal/a b.ics", "/cal/é.ics", "/cal/a%41.ics", "/cal/x?y#z.ics", "/c/a;b&c=d.ics",
	"/cal/sub/", "/", "/cal/<&>\"'.ics", "/cal/+plus:colon@at.ics", "/cal/%zz.ics", "/cal/日本.ics", "/cal/a/../b.ics", "/cal/ lead.ics", "/cal/trail .ics"}

// paths url.URL{Path}.String / url.Parse do not carry unchanged (outside the
// theorem's premise; only model agreement is checked on them)
var oddPaths = []string{"a:b.ics", "//host/x.ics", "", "rel/a.ics"}

func randPaths(rng *hx.Rand, valid bool) []string {
	n := 1 + rng.Intn(5)
	if !valid && rng.Intn(4) == 0 {
		n = 0
	}
	var out []string
	for i := 0; i < n; i++ {
		switch {
		case i > 0 && rng.Intn(4) == 0:
			out = append(out, out[rng.Intn(len(out))]) // duplicate
		case !valid && rng.Intn(3) == 0:
			out = append(out, rng.Pick(oddPaths))
		default:
			out = append(out, rng.Pick(goodPaths))
		}
	}
	return out
}

var reportPaths = []string{"/cal/", "/u/cal/work/", "/cal/a b/", "/cal/é/"}

func randRequest(rng *hx.Rand, valid bool) request {
	depth := rng.Intn(6)
	if rng.Intn(4) == 0 {
		return request{multiget: true, cr: randComp(rng, 2, valid, true), paths: randPaths(rng, valid)}
	}
	return request{cr: randComp(rng, 2, valid, true), cf: randCf(rng, depth, valid)}
}

func utcRequest(r request) request {
	r.cr = utcCr(r.cr)
	if !r.multiget {
		r.cf = utcCf(r.cf)
	}
	return r
}

func validRequest(r request) bool {
	if !validComp(r.cr, true) {
		return false
	}
	if r.multiget {
		if len(r.paths) == 0 {
			return false
		}
		for _, p := range r.paths {
			// the premise of the theorems: net/url carries the path unchanged
			if u, err := url.Parse(rfcEscape(p)); err != nil || u.Path != p {
				return false
			}
		}
		return true
	}
	return validCf(r.cf)
}

// ---- documents for the server stream

func rfcDocument(r request) (*dnode, [][2]string) {
	if r.multiget {
		return rfcMultiget(r)
	}
	return rfcQuery(r), nil
}

// walk returns every element node of the document
func walk(n *dnode, out *[]*dnode) {
	*out = append(*out, n)
	for _, k := range n.kids {
		walk(k, out)
	}
}

func find(n *dnode, local string) []*dnode {
	var all, out []*dnode
	walk(n, &all)
	for _, x := range all {
		if x.local == local {
			out = append(out, x)
		}
	}
	return out
}

// shadowDocs: conformant documents in which a namespace declaration (or a
// foreign attribute) is spelled like an attribute of the grammar, before or
// after it (repaired defect eba20a7: encoding/xml matches attribute fields by
// local name in any namespace).
func shadowDocs(r request, rng *hx.Rand) [][]byte {
	var out [][]byte
	for variant := 0; variant < 4; variant++ {
		root, _ := rfcDocument(r)
		var all []*dnode
		walk(root, &all)
		var cands []*dnode
		for _, x := range all {
			if len(x.attrs) > 0 {
				cands = append(cands, x)
			}
		}
		if len(cands) == 0 {
			continue
		}
		x := cands[rng.Intn(len(cands))]
		a := x.attrs[rng.Intn(len(x.attrs))]
		var extra [3]string
		switch variant {
		case 0, 1:
			extra = [3]string{"", "xmlns:" + a[0], "urn:example:shadow"}
		default:
			// a foreign-namespace attribute with the same local name
			x.extra = append(x.extra, [3]string{"", "xmlns:ext", "urn:example:ext"})
			extra = [3]string{"", "ext:" + a[0], "foreign"}
		}
		if variant%2 == 0 {
			x.extra = append(x.extra, extra) // after the grammar's attribute: it wins
		} else {
			// before: written first by moving the grammar's attributes behind
			x.extra = append(x.extra, extra)
			for _, ga := range x.attrs {
				x.extra = append(x.extra, [3]string{"", ga[0], ga[1]})
			}
			x.attrs = nil
		}
		out = append(out, serialize(root, rng, true))
	}
	return out
}

var badTimes = []string{"", "20200101T100000", "20200101T100000z", "20200101T100000.5Z", "20200101T100000,5Z", "2020-01-01T10:00:00Z",
	"20200230T100000Z", "20200101T240000Z", "20200101T106000Z", "20200101T100060Z", "20201301T100000Z", "20200001T100000Z",
	"20200100T100000Z", " 20200101T100000Z", "20200101T100000Z ", "20200101", "00010101T000000Z", "99991231T235959Z",
	"00000101T000000Z", "20210229T000000Z", "21000229T000000Z", "20000229T000000Z", "２０２００１０１T100000Z", "+0200101T100000Z", "20200101t100000Z"}

var badNegates = []string{"", "YES", "true", "yes ", "No", "1", "maybe"}

// mutate damages a conformant document in one of many ways; the result is
// still well-formed XML.
func mutate(root *dnode, rng *hx.Rand) {
	var all []*dnode
	walk(root, &all)
	pick := func(locals ...string) *dnode {
		var c []*dnode
		for _, x := range all {
			for _, l := range locals {
				if x.local == l {
					c = append(c, x)
				}
			}
		}
		if len(c) == 0 {
			return nil
		}
		return c[rng.Intn(len(c))]
	}
	any := all[rng.Intn(len(all))]
	switch rng.Intn(22) {
	case 0: // is-not-defined next to other children
		if x := pick("comp-filter", "prop-filter", "param-filter"); x != nil {
			ind := el(nsC, "is-not-defined", nil)
			if rng.Bool() {
				x.kids = append([]*dnode{ind}, x.kids...)
			} else {
				x.kids = append(x.kids, ind)
			}
		}
	case 1: // a repeated element that the grammar allows once
		if x := pick("time-range", "text-match", "filter", "comp", "expand", "prop", "calendar-data", "is-not-defined", "allprop"); x != nil {
			for _, p := range all {
				for i, k := range p.kids {
					if k == x {
						cp := *x
						if len(cp.attrs) > 0 && rng.Bool() {
							cp.attrs = cp.attrs[:len(cp.attrs)-1]
						}
						if cp.pcdata {
							cp.text = rng.Pick(texts)
						}
						p.kids = append(p.kids[:i+1], append([]*dnode{&cp}, p.kids[i+1:]...)...)
						return
					}
				}
			}
		}
	case 2: // an unknown element, possibly with grammar elements inside
		u := el(rng.Pick([]string{nsC, nsD, "urn:other", ""}), rng.Pick([]string{"unknown", "timezone", "limit-recurrence-set", "comp-filter", "Raw", "prop"}), [][2]string{{"name", "U"}},
			el(nsC, "comp-filter", [][2]string{{"name", "INNER"}}), el(nsC, "is-not-defined", nil))
		if u.ns == nsC && (u.local == "comp-filter" || u.local == "prop") {
			u.ns = "urn:other"
		}
		any.kids = append(any.kids, u)
	case 3: // wrong namespace on an element
		any.ns = rng.Pick([]string{nsD, "urn:other", "", "urn:ietf:params:xml:ns:carddav", nsC + " "})
	case 4: // bad or unusual time text
		if x := pick("time-range", "expand"); x != nil && len(x.attrs) > 0 {
			x.attrs[rng.Intn(len(x.attrs))][1] = rng.Pick(badTimes)
		}
	case 5: // bad negate-condition
		if x := pick("text-match"); x != nil {
			x.attrs = [][2]string{{"negate-condition", rng.Pick(badNegates)}}
		}
	case 6: // a missing attribute
		if len(any.attrs) > 0 {
			i := rng.Intn(len(any.attrs))
			any.attrs = append(any.attrs[:i:i], any.attrs[i+1:]...)
		}
	case 7: // allprop next to prop, allcomp next to comp
		if x := pick("comp"); x != nil {
			x.kids = append(x.kids, el(nsC, rng.Pick([]string{"allprop", "allcomp"}), nil), el(nsC, "prop", [][2]string{{"name", "P"}}), el(nsC, "comp", [][2]string{{"name", "K"}}))
		}
	case 8: // elements inside character data
		if x := pick("text-match", "href"); x != nil {
			x.kids = append(x.kids, el(nsC, "b", nil, &dnode{ns: nsC, local: "i", pcdata: true, text: "inner"}))
		}
	case 9: // another root
		root.local = rng.Pick([]string{"free-busy-query", "calendar-querY", "propfind", "calendar-multiget", "calendar-query"})
	case 10: // root in another namespace
		root.ns = rng.Pick([]string{nsD, "", "urn:other"})
	case 11: // an href that does not parse, or is unusual
		if x := pick("href"); x != nil {
			x.text = rng.Pick([]string{"%zz", "/a%2", "http://[::1", "/ok%20path", "http://host/abs/path", "//host/p", "?q", "#f", "", " /sp", "/a b", "a:b", ":"})
		}
	case 12: // no calendar-data, no prop, two calendar-data, calendar-data without comp
		if x := pick("prop"); x != nil && x.ns == nsD {
			switch rng.Intn(4) {
			case 0:
				if len(x.kids) > 1 {
					x.kids = x.kids[:1]
				}
			case 1:
				x.kids = nil
			case 2:
				x.kids = append(x.kids, el(nsC, "calendar-data", nil, el(nsC, "comp", [][2]string{{"name", "SECOND"}}, el(nsC, "allprop", nil))))
			case 3:
				if cd := pick("calendar-data"); cd != nil && len(cd.kids) > 0 {
					cd.kids = cd.kids[1:]
				}
			}
		}
	case 13: // no hrefs, or no filter
		var keep []*dnode
		for _, k := range root.kids {
			if k.local != "href" && k.local != "filter" {
				keep = append(keep, k)
			}
		}
		root.kids = keep
	case 14: // text in element content
		any.text = rng.Pick([]string{"stray", " x ", "&"})
	case 15: // DAV:allprop / DAV:propname instead of or next to prop
		root.kids = append([]*dnode{el(nsD, rng.Pick([]string{"allprop", "propname"}), nil)}, root.kids...)
	case 16: // child order shuffled
		if len(any.kids) > 1 {
			for i := len(any.kids) - 1; i > 0; i-- {
				j := rng.Intn(i + 1)
				any.kids[i], any.kids[j] = any.kids[j], any.kids[i]
			}
		}
	case 17: // a second comp-filter inside filter
		if x := pick("filter"); x != nil {
			x.kids = append(x.kids, el(nsC, "comp-filter", [][2]string{{"name", "TWO"}}, el(nsC, "prop-filter", [][2]string{{"name", "P2"}})))
		}
	case 18: // collation other than the default, unknown attributes
		if x := pick("text-match", "comp-filter", "time-range"); x != nil {
			x.attrs = append(x.attrs, [2]string{rng.Pick([]string{"collation", "foo", "Name", "novalue"}), rng.Pick([]string{"i;octet", "i;ascii-casemap", "yes", ""})})
		}
	case 19: // content inside elements declared EMPTY
		if x := pick("is-not-defined", "time-range", "allprop", "allcomp", "expand", "prop"); x != nil && x.ns == nsC {
			x.kids = append(x.kids, el(nsC, rng.Pick([]string{"comp-filter", "x", "time-range"}), [][2]string{{"name", "IN"}}))
			x.text = rng.Pick([]string{"", "t"})
		}
	case 20: // a very deep chain of comp-filters
		if x := pick("comp-filter"); x != nil {
			cur := x
			for i := 0; i < 30; i++ {
				k := el(nsC, "comp-filter", [][2]string{{"name", "D"}})
				cur.kids = append(cur.kids, k)
				cur = k
			}
		}
	case 21: // a nested comp with expand inside, and expand given twice
		if x := pick("comp"); x != nil {
			x.kids = append(x.kids, el(nsC, "expand", [][2]string{{"start", "20200101T000000Z"}, {"end", "20200102T000000Z"}}))
		}
	}
}

// rawDocs: documents that are not derived from a request at all
var rawDocs = []string{
	`<x/>`,
	`<C:calendar-query xmlns:C="urn:ietf:params:xml:ns:caldav"/>`,
	`<C:calendar-multiget xmlns:C="urn:ietf:params:xml:ns:caldav"/>`,
	`<calendar-query xmlns="urn:ietf:params:xml:ns:caldav"><filter/></calendar-query>`,
	`<calendar-query xmlns="urn:ietf:params:xml:ns:caldav"><filter><comp-filter/></filter></calendar-query>`,
	`<calendar-query xmlns="urn:ietf:params:xml:ns:caldav"><filter><comp-filter name="A"><time-range/></comp-filter></filter></calendar-query>`,
	`<calendar-query xmlns="urn:ietf:params:xml:ns:caldav"><filter><comp-filter name="A"><time-range start="20200101T000000Z"/><time-range end="20200201T000000Z"/></comp-filter></filter></calendar-query>`,
	`<calendar-query xmlns="urn:ietf:params:xml:ns:caldav"><filter><comp-filter name="A" name2="B"/><comp-filter name="C"><prop-filter name="P"/></comp-filter></filter></calendar-query>`,
	`<calendar-query xmlns="urn:ietf:params:xml:ns:caldav" xmlns:D="DAV:"><D:prop><calendar-data><expand start="20200101T000000Z"/></calendar-data></D:prop><D:prop><calendar-data><comp name="LATE"/></calendar-data></D:prop><filter><comp-filter name="A"/></filter></calendar-query>`,
	`<calendar-query xmlns="urn:ietf:params:xml:ns:caldav" xmlns:D="DAV:"><D:prop><calendar-data><comp name="A"><prop name="P"/></comp><comp name="B"><prop name="Q"/><allcomp/></comp></calendar-data></D:prop><filter><comp-filter name="A"/></filter></calendar-query>`,
	`<calendar-query xmlns="urn:ietf:params:xml:ns:caldav" xmlns:D="DAV:"><D:prop><calendar-data><expand start="bad" end="20200101T000000Z"/></calendar-data></D:prop><filter><comp-filter name="A"/></filter></calendar-query>`,
	`<calendar-multiget xmlns="urn:ietf:params:xml:ns:caldav" xmlns:D="DAV:"><D:href>/a</D:href><D:prop><calendar-data/></D:prop><D:href>/b</D:href></calendar-multiget>`,
	`<calendar-multiget xmlns="urn:ietf:params:xml:ns:caldav" xmlns:D="DAV:"><D:href>/a<!-- c -->b<![CDATA[ c]]></D:href><href>/not-dav</href><D:href> /sp </D:href></calendar-multiget>`,
	`<calendar-multiget xmlns="urn:ietf:params:xml:ns:caldav" xmlns:D="DAV:"><D:allprop/><D:href>/a</D:href></calendar-multiget>`,
	`<calendar-multiget xmlns="urn:ietf:params:xml:ns:caldav" xmlns:D="DAV:"><D:prop><D:getetag/></D:prop><D:href>/a</D:href></calendar-multiget>`,
	`<calendar-query xmlns="urn:ietf:params:xml:ns:caldav"><filter><comp-filter name="A"><prop-filter name="P"><text-match collation="i;octet" negate-condition="no">t</text-match><text-match negate-condition="yes"/></prop-filter></comp-filter></filter></calendar-query>`,
	`<calendar-query xmlns="urn:ietf:params:xml:ns:caldav"><filter><comp-filter name="A"><prop-filter name="P"><param-filter name="Q"><text-match>a</text-match><is-not-defined/></param-filter></prop-filter></comp-filter></filter></calendar-query>`,
}

// ---- encoding/xml's nesting limit (errUnmarshalDepth at 10000 levels; a
// comp-filter inside a comp-filter, a comp inside a comp cost two each)

// deepCf: n comp-filters nested in each other; rich = the innermost carries a
// prop-filter with a param-filter with a text-match (five more levels).
func deepCf(n int, rich bool) cfV {
	c := cfV{name: "VEVENT", start: zeroInst, end: zeroInst}
	if rich {
		c.props = []pfV{{name: "ATTENDEE", start: zeroInst, end: zeroInst, params: []pafV{{name: "PARTSTAT", tm: &tmatch{"x", false}}}}}
	}
	for i := 1; i < n; i++ {
		c = cfV{name: "A", start: zeroInst, end: zeroInst, comps: []cfV{c}}
	}
	return c
}

// deepCr: n comps nested in each other; withProp = the innermost names a property.
func deepCr(n int, withProp bool) crV {
	c := crV{name: "VALARM"}
	if withProp {
		c.props = []string{"TRIGGER"}
	}
	for i := 1; i < n; i++ {
		c = crV{name: "A", comps: []crV{c}}
	}
	return c
}

// deepUnknown: a calendar-query whose filter's comp-filter contains n nested
// elements the grammar does not know (skipped by the decoder, at no depth
// cost), resp. whose DAV:prop asks for a property with n nested children.
func deepUnknown(n int, inProp bool) []byte {
	open := strings.Repeat("<C:x>", n)
	cl := strings.Repeat("</C:x>", n)
	prop := "<D:getetag/>"
	inner := open + cl
	if inProp {
		prop = "<D:getetag/><C:y>" + open + cl + "</C:y>"
		inner = ""
	}
	return []byte(`<?xml version="1.0" encoding="utf-8"?><C:calendar-query xmlns:C="urn:ietf:params:xml:ns:caldav" xmlns:D="DAV:"><D:prop>` + prop +
		`</D:prop><C:filter><C:comp-filter name="VCALENDAR">` + inner + `</C:comp-filter></C:filter></C:calendar-query>`)
}

// exhaustiveSample: a few fixed filters with every kind of node, for the sequence cases
func exhaustiveSample(i int) cfV {
	fs := []cfV{
		{name: "VCALENDAR", start: zeroInst, end: zeroInst},
		{name: "VCALENDAR", start: zeroInst, end: zeroInst, comps: []cfV{{name: "VEVENT", start: exStart, end: exEnd}}},
		{name: "VCALENDAR", start: zeroInst, end: zeroInst, comps: []cfV{{name: "VTODO", ind: true, start: zeroInst, end: zeroInst}}},
		{name: "VCALENDAR", start: zeroInst, end: zeroInst, comps: []cfV{{name: "VEVENT", start: zeroInst, end: zeroInst,
			props: []pfV{{name: "ATTENDEE", start: zeroInst, end: zeroInst, tm: &tmatch{" a<b ", true},
				params: []pafV{{name: "PARTSTAT", tm: &tmatch{"x", false}}, {name: "ROLE", ind: true}}}}}}},
		{name: "VCALENDAR", start: zeroInst, end: zeroInst, props: []pfV{{name: "X", ind: true, start: zeroInst, end: zeroInst}},
			comps: []cfV{{name: "VEVENT", start: zeroInst, end: exEnd}, {name: "VJOURNAL", start: zeroInst, end: zeroInst}}},
	}
	return fs[i%len(fs)]
}
